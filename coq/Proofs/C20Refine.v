(* C20 — refinement of the resource-directory model (heap + two indexes + timers) to the abstract directory of
   Model/C20Spec.v: every request and every passage of time commutes with [abs] and is answered as the specification answers. *)
From Coq Require Import String.
From Verif Require Import Lib.Py Lib.Tactics Model.C20Str Model.C20 Model.C20Spec Proofs.C20Dict Proofs.C20Up Proofs.C20 Proofs.C20More Proofs.C20RefA.
Open Scope Z_scope.

(* ------------------------------------------------------------------ entries and registrations *)
Lemma reg_of_entry_of r : reg_of_entry (entry_of r) = set_timer r None.
Proof. destruct r; reflexivity. Qed.

(* the specification's write is the model's update_params, stamped with the instant of the request *)
Lemma write_params_spec r remote p init t s :
  write_params (entry_of r) remote p init t =
  match update_params r remote p init t s with UpOk r' => Ok (entry_of r') | UpFail _ e => Raise e end.
Proof.
  unfold write_params. rewrite reg_of_entry_of. rewrite (update_params_timer_indep r None remote p init t s 0).
  destruct (update_params r remote p init t s) as [r'|r' e] eqn:E; [|reflexivity].
  apply update_params_ok in E. destruct E as (_ & _ & _ & Et). f_equal.
  unfold entry_of, entry_of_reg. rewrite Et. destruct r'. cbn. f_equal. lia.
Qed.

Lemma filter_map_in {A B} (g : A -> B) (f : B -> bool) (h : A -> bool) l :
  (forall x, In x l -> f (g x) = h x) -> filter f (map g l) = map g (filter h l).
Proof.
  induction l as [|x l IH]; cbn; intros E; [reflexivity|].
  rewrite (E x (or_introl eq_refl)). rewrite IH by (intros y Hy; apply E; right; exact Hy). destruct (h x); reflexivity.
Qed.

Definition ent (st : rd) (kv : key * Z) : entry := entry_of (obj st (snd kv)).
Lemma abs_entries st : d_entries (abs st) = map (ent st) (by_key st).
Proof. reflexivity. Qed.

Lemma ent_key st k id : Inv st -> In (k, id) (by_key st) -> e_key (ent st (k, id)) = k.
Proof. intros I H. destruct (indexes_bijective_lemma st I) as (_ & _ & _ & B & _). destruct (B _ _ H) as [E _]. exact E. Qed.

Lemma find_key_abs st k : Inv st ->
  find_key (d_entries (abs st)) k = match dget key_eqb (by_key st) k with Some id => Some (entry_of (obj st id)) | None => None end.
Proof.
  intros I. rewrite abs_entries. unfold find_key.
  assert (G : forall l, incl l (by_key st) ->
     find (fun e => key_eqb (e_key e) k) (map (ent st) l) = match dget key_eqb l k with Some id => Some (entry_of (obj st id)) | None => None end).
  { induction l as [|[k' id] l IH]; intros Hin; cbn [map find dget]; [reflexivity|].
    rewrite (ent_key st k' id I) by (apply Hin; left; reflexivity).
    destruct (key_eqb k' k); [reflexivity|]. apply IH. intros x Hx. apply Hin. right. exact Hx. }
  apply G. apply incl_refl.
Qed.

Lemma without_key_abs st k (l : list (key * Z)) : incl l (by_key st) -> Inv st ->
  without_key (map (ent st) l) k = map (ent st) (filter (fun kv => negb (key_eqb (fst kv) k)) l).
Proof.
  intros Hin I. unfold without_key. apply filter_map_in. intros [k' id] H. cbn [fst].
  rewrite (ent_key st k' id I) by (apply Hin; exact H). reflexivity.
Qed.

(* ------------------------------------------------------------------ addressing a registration by its location *)
Lemma find_unique {A} (f : A -> bool) (l : list A) x : In x l -> f x = true -> (forall y, In y l -> f y = true -> y = x) -> find f l = Some x.
Proof.
  induction l as [|a l IH]; cbn; intros Hin Hf U; [contradiction|].
  destruct (f a) eqn:Fa.
  - f_equal. apply U; auto.
  - destruct Hin as [->|Hin]; [congruence|]. apply IH; auto.
Qed.
Lemma find_none_all {A} (f : A -> bool) (l : list A) : (forall y, In y l -> f y = false) -> find f l = None.
Proof. induction l as [|a l IH]; cbn; intros H; [reflexivity|]. rewrite (H a (or_introl eq_refl)). apply IH. intros y Hy. apply H. right. exact Hy. Qed.

Lemma ent_loc st k id : Inv st -> In (k, id) (by_key st) -> In (e_loc (ent st (k, id)), id) (by_path st).
Proof. intros I H. destruct (indexes_bijective_lemma st I) as (_ & _ & _ & B & _). destruct (B _ _ H) as [_ E]. exact E. Qed.

Lemma entry_at_abs st path : Inv st ->
  entry_at (abs st) path = match lookup_path st path with Some id => Some (entry_of (obj st id)) | None => None end.
Proof.
  intros I. unfold entry_at, lookup_path. destruct path as [|s [|e [|x l]]]; try reflexivity.
  destruct (String.eqb e EmptyString); [|reflexivity]. rewrite abs_entries.
  destruct (indexes_bijective_lemma st I) as (_ & NP & _ & Bk & Bp).
  destruct (find (fun kv : Z * Z => String.eqb (str_of_Z (fst kv)) s) (by_path st)) as [[p id]|] eqn:F.
  - apply find_some in F. destruct F as [Hin Hs]. cbn [fst snd] in *. apply String.eqb_eq in Hs.
    destruct (Bp _ _ Hin) as [Ep Hk].
    apply find_unique.
    + apply in_map_iff. exists (r_key (obj st id), id). split; [reflexivity|exact Hk].
    + cbn. rewrite Ep. apply String.eqb_eq. exact Hs.
    + intros y Hy Fy. apply in_map_iff in Hy. destruct Hy as ([k2 id2] & <- & H2). unfold ent in *. cbn [snd e_loc entry_of entry_of_reg] in *.
      apply String.eqb_eq in Fy. rewrite <- Hs in Fy. apply str_of_Z_inj in Fy.
      destruct (Bk _ _ H2) as [_ H2p]. rewrite Fy in H2p. rewrite (In_fun _ _ _ _ NP H2p Hin). reflexivity.
  - apply find_none_all. intros y Hy. apply in_map_iff in Hy. destruct Hy as ([k2 id2] & <- & H2).
    destruct (Bk _ _ H2) as [_ H2p]. pose proof (find_none _ _ F _ H2p) as N. cbn [fst] in N. exact N.
Qed.

(* ------------------------------------------------------------------ the location given to a new registration *)
Lemma npf_least bp f : forall i, i <= new_pathtail_from f bp i /\ (forall j, i <= j < new_pathtail_from f bp i -> dmem Z.eqb bp j = true).
Proof.
  induction f as [|f IH]; intros i; cbn [new_pathtail_from]; [split; [lia|intros; lia]|].
  destruct (dmem Z.eqb bp i) eqn:E; [|split; [lia|intros; lia]].
  destruct (IH (i + 1)) as [A B]. split; [lia|]. intros j Hj. destruct (Z.eq_dec j i) as [->|N]; [exact E|apply B; lia].
Qed.
Lemma npf_fresh (bp : list (Z * Z)) : dmem Z.eqb bp (new_pathtail_from (S (length bp)) bp 1) = false.
Proof.
  pose proof (new_pathtail_fresh (with_by_path empty_rd bp)) as H. unfold _new_pathtail in H. cbn [by_path with_by_path] in H.
  apply dmem_false. apply (notin_dget_None Z.eqb Zeqb_spec). exact H.
Qed.
Lemma npf_same_members (bp1 bp2 : list (Z * Z)) : (forall j, dmem Z.eqb bp1 j = dmem Z.eqb bp2 j) ->
  new_pathtail_from (S (length bp1)) bp1 1 = new_pathtail_from (S (length bp2)) bp2 1.
Proof.
  intros E. set (r1 := new_pathtail_from (S (length bp1)) bp1 1). set (r2 := new_pathtail_from (S (length bp2)) bp2 1).
  pose proof (npf_fresh bp1) as F1. pose proof (npf_fresh bp2) as F2. fold r1 in F1. fold r2 in F2.
  destruct (npf_least bp1 (S (length bp1)) 1) as [A1 B1]. destruct (npf_least bp2 (S (length bp2)) 1) as [A2 B2]. fold r1 in A1, B1. fold r2 in A2, B2.
  destruct (Z_lt_ge_dec r1 r2) as [L|G].
  - specialize (B2 r1 (conj A1 L)). rewrite <- E in B2. congruence.
  - destruct (Z_lt_ge_dec r2 r1) as [L|G2]; [|lia]. specialize (B1 r2 (conj A2 L)). rewrite E in B1. congruence.
Qed.

Lemma dmem_In_keys {V} (d : list (Z * V)) j : dmem Z.eqb d j = true <-> In j (map fst d).
Proof.
  split.
  - intros H. apply dmem_true in H. destruct H as [v H]. apply (dget_In Z.eqb Zeqb_spec) in H. apply (in_map fst) in H. exact H.
  - intros H. destruct (dmem Z.eqb d j) eqn:E; [reflexivity|]. apply dmem_false in E. apply (dget_None_notin Z.eqb Zeqb_spec) in E. contradiction.
Qed.

Lemma free_location_abs st : Inv st -> free_location (d_entries (abs st)) = _new_pathtail st.
Proof.
  intros I. unfold free_location, _new_pathtail. rewrite <- (map_length (fun e => (e_loc e, 0)) (d_entries (abs st))).
  apply npf_same_members. intros j.
  destruct (indexes_bijective_lemma st I) as (_ & _ & _ & Bk & Bp).
  assert (Iff : In j (map fst (map (fun e => (e_loc e, 0)) (d_entries (abs st)))) <-> In j (map fst (by_path st))).
  { rewrite abs_entries, !map_map. cbn [fst]. split; intros H; apply in_map_iff in H.
    - destruct H as ([k id] & <- & H). destruct (Bk _ _ H) as [_ Hp]. apply (in_map fst) in Hp. exact Hp.
    - destruct H as ([p id] & <- & H). destruct (Bp _ _ H) as [Ep Hk]. apply in_map_iff. exists (r_key (obj st id), id). split; [exact Ep|exact Hk]. }
  rewrite <- !dmem_In_keys in Iff.
  destruct (dmem Z.eqb (map (fun e => (e_loc e, 0)) (d_entries (abs st))) j), (dmem Z.eqb (by_path st) j); try reflexivity.
  - symmetry. apply Iff. reflexivity.
  - apply Iff. reflexivity.
Qed.

(* ------------------------------------------------------------------ abs of the state shapes produced by the handlers *)
Lemma dset_notin_app {K V} (eqb : K -> K -> bool) (spec : forall a b, eqb a b = true <-> a = b) (d : list (K * V)) k v :
  ~ In k (map fst d) -> dset eqb d k v = d ++ [(k, v)].
Proof.
  induction d as [|[k' v'] d IH]; cbn; intros N; [reflexivity|].
  destruct (eqb k' k) eqn:E; [apply spec in E; subst; tauto|]. rewrite IH; tauto.
Qed.

Lemma abs_deleted st id k : Inv st -> In (k, id) (by_key st) ->
  abs (deleted st id) = with_entries (abs st) (without_key (d_entries (abs st)) k).
Proof.
  intros I H. destruct (Inv_indexed_delete st id k I H) as [_ Hk]. destruct (deleted_frame st id k I H) as (F1 & _ & _).
  unfold abs at 1, with_entries. f_equal. rewrite abs_entries.
  rewrite (without_key_abs st k (by_key st) (incl_refl _) I).
  assert (E : by_key (deleted st id) = filter (fun kv => negb (key_eqb (fst kv) k)) (by_key st)).
  { unfold deleted. cbn [by_key]. rewrite Hk. apply ddel_filter; [apply key_eqb_spec|apply I]. }
  apply eq_trans with (map (ent (deleted st id)) (by_key (deleted st id))); [reflexivity|].
  rewrite <- E. apply map_ext_in. intros [k2 id2] H2. unfold ent. cbn [snd]. destruct (F1 _ _ H2) as (_ & _ & Eo). rewrite Eo. reflexivity.
Qed.

Lemma abs_registered st k r : Inv st -> r_key r = k -> r_path r = location_for st k -> has_timer r = true ->
  abs (registered st k r) = with_entries (abs st) (without_key (d_entries (abs st)) k ++ [entry_of r]).
Proof.
  intros I Rk Rp Rt. pose proof (Inv_registered st k r I Rk Rp Rt) as I1.
  destruct (registered_frame st k r I Rk Rp Rt) as [_ F2].
  pose proof (inv_keys _ _ _ _ _ I) as NK.
  assert (Ebk : by_key (registered st k r) = filter (fun kv => negb (key_eqb (fst kv) k)) (by_key st) ++ [(k, next_id st)]).
  { unfold registered. cbn [by_key]. destruct (dget key_eqb (by_key st) k) as [oid|] eqn:Eold.
    - pose proof (dget_In key_eqb key_eqb_spec _ _ _ Eold) as Hold. destruct (Inv_indexed_delete st oid k I Hold) as [_ Hk].
      unfold deleted. cbn [by_key]. rewrite Hk.
      rewrite (dset_notin_app key_eqb key_eqb_spec); [rewrite (ddel_filter key_eqb key_eqb_spec) by exact NK; reflexivity|].
      rewrite (ddel_keys_in key_eqb key_eqb_spec) by exact NK. tauto.
    - pose proof (dget_None_notin key_eqb key_eqb_spec _ _ Eold) as N.
      rewrite (dset_notin_app key_eqb key_eqb_spec) by exact N.
      rewrite <- (ddel_filter key_eqb key_eqb_spec) by exact NK. rewrite (ddel_notin key_eqb key_eqb_spec) by exact N. reflexivity. }
  unfold abs at 1, with_entries. f_equal.
  rewrite Ebk, map_app. rewrite abs_entries, (without_key_abs st k (by_key st) (incl_refl _) I). f_equal.
  - apply map_ext_in. intros [k2 id2] H2. apply filter_In in H2. destruct H2 as [H2 Nk]. cbn [fst] in Nk.
    assert (Nk' : k2 <> k). { intros ->. rewrite (proj2 (key_eqb_spec k k) eq_refl) in Nk. discriminate. }
    destruct (F2 _ _ H2 Nk') as [_ Eo]. cbn [snd]. rewrite Eo. reflexivity.
  - cbn [map snd]. f_equal. f_equal. apply obj_In; [apply I1|]. unfold registered. cbn [objs]. apply in_or_app. right. left. reflexivity.
Qed.

Lemma entry_of_set_links r ls : entry_of (set_links r ls) = with_links (entry_of r) ls.
Proof. destruct r. reflexivity. Qed.

Lemma obj_dset st' st id r' id2 : objs st' = dset Z.eqb (objs st) id r' -> obj st' id2 = if Z.eqb id2 id then r' else obj st id2.
Proof.
  intros E. unfold obj. rewrite E. destruct (Z.eqb id2 id) eqn:Ei.
  - apply Z.eqb_eq in Ei. subst. rewrite (dget_dset_same Z.eqb Zeqb_spec). reflexivity.
  - rewrite (dget_dset_other Z.eqb Zeqb_spec); [reflexivity|]. intros ->. rewrite Z.eqb_refl in Ei. discriminate.
Qed.

Lemma abs_updated st st' id k r' : Inv st -> In (k, id) (by_key st) -> r_key r' = k ->
  objs st' = dset Z.eqb (objs st) id r' -> by_key st' = by_key st -> now st' = now st ->
  abs st' = with_entries (abs st) (replace_key (d_entries (abs st)) k (entry_of r')).
Proof.
  intros I H Rk Eo Ek En. unfold abs at 1, with_entries. rewrite Ek, En. f_equal.
  rewrite abs_entries. unfold replace_key. rewrite map_map. apply map_ext_in. intros [k2 id2] H2. cbn [snd].
  rewrite (ent_key st k2 id2 I H2). unfold ent. cbn [snd]. rewrite (obj_dset st' st id r' id2 Eo).
  destruct (key_eqb k2 k) eqn:EK.
  - apply key_eqb_spec in EK. subst k2. rewrite (In_fun _ _ _ _ (inv_keys _ _ _ _ _ I) H2 H). rewrite Z.eqb_refl. reflexivity.
  - destruct (Z.eqb id2 id) eqn:Ei; [|reflexivity]. apply Z.eqb_eq in Ei. subst id2.
    rewrite (key_of_id st k2 k id I H2 H) in EK. rewrite (proj2 (key_eqb_spec k k) eq_refl) in EK. discriminate.
Qed.

(* ------------------------------------------------------------------ expiry: firing the due timers = dropping the entries whose lifetime has passed *)
Definition Qd (st : rd) (t : Z) (kv : key * Z) : bool :=
  match r_timer (obj st (snd kv)) with Some (d, _) => t <? d | None => false end.

Lemma filter_all_true {A} (f : A -> bool) l : (forall x, In x l -> f x = true) -> filter f l = l.
Proof. induction l as [|x l IH]; cbn; intros H; [reflexivity|]. rewrite (H x (or_introl eq_refl)). rewrite IH; [reflexivity|]. intros y Hy. apply H. right. exact Hy. Qed.
Lemma filter_filter {A} (f g : A -> bool) l : filter f (filter g l) = filter (fun x => g x && f x) l.
Proof. induction l as [|x l IH]; cbn; [reflexivity|]. destruct (g x); cbn; [destruct (f x); rewrite IH; reflexivity|exact IH]. Qed.

Lemma indexed_has_timer st k id : Inv st -> In (k, id) (by_key st) -> exists r d s, In (id, r) (objs st) /\ obj st id = r /\ r_timer r = Some (d, s).
Proof.
  intros I H. destruct (inv_bk _ _ _ _ _ I _ _ H) as (r & Ho & _ & _ & Ht). unfold has_timer in Ht.
  destruct (r_timer r) as [[d s]|] eqn:E; [|discriminate]. exists r, d, s. split; [exact Ho|split; [apply obj_In; [apply I|exact Ho]|exact E]].
Qed.

Lemma no_pending_no_index st : Inv st -> (forall id r, In (id, r) (objs st) -> r_timer r = None) -> by_key st = [].
Proof.
  intros I N. destruct (by_key st) as [|[k id] l] eqn:E; [reflexivity|]. exfalso.
  assert (H : In (k, id) (by_key st)) by (rewrite E; left; reflexivity).
  destruct (indexed_has_timer st k id I H) as (r & d & s & Ho & _ & Et). rewrite (N _ _ Ho) in Et. discriminate.
Qed.

Lemma by_key_fire_due fuel : forall st t, Inv st -> (pending (objs st) <= fuel)%nat ->
  by_key (fire_due fuel st t) = filter (Qd st t) (by_key st).
Proof.
  induction fuel as [|f IH]; intros st t I Hf; cbn [fire_due].
  - rewrite (no_pending_no_index st I); [reflexivity|]. intros id r Ho. destruct (r_timer r) as [[d s]|] eqn:E; [|reflexivity]. exfalso.
    unfold pending in Hf. assert (In (id, r) (filter (fun kv => has_timer (snd kv)) (objs st))).
    { apply filter_In. split; [exact Ho|]. cbn. unfold has_timer. rewrite E. reflexivity. }
    destruct (filter _ (objs st)); [contradiction|cbn in Hf; lia].
  - destruct (next_timer st) as [[[due0 s0] id0]|] eqn:E.
    + destruct (due0 <=? t) eqn:Ed.
      * destruct (fire_one st due0 s0 id0 I E) as [Hd Hi]. rewrite Hd.
        destruct (next_timer_In _ _ _ _ E) as (r0 & Hin0 & Ht0).
        set (st0 := with_now st (Z.max (now st) due0)) in *.
        assert (Hk0 : In (r_key r0, id0) (by_key st)). { apply (inv_tm _ _ _ _ _ I _ _ Hin0). unfold has_timer. rewrite Ht0. reflexivity. }
        assert (Eo0 : obj st id0 = r0) by (apply obj_In; [apply I|exact Hin0]).
        rewrite IH; [|exact Hi|].
        2:{ unfold deleted. cbn [objs]. change (obj st0 id0) with (obj st id0). rewrite Eo0.
            pose proof (pending_cancel (objs st) id0 r0 (inv_ids _ _ _ _ _ I) Hin0) as P.
            unfold has_timer in P at 1. rewrite Ht0 in P. specialize (P eq_refl). change (objs st0) with (objs st). lia. }
        destruct (deleted_frame st0 id0 _ I Hk0) as (F1 & F2 & _).
        assert (Ebk : by_key (deleted st0 id0) = filter (fun kv => negb (key_eqb (fst kv) (r_key r0))) (by_key st)).
        { unfold deleted. cbn [by_key]. change (obj st0 id0) with (obj st id0). rewrite Eo0. change (by_key st0) with (by_key st).
          apply ddel_filter; [apply key_eqb_spec|apply I]. }
        rewrite Ebk, filter_filter. apply filter_ext_in. intros [k id] H. cbn [fst].
        destruct (key_eqb k (r_key r0)) eqn:EK; cbn [negb andb].
        -- apply key_eqb_spec in EK. subst k. rewrite (In_fun _ _ _ _ (inv_keys _ _ _ _ _ I) H Hk0).
           unfold Qd. cbn [snd]. rewrite Eo0, Ht0. symmetry. lia.
        -- assert (N : id <> id0). { intros ->. rewrite (key_of_id st k (r_key r0) id0 I H Hk0) in EK. rewrite (proj2 (key_eqb_spec _ _) eq_refl) in EK. discriminate. }
           destruct (F2 k id H N) as [_ Eo]. unfold Qd. cbn [snd]. rewrite Eo. reflexivity.
      * symmetry. apply filter_all_true. intros [k id] H. destruct (indexed_has_timer st k id I H) as (r & d & s & Ho & Eo & Et).
        unfold Qd. cbn [snd]. rewrite Eo, Et. destruct (next_timer_min st id r d s Ho Et) as (m & Hm & Hle). rewrite E in Hm. inv Hm.
        unfold due_of in Hle. cbn in Hle. lia.
    + rewrite (no_pending_no_index st I); [reflexivity|]. intros id r Ho. destruct (r_timer r) as [[d s]|] eqn:Et; [|reflexivity].
      destruct (next_timer_min st id r d s Ho Et) as (m & Hm & _). rewrite E in Hm. discriminate.
Qed.

Lemma alive_ent st t k id : Inv st -> In (k, id) (by_key st) -> alive t (ent st (k, id)) = Qd st t (k, id).
Proof.
  intros I H. destruct (indexed_has_timer st k id I H) as (r & d & s & Ho & Eo & Et).
  unfold Qd, ent, alive, expires, entry_of, entry_of_reg. cbn [snd]. rewrite Eo, Et. cbn [e_written e_lt]. f_equal. lia.
Qed.

Lemma abs_fire_due st t : Inv st ->
  d_entries (abs (fire_due (length (objs st)) st t)) = filter (alive t) (d_entries (abs st)).
Proof.
  intros I. rewrite !abs_entries. rewrite by_key_fire_due; [|exact I|apply pending_le].
  destruct (fire_due_frame (length (objs st)) st t I) as [A _].
  rewrite (filter_map_in (ent st) (alive t) (Qd st t)); [|intros [k id] H; apply alive_ent; assumption].
  apply map_ext_in. intros [k id] H. unfold ent. cbn [snd].
  assert (H' : In (k, id) (by_key (fire_due (length (objs st)) st t))). { rewrite by_key_fire_due; [exact H|exact I|apply pending_le]. }
  destruct (A _ _ H') as [_ Eo]. rewrite Eo. reflexivity.
Qed.

Lemma drain_abs st : Inv st -> abs (drain st) = d_expire (abs st).
Proof.
  intros I. unfold d_expire, with_entries. 
  pose proof (fire_due_now (length (objs st)) st (now st) (Z.le_refl _)) as N.
  assert (En : now (drain st) = now st) by (unfold drain; lia).
  apply eq_trans with {| d_entries := d_entries (abs (drain st)); d_now := now (drain st) |}; [reflexivity|].
  rewrite En. unfold drain. rewrite abs_fire_due by exact I. reflexivity.
Qed.
Lemma advance_abs st dt : Inv st -> abs (advance st dt) = d_expire {| d_entries := d_entries (abs st); d_now := d_now (abs st) + dt |}.
Proof.
  intros I. unfold d_expire, with_entries. cbn [d_entries d_now].
  apply eq_trans with {| d_entries := d_entries (abs (fire_due (length (objs st)) st (now st + dt))); d_now := now st + dt |}; [reflexivity|].
  rewrite abs_fire_due by exact I. reflexivity.
Qed.

(* ------------------------------------------------------------------ lookups do not read the timers *)
Definition untimed (r : reg) : reg := set_timer r None.
Lemma py_from_map {A B} (g : A -> B) l i : py_from (map g l) i = map g (py_from l i).
Proof. unfold py_from, blen. rewrite map_length. destruct (i <? 0); apply skipn_map. Qed.
Lemma py_to_map {A B} (g : A -> B) l i : py_to (map g l) i = map g (py_to l i).
Proof. unfold py_to, blen. rewrite map_length. destruct (i <? 0); apply firstn_map. Qed.
Lemma paginate_map {A B} (g : A -> B) l q :
  _paginate (map g l) q = match _paginate l q with Ok l' => Ok (map g l') | Raise e => Raise e end.
Proof.
  unfold _paginate, bind. destruct (pop_single_arg q "page") as [[q1 page]|e]; [|reflexivity].
  destruct (pop_single_arg q1 "count") as [[q2 count]|e]; [|reflexivity].
  destruct page as [pg|]; destruct count as [ct|]; cbn [py_int];
    repeat (match goal with |- context [parse_int ?s] => destruct (parse_int s) end); cbn;
    rewrite ?py_from_map, ?py_to_map; reflexivity.
Qed.

Lemma ep_lookup_regs_untimed regs qs accept : ep_lookup_regs (map untimed regs) qs accept = ep_lookup_regs regs qs accept.
Proof.
  unfold ep_lookup_regs.
  rewrite (filter_map_in untimed _ (fun r => forallb (fun c => ep_keep c r) (criteria_of (query_split qs)))) by reflexivity.
  rewrite paginate_map. destruct (_paginate _ (query_split qs)) as [l|e]; [|reflexivity].
  rewrite map_map. reflexivity.
Qed.
Lemma res_pairs_untimed regs : res_pairs (map untimed regs) = map (fun ec => (untimed (fst ec), snd ec)) (res_pairs regs).
Proof.
  unfold res_pairs. induction regs as [|e l IH]; cbn [map flat_map]; [reflexivity|].
  rewrite map_app, IH. f_equal. change (get_based_links (untimed e)) with (get_based_links e). rewrite map_map. reflexivity.
Qed.
Lemma res_lookup_regs_untimed regs qs accept : res_lookup_regs (map untimed regs) qs accept = res_lookup_regs regs qs accept.
Proof.
  unfold res_lookup_regs. rewrite res_pairs_untimed.
  rewrite (filter_map_in (fun ec : reg * link => (untimed (fst ec), snd ec)) _ (fun ec => forallb (fun c => res_keep c ec) (criteria_of (query_split qs)))).
  2:{ intros [e l] _. reflexivity. }
  rewrite map_map. cbn [snd]. reflexivity.
Qed.
Lemma abs_regs st : map reg_of_entry (d_entries (abs st)) = map untimed (get_endpoints st).
Proof. rewrite abs_entries. unfold get_endpoints. rewrite !map_map. apply map_ext. intros kv. apply reg_of_entry_of. Qed.

(* ------------------------------------------------------------------ initialize_endpoint, equationally *)
Lemma initialize_endpoint_eq st remote q : Inv st ->
  initialize_endpoint st remote q =
  match registration_request q with
  | Raise e => (st, Raise e)
  | Ok (k, static, rest) =>
      match Registration_init static k (location_for st k) remote rest (now st) (next_seq st) with
      | UpFail _ e => (st, Raise e)
      | UpOk r => (registered st k r, Ok (next_id st))
      end
  end.
Proof.
  intros I. unfold initialize_endpoint, registration_request, bind.
  destruct (pop_single_arg q "ep") as [[q1 ep]|e]; [|reflexivity].
  destruct ep as [ep|]; [|reflexivity].
  destruct (pop_single_arg q1 "d") as [[q2 d]|e]; [|reflexivity].
  destruct (pop_single_arg q2 "proxy") as [[q3 proxy]|e]; [|reflexivity].
  destruct (match proxy with Some p => negb (in_strs p ["on"; "yes"; "ondemand"]%string) | None => false end); [reflexivity|].
  match goal with |- context [dmem String.eqb ?s "proxy"] => destruct (dmem String.eqb s "proxy") end; [reflexivity|].
  set (k := (ep, d)). unfold location_for.
  match goal with |- context [Registration_init ?x1 ?x2 ?x3 ?x4 ?x5 ?x6 ?x7] => destruct (Registration_init x1 x2 x3 x4 x5 x6 x7) as [r|r err] eqn:ER end; [|reflexivity].
  unfold Registration_init in ER. apply update_params_ok in ER. cbn [r_key r_path r_links] in ER. destruct ER as (Rk & Rp & Rl & Rt).
  unfold registered.
  destruct (dget key_eqb (by_key st) k) as [oid|] eqn:Eold'.
  - pose proof (dget_In key_eqb key_eqb_spec _ _ _ Eold') as Eold.
    destruct (inv_bk _ _ _ _ _ I _ _ Eold) as (r0 & Ho0 & Hk0 & Hp0 & Ht0).
    pose proof (inv_ids _ _ _ _ _ I) as NI.
    pose proof (obj_In st oid r0 NI Ho0) as Eobj.
    assert (Eget : dget Z.eqb (objs st) oid = Some r0) by (apply In_dget; [apply Zeqb_spec|exact NI|exact Ho0]).
    match goal with |- context [reg_delete ?s oid] => set (st1 := s) end.
    assert (Eobj1 : obj st1 oid = r0).
    { unfold obj, st1. cbn [objs]. rewrite (dget_app_mem Z.eqb _ _ _ _ Eget). reflexivity. }
    rewrite (reg_delete_spec st1 oid).
    + rewrite Eobj in Rp. f_equal.
      unfold deleted, with_by_key, with_by_path. cbn [objs by_key by_path now next_id next_seq loop_exceptions].
      rewrite Eobj1, Eobj. unfold st1. cbn [objs by_key by_path now next_id next_seq loop_exceptions].
      rewrite dset_app_mem; [|apply dmem_true; eauto]. rewrite Rp. reflexivity.
    + rewrite Eobj1. unfold st1. cbn [by_path]. eapply In_dmem; [apply Zeqb_spec|apply (inv_paths _ _ _ _ _ I)|exact Hp0].
    + rewrite Eobj1, Hk0. unfold st1. cbn [by_key]. eapply In_dmem; [apply key_eqb_spec|apply (inv_keys _ _ _ _ _ I)|exact Eold].
  - f_equal. unfold with_by_key, with_by_path. cbn [objs by_key by_path now next_id next_seq loop_exceptions]. rewrite Rp. reflexivity.
Qed.

(* ------------------------------------------------------------------ every handler commutes with abs *)
Lemma replace_key_last es k e0 e' : e_key e0 = k ->
  replace_key (without_key es k ++ [e0]) k e' = without_key es k ++ [e'].
Proof.
  intros E. unfold replace_key, without_key. rewrite map_app. cbn [map]. rewrite E, (proj2 (key_eqb_spec k k) eq_refl). f_equal.
  rewrite <- (map_id (filter _ es)) at 2. apply map_ext_in. intros x Hx. apply filter_In in Hx. destruct Hx as [_ Hx].
  destruct (key_eqb (e_key x) k); [discriminate|reflexivity].
Qed.
Lemma replace_replace es k e1 e2 : e_key e1 = k -> replace_key (replace_key es k e1) k e2 = replace_key es k e2.
Proof.
  intros E. unfold replace_key. rewrite map_map. apply map_ext. intros x. destruct (key_eqb (e_key x) k) eqn:EK; [|rewrite EK; reflexivity].
  rewrite E, (proj2 (key_eqb_spec k k) eq_refl). reflexivity.
Qed.

Lemma lookup_indexed st path id : Inv st -> lookup_path st path = Some id ->
  In (r_key (obj st id), id) (by_key st) /\ exists r, In (id, r) (objs st) /\ obj st id = r.
Proof.
  intros I H. apply lookup_path_In in H. destruct H as (p & Hp & _). destruct (inv_bp _ _ _ _ _ I _ _ Hp) as (r & Ho & _ & Hk).
  pose proof (obj_In st id r (inv_ids _ _ _ _ _ I) Ho) as E. rewrite E. split; [exact Hk|exists r; auto].
Qed.

Lemma _update_params_abs st id remote q st1 res : Inv st -> In (r_key (obj st id), id) (by_key st) -> (exists r, In (id, r) (objs st) /\ obj st id = r) ->
  _update_params st id remote q = (st1, res) ->
  match write_params (entry_of (obj st id)) remote (query_split q) false (now st) with
  | Ok e' => res = None /\ abs st1 = with_entries (abs st) (replace_key (d_entries (abs st)) (r_key (obj st id)) e') /\
             e_key e' = r_key (obj st id) /\ exists r', obj st1 id = r' /\ entry_of r' = e' /\ In (id, r') (objs st1)
  | Raise e => res = Some e /\ st1 = st
  end.
Proof.
  intros I Hk (r & Ho & Er) H. unfold _update_params in H. rewrite (write_params_spec (obj st id) remote (query_split q) false (now st) (next_seq st)).
  destruct (update_params (obj st id) remote (query_split q) false (now st) (next_seq st)) as [r'|r' e] eqn:EU; inv H.
  - pose proof (update_params_ok _ _ _ _ _ _ _ EU) as (Ek & _). split; [reflexivity|]. split; [|split; [exact Ek|]].
    + eapply abs_updated; eauto; reflexivity.
    + exists r'. split; [|split; [reflexivity|]].
      * unfold obj. cbn [objs]. rewrite (dget_dset_same Z.eqb Zeqb_spec). reflexivity.
      * cbn [objs]. apply (In_dset Z.eqb Zeqb_spec); [apply I|]. left. auto.
  - apply update_params_fail_clean in EU. destruct EU as [-> _]. split; [reflexivity|].
    unfold set_obj. rewrite dset_same; [destruct st; reflexivity|]. apply In_dget; [apply Zeqb_spec|apply I|exact Ho].
Qed.

Lemma handle_abs st o st1 r : Inv st -> is_advance o = false -> handle st o = (st1, r) -> d_handle (abs st) o = (abs st1, r).
Proof.
  intros I NA. destruct o as [remote q b|path remote q b|path remote q b|path|path accept|q accept|q accept|dt]; cbn [handle d_handle]; try discriminate NA.
  - (* Register *)
    unfold directory_render_post, d_register. destruct (link_format_from_message b) as [links|e]; [|intros H; inv H; reflexivity].
    rewrite (initialize_endpoint_eq st remote (query_split q) I).
    destruct (registration_request (query_split q)) as [[[k static] rest]|e]; [|intros H; inv H; reflexivity].
    rewrite (find_key_abs st k I).
    assert (Eloc : match match dget key_eqb (by_key st) k with Some id => Some (entry_of (obj st id)) | None => None end with
                   | Some old => e_loc old | None => free_location (d_entries (abs st)) end = location_for st k).
    { unfold location_for. destruct (dget key_eqb (by_key st) k); [reflexivity|apply free_location_abs; exact I]. }
    rewrite Eloc. unfold Registration_init.
    set (r0 := {| r_key := k; r_path := location_for st k; r_lt := 90000; r_base := EmptyString; r_base_explicit := false;
                  r_params := static; r_links := []; r_timer := None |}).
    change {| e_key := k; e_loc := location_for st k; e_lt := 90000; e_base := EmptyString; e_explicit := false; e_params := static;
              e_links := []; e_written := 0 |} with (entry_of r0).
    change (d_now (abs st)) with (now st).
    rewrite (write_params_spec r0 remote rest true (now st) (next_seq st)).
    destruct (update_params r0 remote rest true (now st) (next_seq st)) as [r1|r1 e] eqn:EU; [|intros H; inv H; reflexivity].
    pose proof (update_params_ok _ _ _ _ _ _ _ EU) as (Rk & Rp & Rl & Rt). cbn [r0 r_key r_path] in Rk, Rp.
    assert (Tm : has_timer r1 = true) by (unfold has_timer; rewrite Rt; reflexivity).
    pose proof (Inv_registered st k r1 I Rk Rp Tm) as I1.
    assert (Hin : In (next_id st, r1) (objs (registered st k r1))). { unfold registered. cbn [objs]. apply in_or_app. right. left. reflexivity. }
    pose proof (obj_In _ _ _ (inv_ids _ _ _ _ _ I1) Hin) as Eo. rewrite Eo. intros H; injection H as <- <-. f_equal; [|rewrite Rp; reflexivity].
    assert (Hk : In (k, next_id st) (by_key (registered st k r1))).
    { apply (dget_In key_eqb key_eqb_spec). unfold registered. cbn [by_key]. apply (dget_dset_same key_eqb key_eqb_spec). }
    rewrite (abs_updated (registered st k r1) (set_obj (registered st k r1) (next_id st) (set_links r1 links)) (next_id st) k (set_links r1 links) I1 Hk);
      try reflexivity; [|exact Rk].
    rewrite (abs_registered st k r1 I Rk Rp Tm). unfold with_entries. cbn [d_entries d_now]. f_equal.
    rewrite entry_of_set_links. symmetry. apply replace_key_last. exact Rk.
  - (* UpdatePost *)
    unfold d_update_post. rewrite (entry_at_abs st path I). destruct (lookup_path st path) as [id|] eqn:EP; [|intros H; inv H; reflexivity].
    destruct (lookup_indexed st path id I EP) as [Hk Hr].
    unfold registration_render_post. destruct (_ || _); [intros H; inv H; reflexivity|].
    destruct (_update_params st id remote q) as [st2 res] eqn:EU. pose proof (_update_params_abs st id remote q st2 res I Hk Hr EU) as S.
    change (d_now (abs st)) with (now st). change (e_key (entry_of (obj st id))) with (r_key (obj st id)).
    destruct (write_params (entry_of (obj st id)) remote (query_split q) false (now st)) as [e'|e].
    + destruct S as (-> & Ea & _). intros H; inv H. rewrite Ea. reflexivity.
    + destruct S as (-> & ->). intros H; inv H. reflexivity.
  - (* UpdatePut *)
    unfold d_update_put. rewrite (entry_at_abs st path I). destruct (lookup_path st path) as [id|] eqn:EP; [|intros H; inv H; reflexivity].
    destruct (lookup_indexed st path id I EP) as [Hk Hr].
    unfold registration_render_put. destruct (link_format_from_message b) as [links|e]; [|intros H; inv H; reflexivity].
    destruct (_update_params st id remote q) as [st2 res] eqn:EU. pose proof (_update_params_abs st id remote q st2 res I Hk Hr EU) as S.
    change (d_now (abs st)) with (now st). change (e_key (entry_of (obj st id))) with (r_key (obj st id)).
    destruct (write_params (entry_of (obj st id)) remote (query_split q) false (now st)) as [e'|e].
    + destruct S as (-> & Ea & Ek & r' & Eo & Ee & Hin). intros H; inv H. f_equal.
      assert (I2 : Inv st2).
      { destruct (lookup_path_In _ _ _ EP) as (p & Hp & _). destruct (_update_params_Inv st id remote q st2 None I (ex_intro _ p Hp) EU) as [I2 _]. exact I2. }
      assert (Ebk : by_key st2 = by_key st).
      { unfold _update_params in EU. destruct (update_params _ _ _ _ _ _); inv EU; reflexivity. }
      assert (Hk2 : In (r_key (obj st id), id) (by_key st2)) by (rewrite Ebk; exact Hk).
      rewrite (abs_updated st2 (set_obj st2 id (set_links (obj st2 id) links)) id (r_key (obj st id)) (set_links (obj st2 id) links) I2 Hk2);
        try reflexivity.
      2:{ cbn. rewrite <- Ek. reflexivity. }
      rewrite Ea. unfold with_entries. cbn [d_entries d_now]. f_equal. rewrite entry_of_set_links. symmetry. apply replace_replace. exact Ek.
    + destruct S as (-> & ->). intros H; inv H. reflexivity.
  - (* Delete *)
    unfold d_delete. rewrite (entry_at_abs st path I). destruct (lookup_path st path) as [id|] eqn:EP; [|intros H; inv H; reflexivity].
    destruct (lookup_indexed st path id I EP) as [Hk Hr].
    unfold registration_render_delete. destruct (Inv_indexed_delete st id _ I Hk) as [-> _]. intros H; inv H.
    rewrite (abs_deleted st id _ I Hk). reflexivity.
  - rewrite (entry_at_abs st path I). destruct (lookup_path st path) as [id|]; intros H; inv H; reflexivity.
  - intros H; inv H. rewrite abs_regs, ep_lookup_regs_untimed. reflexivity.
  - intros H; inv H. rewrite abs_regs, res_lookup_regs_untimed. reflexivity.
Qed.

(* ------------------------------------------------------------------ the refinement theorem *)
Lemma step_abs st o : Inv st -> Settled st -> nonneg_time o -> d_step (abs st) o = (abs (fst (step st o)), snd (step st o)).
Proof.
  intros I S NN. destruct (is_advance o) eqn:NA.
  - destruct o; try discriminate NA. cbn in NN. rewrite (advance_step st dt I NN). cbn [fst snd].
    unfold d_step. cbn [d_handle]. rewrite <- (advance_abs st dt I). reflexivity.
  - unfold step, d_step. destruct (handle st o) as [st1 r] eqn:EH. rewrite (handle_abs st o st1 r I NA EH). cbn [fst snd].
    destruct (handle_Inv _ _ _ _ I EH) as (I1 & _ & _). rewrite (drain_abs st1 I1). reflexivity.
Qed.

Lemma abs_empty : abs empty_rd = empty_dir. Proof. reflexivity. Qed.

Lemma run_abs ops : forall st, Inv st -> Settled st -> Forall nonneg_time ops ->
  d_run (abs st) ops = map o_resp (run st ops) /\ d_run_state (abs st) ops = abs (run_state st ops).
Proof.
  induction ops as [|o ops IH]; intros st I S NN; cbn [d_run run d_run_state run_state map]; [auto|].
  inv NN. rewrite (step_abs st o I S H1). destruct (step st o) as [st1 r] eqn:E. cbn [fst snd].
  destruct (step_Inv _ _ _ _ I E) as (I1 & S1 & _). destruct (IH st1 I1 S1 H2) as [A B]. split; [|exact B].
  cbn [map o_resp observe]. rewrite A. reflexivity.
Qed.

(* the abstract directory on its own: after every event all entries are within their lifetime; a request answered 4.xx
   leaves it as it was *)
Definition all_alive (d : dir) : Prop := Forall (fun e => d_now d < expires e) (d_entries d).
Lemma d_expire_alive d : all_alive (d_expire d).
Proof.
  unfold all_alive, d_expire, with_entries. cbn [d_entries d_now]. apply Forall_forall. intros e H. apply filter_In in H.
  destruct H as [_ H]. unfold alive in H. lia.
Qed.
Lemma d_step_alive d o : all_alive (fst (d_step d o)).
Proof. unfold d_step. destruct (d_handle d o) as [d1 r]. cbn [fst]. apply d_expire_alive. Qed.
Lemma d_expire_id d : all_alive d -> d_expire d = d.
Proof.
  intros A. unfold d_expire, with_entries. rewrite filter_all_true; [destruct d; reflexivity|].
  intros e H. unfold all_alive in A. rewrite Forall_forall in A. specialize (A e H). unfold alive. lia.
Qed.
Lemma d_failed_unchanged d o d' r : all_alive d -> d_step d o = (d', r) -> is_4xx r = true -> d' = d.
Proof.
  intros A. unfold d_step. destruct (d_handle d o) as [d1 r1] eqn:EH. intros H H4; inv H.
  assert (E : d1 = d).
  { destruct o; cbn [d_handle] in EH; unfold d_register, d_update_post, d_update_put, d_delete in EH;
      repeat (break_match; try discriminate; inv_eqs); try (inv EH); try reflexivity; cbn in H4; discriminate. }
  rewrite E. apply d_expire_id. exact A.
Qed.

Lemma ep_lookup_regs_plain regs : ep_lookup_regs regs [] None = Content (str_links (map get_host_link regs)).
Proof. unfold ep_lookup_regs. cbn [query_split fold_left criteria_of flat_map forallb]. rewrite filter_true. reflexivity. Qed.
Lemma res_lookup_regs_plain regs : res_lookup_regs regs [] None = Content (str_links (map strip_anchor (flat_map get_based_links regs))).
Proof. unfold res_lookup_regs. cbn [query_split fold_left criteria_of flat_map forallb]. rewrite filter_true, res_pairs_snd. reflexivity. Qed.

(* C20 as one statement: for every history, the answers are those of the abstract directory, the state abstracts to the
   abstract directory's state, and the unfiltered lookups render exactly its entries — every one of which is within
   [latest successful write + lt + grace], under pairwise distinct (ep, d) and pairwise distinct locations *)
Lemma refinement_all_histories : forall ops, Forall nonneg_time ops ->
  let st := run_state empty_rd ops in
  let d := d_run_state empty_dir ops in
  map o_resp (run empty_rd ops) = d_run empty_dir ops /\
  abs st = d /\
  ep_lookup st [] None = Content (str_links (map (fun e => get_host_link (reg_of_entry e)) (d_entries d))) /\
  res_lookup st [] None = Content (str_links (map strip_anchor (flat_map (fun e => get_based_links (reg_of_entry e)) (d_entries d)))) /\
  Forall (fun e => d_now d < e_written e + (e_lt e + GRACE_PERIOD) * 1000000) (d_entries d) /\
  NoDup (map e_key (d_entries d)) /\ NoDup (map e_loc (d_entries d)).
Proof.
  intros ops NN st d. destruct (run_abs ops empty_rd empty_Inv empty_Settled NN) as [A B]. rewrite abs_empty in A, B.
  fold st in B. fold d in B.
  destruct (run_state_Inv ops empty_rd empty_Inv empty_Settled) as [I S]. fold st in I, S.
  destruct (lookup_exact_lemma st I S) as (_ & _ & _ & NK & NL).
  split; [symmetry; exact A|]. split; [symmetry; exact B|].
  assert (Eregs : map reg_of_entry (d_entries d) = map untimed (get_endpoints st)) by (rewrite B; apply abs_regs).
  split; [|split; [|split; [|split]]].
  - replace (map (fun e => get_host_link (reg_of_entry e)) (d_entries d)) with (map get_host_link (map reg_of_entry (d_entries d))) by apply map_map.
    rewrite Eregs. unfold ep_lookup. rewrite <- ep_lookup_regs_untimed. apply ep_lookup_regs_plain.
  - replace (flat_map (fun e => get_based_links (reg_of_entry e)) (d_entries d)) with (flat_map get_based_links (map reg_of_entry (d_entries d))).
    2:{ rewrite !flat_map_concat_map, map_map. reflexivity. }
    rewrite Eregs. unfold res_lookup. rewrite <- res_lookup_regs_untimed. apply res_lookup_regs_plain.
  - destruct ops as [|o ops'].
    + constructor.
    + rewrite B. pose proof S as S'. unfold Settled, SettledAt in S'.
      rewrite abs_entries. apply Forall_forall. intros e He. apply in_map_iff in He. destruct He as ([k id] & <- & Hin).
      destruct (indexed_has_timer st k id I Hin) as (r & du & s & Ho & Eo & Et). unfold ent, entry_of, entry_of_reg. cbn [snd e_written e_lt d_now abs].
      rewrite Eo, Et. specialize (S' _ _ _ _ Ho Et). lia.
  - rewrite B, abs_entries, map_map. unfold get_endpoints in NK. rewrite map_map in NK. exact NK.
  - rewrite B, abs_entries, map_map. unfold get_endpoints in NL. rewrite map_map in NL. exact NL.
Qed.

Lemma refinement_step_reachable : forall st o, reachable st -> nonneg_time o ->
  d_step (abs st) o = (abs (fst (step st o)), snd (step st o)).
Proof. intros st o R NN. destruct (reachable_Inv st R) as [I S]. apply step_abs; assumption. Qed.
