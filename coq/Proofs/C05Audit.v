(* C05 — round 5 (clause audit): run-level lifts of the loop-level theorems, the client's Block2 follow-up requests on the wire,
   first-block / transport-failure exits of the Block2 phase, dead exchanges at run level.
   G1..G10 refer to notes/audit/A.md section C05; several statements and proofs are the auditor's (marked). *)
From Verif Require Import Lib.Py Lib.PyLemmas Lib.Tactics Gen.block_kernels Model.C05 Model.C05Server Model.C05Retry Proofs.C05 Proofs.C05Retry Proofs.C05Bert.
Open Scope Z_scope.

(* ---------------------------------------------------------------- G1: the client's Block2 follow-up requests *)

(* BlockwiseTuple.reduced_to for all wire exponents 0..7 (7 and 6 share the 1024-byte unit) *)
Lemma bt_reduced_to_offset7 n m s mx n' m' s' : 0 <= s <= 7 -> 0 <= mx ->
  bt_reduced_to n m s mx = Ok (n', m', s') ->
  n' * bsize (Z.min s' 6) = n * bsize (Z.min s 6) /\ m' = m /\ s' = Z.min s mx.
Proof.
  intros Hs Hm. destruct (s =? 7) eqn:E7.
  - assert (s = 7) by lia. subst s. unfold bt_reduced_to. destruct (mx >=? 7) eqn:E; [intros H; inv H; repeat split; lia|].
    destruct (mx =? 6) eqn:E6; cbn [andb Z.eqb Pos.eqb]; [intros H; inv H; repeat split; lia|].
    change (Z.min 7 6) with 6. rewrite Z.shiftl_mul_pow2 by lia. intros H; inv H. split; [|split; [reflexivity|lia]].
    replace (Z.min s' 6) with s' by lia. change (Z.min 7 6) with 6.
    assert (Hb : bsize ((6 - s') + s') = 2 ^ (6 - s') * bsize s') by (apply bsize_split; lia).
    replace ((6 - s') + s') with 6 in Hb by lia. rewrite Hb. symmetry. rewrite <- Z.mul_assoc. reflexivity.
  - intros H. apply bt_reduced_to_offset in H as (H1 & H2 & H3 & H4); try lia.
    replace (Z.min s' 6) with s' by lia. replace (Z.min s 6) with s by lia. auto.
Qed.

(* one follow-up request: NUM x size = bytes assembled so far, exponent = min(server's last exponent, client limit), more-flag clear,
   no Block1 option, no payload (statement for exponents 0..6: the auditor's) *)
Lemma block2_request_consistent_lemma t acc mbse rq n m szx :
  rs_block2 acc = Some (n, m, szx) -> 0 <= szx <= 7 -> 0 <= mbse ->
  generate_next_block2_request t acc mbse = Ok rq ->
  exists n', rq_block2 rq = Some (n', false, Z.min szx mbse) /\
             n' * bsize (Z.min (Z.min szx mbse) 6) = blen (rs_payload acc) /\
             rq_block1 rq = None /\ rq_payload rq = [] /\ rq_size1 rq = rq_size1 t.
Proof.
  intros Hb Hs Hm. unfold generate_next_block2_request. rewrite Hb.
  unfold bind. rewrite bt_size_spec, bt_start_spec.
  destruct (massert _) eqn:Ha; [|discriminate].
  destruct (bt_reduced_to _ _ _ _) as [[[n' m'] s']|] eqn:Hr; [|discriminate].
  intros H; inv H. cbn [rq_block2 rq_block1 rq_payload rq_size1].
  apply bt_reduced_to_offset7 in Hr as (H1 & H2 & H3); try lia. subst m' s'.
  unfold massert in Ha. destruct (_ =? _) eqn:E in Ha; [|discriminate].
  exists n'. repeat split; lia.
Qed.

Definition b2req_ok (limit : Z) (rq : request) : Prop :=
  exists n' s', rq_block2 rq = Some (n', false, s') /\ 0 <= n' /\ 0 <= s' <= limit /\ rq_block1 rq = None /\ rq_payload rq = [].

(* [resp] is what the server answered to [rq] at some state *)
Definition serve_answered {S : Type} (serve : S -> request -> S * sresult) (rq : request) (resp : response) : Prop :=
  exists s s1, serve s rq = (s1, SResp resp).

Definition resp_wf2 (r : response) : Prop := resp_wf r = true /\ 0 <= rs_maxexp r.

Section AnyServerB2.
  Context {S : Type}.
  Variable serve : S -> request -> S * sresult.
  Hypothesis serve_wf2 : forall s rq s' r, serve s rq = (s', SResp r) -> resp_wf2 r.

  (* every request of the Block2 loop stays within the limit handed to the loop *)
  Lemma block2_loop_requests_bounded fuel : forall s t acc mbse s' tr o n m szx,
    rs_block2 acc = Some (n, m, szx) -> 0 <= szx <= 7 -> 0 <= mbse ->
    block2_loop serve fuel s t acc mbse = (s', tr, o) -> Forall (b2req_ok mbse) tr.
  Proof.
    induction fuel as [|f IH]; intros s t acc mbse s' tr o n m szx Hb Hs Hm; cbn [block2_loop].
    - intros H; inv H. constructor.
    - destruct (generate_next_block2_request t acc mbse) as [rq|e] eqn:G; [|intros H; inv H; constructor].
      destruct (block2_request_consistent_lemma _ _ _ _ _ _ _ Hb Hs Hm G) as (n' & H1 & H2 & H3 & H4 & _).
      assert (Hok : b2req_ok mbse rq).
      { exists n', (Z.min szx mbse). repeat split; try assumption; try lia.
        pose proof (bsize_pos (Z.min (Z.min szx mbse) 6) ltac:(lia)). pose proof (blen_nonneg (rs_payload acc)). nia. }
      destruct (serve s rq) as [s1 r] eqn:Hserve. destruct r as [last|]; [|intros H; inv H; repeat constructor; exact Hok].
      destruct (rs_block2 last) as [[[bn bm] bs]|] eqn:Hlb; [|intros H; inv H; repeat constructor; exact Hok].
      destruct (append_response_block acc last) as [a'|e] eqn:Ha; [|intros H; inv H; repeat constructor; exact Hok].
      destruct (negb (bt_more (bn, bm, bs))); [intros H; inv H; repeat constructor; exact Hok|].
      destruct (block2_loop serve f s1 t a' mbse) as [[s2 tr2] o2] eqn:R. intros H; inv H.
      constructor; [exact Hok|].
      destruct (append_ok _ _ _ _ _ _ Hlb Ha) as (_ & _ & _ & ->).
      destruct (serve_wf2 _ _ _ _ Hserve) as [Hwf _]. unfold resp_wf in Hwf. rewrite Hlb in Hwf. cbn [bt_wf] in Hwf.
      apply (IH s1 t (appended acc last (bn, bm, bs)) mbse s' tr2 o bn bm bs); [reflexivity|lia|exact Hm|exact R].
  Qed.

  Lemma complete_requests_bounded fuel s t a mbse s' tr o : resp_wf a = true -> 0 <= mbse ->
    complete_by_requesting_block2 serve fuel s t a mbse = (s', tr, o) -> Forall (b2req_ok mbse) tr.
  Proof.
    intros Hwf Hm. unfold complete_by_requesting_block2. destruct (unexpected_first_block t a); [intros H; inv H; constructor|].
    destruct (rs_block2 a) as [[[n m] szx]|] eqn:Hb; [|intros H; inv H; constructor].
    destruct (negb _); [intros H; inv H; constructor|]. destruct (negb _); [intros H; inv H; constructor|].
    unfold resp_wf in Hwf. rewrite Hb in Hwf. cbn [bt_wf] in Hwf.
    eapply block2_loop_requests_bounded; try eassumption. lia.
  Qed.

  (* G1 + G2: the shape of every run.  The trace splits into the Block1 phase (requests built by block1_request, carrying the application's
     Block2 option) and the Block2 phase, which is complete_by_requesting_block2 applied to the last answer of the Block1 phase with a
     limit that never exceeds the client's maximum exponent. *)
  Lemma block1_loop_shape cfg fuel : forall s cur se mb s' tr o, 0 <= mb ->
    block1_loop serve fuel s cfg cur se mb = (s', tr, o) ->
    (exists f s1 rq resp mbse c e tr1 tr2,
        tr = tr1 ++ rq :: tr2 /\ block1_request cfg c e = Ok rq /\ serve_answered serve rq resp /\
        block1_react rq resp c e = B1Break /\ 0 <= mbse <= mb /\
        Forall (fun q => rq_block2 q = c_block2 cfg) (tr1 ++ [rq]) /\
        complete_by_requesting_block2 serve f s1 rq (clear_block1 resp) mbse = (s', tr2, o)) \/
    ((forall r, o <> Done r) /\ Forall (fun q => rq_block2 q = c_block2 cfg) tr).
  Proof.
    induction fuel as [|f IH]; intros s cur se mb s' tr o Hmb; cbn [block1_loop].
    - intros H; inv H. right. split; [discriminate|constructor].
    - destruct (block1_request cfg cur se) as [rq|e] eqn:Hrq; [|intros H; inv H; right; split; [discriminate|constructor]].
      assert (Hq : rq_block2 rq = c_block2 cfg).
      { unfold block1_request in Hrq. destruct (_ >? _); [|inv Hrq; reflexivity].
        destruct (extract_block _ _ _ _) as [[pl bo]|]; inv Hrq. reflexivity. }
      destruct (serve s rq) as [s1 [resp|]] eqn:Hs; [|intros H; inv H; right; split; [discriminate|repeat constructor; exact Hq]].
      destruct (serve_wf2 _ _ _ _ Hs) as [_ Hmx].
      set (mb' := if mb <? rs_maxexp resp then mb else rs_maxexp resp).
      assert (Hmb' : 0 <= mb' <= mb) by (subst mb'; destruct (mb <? rs_maxexp resp) eqn:E; lia).
      destruct (block1_react rq resp cur se) as [e|c2 e2|] eqn:Hr.
      + intros H; inv H. right. split; [discriminate|repeat constructor; exact Hq].
      + destruct (block1_loop serve f s1 cfg c2 e2 mb') as [[s2 tr2] o2] eqn:R. intros H; inv H.
        destruct (IH _ _ _ _ _ _ _ (proj1 Hmb') R) as [(f' & s1' & rq' & resp' & mbse' & c' & e' & tr1 & tr2' & -> & H1 & Ha & H2 & H3 & H4 & H5)|[Hn Hall]].
        * left. exists f', s1', rq', resp', mbse', c', e', (rq :: tr1), tr2'. repeat split; try assumption; try lia.
          cbn [app]. constructor; assumption.
        * right. split; [exact Hn|constructor; assumption].
      + destruct (complete_by_requesting_block2 serve f s1 rq _ mb') as [[s2 tr2] o2] eqn:R. intros H; inv H.
        left. exists f, s1, rq, resp, mb', cur, se, [], tr2. repeat split; try assumption; try lia.
        * exists s, s1. exact Hs.
        * repeat constructor. exact Hq.
  Qed.
End AnyServerB2.

Lemma b2req_ok_mono a b rq : a <= b -> b2req_ok a rq -> b2req_ok b rq.
Proof. intros Hab (n' & s' & H1 & H2 & H3 & H4). exists n', s'. repeat split; try tauto; lia. Qed.

Section RunLevel.
  Context {S : Type}.
  Variable serve : S -> request -> S * sresult.

  (* G1, run level: the Block2 follow-up requests of every run against every server *)
  Lemma run_block2_requests_wire_lemma cfg fuel s s' tr o :
    (forall s rq s' r, serve s rq = (s', SResp r) -> resp_wf2 r) -> 0 <= c_mbse cfg ->
    run serve fuel s cfg = (s', tr, o) ->
    exists tr1 tr2, tr = tr1 ++ tr2 /\ Forall (fun q => rq_block2 q = c_block2 cfg) tr1 /\ Forall (b2req_ok (c_mbse cfg)) tr2.
  Proof.
    intros Hwf Hm Hrun. unfold run in Hrun.
    destruct (block1_loop_shape serve Hwf cfg fuel _ _ _ _ _ _ _ Hm Hrun)
      as [(f & s1 & rq & resp & mbse & c & e & tr1 & tr2 & -> & _ & (sa & sb & Hans) & _ & Hmb & Hall & Hc)|[_ Hall]].
    - exists (tr1 ++ [rq]), tr2. split; [rewrite <- app_assoc; reflexivity|]. split; [exact Hall|].
      destruct (Hwf _ _ _ _ Hans) as [Hw _].
      eapply Forall_impl; [intros q Hq0; apply (b2req_ok_mono mbse); [lia|exact Hq0]|].
      apply (complete_requests_bounded serve Hwf f s1 rq (clear_block1 resp) mbse s' tr2 o); [|lia|exact Hc].
      unfold resp_wf in *. cbn [clear_block1 rs_block1 rs_block2 bt_wf]. apply andb_prop in Hw as [_ Hw]. exact Hw.
    - exists tr, []. split; [symmetry; apply app_nil_r|]. split; [exact Hall|constructor].
  Qed.

  (* G2: Block2 assembly against ANY server: the chain is made of the server's own answers to the follow-up requests *)
  Lemma block2_loop_exact_any fuel : forall s t acc mbse s' tr r,
    block2_loop serve fuel s t acc mbse = (s', tr, Done r) ->
    exists consumed, b2_chain acc consumed r /\ Forall2 (serve_answered serve) tr consumed.
  Proof.
    induction fuel as [|f IH]; intros s t acc mbse s' tr r; cbn [block2_loop]; [discriminate|].
    destruct (generate_next_block2_request t acc mbse) as [rq|e]; [|discriminate].
    destruct (serve s rq) as [s1 [last|]] eqn:Hs; [|discriminate].
    assert (Hans : serve_answered serve rq last) by (exists s, s1; exact Hs).
    destruct (rs_block2 last) as [[[n m] szx]|] eqn:Hb.
    2:{ intros H; inv H. exists [r]. cbn [b2_chain]. rewrite Hb. repeat split; try reflexivity. repeat constructor. exact Hans. }
    destruct (append_response_block acc last) as [acc'|e] eqn:Ha; [|discriminate].
    destruct (append_ok _ _ _ _ _ _ Hb Ha) as (H1 & H2 & H3 & ->).
    unfold bt_more. cbn [fst snd]. destruct m; cbn [negb].
    - destruct (block2_loop serve f s1 t _ mbse) as [[s2 tr2] o2] eqn:R. intros H; inv H.
      destruct (IH _ _ _ _ _ _ _ R) as (consumed & Hc & Hl).
      exists (last :: consumed). cbn [b2_chain]. rewrite Hb. repeat split; try assumption. constructor; assumption.
    - intros H; inv H. exists [last]. cbn [b2_chain]. rewrite Hb. repeat split; try assumption; try reflexivity. repeat constructor. exact Hans.
  Qed.

  Lemma complete_exact_any fuel s t initial mbse s' tr r :
    complete_by_requesting_block2 serve fuel s t initial mbse = (s', tr, Done r) ->
    (r = initial /\ rs_block2 initial = None /\ tr = []) \/
    (exists b, rs_block2 initial = Some b /\ bt_more b = false /\
               (bt_num b = 0 \/ exists rb, rq_block2 t = Some rb /\ bt_num rb <> 0) /\ r = clear_block2 initial /\ tr = []) \/
    (exists szx consumed, rs_block2 initial = Some (0, true, szx) /\ b2_chain initial consumed r /\ Forall2 (serve_answered serve) tr consumed).
  Proof.
    unfold complete_by_requesting_block2, unexpected_first_block. destruct (rs_block2 initial) as [[[n m] szx]|] eqn:Hb.
    2:{ intros H; inv H. left. auto. }
    unfold bt_more, bt_num. cbn [fst snd].
    destruct (negb (n =? 0) && match rq_block2 t with Some rb => fst (fst rb) =? 0 | None => true end) eqn:Hun; [discriminate|].
    destruct m; cbn [negb].
    - destruct (n =? 0) eqn:E; cbn [negb]; [|discriminate]. intros H. apply block2_loop_exact_any in H as (consumed & H1 & H2).
      right. right. exists szx, consumed. replace n with 0 by lia. auto.
    - intros H; inv H. right. left. eexists. repeat split; try reflexivity.
      cbn [fst snd]. destruct (n =? 0) eqn:E; [left; lia|]. cbn [negb andb] in Hun.
      destruct (rq_block2 t) as [rb|]; [|discriminate]. right. exists rb. split; [reflexivity|]. unfold bt_num. lia.
  Qed.

  (* every response handed to the caller by ANY run against ANY server *)
  Lemma run_done_exact_lemma cfg fuel s s' tr r :
    run serve fuel s cfg = (s', tr, Done r) ->
    exists rq resp tr1 tr2, tr = tr1 ++ rq :: tr2 /\ serve_answered serve rq resp /\ rq_block2 rq = c_block2 cfg /\
      let initial := clear_block1 resp in
      (r = initial /\ rs_block2 initial = None /\ tr2 = []) \/
      (exists b, rs_block2 initial = Some b /\ bt_more b = false /\
                 (bt_num b = 0 \/ exists rb, c_block2 cfg = Some rb /\ bt_num rb <> 0) /\ r = clear_block2 initial /\ tr2 = []) \/
      (exists szx consumed, rs_block2 initial = Some (0, true, szx) /\ b2_chain initial consumed r /\ Forall2 (serve_answered serve) tr2 consumed).
  Proof.
    intros Hrun. unfold run in Hrun.
    (* the shape lemma without the well-formedness hypothesis: only its structural part is needed here *)
    assert (G : forall fuel s cur se mb s' tr r, block1_loop serve fuel s cfg cur se mb = (s', tr, Done r) ->
              exists f s1 rq resp mbse tr1 tr2, tr = tr1 ++ rq :: tr2 /\ serve_answered serve rq resp /\ rq_block2 rq = c_block2 cfg /\
                complete_by_requesting_block2 serve f s1 rq (clear_block1 resp) mbse = (s', tr2, Done r)).
    { clear. induction fuel as [|f IH]; intros s cur se mb s' tr r; cbn [block1_loop]; [discriminate|].
      destruct (block1_request cfg cur se) as [rq|e] eqn:Hrq; [|discriminate].
      assert (Hq : rq_block2 rq = c_block2 cfg).
      { unfold block1_request in Hrq. destruct (_ >? _); [|inv Hrq; reflexivity].
        destruct (extract_block _ _ _ _) as [[pl bo]|]; inv Hrq. reflexivity. }
      destruct (serve s rq) as [s1 [resp|]] eqn:Hs; [|discriminate].
      destruct (block1_react rq resp cur se) as [e|c2 e2|] eqn:Hr; [discriminate| |].
      - destruct (block1_loop serve f s1 cfg c2 e2 _) as [[s2 tr2] o2] eqn:R. intros H; inv H.
        apply IH in R as (f' & s1' & rq' & resp' & mbse' & tr1 & tr2' & -> & H1 & H2 & H3).
        exists f', s1', rq', resp', mbse', (rq :: tr1), tr2'. auto.
      - destruct (complete_by_requesting_block2 serve f s1 rq _ _) as [[s2 tr2] o2] eqn:R. intros H; inv H.
        eexists f, s1, rq, resp, _, [], tr2. repeat split; eauto. exists s, s1. exact Hs. }
    destruct (G _ _ _ _ _ _ _ _ Hrun) as (f & s1 & rq & resp & mbse & tr1 & tr2 & -> & Hans & Hq & Hc).
    exists rq, resp, tr1, tr2. repeat split; try assumption. cbv zeta.
    apply complete_exact_any in Hc. rewrite Hq in Hc. exact Hc.
  Qed.
End RunLevel.

(* the auditor's inversion (G2), kept in the auditor's form *)
Lemma run_done_is_block2_completion_lemma {S} (serve : S -> request -> S * sresult) cfg fuel s s' tr r :
  run serve fuel s cfg = (s', tr, Done r) ->
  exists f s1 rq resp mbse cursor size_exp tr1 tr2,
    tr = tr1 ++ rq :: tr2 /\ block1_request cfg cursor size_exp = Ok rq /\
    block1_react rq resp cursor size_exp = B1Break /\
    complete_by_requesting_block2 serve f s1 rq (clear_block1 resp) mbse = (s', tr2, Done r).
Proof.
  unfold run. generalize 0 at 1. generalize (c_mbse cfg) at 1. generalize (c_mbse cfg) at 1. revert s s' tr r.
  induction fuel as [|f IH]; intros s s' tr r mb se cur; cbn [block1_loop]; [discriminate|].
  destruct (block1_request cfg cur se) as [rq|e] eqn:Hrq; [|discriminate].
  destruct (serve s rq) as [s1 [resp|]] eqn:Hs; [|discriminate].
  destruct (block1_react rq resp cur se) as [e|c2 e2|] eqn:Hr; [discriminate| |].
  - destruct (block1_loop serve f s1 cfg c2 e2 _) as [[s2 tr2] o2] eqn:R. intros H; inv H.
    apply IH in R as (f' & s1' & rq' & resp' & mbse' & c' & se' & tr1 & tr2' & -> & H1 & H2 & H3).
    exists f', s1', rq', resp', mbse', c', se', (rq :: tr1), tr2'. auto.
  - destruct (complete_by_requesting_block2 serve f s1 rq _ _) as [[s2 tr2] o2] eqn:R. intros H; inv H.
    eexists f, s1, rq, resp, _, cur, se, [], tr2. repeat split; eauto.
Qed.

(* ---------------------------------------------------------------- G2/G4: never mixed, at run level, for ANY server *)

(* b2_chain_representation with the by-design exit made explicit: only answers that carry a Block2 option need to be tagged slices *)
Lemma b2_chain_representation_or_single reps : NoDup (map fst reps) ->
  forall consumed acc r e rep, In (e, rep) reps ->
  rs_etag acc = Some e -> rs_payload acc = bto rep (blen (rs_payload acc)) -> blen (rs_payload acc) <= blen rep ->
  Forall (fun x => rs_block2 x <> None -> slice_of reps x) consumed -> b2_chain acc consumed r ->
  (exists e' rep', In (e', rep') reps /\ rs_payload r = rep') \/ (exists x, In x consumed /\ rs_block2 x = None /\ r = x).
Proof.
  intros Hnd. induction consumed as [|x rest IH]; intros acc r e rep Hin Het Hpl Hle Hall Hch; cbn [b2_chain] in Hch; [tauto|].
  inversion Hall as [|? ? Hx Hrest]; subst.
  destruct (rs_block2 x) as [[[n m] szx]|] eqn:Hb.
  - destruct (Hx ltac:(discriminate)) as (e' & rep' & Hin' & Het' & Hx'). rewrite Hb in Hx'.
    destruct Hch as (Hoff & Hetag & _ & Hch). destruct Hx' as (Hn & Hszx & Hxp & Hm).
    rewrite Het, Het' in Hetag. cbn [etag_eqb] in Hetag. assert (e' = e) by lia. subst e'.
    assert (rep' = rep) by (eapply nodup_lookup; eassumption). subst rep'.
    replace (Z.min szx 6) with szx in * by lia. pose proof (bsize_pos szx ltac:(lia)) as Hsz.
    pose proof (blen_nonneg (rs_payload acc)) as Hnn.
    assert (Hnew : rs_payload acc ++ rs_payload x = bto rep (n * bsize szx + bsize szx)).
    { rewrite Hpl, Hxp, <- Hoff. apply bto_bslice. lia. }
    destruct m.
    + symmetry in Hm. apply Z.ltb_lt in Hm.
      destruct (IH (appended acc x (n, true, szx)) r e rep) as [Hl|(y & Hy & Hy2)]; try assumption; cbn [appended rs_etag rs_payload].
      * rewrite Hnew. rewrite blen_bto by lia. reflexivity.
      * rewrite Hnew. rewrite blen_bto by lia. lia.
      * left. exact Hl.
      * right. exists y. split; [right; exact Hy|exact Hy2].
    + symmetry in Hm. apply Z.ltb_ge in Hm. destruct Hch as [_ ->]. cbn [appended rs_payload].
      left. exists e, rep. split; [assumption|]. rewrite Hnew. apply bto_all. lia.
  - destruct Hch as [_ ->]. right. exists x. split; [left; reflexivity|]. split; [exact Hb|reflexivity].
Qed.

(* For ANY server whose answers that carry a Block2 option are slices of its representations tagged with distinct ETags (the
   representation may change whenever it likes), and an application that did not ask for a later block: a body handed to the caller by any
   run is one whole representation — or it is, by design, one single answer of the server that carried no Block2 option at all. *)
Lemma run_never_mixed_lemma {S} (serve : S -> request -> S * sresult) reps cfg fuel s s' tr r : NoDup (map fst reps) ->
  (forall rq x, serve_answered serve rq x -> rs_block2 x <> None -> slice_of reps x) ->
  (c_block2 cfg = None \/ exists m2 s2, c_block2 cfg = Some (0, m2, s2)) ->
  run serve fuel s cfg = (s', tr, Done r) ->
  (exists e rep, In (e, rep) reps /\ rs_payload r = rep) \/
  (exists rq x, serve_answered serve rq x /\ rs_block2 x = None /\ (r = x \/ r = clear_block1 x)).
Proof.
  intros Hnd Hslice Hcb Hrun.
  destruct (run_done_exact_lemma serve cfg fuel s s' tr r Hrun) as (rq & resp & tr1 & tr2 & -> & Hans & Hq & Hcases). cbv zeta in Hcases.
  destruct Hcases as [(-> & Hn & _)|[(b & Hb & Hm & Hnum & -> & _)|(szx & consumed & Hb & Hch & Hall)]].
  - right. exists rq, resp. split; [exact Hans|]. split; [exact Hn|right; reflexivity].
  - cbn [clear_block1 rs_block2] in Hb. destruct (Hslice rq resp Hans ltac:(rewrite Hb; discriminate)) as (e & rep & Hin & Het & Hx). rewrite Hb in Hx.
    destruct b as [[n m] sz]. unfold bt_more, bt_num in *. cbn [fst snd] in *. subst m. destruct Hx as (Hn & Hsz & Hp & Hmm).
    assert (n = 0). { destruct Hnum as [H|(rb & Hrb & Hne)]; [exact H|]. destruct Hcb as [Hc|(m2 & s2 & Hc)]; rewrite Hc in Hrb; inv Hrb. cbn in Hne. lia. }
    subst n. left. exists e, rep. split; [exact Hin|]. cbn [clear_block2 clear_block1 rs_payload]. rewrite Hp. cbn [Z.mul Z.add].
    symmetry in Hmm. apply Z.ltb_ge in Hmm. rewrite bslice_0. apply bto_all. lia.
  - cbn [clear_block1 rs_block2] in Hb. destruct (Hslice rq resp Hans ltac:(rewrite Hb; discriminate)) as (e & rep & Hin & Het & Hx). rewrite Hb in Hx.
    destruct Hx as (_ & Hsz & Hp & Hmm). cbn [Z.mul Z.add] in Hp, Hmm. symmetry in Hmm. apply Z.ltb_lt in Hmm. pose proof (bsize_pos szx ltac:(lia)) as Hs.
    destruct (b2_chain_representation_or_single reps Hnd consumed (clear_block1 resp) r e rep Hin) as [Hl|(x & Hx & Hxn & ->)]; try assumption;
      cbn [clear_block1 rs_etag rs_payload]; try assumption.
    + rewrite Hp, bslice_0. rewrite blen_bto by lia. reflexivity.
    + rewrite Hp, bslice_0. rewrite blen_bto by lia. lia.
    + apply Forall_forall. intros x Hx Hxb.
      assert (Hex : exists q, serve_answered serve q x).
      { clear - Hall Hx. induction Hall as [|q y trr cs Hqy Hrest IH]; [destruct Hx|]. destruct Hx as [->|Hx]; [exists q; exact Hqy|apply IH; exact Hx]. }
      destruct Hex as (q & Hqx). exact (Hslice q x Hqx Hxb).
    + left. exact Hl.
    + right. assert (Hex : exists q, serve_answered serve q x).
      { clear - Hall Hx. induction Hall as [|q y trr cs Hqy Hrest IH]; [destruct Hx|]. destruct Hx as [->|Hx]; [exists q; exact Hqy|apply IH; exact Hx]. }
      destruct Hex as (q & Hqx). exists q, x. split; [exact Hqx|]. split; [exact Hxn|left; reflexivity].
Qed.

(* ---------------------------------------------------------------- G3, G5 (the auditor's statements and proofs) *)
Lemma first_block2_partial_payload_lemma {S} (serve : S -> request -> S * sresult) f s t initial mbse szx :
  rs_block2 initial = Some (0, true, szx) -> 0 <= szx <= 6 ->
  blen (rs_payload initial) mod bsize szx <> 0 ->
  complete_by_requesting_block2 serve (Datatypes.S f) s t initial mbse = (s, [], Err AssertionError).
Proof.
  intros Hb Hs Hmod.
  unfold complete_by_requesting_block2, unexpected_first_block. rewrite Hb. cbn [bt_num bt_more fst snd negb Z.eqb andb].
  cbn [block2_loop]. unfold generate_next_block2_request. rewrite Hb. unfold bind. rewrite bt_size_spec, bt_start_spec.
  replace (Z.min szx 6) with szx by lia. pose proof (bsize_pos szx ltac:(lia)).
  unfold massert. destruct (_ =? _) eqn:E.
  - exfalso. apply Hmod. apply Z.eqb_eq in E. rewrite <- E. apply Z_mod_mult.
  - reflexivity.
Qed.

Lemma block2_transport_failure_lemma {S} (serve : S -> request -> S * sresult) f s t acc mbse rq s1 :
  generate_next_block2_request t acc mbse = Ok rq -> serve s rq = (s1, SFail) ->
  block2_loop serve (Datatypes.S f) s t acc mbse = (s1, [rq], Err NetworkError).
Proof. intros H H0. cbn [block2_loop]. rewrite H, H0. reflexivity. Qed.

(* ---------------------------------------------------------------- G10: what the deduplicating layer hands out (replaces the tautology about repeat) *)
Lemma retried_copies_from_one_answer {S} (serve : S -> request -> S * sresult) st mid rq n :
  lookup mid (r_cache st) = None ->
  exists r, snd (deliver_n serve (Datatypes.S n) st mid rq) = repeat r (Datatypes.S n) /\
            r = snd (serve (r_inner st) rq) /\ r_inner (fst (deliver_n serve (Datatypes.S n) st mid rq)) = fst (serve (r_inner st) rq).
Proof.
  intros Hl. destruct (serve (r_inner st) rq) as [s' r] eqn:Hs. exists r.
  rewrite (deliver_n_spec serve n st mid rq s' r Hl Hs). repeat split.
Qed.

(* ---------------------------------------------------------------- G2: every server is a script (the auditor's statement and proof) *)
Section Gen.
  Context {S : Type}.
  Variable serve : S -> request -> S * sresult.

  Lemma block2_loop_script fuel : forall s t a mbse s' tr o,
    block2_loop serve fuel s t a mbse = (s', tr, o) ->
    exists script, length script = length tr /\ forall rest, block2_loop serve_script fuel (script ++ rest) t a mbse = (rest, tr, o).
  Proof.
    induction fuel as [|f IH]; intros s t a mbse s' tr o; cbn [block2_loop].
    - intros H; inv H. exists []. split; [reflexivity|]. reflexivity.
    - destruct (generate_next_block2_request t a mbse) as [rq|e]; [|intros H; inv H; exists []; split; reflexivity].
      destruct (serve s rq) as [s1 r]. destruct r as [last|].
      2:{ intros H; inv H. exists [SFail]. split; reflexivity. }
      destruct (rs_block2 last) as [b2|] eqn:Hb.
      2:{ intros H; inv H. exists [SResp last]. split; [reflexivity|]. intros rest. cbn [app serve_script]. rewrite Hb. reflexivity. }
      destruct (append_response_block a last) as [a'|e] eqn:Ha.
      2:{ intros H; inv H. exists [SResp last]. split; [reflexivity|]. intros rest. cbn [app serve_script]. rewrite Hb, Ha. reflexivity. }
      destruct (negb (bt_more b2)) eqn:Hm.
      { intros H; inv H. exists [SResp last]. split; [reflexivity|]. intros rest. cbn [app serve_script]. rewrite Hb, Ha, Hm. reflexivity. }
      destruct (block2_loop serve f s1 t a' mbse) as [[s2 tr2] o2] eqn:R. intros H; inv H.
      destruct (IH _ _ _ _ _ _ _ R) as (sc & Hl & Hsc).
      exists (SResp last :: sc). split; [cbn; lia|]. intros rest. cbn [app serve_script]. rewrite Hb, Ha, Hm, Hsc. reflexivity.
  Qed.

  Lemma complete_script fuel s t a mbse s' tr o :
    complete_by_requesting_block2 serve fuel s t a mbse = (s', tr, o) ->
    exists script, length script = length tr /\ forall rest, complete_by_requesting_block2 serve_script fuel (script ++ rest) t a mbse = (rest, tr, o).
  Proof.
    unfold complete_by_requesting_block2. destruct (unexpected_first_block t a); [intros H; inv H; exists []; split; reflexivity|].
    destruct (rs_block2 a) as [b2|]; [|intros H; inv H; exists []; split; reflexivity].
    destruct (negb (bt_more b2)); [intros H; inv H; exists []; split; reflexivity|].
    destruct (negb (bt_num b2 =? 0)); [intros H; inv H; exists []; split; reflexivity|]. apply block2_loop_script.
  Qed.

  (* every run against any server is a run against the list of answers that server gave *)
  Lemma any_server_is_a_script_lemma : forall cfg fuel s s' tr o,
    run serve fuel s cfg = (s', tr, o) ->
    exists script, length script = length tr /\ run serve_script fuel script cfg = ([], tr, o).
  Proof.
    intros cfg fuel. unfold run.
    assert (G : forall mb se cur s s' tr o, block1_loop serve fuel s cfg cur se mb = (s', tr, o) ->
      exists script, length script = length tr /\ forall rest, block1_loop serve_script fuel (script ++ rest) cfg cur se mb = (rest, tr, o)).
    { induction fuel as [|f IH]; intros mb se cur s s' tr o; cbn [block1_loop].
      - intros H; inv H. exists []. split; reflexivity.
      - destruct (block1_request cfg cur se) as [rq|e]; [|intros H; inv H; exists []; split; reflexivity].
        destruct (serve s rq) as [s1 r]. destruct r as [resp|].
        2:{ intros H; inv H. exists [SFail]. split; reflexivity. }
        destruct (block1_react rq resp cur se) as [e|c2 e2|] eqn:Hr.
        + intros H; inv H. exists [SResp resp]. split; [reflexivity|]. intros rest. cbn [app serve_script]. rewrite Hr. reflexivity.
        + destruct (block1_loop serve f s1 cfg c2 e2 _) as [[s2 tr2] o2] eqn:R. intros H; inv H.
          destruct (IH _ _ _ _ _ _ _ R) as (sc & Hl & Hsc).
          exists (SResp resp :: sc). split; [cbn; lia|]. intros rest. cbn [app serve_script]. rewrite Hr, Hsc. reflexivity.
        + destruct (complete_by_requesting_block2 serve f s1 rq _ _) as [[s2 tr2] o2] eqn:R. intros H; inv H.
          destruct (complete_script _ _ _ _ _ _ _ _ R) as (sc & Hl & Hsc).
          exists (SResp resp :: sc). split; [cbn; lia|]. intros rest. cbn [app serve_script]. rewrite Hr, Hsc. reflexivity. }
    intros s s' tr o H. destruct (G _ _ _ _ _ _ _ H) as (sc & Hl & Hsc). exists sc. split; [exact Hl|].
    specialize (Hsc []). rewrite app_nil_r in Hsc. exact Hsc.
  Qed.
End Gen.
