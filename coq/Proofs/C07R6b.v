(* C07 — round 6 (audit gap 4): BlockwiseRequest's observation over a WHOLE history: the outer observation is handed
   notifications and then at most one end signal, after which nothing — for every list of datagrams / errors / loop runs. *)
From Verif Require Import Lib.Py Lib.Tactics Gen.protocol_is_recent Model.C07 Model.C07Stack Model.C07Iter Model.C07Blockwise Proofs.C07Serial Proofs.C07 Proofs.C07Blockwise.
Open Scope Z_scope.

Definition isCb (o : bout) : Prop := match o with BCb _ _ => True | _ => False end.
Definition kind (c : cstate) : nat := match c with CNotStarted => 0 | CRunning _ => 1 | CDone => 2 end.

Definition inv (b : bw) : Prop :=
  (b_outer_live b = false -> dead b)
  /\ (kind (b_cons b) = 1%nat -> b_first_done b = true)
  /\ (b_first_done b = false -> b_cons b = CNotStarted /\ b_fetch b = FNone).

(* obs outputs of a piece: callbacks, then nothing or one end signal that leaves the observation dead *)
Definition Shape (b' : bw) (outs : list bout) : Prop :=
  exists cbs tail, outer_obs outs = cbs ++ tail /\ Forall isCb cbs /\ (tail = [] \/ ((exists e, tail = [BEb e]) /\ dead b')).

Lemma idle_kind c : (c = CDone \/ c = CNotStarted) <-> kind c <> 1%nat.
Proof. destruct c; cbn; split; intros H; auto; try congruence; destruct H; congruence. Qed.
Lemma dead_inv b : dead b -> inv b.
Proof.
  intros D. pose proof D as (Hl & Hf & Hc & Hfe). split; [auto|]. split; [intros K; apply idle_kind in Hc; congruence|]. intros F. congruence.
Qed.
Lemma kind_pushes outs c : kind (lower_pushes outs c) = kind c.
Proof.
  revert c. induction outs as [|x outs IH]; intros c; [reflexivity|]. cbn [lower_pushes].
  repeat match goal with |- context [match ?t with _ => _ end] => destruct t; try apply IH end; rewrite IH; reflexivity.
Qed.
Lemma outer_obs_app a b : outer_obs (a ++ b) = outer_obs a ++ outer_obs b. Proof. apply filter_app'. Qed.

Lemma Shape_nil b' outs : outer_obs outs = [] -> Shape b' outs.
Proof. intros E. exists [], []. rewrite E. auto. Qed.
Lemma Shape_end b' outs e : outer_obs outs = [BEb e] -> dead b' -> Shape b' outs.
Proof. intros E D. exists [], [BEb e]. rewrite E. split; [reflexivity|]. split; [constructor|]. right. eauto. Qed.
Lemma Shape_cb b' id n outs rest : outer_obs outs = BCb id n :: outer_obs rest -> Shape b' rest -> Shape b' outs.
Proof.
  intros E (cbs & tail & E2 & F & T). exists (BCb id n :: cbs), tail. rewrite E, E2. split; [reflexivity|]. split; [constructor; cbn; auto|exact T].
Qed.

(* the observation task, run until it blocks *)
Lemma consumer_run_inv : forall fuel now b, inv b -> b_outer_live b = true ->
  Shape (fst (consumer_run fuel now b)) (snd (consumer_run fuel now b)) /\ inv (fst (consumer_run fuel now b)).
Proof.
  induction fuel as [|fuel IH]; intros now b I L; [cbn; split; [apply Shape_nil; reflexivity|exact I]|].
  cbn [consumer_run]. destruct (b_cons b) as [|g|] eqn:Ec; try (cbn; split; [apply Shape_nil; reflexivity|exact I]).
  destruct (b_fetch b) eqn:Ef; try (cbn; split; [apply Shape_nil; reflexivity|exact I]).
  assert (Fd : b_first_done b = true) by (destruct I as (_ & I2 & _); apply I2; rewrite Ec; reflexivity).
  destruct (match g with GBusy _ => gpull g | _ => gwake g end) as [g' ys].
  assert (Istep : forall f c, kind c = 1%nat -> inv (set_fc b f c (b_outer_live b))).
  { intros f c K. unfold inv. cbn. rewrite L, Fd. split; [discriminate|]. split; [auto|discriminate]. }
  destruct ys as [|[id|e] ys].
  - cbn [fst snd]. split; [apply Shape_nil; reflexivity|apply Istep; reflexivity].
  - destruct (complete_start (lookup (b_info b) id)) as [| |e].
    + specialize (IH now (set_fc b FNone (CRunning g') (b_outer_live b)) (Istep FNone (CRunning g') eq_refl) L).
      destruct (consumer_run fuel now _) as [b' o]. cbn [fst snd] in *. destruct IH as [S I']. split; [|exact I'].
      eapply Shape_cb; [|exact S]. reflexivity.
    + cbn [fst snd]. split; [apply Shape_nil; reflexivity|apply Istep; reflexivity].
    + assert (D : dead (cancel_lower (set_fc b FNone CDone false) now)).
      { unfold cancel_lower. destruct (cancelled _); unfold dead; cbn; auto. }
      cbn [fst snd]. split; [eapply Shape_end; [reflexivity|exact D]|apply dead_inv; exact D].
  - assert (D : dead (cancel_lower (set_fc b FNone CDone false) now)).
    { unfold cancel_lower. destruct (cancelled _); unfold dead; cbn; auto. }
    cbn [fst snd]. split; [eapply Shape_end; [reflexivity|exact D]|apply dead_inv; exact D].
Qed.

(* a stage that either hands over nothing and leaves the observation alive, or ends it *)
Definition Stage (b2 : bw) (o2 : list bout) : Prop :=
  (outer_obs o2 = [] /\ b_outer_live b2 = true /\ inv b2) \/ (exists e, outer_obs o2 = [BEb e] /\ dead b2).

Lemma stage_then_consume b2 o2 now rest : Stage b2 o2 -> outer_obs rest = [] ->
  Shape (fst (consumer_run 4 now b2)) (o2 ++ snd (consumer_run 4 now b2) ++ rest) /\ inv (fst (consumer_run 4 now b2)).
Proof.
  intros [(E & L & I)|(e & E & D)] Er.
  - destruct (consumer_run_inv 4 now b2 I L) as [(cbs & tail & E2 & F & T) I']. split; [|exact I'].
    exists cbs, tail. rewrite !outer_obs_app, E, Er, app_nil_r. auto.
  - destruct D as (Hl & Hf & Hc & Hfe). rewrite consumer_run_idle by exact Hc. cbn [fst snd].
    assert (D : dead b2) by (unfold dead; auto). split; [|apply dead_inv; exact D].
    eapply Shape_end; [|exact D]. rewrite !outer_obs_app, E, Er. reflexivity.
Qed.

Lemma start_consumer_facts b now : b_first_done (start_consumer b now) = b_first_done b /\ b_outer_live (start_consumer b now) = b_outer_live b
  /\ kind (b_cons (start_consumer b now)) = 1%nat /\ b_fetch (start_consumer b now) = b_fetch b.
Proof. unfold start_consumer. destruct (sstep _ _) as [k' outs]. cbn. rewrite kind_pushes. auto. Qed.

Lemma inv_running b : b_first_done b = true -> b_outer_live b = true -> inv b.
Proof. intros F L. unfold inv. rewrite F, L. repeat split; auto; discriminate. Qed.

Lemma first_response_stage b now r observable : b_first_done b = false -> b_cons b = CNotStarted -> b_fetch b = FNone ->
  Stage (fst (first_response b now r observable)) (snd (first_response b now r observable)).
Proof.
  intros F C Fe. unfold first_response. destruct r as [id|e].
  2: { right. exists e. cbn. split; [reflexivity|unfold dead; cbn; auto]. }
  cbn [first_done b_info b_cons]. rewrite C.
  destruct (complete_start (lookup (b_info b) id)) as [| |e]; destruct observable; cbn [fst snd app].
  - left. destruct (start_consumer_facts (set_fc (first_done b) FNone CNotStarted true) now) as (A1 & A2 & A3 & A4).
    split; [reflexivity|]. split; [rewrite A2; reflexivity|]. apply inv_running; [rewrite A1; reflexivity|rewrite A2; reflexivity].
  - right. exists NotObservable. split; [reflexivity|unfold dead; cbn; auto].
  - left. split; [reflexivity|]. split; [reflexivity|apply inv_running; reflexivity].
  - right. exists NotObservable. split; [reflexivity|unfold dead; cbn; eauto 10].
  - right. exists e. split; [reflexivity|unfold dead; cbn; auto].
  - right. exists NotObservable. split; [reflexivity|unfold dead; cbn; auto].
Qed.

Lemma inv_pushes b k' outs info : inv b ->
  inv (set_fc (set_k {| b_k := b_k b; b_info := info; b_fetch := b_fetch b; b_cons := b_cons b; b_outer_live := b_outer_live b; b_first_done := b_first_done b |} k')
         (b_fetch b) (lower_pushes outs (b_cons b)) (b_outer_live b)).
Proof.
  intros (I1 & I2 & I3). unfold inv, dead. cbn. rewrite kind_pushes. split; [|split].
  - intros L. destruct (I1 L) as (A & B & C & D). repeat split; auto. rewrite lower_pushes_idle by exact C. exact C.
  - exact I2.
  - intros F. destruct (I3 F) as [C Fe]. split; [rewrite C; apply lower_pushes_idle; auto|exact Fe].
Qed.

Lemma outer_obs_cb id n l : outer_obs (BCb id n :: l) = BCb id n :: outer_obs l. Proof. reflexivity. Qed.

Lemma fetch_failed_stage b2 o2 now e : Stage b2 o2 ->
  Stage (fst (fetch_failed b2 now e)) (o2 ++ snd (fetch_failed b2 now e)).
Proof.
  intros [(E & L & I)|(e0 & E & D)]; unfold fetch_failed.
  - destruct (b_fetch b2) as [|fid n observable|fid n] eqn:Ef; cbn [fst snd].
    + left. rewrite app_nil_r. auto.
    + assert (Fd : b_first_done b2 = true). { destruct I as (_ & _ & I3). destruct (b_first_done b2) eqn:F; auto. destruct (I3 eq_refl) as [_ X]. congruence. }
      right. exists e. rewrite L, outer_obs_app, E. split; [reflexivity|unfold dead; cbn; auto].
    + assert (Fd : b_first_done b2 = true). { destruct I as (_ & _ & I3). destruct (b_first_done b2) eqn:F; auto. destruct (I3 eq_refl) as [_ X]. congruence. }
      right. exists e. rewrite outer_obs_app, E. split; [reflexivity|unfold cancel_lower; destruct (cancelled _); unfold dead; cbn; auto].
  - destruct D as (Hl & Hf & Hc & Hfe). destruct Hfe as [Hfe|(fid & n & Hfe)]; rewrite Hfe; cbn [fst snd].
    + right. exists e0. rewrite app_nil_r. split; [exact E|unfold dead; auto].
    + right. exists e0. rewrite Hl, outer_obs_app, E. split; [reflexivity|unfold dead; cbn; auto].
Qed.

Lemma ack_nil (mt : mtype) : outer_obs (match mt with CON => [BWire ACK] | _ => [] end) = [].
Proof. destruct mt; reflexivity. Qed.

(* every step of the blockwise layer *)
Lemma bstep_shape b o : inv b -> Shape (fst (bstep b o)) (snd (bstep b o)) /\ inv (fst (bstep b o)).
Proof.
  intros I. destruct (b_outer_live b) eqn:L.
  2: { destruct I as (I1 & _). destruct (bstep_dead b o (I1 L)) as [D E]. split; [apply Shape_nil; exact E|apply dead_inv; exact D]. }
  destruct o as [now mt id observe bl|now mt id bl etag|now|now]; cbn [bstep].
  - destruct (sstep _ _) as [k' outs].
    pose proof (inv_pushes b k' outs ({| r_id := id; r_blk := bl; r_etag_ok := true |} :: b_info b) I) as I1.
    cbn [b_k b_info b_fetch b_cons b_outer_live b_first_done] in *.
    set (b1 := set_fc _ _ _ _) in *.
    assert (L1 : b_outer_live b1 = true) by exact L.
    assert (St : Stage (fst (match (if b_first_done b1 then None else lower_first outs) with Some r => first_response b1 now r (is_some observe) | None => (b1, []) end))
                       (snd (match (if b_first_done b1 then None else lower_first outs) with Some r => first_response b1 now r (is_some observe) | None => (b1, []) end))).
    { destruct (b_first_done b1) eqn:F1; [left; cbn; auto|]. destruct (lower_first outs) as [r|]; [|left; cbn; auto].
      destruct I1 as (_ & _ & I3). destruct (I3 F1) as [C Fe]. apply first_response_stage; assumption. }
    destruct (match (if b_first_done b1 then None else lower_first outs) with Some r => first_response b1 now r (is_some observe) | None => (b1, []) end) as [b2 o2].
    cbn [fst snd] in St. pose proof (stage_then_consume b2 o2 now (lower_wires outs) St (lower_wires_obs outs)) as [S I'].
    destruct (consumer_run 4 now b2) as [b3 o3]. cbn [fst snd] in *. split; [|exact I'].
    destruct S as (cbs & tail & E & F & T). exists cbs, tail. rewrite outer_obs_canon. auto.
  - destruct (b_fetch b) as [|fid n observable|fid n] eqn:Ef.
    + cbn [fst snd]. split; [apply Shape_nil; destruct mt; reflexivity|exact I].
    + assert (Fd : b_first_done b = true). { destruct I as (_ & _ & I3). destruct (b_first_done b) eqn:F; auto. destruct (I3 eq_refl) as [_ X]. congruence. }
      destruct (complete_next fid n _) as [[id' n']|[e|]].
      * set (b2 := if observable then start_consumer (set_fc b FNone (b_cons b) (b_outer_live b)) now else set_fc b FNone (b_cons b) (b_outer_live b)).
        assert (St : Stage b2 [BResp id' n']).
        { left. split; [reflexivity|]. unfold b2. destruct observable.
          - destruct (start_consumer_facts (set_fc b FNone (b_cons b) (b_outer_live b)) now) as (A1 & A2 & A3 & A4).
            split; [rewrite A2; exact L|]. apply inv_running; [rewrite A1; exact Fd|rewrite A2; exact L].
          - split; [exact L|]. apply inv_running; [exact Fd|exact L]. }
        pose proof (stage_then_consume b2 [BResp id' n'] now (match mt with CON => [BWire ACK] | _ => [] end) St (ack_nil mt)) as [S I'].
        destruct (consumer_run 4 now b2) as [b3 o3]. cbn [fst snd] in *. split; [|exact I'].
        destruct S as (cbs & tail & E & F & T). exists cbs, tail. rewrite outer_obs_canon. auto.
      * unfold fetch_failed. rewrite Ef, L. cbn [fst snd].
        assert (D : dead (set_fc b FNone CDone false)) by (unfold dead; cbn; auto).
        split; [|apply dead_inv; exact D]. eapply Shape_end; [|exact D]. rewrite outer_obs_canon, outer_obs_app, ack_nil. reflexivity.
      * cbn [fst snd]. split; [apply Shape_nil; rewrite outer_obs_canon; cbn [app outer_obs filter is_obs]; apply ack_nil|].
        unfold inv, dead. cbn. rewrite L, Fd. destruct I as (_ & I2 & _). repeat split; auto; discriminate.
    + assert (Fd : b_first_done b = true). { destruct I as (_ & _ & I3). destruct (b_first_done b) eqn:F; auto. destruct (I3 eq_refl) as [_ X]. congruence. }
      destruct (complete_next fid n _) as [[id' n']|[e|]].
      * assert (I1 : inv (set_fc b FNone (b_cons b) (b_outer_live b))).
        { unfold inv, dead. cbn. rewrite L, Fd. destruct I as (_ & I2 & _). repeat split; auto; discriminate. }
        destruct (consumer_run_inv 4 now (set_fc b FNone (b_cons b) (b_outer_live b)) I1 L) as [S I'].
        destruct (consumer_run 4 now _) as [b3 o3]. cbn [fst snd] in *. split; [|exact I'].
        eapply Shape_cb; [|exact S]. rewrite outer_obs_canon, outer_obs_cb, outer_obs_app, ack_nil, app_nil_r. reflexivity.
      * unfold fetch_failed. rewrite Ef. cbn [fst snd].
        assert (D : dead (cancel_lower (set_fc b FNone CDone false) now)) by (unfold cancel_lower; destruct (cancelled _); unfold dead; cbn; auto).
        split; [|apply dead_inv; exact D]. eapply Shape_end; [|exact D]. rewrite outer_obs_canon, outer_obs_app, ack_nil. reflexivity.
      * cbn [fst snd]. split; [apply Shape_nil; rewrite outer_obs_canon; cbn [app outer_obs filter is_obs]; apply ack_nil|].
        unfold inv, dead. cbn. rewrite L, Fd. destruct I as (_ & I2 & _). repeat split; auto; discriminate.
  - destruct (sstep _ _) as [k' outs].
    pose proof (inv_pushes b k' outs (b_info b) I) as I1.
    cbn [b_k b_info b_fetch b_cons b_outer_live b_first_done set_k] in *.
    set (b1 := set_fc _ _ _ _) in *.
    assert (St : Stage (fst (match (if b_first_done b1 then None else lower_first outs) with Some r => first_response b1 now r false | None => (b1, []) end))
                       (snd (match (if b_first_done b1 then None else lower_first outs) with Some r => first_response b1 now r false | None => (b1, []) end))).
    { destruct (b_first_done b1) eqn:F1; [left; cbn; auto|]. destruct (lower_first outs) as [r|]; [|left; cbn; auto].
      destruct I1 as (_ & _ & I3). destruct (I3 F1) as [C Fe]. apply first_response_stage; assumption. }
    destruct (match (if b_first_done b1 then None else lower_first outs) with Some r => first_response b1 now r false | None => (b1, []) end) as [b2 o2].
    cbn [fst snd] in St. pose proof (fetch_failed_stage b2 o2 now NetworkError St) as St2.
    destruct (fetch_failed b2 now NetworkError) as [b3 o3]. cbn [fst snd] in St2.
    pose proof (stage_then_consume b3 (o2 ++ o3) now [] St2 eq_refl) as [S I'].
    destruct (consumer_run 4 now b3) as [b4 o4]. cbn [fst snd] in *. split; [|exact I'].
    destruct S as (cbs & tail & E & F & T). exists cbs, tail. rewrite outer_obs_canon. rewrite app_nil_r, <- app_assoc in E. auto.
  - destruct (sstep _ _) as [k' outs].
    assert (I1 : inv (set_k b k')) by exact I.
    destruct (consumer_run_inv 4 now (set_k b k') I1 L) as [S I'].
    destruct (consumer_run 4 now (set_k b k')) as [b1 o1]. cbn [fst snd] in *. split; [|exact I'].
    destruct S as (cbs & tail & E & F & T). exists cbs, tail. rewrite outer_obs_canon. auto.
Qed.

Lemma inv_bw0 reset t0 : inv (bw0 reset t0).
Proof. unfold inv, bw0. cbn. repeat split; auto; discriminate. Qed.

(* once the observation is dead its history adds nothing; before that, a step adds callbacks and possibly the end *)
Theorem blockwise_ends_once_from : forall ops b, inv b -> exists cbs tail,
  outer_obs (brun_outs b ops) = cbs ++ tail /\ Forall isCb cbs /\ (tail = [] \/ exists e, tail = [BEb e]).
Proof.
  induction ops as [|o ops IH]; intros b I; [exists [], []; cbn; auto|].
  cbn [brun_outs]. destruct (bstep_shape b o I) as [(cbs & tail & E & F & T) I'].
  rewrite outer_obs_app, E. destruct T as [->|[(e & ->) D]].
  - destruct (IH _ I') as (cbs2 & tail2 & E2 & F2 & T2). exists (cbs ++ cbs2), tail2. rewrite E2, app_nil_r, app_assoc.
    split; [reflexivity|]. split; [apply Forall_app; auto|exact T2].
  - rewrite (bw_silent_after_end ops _ D), app_nil_r. exists cbs, [BEb e]. eauto.
Qed.

Theorem blockwise_ends_once : forall reset t0 ops, exists cbs tail,
  outer_obs (brun_outs (bw0 reset t0) ops) = cbs ++ tail /\ Forall isCb cbs /\ (tail = [] \/ exists e, tail = [BEb e]).
Proof. intros. apply blockwise_ends_once_from. apply inv_bw0. Qed.
