From Verif Require Import Lib.Py Lib.Tactics Gen.oscore_replay Model.C12.
Open Scope Z_scope.

(* ---------- characterisation of the translated code (the only place that looks inside Gen) ---------- *)
Definition is_valid_b (w : rw) (n : Z) : bool :=
  if n <? rw_index w then false
  else if n >=? rw_index w + rw_size w then true
  else Z.land (Z.shiftr (rw_bitfield w) (n - rw_index w)) 1 =? 0.
Lemma is_valid_eq w n : is_valid w n = Ok (is_valid_b w n).
Proof. unfold is_valid, is_valid_b. destruct (n <? rw_index w); [reflexivity|].
  destruct (n >=? rw_index w + rw_size w); reflexivity. Qed.

Definition slide (w : rw) (n : Z) : rw :=
  let ov := n - (rw_index w + rw_size w - 1) in
  if ov >? 0 then {| rw_size := rw_size w; rw_index := rw_index w + ov; rw_bitfield := Z.shiftr (rw_bitfield w) ov |} else w.
Definition mark (w : rw) (n : Z) : rw :=
  {| rw_size := rw_size w; rw_index := rw_index w; rw_bitfield := Z.lor (rw_bitfield w) (Z.shiftl 1 (n - rw_index w)) |}.
Lemma strike_out_eq w n :
  strike_out w n =
  if negb (is_valid_b w n) then Raise ValueError
  else if is_valid_b (slide w n) n then Ok (mark (slide w n) n, tt) else Raise AssertionError.
Proof.
  unfold strike_out. rewrite is_valid_eq. cbn [bind].
  destruct (negb (is_valid_b w n)); [reflexivity|].
  unfold slide. cbv zeta.
  destruct (n - (rw_index w + rw_size w - 1) >? 0); cbn [bind rw_size rw_index rw_bitfield];
    rewrite is_valid_eq; cbn [bind];
    match goal with |- context [massert ?b] => destruct b end; reflexivity.
Qed.

(* ---------- refinement to the abstract [seen] set ---------- *)
Definition Inv (w : rw) : Prop := 0 < rw_size w /\ 0 <= rw_index w /\ 0 <= rw_bitfield w < 2 ^ rw_size w.

Lemma land1_testbit a k : 0 <= k -> (Z.land (Z.shiftr a k) 1 =? 0) = negb (Z.testbit a k).
Proof.
  intros Hk. replace (Z.testbit a k) with (Z.testbit (Z.shiftr a k) 0)
    by (rewrite Z.shiftr_spec by lia; f_equal; lia).
  rewrite Z.bit0_odd. change 1 with (Z.ones 1). rewrite Z.land_ones by lia.
  change (2^1) with 2. rewrite Zmod_odd. destruct (Z.odd (Z.shiftr a k)); reflexivity.
Qed.
Lemma testbit_high a size k : 0 <= a < 2^size -> 0 < size -> size <= k -> Z.testbit a k = false.
Proof.
  intros [Ha Hb] Hs Hk. destruct (Z.eq_dec a 0) as [->|Hn]. apply Z.testbit_0_l.
  apply Z.bits_above_log2; try lia. apply Z.log2_lt_pow2; try lia.
  eapply Z.lt_le_trans; [exact Hb|]. apply Z.pow_le_mono_r; lia.
Qed.
Lemma lor_bound a b s : 0 < s -> 0 <= a < 2^s -> 0 <= b < 2^s -> 0 <= Z.lor a b < 2^s.
Proof.
  intros Hs Ha Hb. split. { apply Z.lor_nonneg. lia. }
  destruct (Z.eq_dec (Z.lor a b) 0) as [->|Hnz]; [apply Z.pow_pos_nonneg; lia|].
  apply Z.log2_lt_pow2. { pose proof (proj2 (Z.lor_nonneg a b)). lia. }
  rewrite Z.log2_lor by lia. apply Z.max_lub_lt.
  - destruct (Z.eq_dec a 0) as [->|]; [cbn; lia|]. apply Z.log2_lt_pow2; lia.
  - destruct (Z.eq_dec b 0) as [->|]; [cbn; lia|]. apply Z.log2_lt_pow2; lia.
Qed.
Lemma shiftr_bound a s k : 0 <= k -> 0 <= a < 2^s -> 0 <= Z.shiftr a k < 2^s.
Proof.
  intros Hk [Ha Hb]. rewrite Z.shiftr_div_pow2 by lia.
  assert (0 < 2^k) by (apply Z.pow_pos_nonneg; lia).
  split. apply Z.div_pos; lia.
  apply Z.le_lt_trans with a; [|lia]. apply Z.div_le_upper_bound; [lia|]. nia.
Qed.

Theorem is_valid_spec w n : Inv w -> 0 <= n -> is_valid w n = Ok (negb (seen w n)).
Proof.
  intros (Hs & Hi & Hb) Hn. rewrite is_valid_eq. f_equal. unfold is_valid_b, seen.
  destruct (n <? rw_index w) eqn:E1; [reflexivity|]. cbn [orb].
  destruct (n >=? rw_index w + rw_size w) eqn:E2.
  - rewrite (testbit_high (rw_bitfield w) (rw_size w)) by lia. reflexivity.
  - apply land1_testbit. lia.
Qed.
Lemma is_valid_b_spec w n : Inv w -> 0 <= n -> is_valid_b w n = negb (seen w n).
Proof. intros HI Hn. pose proof (is_valid_spec w n HI Hn) as H. rewrite is_valid_eq in H. congruence. Qed.

Lemma slide_inv w n : Inv w -> 0 <= n -> is_valid_b w n = true ->
  Inv (slide w n) /\ rw_size (slide w n) = rw_size w /\ rw_index w <= rw_index (slide w n) /\
  0 <= n - rw_index (slide w n) < rw_size w /\
  seen (slide w n) n = false /\
  (forall m, seen w m = true -> seen (slide w n) m = true) /\
  (forall m, rw_index (slide w n) <= m -> seen (slide w n) m = seen w m).
Proof.
  intros (Hs & Hi & Hb) Hn Hv. rewrite is_valid_b_spec in Hv by (repeat split; lia).
  unfold slide. set (ov := n - (rw_index w + rw_size w - 1)).
  destruct (ov >? 0) eqn:Eo; cbn [rw_size rw_index rw_bitfield].
  - assert (Hov : 0 < ov) by lia.
    pose proof (shiftr_bound (rw_bitfield w) (rw_size w) ov ltac:(lia) Hb) as Hsh.
    split; [unfold Inv; cbn [rw_size rw_index rw_bitfield]; lia|].
    split; [reflexivity|]. split; [lia|]. split; [unfold ov; lia|]. split; [|split].
    + unfold seen; cbn [rw_index rw_bitfield]. replace (n <? rw_index w + ov) with false by lia. cbn [orb].
      rewrite Z.shiftr_spec by lia. apply testbit_high with (size := rw_size w); lia.
    + intros m Hsm. unfold seen in *; cbn [rw_index rw_bitfield].
      destruct (m <? rw_index w + ov) eqn:E; [reflexivity|]. cbn [orb].
      rewrite Z.shiftr_spec by lia. replace (m - (rw_index w + ov) + ov) with (m - rw_index w) by lia.
      destruct (m <? rw_index w) eqn:E'; [lia|]. exact Hsm.
    + intros m Hge. unfold seen; cbn [rw_index rw_bitfield].
      replace (m <? rw_index w + ov) with false by lia. replace (m <? rw_index w) with false by lia. cbn [orb].
      rewrite Z.shiftr_spec by lia. f_equal. lia.
  - assert (Hr : 0 <= n - rw_index w < rw_size w).
    { unfold seen in Hv. destruct (n <? rw_index w) eqn:E; [discriminate|]. unfold ov in Eo. lia. }
    split; [unfold Inv; lia|]. split; [reflexivity|]. split; [lia|]. split; [lia|]. split; [|split]; auto.
    destruct (seen w n); [discriminate|reflexivity].
Qed.

Lemma mark_spec w n : Inv w -> 0 <= n - rw_index w < rw_size w ->
  Inv (mark w n) /\ rw_size (mark w n) = rw_size w /\ rw_index (mark w n) = rw_index w /\
  seen (mark w n) n = true /\
  (forall m, seen w m = true -> seen (mark w n) m = true) /\
  (forall m, m <> n -> seen (mark w n) m = seen w m).
Proof.
  intros (Hs & Hi & Hb) Hr. unfold mark.
  assert (Hbnd : 0 <= Z.lor (rw_bitfield w) (Z.shiftl 1 (n - rw_index w)) < 2 ^ rw_size w).
  { apply lor_bound; try lia. rewrite Z.shiftl_1_l. split; [apply Z.pow_nonneg; lia|apply Z.pow_lt_mono_r; lia]. }
  split; [unfold Inv; cbn [rw_size rw_index rw_bitfield]; lia|].
  split; [reflexivity|]. split; [reflexivity|]. split; [|split].
  - unfold seen; cbn [rw_index rw_bitfield]. rewrite Z.lor_spec, Z.shiftl_1_l, Z.pow2_bits_true by lia.
    rewrite orb_true_r. apply orb_true_r.
  - intros m Hsm. unfold seen in *; cbn [rw_index rw_bitfield]. rewrite Z.lor_spec.
    destruct (m <? rw_index w); [reflexivity|]. cbn [orb] in *. rewrite Hsm. reflexivity.
  - intros m Hne. unfold seen; cbn [rw_index rw_bitfield]. rewrite Z.lor_spec, Z.shiftl_1_l.
    rewrite Z.pow2_bits_false by lia. rewrite orb_false_r. reflexivity.
Qed.

(* strike_out marks exactly [n]; numbers below the (possibly advanced) index are forgotten as
   "seen"; nothing that was seen becomes valid again; the assert inside never fires. *)
Theorem strike_out_spec w n : Inv w -> 0 <= n ->
  (seen w n = true /\ strike_out w n = Raise ValueError) \/
  (seen w n = false /\ exists w', strike_out w n = Ok (w', tt) /\
     Inv w' /\ rw_size w' = rw_size w /\ rw_index w <= rw_index w' /\ seen w' n = true /\
     (forall m, seen w m = true -> seen w' m = true) /\
     (forall m, m <> n -> rw_index w' <= m -> seen w' m = seen w m)).
Proof.
  intros HI Hn. rewrite strike_out_eq. rewrite (is_valid_b_spec w n HI Hn).
  destruct (seen w n) eqn:Es; cbn [negb]; [left; auto|right]. split; [reflexivity|].
  assert (Hv : is_valid_b w n = true) by (rewrite is_valid_b_spec, Es by assumption; reflexivity).
  destruct (slide_inv w n HI Hn Hv) as (HI1 & Hsz & Hidx & Hr & Hns & Hmono & Hframe).
  rewrite (is_valid_b_spec _ n HI1 Hn), Hns. cbn [negb].
  rewrite <- Hsz in Hr.
  destruct (mark_spec (slide w n) n HI1 Hr) as (HI2 & Hsz2 & Hidx2 & Hs2 & Hmono2 & Hframe2).
  eexists. split; [reflexivity|]. repeat split; try (destruct HI2 as (?&?&?); lia); try lia.
  - exact Hs2.
  - intros m Hm. apply Hmono2, Hmono, Hm.
  - intros m Hne Hge. rewrite Hframe2 by assumption. apply Hframe. lia.
Qed.

(* ---------- corollaries on the plain window: every history ---------- *)
Lemma wstep_inv w o : Inv w -> (match o with IsValid n | StrikeOut n => 0 <= n end) ->
  Inv (fst (wstep w o)) /\ rw_size (fst (wstep w o)) = rw_size w /\
  (forall m, seen w m = true -> seen (fst (wstep w o)) m = true).
Proof.
  intros HI Hn. destruct o as [n|n]; cbn [wstep].
  - rewrite is_valid_eq. cbn. auto.
  - destruct (strike_out_spec w n HI Hn) as [[_ ->]|[_ (w' & -> & HI' & Hsz & _ & _ & Hm & _)]]; cbn; auto.
Qed.

(* ---------- the unprotect flow ---------- *)
Definition CtxInv (c : ctx) : Prop :=
  0 < size c /\ match window c with Some w => Inv w /\ rw_size w = size c | None => True end.
Definition cseen (c : ctx) (n : Z) : Prop :=
  match window c with Some w => seen w n = true | None => False end.

Lemma fresh_inv sz n : 0 < sz -> 0 <= n -> Inv (initialize_from_freshlyseen sz n).
Proof. intros Hs Hn. unfold Inv; cbn. repeat split; try lia. apply (Z.pow_lt_mono_r 2 0 sz); lia. Qed.
Lemma fresh_seen sz n m : seen (initialize_from_freshlyseen sz n) m = (m <=? n).
Proof. unfold seen; cbn [initialize_from_freshlyseen rw_index rw_bitfield].
  destruct (m <? n) eqn:E1; cbn [orb]; [lia|].
  destruct (Z.eq_dec m n) as [->|Hne].
  - rewrite Z.sub_diag. cbn. lia.
  - replace (m <=? n) with false by lia.
    change 1 with (2^0). apply Z.pow2_bits_false. lia. Qed.

Definition set_window (c : ctx) (win : option rw) : ctx :=
  {| size := size c; window := win; echo_recovery := echo_recovery c |}.
(* what unprotect_request computes, in terms of the abstract [seen] set *)
Definition unprotect_spec (c : ctx) (r : preq) : ctx * outcome :=
  let n := seqno r in
  match window c with
  | Some w =>
      if seen w n then
        match echo_recovery c with
        | None => (c, RejectReplay)
        | Some _ => if authentic r then (set_window c (Some w), RejectReplay) else (c, RejectInvalid)
        end
      else if authentic r then (set_window c (Some (mark (slide w n) n)), Accept) else (c, RejectInvalid)
  | None =>
      match echo_recovery c with
      | None => (c, RejectReplay)
      | Some e =>
          if authentic r then
            if opt_eqb (echo r) (Some e)
            then (set_window c (Some (initialize_from_freshlyseen (size c) n)), Accept)
            else (set_window c None, RejectEcho)
          else (c, RejectInvalid)
      end
  end.
Lemma unprotect_eq c r : CtxInv c -> 0 <= seqno r -> unprotect_request c r = unprotect_spec c r.
Proof.
  intros (Hs & Hw) Hn. unfold unprotect_request, unprotect_spec, set_window.
  destruct (window c) as [w|] eqn:Ew.
  - destruct Hw as (HIw & Hsz). rewrite is_valid_eq. cbn [bind].
    rewrite (is_valid_b_spec w _ HIw Hn), negb_involutive.
    destruct (seen w (seqno r)) eqn:Es; cbn [andb negb].
    + destruct (echo_recovery c) as [e|]; [|reflexivity].
      destruct (authentic r); cbn [negb]; reflexivity.
    + destruct (authentic r); cbn [negb]; [|reflexivity].
      rewrite strike_out_eq. rewrite (is_valid_b_spec w _ HIw Hn), Es. cbn [negb].
      assert (Hv : is_valid_b w (seqno r) = true) by (rewrite is_valid_b_spec, Es by assumption; reflexivity).
      destruct (slide_inv w (seqno r) HIw Hn Hv) as (HI1 & _ & _ & _ & Hns & _).
      rewrite (is_valid_b_spec _ _ HI1 Hn), Hns. cbn [negb bind andb]. reflexivity.
  - cbn [bind andb]. destruct (echo_recovery c) as [e|]; [|reflexivity].
    destruct (authentic r); cbn [negb andb]; [|reflexivity].
    destruct (opt_eqb (echo r) (Some e)); reflexivity.
Qed.

Lemma opt_eqb_eq a b : opt_eqb a b = true -> a = b.
Proof. destruct a, b; cbn; try discriminate; auto. intros H. apply Z.eqb_eq in H. congruence. Qed.

Lemma unprotect_step c r : CtxInv c -> 0 <= seqno r ->
  let '(c', o) := unprotect_request c r in
  CtxInv c' /\ size c' = size c /\ echo_recovery c' = echo_recovery c /\
  (forall m, cseen c m -> cseen c' m) /\
  (o = Accept -> authentic r = true /\ ~ cseen c (seqno r) /\ cseen c' (seqno r) /\
                 (window c = None -> echo r = echo_recovery c /\ echo_recovery c <> None)) /\
  (authentic r = false -> c' = c /\ o <> Accept) /\
  (forall e, o <> InternalError e).
Proof.
  intros HI Hn. rewrite (unprotect_eq c r HI Hn). destruct HI as (Hs & Hw).
  unfold unprotect_spec, set_window, CtxInv, cseen.
  destruct (window c) as [w|] eqn:Ew.
  - destruct Hw as (HIw & Hsz).
    destruct (seen w (seqno r)) eqn:Es.
    + destruct (echo_recovery c) as [e|] eqn:Ee; [destruct (authentic r) eqn:Ea|];
        cbn [size window echo_recovery]; rewrite ?Ew;
        (split; [auto|]); (split; [reflexivity|]); (split; [auto|]); (split; [auto|]);
        (split; [discriminate|]); (split; [try discriminate; auto|]); try discriminate.
      intros _. split; [reflexivity|discriminate].
      intros _. split; [reflexivity|discriminate].
    + destruct (authentic r) eqn:Ea; cbn [size window echo_recovery]; rewrite ?Ew.
      * assert (Hv : is_valid_b w (seqno r) = true) by (rewrite is_valid_b_spec, Es by assumption; reflexivity).
        destruct (slide_inv w (seqno r) HIw Hn Hv) as (HI1 & Hsz1 & _ & Hr & _ & Hmono & _).
        rewrite <- Hsz1 in Hr.
        destruct (mark_spec (slide w (seqno r)) (seqno r) HI1 Hr) as (HI2 & Hsz2 & _ & Hs2 & Hmono2 & _).
        split; [split; [exact Hs|split; [exact HI2|congruence]]|].
        split; [reflexivity|]. split; [reflexivity|].
        split; [intros m Hm; apply Hmono2, Hmono, Hm|].
        split; [intros _; split; [reflexivity|split; [congruence|split; [exact Hs2|discriminate]]]|].
        split; [discriminate|discriminate].
      * split; [auto|]. split; [reflexivity|]. split; [reflexivity|]. split; [auto|].
        split; [discriminate|]. split; [intros _; split; [reflexivity|discriminate]|discriminate].
  - destruct (echo_recovery c) as [e|] eqn:Ee.
    + destruct (authentic r) eqn:Ea.
      * destruct (opt_eqb (echo r) (Some e)) eqn:Eq; cbn [size window echo_recovery]; rewrite ?Ew.
        -- pose proof (fresh_inv (size c) (seqno r) Hs Hn) as Hf.
           pose proof (fresh_seen (size c) (seqno r) (seqno r)) as Hfs.
           split; [split; [exact Hs|split; [exact Hf|reflexivity]]|].
           split; [reflexivity|]. split; [reflexivity|]. split; [tauto|].
           split; [intros _; split; [reflexivity|split; [tauto|split; [rewrite Hfs; lia|]]]|].
           { intros _. split; [apply opt_eqb_eq; exact Eq|discriminate]. }
           split; [discriminate|discriminate].
        -- split; [auto|]. split; [reflexivity|]. split; [reflexivity|]. split; [tauto|].
           split; [discriminate|]. split; [discriminate|discriminate].
      * cbn [size window echo_recovery]; rewrite ?Ew.
        split; [auto|]. split; [reflexivity|]. split; [auto|]. split; [tauto|].
        split; [discriminate|]. split; [intros _; split; [reflexivity|discriminate]|discriminate].
    + cbn [size window echo_recovery]; rewrite ?Ew.
      split; [auto|]. split; [reflexivity|]. split; [auto|]. split; [tauto|].
      split; [discriminate|]. split; [intros _; split; [reflexivity|discriminate]|discriminate].
Qed.

Lemma seen_never_accepted rs : forall c n, CtxInv c -> Forall (fun r => 0 <= seqno r) rs ->
  cseen c n -> accepted_count n rs (snd (run c rs)) = 0%nat.
Proof.
  induction rs as [|r rs IH]; intros c n HI Hpos Hseen; cbn [run]; [reflexivity|].
  inversion Hpos as [|? ? Hr Hrs]; subst.
  pose proof (unprotect_step c r HI Hr) as Hst.
  destruct (unprotect_request c r) as [c1 o]. destruct Hst as (HI1 & _ & _ & Hmono & Hacc & _ & _).
  specialize (IH c1 n HI1 Hrs (Hmono n Hseen)).
  destruct (run c1 rs) as [c2 os]. cbn [snd accepted_count] in *. rewrite IH.
  destruct (seqno r =? n) eqn:E; cbn [andb]; [|reflexivity].
  destruct o; try reflexivity. apply Z.eqb_eq in E. subst n.
  destruct (Hacc eq_refl) as (_ & Hns & _). contradiction.
Qed.

Theorem accept_at_most_once_lemma rs : forall c n, CtxInv c -> Forall (fun r => 0 <= seqno r) rs ->
  (accepted_count n rs (snd (run c rs)) <= 1)%nat.
Proof.
  induction rs as [|r rs IH]; intros c n HI Hpos; cbn [run]; [cbn; lia|].
  inversion Hpos as [|? ? Hr Hrs]; subst.
  pose proof (unprotect_step c r HI Hr) as Hst.
  destruct (unprotect_request c r) as [c1 o] eqn:Eu. destruct Hst as (HI1 & _ & _ & Hmono & Hacc & _ & _).
  pose proof (IH c1 n HI1 Hrs) as IH1.
  pose proof (seen_never_accepted rs c1 n HI1 Hrs) as Hz.
  destruct (run c1 rs) as [c2 os]. cbn [snd accepted_count] in *.
  destruct (seqno r =? n) eqn:E; cbn [andb]; [|lia].
  destruct o; try lia. apply Z.eqb_eq in E. subst n.
  destruct (Hacc eq_refl) as (_ & _ & Hs1 & _). rewrite (Hz Hs1). lia.
Qed.

(* a forged (non-authentic) message leaves the context untouched and is never accepted *)
Theorem forgery_never_marks_lemma c r : CtxInv c -> 0 <= seqno r -> authentic r = false ->
  fst (unprotect_request c r) = c /\ snd (unprotect_request c r) <> Accept.
Proof. intros HI Hn Ha. pose proof (unprotect_step c r HI Hn) as H.
  destruct (unprotect_request c r) as [c' o]. destruct H as (_ & _ & _ & _ & _ & Hf & _). exact (Hf Ha). Qed.

(* authentic and not yet seen, initialised window: accepted *)
Theorem accept_unseen_lemma c w r : CtxInv c -> window c = Some w -> 0 <= seqno r -> authentic r = true ->
  seen w (seqno r) = false -> snd (unprotect_request c r) = Accept.
Proof.
  intros HI Ew Hn Ha Hns. rewrite (unprotect_eq c r HI Hn). unfold unprotect_spec.
  rewrite Ew, Hns, Ha. reflexivity.
Qed.
(* "above everything seen so far" implies unseen *)
Lemma above_all_unseen w n : (forall m, seen w m = true -> m < n) -> seen w n = false.
Proof. intros H. destruct (seen w n) eqn:E; [|reflexivity]. specialize (H n E). lia. Qed.
(* numbers that fell out of the window are seen *)
Lemma below_window_seen w n : n < rw_index w -> seen w n = true.
Proof. intros H. unfold seen. replace (n <? rw_index w) with true by lia. reflexivity. Qed.
Theorem reject_seen_lemma c w r : CtxInv c -> window c = Some w -> 0 <= seqno r ->
  seen w (seqno r) = true -> snd (unprotect_request c r) <> Accept.
Proof.
  intros HI Ew Hn Hsn. pose proof (unprotect_step c r HI Hn) as H.
  destruct (unprotect_request c r) as [c' o]. destruct H as (_ & _ & _ & _ & Hacc & _ & _).
  cbn [snd]. intros ->. destruct (Hacc eq_refl) as (_ & Hns & _). apply Hns. unfold cseen. rewrite Ew. exact Hsn.
Qed.

(* uninitialised window: acceptance needs the Echo value issued by this process, and afterwards
   exactly the numbers above the accepted one are valid *)
Theorem uninitialised_requires_echo_lemma c r : CtxInv c -> window c = None -> 0 <= seqno r ->
  snd (unprotect_request c r) = Accept ->
  authentic r = true /\ echo_recovery c <> None /\ echo r = echo_recovery c /\
  exists w', window (fst (unprotect_request c r)) = Some w' /\ forall m, seen w' m = (m <=? seqno r).
Proof.
  intros HI Ew Hn. rewrite (unprotect_eq c r HI Hn). unfold unprotect_spec. rewrite Ew.
  destruct (echo_recovery c) as [e|] eqn:Ee; [|cbn; discriminate].
  destruct (authentic r); [|cbn; discriminate].
  destruct (opt_eqb (echo r) (Some e)) eqn:Eq; cbn [fst snd]; [|discriminate].
  intros _. split; [reflexivity|]. split; [discriminate|]. split; [apply opt_eqb_eq; exact Eq|].
  eexists. split; [reflexivity|]. intros m. apply fresh_seen.
Qed.
(* without an Echo value nothing is ever accepted while uninitialised, over whole histories *)
Theorem uninitialised_never_accepts_without_echo rs : forall c, CtxInv c -> window c = None ->
  Forall (fun r => 0 <= seqno r /\ echo r <> echo_recovery c) rs ->
  Forall (fun o => o <> Accept) (snd (run c rs)) /\ window (fst (run c rs)) = None.
Proof.
  induction rs as [|r rs IH]; intros c HI Ew Hall; cbn [run]; [cbn; auto|].
  inversion Hall as [|? ? [Hr Hecho] Hrs]; subst.
  pose proof (unprotect_step c r HI Hr) as Hst.
  pose proof (uninitialised_requires_echo_lemma c r HI Ew Hr) as Hu.
  assert (Hwin : window (fst (unprotect_request c r)) = None).
  { rewrite (unprotect_eq c r HI Hr). unfold unprotect_spec. rewrite Ew.
    destruct (echo_recovery c) as [e|] eqn:Ee; [|exact Ew].
    destruct (authentic r); [|exact Ew].
    destruct (opt_eqb (echo r) (Some e)) eqn:Eq; cbn [fst window set_window]; [|reflexivity].
    exfalso. apply Hecho. apply opt_eqb_eq. exact Eq. }
  destruct (unprotect_request c r) as [c1 o]. destruct Hst as (HI1 & _ & Hech & _).
  cbn [fst snd] in *.
  assert (Hrs' : Forall (fun r0 => 0 <= seqno r0 /\ echo r0 <> echo_recovery c1) rs).
  { rewrite Hech. exact Hrs. }
  specialize (IH c1 HI1 Hwin Hrs'). destruct (run c1 rs) as [c2 os]. cbn [fst snd] in *.
  destruct IH as [IHa IHb]. split; [|exact IHb]. constructor; [|exact IHa].
  intros ->. destruct (Hu eq_refl) as (_ & _ & He & _). contradiction.
Qed.
