(* C13 — proofs, part 2: the persisted replay state.
   Invariant over every event list with crash points: what a reload would find in sequence.json is either
   "unknown" (the window stays uninitialised: C12's Echo requirement applies) or a window that marks every
   number accepted so far as seen; the live window marks every accepted number as seen. *)
From Verif Require Import Lib.Py Lib.Tactics Gen.oscore_replay Model.C12 Model.C13 Proofs.C12 Proofs.C13.
Open Scope Z_scope.

Definition subseen (A : list Z) (w : rw) : Prop := forall n, In n A -> seen w n = true.
Definition WinOK (sz : Z) (A : list Z) (ow : option rw) : Prop :=
  match ow with Some w => Inv w /\ rw_size w = sz /\ subseen A w | None => True end.
Definition DiskOK (sz : Z) (d : disk) (A : list Z) : Prop := WinOK sz A (load_window sz d).
Definition ProcOK (sz : Z) (p : proc) (d : disk) (A : list Z) : Prop :=
  size (uc p) = sz /\ echo_recovery (uc p) <> None /\ WinOK sz A (window (uc p)) /\
  (* flag set: an uninitialised live window means an uninitialised window on disk (the live window may be ahead of the file after a
     failed write, never behind what DiskOK demands); flag cleared: the file says "unknown" *)
  (if wpers p then window (uc p) = None -> load_window sz d = None else load_window sz d = None).
Definition ROK (w : world) (A : list Z) : Prop :=
  0 < w_size w /\ DiskOK (w_size w) (w_disk w) A /\
  match w_proc w with Some p => ProcOK (w_size w) p (w_disk w) A | None => True end.

Definition drecv (d : disk) : option received := option_map sf_recv (d_seq d).
Lemma load_window_ext sz d1 d2 : drecv d1 = drecv d2 -> load_window sz d1 = load_window sz d2.
Proof. unfold drecv, load_window. destruct (d_seq d1), (d_seq d2); cbn; intros H; try discriminate; [injection H as ->|]; reflexivity. Qed.

Lemma WinOK_ctxinv sz A c : 0 < sz -> size c = sz -> WinOK sz A (window c) -> CtxInv c.
Proof. intros Hs Hsz H. unfold CtxInv, WinOK in *. split; [lia|]. destruct (window c); [|exact I]. destruct H as (A1 & A2 & _). split; [exact A1|congruence]. Qed.

(* the window a reload reads back from what _store wrote *)
Definition rw_size_ok (sz : Z) (ow : option rw) : Prop := match ow with Some w => rw_size w = sz | None => True end.
Lemma store_window sz p d : rw_size_ok sz (window (uc p)) -> d_seq d = Some (store_content p) ->
  load_window sz d = if wpers p then window (uc p) else None.
Proof.
  intros Hsz Hd. unfold load_window. rewrite Hd. unfold store_content; cbn [sf_recv].
  destruct (wpers p); cbn [negb]; [|reflexivity].
  destruct (window (uc p)) as [w|]; cbn [persist]; [|reflexivity].
  cbn in Hsz. subst sz. destruct w; reflexivity.
Qed.
Lemma WinOK_size sz A ow : WinOK sz A ow -> rw_size_ok sz ow.
Proof. destruct ow; cbn; [intros (_ & H & _); exact H|auto]. Qed.

(* a process that (re)writes sequence.json with its current flags keeps the disk consistent with itself *)
Lemma store_rok sz p d d' A :
  0 < sz -> ProcOK sz p d A -> DiskOK sz d A ->
  (d_seq d' = d_seq d \/ d_seq d' = Some (store_content p)) ->
  DiskOK sz d' A /\ (d_seq d' = Some (store_content p) -> ProcOK sz p d' A).
Proof.
  intros Hs (Hsz & He & Hw & Hrel) Hdk Hseq. split.
  - destruct Hseq as [Hseq|Hseq].
    + unfold DiskOK. rewrite (load_window_ext sz d' d); [exact Hdk|]. unfold drecv; rewrite Hseq; reflexivity.
    + unfold DiskOK. rewrite (store_window sz p d' (WinOK_size _ _ _ Hw) Hseq). destruct (wpers p); [exact Hw|exact I].
  - intros Hseq'. split; [exact Hsz|]. split; [exact He|]. split; [exact Hw|].
    rewrite (store_window sz p d' (WinOK_size _ _ _ Hw) Hseq'). destruct (wpers p); auto.
Qed.
(* the same for a process record that differs only in the counters *)
Lemma ProcOK_counters sz p q d A : uc q = uc p -> wpers q = wpers p -> ProcOK sz p d A -> ProcOK sz q d A.
Proof. intros Hu Hw. unfold ProcOK. rewrite Hu, Hw. auto. Qed.
Lemma store_content_recv p q : uc q = uc p -> wpers q = wpers p -> sf_recv (store_content q) = sf_recv (store_content p).
Proof. intros Hu Hw. unfold store_content; cbn. rewrite Hu, Hw. reflexivity. Qed.

(* new_sequence_number touches the replay state on disk only by rewriting it from the unchanged flags *)
Lemma nsn_disk p d a :
  match new_sequence_number p d a with
  | (p', d', r) => uc p' = uc p /\ wpers p' = wpers p /\
                   (d_seq d' = d_seq d \/ d_seq d' = Some (store_content p'))
  end.
Proof.
  unfold new_sequence_number. destruct (ssn p >=? MAX_SEQNO); [auto|].
  unfold post_seqnoincrease. cbn [ssn persisted chunk limit set_ssn set_persisted set_chunk].
  destruct (ssn p + 1 >? persisted p).
  - match goal with |- context [_store ?q d a] => pose proof (store_seq q d a) as Hst; destruct (_store q d a) as [d' died] end.
    destruct Hst as (Hseq & _ & _). destruct died; [cbn; auto|].
    match goal with |- context [if ?b then _ else _] => destruct b end; cbn; auto.
  - cbn. auto.
Qed.

Lemma nsn_rok sz p d a A : 0 < sz -> ProcOK sz p d A -> DiskOK sz d A ->
  match new_sequence_number p d a with
  | (p', d', Died) => DiskOK sz d' A
  | (p', d', _) => ProcOK sz p' d' A /\ DiskOK sz d' A
  end.
Proof.
  intros Hs HP HD. pose proof (nsn_disk p d a) as H.
  destruct (new_sequence_number p d a) as [[p' d'] r]. destruct H as (Hu & Hw & Hseq).
  pose proof (ProcOK_counters sz p p' d A Hu Hw HP) as HP'.
  destruct (store_rok sz p' d d' A Hs HP' HD Hseq) as (HD' & HPn).
  assert (HPfin : ProcOK sz p' d' A).
  { destruct Hseq as [Hseq|Hseq]; [|exact (HPn Hseq)].
    destruct HP' as (A1 & A2 & A3 & A4). split; [exact A1|]. split; [exact A2|]. split; [exact A3|].
    rewrite (load_window_ext sz d' d); [exact A4|]. unfold drecv; rewrite Hseq; reflexivity. }
  destruct r; auto.
Qed.

Lemma seq_loop_rok sz A n : forall p d a acc, 0 < sz -> ProcOK sz p d A -> DiskOK sz d A ->
  match seq_loop n p d a acc with
  | (p', d', l, SeqDied) => DiskOK sz d' A
  | (p', d', l, _) => ProcOK sz p' d' A /\ DiskOK sz d' A
  end.
Proof.
  induction n as [|n IH]; intros p d a acc Hs HP HD; cbn [seq_loop]; [auto|].
  pose proof (nsn_rok sz p d a A Hs HP HD) as H.
  destruct (new_sequence_number p d a) as [[p1 d1] [v|e|]].
  - destruct H as [H1 H2]. apply IH; assumption.
  - exact H.
  - exact H.
Qed.

(* facts about the C12 request path needed here *)
Lemma accept_dec (o : outcome) : {o = Accept} + {o <> Accept}.
Proof. destruct o; (left; reflexivity) || (right; discriminate). Qed.
Lemma unprotect_not_accept_window c r : CtxInv c -> 0 <= seqno r ->
  snd (unprotect_request c r) <> Accept -> window (fst (unprotect_request c r)) = window c.
Proof.
  intros HI Hn. rewrite (unprotect_eq c r HI Hn). unfold unprotect_spec, set_window.
  destruct (window c) as [w|] eqn:Ew.
  - destruct (seen w (seqno r)).
    + destruct (echo_recovery c); [destruct (authentic r)|]; cbn; auto.
    + destruct (authentic r); cbn; [congruence|auto].
  - destruct (echo_recovery c); [|cbn; auto]. destruct (authentic r); [|cbn; auto].
    destruct (opt_eqb (echo r) (Some z)); cbn; [congruence|auto].
Qed.

(* numbers accepted by one step *)
Definition acc_of (ev : event) (o : output) : list Z :=
  match ev, o with Unprotect r _, OUnprot Accept | UnprotectFails r _, OUnprot Accept => [seqno r] | _, _ => [] end.
(* Echo re-initialisation happens with a number above everything accepted so far (the peer's numbers increase and
   the Echo value of this lifetime cannot occur in a message created before it) *)
Definition echo_cond (w : world) (A : list Z) (ev : event) : Prop :=
  match ev, w_proc w with
  | Unprotect r _, Some p | UnprotectFails r _, Some p =>
      window (uc p) = None -> echo r = echo_recovery (uc p) -> authentic r = true -> forall m, In m A -> m < seqno r
  | _, _ => True
  end.
Definition ev_ok2 (ev : event) : Prop :=
  match ev with Unprotect r _ | UnprotectFails r _ => 0 <= seqno r | _ => True end.

Lemma WinOK_nil_to sz A ow : WinOK sz A ow -> WinOK sz [] ow.
Proof. destruct ow; cbn; [|auto]. intros (H1 & H2 & _). split; [exact H1|]. split; [exact H2|]. intros n []. Qed.

Lemma subseen_app A B w : subseen A w -> subseen B w -> subseen (A ++ B) w.
Proof. intros HA HB n Hin. apply in_app_or in Hin. destruct Hin; auto. Qed.

Lemma unprotect_rok sz p d a r A : 0 < sz -> ProcOK sz p d A -> DiskOK sz d A -> 0 <= seqno r ->
  (window (uc p) = None -> echo r = echo_recovery (uc p) -> authentic r = true -> forall m, In m A -> m < seqno r) ->
  match unprotect p d a r with
  | (p', d', Val o) => let A' := A ++ (match o with Accept => [seqno r] | _ => [] end) in
                       ProcOK sz p' d' A' /\ DiskOK sz d' A' /\ (o = Accept -> ~ In (seqno r) A) /\
                       (o = Accept -> window (uc p) <> None -> load_window sz d' = None /\ wpers p' = false)
  | (p', d', Exn _) => False
  | (p', d', Died) => DiskOK sz d' A
  end.
Proof.
  intros Hs HP HD Hn Hecho. destruct HP as (Hsz & He & Hw & Hrel).
  pose proof (WinOK_ctxinv sz A (uc p) Hs Hsz Hw) as HI.
  pose proof (unprotect_step (uc p) r HI Hn) as Hst.
  pose proof (unprotect_not_accept_window (uc p) r HI Hn) as Hna.
  pose proof (uninitialised_requires_echo_lemma (uc p) r HI) as Hun.
  unfold unprotect. destruct (unprotect_request (uc p) r) as [c' o] eqn:Eu. cbn [fst snd] in *.
  destruct Hst as (HI' & Hsz' & He' & Hmono & Hacc & _ & _).
  (* the window of c' marks A and, if accepted, the new number *)
  assert (HwA : WinOK sz (A ++ match o with Accept => [seqno r] | _ => [] end) (window c')).
  { unfold WinOK. destruct (window c') as [w'|] eqn:Ew'; [|exact I].
    destruct HI' as (_ & HI'w). rewrite Ew' in HI'w. destruct HI'w as (Hinv & Hrs).
    split; [exact Hinv|]. split; [congruence|].
    assert (HA : subseen A w').
    { destruct (window (uc p)) as [w0|] eqn:Ew0.
      - destruct Hw as (_ & _ & Hsub). intros m Hm.
        assert (Hc : cseen (uc p) m) by (unfold cseen; rewrite Ew0; apply Hsub; exact Hm).
        apply Hmono in Hc. unfold cseen in Hc. rewrite Ew' in Hc. exact Hc.
      - destruct (accept_dec o) as [->|Hne].
        + destruct (Hun eq_refl Hn eq_refl) as (Hauth & _ & Hech & (w2 & Hw2 & Hseen2)).
          injection Hw2 as Hw2; subst w2. intros m Hm. rewrite Hseen2.
          specialize (Hecho eq_refl Hech Hauth m Hm). lia.
        + discriminate (Hna Hne). }
    apply subseen_app; [exact HA|].
    destruct o; try (intros m Hm; cbn in Hm; contradiction). intros m [<-|[]].
    destruct (Hacc eq_refl) as (_ & _ & Hc & _). unfold cseen in Hc. rewrite Ew' in Hc. exact Hc. }
  assert (Hnotin : o = Accept -> ~ In (seqno r) A).
  { intros ->. destruct (Hacc eq_refl) as (Hauth & Hns & _ & Hnone).
    destruct (window (uc p)) as [w0|] eqn:Ew0.
    - destruct Hw as (_ & _ & Hsub). intros Hin. apply Hns. unfold cseen. rewrite Ew0. apply Hsub. exact Hin.
    - destruct (Hnone eq_refl) as (Hech & _). intros Hin. specialize (Hecho eq_refl Hech Hauth _ Hin). lia. }
  unfold strikes. destruct (window (uc p)) as [w0|] eqn:Ew0.
  - destruct (accept_dec o) as [->|Hne].
    + (* strike_out ran: the callback marks the file "unknown" before Accept is returned *)
      unfold _replay_window_changed. cbn [wpers set_uc].
      destruct (wpers p) eqn:Ewp.
      * match goal with |- context [_store ?q d a] => pose proof (store_seq q d a) as Hstore; destruct (_store q d a) as [d' died] end.
        destruct Hstore as (Hseq & Hok & _).
        destruct died.
        -- unfold DiskOK. destruct Hseq as [Hseq|Hseq].
           ++ rewrite (load_window_ext sz d' d); [exact HD|]. unfold drecv; rewrite Hseq; reflexivity.
           ++ unfold load_window. rewrite Hseq. cbn. exact I.
        -- destruct (Hok eq_refl) as (Hseq' & _).
           assert (Hlw : load_window sz d' = None) by (unfold load_window; rewrite Hseq'; reflexivity).
           cbv zeta. split.
           { split; [cbn; congruence|]. split; [cbn; congruence|]. split; [cbn; exact HwA|]. cbn [wpers set_wpers]. exact Hlw. }
           split; [unfold DiskOK; rewrite Hlw; exact I|]. split; [exact Hnotin|]. intros _ _. split; [exact Hlw|reflexivity].
      * cbv zeta. split.
        { split; [cbn; congruence|]. split; [cbn; congruence|]. split; [cbn; exact HwA|]. cbn [wpers set_uc]. rewrite Ewp. exact Hrel. }
        split; [unfold DiskOK; rewrite Hrel; exact I|]. split; [exact Hnotin|]. intros _ _. split; [exact Hrel|cbn; exact Ewp].
    + (* no state change of the window *)
      assert (Hs0 : (match o with Accept => true | _ => false end) = false) by (destruct o; congruence).
      rewrite Hs0. cbv zeta.
      assert (Hnil : (match o with Accept => [seqno r] | _ => [] end) = []) by (destruct o; congruence).
      rewrite Hnil in *. rewrite app_nil_r in *.
      split.
      { split; [cbn; congruence|]. split; [cbn; congruence|]. split; [cbn; exact HwA|]. cbn [wpers set_uc uc].
        rewrite (Hna Hne). destruct (wpers p); [intros Hc; discriminate|exact Hrel]. }
      split; [exact HD|]. split; [exact Hnotin|]. intros ->. congruence.
  - (* uninitialised window: nothing is written; the disk says unknown / null already *)
    assert (Hlw : load_window sz d = None) by (destruct (wpers p); [exact (Hrel eq_refl)|exact Hrel]).
    cbv zeta. split.
    { split; [cbn; congruence|]. split; [cbn; congruence|]. split; [cbn; exact HwA|]. cbn [wpers set_uc].
      destruct (wpers p); [intros _; exact Hlw|exact Hlw]. }
    split; [unfold DiskOK; rewrite Hlw; exact I|]. split; [exact Hnotin|]. intros _ H. congruence.
Qed.

(* ---------- clean shutdown, reload ---------- *)
Lemma destroy_rok sz p d a A : 0 < sz -> ProcOK sz p d A -> DiskOK sz d A ->
  match _destroy p d a with
  | (d', died) => DiskOK sz d' A /\
                  (died = false -> load_window sz d' = window (uc p) /\ load_wpers d' = true /\ dbound d' = ssn p /\ d_lock d' = false)
  end.
Proof.
  intros Hs (Hsz & He & Hw & Hrel) HD.
  pose proof (destroy_seq p d a) as H. cbv zeta in H. destruct (_destroy p d a) as [d' died].
  destruct H as (Hseq & Hok & _).
  set (p1 := set_persisted (set_wpers p true) (ssn p)) in *.
  assert (Hnew : d_seq d' = Some (store_content p1) -> load_window sz d' = window (uc p)).
  { intros Hd. rewrite (store_window sz p1 d'); [reflexivity| |exact Hd]. cbn. exact (WinOK_size _ _ _ Hw). }
  split.
  - unfold DiskOK. destruct Hseq as [Hseq|Hseq].
    + rewrite (load_window_ext sz d' d); [exact HD|]. unfold drecv; rewrite Hseq; reflexivity.
    + rewrite (Hnew Hseq). exact Hw.
  - intros Hd. destruct (Hok Hd) as (Hseq' & Hlock). split; [exact (Hnew Hseq')|].
    unfold load_wpers, dbound. rewrite Hseq'. cbn. auto.
Qed.

Lemma load_rok sz start lim echo d A : 0 < sz -> DiskOK sz d A ->
  ProcOK sz (load sz start lim echo (fs_create_lock d)) (fs_create_lock d) A /\ DiskOK sz (fs_create_lock d) A.
Proof.
  intros Hs HD.
  assert (Hlw : load_window sz (fs_create_lock d) = load_window sz d) by reflexivity.
  split; [|unfold DiskOK; rewrite Hlw; exact HD].
  split; [reflexivity|]. split; [cbn; discriminate|]. split; [cbn [load uc window]; rewrite Hlw; exact HD|].
  cbn [load wpers uc window]. unfold load_wpers, load_window. cbn [fs_create_lock d_seq].
  destruct (d_seq d) as [f|]; [|auto]. destruct (sf_recv f); auto.
Qed.

Lemma ROK_nil_app w A : ROK w A -> ROK w (A ++ []).
Proof. rewrite app_nil_r. auto. Qed.

(* ---------- _store raising OSError: rolled back, sequence.json untouched ---------- *)
Lemma nsn_fails_same p d k :
  match new_sequence_number_fails p d k with
  | (p', d', _) => uc p' = uc p /\ wpers p' = wpers p /\ pend p' = pend p /\ d_seq d' = d_seq d
  end.
Proof.
  unfold new_sequence_number_fails. destruct (ssn p >=? MAX_SEQNO); [auto|].
  unfold post_seqnoincrease_fails. cbn [ssn persisted chunk limit set_ssn].
  destruct (ssn p + 1 >? persisted p); cbn; auto using (proj1 (store_fails_keeps _ _ _)).
Qed.
Lemma nsn_fails_rok sz p d k A : ProcOK sz p d A -> DiskOK sz d A ->
  match new_sequence_number_fails p d k with (p', d', _) => ProcOK sz p' d' A /\ DiskOK sz d' A end.
Proof.
  intros HP HD. pose proof (nsn_fails_same p d k) as H.
  destruct (new_sequence_number_fails p d k) as [[p' d'] r]. destruct H as (Hu & Hw & _ & Hseq).
  assert (Hlw : load_window sz d' = load_window sz d) by (apply load_window_ext; unfold drecv; rewrite Hseq; reflexivity).
  split; [|unfold DiskOK; rewrite Hlw; exact HD].
  unfold ProcOK in *. rewrite Hu, Hw, Hlw. exact HP.
Qed.
(* unprotect with a failing _store: unless the strike-out callback reaches _store it is an ordinary unprotect *)
Lemma unprotect_fails_cases p d k r :
  let o := snd (unprotect_request (uc p) r) in let c' := fst (unprotect_request (uc p) r) in
  if strikes (uc p) o && wpers p
  then unprotect_fails p d k r = (set_uc p c', _store_fails (set_wpers (set_uc p c') false) d k, Exn OSError)
  else unprotect_fails p d k r = unprotect p d None r.
Proof.
  cbv zeta. unfold unprotect_fails, unprotect. destruct (unprotect_request (uc p) r) as [c' o]. cbn [fst snd wpers set_uc].
  destruct (strikes (uc p) o); cbn [andb]; [|reflexivity].
  unfold _replay_window_changed. cbn [wpers set_uc]. destruct (wpers p); reflexivity.
Qed.

(* ---------- one event ---------- *)
Lemma step_rok w ev A : ROK w A -> ev_ok2 ev -> echo_cond w A ev ->
  let '(w', o) := step w ev in ROK w' (A ++ acc_of ev o) /\ (forall n, In n (acc_of ev o) -> ~ In n A).
Proof.
  intros (Hs & HD & HP) Hok Hecho. unfold step. unfold echo_cond in Hecho.
  destruct (w_proc w) as [p|] eqn:Ep.
  - destruct ev as [a|n a|r a|a| |start lim echo|a|k|r k].
    + pose proof (nsn_rok (w_size w) p (w_disk w) a A Hs HP HD) as H.
      destruct (new_sequence_number p (w_disk w) a) as [[p1 d1] [v|e|]]; cbn [acc_of]; rewrite app_nil_r;
        (split; [|intros ? []]); (split; [exact Hs|]); cbn [w_size w_disk w_proc mkw]; try tauto.
    + pose proof (seq_loop_rok (w_size w) A (Z.to_nat n) p (w_disk w) a [] Hs HP HD) as H.
      destruct (seq_loop (Z.to_nat n) p (w_disk w) a []) as [[[p1 d1] l] e].
      destruct e; cbn [acc_of]; rewrite app_nil_r; (split; [|intros ? []]); (split; [exact Hs|]); cbn [w_size w_disk w_proc mkw]; tauto.
    + pose proof (unprotect_rok (w_size w) p (w_disk w) a r A Hs HP HD Hok Hecho) as H.
      destruct (unprotect p (w_disk w) a r) as [[p1 d1] [o|e|]]; [| contradiction |].
      * cbv zeta in H. destruct H as (H1 & H2 & H3 & _). cbn [acc_of].
        assert (Heq : (match o with Accept => [seqno r] | _ => [] end) = acc_of (Unprotect r a) (OUnprot o)) by (destruct o; reflexivity).
        rewrite Heq in *. cbn [acc_of] in *.
        split; [split; [exact Hs|]; cbn [w_size w_disk w_proc mkw]; tauto|].
        intros n Hin. destruct o; try contradiction. destruct Hin as [<-|[]]. apply H3. reflexivity.
      * cbn [acc_of]. rewrite app_nil_r. split; [|intros ? []]. split; [exact Hs|]. cbn [w_size w_disk w_proc mkw]. tauto.
    + pose proof (destroy_rok (w_size w) p (w_disk w) a A Hs HP HD) as H.
      destruct (_destroy p (w_disk w) a) as [d' died]. destruct H as (H1 & _).
      assert (Hno : acc_of (CleanStop a) (if died then ODied else OStopped) = []) by (destruct died; reflexivity).
      rewrite Hno, app_nil_r. split; [|intros ? []]. split; [exact Hs|]. cbn [w_size w_disk w_proc mkw]. tauto.
    + cbn [acc_of]. rewrite app_nil_r. split; [|intros ? []]. split; [exact Hs|]. cbn [w_size w_disk w_proc mkw]. tauto.
    + cbn [acc_of]. rewrite app_nil_r. split; [|intros ? []]. split; [exact Hs|]. split; [exact HD|]. rewrite Ep. exact HP.
    + destruct (pend p) as [[n [|]]|].
      * cbn [acc_of]. rewrite app_nil_r. split; [|intros ? []]. split; [exact Hs|]. split; [exact HD|exact HP].
      * pose proof (nsn_rok (w_size w) p (w_disk w) a A Hs HP HD) as H.
        destruct (new_sequence_number p (w_disk w) a) as [[p1 d1] [v|e|]]; cbn [acc_of]; rewrite app_nil_r;
          (split; [|intros ? []]); (split; [exact Hs|]); cbn [w_size w_disk w_proc mkw]; try tauto.
      * pose proof (nsn_rok (w_size w) p (w_disk w) a A Hs HP HD) as H.
        destruct (new_sequence_number p (w_disk w) a) as [[p1 d1] [v|e|]]; cbn [acc_of]; rewrite app_nil_r;
          (split; [|intros ? []]); (split; [exact Hs|]); cbn [w_size w_disk w_proc mkw]; try tauto.
    + pose proof (nsn_fails_rok (w_size w) p (w_disk w) k A HP HD) as H.
      destruct (new_sequence_number_fails p (w_disk w) k) as [[p1 d1] [v|e|]]; cbn [acc_of]; rewrite app_nil_r;
        (split; [|intros ? []]); (split; [exact Hs|]); cbn [w_size w_disk w_proc mkw]; tauto.
    + pose proof (unprotect_fails_cases p (w_disk w) k r) as Hc. cbv zeta in Hc.
      destruct (strikes (uc p) (snd (unprotect_request (uc p) r)) && wpers p) eqn:Esw.
      * (* the write fails: the request is not accepted; the live window has the number struck, the file is as before *)
        rewrite Hc. cbn [acc_of]. rewrite app_nil_r. split; [|intros ? []]. split; [exact Hs|]. cbn [w_size w_disk w_proc mkw].
        assert (Hlw : load_window (w_size w) (_store_fails (set_wpers (set_uc p (fst (unprotect_request (uc p) r))) false) (w_disk w) k) = load_window (w_size w) (w_disk w))
          by (apply load_window_ext; unfold drecv; rewrite (proj1 (store_fails_keeps _ _ _)); reflexivity).
        split; [unfold DiskOK; rewrite Hlw; exact HD|].
        apply andb_prop in Esw as [Est Ewp].
        destruct HP as (Hsz & He & Hw & Hrel).
        pose proof (WinOK_ctxinv (w_size w) A (uc p) Hs Hsz Hw) as HI.
        pose proof (unprotect_step (uc p) r HI Hok) as Hst.
        destruct (unprotect_request (uc p) r) as [c' o]. cbn [fst snd] in *. destruct Hst as (HI' & Hsz' & He' & Hmono & Hacc & _).
        unfold strikes in Est. destruct (window (uc p)) as [w0|] eqn:Ew0; [|discriminate].
        split; [cbn; congruence|]. split; [cbn; congruence|]. split.
        -- cbn [uc set_uc set_pend]. unfold WinOK. destruct (window c') as [w'|] eqn:Ew'; [|exact I].
           destruct HI' as (_ & HI'w). rewrite Ew' in HI'w. destruct HI'w as (Hinv & Hrs).
           split; [exact Hinv|]. split; [congruence|]. destruct Hw as (_ & _ & Hsub). intros m Hm.
           assert (Hcs : cseen (uc p) m) by (unfold cseen; rewrite Ew0; apply Hsub; exact Hm).
           apply Hmono in Hcs. unfold cseen in Hcs. rewrite Ew' in Hcs. exact Hcs.
        -- cbn [wpers set_uc set_pend uc]. rewrite Ewp, Hlw. intros Hc'. exfalso.
           destruct o; try discriminate. destruct (Hacc eq_refl) as (_ & _ & Hcs & _). unfold cseen in Hcs. rewrite Hc' in Hcs. exact Hcs.
      * rewrite Hc.
        pose proof (unprotect_rok (w_size w) p (w_disk w) None r A Hs HP HD Hok Hecho) as H.
        destruct (unprotect p (w_disk w) None r) as [[p1 d1] [o|e|]]; [| contradiction |].
        -- cbv zeta in H. destruct H as (H1 & H2 & H3 & _). cbn [acc_of].
           assert (Heq : (match o with Accept => [seqno r] | _ => [] end) = acc_of (UnprotectFails r k) (OUnprot o)) by (destruct o; reflexivity).
           rewrite Heq in *. cbn [acc_of] in *.
           split; [split; [exact Hs|]; cbn [w_size w_disk w_proc mkw]; tauto|].
           intros n Hin. destruct o; try contradiction. destruct Hin as [<-|[]]. apply H3. reflexivity.
        -- cbn [acc_of]. rewrite app_nil_r. split; [|intros ? []]. split; [exact Hs|]. cbn [w_size w_disk w_proc mkw]. tauto.
  - destruct ev as [a|n a|r a|a| |start lim echo|a|k|r k]; cbn [acc_of]; rewrite app_nil_r; (split; [|intros ? []]);
      try (split; [exact Hs|]; split; [exact HD|]; rewrite Ep; exact I).
    destruct (load_rok (w_size w) start lim echo (w_disk w) A Hs HD) as (H1 & H2).
    split; [exact Hs|]. cbn [w_size w_disk w_proc mkw]. tauto.
Qed.

(* ---------- whole histories ---------- *)
Fixpoint fresh_echo_run (w : world) (A : list Z) (evs : list event) : Prop :=
  match evs with
  | [] => True
  | e :: r => echo_cond w A e /\ fresh_echo_run (fst (step w e)) (A ++ acc_of e (snd (step w e))) r
  end.

Lemma accepted_cons e r o os : accepted (e :: r) (o :: os) = acc_of e o ++ accepted r os.
Proof. destruct e; cbn; try reflexivity; (destruct o; try reflexivity; destruct o; reflexivity). Qed.

Lemma NoDup_app_single (A : list Z) x : NoDup A /\ ~ In x A -> NoDup (A ++ [x]).
Proof.
  intros [Hnd Hni]. induction A as [|a A IH]; cbn; [constructor; [intros []|constructor]|].
  inversion Hnd as [|? ? Ha HA]; subst. constructor.
  - intros Hin. apply in_app_or in Hin. destruct Hin as [Hin|[<-|[]]]; [contradiction|]. apply Hni. left; reflexivity.
  - apply IH; [exact HA|]. intros Hin. apply Hni. right; exact Hin.
Qed.

Lemma run_rok evs : forall w A, ROK w A -> Forall ev_ok2 evs -> fresh_echo_run w A evs -> NoDup A ->
  ROK (fst (run w evs)) (A ++ accepted evs (snd (run w evs))) /\ NoDup (A ++ accepted evs (snd (run w evs))).
Proof.
  induction evs as [|e r IH]; intros w A HR Hok Hfr Hnd; cbn [run].
  - cbn. rewrite app_nil_r. auto.
  - inversion Hok as [|? ? He Hr]; subst. cbn [fresh_echo_run] in Hfr. destruct Hfr as (Hec & Hfr).
    pose proof (step_rok w e A HR He Hec) as Hs. destruct (step w e) as [w1 o]. cbn [fst snd] in *.
    destruct Hs as (HR1 & Hnew).
    assert (Hnd1 : NoDup (A ++ acc_of e o)).
    { destruct (acc_of e o) as [|x [|y l]] eqn:Ea.
      - rewrite app_nil_r. exact Hnd.
      - apply NoDup_app_single. split; [exact Hnd|]. apply Hnew. left; reflexivity.
      - exfalso. destruct e; cbn in Ea; try discriminate; (destruct o; try discriminate; destruct o; discriminate). }
    destruct (IH w1 _ HR1 Hr Hfr Hnd1) as (HR2 & Hnd2).
    destruct (run w1 r) as [w2 os]. cbn [fst snd] in *.
    rewrite accepted_cons, app_assoc. auto.
Qed.

(* ---------- the statements used by Props/C13.v ---------- *)
Definition disk_wf (sz : Z) (seq : option seqfile) : Prop :=
  match seq with
  | Some f => match sf_recv f with RWin (Some (i, b)) => 0 <= i /\ 0 <= b < 2 ^ sz | _ => True end
  | None => True
  end.
Lemma initial_rok sz seq : 0 < sz -> disk_wf sz seq -> ROK (initial_world sz seq) [].
Proof.
  intros Hs Hwf. split; [exact Hs|]. split; [|exact I].
  unfold DiskOK, WinOK, load_window, initial_world; cbn [w_disk w_size mkw d_seq].
  destruct seq as [f|].
  - cbn in Hwf. destruct (sf_recv f) as [|[[i b]|]]; try exact I.
    split; [unfold Inv; cbn; lia|]. split; [reflexivity|]. intros n [].
  - split; [unfold Inv, initialize_empty; cbn; split; [lia|split; [lia|]]|].
    + split; [lia|]. apply Z.pow_pos_nonneg; lia.
    + split; [reflexivity|]. intros n [].
Qed.

(* no request number is accepted twice over a whole history (all lifetimes, crashes, clean stops) *)
Theorem accepted_nodup w evs : ROK w [] -> Forall ev_ok2 evs -> fresh_echo_run w [] evs ->
  NoDup (accepted evs (snd (run w evs))).
Proof. intros HR Hok Hfr. destruct (run_rok evs w [] HR Hok Hfr (NoDup_nil _)) as (_ & H). exact H. Qed.

(* at the end of any history — in particular right after a crash at any file-system step, or after a clean stop —
   what a reload reads from sequence.json is "unknown" (window stays uninitialised) or a window that marks every
   accepted number as seen *)
Theorem persisted_state_safe w evs : ROK w [] -> Forall ev_ok2 evs -> fresh_echo_run w [] evs ->
  let w' := fst (run w evs) in
  match load_window (w_size w') (w_disk w') with
  | None => True
  | Some win => Inv win /\ rw_size win = w_size w' /\ forall n, In n (accepted evs (snd (run w evs))) -> seen win n = true
  end.
Proof.
  intros HR Hok Hfr. destruct (run_rok evs w [] HR Hok Hfr (NoDup_nil _)) as ((_ & HD & _) & _).
  cbn [app] in HD. exact HD.
Qed.

(* the context a later Reload produces: well-formed for C12's theorems, and either uninitialised or rejecting everything accepted before *)
Theorem reloaded_context_safe w evs start lim e : ROK w [] -> Forall ev_ok2 evs -> fresh_echo_run w [] evs ->
  let w' := fst (run w evs) in
  let c := uc (load (w_size w') start lim e (fs_create_lock (w_disk w'))) in
  CtxInv c /\ echo_recovery c = Some e /\
  (window c = None \/ forall n, In n (accepted evs (snd (run w evs))) -> cseen c n).
Proof.
  intros HR Hok Hfr. destruct (run_rok evs w [] HR Hok Hfr (NoDup_nil _)) as ((Hs & HD & _) & _).
  cbn [app] in HD. cbv zeta.
  destruct (load_rok (w_size (fst (run w evs))) start lim e (w_disk (fst (run w evs))) _ Hs HD) as ((Hsz & He & Hw & _) & _).
  split; [eapply WinOK_ctxinv; eassumption|]. split; [reflexivity|].
  unfold cseen. destruct (window (uc (load _ start lim e (fs_create_lock _)))) as [win|]; [right|left; reflexivity].
  destruct Hw as (_ & _ & Hsub). exact Hsub.
Qed.

(* an acceptance through the window check has made sequence.json say "unknown" before it returns *)
Theorem accept_marks_unknown sz p d a r A p' d' : 0 < sz -> ProcOK sz p d A -> DiskOK sz d A -> 0 <= seqno r ->
  window (uc p) <> None -> unprotect p d a r = (p', d', Val Accept) ->
  load_window sz d' = None /\ wpers p' = false.
Proof.
  intros Hs HP HD Hn Hwin Hu.
  assert (Hecho : window (uc p) = None -> echo r = echo_recovery (uc p) -> authentic r = true -> forall m, In m A -> m < seqno r) by (intros H; contradiction).
  pose proof (unprotect_rok sz p d a r A Hs HP HD Hn Hecho) as H. rewrite Hu in H. cbv zeta in H.
  destruct H as (_ & _ & _ & H). apply H; [reflexivity|exact Hwin].
Qed.

(* a completed clean shutdown writes the exact state: the live window and the live counter *)
Theorem clean_stop_exact sz p d A d' : 0 < sz -> ProcOK sz p d A -> DiskOK sz d A -> _destroy p d None = (d', false) ->
  load_window sz d' = window (uc p) /\ load_wpers d' = true /\ dbound d' = ssn p /\ d_lock d' = false.
Proof.
  intros Hs HP HD Hd. pose proof (destroy_rok sz p d None A Hs HP HD) as H. rewrite Hd in H. destruct H as (_ & H). apply H. reflexivity.
Qed.
Lemma destroy_completes p d : snd (_destroy p d None) = false.
Proof. reflexivity. Qed.

(* ---------- a sufficient condition on the input alone: no request carries the Echo value of any lifetime ---------- *)
Definition EchoIn (E : Z -> Prop) (w : world) : Prop :=
  match w_proc w with Some p => exists e, echo_recovery (uc p) = Some e /\ E e | None => True end.
Definition ev_noecho (E : Z -> Prop) (ev : event) : Prop :=
  match ev with
  | Reload _ _ e => E e
  | Unprotect r _ | UnprotectFails r _ => forall e, E e -> echo r <> Some e
  | _ => True
  end.

Lemma seq_loop_uc n : forall p d a acc, match seq_loop n p d a acc with (p', _, _, _) => uc p' = uc p end.
Proof.
  induction n as [|n IH]; intros p d a acc; cbn [seq_loop]; [reflexivity|].
  pose proof (nsn_disk p d a) as H. destruct (new_sequence_number p d a) as [[p1 d1] [v|e|]]; destruct H as (Hu & _); try exact Hu.
  specialize (IH p1 d1 a (v :: acc)). destruct (seq_loop n p1 d1 a (v :: acc)) as [[[p' d'] l] e]. congruence.
Qed.

Lemma step_echoin E w ev A : ROK w A -> ev_ok2 ev -> EchoIn E w -> ev_noecho E ev -> EchoIn E (fst (step w ev)).
Proof.
  intros (Hs & HD & HP) Hok HE Hev. unfold step, EchoIn in *.
  destruct (w_proc w) as [p|] eqn:Ep.
  - destruct ev as [a|n a|r a|a| |start lim echo|a|k|r k].
    + pose proof (nsn_disk p (w_disk w) a) as H. destruct (new_sequence_number p (w_disk w) a) as [[p1 d1] [v|e|]];
        destruct H as (Hu & _); cbn [fst w_proc mkw]; try exact I; rewrite Hu; exact HE.
    + pose proof (seq_loop_uc (Z.to_nat n) p (w_disk w) a []) as H.
      destruct (seq_loop (Z.to_nat n) p (w_disk w) a []) as [[[p1 d1] l] e].
      destruct e; cbn [fst w_proc mkw]; try exact I; rewrite H; exact HE.
    + destruct HP as (Hsz & He & Hw & _).
      pose proof (WinOK_ctxinv (w_size w) A (uc p) Hs Hsz Hw) as HI.
      pose proof (unprotect_step (uc p) r HI Hok) as Hst.
      unfold unprotect. destruct (unprotect_request (uc p) r) as [c' o]. destruct Hst as (_ & _ & Hech & _).
      destruct (strikes (uc p) o).
      * unfold _replay_window_changed. cbn [wpers set_uc]. destruct (wpers p).
        -- destruct (_store _ _ a) as [d' died]. destruct died; cbn [fst w_proc mkw]; [exact I|]. cbn. rewrite Hech. exact HE.
        -- cbn [fst w_proc mkw]. cbn. rewrite Hech. exact HE.
      * cbn [fst w_proc mkw]. cbn. rewrite Hech. exact HE.
    + destruct (_destroy p (w_disk w) a) as [d' died]. cbn. exact I.
    + cbn. exact I.
    + cbn [fst]. rewrite Ep. exact HE.
    + destruct (pend p) as [[n [|]]|]; [cbn; exact HE| |];
        (pose proof (nsn_disk p (w_disk w) a) as H; destruct (new_sequence_number p (w_disk w) a) as [[p1 d1] [v|e|]];
         destruct H as (Hu & _); cbn [fst w_proc mkw]; try exact I; rewrite Hu; exact HE).
    + pose proof (nsn_fails_same p (w_disk w) k) as H. destruct (new_sequence_number_fails p (w_disk w) k) as [[p1 d1] [v|e|]];
        destruct H as (Hu & _); cbn [fst w_proc mkw]; try exact I; rewrite Hu; exact HE.
    + destruct HP as (Hsz & He & Hw & _).
      pose proof (WinOK_ctxinv (w_size w) A (uc p) Hs Hsz Hw) as HI.
      pose proof (unprotect_step (uc p) r HI Hok) as Hst.
      unfold unprotect_fails. destruct (unprotect_request (uc p) r) as [c' o]. destruct Hst as (_ & _ & Hech & _).
      destruct (strikes (uc p) o && wpers (set_uc p c')); cbn [fst w_proc mkw]; cbn; rewrite Hech; exact HE.
  - destruct ev as [a|n a|r a|a| |start lim echo|a|k|r k]; cbn [fst]; try (rewrite Ep; exact I).
    cbn. exists echo. split; [reflexivity|exact Hev].
Qed.

Lemma noecho_fresh E evs : forall w A, ROK w A -> Forall ev_ok2 evs -> EchoIn E w -> Forall (ev_noecho E) evs ->
  fresh_echo_run w A evs.
Proof.
  induction evs as [|ev r IH]; intros w A HR Hok HE Hne; cbn [fresh_echo_run]; [exact I|].
  inversion Hok as [|? ? He Hr]; subst. inversion Hne as [|? ? Hn Hnr]; subst.
  assert (Hc : echo_cond w A ev).
  { unfold echo_cond. destruct ev; try exact I; (destruct (w_proc w) as [p|] eqn:Ep; [|exact I];
    intros _ Hecho _; unfold EchoIn in HE; rewrite Ep in HE; destruct HE as (e & He1 & He2);
    cbn in Hn; exfalso; apply (Hn e He2); congruence). }
  split; [exact Hc|].
  pose proof (step_rok w ev A HR He Hc) as Hs. pose proof (step_echoin E w ev A HR He HE Hn) as HE1.
  destruct (step w ev) as [w1 o]. cbn [fst snd] in *. destruct Hs as (HR1 & _).
  apply IH; assumption.
Qed.

(* without an Echo exchange nothing is ever accepted twice, over every history *)
Theorem accepted_nodup_without_echo E sz seq evs : 0 < sz -> disk_wf sz seq -> Forall ev_ok2 evs -> Forall (ev_noecho E) evs ->
  NoDup (accepted evs (snd (run (initial_world sz seq) evs))).
Proof.
  intros Hs Hwf Hok Hne. apply accepted_nodup; [apply initial_rok; assumption|exact Hok|].
  eapply noecho_fresh; [apply initial_rok; assumption|exact Hok|exact I|exact Hne].
Qed.

(* a write that fails inside the strike-out callback: the request is not accepted, the flag is set again (so the next change of
   the window tries the write again) and sequence.json is what it was *)
Theorem unprotect_fails_rolled_back p d k r :
  strikes (uc p) (snd (unprotect_request (uc p) r)) = true -> wpers p = true ->
  match unprotect_fails p d k r with
  | (p', d', res) => res = Exn OSError /\ wpers p' = true /\ d_seq d' = d_seq d /\ d_durable d' = d_durable d
  end.
Proof.
  intros Hs Hw. pose proof (unprotect_fails_cases p d k r) as Hc. cbv zeta in Hc. rewrite Hs, Hw in Hc. cbn [andb] in Hc.
  rewrite Hc. split; [reflexivity|]. split; [exact Hw|]. apply store_fails_keeps.
Qed.
