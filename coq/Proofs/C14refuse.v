(* C14 — transports that refuse datagrams synchronously (Model/C14refuse.v, the code after fixes 11456f9 / 8d04b7c):
   (1) while the transport refuses nothing, the general model IS Model/C14.v, so every step theorem about Model/C14.v
       is a theorem about the general model without refusals;
   (2) for ARBITRARY refusals the invariant (one exchange per remote, backlog entry iff exchange), the absence of
       internal errors and the FIFO / exactly-once accounting hold in every reachable state. *)
From Verif Require Import Lib.Tactics Model.C14 Model.C14refuse Proofs.C14 Proofs.C14step.
Import ListNotations.
Open Scope Z_scope.

Lemma send_via_transport_nil o r s : send_via_transport [] o r s = (s, [o]).
Proof. reflexivity. Qed.

Lemma send_initially_nil m s : C14refuse.send_initially [] m s = C14.send_initially m s.
Proof. reflexivity. Qed.

Lemma continue_backlog_loop_nil fuel : forall r s, C14refuse.continue_backlog_loop [] fuel r s = C14.continue_backlog_loop fuel r s.
Proof. induction fuel as [|fuel IH]; intros r s; [reflexivity|]. cbn [C14refuse.continue_backlog_loop C14.continue_backlog_loop].
  destruct (has_exchange r s); [reflexivity|]. destruct (aget r (backlogs s)) as [[|m q]|]; try reflexivity.
  rewrite send_initially_nil. destruct (C14.send_initially m _) as [s1 o1]. rewrite IH. reflexivity. Qed.

Lemma continue_backlog_nil r s : C14refuse.continue_backlog [] r s = C14.continue_backlog r s.
Proof. unfold C14refuse.continue_backlog, C14.continue_backlog. destruct (aget r (backlogs s)); [apply continue_backlog_loop_nil|reflexivity]. Qed.

Lemma remove_exchange_nil r mid mt s : C14refuse.remove_exchange [] r mid mt s = C14.remove_exchange r mid mt s.
Proof. unfold C14refuse.remove_exchange, C14.remove_exchange. destruct (xget r mid (active_exchanges s)); [|reflexivity].
  destruct (if mt =? 3 then _ else _) as [s2 o2]. rewrite continue_backlog_nil. reflexivity. Qed.

Lemma retransmit_nil x s : C14refuse.retransmit [] x s = C14.retransmit x s.
Proof. unfold C14refuse.retransmit, C14.retransmit. destruct (xget _ _ _); [|reflexivity].
  destruct (x_counter x <? m_maxre (x_msg x)); reflexivity. Qed.

Lemma send_message_nil who r mt code tok maxre s : C14refuse.send_message [] who r mt code tok maxre s = C14.send_message who r mt code tok maxre s.
Proof. reflexivity. Qed.

Lemma tm_request_nil q r mt maxre s : C14refuse.tm_request [] q r mt maxre s = C14.tm_request q r mt maxre s.
Proof. reflexivity. Qed.

Lemma crashed_nocrash o : crashed o = negb (nocrash o).
Proof. unfold crashed, nocrash. induction o as [|x o IH]; [reflexivity|]. cbn [existsb forallb]. rewrite IH. destruct x; reflexivity. Qed.

Lemma dispatch_message_nil r mt code mid tok s : Inv s ->
  C14refuse.dispatch_message [] r mt code mid tok s = C14.dispatch_message r mt code mid tok s.
Proof. intros HI. unfold C14refuse.dispatch_message, C14.dispatch_message. rewrite remove_exchange_nil.
  assert (Hn : crashed (snd (if (mt =? 2) || (mt =? 3) then C14.remove_exchange r mid mt s else (s, []))) = false).
  { destruct ((mt =? 2) || (mt =? 3)); [|reflexivity]. rewrite crashed_nocrash.
    destruct (remove_exchange_trans r mid mt s HI) as (_ & _ & ->). reflexivity. }
  destruct (if (mt =? 2) || (mt =? 3) then C14.remove_exchange r mid mt s else (s, [])) as [s1 o1]. cbn [snd] in Hn. rewrite Hn.
  reflexivity. Qed.

Lemma fire_nil s : C14refuse.fire [] s = C14.fire s.
Proof. unfold C14refuse.fire, C14.fire. destruct (min_timer _); [rewrite retransmit_nil|]; reflexivity. Qed.

(* one event on an accepting transport *)
Theorem step_without_refusal s e : Inv s -> step_ev [] s e = C14.step s e.
Proof. intros HI. destruct e; cbn [step_ev C14.step]; try reflexivity.
  - apply dispatch_message_nil; exact HI.
  - apply dispatch_message_nil; exact HI. Qed.

Theorem rrun_quiet es : forall s, Inv s -> quiet es = true ->
  fst (rrun (s, []) es) = (fst (run s (events_of es)), []) /\
  concat (snd (rrun (s, []) es)) = concat (snd (run s (events_of es))).
Proof. induction es as [|e es IH]; intros s HI Hq; [split; reflexivity|].
  cbn [quiet forallb] in Hq. apply andb_prop in Hq. destruct Hq as [He Hq].
  destruct e as [e|r [|]]; [| discriminate |].
  - cbn [rrun rstep events_of flat_map app run]. rewrite (step_without_refusal s e HI).
    pose proof (step_trans s e HI) as (HI1 & _). destruct (C14.step s e) as [s1 o1]. cbn [fst] in HI1.
    specialize (IH s1 HI1 Hq). change (flat_map _ es) with (events_of es).
    destruct (rrun (s1, []) es) as [sl2 os]. destruct (run s1 (events_of es)) as [s2 os']. cbn [fst snd concat] in *.
    destruct IH as (-> & ->). split; reflexivity.
  - cbn [rrun rstep events_of flat_map app filter]. specialize (IH s HI Hq). change (flat_map _ es) with (events_of es).
    destruct (rrun (s, []) es) as [sl2 os]. cbn [fst snd concat app] in *. exact IH. Qed.

(* ================================================================ arbitrary refusals *)
Lemma dispatch_error_no_subm r s r' : subm r' (snd (dispatch_error r s)) = [].
Proof. unfold dispatch_error. destruct (tm_dispatch_error_frame NetworkError r s) as (_ & _ & Hn).
  destruct (tm_dispatch_error NetworkError r s) as [s1 o1]. cbn [fst snd] in *. rewrite subm_app, subm_dropped, app_nil_r.
  destruct (neutral_logs r' _ Hn) as (N1 & _). exact N1. Qed.

Lemma trans_silent_pre s s1 o s' : backlogs s1 = backlogs s -> Trans s1 o s' -> Trans s o s'.
Proof. intros Hb T. apply (trans_pre_ext s1); [exact Hb|exact T]. Qed.

Section General.
Variable l : list Z.

(* handing a datagram that says nothing about queues to the transport, from a state satisfying the invariant *)
Lemma send_neutral_trans what r s : Inv s -> neutral what = true ->
  Trans s (snd (send_via_transport l what r s)) (fst (send_via_transport l what r s)).
Proof. intros HI Hn. unfold send_via_transport. destruct (refuses l r).
  - pose proof (dispatch_error_trans r s HI) as T. destruct (dispatch_error r s) as [s1 o1]. cbn [fst snd] in *.
    replace (refused_ghost what) with (@nil output) by (destruct what; try reflexivity; destruct retr; [reflexivity|discriminate]). exact T.
  - cbn [fst snd]. apply (trans_neutral s [] s [what] s); [apply trans_refl; exact HI|reflexivity|reflexivity|cbn; rewrite Hn; reflexivity]. Qed.

(* _send_initially of message m: the queues are balanced with m counted as "leaving" *)
Definition Sent (m : msg) (s : st) (o : list output) (s' : st) : Prop :=
  Inv s' /\ nocrash o = true /\
  forall r, subm r o = [] /\ (if con_to r m then [m] else []) ++ backlog_of r s = left r o ++ backlog_of r s'.

(* from an invariant state s1 whose queues are those of s *)
Lemma send_first m s s1 : Inv s1 -> (forall r, backlog_of r s1 = backlog_of r s) ->
  Sent m s (snd (send_via_transport l (Tx m false) (m_remote m) s1)) (fst (send_via_transport l (Tx m false) (m_remote m) s1)).
Proof. intros HI1 Hb1. unfold send_via_transport. destruct (refuses l (m_remote m)).
  - pose proof (dispatch_error_trans (m_remote m) s1 HI1) as (A & B & C).
    pose proof (dispatch_error_no_subm (m_remote m) s1) as Hs.
    destruct (dispatch_error (m_remote m) s1) as [s2 o2]. cbn [fst snd refused_ghost] in *.
    split; [exact A|]. split; [exact C|]. intros r. specialize (B r). rewrite Hb1, (Hs r), app_nil_r in B.
    unfold subm, left in *. cbn [flat_map subm_o left_o app]. split; [apply Hs|]. rewrite B, app_assoc. reflexivity.
  - cbn [fst snd]. split; [exact HI1|]. split; [reflexivity|]. intros r. rewrite Hb1. unfold subm, left. cbn. rewrite app_nil_r. auto. Qed.

Lemma send_initially_con m s : m_mtype m = 0 -> exs (m_remote m) s = [] ->
  Forall (fun m' => con_to (m_remote m) m' = true) (backlog_of (m_remote m) s) ->
  (forall r, r <> m_remote m -> Good s r) ->
  Sent m s (snd (C14refuse.send_initially l m s)) (fst (C14refuse.send_initially l m s)).
Proof. intros Hc Hz Hq HI. unfold C14refuse.send_initially. replace (m_mtype m =? 0) with true by lia.
  apply send_first; [apply add_exchange_good; assumption|intros; apply add_exchange_backlog_of]. Qed.

Lemma send_initially_non m s : m_mtype m <> 0 -> Inv s ->
  Sent m s (snd (C14refuse.send_initially l m s)) (fst (C14refuse.send_initially l m s)).
Proof. intros Hc HI. unfold C14refuse.send_initially. replace (m_mtype m =? 0) with false by lia.
  apply send_first; [exact HI|reflexivity]. Qed.

Lemma loop_stops fuel r s : Inv s -> C14refuse.continue_backlog_loop l (S fuel) r s = (s, []).
Proof. intros HI. cbn [C14refuse.continue_backlog_loop]. rewrite has_exchange_exs.
  destruct (inv_count_aget s r HI) as [[Hc Ha]|(x & q & Hx & _)].
  - rewrite Hc, Ha. reflexivity.
  - unfold count_r. rewrite Hx. reflexivity. Qed.

Lemma continue_backlog_gen r s q : exs r s = [] -> aget r (backlogs s) = Some q -> Forall (fun m => con_to r m = true) q ->
  (forall r', r' <> r -> Good s r') ->
  Trans s (snd (C14refuse.continue_backlog l r s)) (fst (C14refuse.continue_backlog l r s)).
Proof. intros Hz Ha Hq HI. unfold C14refuse.continue_backlog. rewrite Ha. cbn [C14refuse.continue_backlog_loop].
  rewrite has_exchange_exs. unfold count_r. rewrite Hz, Ha. cbn [length Nat.eqb negb].
  destruct q as [|m q'].
  - pose proof (release_trans r s [] Hz Ha Hq HI) as T. unfold release, backlog_of in T. rewrite Ha in T. exact T.
  - inv Hq. assert (Hr : m_remote m = r) by (unfold con_to in H1; lia).
    set (s0 := upd_bl s (aset r q' (backlogs s))).
    assert (Hb0 : forall r', backlog_of r' s0 = if r' =? r then q' else backlog_of r' s).
    { intros r'. unfold backlog_of, s0. cbn [backlogs upd_bl]. destruct (r' =? r) eqn:E.
      - replace r' with r by lia. rewrite aget_aset_same. reflexivity.
      - rewrite aget_aset_other by lia. reflexivity. }
    assert (S0 : Sent m s0 (snd (C14refuse.send_initially l m s0)) (fst (C14refuse.send_initially l m s0))).
    { apply send_initially_con.
      - unfold con_to in H1. lia.
      - rewrite Hr. exact Hz.
      - rewrite Hr, Hb0, Z.eqb_refl. exact H2.
      - rewrite Hr. intros r' Hne. apply (good_ext s); [reflexivity|unfold s0; cbn; apply aget_aset_other; assumption|apply HI; assumption]. }
    destruct (C14refuse.send_initially l m s0) as [s1 o1]. cbn [fst snd] in S0. destruct S0 as (A & C & B).
    cbn [length]. rewrite (loop_stops (length q') r s1 A). cbn [fst snd]. rewrite app_nil_r.
    split; [exact A|]. split; [|exact C]. intros r'. destruct (B r') as (B1 & B2). rewrite B1, app_nil_r, <- B2, Hb0.
    destruct (r' =? r) eqn:E.
    + replace r' with r by lia. rewrite H1. unfold backlog_of. rewrite Ha. reflexivity.
    + rewrite (con_to_other r r' m H1) by lia. reflexivity. Qed.

Lemma remove_exchange_gen r mid mt s : Inv s ->
  Trans s (snd (C14refuse.remove_exchange l r mid mt s)) (fst (C14refuse.remove_exchange l r mid mt s)).
Proof. intros HI. unfold C14refuse.remove_exchange. destruct (xget r mid (active_exchanges s)) as [x|] eqn:Ex; [|apply trans_refl; exact HI].
  destruct (xget_some _ _ _ _ Ex) as (Hin & Hr & Hm).
  set (s1 := upd_ex s (xdel r mid (active_exchanges s))).
  destruct (inv_count_aget s r HI) as [[Hc _]|(x0 & q & Hx & Ha & Hq)].
  { exfalso. pose proof (in_exs r s x Hin Hr) as Hi. rewrite (count0_exs r s Hc) in Hi. exact Hi. }
  assert (Hz1 : exs r s1 = []).
  { unfold s1. rewrite exs_upd_ex. apply (filter_xdel_same r mid _ x); [fold (exs r s); rewrite Hx; cbn; lia|exact Hin|unfold key_eqb; lia]. }
  set (mon := if mt =? 3 then call_monitor (x_msg x) s1 else (s1, [])).
  assert (Hmon : active_exchanges (fst mon) = active_exchanges s1 /\ backlogs (fst mon) = backlogs s1 /\ forallb neutral (snd mon) = true).
  { unfold mon. destruct (mt =? 3); [apply call_monitor_frame|cbn; auto]. }
  destruct mon as [s2 o2]. cbn [fst snd] in Hmon. destruct Hmon as (He2 & Hb2 & Hn2).
  assert (Hz2 : exs r s2 = []) by (unfold exs; rewrite He2; exact Hz1).
  assert (Ha2 : aget r (backlogs s2) = Some q) by (rewrite Hb2; exact Ha).
  assert (T : Trans s2 (snd (C14refuse.continue_backlog l r s2)) (fst (C14refuse.continue_backlog l r s2))).
  { apply (continue_backlog_gen r s2 q Hz2 Ha2 Hq). intros r' Hne. apply (good_ext s).
    - unfold exs. rewrite He2. unfold s1. cbn [active_exchanges upd_ex]. apply filter_xdel_other. assumption.
    - rewrite Hb2. reflexivity.
    - apply HI. }
  destruct (C14refuse.continue_backlog l r s2) as [s3 o3]. cbn [fst snd] in *.
  apply (trans_neutral_pre s o2 s2 o3 s3); [rewrite Hb2; reflexivity|exact Hn2|exact T]. Qed.

Lemma retransmit_gen x s : Inv s -> In x (active_exchanges s) ->
  Trans s (snd (C14refuse.retransmit l x s)) (fst (C14refuse.retransmit l x s)).
Proof. intros HI Hin. destruct (x_counter x <? m_maxre (x_msg x)) eqn:Ec.
  2:{ replace (C14refuse.retransmit l x s) with (C14.retransmit x s); [apply retransmit_trans; assumption|].
      unfold C14refuse.retransmit, C14.retransmit. destruct (xget _ _ _); [|reflexivity]. rewrite Ec. reflexivity. }
  unfold C14refuse.retransmit.
  rewrite (xget_own s x); [|destruct (HI (m_remote (x_msg x))) as (A & _); exact A|exact Hin].
  rewrite Ec. set (m := x_msg x). set (r := m_remote m).
  destruct (inv_count_aget s r HI) as [[Hc _]|(x0 & q & Hx & Ha & Hq)].
  { exfalso. pose proof (in_exs r s x Hin eq_refl) as Hi. rewrite (count0_exs r s Hc) in Hi. exact Hi. }
  assert (Hz : filter (to_remote r) (xdel r (m_mid m) (active_exchanges s)) = []).
  { apply (filter_xdel_same r (m_mid m) _ x); [fold (exs r s); rewrite Hx; cbn; lia|exact Hin|unfold key_eqb, r, m; lia]. }
  unfold schedule_retransmit. cbn [fst snd upd_ex active_exchanges].
  match goal with |- context [send_via_transport l _ r ?t] => set (s1 := t) end.
  assert (HI1 : Inv s1).
  { eapply (replace_inv s s1 r x0); [exact HI|exact Hx| | |reflexivity].
    - unfold exs, s1. cbn [active_exchanges upd_ex filter x_msg]. unfold to_remote at 1. cbn [x_msg]. fold m. fold r. rewrite Z.eqb_refl.
      f_equal. pose proof (filter_xdel_incl r r (m_mid m) (xdel r (m_mid m) (active_exchanges s))) as Hle. rewrite Hz in Hle.
      destruct (filter (to_remote r) (xdel r (m_mid m) (xdel r (m_mid m) (active_exchanges s)))); [reflexivity|cbn in Hle; lia].
    - intros r' Hne. unfold exs, s1. cbn [active_exchanges upd_ex filter x_msg]. unfold to_remote at 1. cbn [x_msg]. fold m. fold r.
      replace (r =? r') with false by lia. rewrite !filter_xdel_other by assumption. reflexivity. }
  apply (trans_silent_pre s s1); [reflexivity|]. apply send_neutral_trans; [exact HI1|reflexivity]. Qed.

Lemma send_message_gen who r mt code tok maxre s : Inv s ->
  Trans s (snd (C14refuse.send_message l who r mt code tok maxre s)) (fst (C14refuse.send_message l who r mt code tok maxre s)).
Proof. intros HI. unfold C14refuse.send_message, next_message_id.
  set (s0 := {| now := now s; seq := seq s; message_id := Z.land 65535 (1 + message_id s); token := token s; rand := rand s;
                active_exchanges := active_exchanges s; backlogs := backlogs s; outgoing_requests := outgoing_requests s; incoming_requests := incoming_requests s |}).
  set (m := {| m_sub := who; m_remote := r; m_mtype := resolve_mtype mt; m_code := code; m_mid := message_id s; m_tok := tok; m_maxre := maxre |}).
  assert (HI0 : Inv s0) by (apply (inv_ext s); [reflexivity|reflexivity|exact HI]).
  apply (trans_pre_ext s0); [reflexivity|].
  cbn [m_mtype m]. unfold in_backlogs.
  assert (Finish : Sent m s0 (snd (C14refuse.send_initially l m s0)) (fst (C14refuse.send_initially l m s0)) ->
            ((resolve_mtype mt =? 0) = true -> backlog_of r s0 = []) ->
            Trans s0 (Submitted m :: snd (C14refuse.send_initially l m s0)) (fst (C14refuse.send_initially l m s0))).
  { intros (A & C & B) Hempty. split; [exact A|]. split; [|exact C]. intros r'. destruct (B r') as (B1 & B2).
    unfold subm, left in *. cbn [flat_map subm_o left_o app]. rewrite B1, app_nil_r. rewrite <- B2.
    destruct (con_to r' m) eqn:Em; [|rewrite app_nil_r; reflexivity].
    assert (r' = r) by (unfold con_to, m in Em; cbn in Em; lia). subst r'.
    rewrite Hempty by (unfold con_to, m in Em; cbn in Em; lia). reflexivity. }
  destruct (inv_count_aget s0 r HI0) as [[Hc Ha]|(x & q & Hx & Ha & Hq)]; rewrite Ha.
  - rewrite andb_false_r.
    assert (T : Trans s0 (Submitted m :: snd (C14refuse.send_initially l m s0)) (fst (C14refuse.send_initially l m s0))).
    { apply Finish; [|intros _; unfold backlog_of; rewrite Ha; reflexivity].
      destruct (resolve_mtype mt =? 0) eqn:Ec.
      - apply send_initially_con; cbn [m_remote m_mtype m]; [lia|apply count0_exs; exact Hc|unfold backlog_of; rewrite Ha; constructor|intros r' _; apply HI0].
      - apply send_initially_non; [cbn; lia|exact HI0]. }
    destruct (C14refuse.send_initially l m s0) as [s1 o1]. exact T.
  - rewrite andb_true_r. destruct (resolve_mtype mt =? 0) eqn:Ec.
    + rewrite has_exchange_exs. unfold count_r. rewrite Hx. cbn [length Nat.eqb negb fst snd].
      assert (Hm : con_to r m = true) by (unfold con_to, m; cbn; rewrite Ec, Z.eqb_refl; reflexivity).
      split; [|split; [|reflexivity]].
      * intros r'. destruct (Z.eq_dec r' r) as [->|Hne].
        -- unfold Good, count_r, backlog_of. cbn [backlogs upd_bl]. rewrite aget_aset_same.
           replace (exs r (upd_bl s0 (aset r (q ++ [m]) (backlogs s0)))) with (exs r s0) by reflexivity. rewrite Hx. cbn [length].
           split; [lia|]. split; [split; [reflexivity|discriminate]|]. apply Forall_app. split; [exact Hq|constructor; [exact Hm|constructor]].
        -- apply (good_ext s0); [reflexivity|cbn; apply aget_aset_other; assumption|apply HI0].
      * intros r'. unfold subm, left, backlog_of. cbn [flat_map subm_o left_o backlogs upd_bl app]. rewrite app_nil_r.
        destruct (Z.eq_dec r' r) as [->|Hne].
        -- rewrite Hm, Ha, aget_aset_same. reflexivity.
        -- rewrite (con_to_other r r' m Hm Hne), aget_aset_other by assumption. rewrite app_nil_r. reflexivity.
    + assert (T : Trans s0 (Submitted m :: snd (C14refuse.send_initially l m s0)) (fst (C14refuse.send_initially l m s0))).
      { apply Finish; [apply send_initially_non; [cbn; lia|exact HI0]|intros; discriminate]. }
      destruct (C14refuse.send_initially l m s0) as [s1 o1]. exact T. Qed.

Lemma tm_request_gen q r mt maxre s : Inv s ->
  Trans s (snd (C14refuse.tm_request l q r mt maxre s)) (fst (C14refuse.tm_request l q r mt maxre s)).
Proof. intros HI. unfold C14refuse.tm_request, next_token. cbn -[C14refuse.send_message Z.pow Z.modulo].
  match goal with |- Trans _ (snd (C14refuse.send_message _ _ _ _ _ _ _ ?s1)) _ =>
    apply (trans_pre_ext s1); [reflexivity|]; apply send_message_gen; apply (inv_ext s); [reflexivity|reflexivity|exact HI] end. Qed.

Lemma send_empty_gen r mt mid s : Inv s -> Trans s (snd (C14refuse.send_empty l r mt mid s)) (fst (C14refuse.send_empty l r mt mid s)).
Proof. intros HI. apply send_neutral_trans; [exact HI|reflexivity]. Qed.

Lemma dispatch_message_gen r mt code mid tok s : Inv s ->
  Trans s (snd (C14refuse.dispatch_message l r mt code mid tok s)) (fst (C14refuse.dispatch_message l r mt code mid tok s)).
Proof. intros HI. unfold C14refuse.dispatch_message.
  set (first := if (mt =? 2) || (mt =? 3) then C14refuse.remove_exchange l r mid mt s else (s, [])).
  assert (T1 : Trans s (snd first) (fst first)).
  { unfold first. destruct ((mt =? 2) || (mt =? 3)); [apply remove_exchange_gen; exact HI|apply trans_refl; exact HI]. }
  destruct first as [s1 o1]. cbn [fst snd] in T1.
  assert (Hn : crashed o1 = false) by (rewrite crashed_nocrash; destruct T1 as (_ & _ & ->); reflexivity). rewrite Hn.
  pose proof (proj1 T1) as HI1.
  destruct (code =? 0).
  - destruct (mt =? 0); [|exact T1]. pose proof (send_empty_gen r 3 mid s1 HI1) as T2.
    destruct (C14refuse.send_empty l r 3 mid s1) as [s2 o2]. apply (trans_trans s o1 s1); assumption.
  - destruct (mt =? 3); [exact T1|].
    pose proof (tm_process_response_frame r tok s1) as (He & Hb & Hnn).
    destruct (tm_process_response r tok s1) as [[s2 o2] ok]. cbn [fst snd] in *.
    assert (T2 : Trans s (o1 ++ o2) s2) by (apply (trans_neutral s o1 s1); assumption).
    destruct ok; destruct (mt =? 0); try exact T2.
    + pose proof (send_empty_gen r 2 mid s2 (proj1 T2)) as T3. destruct (C14refuse.send_empty l r 2 mid s2) as [s3 o3].
      rewrite app_assoc. apply (trans_trans s (o1 ++ o2) s2); assumption.
    + pose proof (send_empty_gen r 3 mid s2 (proj1 T2)) as T3. destruct (C14refuse.send_empty l r 3 mid s2) as [s3 o3].
      rewrite app_assoc. apply (trans_trans s (o1 ++ o2) s2); assumption. Qed.

Lemma fire_gen s : Inv s -> Trans s (snd (C14refuse.fire l s)) (fst (C14refuse.fire l s)).
Proof. intros HI. unfold C14refuse.fire. destruct (min_timer (active_exchanges s)) as [x|] eqn:E; [|apply trans_refl; exact HI].
  set (s0 := upd_now s (Z.max (now s) (x_due x))).
  assert (T : Trans s0 (snd (C14refuse.retransmit l x s0)) (fst (C14refuse.retransmit l x s0))).
  { apply retransmit_gen; [apply (inv_ext s); [reflexivity|reflexivity|exact HI]|apply min_timer_in; exact E]. }
  destruct (C14refuse.retransmit l x s0) as [s1 o1]. cbn [fst snd] in *.
  apply (trans_neutral_pre s [Fired (m_remote (x_msg x)) (m_mid (x_msg x))] s0 o1 s1); [reflexivity|reflexivity|exact T]. Qed.

Theorem step_ev_trans s e : Inv s -> Trans s (snd (step_ev l s e)) (fst (step_ev l s e)).
Proof. intros HI. destruct e; cbn [step_ev].
  - apply tm_request_gen; exact HI.
  - apply send_message_gen; exact HI.
  - apply dispatch_message_gen; exact HI.
  - apply dispatch_message_gen; exact HI.
  - apply (step_trans s (TransportError r)); exact HI.
  - apply fire_gen; exact HI.
  - apply (step_trans s (Advance d)); exact HI.
  - apply (step_trans s (Cancel q)); exact HI.
  - apply (step_trans s (Serve k r tok mt)); exact HI.
  - apply respond_trans; [intros; apply send_message_gen; assumption|exact HI]. Qed.
End General.

(* ---------------------------------------------------------------- all runs, whatever the transport refuses and when *)
Lemma rrun_inv_fifo es : forall s l tr, Inv s -> (forall r, subm r tr = left r tr ++ backlog_of r s) -> nocrash tr = true ->
  let s' := fst (fst (rrun (s, l) es)) in let tr' := tr ++ concat (snd (rrun (s, l) es)) in
  Inv s' /\ (forall r, subm r tr' = left r tr' ++ backlog_of r s') /\ nocrash tr' = true.
Proof. induction es as [|e es IH]; intros s l tr HI HF HN; cbn [rrun].
  - cbn. rewrite app_nil_r. auto.
  - destruct e as [e|r on]; cbn [rstep].
    + destruct (step_ev_trans l s e HI) as (A & B & C). destruct (step_ev l s e) as [s1 o1]. cbn [fst snd] in *.
      specialize (IH s1 l (tr ++ o1) A). destruct (rrun (s1, l) es) as [sl2 os]. cbn [fst snd concat] in *.
      rewrite app_assoc. apply IH.
      * intros r. rewrite subm_app, left_app, HF, <- !app_assoc. f_equal. apply B.
      * rewrite nocrash_app, HN, C. reflexivity.
    + destruct on.
      * specialize (IH s (if refuses l r then l else l ++ [r]) tr HI HF HN). destruct (rrun _ es) as [sl2 os]. cbn [fst snd concat app] in *. exact IH.
      * specialize (IH s (filter (fun x => negb (x =? r)) l) tr HI HF HN). destruct (rrun _ es) as [sl2 os]. cbn [fst snd concat app] in *. exact IH. Qed.

Theorem general_inv a b c es : Inv (fst (fst (rrun (init a b c, []) es))).
Proof. apply (rrun_inv_fifo es (init a b c) [] []); [apply inv_init|reflexivity|reflexivity]. Qed.

Theorem general_one_exchange_per_remote a b c es r :
  let s := fst (fst (rrun (init a b c, []) es)) in
  (count_r r s <= 1)%nat /\ (in_backlogs r s = true <-> count_r r s = 1%nat) /\
  Forall (fun m => m_mtype m = 0 /\ m_remote m = r) (backlog_of r s).
Proof. cbn zeta. destruct (general_inv a b c es r) as (A & B & C). split; [exact A|]. split.
  - rewrite in_backlogs_iff. exact B.
  - eapply Forall_impl; [|exact C]. intros m H. unfold con_to in H. lia. Qed.

Theorem general_fifo a b c es r :
  subm r (concat (snd (rrun (init a b c, []) es))) = left r (concat (snd (rrun (init a b c, []) es))) ++ backlog_of r (fst (fst (rrun (init a b c, []) es))).
Proof. apply (rrun_inv_fifo es (init a b c) [] []); [apply inv_init|reflexivity|reflexivity]. Qed.

Theorem general_nocrash a b c es e : ~ In (Crash e) (concat (snd (rrun (init a b c, []) es))).
Proof. intros H. assert (N : nocrash (concat (snd (rrun (init a b c, []) es))) = true) by (apply (rrun_inv_fifo es (init a b c) [] []); [apply inv_init|reflexivity|reflexivity]).
  exact (nocrash_in _ e N H). Qed.

Theorem general_step l s e : Inv s ->
  let s' := fst (step_ev l s e) in let o := snd (step_ev l s e) in
  Inv s' /\ (forall r, backlog_of r s ++ subm r o = left r o ++ backlog_of r s') /\ (forall x, ~ In (Crash x) o).
Proof. intros HI. destruct (step_ev_trans l s e HI) as (A & B & C). split; [exact A|]. split; [exact B|].
  intros x. exact (nocrash_in _ x C). Qed.

Theorem refusal_is_transport_error l what r s : refuses l r = true ->
  send_via_transport l what r s = (fst (step s (TransportError r)), refused_ghost what ++ snd (step s (TransportError r))).
Proof. intros H. unfold send_via_transport. rewrite H. cbn [step]. destruct (dispatch_error r s); reflexivity. Qed.
