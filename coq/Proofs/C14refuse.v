(* C14 — transports that refuse datagrams synchronously (Model/C14refuse.v):
   (1) while the transport refuses nothing, the general model IS Model/C14.v, so every theorem about Model/C14.v
       is a theorem about runs of the general model without refusals;
   (2) with refusals the invariant and the absence of internal errors are refuted by concrete runs (the defects
       C14-R1 / C14-R2 of notes/C14.md, replayed on the implementation by corpus/C14/refusing.json). *)
From Verif Require Import Lib.Tactics Model.C14 Model.C14refuse Proofs.C14.
Import ListNotations.
Open Scope Z_scope.

Lemma send_via_transport_nil o r s : send_via_transport [] o r s = (s, [o]).
Proof. reflexivity. Qed.

Lemma send_initially_nil m s : C14refuse.send_initially [] m s = C14.send_initially m s.
Proof. reflexivity. Qed.

Lemma continue_backlog_loop_nil fuel : forall r s, C14refuse.continue_backlog_loop [] fuel r s = C14.continue_backlog_loop fuel r s.
Proof. induction fuel as [|fuel IH]; intros r s; [reflexivity|]. cbn [C14refuse.continue_backlog_loop C14.continue_backlog_loop].
  destruct (has_exchange r s); [reflexivity|]. destruct (aget r (backlogs s)) as [[|m q]|]; try reflexivity.
  rewrite send_initially_nil. destruct (C14.send_initially m _) as [s1 o1]. rewrite IH. reflexivity. Qed.

Lemma continue_backlog_nil r s : C14refuse.continue_backlog [] r s = C14.continue_backlog r s.
Proof. unfold C14refuse.continue_backlog, C14.continue_backlog. destruct (aget r (backlogs s)); [apply continue_backlog_loop_nil|reflexivity]. Qed.

Lemma remove_exchange_nil r mid mt s : C14refuse.remove_exchange [] r mid mt s = C14.remove_exchange r mid mt s.
Proof. unfold C14refuse.remove_exchange, C14.remove_exchange. destruct (xget r mid (active_exchanges s)); [|reflexivity].
  destruct (if mt =? 3 then _ else _) as [s2 o2]. rewrite continue_backlog_nil. reflexivity. Qed.

Lemma retransmit_nil x s : C14refuse.retransmit [] x s = C14.retransmit x s.
Proof. unfold C14refuse.retransmit, C14.retransmit. destruct (xget _ _ _); [|reflexivity].
  destruct (x_counter x <? m_maxre (x_msg x)); reflexivity. Qed.

Lemma send_message_nil who r mt code tok maxre s : C14refuse.send_message [] who r mt code tok maxre s = C14.send_message who r mt code tok maxre s.
Proof. reflexivity. Qed.

Lemma tm_request_nil q r mt maxre s : C14refuse.tm_request [] q r mt maxre s = C14.tm_request q r mt maxre s.
Proof. reflexivity. Qed.

Lemma crashed_nocrash o : crashed o = negb (nocrash o).
Proof. unfold crashed, nocrash. induction o as [|x o IH]; [reflexivity|]. cbn [existsb forallb]. rewrite IH. destruct x; reflexivity. Qed.

Lemma dispatch_message_nil r mt code mid tok s : Inv s ->
  C14refuse.dispatch_message [] r mt code mid tok s = C14.dispatch_message r mt code mid tok s.
Proof. intros HI. unfold C14refuse.dispatch_message, C14.dispatch_message. rewrite remove_exchange_nil.
  assert (Hn : crashed (snd (if (mt =? 2) || (mt =? 3) then C14.remove_exchange r mid mt s else (s, []))) = false).
  { destruct ((mt =? 2) || (mt =? 3)); [|reflexivity]. rewrite crashed_nocrash.
    destruct (remove_exchange_trans r mid mt s HI) as (_ & _ & ->). reflexivity. }
  destruct (if (mt =? 2) || (mt =? 3) then C14.remove_exchange r mid mt s else (s, [])) as [s1 o1]. cbn [snd] in Hn. rewrite Hn.
  reflexivity. Qed.

Lemma fire_nil s : C14refuse.fire [] s = C14.fire s.
Proof. unfold C14refuse.fire, C14.fire. destruct (min_timer _); [rewrite retransmit_nil|]; reflexivity. Qed.

(* one event on an accepting transport *)
Theorem step_without_refusal s e : Inv s -> step_ev [] s e = C14.step s e.
Proof. intros HI. destruct e; cbn [step_ev C14.step]; try reflexivity.
  - apply dispatch_message_nil; exact HI.
  - apply dispatch_message_nil; exact HI. Qed.

Theorem rrun_quiet es : forall s, Inv s -> quiet es = true ->
  fst (rrun (s, []) es) = (fst (run s (events_of es)), []) /\
  concat (snd (rrun (s, []) es)) = concat (snd (run s (events_of es))).
Proof. induction es as [|e es IH]; intros s HI Hq; [split; reflexivity|].
  cbn [quiet forallb] in Hq. apply andb_prop in Hq. destruct Hq as [He Hq].
  destruct e as [e|r [|]]; [| discriminate |].
  - cbn [rrun rstep events_of flat_map app run]. rewrite (step_without_refusal s e HI).
    pose proof (step_trans s e HI) as (HI1 & _). destruct (C14.step s e) as [s1 o1]. cbn [fst] in HI1.
    specialize (IH s1 HI1 Hq). change (flat_map _ es) with (events_of es).
    destruct (rrun (s1, []) es) as [sl2 os]. destruct (run s1 (events_of es)) as [s2 os']. cbn [fst snd concat] in *.
    destruct IH as (-> & ->). split; reflexivity.
  - cbn [rrun rstep events_of flat_map app filter]. specialize (IH s HI Hq). change (flat_map _ es) with (events_of es).
    destruct (rrun (s, []) es) as [sl2 os]. cbn [fst snd concat app] in *. exact IH. Qed.

(* ---------------------------------------------------------------- the run-level theorems, for the general model without refusals *)
Theorem quiet_one_exchange_per_remote a b c es r : quiet es = true ->
  let s := fst (fst (rrun (init a b c, []) es)) in
  (count_r r s <= 1)%nat /\ (in_backlogs r s = true <-> count_r r s = 1%nat) /\
  Forall (fun m => m_mtype m = 0 /\ m_remote m = r) (backlog_of r s).
Proof. intros Hq. cbn zeta. destruct (rrun_quiet es (init a b c) (inv_init a b c) Hq) as (-> & _). cbn [fst].
  apply one_exchange_per_remote. Qed.

Theorem quiet_nocrash a b c es e : quiet es = true -> ~ In (Crash e) (concat (snd (rrun (init a b c, []) es))).
Proof. intros Hq. destruct (rrun_quiet es (init a b c) (inv_init a b c) Hq) as (_ & ->). apply reachable_nocrash. Qed.

Theorem quiet_fifo a b c es r : quiet es = true ->
  let s := fst (fst (rrun (init a b c, []) es)) in let tr := concat (snd (rrun (init a b c, []) es)) in
  subm r tr = left r tr ++ backlog_of r s.
Proof. intros Hq. cbn zeta. destruct (rrun_quiet es (init a b c) (inv_init a b c) Hq) as (-> & ->). cbn [fst]. apply reachable_fifo. Qed.

(* ---------------------------------------------------------------- refutations when the transport refuses *)
(* C14-R2: two confirmable requests to remote 0, the transport starts refusing 0, the first is acknowledged *)
Definition refused_release := [Ev (Request 1 0 0 1); Ev (Request 2 0 0 1); Refuse 0 true; Ev (RecvEmpty 0 2 0)].
(* C14-R1: a confirmable request, its first retransmission is refused, the transport accepts again, a new request *)
Definition refused_retransmission := [Ev (Request 1 0 0 2); Refuse 0 true; Ev Fire; Refuse 0 false; Ev (Request 2 0 0 2)].

Theorem no_internal_error_refuted : exists es e, In (Crash e) (concat (snd (rrun (init 0 0 [], []) es))).
Proof. exists refused_release, KeyError. vm_compute. auto 10. Qed.

Theorem no_internal_error_refuted_assertion :
  In (Crash AssertionError) (concat (snd (rrun (init 0 0 [], []) [Ev (Request 1 0 0 2); Refuse 0 true; Ev Fire; Refuse 0 false; Ev (RecvEmpty 0 2 0)]))).
Proof. vm_compute. auto 10. Qed.

Theorem one_exchange_per_remote_refuted : exists es r,
  let s := fst (fst (rrun (init 0 0 [], []) es)) in count_r r s = 2%nat.
Proof. exists refused_retransmission, 0. vm_compute. reflexivity. Qed.

(* the exchange that was put back has no backlog entry, although its request has been failed *)
Theorem backlog_iff_exchange_refuted :
  let s := fst (fst (rrun (init 0 0 [], []) [Ev (Request 1 0 0 2); Refuse 0 true; Ev Fire])) in
  count_r 0 s = 1%nat /\ in_backlogs 0 s = false /\ outgoing_requests s = [].
Proof. vm_compute. auto. Qed.

(* ... and it is retransmitted next to the new request's message: two confirmable messages to remote 0 in flight *)
Theorem two_in_flight_refuted :
  let tr := concat (snd (rrun (init 0 0 [], []) (refused_retransmission ++ [Ev Fire; Ev Fire]))) in
  exists m1 m2, m_sub m1 = Req 1 /\ m_sub m2 = Req 2 /\ m_remote m1 = 0 /\ m_remote m2 = 0 /\
    In (Fail 1 NetworkError) tr /\ In (Tx m2 false) tr /\ In (Tx m1 true) tr /\ In (Tx m2 true) tr.
Proof. exists {| m_sub := Req 1; m_remote := 0; m_mtype := 0; m_code := 1; m_mid := 0; m_tok := 1; m_maxre := 2 |},
         {| m_sub := Req 2; m_remote := 0; m_mtype := 0; m_code := 1; m_mid := 1; m_tok := 2; m_maxre := 2 |}.
  vm_compute. repeat split; auto 20. Qed.
