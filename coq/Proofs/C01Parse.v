(* C01 — the executable parser rfc_parse of Model/C01Rfc.v accepts exactly the datagrams of the relation WellFormed,
   with the same fields (so the stream that compares rfc_parse with the oracle's Python parser compares WellFormed with it) *)
From Verif Require Import Lib.Py Lib.Tactics Lib.PyLemmas Model.C01Types Model.C01Rfc.
Open Scope Z_scope.

Lemma ExtField_range nib ext v : ExtField nib ext v -> 0 <= nib <= 14 /\ 0 <= v.
Proof. intros H. destruct H; lia. Qed.

Lemma parse_ext_complete nib ext v r : ExtField nib ext v -> parse_ext nib (ext ++ r) = Some (v, r).
Proof.
  intros H. destruct H as [n Hn|b Hb|b1 b0 H1 H0]; unfold parse_ext.
  - replace ((0 <=? n) && (n <=? 12)) with true by lia. reflexivity.
  - reflexivity.
  - reflexivity.
Qed.
Lemma parse_ext_sound nib bs v r : bytes_ok bs = true -> parse_ext nib bs = Some (v, r) ->
  exists ext, ExtField nib ext v /\ bs = ext ++ r.
Proof.
  intros Hok. unfold parse_ext. destruct ((0 <=? nib) && (nib <=? 12)) eqn:A.
  { intros E. injection E as <- <-. exists []. split; [constructor; lia|reflexivity]. }
  destruct (nib =? 13) eqn:B.
  { destruct bs as [|b bs']; [discriminate|]. intros E. injection E as <- <-.
    rewrite bytes_ok_cons in Hok. apply andb_prop in Hok as [Hb _]. unfold byte_ok in Hb.
    exists [b]. replace nib with 13 by lia. split; [constructor; lia|reflexivity]. }
  destruct (nib =? 14) eqn:C; [|discriminate].
  destruct bs as [|b1 [|b0 bs']]; try discriminate. intros E. injection E as <- <-.
  rewrite !bytes_ok_cons in Hok. apply andb_prop in Hok as [H1 Hok]. apply andb_prop in Hok as [H0 _]. unfold byte_ok in H1, H0.
  exists [b1; b0]. replace nib with 14 by lia. split; [constructor; lia|reflexivity].
Qed.

Lemma bytes_ok_app_r' a b : bytes_ok (a ++ b) = true -> bytes_ok b = true.
Proof. rewrite bytes_ok_app. intros H. apply andb_prop in H. tauto. Qed.

Lemma rfc_parse_options_complete prev bs opts p : OptionsWF prev bs opts p ->
  forall fuel, (length bs < fuel)%nat -> rfc_parse_options fuel prev bs = Some (opts, p).
Proof.
  induction 1 as [prev|prev p Hp|prev dn ln de le d l v rest opts p Hd Hl Hv W IH]; intros fuel Hf.
  - destruct fuel; [inversion Hf|]. reflexivity.
  - destruct fuel; [inversion Hf|]. cbn [rfc_parse_options]. change (255 =? 255) with true. cbv iota.
    destruct p; [congruence|reflexivity].
  - destruct fuel; [inversion Hf|]. cbn [rfc_parse_options].
    destruct (ExtField_range _ _ _ Hd) as [D1 D2]. destruct (ExtField_range _ _ _ Hl) as [L1 L2].
    replace (dn * 16 + ln =? 255) with false by lia.
    replace ((dn * 16 + ln) / 16) with dn by lia. replace ((dn * 16 + ln) mod 16) with ln by lia.
    rewrite (parse_ext_complete _ _ _ _ Hd), (parse_ext_complete _ _ _ _ Hl).
    rewrite blen_app. pose proof (blen_nonneg rest). replace (blen v + blen rest <? l) with false by lia.
    rewrite <- Hv. fold (bfrom (v ++ rest) (blen v)). fold (bto (v ++ rest) (blen v)). rewrite bfrom_app, bto_app.
    rewrite IH; [reflexivity|]. cbn [length] in Hf. rewrite !app_length in Hf. lia.
Qed.

Lemma rfc_parse_options_sound fuel : forall prev bs opts p, bytes_ok bs = true ->
  rfc_parse_options fuel prev bs = Some (opts, p) -> OptionsWF prev bs opts p.
Proof.
  induction fuel as [|fuel IH]; intros prev bs opts p Hok; [discriminate|].
  cbn [rfc_parse_options]. destruct bs as [|h r].
  { intros E. injection E as <- <-. constructor. }
  rewrite bytes_ok_cons in Hok. apply andb_prop in Hok as [Hh Hok]. unfold byte_ok in Hh.
  destruct (h =? 255) eqn:E255.
  { destruct r as [|x r']; [discriminate|]. intros E. injection E as <- <-. replace h with 255 by lia. constructor. discriminate. }
  destruct (parse_ext (h / 16) r) as [[d r1]|] eqn:P1; [|discriminate].
  destruct (parse_ext_sound _ _ _ _ Hok P1) as (de & Hd & R1).
  assert (Hok1 : bytes_ok r1 = true) by (rewrite R1 in Hok; eapply bytes_ok_app_r'; exact Hok).
  destruct (parse_ext (h mod 16) r1) as [[l r2]|] eqn:P2; [|discriminate].
  destruct (parse_ext_sound _ _ _ _ Hok1 P2) as (le & Hl & R2).
  assert (Hok2 : bytes_ok r2 = true) by (rewrite R2 in Hok1; eapply bytes_ok_app_r'; exact Hok1).
  destruct (blen r2 <? l) eqn:Elen; [discriminate|].
  destruct (rfc_parse_options fuel (prev + d) (skipn (Z.to_nat l) r2)) as [[opts' p']|] eqn:Rec; [|discriminate].
  intros E. injection E as <- <-.
  destruct (ExtField_range _ _ _ Hl) as [_ L2].
  assert (W := IH _ _ _ _ (bytes_ok_skipn _ _ Hok2) Rec).
  replace h with (h / 16 * 16 + h mod 16) by lia. rewrite R1, R2.
  rewrite <- (firstn_skipn (Z.to_nat l) r2) at 1.
  apply OWF_option with (l := l); try assumption.
  fold (bto r2 l). apply blen_bto. pose proof (blen_nonneg r2). lia.
Qed.

Lemma rfc_parse_iff bs rm : bytes_ok bs = true -> (rfc_parse bs = Some rm <-> WellFormed bs rm).
Proof.
  intros Hok. split.
  - unfold rfc_parse. destruct bs as [|b0 [|c [|m1 [|m0 r]]]]; try discriminate.
    rewrite !bytes_ok_cons in Hok. apply andb_prop in Hok as [H0 Hok]. apply andb_prop in Hok as [Hc Hok].
    apply andb_prop in Hok as [H1 Hok]. apply andb_prop in Hok as [H2 Hok]. unfold byte_ok in H0, Hc, H1, H2.
    cbv zeta. destruct ((b0 / 64 =? 1) && (b0 mod 16 <=? 8) && (b0 mod 16 <=? blen r)) eqn:G; [|discriminate].
    destruct (rfc_parse_options (S (length r)) 0 (skipn (Z.to_nat (b0 mod 16)) r)) as [[opts p]|] eqn:P; [|discriminate].
    intros E. injection E as <-.
    assert (W := rfc_parse_options_sound _ _ _ _ _ (bytes_ok_skipn _ _ Hok) P).
    replace b0 with (64 + (b0 / 16) mod 4 * 16 + b0 mod 16) at 1 by lia.
    rewrite <- (firstn_skipn (Z.to_nat (b0 mod 16)) r) at 1.
    apply WF_datagram with (tkl := b0 mod 16); try lia; [|exact W].
    fold (bto r (b0 mod 16)). apply blen_bto. pose proof (blen_nonneg r). lia.
  - intros W. destruct W as [t tkl c m1 m0 tok rest opts p Ht Hk Hc H1 H0 Htok W].
    unfold rfc_parse. cbv zeta.
    replace ((64 + t * 16 + tkl) / 64) with 1 by lia. replace ((64 + t * 16 + tkl) mod 16) with tkl by lia.
    replace ((64 + t * 16 + tkl) / 16 mod 4) with t by lia.
    rewrite blen_app. pose proof (blen_nonneg rest).
    replace ((1 =? 1) && (tkl <=? 8) && (tkl <=? blen tok + blen rest)) with true by lia.
    rewrite <- Htok. fold (bfrom (tok ++ rest) (blen tok)). fold (bto (tok ++ rest) (blen tok)). rewrite bfrom_app, bto_app.
    rewrite (rfc_parse_options_complete _ _ _ _ W); [reflexivity|]. rewrite app_length. lia.
Qed.
