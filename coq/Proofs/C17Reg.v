(* C17 — add_resource / remove_resource (generated from resource.py): they never fail unexpectedly, take effect
   for the next lookup, leave every other registration alone, and keep the registries well-formed over every history. *)
From Verif Require Import Lib.Py Lib.Tactics Model.C17Base Gen.resource_site Model.C17 Proofs.C17.
Open Scope Z_scope.
Open Scope list_scope.

(* a Python dict has every key once *)
Fixpoint dict_wf {V} (d : dict V) : bool :=
  match d with [] => true | (k, _) :: r => negb (dict_contains k r) && dict_wf r end.

Lemma dict_get_set : forall V (d : dict V) k v k',
  dict_get_opt (dict_set d k v) k' = if path_eqb k k' then Some v else dict_get_opt d k'.
Proof.
  intros V d k v k'. induction d as [|[k0 v0] d IH]; simpl.
  - reflexivity.
  - destruct (path_eqb k0 k) eqn:E0; simpl.
    + apply path_eqb_eq in E0. subst k0. destruct (path_eqb k k'); reflexivity.
    + destruct (path_eqb k0 k') eqn:E1.
      * apply path_eqb_eq in E1. subst k0. rewrite path_eqb_sym, E0. reflexivity.
      * exact IH.
Qed.
Lemma dict_contains_set : forall V (d : dict V) k v k',
  dict_contains k' (dict_set d k v) = path_eqb k k' || dict_contains k' d.
Proof. intros. unfold dict_contains. rewrite dict_get_set. destruct (path_eqb k k'); reflexivity. Qed.
Lemma dict_set_wf : forall V (d : dict V) k v, dict_wf d = true -> dict_wf (dict_set d k v) = true.
Proof.
  intros V d k v. induction d as [|[k0 v0] d IH]; simpl; intro H; [reflexivity|].
  apply andb_true_iff in H. destruct H as [H1 H2].
  destruct (path_eqb k0 k) eqn:E0; simpl.
  - rewrite H1, H2. reflexivity.
  - rewrite dict_contains_set, (path_eqb_sym k k0), E0. simpl. rewrite H1. apply IH. exact H2.
Qed.

Lemma dict_del_none : forall V (d : dict V) k, dict_get_opt d k = None -> dict_del d k = Raise KeyError.
Proof.
  intros V d k. induction d as [|[k0 v0] d IH]; simpl; [reflexivity|].
  destruct (path_eqb k0 k); [discriminate|]. intro H. rewrite (IH H). reflexivity.
Qed.
Lemma dict_del_some : forall V (d : dict V) k v, dict_get_opt d k = Some v ->
  exists d', dict_del d k = Ok d' /\
             (forall k', k' <> k -> dict_get_opt d' k' = dict_get_opt d k') /\
             (dict_wf d = true -> dict_get_opt d' k = None /\ dict_wf d' = true).
Proof.
  intros V d k v. induction d as [|[k0 v0] d IH]; simpl; [discriminate|].
  destruct (path_eqb k0 k) eqn:E0.
  - intros _. apply path_eqb_eq in E0. subst k0. exists d. split; [reflexivity|]. split.
    + intros k' Hne. destruct (path_eqb k k') eqn:E; [apply path_eqb_eq in E; congruence | reflexivity].
    + intro H. apply andb_true_iff in H. destruct H as [H1 H2]. split; [|exact H2].
      unfold dict_contains in H1. destruct (dict_get_opt d k); [discriminate | reflexivity].
  - intro H. destruct (IH H) as [d' [Hd [Hframe Hwf]]]. exists ((k0, v0) :: d'). split; [rewrite Hd; reflexivity|]. split.
    + intros k' Hne. simpl. destruct (path_eqb k0 k'); [reflexivity | apply Hframe; exact Hne].
    + intro Hw. apply andb_true_iff in Hw. destruct Hw as [H1 H2]. destruct (Hwf H2) as [Hn Hw']. split.
      * simpl. rewrite E0. exact Hn.
      * simpl. rewrite Hw'. rewrite andb_true_r.
        unfold dict_contains in *. rewrite Hframe; [exact H1|].
        intro E. subst k0. rewrite path_eqb_refl in E0. discriminate.
Qed.
Lemma dict_del_raises : forall V (d : dict V) k e, dict_del d k = Raise e -> e = KeyError /\ dict_get_opt d k = None.
Proof.
  intros V d k e H. destruct (dict_get_opt d k) as [v|] eqn:E.
  - destruct (dict_del_some _ _ _ _ E) as [d' [Hd _]]. congruence.
  - rewrite (dict_del_none _ _ _ E) in H. inversion H. split; reflexivity.
Qed.

(* ------------------------------------------------------------------ the generated methods *)
Lemma add_resource_res : forall R S (s : site R S) p (r : R),
  add_resource s p (ChildResource r) = Ok {| resources := dict_set (resources s) p r; subsites := subsites s |}.
Proof. reflexivity. Qed.
Lemma add_resource_sub : forall R S (s : site R S) p (c : S),
  add_resource s p (ChildSubsite c) = Ok {| resources := resources s; subsites := dict_set (subsites s) p c |}.
Proof. reflexivity. Qed.

(* Site.remove_resource: the PathCapable registration at that path goes first, else the plain resource, else KeyError *)
Lemma remove_resource_spec : forall R S (s : site R S) p,
  remove_resource s p =
  match dict_get_opt (subsites s) p with
  | Some _ => match dict_del (subsites s) p with Ok d => Ok {| resources := resources s; subsites := d |} | Raise e => Raise e end
  | None => match dict_del (resources s) p with Ok d => Ok {| resources := d; subsites := subsites s |} | Raise e => Raise e end
  end.
Proof.
  intros R S s p. unfold remove_resource.
  destruct (dict_get_opt (subsites s) p) as [c|] eqn:E.
  - destruct (dict_del_some _ _ _ _ E) as [d [Hd _]]. rewrite Hd. reflexivity.
  - rewrite (dict_del_none _ _ _ E). cbn [bind]. destruct (dict_del (resources s) p); reflexivity.
Qed.

Definition site_wf {R S} (s : site R S) : bool := dict_wf (resources s) && dict_wf (subsites s).

Lemma add_resource_wf : forall R S (s s' : site R S) p c, site_wf s = true -> add_resource s p c = Ok s' -> site_wf s' = true.
Proof.
  intros R S s s' p c Hw H. unfold site_wf in *. apply andb_true_iff in Hw. destruct Hw as [H1 H2].
  destruct c; [rewrite add_resource_res in H | rewrite add_resource_sub in H]; inversion H; subst; cbn [resources subsites].
  - rewrite dict_set_wf, H2 by exact H1. reflexivity.
  - rewrite dict_set_wf, H1 by exact H2. reflexivity.
Qed.
Lemma add_resource_ok : forall R S (s : site R S) p c, exists s', add_resource s p c = Ok s'.
Proof. intros R S s p [r|c]; [rewrite add_resource_res | rewrite add_resource_sub]; eauto. Qed.

(* adding takes effect for the very next lookup, and for that path only *)
Lemma add_then_lookup : forall R S (s s' : site R S) p (r : R) m,
  add_resource s p (ChildResource r) = Ok s' -> uri_path m = p ->
  find_child_and_pathstripped_message s' m = Ok (ChildResource r, strip m []).
Proof.
  intros R S s s' p r m H Hp. rewrite add_resource_res in H. inversion H; subst.
  rewrite find_child_eq. unfold find_child_spec. cbn [resources]. rewrite dict_get_set, path_eqb_refl. reflexivity.
Qed.
Lemma add_frame : forall R S (s s' : site R S) p c,
  add_resource s p c = Ok s' ->
  forall q, q <> p -> dict_get_opt (resources s') q = dict_get_opt (resources s) q /\
                      dict_get_opt (subsites s') q = dict_get_opt (subsites s) q.
Proof.
  intros R S s s' p c H q Hq. assert (E : path_eqb p q = false) by (apply path_eqb_neq; congruence).
  destruct c; [rewrite add_resource_res in H | rewrite add_resource_sub in H]; inversion H; subst; cbn [resources subsites];
    rewrite dict_get_set, E; split; reflexivity.
Qed.
Lemma add_res_keeps_subsites : forall R S (s s' : site R S) p (r : R), add_resource s p (ChildResource r) = Ok s' -> subsites s' = subsites s.
Proof. intros R S s s' p r H. rewrite add_resource_res in H. inversion H; reflexivity. Qed.
Lemma add_sub_lookup : forall R S (s s' : site R S) p (c : S), add_resource s p (ChildSubsite c) = Ok s' ->
  dict_get_opt (subsites s') p = Some c /\ resources s' = resources s.
Proof. intros R S s s' p c H. rewrite add_resource_sub in H. inversion H; subst. cbn [resources subsites]. rewrite dict_get_set, path_eqb_refl. split; reflexivity. Qed.

(* removing: KeyError exactly when nothing is registered at the path; otherwise the registration is gone at once
   (sub-site first), nothing else changes *)
Lemma remove_resource_effect : forall R S (s : site R S) p, site_wf s = true ->
  match remove_resource s p with
  | Raise e => e = KeyError /\ dict_get_opt (subsites s) p = None /\ dict_get_opt (resources s) p = None
  | Ok s' =>
      site_wf s' = true /\
      (forall q, q <> p -> dict_get_opt (resources s') q = dict_get_opt (resources s) q /\
                           dict_get_opt (subsites s') q = dict_get_opt (subsites s) q) /\
      match dict_get_opt (subsites s) p with
      | Some _ => dict_get_opt (subsites s') p = None /\ resources s' = resources s
      | None => dict_get_opt (resources s) p <> None /\ dict_get_opt (resources s') p = None /\ subsites s' = subsites s
      end
  end.
Proof.
  intros R S s p Hw. unfold site_wf in *. apply andb_true_iff in Hw. destruct Hw as [H1 H2].
  rewrite remove_resource_spec. destruct (dict_get_opt (subsites s) p) as [c|] eqn:E.
  - destruct (dict_del_some _ _ _ _ E) as [d [Hd [Hframe Hwf]]]. rewrite Hd. destruct (Hwf H2) as [Hn Hw']. cbn [resources subsites].
    split; [rewrite H1, Hw'; reflexivity|]. split; [|split; [exact Hn | reflexivity]].
    intros q Hq. split; [reflexivity | apply Hframe; exact Hq].
  - destruct (dict_get_opt (resources s) p) as [r|] eqn:Er.
    + destruct (dict_del_some _ _ _ _ Er) as [d [Hd [Hframe Hwf]]]. rewrite Hd. destruct (Hwf H1) as [Hn Hw']. cbn [resources subsites].
      split; [rewrite H2, Hw'; reflexivity|]. split; [|split; [discriminate | split; [exact Hn | reflexivity]]].
      intros q Hq. split; [apply Hframe; exact Hq | reflexivity].
    + rewrite (dict_del_none _ _ _ Er). split; [reflexivity|]. split; reflexivity.
Qed.
Lemma remove_resource_wf : forall R S (s s' : site R S) p, site_wf s = true -> remove_resource s p = Ok s' -> site_wf s' = true.
Proof. intros R S s s' p Hw H. pose proof (remove_resource_effect _ _ s p Hw) as E. rewrite H in E. apply E. Qed.

(* ------------------------------------------------------------------ the tree: every registry of every site is a proper dict, over every history *)
Fixpoint node_wf (n : node) : bool :=
  match n with
  | NOpaque _ => true
  | NSite rs ss => dict_wf rs && dict_wf ss &&
                   (fix go (l : dict node) : bool := match l with [] => true | (_, c) :: tl => node_wf c && go tl end) ss
  end.
Definition children_wf (l : dict node) : bool := forallb (fun kc : list string * node => node_wf (snd kc)) l.
Lemma node_wf_site : forall rs ss, node_wf (NSite rs ss) = dict_wf rs && dict_wf ss && children_wf ss.
Proof.
  intros rs ss. cbn [node_wf]. f_equal. unfold children_wf. induction ss as [|[k c] ss IH]; [reflexivity|]. cbn [forallb snd]. rewrite <- IH. reflexivity.
Qed.
Lemma children_wf_get : forall ss k c, children_wf ss = true -> dict_get_opt ss k = Some c -> node_wf c = true.
Proof.
  intros ss k c H Hg. apply dict_get_opt_In in Hg. unfold children_wf in H. rewrite forallb_forall in H. apply (H (k, c) Hg).
Qed.
Lemma children_wf_set : forall ss k c, children_wf ss = true -> node_wf c = true -> children_wf (dict_set ss k c) = true.
Proof.
  intros ss k c. induction ss as [|[k0 c0] ss IH]; simpl; intros H Hc.
  - rewrite Hc. reflexivity.
  - apply andb_true_iff in H. destruct H as [H1 H2]. destruct (path_eqb k0 k); simpl.
    + rewrite Hc, H2. reflexivity.
    + rewrite H1. apply IH; assumption.
Qed.
Lemma children_wf_del : forall ss k d, children_wf ss = true -> dict_del ss k = Ok d -> children_wf d = true.
Proof.
  induction ss as [|[k0 c0] ss IH]; simpl; intros k d H Hd; [discriminate|].
  apply andb_true_iff in H. destruct H as [H1 H2]. destruct (path_eqb k0 k).
  - inversion Hd; subst. exact H2.
  - destruct (dict_del ss k) as [d'|] eqn:E; [|discriminate]. cbn [bind] in Hd. inversion Hd; subst. simpl. rewrite H1. apply (IH k d' H2 E).
Qed.

(* a Site method that keeps the site's dicts and its children well-formed *)
Definition keeps_wf (f : site res node -> M (site res node)) : Prop :=
  forall s s', site_wf s = true -> children_wf (subsites s) = true -> f s = Ok s' -> site_wf s' = true /\ children_wf (subsites s') = true.

Lemma update_at_wf : forall addr f n n', keeps_wf f -> node_wf n = true -> update_at addr f n = Some (Ok n') -> node_wf n' = true.
Proof.
  induction addr as [|k addr IH]; intros f n n' Hf Hw H; destruct n as [rs ss | id]; try discriminate.
  - cbn [update_at] in H. rewrite node_wf_site in Hw. apply andb_true_iff in Hw. destruct Hw as [Hw Hc].
    destruct (f (site_of rs ss)) as [s'|] eqn:E; [|discriminate]. cbn [bind] in H. inversion H; subst.
    destruct (Hf (site_of rs ss) s' Hw Hc E) as [H1 H2]. rewrite node_wf_site. unfold site_wf in H1. rewrite H1, H2. reflexivity.
  - cbn [update_at] in H. destruct (dict_get_opt ss k) as [c|] eqn:Eg; [|discriminate].
    destruct (update_at addr f c) as [[c'|e]|] eqn:Eu; try discriminate. inversion H; subst.
    rewrite node_wf_site in *. apply andb_true_iff in Hw. destruct Hw as [Hw Hc]. apply andb_true_iff in Hw. destruct Hw as [Hr Hs].
    rewrite Hr, dict_set_wf by exact Hs. rewrite children_wf_set; [reflexivity | exact Hc |].
    apply (IH f c c' Hf); [apply (children_wf_get ss k c Hc Eg) | exact Eu].
Qed.

Lemma thing_child_wf : forall t, match thing_child t with ChildSubsite c => node_wf c = true | ChildResource _ => True end.
Proof. intros [r| |id]; simpl; auto. Qed.
Lemma add_keeps_wf : forall p t, keeps_wf (fun s => add_resource s p (thing_child t)).
Proof.
  intros p t s s' Hw Hc H. split; [apply (add_resource_wf _ _ s s' p _ Hw H)|].
  pose proof (thing_child_wf t) as Ht. destruct (thing_child t) as [r|c].
  - rewrite (add_res_keeps_subsites _ _ _ _ _ _ H). exact Hc.
  - rewrite add_resource_sub in H. inversion H; subst. cbn [subsites]. apply children_wf_set; assumption.
Qed.
Lemma remove_keeps_wf : forall p, keeps_wf (fun s => remove_resource s p).
Proof.
  intros p s s' Hw Hc H. split; [apply (remove_resource_wf _ _ s s' p Hw H)|].
  rewrite remove_resource_spec in H. destruct (dict_get_opt (subsites s) p).
  - destruct (dict_del (subsites s) p) as [d|] eqn:E; [|discriminate]. inversion H; subst. cbn [subsites]. apply (children_wf_del _ _ _ Hc E).
  - destruct (dict_del (resources s) p) as [d|] eqn:E; [|discriminate]. inversion H; subst. exact Hc.
Qed.

Lemma site_at_wf : forall addr n c, node_wf n = true -> site_at addr n = Some c -> node_wf c = true.
Proof.
  induction addr as [|k addr IH]; intros n c Hw H; destruct n as [rs ss | id]; try discriminate.
  - inversion H; subst. exact Hw.
  - cbn [site_at] in H. destruct (dict_get_opt ss k) as [c0|] eqn:Eg; [|discriminate].
    rewrite node_wf_site in Hw. apply andb_true_iff in Hw. destruct Hw as [_ Hc].
    apply (IH c0 c (children_wf_get ss k c0 Hc Eg) H).
Qed.
Lemma add_subsite_keeps_wf : forall p c, node_wf c = true -> keeps_wf (fun s => add_resource s p (ChildSubsite c)).
Proof.
  intros p c Hcw s s' Hw Hc H. split; [apply (add_resource_wf _ _ s s' p _ Hw H)|].
  rewrite add_resource_sub in H. inversion H; subst. cbn [subsites]. apply children_wf_set; assumption.
Qed.
Lemma step_wf : forall root o, node_wf root = true -> node_wf (fst (step root o)) = true.
Proof.
  intros root o Hw. destruct o as [addr p t | addr p | pipe m q | addr | obs m | src dst p | ]; cbn [step]; try exact Hw.
  - destruct (update_at addr (fun s => add_resource s p (thing_child t)) root) as [[n'|e]|] eqn:E; cbn [apply_update fst]; try exact Hw.
    apply (update_at_wf addr _ root n' (add_keeps_wf p t) Hw E).
  - destruct (update_at addr (fun s => remove_resource s p) root) as [[n'|e]|] eqn:E; cbn [apply_update fst]; try exact Hw.
    apply (update_at_wf addr _ root n' (remove_keeps_wf p) Hw E).
  - destruct (site_at src root) as [c|] eqn:Es; [|exact Hw].
    destruct (update_at dst (fun s => add_resource s p (ChildSubsite c)) root) as [[n'|e]|] eqn:E; cbn [apply_update fst]; try exact Hw.
    apply (update_at_wf dst _ root n' (add_subsite_keeps_wf p c (site_at_wf src root c Hw Es)) Hw E).
Qed.
Lemma run_wf : forall ops root, node_wf root = true -> node_wf (fst (run root ops)) = true.
Proof.
  induction ops as [|o ops IH]; intros root Hw; [exact Hw|].
  cbn [run]. pose proof (step_wf root o Hw) as H1. destruct (step root o) as [root1 x]. cbn [fst] in H1.
  pose proof (IH root1 H1) as H2. destruct (run root1 ops) as [root2 xs]. exact H2.
Qed.

(* ------------------------------------------------------------------ update_at reaches the addressed site and only it *)
Lemma site_at_update_at : forall addr f n n', update_at addr f n = Some (Ok n') ->
  exists rs ss s', site_at addr n = Some (NSite rs ss) /\ f (site_of rs ss) = Ok s' /\
                   site_at addr n' = Some (NSite (resources s') (subsites s')).
Proof.
  induction addr as [|k addr IH]; intros f n n' H; destruct n as [rs ss | id]; try discriminate.
  - cbn [update_at] in H. destruct (f (site_of rs ss)) as [s'|] eqn:E; [|discriminate]. cbn [bind] in H. inversion H; subst.
    exists rs, ss, s'. split; [reflexivity|]. split; [exact E | reflexivity].
  - cbn [update_at] in H. destruct (dict_get_opt ss k) as [c|] eqn:Eg; [|discriminate].
    destruct (update_at addr f c) as [[c'|e]|] eqn:Eu; try discriminate. inversion H; subst.
    destruct (IH f c c' Eu) as [rs' [ss' [s' [H1 [H2 H3]]]]]. exists rs', ss', s'.
    cbn [site_at]. rewrite Eg, dict_get_set, path_eqb_refl. auto.
Qed.

(* ------------------------------------------------------------------ next request after add / remove on the root site *)
Lemma request_after_add : forall rs ss p id d pipe q root',
  fst (step (NSite rs ss) (OAdd [] p (TRes (RHandler id d)))) = root' ->
  request pipe root' (new_request p None) q = RHandled id [] (Some p) (Ok (uri_segments p)).
Proof.
  intros rs ss p id d pipe q root' H. cbn in H. subst root'.
  unfold request. rewrite render_step by reflexivity. cbn [new_request uri_path].
  rewrite dict_get_set, path_eqb_refl. reflexivity.
Qed.
Lemma request_after_remove : forall rs ss p pipe q root', dict_wf rs = true ->
  dict_get_opt rs p <> None -> dict_get_opt ss p = None ->
  (forall pre rest, p = pre ++ rest -> pre <> [] -> rest <> [] -> dict_get_opt ss pre = None) ->
  fst (step (NSite rs ss) (ORemove [] p)) = root' ->
  request pipe root' (new_request p None) q = RExn NotFound.
Proof.
  intros rs ss p pipe q root' Hw Hr Hs Hpre H. cbn [step update_at] in H. unfold site_of in H.
  rewrite remove_resource_spec in H. cbn [resources subsites] in H. rewrite Hs in H.
  destruct (dict_get_opt rs p) as [r|] eqn:Er; [|congruence].
  destruct (dict_del_some _ _ _ _ Er) as [d [Hd [Hframe Hwf]]]. rewrite Hd in H. cbn in H. subst root'.
  destruct (Hwf Hw) as [Hn _].
  unfold request. rewrite render_step by reflexivity. cbn [new_request uri_path]. rewrite Hn.
  destruct (scan ss p (List.length p - 1)) as [[c rest]|] eqn:Hscan; [|reflexivity].
  destruct (scan_some _ _ _ _ _ _ Hscan) as [j [Hj [Hg _]]].
  rewrite (Hpre (firstn j p) (skipn j p)) in Hg; [discriminate | symmetry; apply firstn_skipn | |].
  - intro E. apply (f_equal (@List.length string)) in E. rewrite firstn_length in E. simpl in E. lia.
  - intro E. apply (f_equal (@List.length string)) in E. rewrite skipn_length in E. simpl in E. lia.
Qed.

(* ------------------------------------------------------------------ frame at tree level: an add/remove at one site address leaves every site at an
   unrelated address (neither a prefix of the other) exactly as it was *)
Fixpoint addr_prefix (a b : list (list string)) : bool :=
  match a, b with
  | [], _ => true
  | x :: a', y :: b' => path_eqb x y && addr_prefix a' b'
  | _ :: _, [] => false
  end.
Lemma update_frame : forall addr f n n' addr', update_at addr f n = Some (Ok n') ->
  addr_prefix addr addr' = false -> addr_prefix addr' addr = false -> site_at addr' n' = site_at addr' n.
Proof.
  induction addr as [|k addr IH]; intros f n n' addr' H H1 H2; [discriminate H1|].
  destruct n as [rs ss | id]; [|discriminate]. cbn [update_at] in H.
  destruct (dict_get_opt ss k) as [c|] eqn:Eg; [|discriminate].
  destruct (update_at addr f c) as [[c'|e]|] eqn:Eu; try discriminate. inversion H; subst.
  destruct addr' as [|k' addr']; [discriminate H2|]. cbn [site_at]. rewrite dict_get_set.
  cbn [addr_prefix] in H1, H2. destruct (path_eqb k k') eqn:Ek.
  - apply path_eqb_eq in Ek. subst k'. rewrite Eg. rewrite path_eqb_refl in H2. cbn [andb] in H1, H2.
    apply (IH f c c' addr' Eu H1 H2).
  - reflexivity.
Qed.
(* ... and the addressed site's own sub-sites other than the path touched stay reachable unchanged is add_frame / remove_resource_effect *)
Lemma step_add_remove_frame : forall root o root' addr', step root o = (root', RDone) ->
  match o with
  | OAdd addr _ _ | ORemove addr _ => addr_prefix addr addr' = false /\ addr_prefix addr' addr = false
  | _ => False
  end -> site_at addr' root' = site_at addr' root.
Proof.
  intros root o root' addr' H Ho. destruct o as [addr p t | addr p | | | | | ]; try contradiction; destruct Ho as [H1 H2]; cbn [step] in H.
  - destruct (update_at addr (fun s => add_resource s p (thing_child t)) root) as [[n'|e]|] eqn:E; cbn [apply_update] in H; inversion H; subst.
    apply (update_frame addr _ root root' addr' E H1 H2).
  - destruct (update_at addr (fun s => remove_resource s p) root) as [[n'|e]|] eqn:E; cbn [apply_update] in H; inversion H; subst.
    apply (update_frame addr _ root root' addr' E H1 H2).
Qed.
