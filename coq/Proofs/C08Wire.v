(* C08 — the per-endpoint backlog is FIFO per registration: what reaches the wire for a registration, followed by what still
   waits in the backlog, is what the render task produced, in that order; Observe numbers are 0,1,2,... in production order.
   Hence, over every history, the datagrams of one registration carry one token and strictly rising Observe values. *)
From Coq Require Import Sorted.
From Verif Require Import Lib.Py Lib.Tactics Model.C08 Proofs.C08 Proofs.C08Silent Proofs.C08Ends.
Open Scope Z_scope.

Definition gfilter (g : Z) (l : list msg) : list msg := filter (fun m => m_gid m =? g) l.
Definition sends (h : list output) : list msg := flat_map (fun o => match o with OSend m false => [m] | _ => [] end) h.
Definition prodl (g : Z) (s : state) : list msg := rev (gfilter g (s_prod s)).            (* produced, oldest first *)
Definition wirel (g : Z) (s : state) : list msg := rev (gfilter g (sends (s_hist s))).    (* first transmissions, oldest first *)
Definition queuel (g : Z) (s : state) : list msg := gfilter g (map fst (s_backlog s)).    (* waiting in the backlog *)
Definition observes (l : list msg) : list (option Z) := map m_observe l.
Definition key (g : reg) : Z * Z := (g_remote g, g_token g).

Fixpoint somes_from (n : Z) (k : nat) : list (option Z) := match k with O => [] | S k' => Some n :: somes_from (n + 1) k' end.
Definition somes (k : Z) : list (option Z) := somes_from 0 (Z.to_nat k).
(* Some n, Some (n+1), ... optionally closed by one message without Observe option *)
Fixpoint consec (n : Z) (l : list (option Z)) : Prop :=
  match l with [] => True | None :: l' => l' = [] | Some x :: l' => x = n /\ consec (n + 1) l' end.

Lemma somes_from_snoc k : forall n, somes_from n (S k) = somes_from n k ++ [Some (n + Z.of_nat k)].
Proof. induction k as [|k IH]; intros n. { cbn. replace (n + 0) with n by lia. reflexivity. }
  change (somes_from n (S (S k))) with (Some n :: somes_from (n + 1) (S k)). rewrite IH. cbn [somes_from app].
  replace (n + 1 + Z.of_nat k) with (n + Z.of_nat (S k)) by lia. reflexivity. Qed.
Lemma somes_snoc k : 0 <= k -> somes (k + 1) = somes k ++ [Some k].
Proof. intros H. unfold somes. replace (Z.to_nat (k + 1)) with (S (Z.to_nat k)) by lia. rewrite somes_from_snoc. replace (0 + Z.of_nat (Z.to_nat k)) with k by lia. reflexivity. Qed.
Lemma somes_0 : somes 0 = []. Proof. reflexivity. Qed.
Lemma consec_somes_from k : forall n, consec n (somes_from n k).
Proof. induction k; intros n; cbn; auto. Qed.
Lemma consec_somes_from_none k : forall n, consec n (somes_from n k ++ [None]).
Proof. induction k; intros n; cbn; auto. Qed.
Lemma consec_prefix a : forall n b, consec n (a ++ b) -> consec n a.
Proof. induction a as [|[x|] a IH]; intros n b H; cbn in *; auto.
  - destruct H as [H1 H2]. split; [exact H1 | eapply IH; exact H2].
  - destruct a; [reflexivity | discriminate]. Qed.

Lemma gfilter_app g a b : gfilter g (a ++ b) = gfilter g a ++ gfilter g b. Proof. apply filter_app. Qed.
Lemma gfilter_cons_eq g m l : m_gid m = g -> gfilter g (m :: l) = m :: gfilter g l.
Proof. intros H. unfold gfilter. cbn. replace (m_gid m =? g) with true by lia. reflexivity. Qed.
Lemma gfilter_cons_ne g m l : m_gid m <> g -> gfilter g (m :: l) = gfilter g l.
Proof. intros H. unfold gfilter. cbn. replace (m_gid m =? g) with false by lia. reflexivity. Qed.
Lemma gfilter_In g m l : In m (gfilter g l) <-> In m l /\ m_gid m = g.
Proof. unfold gfilter. rewrite filter_In. split; intros [A B]; split; auto; lia. Qed.
Lemma sends_cons_other o h : (forall m, o <> OSend m false) -> sends (o :: h) = sends h.
Proof. intros H. unfold sends. cbn. destruct o as [m [|]| | |]; try reflexivity. exfalso. apply (H m). reflexivity. Qed.
Lemma sends_cons_send m h : sends (OSend m false :: h) = m :: sends h. Proof. reflexivity. Qed.

(* ------------------------------------------------------------------ the invariant *)
Definition Jr (s : state) (r : Z) : Prop := forall e, In e (s_backlog s) -> m_remote (fst e) = r -> has_exchange s r = true.

Record GI (s : state) : Prop := {
  g_nd : NoDup (map g_gid (s_regs s));
  g_rng : forall g0, In g0 (s_regs s) -> 0 <= g_gid g0 < s_gidctr s;
  g_kd : NoDup (map key (s_regs s));
  g_prng : forall m, In m (s_prod s) -> m_gid m < s_gidctr s;
  g_f1 : forall g, 0 <= g -> exists D, prodl g s = wirel g s ++ queuel g s ++ D;
  g_j : s_down s = false -> forall r, Jr s r;
  g_t : forall e, In e (s_backlog s) -> m_mtype (fst e) = CON;
  g_s : s_down s = true -> s_regs s = [];
  g_kk : forall m1 m2, In m1 (s_prod s) -> In m2 (s_prod s) -> m_gid m1 = m_gid m2 -> 0 <= m_gid m1 ->
         m_remote m1 = m_remote m2 /\ m_token m1 = m_token m2;
  g_n : forall g, 0 <= g -> consec 0 (observes (prodl g s));
  g_ctr : 0 <= s_gidctr s }.

(* what must hold of a registration (stated for a reg value: the copy in s_regs, or the render task's local copy) *)
Record RegOK (ex : option (Z * Z)) (s : state) (g : reg) : Prop := {
  r_f2 : prodl (g_gid g) s = wirel (g_gid g) s ++ queuel (g_gid g) s;
  r_m : g_con g = false -> queuel (g_gid g) s = [];
  r_l : Some (key g) <> ex -> piggy_find s (g_remote g) (g_token g) <> None -> prodl (g_gid g) s = [];
  r_nl : observes (prodl (g_gid g) s) = somes (g_next g + 1) /\ -1 <= g_next g;
  r_k : forall m, In m (prodl (g_gid g) s) -> m_remote m = g_remote g /\ m_token m = g_token g }.

(* a registration whose first render has not finished has no Observe number yet *)
Definition PFok (g : reg) : Prop := match g_phase g with PFirst _ => g_next g = -1 | _ => True end.
Definition FI (ex : option (Z * Z)) (s : state) : Prop := GI s /\ forall g0, In g0 (s_regs s) -> RegOK ex s g0 /\ PFok g0.
(* while the task of registration [x] runs, its copy in s_regs is stale *)
Definition FIx (x : Z) (s : state) : Prop := GI s /\ forall g0, In g0 (s_regs s) -> g_gid g0 <> x -> RegOK None s g0 /\ PFok g0.
(* the local copy agrees with the stored one on what never changes *)
Definition statics (s : state) (g : reg) : Prop :=
  (exists g0, In g0 (s_regs s) /\ g_gid g0 = g_gid g) /\
  forall g0, In g0 (s_regs s) -> g_gid g0 = g_gid g -> g_remote g0 = g_remote g /\ g_token g0 = g_token g /\ g_con g0 = g_con g.

(* ------------------------------------------------------------------ frame *)
Definition piggy_shrinks (s s' : state) : Prop := forall r t, piggy_find s' r t <> None -> piggy_find s r t <> None.
(* GI reads regs, gidctr, prod, backlog, down, the registrations' first transmissions and which endpoints have an exchange *)
Definition sameG (s s' : state) : Prop :=
  s_regs s' = s_regs s /\ s_gidctr s' = s_gidctr s /\ s_prod s' = s_prod s /\ s_backlog s' = s_backlog s /\ s_down s' = s_down s /\
  (forall g, 0 <= g -> wirel g s' = wirel g s) /\ (forall r, has_exchange s r = true -> has_exchange s' r = true).
Lemma GI_sameG s s' : sameG s s' -> GI s -> GI s'.
Proof.
  intros (E1 & E2 & E3 & E5 & E7 & Ew & Ex) [H1 H2 H3 H4 H5 H6 H7 H8 H9 H10 H11].
  assert (Ep : forall g, prodl g s' = prodl g s) by (intros; unfold prodl; rewrite E3; reflexivity).
  assert (Eq : forall g, queuel g s' = queuel g s) by (intros; unfold queuel; rewrite E5; reflexivity).
  constructor; rewrite ?E1, ?E2, ?E3, ?E5, ?E7; try assumption.
  - intros g Hg. rewrite Ep, (Ew g Hg), Eq. apply H5. exact Hg.
  - intros Hd r e He Hr. apply Ex. apply (H6 Hd r e); [rewrite <- E5; exact He | exact Hr].
  - intros g Hg. rewrite Ep. apply H10. exact Hg.
Qed.
Lemma RegOK_frame ex s s' g : sameG s s' -> piggy_shrinks s s' -> 0 <= g_gid g -> RegOK ex s g -> RegOK ex s' g.
Proof.
  intros (E1 & E2 & E3 & E5 & E7 & Ew & Ex) Hp Hg [H1 H2 H3 H4 H5].
  assert (Ep : forall g, prodl g s' = prodl g s) by (intros; unfold prodl; rewrite E3; reflexivity).
  assert (Eq : forall g, queuel g s' = queuel g s) by (intros; unfold queuel; rewrite E5; reflexivity).
  constructor; rewrite ?Ep, ?(Ew _ Hg), ?Eq; try assumption.
  intros Hk Hf. apply H3; [exact Hk | apply Hp; exact Hf].
Qed.
Lemma FI_frame ex s s' : sameG s s' -> piggy_shrinks s s' -> FI ex s -> FI ex s'.
Proof. intros E Hp [H1 H2]. split; [eapply GI_sameG; eassumption|]. pose proof E as (E1 & _).
  intros g0 Hg. rewrite E1 in Hg. split; [|apply H2; exact Hg]. eapply RegOK_frame; [exact E | exact Hp | apply (g_rng s H1); exact Hg | apply H2; exact Hg]. Qed.
Lemma FIx_frame x s s' : sameG s s' -> piggy_shrinks s s' -> FIx x s -> FIx x s'.
Proof. intros E Hp [H1 H2]. split; [eapply GI_sameG; eassumption|]. pose proof E as (E1 & _).
  intros g0 Hg Hx. rewrite E1 in Hg. split; [|apply H2; assumption]. eapply RegOK_frame; [exact E | exact Hp | apply (g_rng s H1); exact Hg | apply H2; assumption]. Qed.
Lemma statics_frame s s' g : s_regs s' = s_regs s -> statics s g -> statics s' g.
Proof. unfold statics. intros ->. tauto. Qed.
Lemma piggy_shrinks_refl s s' : s_piggy s' = s_piggy s -> piggy_shrinks s s'.
Proof. intros E r t. unfold piggy_find. rewrite E. tauto. Qed.
Ltac sameG := unfold sameG; repeat split; try reflexivity; auto.

(* ------------------------------------------------------------------ producing one message *)
Lemma prodl_cons g s s' m : s_prod s' = m :: s_prod s ->
  prodl g s' = if m_gid m =? g then prodl g s ++ [m] else prodl g s.
Proof. intros E. unfold prodl. rewrite E. destruct (m_gid m =? g) eqn:Eg.
  - rewrite gfilter_cons_eq by lia. reflexivity.
  - rewrite gfilter_cons_ne by lia. reflexivity. Qed.
Lemma wirel_cons g s s' m : sends (s_hist s') = m :: sends (s_hist s) ->
  wirel g s' = if m_gid m =? g then wirel g s ++ [m] else wirel g s.
Proof. intros E. unfold wirel. rewrite E. destruct (m_gid m =? g) eqn:Eg.
  - rewrite gfilter_cons_eq by lia. reflexivity.
  - rewrite gfilter_cons_ne by lia. reflexivity. Qed.
Lemma queuel_snoc g s s' m x : s_backlog s' = s_backlog s ++ [(m, x)] ->
  queuel g s' = if m_gid m =? g then queuel g s ++ [m] else queuel g s.
Proof. intros E. unfold queuel. rewrite E, map_app, gfilter_app. cbn [map fst]. destruct (m_gid m =? g) eqn:Eg.
  - rewrite gfilter_cons_eq by lia. reflexivity.
  - rewrite gfilter_cons_ne by lia. cbn. apply app_nil_r. Qed.

Lemma GI_produce s s' m (direct : bool) :
  GI s ->
  s_regs s' = s_regs s -> s_gidctr s' = s_gidctr s -> s_down s' = s_down s -> s_prod s' = m :: s_prod s ->
  (if direct then sends (s_hist s') = m :: sends (s_hist s) /\ s_backlog s' = s_backlog s
   else sends (s_hist s') = sends (s_hist s) /\ (exists x, s_backlog s' = s_backlog s ++ [(m, x)]) /\ m_mtype m = CON /\
        (s_down s = false -> has_exchange s' (m_remote m) = true)) ->
  (forall r, has_exchange s r = true -> has_exchange s' r = true) ->
  m_gid m < s_gidctr s ->
  (0 <= m_gid m ->
     (forall m2, In m2 (s_prod s) -> m_gid m2 = m_gid m -> m_remote m2 = m_remote m /\ m_token m2 = m_token m) /\
     prodl (m_gid m) s = wirel (m_gid m) s ++ queuel (m_gid m) s /\
     (direct = true -> queuel (m_gid m) s = []) /\
     consec 0 (observes (prodl (m_gid m) s ++ [m]))) ->
  GI s'.
Proof.
  intros [H1 H2 H3 H4 H5 H6 H7 H8 H9 H10 H11] E1 E2 E7 E3 Ed Hx Hg Hm.
  constructor; rewrite ?E1, ?E2, ?E7; try assumption.
  - intros m0 Hi. rewrite E3 in Hi. destruct Hi as [<-|Hi]; [exact Hg | apply H4; exact Hi].
  - intros g Hg0. rewrite (prodl_cons g s s' m E3).
    destruct direct.
    + destruct Ed as [Es Eb]. rewrite (wirel_cons g s s' m Es).
      assert (Eq : queuel g s' = queuel g s) by (unfold queuel; rewrite Eb; reflexivity). rewrite Eq.
      destruct (m_gid m =? g) eqn:Eg; [|apply H5; exact Hg0].
      assert (m_gid m = g) by lia. subst g. destruct (Hm Hg0) as (_ & F & Qn & _). rewrite (Qn eq_refl) in *.
      exists []. rewrite F. rewrite !app_nil_r. reflexivity.
    + destruct Ed as (Es & [x Eb] & _ & _).
      assert (Ew : wirel g s' = wirel g s) by (unfold wirel; rewrite Es; reflexivity). rewrite Ew.
      rewrite (queuel_snoc g s s' m x Eb).
      destruct (m_gid m =? g) eqn:Eg; [|apply H5; exact Hg0].
      assert (m_gid m = g) by lia. subst g. destruct (Hm Hg0) as (_ & F & _ & _).
      exists []. rewrite F. rewrite !app_nil_r, app_assoc. reflexivity.
  - intros Hd r e He Hr. destruct direct.
    + destruct Ed as [_ Eb]. rewrite Eb in He. apply Hx. apply (H6 Hd r e He Hr).
    + destruct Ed as (_ & [x Eb] & _ & Hex). rewrite Eb in He. apply in_app_iff in He as [He|[<-|[]]].
      * apply Hx. apply (H6 Hd r e He Hr).
      * cbn in Hr. subst r. apply Hex. exact Hd.
  - intros e He. destruct direct.
    + destruct Ed as [_ Eb]. rewrite Eb in He. apply H7. exact He.
    + destruct Ed as (_ & [x Eb] & Ht & _). rewrite Eb in He. apply in_app_iff in He as [He|[<-|[]]]; [apply H7; exact He | exact Ht].
  - intros m1 m2 I1 I2 Eg Hg0. rewrite E3 in I1, I2. destruct I1 as [<-|I1], I2 as [<-|I2].
    + tauto.
    + destruct (Hm Hg0) as (K & _). destruct (K m2 I2 (eq_sym Eg)). split; congruence.
    + rewrite Eg in Hg0. destruct (Hm Hg0) as (K & _). apply (K m1 I1 Eg).
    + apply H9; assumption.
  - intros g Hg0. rewrite (prodl_cons g s s' m E3). destruct (m_gid m =? g) eqn:Eg; [|apply H10; exact Hg0].
    assert (m_gid m = g) by lia. subst g. apply (Hm Hg0).
Qed.

Lemma prodl_In g s m : In m (prodl g s) <-> In m (s_prod s) /\ m_gid m = g.
Proof. unfold prodl. rewrite <- in_rev. apply gfilter_In. Qed.
Lemma nil_if_empty {A} (l : list A) : (forall x, ~ In x l) -> l = [].
Proof. destruct l as [|a l]; [reflexivity|]. intros H. exfalso. apply (H a). left. reflexivity. Qed.

(* RegOK reads prodl / wirel / queuel of its own registration number and the piggy-back table *)
Definition gsame (g : Z) (s s' : state) : Prop := prodl g s' = prodl g s /\ wirel g s' = wirel g s /\ queuel g s' = queuel g s.
Lemma RegOK_gsame ex s s' g : gsame (g_gid g) s s' -> piggy_shrinks s s' -> RegOK ex s g -> RegOK ex s' g.
Proof. intros (Ep & Ew & Eq) Hp [H1 H2 H3 H4 H5]. constructor; rewrite ?Ep, ?Ew, ?Eq; try assumption.
  intros Hk Hf. apply H3; [exact Hk | apply Hp; exact Hf]. Qed.
Lemma RegOK_ext ex s g g' : g_gid g' = g_gid g -> g_remote g' = g_remote g -> g_token g' = g_token g -> g_con g' = g_con g ->
  g_next g' = g_next g -> RegOK ex s g -> RegOK ex s g'.
Proof. intros E1 E2 E3 E4 E5 [H1 H2 H3 H4 H5]. unfold key in *. constructor; rewrite ?E1, ?E2, ?E3, ?E4, ?E5; try assumption.
  unfold key. rewrite E2, E3. exact H3. Qed.

Lemma has_exchange_app s x r : existsb (fun y => x_remote y =? r) (s_exch s ++ [x]) = has_exchange s r || (x_remote x =? r).
Proof. unfold has_exchange. rewrite existsb_app. cbn. rewrite orb_false_r. reflexivity. Qed.

(* the fields after _send_initially of a first transmission *)
Lemma si_fields s m x : let s' := send_initially s m x false in
  s_regs s' = s_regs s /\ s_gidctr s' = s_gidctr s /\ s_prod s' = s_prod s /\ s_backlog s' = s_backlog s /\ s_down s' = s_down s /\
  s_piggy s' = s_piggy s /\ sends (s_hist s') = m :: sends (s_hist s) /\
  (forall r, has_exchange s r = true -> has_exchange s' r = true) /\
  (m_mtype m = CON -> has_exchange s' (m_remote m) = true) /\
  (forall r, has_exchange s' r = true -> has_exchange s r = true \/ (m_mtype m = CON /\ r = m_remote m)).
Proof.
  unfold send_initially, store_response_for_duplicates, send_via_transport, add_exchange, add_timer.
  destruct (m_mtype m) eqn:E; fsimpl; cbn [m_mtype]; repeat split; auto; try discriminate.
  - intros r H. unfold has_exchange. fsimpl. rewrite has_exchange_app, H. reflexivity.
  - intros _. unfold has_exchange. fsimpl. rewrite has_exchange_app. cbn. rewrite Z.eqb_refl. apply orb_true_r.
  - intros r H. unfold has_exchange in H. fsimpl. rewrite has_exchange_app in H. cbn in H.
    destruct (has_exchange s r); [left; reflexivity | right; split; [reflexivity | cbn in H; lia]].
Qed.
Lemma piggy_find_remove s r t : piggy_find (piggy_remove s r t) r t = None.
Proof. unfold piggy_find, piggy_remove. fsimpl.
  destruct (find _ (filter _ (s_piggy s))) as [[[r' t'] mid]|] eqn:E; [|reflexivity].
  apply find_some in E as [E1 E2]. apply filter_In in E1 as [_ E1]. cbn in *. rewrite E2 in E1. discriminate. Qed.
Lemma piggy_find_filter_shrinks (p : Z * Z * Z -> bool) l r t :
  find (fun e => match e with (r', t', _) => (r' =? r) && (t' =? t) end) (filter p l) <> None ->
  find (fun e => match e with (r', t', _) => (r' =? r) && (t' =? t) end) l <> None.
Proof. intros H. destruct (find _ (filter p l)) as [e|] eqn:E; [|congruence]. apply find_some in E as [E1 E2]. apply filter_In in E1 as [E1 _].
  intros Hn. eapply find_none in Hn; [|exact E1]. cbn in *. congruence. Qed.

Lemma piggy_find_some_shrinks s s' : (exists p, s_piggy s' = filter p (s_piggy s)) -> piggy_shrinks s s'.
Proof. intros [p E] r t H. unfold piggy_find in *. rewrite E in H.
  assert (G := piggy_find_filter_shrinks p (s_piggy s) r t).
  destruct (find _ (filter p (s_piggy s))) as [e|]; [|exfalso; apply H; reflexivity].
  destruct (find _ (s_piggy s)) as [[[a b] c]|]; [discriminate|]. exfalso. apply G; [discriminate | reflexivity]. Qed.

(* one emission of the render task of registration [g] (its copy [g2] may differ in g_next / phase / trigger only) *)
Lemma emit_FI s g g2 code o pk pv :
  FIx (g_gid g) s -> statics s g -> RegOK None s g ->
  g_gid g2 = g_gid g -> g_remote g2 = g_remote g -> g_token g2 = g_token g -> g_con g2 = g_con g ->
  (o = Some (g_next g + 1) \/ o = None) ->
  let s' := emit s g2 code o pk pv in
  s_regs s' = s_regs s /\ FIx (g_gid g) s' /\
  (o = Some (g_next g + 1) -> forall g3, g_gid g3 = g_gid g -> g_remote g3 = g_remote g -> g_token g3 = g_token g ->
      g_con g3 = g_con g -> g_next g3 = g_next g + 1 -> RegOK None s' g3).
Proof.
  intros [HG Ho] [[g0 [Hg0 Hg0g]] Hst] [R1 R2 R3 R4 R5] E1 E2 E3 E4 Hobs.
  destruct R4 as [R4 R4n].
  assert (Hrng : 0 <= g_gid g < s_gidctr s) by (rewrite <- Hg0g; apply (g_rng s HG); exact Hg0).
  assert (Hnd : s_down s = false).
  { destruct (s_down s) eqn:Ed; [|reflexivity]. rewrite (g_s s HG Ed) in Hg0. destruct Hg0. }
  set (n := g_next g + 1) in *.
  assert (Hcons : forall m, m_observe m = o -> consec 0 (observes (prodl (g_gid g) s ++ [m]))).
  { intros m Em. unfold observes. rewrite map_app. fold (observes (prodl (g_gid g) s)). rewrite R4. cbn [map]. rewrite Em.
    unfold somes. destruct Hobs as [->| ->].
    - replace n with (0 + Z.of_nat (Z.to_nat n)) at 2 by lia. rewrite <- somes_from_snoc. apply consec_somes_from.
    - apply consec_somes_from_none. }
  unfold emit, send_message. cbn [m_remote m_token]. rewrite E1, E2, E3, E4.
  (* the common conclusion from the shape of the resulting state *)
  assert (Core : forall s' m (direct : bool),
    m_gid m = g_gid g -> m_remote m = g_remote g -> m_token m = g_token g -> m_observe m = o ->
    s_regs s' = s_regs s -> s_gidctr s' = s_gidctr s -> s_down s' = s_down s -> s_prod s' = m :: s_prod s ->
    (if direct then sends (s_hist s') = m :: sends (s_hist s) /\ s_backlog s' = s_backlog s /\ queuel (g_gid g) s = []
     else sends (s_hist s') = sends (s_hist s) /\ (exists x, s_backlog s' = s_backlog s ++ [(m, x)]) /\ m_mtype m = CON /\
          has_exchange s' (m_remote m) = true /\ g_con g = true) ->
    (forall r, has_exchange s r = true -> has_exchange s' r = true) ->
    piggy_shrinks s s' -> piggy_find s' (g_remote g) (g_token g) = None ->
    s_regs s' = s_regs s /\ FIx (g_gid g) s' /\
    (o = Some n -> forall g3, g_gid g3 = g_gid g -> g_remote g3 = g_remote g -> g_token g3 = g_token g ->
        g_con g3 = g_con g -> g_next g3 = n -> RegOK None s' g3)).
  { intros s' m direct Mg Mr Mt Mo F1 F2 F3 F4 Fd Fx Fp Fpn.
    assert (Hdir : direct = true -> queuel (g_gid g) s = []) by (intros ->; apply Fd).
    assert (GI' : GI s').
    { apply (GI_produce s s' m direct HG F1 F2 F3 F4); [| exact Fx | rewrite Mg; lia |].
      - destruct direct; [destruct Fd as (A & B & _); split; assumption|].
        destruct Fd as (A & B & C & D & _). repeat split; auto.
      - intros _. rewrite Mg. repeat split; [ | | exact R1 | exact Hdir | apply Hcons; exact Mo].
        + rewrite Mr. apply R5. apply prodl_In. split; [exact H | exact H0].
        + rewrite Mt. apply R5. apply prodl_In. split; [exact H | exact H0]. }
    split; [exact F1 | split; [split; [exact GI'|] |]].
    - intros g1 Hg1 Hne. rewrite F1 in Hg1. destruct (Ho g1 Hg1 Hne) as [Ro Po]. split; [|exact Po].
      apply (RegOK_gsame None s s' g1); [| exact Fp | exact Ro].
      unfold gsame. rewrite (prodl_cons (g_gid g1) s s' m F4). replace (m_gid m =? g_gid g1) with false by lia.
      split; [reflexivity|]. destruct direct.
      + destruct Fd as (A & B & _). rewrite (wirel_cons (g_gid g1) s s' m A). replace (m_gid m =? g_gid g1) with false by lia.
        split; [reflexivity | unfold queuel; rewrite B; reflexivity].
      + destruct Fd as (A & [x B] & _). split; [unfold wirel; rewrite A; reflexivity|].
        rewrite (queuel_snoc (g_gid g1) s s' m x B). replace (m_gid m =? g_gid g1) with false by lia. reflexivity.
    - intros -> g3 G1 G2 G3 G4 G5.
      assert (P' : prodl (g_gid g) s' = prodl (g_gid g) s ++ [m]).
      { rewrite (prodl_cons (g_gid g) s s' m F4). replace (m_gid m =? g_gid g) with true by lia. reflexivity. }
      constructor; rewrite ?G1, ?G2, ?G3, ?G4, ?G5.
      + rewrite P'. destruct direct.
        * destruct Fd as (A & B & C). rewrite (wirel_cons (g_gid g) s s' m A). replace (m_gid m =? g_gid g) with true by lia.
          assert (Eq : queuel (g_gid g) s' = queuel (g_gid g) s) by (unfold queuel; rewrite B; reflexivity).
          rewrite Eq, C, R1, C, !app_nil_r. reflexivity.
        * destruct Fd as (A & [x B] & _). assert (Ew : wirel (g_gid g) s' = wirel (g_gid g) s) by (unfold wirel; rewrite A; reflexivity).
          rewrite Ew, (queuel_snoc (g_gid g) s s' m x B). replace (m_gid m =? g_gid g) with true by lia. rewrite R1, app_assoc. reflexivity.
      + intros Hc. destruct direct.
        * destruct Fd as (A & B & C). unfold queuel. rewrite B. exact C.
        * destruct Fd as (_ & _ & _ & _ & Hcon). congruence.
      + intros _ Hf. rewrite Fpn in Hf. destruct Hf. reflexivity.
      + split; [|lia]. rewrite P'. unfold observes. rewrite map_app. fold (observes (prodl (g_gid g) s)). rewrite R4. cbn [map].
        rewrite Mo. replace (n + 1) with (n + 1) by lia. rewrite somes_snoc by lia. reflexivity.
      + intros m' Hm'. rewrite P' in Hm'. apply in_app_iff in Hm' as [Hm'|[<-|[]]]; [apply R5; exact Hm' | split; assumption]. }
  destruct (piggy_find s (g_remote g) (g_token g)) as [mid|] eqn:Epf.
  - (* piggy-backed: the first response of a registration *)
    set (m1 := set_type_mid _ ACK mid).
    match goal with |- context [send_initially ?x m1 _ false] => set (s2 := x) end.
    destruct (si_fields s2 m1 (g_gid g)) as (A1 & A2 & A3 & A4 & A5 & A6 & A7 & A8 & A9 & A10).
    apply (Core _ m1 true); try reflexivity; try (subst s2; fsimpl; first [rewrite A1 | rewrite A2 | rewrite A5 | rewrite A3]; reflexivity).
    + split; [rewrite A7; reflexivity | split; [rewrite A4; reflexivity|]].
      assert (P0 : prodl (g_gid g) s = []) by (apply R3; discriminate).
      rewrite R1 in P0. apply app_eq_nil in P0. tauto.
    + intros r Hr. apply A8. exact Hr.
    + apply piggy_find_some_shrinks. rewrite A6. subst s2. unfold cancel_timers, piggy_remove. fsimpl. eexists. reflexivity.
    + unfold piggy_find. rewrite A6. subst s2. unfold cancel_timers. fsimpl. apply (piggy_find_remove s).
  - set (t := if s_down s then NON else if g_con g then CON else NON).
    set (m1 := set_type_mid _ t (s_mid s)).
    set (sb := set_prod (set_mid s ((1 + s_mid s) mod 65536)) (m1 :: s_prod (set_mid s ((1 + s_mid s) mod 65536)))).
    assert (Hq0 : t <> CON \/ has_exchange s (g_remote g) = false -> queuel (g_gid g) s = []).
    { intros Hc. apply nil_if_empty. intros m' Hm'. pose proof Hm' as Hm2. apply gfilter_In in Hm' as [Hm' _].
      destruct Hc as [Hc|Hc].
      - assert (Hcon : g_con g = false). { subst t. rewrite Hnd in Hc. destruct (g_con g); [exfalso; apply Hc; reflexivity | reflexivity]. }
        rewrite (R2 Hcon) in Hm2. destruct Hm2.
      - apply in_map_iff in Hm' as [e [He1 He2]].
        assert (Hr : m_remote m' = g_remote g). { apply R5. rewrite R1. apply in_or_app. right. exact Hm2. }
        pose proof (g_j s HG Hnd (g_remote g) e He2) as J. rewrite He1 in J. rewrite (J Hr) in Hc. discriminate. }
    assert (Direct : s_regs (send_initially sb m1 (g_gid g) false) = s_regs s /\ FIx (g_gid g) (send_initially sb m1 (g_gid g) false) /\
      (o = Some n -> forall g3, g_gid g3 = g_gid g -> g_remote g3 = g_remote g -> g_token g3 = g_token g ->
        g_con g3 = g_con g -> g_next g3 = n -> RegOK None (send_initially sb m1 (g_gid g) false) g3) \/ True) by (right; exact I).
    clear Direct.
    assert (DirectOK : t <> CON \/ has_exchange s (g_remote g) = false ->
      s_regs (send_initially sb m1 (g_gid g) false) = s_regs s /\ FIx (g_gid g) (send_initially sb m1 (g_gid g) false) /\
      (o = Some n -> forall g3, g_gid g3 = g_gid g -> g_remote g3 = g_remote g -> g_token g3 = g_token g ->
        g_con g3 = g_con g -> g_next g3 = n -> RegOK None (send_initially sb m1 (g_gid g) false) g3)).
    { intros Hc. destruct (si_fields sb m1 (g_gid g)) as (A1 & A2 & A3 & A4 & A5 & A6 & A7 & A8 & A9 & A10).
      apply (Core _ m1 true); try reflexivity; try (first [rewrite A1 | rewrite A2 | rewrite A5 | rewrite A3]; reflexivity).
      + split; [rewrite A7; reflexivity | split; [rewrite A4; reflexivity | apply Hq0; exact Hc]].
      + intros r Hr. apply A8. exact Hr.
      + apply piggy_find_some_shrinks. rewrite A6. exists (fun _ => true). subst sb. fsimpl. clear. induction (s_piggy s) as [|a l IH]; cbn; congruence.
      + unfold piggy_find. rewrite A6. exact Epf. }
    destruct t eqn:Et; try (apply DirectOK; left; discriminate).
    change (has_exchange sb (m_remote m1)) with (has_exchange s (g_remote g)).
    destruct (has_exchange s (g_remote g)) eqn:Ex; [|apply DirectOK; right; reflexivity].
    apply (Core _ m1 false); try reflexivity.
    + split; [reflexivity | split; [eexists; reflexivity | split; [reflexivity | split; [exact Ex|]]]].
      subst t. rewrite Hnd in Et. destruct (g_con g); [reflexivity | discriminate].
    + tauto.
    + intros r tk Hf. exact Hf.
    + exact Epf.
Qed.

(* ------------------------------------------------------------------ registrations: write back, remove *)
Lemma map_key_put (g : reg) (l : list reg) :
  (forall g0, In g0 l -> g_gid g0 = g_gid g -> key g0 = key g) ->
  map key (map (fun g' => if g_gid g' =? g_gid g then g else g') l) = map key l.
Proof. induction l as [|x l IH]; intros H; cbn; [reflexivity|]. rewrite IH by (intros; apply H; [right|]; assumption).
  destruct (g_gid x =? g_gid g) eqn:E; [|reflexivity]. f_equal. symmetry. apply H; [left; reflexivity | lia]. Qed.
Lemma NoDup_map_filter {A B} (f : A -> B) (p : A -> bool) l : NoDup (map f l) -> NoDup (map f (filter p l)).
Proof. induction l as [|x l IH]; cbn; intros H; [constructor|]. inv H. destruct (p x); cbn; [|apply IH; assumption].
  constructor; [|apply IH; assumption]. intros Hi. apply H2. apply in_map_iff in Hi as [y [Hy Hi]]. apply filter_In in Hi as [Hi _].
  apply in_map_iff. exists y. tauto. Qed.

Lemma sameG_but_regs_RegOK ex s s' g : s_prod s' = s_prod s -> s_backlog s' = s_backlog s -> (forall g, 0 <= g -> wirel g s' = wirel g s) ->
  piggy_shrinks s s' -> 0 <= g_gid g -> RegOK ex s g -> RegOK ex s' g.
Proof.
  intros E3 E5 Ew Hp Hg [H1 H2 H3 H4 H5].
  assert (Ep : forall g, prodl g s' = prodl g s) by (intros; unfold prodl; rewrite E3; reflexivity).
  assert (Eq : forall g, queuel g s' = queuel g s) by (intros; unfold queuel; rewrite E5; reflexivity).
  constructor; rewrite ?Ep, ?(Ew _ Hg), ?Eq; try assumption.
  intros Hk Hf. apply H3; [exact Hk | apply Hp; exact Hf].
Qed.
(* the render task stores its copy [g'] of registration [g_gid g] back *)
Lemma put_back s g g' : FIx (g_gid g) s -> statics s g -> RegOK None s g ->
  g_gid g' = g_gid g -> g_remote g' = g_remote g -> g_token g' = g_token g -> g_con g' = g_con g -> g_next g' = g_next g -> PFok g' ->
  FI None (put_reg s g').
Proof.
  intros [HG Ho] [[g0 [Hg0 Hg0g]] Hst] R E1 E2 E3 E4 E5 Pf.
  assert (Hk : map key (s_regs (put_reg s g')) = map key (s_regs s)).
  { unfold put_reg. fsimpl. apply map_key_put. intros g1 H1 H2. rewrite E1 in H2. destruct (Hst g1 H1 H2) as (A & B & _). unfold key. congruence. }
  assert (GI' : GI (put_reg s g')).
  { destruct HG as [H1 H2 H3 H4 H5 H6 H7 H8 H9 H10 H11]. constructor; try assumption.
    - unfold put_reg. fsimpl. rewrite map_gid_put. exact H1.
    - unfold put_reg. fsimpl. intros g1 Hg1. apply in_map_iff in Hg1 as [y [Hy Hi]]. destruct (g_gid y =? g_gid g'); [|subst; apply H2; exact Hi].
      subst g1. rewrite E1, <- Hg0g. apply H2. exact Hg0.
    - rewrite Hk. exact H3.
    - intros Hd. rewrite (H8 Hd) in Hg0. destruct Hg0. }
  split; [exact GI'|]. intros g1 Hg1. unfold put_reg in Hg1. fsimpl. apply in_map_iff in Hg1 as [y [Hy Hi]].
  destruct (g_gid y =? g_gid g') eqn:Ey.
  - subst g1. split; [|exact Pf]. apply (sameG_but_regs_RegOK None s (put_reg s g')); [reflexivity | reflexivity | reflexivity | apply piggy_shrinks_refl; reflexivity | rewrite E1, <- Hg0g; apply (g_rng s HG); exact Hg0|].
    eapply RegOK_ext; [exact E1 | exact E2 | exact E3 | exact E4 | exact E5 | exact R].
  - subst g1. destruct (Ho y Hi ltac:(lia)) as [Ro Po]. split; [|exact Po].
    apply (sameG_but_regs_RegOK None s (put_reg s g')); [reflexivity | reflexivity | reflexivity | apply piggy_shrinks_refl; reflexivity | apply (g_rng s HG); exact Hi | exact Ro].
Qed.

(* removing registrations (on_end) keeps everything else intact *)
Lemma GI_filter_regs s s' (p : reg -> bool) : GI s -> s_regs s' = filter p (s_regs s) -> s_gidctr s' = s_gidctr s -> s_prod s' = s_prod s ->
  s_backlog s' = s_backlog s -> s_down s' = s_down s -> (forall g, 0 <= g -> wirel g s' = wirel g s) ->
  (forall r, has_exchange s r = true -> has_exchange s' r = true) -> GI s'.
Proof.
  intros [H1 H2 H3 H4 H5 H6 H7 H8 H9 H10 H11] E1 E2 E3 E5 E7 Ew Ex.
  assert (Ep : forall g, prodl g s' = prodl g s) by (intros; unfold prodl; rewrite E3; reflexivity).
  assert (Eq : forall g, queuel g s' = queuel g s) by (intros; unfold queuel; rewrite E5; reflexivity).
  constructor; rewrite ?E1, ?E2, ?E3, ?E5, ?E7; try assumption.
  - apply NoDup_map_filter. exact H1.
  - intros g0 Hg. apply filter_In in Hg as [Hg _]. apply H2. exact Hg.
  - apply NoDup_map_filter. exact H3.
  - intros g Hg. rewrite Ep, (Ew g Hg), Eq. apply H5. exact Hg.
  - intros Hd r e He Hr. apply Ex. apply (H6 Hd r e); [rewrite <- E5; exact He | exact Hr].
  - intros Hd. rewrite (H8 Hd). reflexivity.
  - intros g Hg. rewrite Ep. apply H10. exact Hg.
Qed.
Lemma FIx_remove s x : FIx x s -> FI None (remove_reg s x).
Proof.
  intros [HG Ho]. split.
  - eapply GI_filter_regs; [exact HG | reflexivity ..| auto | auto].
  - intros g0 Hg. unfold remove_reg in Hg. fsimpl. apply filter_In in Hg as [Hg Hne]. destruct (Ho g0 Hg ltac:(lia)) as [Ro Po].
    split; [|exact Po]. apply (sameG_but_regs_RegOK None s (remove_reg s x)); [reflexivity | reflexivity | reflexivity | apply piggy_shrinks_refl; reflexivity | apply (g_rng s HG); exact Hg | exact Ro].
Qed.
Lemma FI_remove ex s x : FI ex s -> FI ex (remove_reg s x).
Proof.
  intros [HG Ho]. split.
  - eapply GI_filter_regs; [exact HG | reflexivity ..| auto | auto].
  - intros g0 Hg. unfold remove_reg in Hg. fsimpl. apply filter_In in Hg as [Hg Hne]. destruct (Ho g0 Hg) as [Ro Po].
    split; [|exact Po]. apply (sameG_but_regs_RegOK ex s (remove_reg s x)); [reflexivity | reflexivity | reflexivity | apply piggy_shrinks_refl; reflexivity | apply (g_rng s HG); exact Hg | exact Ro].
Qed.
Lemma FI_to_FIx x s : FI None s -> FIx x s.
Proof. intros [HG Ho]. split; [exact HG|]. intros g0 Hg _. apply Ho. exact Hg. Qed.
Lemma statics_of_In s g : GI s -> In g (s_regs s) -> statics s g.
Proof. intros HG Hg. split; [exists g; tauto|]. intros g0 Hg0 E.
  assert (g0 = g); [|subst; tauto]. pose proof (g_nd s HG) as Hn. revert Hg Hg0 E Hn. generalize (s_regs s).
  induction l as [|y l IH]; cbn; [tauto|]. intros [->|Hg] [->|Hg0] E Hn; inv Hn; auto.
  - exfalso. apply H1. rewrite <- E. apply in_map. exact Hg0.
  - exfalso. apply H1. rewrite E. apply in_map. exact Hg. Qed.
Lemma cancel_cb_sameG s x : sameG s (cancel_cb s x). Proof. sameG. Qed.
Lemma log_sameG s o : (forall m, o <> OSend m false) -> sameG s (log s o).
Proof. intros H. sameG. intros g _. unfold wirel. fsimpl. rewrite sends_cons_other by exact H. reflexivity. Qed.

(* ------------------------------------------------------------------ the render task *)
Definition task_ok (cont : state -> reg -> state) : Prop :=
  forall s g, FIx (g_gid g) s -> statics s g -> RegOK None s g -> g_trig g = None -> FI None (cont s g).

Lemma after_response_FI cont s g res : task_ok cont -> g_trig g = None ->
  FIx (g_gid g) s -> statics s g -> RegOK None s g -> FI None (after_response cont s g res).
Proof.
  intros Hc Ht HF Hs R. unfold after_response. destruct res as [code pk pv|code pk pv].
  - destruct (g_late g || negb (successful code)).
    + destruct (emit_FI s g g code None pk pv HF Hs R eq_refl eq_refl eq_refl eq_refl (or_intror eq_refl)) as (_ & HF1 & _).
      eapply FI_frame; [apply cancel_cb_sameG | apply piggy_shrinks_refl; reflexivity | apply FIx_remove; exact HF1].
    + set (g1 := set_next g (g_next g + 1)).
      destruct (emit_FI s g g1 code (Some (g_next g1)) pk pv HF Hs R eq_refl eq_refl eq_refl eq_refl (or_introl eq_refl)) as (Er & HF1 & R1).
      apply Hc; [exact HF1 | eapply statics_frame; [exact Er | exact Hs] | apply R1; reflexivity | exact Ht].
  - assert (HF0 : FIx (g_gid g) (cancel_cb s (g_gid g))) by (eapply FIx_frame; [apply cancel_cb_sameG | apply piggy_shrinks_refl; reflexivity | exact HF]).
    assert (Hs0 : statics (cancel_cb s (g_gid g)) g) by exact Hs.
    assert (R0 : RegOK None (cancel_cb s (g_gid g)) g).
    { eapply RegOK_frame; [apply cancel_cb_sameG | apply piggy_shrinks_refl; reflexivity | | exact R].
      destruct Hs as [[g0 [A B]] _]. rewrite <- B. apply (g_rng s (proj1 HF)). exact A. }
    destruct (emit_FI _ g g code None pk pv HF0 Hs0 R0 eq_refl eq_refl eq_refl eq_refl (or_intror eq_refl)) as (_ & HF1 & _).
    apply FIx_remove. exact HF1.
Qed.
Lemma run_loop_idle f s g : g_trig g = None -> FIx (g_gid g) s -> statics s g -> RegOK None s g -> FI None (run_loop (S f) s g).
Proof. intros Ht HF Hs R. cbn [run_loop]. rewrite Ht. apply (put_back s g); auto. exact I. Qed.
Lemma run_loop_FI f s g : FIx (g_gid g) s -> statics s g -> RegOK None s g -> FI None (run_loop (S (S f)) s g).
Proof.
  intros HF Hs R. cbn [run_loop]. destruct (g_trig g) as [tv|] eqn:Et; [|apply (put_back s g); auto; exact I].
  assert (Hc : task_ok (run_loop (S f))) by (intros s1 g1 A B C D; apply run_loop_idle; assumption).
  set (g1 := set_trig g None (g_late g)).
  assert (R1 : RegOK None s g1) by (eapply RegOK_ext; [| | | | | exact R]; reflexivity).
  destruct tv as [|code k].
  - set (s1 := log s _).
    assert (HF1 : FIx (g_gid g1) s1) by (eapply FIx_frame; [apply log_sameG; discriminate | apply piggy_shrinks_refl; reflexivity | exact HF]).
    assert (R2 : RegOK None s1 g1).
    { eapply RegOK_frame; [apply log_sameG; discriminate | apply piggy_shrinks_refl; reflexivity | | exact R1].
      destruct Hs as [[g0 [A B]] _]. cbn [g1 g_gid set_trig]. rewrite <- B. apply (g_rng s (proj1 HF)). exact A. }
    destruct (s_gate s1).
    + apply (put_back s1 g1); auto. exact I.
    + apply after_response_FI; auto.
  - apply after_response_FI; auto.
Qed.
Lemma first_render_done_FI s g res : g_next g = -1 ->
  FIx (g_gid g) s -> statics s g -> RegOK None s g -> FI None (first_render_done s g res).
Proof.
  intros Hn HF Hs R. unfold first_render_done. destruct res as [code pk pv|code pk pv].
  - destruct (negb (successful code)).
    + destruct (emit_FI s g g code None pk pv HF Hs R eq_refl eq_refl eq_refl eq_refl (or_intror eq_refl)) as (_ & HF1 & _).
      eapply FI_frame; [apply cancel_cb_sameG | apply piggy_shrinks_refl; reflexivity | apply FIx_remove; exact HF1].
    + set (g1 := set_next g 0).
      assert (Ho : Some 0 = Some (g_next g + 1)) by (rewrite Hn; reflexivity).
      destruct (emit_FI s g g1 code (Some 0) pk pv HF Hs R eq_refl eq_refl eq_refl eq_refl (or_introl Ho)) as (Er & HF1 & R1).
      apply (run_loop_FI 0 _ g1); [exact HF1 | eapply statics_frame; [exact Er | exact Hs] | apply R1; try reflexivity; [exact Ho | cbn; lia]].
  - assert (HF0 : FIx (g_gid g) (cancel_cb s (g_gid g))) by (eapply FIx_frame; [apply cancel_cb_sameG | apply piggy_shrinks_refl; reflexivity | exact HF]).
    assert (Hs0 : statics (cancel_cb s (g_gid g)) g) by exact Hs.
    assert (R0 : RegOK None (cancel_cb s (g_gid g)) g).
    { eapply RegOK_frame; [apply cancel_cb_sameG | apply piggy_shrinks_refl; reflexivity | | exact R].
      destruct Hs as [[g0 [A B]] _]. rewrite <- B. apply (g_rng s (proj1 HF)). exact A. }
    destruct (emit_FI _ g g code None pk pv HF0 Hs0 R0 eq_refl eq_refl eq_refl eq_refl (or_intror eq_refl)) as (_ & HF1 & _).
    apply FIx_remove. exact HF1.
Qed.

Lemma after_response_FI_any cont s g res : (forall s g, FIx (g_gid g) s -> statics s g -> RegOK None s g -> FI None (cont s g)) ->
  FIx (g_gid g) s -> statics s g -> RegOK None s g -> FI None (after_response cont s g res).
Proof.
  intros Hc HF Hs R. unfold after_response. destruct res as [code pk pv|code pk pv].
  - destruct (g_late g || negb (successful code)).
    + destruct (emit_FI s g g code None pk pv HF Hs R eq_refl eq_refl eq_refl eq_refl (or_intror eq_refl)) as (_ & HF1 & _).
      eapply FI_frame; [apply cancel_cb_sameG | apply piggy_shrinks_refl; reflexivity | apply FIx_remove; exact HF1].
    + set (g1 := set_next g (g_next g + 1)).
      destruct (emit_FI s g g1 code (Some (g_next g1)) pk pv HF Hs R eq_refl eq_refl eq_refl eq_refl (or_introl eq_refl)) as (Er & HF1 & R1).
      apply Hc; [exact HF1 | eapply statics_frame; [exact Er | exact Hs] | apply R1; reflexivity].
  - assert (HF0 : FIx (g_gid g) (cancel_cb s (g_gid g))) by (eapply FIx_frame; [apply cancel_cb_sameG | apply piggy_shrinks_refl; reflexivity | exact HF]).
    assert (Hs0 : statics (cancel_cb s (g_gid g)) g) by exact Hs.
    assert (R0 : RegOK None (cancel_cb s (g_gid g)) g).
    { eapply RegOK_frame; [apply cancel_cb_sameG | apply piggy_shrinks_refl; reflexivity | | exact R].
      destruct Hs as [[g0 [A B]] _]. rewrite <- B. apply (g_rng s (proj1 HF)). exact A. }
    destruct (emit_FI _ g g code None pk pv HF0 Hs0 R0 eq_refl eq_refl eq_refl eq_refl (or_intror eq_refl)) as (_ & HF1 & _).
    apply FIx_remove. exact HF1.
Qed.

(* ------------------------------------------------------------------ message layer events *)
(* pretend endpoint [r] has an exchange: GI of the padded state = GI without the backlog/exchange clause for [r] *)
Definition pad (s : state) (r : Z) : state := set_exch s (s_exch s ++ [mkexch r (-1) (-1)]).
Lemma has_exchange_pad s r r' : has_exchange (pad s r) r' = has_exchange s r' || (r =? r').
Proof. unfold pad, has_exchange. fsimpl. rewrite existsb_app. cbn. rewrite orb_false_r. reflexivity. Qed.

Definition drop1 (r : Z) := fix drop (l : list (msg * Z)) := match l with [] => [] | e :: l' => if m_remote (fst e) =? r then l' else e :: drop l' end.
Lemma drop1_incl r l x : In x (drop1 r l) -> In x l.
Proof. induction l as [|e l IH]; [tauto|]. cbn. destruct (m_remote (fst e) =? r); cbn; [tauto|]. intros [H|H]; [tauto | right; apply IH; exact H]. Qed.
Lemma drop1_same_gid r l m x g : find (fun e => m_remote (fst e) =? r) l = Some (m, x) -> m_gid m = g ->
  (forall e, In e l -> m_gid (fst e) = g -> m_remote (fst e) = r) ->
  gfilter g (map fst l) = m :: gfilter g (map fst (drop1 r l)).
Proof.
  induction l as [|e l IH]; cbn [find]; [discriminate|]. intros Hf Hg Hr. cbn [drop1 map]. destruct (m_remote (fst e) =? r) eqn:E.
  - inversion Hf; subst e. cbn [fst]. rewrite gfilter_cons_eq by exact Hg. reflexivity.
  - assert (m_gid (fst e) <> g). { intros H. rewrite (Hr e (or_introl eq_refl) H) in E. lia. }
    cbn [map]. rewrite !gfilter_cons_ne by assumption. apply IH; [exact Hf | exact Hg | intros; apply Hr; [right|]; assumption]. Qed.
Lemma drop1_other_gid r l m x g : find (fun e => m_remote (fst e) =? r) l = Some (m, x) -> m_gid m <> g ->
  gfilter g (map fst (drop1 r l)) = gfilter g (map fst l).
Proof.
  induction l as [|e l IH]; cbn [find]; [discriminate|]. intros Hf Hg. cbn [drop1 map]. destruct (m_remote (fst e) =? r) eqn:E.
  - inversion Hf; subst e. cbn [fst]. rewrite gfilter_cons_ne by exact Hg. reflexivity.
  - cbn [map]. destruct (Z.eq_dec (m_gid (fst e)) g) as [Eg|Eg].
    + rewrite !gfilter_cons_eq by exact Eg. f_equal. apply IH; assumption.
    + rewrite !gfilter_cons_ne by exact Eg. apply IH; assumption. Qed.
Lemma queuel_in_prod s g m : GI s -> 0 <= g -> In m (queuel g s) -> In m (s_prod s) /\ m_gid m = g.
Proof. intros HG Hg Hm. destruct (g_f1 s HG g Hg) as [D E]. apply prodl_In. rewrite E. apply in_or_app. right. apply in_or_app. left. exact Hm. Qed.

(* _continue_backlog: the head of the endpoint's queue goes out; per registration this is the head of its own queue *)
Lemma continue_backlog_FI s r : GI (pad s r) -> (forall g0, In g0 (s_regs s) -> RegOK None s g0 /\ PFok g0) -> FI None (continue_backlog s r).
Proof.
  intros HP Ho.
  assert (Hrest : forall s', s_regs s' = s_regs s -> s_gidctr s' = s_gidctr s -> s_prod s' = s_prod s -> s_backlog s' = s_backlog s -> s_down s' = s_down s ->
     (forall g, 0 <= g -> wirel g s' = wirel g s) -> (forall r', has_exchange (pad s r) r' = true -> r' <> r -> has_exchange s' r' = true) ->
     (s_down s = false -> Jr s' r) -> GI s').
  { intros s' E1 E2 E3 E5 E7 Ew Ex Hj. destruct HP as [H1 H2 H3 H4 H5 H6 H7 H8 H9 H10 H11].
    assert (Ep : forall g, prodl g s' = prodl g s) by (intros; unfold prodl; rewrite E3; reflexivity).
    assert (Eq : forall g, queuel g s' = queuel g s) by (intros; unfold queuel; rewrite E5; reflexivity).
    constructor; rewrite ?E1, ?E2, ?E3, ?E5, ?E7; try assumption.
    - intros g Hg. rewrite Ep, (Ew g Hg), Eq. apply (H5 g Hg).
    - intros Hd r' e He Hr. destruct (Z.eq_dec r' r) as [->|Hne]; [apply (Hj Hd e He Hr)|].
      apply Ex; [|exact Hne]. apply (H6 Hd r' e); [change (In e (s_backlog s)); rewrite <- E5; exact He | exact Hr].
    - intros g Hg. rewrite Ep. apply (H10 g Hg). }
  unfold continue_backlog. destruct (has_exchange s r) eqn:Ex.
  - split; [|exact Ho]. apply Hrest; auto. + intros r' H Hne. rewrite has_exchange_pad in H. replace (r =? r') with false in H by lia. rewrite orb_false_r in H. exact H.
    + intros _ e _ _. exact Ex.
  - destruct (find (fun e => m_remote (fst e) =? r) (s_backlog s)) as [[m x]|] eqn:Ef.
    2:{ split; [|exact Ho]. apply Hrest; auto.
        + intros r' H Hne. rewrite has_exchange_pad in H. replace (r =? r') with false in H by lia. rewrite orb_false_r in H. exact H.
        + intros _ e He Hr. eapply find_none in Ef; [|exact He]. cbn in Ef. lia. }
    pose proof (find_some _ _ Ef) as [Em Emr]. cbn [fst] in Emr. apply Z.eqb_eq in Emr.
    assert (Hcon : m_mtype m = CON) by (apply (g_t _ HP (m, x)); exact Em).
    fold (drop1 r (s_backlog s)).
    set (s1 := set_backlog s (drop1 r (s_backlog s))).
    destruct (si_fields s1 m x) as (A1 & A2 & A3 & A4 & A5 & A6 & A7 & A8 & A9 & A10).
    set (s' := send_initially s1 m x false) in *.
    (* registrations sharing the released message's number *)
    assert (Hsame : 0 <= m_gid m -> forall e, In e (s_backlog s) -> m_gid (fst e) = m_gid m -> m_remote (fst e) = r).
    { intros Hg e He Heg. assert (Q1 : In (fst e) (queuel (m_gid m) s)) by (apply gfilter_In; split; [apply in_map; exact He | exact Heg]).
      assert (Q2 : In m (queuel (m_gid m) s)) by (apply gfilter_In; split; [apply (in_map fst _ (m, x)); exact Em | reflexivity]).
      assert (GP : GI (pad s r)) by exact HP.
      destruct (queuel_in_prod (pad s r) _ _ GP Hg Q1) as [P1 _]. destruct (queuel_in_prod (pad s r) _ _ GP Hg Q2) as [P2 _].
      destruct (g_kk _ HP (fst e) m P1 P2 Heg ltac:(lia)) as [Hr _]. rewrite Hr. lia. }
    assert (Wl : forall g, 0 <= g -> wirel g s' = if m_gid m =? g then wirel g s ++ [m] else wirel g s).
    { intros g _. apply (wirel_cons g s1 s' m). exact A7. }
    assert (Ql : forall g, 0 <= g -> queuel g s = if m_gid m =? g then m :: queuel g s' else queuel g s').
    { intros g Hg. unfold queuel. rewrite A4. subst s1. fsimpl. destruct (m_gid m =? g) eqn:Eg.
      - apply (drop1_same_gid r _ m x g Ef); [lia|]. intros e He Heg. apply Hsame; [lia | exact He | lia].
      - symmetry. apply (drop1_other_gid r _ m x g Ef). lia. }
    assert (Pl : forall g, prodl g s' = prodl g s) by (intros; unfold prodl; rewrite A3; reflexivity).
    assert (GI' : GI s').
    { destruct HP as [H1 H2 H3 H4 H5 H6 H7 H8 H9 H10 H11]. constructor; rewrite ?A1, ?A2, ?A3, ?A5; try assumption.
      - intros g Hg. rewrite Pl, (Wl g Hg). destruct (H5 g Hg) as [D HD]. change (prodl g (pad s r)) with (prodl g s) in HD.
        change (wirel g (pad s r)) with (wirel g s) in HD. change (queuel g (pad s r)) with (queuel g s) in HD.
        rewrite (Ql g Hg) in HD. exists D. destruct (m_gid m =? g); [rewrite HD, <- app_assoc; reflexivity | exact HD].
      - intros Hd r' e He Hr. rewrite A4 in He. subst s1. fsimpl. apply drop1_incl in He.
        destruct (Z.eq_dec r' r) as [->|Hne]. { rewrite <- Emr. apply A9. exact Hcon. }
        apply A8. pose proof (H6 Hd r' e He Hr) as J. rewrite has_exchange_pad in J. replace (r =? r') with false in J by lia. rewrite orb_false_r in J. exact J.
      - intros e He. rewrite A4 in He. subst s1. fsimpl. apply drop1_incl in He. apply H7. exact He.
      - intros g Hg. rewrite Pl. apply (H10 g Hg). }
    split; [exact GI'|]. intros g0 Hg0. rewrite A1 in Hg0. destruct (Ho g0 Hg0) as [[R1 R2 R3 R4 R5] Po]. split; [|exact Po].
    assert (Hg0r : 0 <= g_gid g0) by (apply (g_rng _ HP); exact Hg0).
    constructor; rewrite ?Pl; try assumption.
    + rewrite (Wl _ Hg0r), R1, (Ql _ Hg0r). destruct (m_gid m =? g_gid g0); [rewrite <- app_assoc; reflexivity | reflexivity].
    + intros Hc. specialize (R2 Hc). rewrite (Ql _ Hg0r) in R2. destruct (m_gid m =? g_gid g0); [discriminate | exact R2].
    + intros Hk Hf. apply R3; [exact Hk|]. unfold piggy_find in *. rewrite A6 in Hf. exact Hf.
Qed.

(* a transport error / time-out for endpoint [r]: its exchanges and queue vanish; no registration of [r] is left *)
Lemma filter_id_forall {A} (p : A -> bool) l : (forall x, In x l -> p x = true) -> filter p l = l.
Proof. induction l as [|x l IH]; intros H; cbn; [reflexivity|]. rewrite (H x (or_introl eq_refl)). f_equal. apply IH. intros; apply H; right; assumption. Qed.
Lemma filter_all_or_none {A} (f : A -> Z) r (l : list A) : (forall a b, In a l -> In b l -> f a = f b) ->
  filter (fun a => negb (f a =? r)) l = l \/ filter (fun a => negb (f a =? r)) l = [].
Proof. destruct l as [|a0 l]; [left; reflexivity|]. intros H. destruct (f a0 =? r) eqn:E.
  - right. apply nil_if_empty. intros x Hx. apply filter_In in Hx as [Hx Hp]. rewrite (H x a0 Hx (or_introl eq_refl)) in Hp. rewrite E in Hp. discriminate.
  - left. apply filter_id_forall. intros x Hx. rewrite (H x a0 Hx (or_introl eq_refl)), E. reflexivity. Qed.
Lemma queuel_purge g s r : queuel g (purge_backlog s r) = filter (fun m => negb (m_remote m =? r)) (queuel g s).
Proof. unfold queuel, purge_backlog, gfilter. fsimpl. induction (s_backlog s) as [|e l IH]; [reflexivity|]. cbn [filter map].
  destruct (m_remote (fst e) =? r) eqn:E; cbn [negb map filter]; destruct (m_gid (fst e) =? g) eqn:Eg; cbn [filter]; rewrite ?E; cbn [negb]; rewrite IH; reflexivity. Qed.
Lemma purge_FI s s' r : FI None s -> (forall g0, In g0 (s_regs s) -> g_remote g0 <> r) ->
  s_regs s' = s_regs s -> s_gidctr s' = s_gidctr s -> s_prod s' = s_prod s -> s_down s' = s_down s -> s_piggy s' = s_piggy s ->
  (forall g, 0 <= g -> wirel g s' = wirel g s) -> s_backlog s' = s_backlog (purge_backlog s r) ->
  (forall r', r' <> r -> has_exchange s r' = true -> has_exchange s' r' = true) -> FI None s'.
Proof.
  intros [HG Ho] Hnr E1 E2 E3 E7 E8 Ew E5 Ex.
  assert (Pl : forall g, prodl g s' = prodl g s) by (intros; unfold prodl; rewrite E3; reflexivity).
  assert (Ql : forall g, queuel g s' = filter (fun m => negb (m_remote m =? r)) (queuel g s)).
  { intros g. rewrite <- queuel_purge. unfold queuel. rewrite E5. reflexivity. }
  assert (GI' : GI s').
  { pose proof HG as [H1 H2 H3 H4 H5 H6 H7 H8 H9 H10 H11]. constructor; rewrite ?E1, ?E2, ?E3, ?E7; try assumption.
    - intros g Hg. rewrite Pl, (Ew g Hg), Ql. destruct (H5 g Hg) as [D HD].
      destruct (filter_all_or_none m_remote r (queuel g s)) as [F|F].
      + intros a b Ia Ib. destruct (queuel_in_prod s g a HG Hg Ia) as [Pa Ga]. destruct (queuel_in_prod s g b HG Hg Ib) as [Pb Gb].
        apply (H9 a b Pa Pb); lia.
      + rewrite F. exists D. exact HD.
      + rewrite F. exists (queuel g s ++ D). exact HD.
    - intros Hd r' e He Hr. rewrite E5 in He. unfold purge_backlog in He. fsimpl. apply filter_In in He as [He Hp].
      apply Ex; [lia | apply (H6 Hd r' e He Hr)].
    - intros e He. rewrite E5 in He. unfold purge_backlog in He. fsimpl. apply filter_In in He as [He _]. apply H7. exact He.
    - intros g Hg. rewrite Pl. apply (H10 g Hg). }
  split; [exact GI'|]. intros g0 Hg0. rewrite E1 in Hg0. destruct (Ho g0 Hg0) as [[R1 R2 R3 R4 R5] Po]. split; [|exact Po].
  assert (Hg0r : 0 <= g_gid g0) by (apply (g_rng _ HG); exact Hg0).
  assert (Qk : queuel (g_gid g0) s' = queuel (g_gid g0) s).
  { rewrite Ql. apply filter_id_forall. intros m Hm.
    assert (Hr : m_remote m = g_remote g0) by (apply R5; rewrite R1; apply in_or_app; right; exact Hm).
    pose proof (Hnr g0 Hg0). lia. }
  constructor; rewrite ?Pl, ?(Ew _ Hg0r), ?Qk; try assumption.
  intros Hk Hf. apply R3; [exact Hk|]. unfold piggy_find in *. rewrite E8 in Hf. exact Hf.
Qed.

(* ------------------------------------------------------------------ remaining building blocks *)
Lemma FI_stop ex s x : FI ex s -> FI ex (stop s x).
Proof. intros H. unfold stop. destruct (find_reg s x); [|exact H].
  apply (FI_frame ex (remove_reg s x)); [sameG | apply piggy_shrinks_refl; reflexivity | apply FI_remove; exact H]. Qed.
Lemma FI_fold_stop ex l : forall s, FI ex s -> FI ex (fold_left stop l s).
Proof. induction l as [|x l IH]; intros s H; cbn [fold_left]; [exact H | apply IH, FI_stop, H]. Qed.
Lemma FI_flush ex s : FI ex s -> FI ex (flush_cancels s).
Proof. intros H. unfold flush_cancels.
  assert (G : forall l s0, FI ex s0 -> FI ex (fold_left cancel_cb l s0)).
  { induction l as [|x l IH]; intros s0 H0; cbn [fold_left]; [exact H0|]. apply IH.
    apply (FI_frame ex s0); [apply cancel_cb_sameG | apply piggy_shrinks_refl; reflexivity | exact H0]. }
  apply (FI_frame ex (fold_left cancel_cb (s_cancelq s) s)); [sameG | apply piggy_shrinks_refl; reflexivity | apply G; exact H]. Qed.
Lemma fold_stop_regs l : forall s g0, In g0 (s_regs (fold_left stop l s)) -> In g0 (s_regs s) /\ ~ In (g_gid g0) l.
Proof. induction l as [|x l IH]; intros s g0 H; cbn [fold_left] in H; [tauto|]. apply IH in H as [H1 H2].
  unfold stop in H1. destruct (find_reg s x) eqn:E.
  - unfold remove_reg in H1. fsimpl. apply filter_In in H1 as [H1 H3]. split; [exact H1|]. intros [->|Hi]; [lia | tauto].
  - split; [exact H1|]. intros [->|Hi]; [|tauto]. apply find_reg_None in E. apply E. apply in_map. exact H1. Qed.
Lemma stop_remote_none s r g0 : In g0 (s_regs (stop_remote s r)) -> In g0 (s_regs s) /\ g_remote g0 <> r.
Proof. intros H. apply fold_stop_regs in H as [H1 H2]. split; [exact H1|]. intros Hr. apply H2. apply in_map. apply filter_In. split; [exact H1 | lia]. Qed.
Lemma has_exchange_filter_other s (p : exch -> bool) r' : (forall x, x_remote x = r' -> p x = true) ->
  existsb (fun y => x_remote y =? r') (filter p (s_exch s)) = has_exchange s r'.
Proof. intros H. unfold has_exchange. induction (s_exch s) as [|x l IH]; [reflexivity|]. cbn [filter existsb].
  destruct (x_remote x =? r') eqn:E.
  - rewrite (H x) by lia. cbn. rewrite E. reflexivity.
  - destruct (p x); cbn; rewrite ?E, IH; reflexivity. Qed.

(* a response that belongs to no registration (plain request), or the empty ACK *)
Lemma FI_other_send ex s s' : FI ex s ->
  s_regs s' = s_regs s -> s_gidctr s' = s_gidctr s -> s_down s' = s_down s ->
  (s_prod s' = s_prod s \/ exists m, m_gid m = -1 /\ s_prod s' = m :: s_prod s) ->
  (forall g, 0 <= g -> wirel g s' = wirel g s) ->
  (s_backlog s' = s_backlog s \/ exists m x, m_gid m = -1 /\ m_mtype m = CON /\ has_exchange s' (m_remote m) = true /\ s_backlog s' = s_backlog s ++ [(m, x)]) ->
  (forall r, has_exchange s r = true -> has_exchange s' r = true) -> piggy_shrinks s s' -> FI ex s'.
Proof.
  intros [HG Ho] E1 E2 E7 E3 Ew E5 Ex Hp.
  assert (Pl : forall g, 0 <= g -> prodl g s' = prodl g s).
  { intros g Hg. destruct E3 as [E3|[m [Mg E3]]]; [unfold prodl; rewrite E3; reflexivity|].
    rewrite (prodl_cons g s s' m E3). replace (m_gid m =? g) with false by lia. reflexivity. }
  assert (Ql : forall g, 0 <= g -> queuel g s' = queuel g s).
  { intros g Hg. destruct E5 as [E5|[m [x (Mg & _ & _ & E5)]]]; [unfold queuel; rewrite E5; reflexivity|].
    rewrite (queuel_snoc g s s' m x E5). replace (m_gid m =? g) with false by lia. reflexivity. }
  assert (GI' : GI s').
  { pose proof HG as [H1 H2 H3 H4 H5 H6 H7 H8 H9 H10 H11]. constructor; rewrite ?E1, ?E2, ?E7; try assumption.
    - intros m Hm. destruct E3 as [E3|[m0 [Mg E3]]]; rewrite E3 in Hm; [apply H4; exact Hm|].
      destruct Hm as [<-|Hm]; [|apply H4; exact Hm]. rewrite Mg. lia.
    - intros g Hg. rewrite (Pl g Hg), (Ew g Hg), (Ql g Hg). apply (H5 g Hg).
    - intros Hd r e He Hr. destruct E5 as [E5|[m [x (Mg & Mc & Mx & E5)]]]; rewrite E5 in He.
      + apply Ex. apply (H6 Hd r e He Hr).
      + apply in_app_iff in He as [He|[<-|[]]]; [apply Ex; apply (H6 Hd r e He Hr)|]. cbn in Hr. subst r. exact Mx.
    - intros e He. destruct E5 as [E5|[m [x (Mg & Mc & Mx & E5)]]]; rewrite E5 in He; [apply H7; exact He|].
      apply in_app_iff in He as [He|[<-|[]]]; [apply H7; exact He | exact Mc].
    - intros m1 m2 I1 I2 Eg Hg0. destruct E3 as [E3|[m0 [Mg E3]]]; rewrite E3 in I1, I2; [apply H9; assumption|].
      destruct I1 as [<-|I1]; [lia|]. destruct I2 as [<-|I2]; [lia|]. apply H9; assumption.
    - intros g Hg. rewrite (Pl g Hg). apply (H10 g Hg). }
  split; [exact GI'|]. intros g0 Hg0. rewrite E1 in Hg0. destruct (Ho g0 Hg0) as [[R1 R2 R3 R4 R5] Po]. split; [|exact Po].
  assert (Hg0r : 0 <= g_gid g0) by (apply (g_rng _ HG); exact Hg0).
  constructor; rewrite ?(Pl _ Hg0r), ?(Ew _ Hg0r), ?(Ql _ Hg0r); try assumption.
  intros Hk Hf. apply R3; [exact Hk | apply Hp; exact Hf].
Qed.

Lemma plain_send_FI ex s m con : FI ex s -> m_gid m = -1 -> FI ex (send_message s m con (-1)).
Proof.
  intros H Mg. unfold send_message. destruct (piggy_find s (m_remote m) (m_token m)) as [mid|].
  - set (m1 := set_type_mid m ACK mid). match goal with |- context [send_initially ?x m1 _ false] => set (s2 := x) end.
    destruct (si_fields s2 m1 (-1)) as (A1 & A2 & A3 & A4 & A5 & A6 & A7 & A8 & A9 & A10).
    apply (FI_other_send ex s); [exact H | rewrite A1; reflexivity | rewrite A2; reflexivity | rewrite A5; reflexivity | | | left; rewrite A4; reflexivity | | ].
    + right. exists m1. split; [exact Mg | rewrite A3; reflexivity].
    + intros g Hg. rewrite (wirel_cons g s2 _ m1 A7). replace (m_gid m1 =? g) with false by (cbn; lia). reflexivity.
    + intros r Hr. apply A8. exact Hr.
    + apply piggy_find_some_shrinks. rewrite A6. subst s2. unfold cancel_timers, piggy_remove. fsimpl. eexists. reflexivity.
  - set (t := if s_down s then NON else if con then CON else NON). set (m1 := set_type_mid m t (s_mid s)).
    set (sb := set_prod (set_mid s ((1 + s_mid s) mod 65536)) (m1 :: s_prod (set_mid s ((1 + s_mid s) mod 65536)))).
    assert (D : FI ex (send_initially sb m1 (-1) false)).
    { destruct (si_fields sb m1 (-1)) as (A1 & A2 & A3 & A4 & A5 & A6 & A7 & A8 & A9 & A10).
      apply (FI_other_send ex s); [exact H | rewrite A1; reflexivity | rewrite A2; reflexivity | rewrite A5; reflexivity | | | left; rewrite A4; reflexivity | | ].
      + right. exists m1. split; [exact Mg | rewrite A3; reflexivity].
      + intros g Hg. rewrite (wirel_cons g sb _ m1 A7). replace (m_gid m1 =? g) with false by (cbn; lia). reflexivity.
      + intros r Hr. apply A8. exact Hr.
      + apply piggy_shrinks_refl. rewrite A6. reflexivity. }
    destruct t eqn:Et; try exact D.
    change (has_exchange sb (m_remote m1)) with (has_exchange s (m_remote m)).
    destruct (has_exchange s (m_remote m)) eqn:Ex; [|exact D].
    apply (FI_other_send ex s); [exact H | reflexivity | reflexivity | reflexivity | | intros; reflexivity | | intros r Hr; exact Hr | apply piggy_shrinks_refl; reflexivity].
    + right. exists m1. split; [exact Mg | reflexivity].
    + right. exists m1, (-1). repeat split; auto.
Qed.
Lemma plain_FI ex s r tok con : FI ex s -> FI ex (plain s r tok con).
Proof. intros H. unfold plain.
  assert (H1 : FI ex (log s (ORender (-1) (s_version s)))) by (apply (FI_frame ex s); [apply log_sameG; discriminate | apply piggy_shrinks_refl; reflexivity | exact H]).
  destruct (render_outcome _ _); apply plain_send_FI; auto. Qed.

Lemma NoDup_snoc_gen {A} (x : A) l : NoDup l -> ~ In x l -> NoDup (l ++ [x]).
Proof. induction l as [|y l IH]; cbn; intros Hn Hi. { constructor; [tauto | constructor]. }
  inv Hn. constructor.
  - rewrite in_app_iff. cbn. intros [H|[H|[]]]; [tauto | subst; tauto].
  - apply IH; tauto. Qed.
Lemma accept_FI s r tok con : FI None s -> s_down s = false -> (forall g0, In g0 (s_regs s) -> key g0 <> (r, tok)) -> FI None (accept s r tok con).
Proof.
  intros [HG Ho] Hd Hk. unfold accept.
  set (g := mkreg r tok (s_gidctr s) con PWait (-1) None false).
  match goal with |- context [if s_gate ?x then _ else _] => set (s2 := x) end.
  assert (Er : s_regs s2 = s_regs s ++ [g]) by reflexivity.
  assert (Ec : s_gidctr s2 = s_gidctr s + 1) by reflexivity.
  assert (Ep : s_prod s2 = s_prod s) by reflexivity.
  assert (Eb : s_backlog s2 = s_backlog s) by reflexivity.
  assert (Ed : s_down s2 = s_down s) by reflexivity.
  assert (Ex : s_exch s2 = s_exch s) by reflexivity.
  assert (Epg : s_piggy s2 = s_piggy s) by reflexivity.
  assert (W : forall g', wirel g' s2 = wirel g' s).
  { intros. unfold wirel. replace (sends (s_hist s2)) with (sends (s_hist s)) by reflexivity. reflexivity. }
  clearbody s2.
  assert (Pl : forall g', prodl g' s2 = prodl g' s) by (intros; unfold prodl; rewrite Ep; reflexivity).
  assert (Ql : forall g', queuel g' s2 = queuel g' s) by (intros; unfold queuel; rewrite Eb; reflexivity).
  assert (P0 : prodl (s_gidctr s) s = []).
  { apply nil_if_empty. intros m Hm. apply prodl_In in Hm as [Hm Hg]. pose proof (g_prng s HG m Hm). lia. }
  assert (G2 : GI s2).
  { pose proof HG as [H1 H2 H3 H4 H5 H6 H7 H8 H9 H10 H11]. constructor; rewrite ?Er, ?Ec, ?Ep, ?Eb, ?Ed; try assumption.
    - rewrite map_app. apply NoDup_snoc; [exact H1|]. intros Hi. apply in_map_iff in Hi as [y [Hy Hi]]. pose proof (H2 y Hi). cbn in Hy. lia.
    - intros g0 Hg0. apply in_app_iff in Hg0 as [Hg0|[<-|[]]]; [pose proof (H2 g0 Hg0); lia | cbn; lia].
    - rewrite map_app. apply NoDup_snoc_gen; [exact H3|]. intros Hi. apply in_map_iff in Hi as [y [Hy Hi]]. apply (Hk y Hi). exact Hy.
    - intros m Hm. pose proof (H4 m Hm). lia.
    - intros g' Hg'. rewrite Pl, W, Ql. apply (H5 g' Hg').
    - intros Hd' r' e He Hr. unfold has_exchange. rewrite Ex. apply (H6 Hd r' e); [rewrite <- Eb; exact He | exact Hr].
    - intros Hd'. rewrite Hd in Hd'. discriminate.
    - intros g' Hg'. rewrite Pl. apply (H10 g' Hg').
    - lia. }
  assert (HF : FIx (g_gid g) s2).
  { split; [exact G2|]. intros g0 Hg0 Hne. rewrite Er in Hg0. apply in_app_iff in Hg0 as [Hg0|[<-|[]]]; [|exfalso; apply Hne; reflexivity].
    destruct (Ho g0 Hg0) as [Ro Po]. split; [|exact Po].
    apply (sameG_but_regs_RegOK None s s2); [exact Ep | exact Eb | intros; apply W | apply piggy_shrinks_refl; exact Epg | apply (g_rng s HG); exact Hg0 | exact Ro]. }
  assert (Hs : statics s2 g).
  { split; [exists g; split; [rewrite Er; apply in_or_app; right; left; reflexivity | reflexivity]|].
    intros g0 Hg0 E. rewrite Er in Hg0. apply in_app_iff in Hg0 as [Hg0|[<-|[]]]; [|tauto]. pose proof (g_rng s HG g0 Hg0). cbn in E. lia. }
  assert (R : RegOK None s2 g).
  { assert (P2 : prodl (g_gid g) s2 = []) by (rewrite Pl; exact P0).
    destruct (g_f1 s2 G2 (g_gid g) ltac:(cbn; apply (g_ctr s HG))) as [D HD]. rewrite P2 in HD. symmetry in HD.
    apply app_eq_nil in HD as [W0 HD]. apply app_eq_nil in HD as [Q0 _].
    constructor; rewrite ?P2, ?W0, ?Q0; auto.
    - split; [reflexivity | cbn; lia].
    - intros m []. }
  destruct (s_gate s2).
  - apply (put_back s2 g); auto. reflexivity.
  - apply first_render_done_FI; auto.
Qed.

Lemma NoDup_map_inj {A B} (f : A -> B) l a b : NoDup (map f l) -> In a l -> In b l -> f a = f b -> a = b.
Proof. induction l as [|y l IH]; cbn; [tauto|]. intros Hn [->|Ha] [->|Hb] E; inv Hn; auto.
  - exfalso. apply H1. rewrite E. apply in_map. exact Hb.
  - exfalso. apply H1. rewrite <- E. apply in_map. exact Ha. Qed.
Lemma not_live_stop_entry s gk : In gk (s_regs (stop s (g_gid gk))) -> False.
Proof. intros H. unfold stop in H. destruct (find_reg s (g_gid gk)) eqn:E.
  - unfold remove_reg in H. fsimpl. apply filter_In in H as [_ H]. rewrite Z.eqb_refl in H. discriminate.
  - apply find_reg_None in E. apply E. apply in_map. exact H. Qed.
Lemma FI_drop_ex k s : FI (Some k) s -> (forall g0, In g0 (s_regs s) -> key g0 <> k) -> FI None s.
Proof. intros [HG Ho] Hk. split; [exact HG|]. intros g0 Hg0. destruct (Ho g0 Hg0) as [[R1 R2 R3 R4 R5] Po]. split; [|exact Po].
  constructor; auto. intros _ Hf. apply R3; [|exact Hf]. intros E. inversion E. apply (Hk g0 Hg0). assumption. Qed.
Lemma FI_add_ex k s : FI None s -> FI (Some k) s.
Proof. intros [HG Ho]. split; [exact HG|]. intros g0 Hg0. destruct (Ho g0 Hg0) as [[R1 R2 R3 R4 R5] Po]. split; [|exact Po].
  constructor; auto. intros _ Hf. apply R3; [discriminate | exact Hf]. Qed.
Lemma process_request_FI s r con tok obs : FI (Some (r, tok)) s -> s_down s = false -> FI None (process_request s r con tok obs).
Proof.
  intros H Hd. unfold process_request.
  set (s1 := match find_key s r tok with Some g0 => stop s (g_gid g0) | None => s end).
  assert (H1 : FI (Some (r, tok)) s1) by (subst s1; destruct (find_key s r tok); [apply FI_stop|]; exact H).
  assert (K1 : forall g0, In g0 (s_regs s1) -> key g0 <> (r, tok)).
  { subst s1. destruct (find_key s r tok) as [gk|] eqn:E.
    - intros g0 Hg0 Ek. apply find_key_In in E as (E1 & E2 & E3).
      assert (Hin : In g0 (s_regs s)). { unfold stop in Hg0. destruct (find_reg s (g_gid gk)); [|exact Hg0]. unfold remove_reg in Hg0. fsimpl. apply filter_In in Hg0. tauto. }
      assert (g0 = gk). { apply (NoDup_map_inj key (s_regs s)); [apply (g_kd s (proj1 H)) | exact Hin | exact E1 | unfold key in *; congruence]. }
      subst g0. revert Hg0. apply not_live_stop_entry.
    - intros g0 Hg0 Ek. unfold find_key in E. eapply find_none in E; [|exact Hg0]. unfold key in Ek. inversion Ek. cbn in E. lia. }
  assert (D1 : s_down s1 = false). { subst s1. destruct (find_key s r tok); [|exact Hd]. unfold stop. destruct (find_reg s _); exact Hd. }
  assert (H2 : FI None (flush_cancels s1)) by (apply FI_flush; apply (FI_drop_ex (r, tok)); assumption).
  destruct obs as [[| |]|]; try (apply plain_FI; exact H2).
  assert (D2 : s_down (flush_cancels s1) = false).
  { unfold flush_cancels. fsimpl. assert (G : forall l s0, s_down (fold_left cancel_cb l s0) = s_down s0).
    { induction l as [|c l IHl]; intros s0; cbn [fold_left]; [reflexivity|]. rewrite IHl. reflexivity. }
    rewrite G. exact D1. }
  apply accept_FI; [exact H2 | exact D2|]. intros g0 Hg0. apply K1. unfold flush_cancels in Hg0. fsimpl.
  assert (G : forall l s0, s_regs (fold_left cancel_cb l s0) = s_regs s0).
  { induction l as [|c l IHl]; intros s0; cbn [fold_left]; [reflexivity|]. rewrite IHl. reflexivity. }
  rewrite G in Hg0. exact Hg0.
Qed.

(* ------------------------------------------------------------------ events *)
Lemma task_entry s g : FI None s -> In g (s_regs s) -> FIx (g_gid g) s /\ statics s g /\ RegOK None s g /\ PFok g.
Proof. intros H Hg. pose proof H as [HG Ho]. destruct (Ho g Hg) as [Ro Po].
  split; [apply FI_to_FIx; exact H | split; [apply (statics_of_In s g HG Hg) | split; assumption]]. Qed.

Lemma trigger_FI s x tv l : FI None s -> FI None (trigger s x tv l).
Proof. intros H. unfold trigger. destruct (find_reg s x) as [g|] eqn:E; [|exact H]. apply find_reg_In in E as [E _].
  destruct (task_entry s g H E) as (A & B & C & D). apply (put_back s g); auto. Qed.
Lemma trigger_all_FI tv l order : forall s, FI None s -> FI None (fold_left (fun s gid => trigger s gid tv l) order s).
Proof. induction order as [|x o IH]; intros s H; cbn [fold_left]; [exact H|]. apply IH, trigger_FI, H. Qed.
Lemma trigger_burst_FI order burst : forall s, FI None s -> FI None (trigger_burst order burst s).
Proof. unfold trigger_burst. induction burst as [|tb bs IH]; intros s H; cbn [fold_left]; [exact H|]. apply IH.
  apply trigger_all_FI. apply (FI_frame None s); [sameG | apply piggy_shrinks_refl; reflexivity | exact H]. Qed.
Lemma wake_FI l : forall s, FI None s -> FI None (wake l s).
Proof. unfold wake. induction l as [|x l IH]; intros s H; cbn [fold_left]; [exact H|]. apply IH.
  destruct (find_reg s x) as [g|] eqn:E; [|exact H]. apply find_reg_In in E as [E _].
  destruct (task_entry s g H E) as (A & B & C & D). apply run_loop_FI; assumption. Qed.

Lemma remove_exchange_FI s r mid b : FI None s -> FI None (remove_exchange s r mid b).
Proof.
  intros H. unfold remove_exchange. destruct (find _ (s_exch s)) as [x|]; [|exact H].
  set (sA := cancel_timers (set_exch s _) _).
  set (sB := if b then stop sA (x_gid x) else sA).
  pose proof H as [HG Ho].
  assert (HA : forall r', has_exchange s r' = true -> has_exchange (pad sA r) r' = true).
  { intros r' Hr. rewrite has_exchange_pad. destruct (Z.eq_dec r r') as [->|Hne]; [rewrite Z.eqb_refl; apply orb_true_r|].
    replace (has_exchange sA r') with true; [reflexivity|]. symmetry. subst sA. unfold has_exchange, cancel_timers. fsimpl.
    rewrite has_exchange_filter_other; [exact Hr|]. intros y Hy. replace (x_remote y =? r) with false by lia. reflexivity. }
  assert (GA : GI (pad sA r)).
  { apply (GI_filter_regs s (pad sA r) (fun _ => true)); auto. subst sA. unfold pad, cancel_timers. fsimpl. symmetry. apply filter_id_forall. reflexivity. }
  assert (OA : forall g0, In g0 (s_regs sA) -> RegOK None sA g0 /\ PFok g0).
  { intros g0 Hg0. destruct (Ho g0 Hg0) as [Ro Po]. split; [|exact Po].
    apply (sameG_but_regs_RegOK None s sA); [reflexivity | reflexivity | reflexivity | apply piggy_shrinks_refl; reflexivity | apply (g_rng s HG); exact Hg0 | exact Ro]. }
  assert (FB : GI (pad sB r) /\ forall g0, In g0 (s_regs sB) -> RegOK None sB g0 /\ PFok g0).
  { subst sB. destruct b; [|split; assumption]. unfold stop. destruct (find_reg sA (x_gid x)); [|split; assumption]. split.
    - apply (GI_filter_regs (pad sA r) _ (fun g => negb (g_gid g =? x_gid x))); auto.
    - intros g0 Hg0. unfold remove_reg in Hg0. fsimpl. apply filter_In in Hg0 as [Hg0 _]. destruct (OA g0 Hg0) as [Ro Po]. split; [|exact Po].
      eapply (sameG_but_regs_RegOK None sA); [reflexivity | reflexivity | reflexivity | apply piggy_shrinks_refl; reflexivity | apply (g_rng _ GA); exact Hg0 | exact Ro]. }
  destruct FB as [GB OB]. apply continue_backlog_FI; assumption.
Qed.

Definition fexch (q : exch -> bool) (r : Z) (s : state) : state := purge_backlog (set_exch s (filter q (s_exch s))) r.
Lemma stop_fexch q r s x : stop (fexch q r s) x = fexch q r (stop s x).
Proof. unfold stop, fexch, find_reg, purge_backlog, remove_reg. fsimpl. destruct (find _ (s_regs s)); destruct s; reflexivity. Qed.
Lemma fold_stop_fexch q r l : forall s, fold_left stop l (fexch q r s) = fexch q r (fold_left stop l s).
Proof. induction l as [|x l IH]; intros s; cbn [fold_left]; [reflexivity|]. rewrite stop_fexch. apply IH. Qed.
(* endpoint [r] is given up (transport error or retransmissions exhausted) *)
Lemma give_up_FI q r s : FI None s -> (forall y, x_remote y <> r -> q y = true) -> FI None (fexch q r (stop_remote s r)).
Proof.
  intros H Hq. assert (H1 : FI None (stop_remote s r)) by (apply FI_fold_stop; exact H).
  apply (purge_FI (stop_remote s r) _ r H1); try reflexivity.
  - intros g0 Hg0. apply (stop_remote_none s r g0 Hg0).
  - intros r' Hne Hr. unfold fexch, purge_backlog, has_exchange. fsimpl. rewrite has_exchange_filter_other; [exact Hr|].
    intros y Hy. apply Hq. lia.
Qed.
Lemma dispatch_error_FI s r : FI None s -> FI None (dispatch_error s r).
Proof.
  intros H. unfold dispatch_error. destruct (s_down s); [exact H|].
  apply (FI_frame None (fexch (fun x => negb (x_remote x =? r)) r (stop_remote s r))); [sameG | apply piggy_shrinks_refl; reflexivity|].
  apply give_up_FI; [exact H|]. intros y Hy. replace (x_remote y =? r) with false by lia. reflexivity.
Qed.
Lemma fire_FI s k : FI None s -> FI None (fire s k).
Proof.
  intros H. destruct k as [r tok|m t c|r mid]; cbn [fire].
  - destruct (piggy_find s r tok) as [mid|]; [|exact H].
    set (m1 := mkmsg r ACK mid (-1) 0 None 0 0 (-1)).
    destruct (si_fields (piggy_remove s r tok) m1 (-1)) as (A1 & A2 & A3 & A4 & A5 & A6 & A7 & A8 & A9 & A10).
    apply (FI_other_send None s); [exact H | rewrite A1; reflexivity | rewrite A2; reflexivity | rewrite A5; reflexivity | left; rewrite A3; reflexivity | | left; rewrite A4; reflexivity | | ].
    + intros g Hg. rewrite (wirel_cons g (piggy_remove s r tok) _ m1 A7). replace (m_gid m1 =? g) with false by (unfold m1; cbn [m_gid]; lia). reflexivity.
    + intros r' Hr. apply A8. exact Hr.
    + apply piggy_find_some_shrinks. rewrite A6. unfold piggy_remove. fsimpl. eexists. reflexivity.
  - unfold retransmit. destruct (c <? MAX_RETRANSMIT).
    + apply (FI_frame None s); [| apply piggy_shrinks_refl; reflexivity | exact H]. unfold add_timer, send_via_transport. sameG.
    + set (q := fun x => negb ((x_remote x =? m_remote m) && (x_mid x =? m_mid m))).
      change (FI None (stop_remote (fexch q (m_remote m) s) (m_remote m))). unfold stop_remote.
      change (s_regs (fexch q (m_remote m) s)) with (s_regs s). rewrite fold_stop_fexch.
      apply give_up_FI; [exact H|]. intros y Hy. subst q. cbn. replace (x_remote y =? m_remote m) with false by lia. reflexivity.
  - apply (FI_frame None s); [sameG | apply piggy_shrinks_refl; reflexivity | exact H].
Qed.
Lemma advance_FI fuel : forall s t, FI None s -> FI None (advance fuel s t).
Proof. induction fuel as [|f IH]; intros s t H; cbn [advance]; [exact H|].
  destruct (min_timer (s_timers s)) as [tm|]; [|exact H]. destruct (t_due tm <=? t); [|exact H].
  apply IH. apply FI_flush. apply fire_FI. apply (FI_frame None s); [sameG | apply piggy_shrinks_refl; reflexivity | exact H]. Qed.

Lemma piggy_add_FI s s' r tok mid : FI None s -> sameG s s' ->
  s_piggy s' = filter (fun e => match e with (r', tok', _) => negb ((r' =? r) && (tok' =? tok)) end) (s_piggy s) ++ [(r, tok, mid)] ->
  FI (Some (r, tok)) s'.
Proof.
  intros [HG Ho] E Ep. split; [eapply GI_sameG; eassumption|]. pose proof E as (E1 & _). intros g0 Hg0. rewrite E1 in Hg0.
  destruct (Ho g0 Hg0) as [R Po]. split; [|exact Po].
  destruct E as (_ & E2 & E3 & E5 & E7 & Ew & Ex). destruct R as [R1 R2 R3 R4 R5].
  assert (Hg0r : 0 <= g_gid g0) by (apply (g_rng s HG); exact Hg0).
  assert (Pl : forall g, prodl g s' = prodl g s) by (intros; unfold prodl; rewrite E3; reflexivity).
  assert (Ql : forall g, queuel g s' = queuel g s) by (intros; unfold queuel; rewrite E5; reflexivity).
  constructor; rewrite ?Pl, ?(Ew _ Hg0r), ?Ql; try assumption.
  intros Hk Hf. apply R3; [discriminate|]. unfold piggy_find in *. rewrite Ep in Hf.
  set (p := fun e : Z * Z * Z => match e with (r', t', _) => (r' =? g_remote g0) && (t' =? g_token g0) end) in *.
  destruct (find p (filter _ (s_piggy s) ++ [(r, tok, mid)])) as [e|] eqn:Ef; [|exfalso; apply Hf; reflexivity].
  apply find_some in Ef as [Ei Epe]. apply in_app_iff in Ei as [Ei|[<-|[]]].
  - apply filter_In in Ei as [Ei _]. destruct (find p (s_piggy s)) as [[[a b] c]|] eqn:F; [discriminate|]. exfalso. eapply find_none in F; [|exact Ei]. congruence.
  - exfalso. apply Hk. unfold key. cbn in Epe. f_equal. f_equal; lia.
Qed.

Lemma shutdown_FI s : FI None s -> s_down s = false -> FI None (step s EShutdown).
Proof.
  intros H Hd. cbn [step]. rewrite Hd. apply FI_flush.
  set (s1 := fold_left stop (map g_gid (s_regs s)) s).
  assert (H1 : FI None s1) by (apply FI_fold_stop; exact H).
  assert (R1 : s_regs s1 = []) by (subst s1; apply fold_stop_all; intros g Hg; apply in_map; exact Hg).
  destruct H1 as [HG _]. split.
  - destruct HG as [H1 H2 H3 H4 H5 H6 H7 H8 H9 H10 H11]. unfold cancel_timers. constructor; fsimpl; try assumption; try (rewrite R1; constructor).
    intros Hx. discriminate.
  - unfold cancel_timers. fsimpl. rewrite R1. intros g0 [].
Qed.

Lemma step_FI s e : FI None s -> FI None (step s e).
Proof.
  intros H. destruct e; cbn [step].
  - destruct (s_down s) eqn:Hd; [exact H|]. destruct (in_recent s r mid) as [st|].
    + destruct con; [|exact H]. destruct st as [m|]; [|exact H].
      apply (FI_frame None s); [| apply piggy_shrinks_refl; unfold send_initially, store_response_for_duplicates, add_exchange, add_timer; destruct (m_mtype m); reflexivity | exact H].
      unfold send_initially, store_response_for_duplicates, send_via_transport, add_exchange, add_timer. destruct (m_mtype m); sameG;
        try (intros g _; unfold wirel; fsimpl; rewrite sends_cons_other by discriminate; reflexivity).
      intros r' Hr. unfold has_exchange. fsimpl. rewrite has_exchange_app, Hr. reflexivity.
    + apply FI_flush.
      set (s1 := set_recent (add_timer s EXCHANGE_LIFETIME_US (KExpire r mid)) _).
      assert (H1 : FI None s1) by (apply (FI_frame None s); [sameG | apply piggy_shrinks_refl; reflexivity | exact H]).
      destruct con.
      * apply process_request_FI; [|exact Hd]. apply (piggy_add_FI s1 _ r tok mid H1); [unfold add_timer, cancel_timers, piggy_remove; sameG | reflexivity].
      * apply process_request_FI; [apply FI_add_ex; exact H1 | exact Hd].
  - destruct (s_down s); [exact H|]. apply FI_flush, remove_exchange_FI, H.
  - destruct (s_down s); [exact H|]. apply FI_flush, remove_exchange_FI, H.
  - apply FI_flush. assert (H1 := trigger_burst_FI (pick_order perm (s_observers s)) burst s H).
    destruct burst; [exact H1 | apply wake_FI; exact H1].
  - destruct (find_key s r tok) as [g|] eqn:E; [|exact H]. apply find_key_In in E as [E _].
    destruct (task_entry s g H E) as (A & B & C & D).
    destruct (g_phase g) eqn:Ep; [| exact H |]; apply FI_flush.
    + apply first_render_done_FI; auto. unfold PFok in D. rewrite Ep in D. exact D.
    + apply after_response_FI_any; auto. intros s1 g1 A1 B1 C1. apply (run_loop_FI 0); assumption.
  - apply (FI_frame None s); [sameG | apply piggy_shrinks_refl; reflexivity | exact H].
  - apply (FI_frame None s); [sameG | apply piggy_shrinks_refl; reflexivity | exact H].
  - apply (FI_frame None (advance (advance_fuel s) s (s_now s + dt))); [sameG | apply piggy_shrinks_refl; reflexivity | apply advance_FI; exact H].
  - apply FI_flush, dispatch_error_FI, H.
  - destruct (s_down s) eqn:Hd; [exact H | ]. pose proof (shutdown_FI s H Hd) as X. cbn [step] in X. rewrite Hd in X. exact X.
Qed.

(* ------------------------------------------------------------------ whole histories *)
Lemma FI_init m : FI None (init m).
Proof. split; [|intros g0 []]. constructor; cbn; try (constructor; fail); try tauto; try lia; try discriminate.
  - intros g _. exists []. reflexivity.
  - intros _ r e []. Qed.
Lemma run_FI : forall es s, FI None s -> FI None (run s es).
Proof. induction es as [|e es IH]; intros s H; cbn; [exact H | apply IH, step_FI, H]. Qed.

Definition obs_values (l : list (option Z)) : list Z := flat_map (fun o => match o with Some n => [n] | None => [] end) l.
Lemma consec_sorted l : forall n, consec n l -> StronglySorted Z.lt (obs_values l) /\ Forall (fun x => n <= x) (obs_values l).
Proof. induction l as [|[x|] l IH]; intros n H; cbn in *.
  - split; constructor.
  - destruct H as [-> H]. destruct (IH _ H) as [S F]. split.
    + constructor; [exact S|]. eapply Forall_impl; [|exact F]. cbn. intros; lia.
    + constructor; [lia|]. eapply Forall_impl; [|exact F]. cbn. intros; lia.
  - subst l. split; constructor. Qed.

(* For every history and every registration number g: the datagrams transmitted for the first time for g, in order, followed
   by those waiting in the backlog, are a prefix of what the render task produced (all of it while g is live); they carry
   Observe 0,1,2,... (the last one possibly none); all carry one endpoint and token — those of the live registration *)
Lemma wire_lemma : forall mid0 es g, 0 <= g -> let s := run (init mid0) es in
  (exists D, prodl g s = wirel g s ++ queuel g s ++ D) /\
  consec 0 (observes (wirel g s)) /\
  StronglySorted Z.lt (obs_values (observes (wirel g s))) /\
  (forall m1 m2, In m1 (wirel g s) -> In m2 (wirel g s) -> m_remote m1 = m_remote m2 /\ m_token m1 = m_token m2) /\
  (forall g0, In g0 (s_regs s) -> g_gid g0 = g ->
     prodl g s = wirel g s ++ queuel g s /\
     observes (prodl g s) = somes (g_next g0 + 1) /\
     forall m, In m (wirel g s) -> m_remote m = g_remote g0 /\ m_token m = g_token g0).
Proof.
  intros mid0 es g Hg s. destruct (run_FI es (init mid0) (FI_init mid0)) as [HG Ho]. fold s in HG, Ho.
  destruct (g_f1 s HG g Hg) as [D HD].
  assert (Hc : consec 0 (observes (wirel g s))).
  { pose proof (g_n s HG g Hg) as C. rewrite HD in C. unfold observes in *. rewrite map_app in C. eapply consec_prefix. exact C. }
  assert (Hin : forall m, In m (wirel g s) -> In m (s_prod s) /\ m_gid m = g).
  { intros m Hm. apply prodl_In. rewrite HD. apply in_or_app. left. exact Hm. }
  split; [exists D; exact HD | split; [exact Hc | split; [apply (consec_sorted _ 0 Hc) | split]]].
  - intros m1 m2 I1 I2. destruct (Hin m1 I1), (Hin m2 I2). apply (g_kk s HG); try assumption; lia.
  - intros g0 Hg0 <-. destruct (Ho g0 Hg0) as [[R1 R2 R3 R4 R5] _]. split; [exact R1 | split; [apply R4|]].
    intros m Hm. apply R5. rewrite R1. apply in_or_app. left. exact Hm.
Qed.
