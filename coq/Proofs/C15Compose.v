(* C15 — compositions: "dispatches exactly the sent messages", and Abort + close for a bad frame that
   follows any number of good ones. *)
From Verif Require Import Lib.Py Lib.Tactics Lib.PyLemmas Gen.options_ext Gen.tcp_framing Model.C15 Proofs.C15 Proofs.C15Gate Proofs.C15Total.
Open Scope Z_scope.

Definition dispatch_out (m : msg) : out := if is_response (code m) then Response m else Request m.
Definition plain_ok (maxsize : Z) (m : msg) : Prop :=
  msg_ok m = true /\ fits maxsize m = true /\ is_signalling (code m) = false /\ code m <> 0.

Lemma process_plain_messages : forall ms c s, remote_settings c = Some s ->
  Forall (fun m => is_signalling (code m) = false /\ code m <> 0) ms ->
  process_messages c ms = (c, map dispatch_out ms).
Proof.
  induction ms as [|m r IH]; intros c s Hs Hall; [reflexivity|].
  inversion Hall as [|? ? [Hsig H0] Hr]; subst. cbn [process_messages map].
  rewrite (dispatch_exact c m s Hs Hsig H0). rewrite (IH c s Hs Hr). reflexivity.
Qed.

(* clause 2, end to end: the frames of any sequence of requests / responses, received after the CSM, make the
   endpoint hand exactly these messages to the token manager, in order *)
Lemma dispatches_exactly_sent : forall ms c bs s, remote_settings c = Some s -> spool c = [] -> closed c = false ->
  Forall (plain_ok (my_max_message_size c)) ms -> frames ms = Ok bs ->
  data_received c bs = (c, map dispatch_out ms).
Proof.
  intros ms c bs s Hs Hsp Hcl Hall Hfr.
  assert (Hok : Forall (fun m => msg_ok m = true) ms) by (eapply Forall_impl; [|exact Hall]; intros m H; apply H).
  assert (Hfit : Forall (fun m => fits (my_max_message_size c) m = true) ms) by (eapply Forall_impl; [|exact Hall]; intros m H; apply H).
  assert (Hpl : Forall (fun m => is_signalling (code m) = false /\ code m <> 0) ms) by (eapply Forall_impl; [|exact Hall]; intros m H; split; apply H).
  pose proof (stream_refines ms (feed c bs) bs Hok Hfit Hfr ltac:(cbn; rewrite Hsp; reflexivity)) as H.
  unfold data_received. rewrite data_received_ctl_loop'.
  assert (Hcok : bytes_ok (spool (feed c bs)) = true) by (cbn; rewrite Hsp; cbn [app]; exact (frames_ok ms bs Hok Hfr)).
  pose proof (loop_inv (S (length (spool (feed c bs)))) (feed c bs) ltac:(lia) Hcok) as HI.
  destruct (loop' (feed c bs)) as [[c1 o1] k].
  replace (feed c bs) with (set_spool c bs) in * by (unfold feed; rewrite Hsp; reflexivity).
  rewrite process_messages_spool in H. rewrite (process_plain_messages ms c s Hs Hpl) in H.
  destruct H as (-> & H2 & H3). destruct HI as (I1 & I2 & I3 & _).
  assert (Hnd : forall l, esc (map dispatch_out l) = false /\ has_close (map dispatch_out l) = false).
  { induction l as [|x l [IHa IHb]]; [split; reflexivity|]. cbn [map]. unfold esc, has_close in *. cbn [existsb].
    rewrite IHa, IHb. unfold dispatch_out. destruct (is_response (code x)); split; reflexivity. }
  destruct (Hnd ms) as [He Hc].
  assert (Hk : k = Continue).
  { destruct k; [reflexivity|]. cbn [closed set_spool] in I3. destruct (I3 Hcl eq_refl) as [E|E]; congruence. }
  f_equal. pose proof (H3 Hk) as Hs1.
  destruct c1; destruct c; cbn in *. injection H2 as ? ? ?. subst. reflexivity.
Qed.

Lemma process_messages_keeps_spool ms c : spool (fst (process_messages c ms)) = spool c.
Proof.
  pose proof (process_messages_spool ms c (spool c)) as H. rewrite set_spool_same in H.
  destruct (process_messages c ms) as [c1 o]. cbn [fst]. injection H as H. rewrite H. reflexivity.
Qed.

(* whatever follows a stream of good frames is processed from the state the messages lead to, with the
   outputs appended — as long as the messages did not close the connection *)
Lemma after_good_prefix : forall ms c bs rest, spool c = [] -> closed c = false -> my_max_message_size c <= 2 ^ 40 ->
  Forall (fun m => msg_ok m = true) ms -> Forall (fun m => fits (my_max_message_size c) m = true) ms ->
  frames ms = Ok bs -> bytes_ok rest = true ->
  closed (fst (process_messages c ms)) = false ->
  snd (data_received c (bs ++ rest)) =
  snd (process_messages c ms) ++ snd (data_received (fst (process_messages c ms)) rest) /\
  spool (fst (process_messages c ms)) = [] /\
  my_max_message_size (fst (process_messages c ms)) = my_max_message_size c.
Proof.
  intros ms c bs rest Hsp Hcl Hmax Hok Hfit Hfr Hrest Hopen.
  pose proof (stream_refines ms (feed c bs) bs Hok Hfit Hfr ltac:(cbn; rewrite Hsp; reflexivity)) as H.
  assert (Hcok : bytes_ok (spool (feed c bs)) = true) by (cbn; rewrite Hsp; cbn [app]; exact (frames_ok ms bs Hok Hfr)).
  pose proof (loop_inv (S (length (spool (feed c bs)))) (feed c bs) ltac:(lia) Hcok) as HI.
  pose proof (loop_no_esc (S (length (spool (feed c bs)))) (feed c bs) ltac:(lia) Hcok Hmax) as HE.
  unfold data_received at 1. rewrite data_received_ctl_loop', <- feed_feed.
  rewrite (loop_feed (S (length (spool (feed c bs)))) (feed c bs) rest ltac:(lia) Hcok Hrest).
  destruct (loop' (feed c bs)) as [[c1 o1] k]. cbn [fst snd] in HE.
  replace (feed c bs) with (set_spool c bs) in * by (unfold feed; rewrite Hsp; reflexivity).
  rewrite process_messages_spool in H.
  pose proof (process_messages_keeps_spool ms c) as Hks.
  destruct (process_messages c ms) as [c2 o2]. cbn [fst snd] in *.
  destruct H as (-> & H2 & H3). destruct HI as (I1 & I2 & I3 & I4 & I5).
  assert (Hc1 : closed c1 = false).
  { assert (E : closed (set_spool c1 []) = closed (set_spool (set_spool c2 bs) [])) by (rewrite H2; reflexivity). exact (eq_trans E Hopen). }
  assert (Hk : k = Continue).
  { destruct k; [reflexivity|]. cbn [closed set_spool] in I3. destruct (I3 Hcl eq_refl) as [E|E]; [congruence|].
    rewrite E, orb_true_r in I1. congruence. }
  subst k. specialize (H3 eq_refl).
  assert (Hc12 : c1 = c2).
  { destruct c1; destruct c2; cbn in *. injection H2 as ? ? ?. subst. rewrite Hsp. reflexivity. }
  subst c1. unfold data_received. rewrite data_received_ctl_loop'.
  destruct (loop' (feed c2 rest)) as [[c3 o3] k3]. cbn [snd].
  split; [reflexivity|]. split; [rewrite Hks; exact Hsp|]. exact I5.
Qed.

(* clauses 5 and 6 at an arbitrary position: an oversized announcement after any good messages *)
Lemma abort_after_good_prefix_oversize : forall ms c bs bad a t l, spool c = [] -> closed c = false ->
  my_max_message_size c <= 2 ^ 40 ->
  Forall (fun m => msg_ok m = true) ms -> Forall (fun m => fits (my_max_message_size c) m = true) ms ->
  frames ms = Ok bs -> bytes_ok bad = true -> closed (fst (process_messages c ms)) = false ->
  header bad = Some (a, t, l) -> a + t + l > my_max_message_size c ->
  snd (data_received c (bs ++ bad)) = snd (process_messages c ms) ++ [Write (abort_frame txt_overly_large); Close].
Proof.
  intros ms c bs bad a t l Hsp Hcl Hmax Hok Hfit Hfr Hbad Hopen Hh Hbig.
  destruct (after_good_prefix ms c bs bad Hsp Hcl Hmax Hok Hfit Hfr Hbad Hopen) as (-> & Hs2 & Hm2).
  rewrite (abort_on_oversize _ bad a t l); [reflexivity|rewrite Hs2; exact Hh|rewrite Hm2; exact Hbig].
Qed.

(* ... and a complete frame that does not parse (TKL > 8, broken options, invalid UTF-8 in a string option) *)
Lemma abort_after_good_prefix_unparsable : forall ms c bs bad f r, spool c = [] -> closed c = false ->
  my_max_message_size c <= 2 ^ 40 ->
  Forall (fun m => msg_ok m = true) ms -> Forall (fun m => fits (my_max_message_size c) m = true) ms ->
  frames ms = Ok bs -> bytes_ok bad = true -> closed (fst (process_messages c ms)) = false ->
  view_of (my_max_message_size c) bad = VFrame f r -> decode_message f = Raise UnparsableMessage ->
  snd (data_received c (bs ++ bad)) = snd (process_messages c ms) ++ [Write (abort_frame txt_failed_to_parse); Close].
Proof.
  intros ms c bs bad f r Hsp Hcl Hmax Hok Hfit Hfr Hbad Hopen V Hdec.
  destruct (after_good_prefix ms c bs bad Hsp Hcl Hmax Hok Hfit Hfr Hbad Hopen) as (-> & Hs2 & Hm2).
  rewrite (abort_on_unparsable _ bad f r); [reflexivity|rewrite Hs2, Hm2; exact V|exact Hdec].
Qed.
