(* C10 — tie of the hand-written model's constants and message-ID successor to the translated source
   (Gen/c03_constants.v from numbers/constants.py class TransportTuning; Gen/c14_message_id.v from
   messagemanager.py MessageManager._next_message_id).  A change of the source constants or of the successor
   formula regenerates the Gen files and breaks these lemmas; the correspondence streams then look for the failing history. *)
From Coq Require Import ZArith QArith List Lia.
From Verif Require Import Lib.Py.
From Verif Require Gen.c03_constants Gen.c14_message_id.
From Verif Require Import Model.C10.
Open Scope Z_scope.
Lemma exchange_lifetime_is_source : Qeq (inject_Z EXCHANGE_LIFETIME) (Qmult (c03_constants.EXCHANGE_LIFETIME c03_constants.default_transport_tuning) (inject_Z 1000000)).
Proof. vm_compute. reflexivity. Qed.
Lemma empty_ack_delay_is_source : Qeq (inject_Z EMPTY_ACK_DELAY) (Qmult (c03_constants.tt_EMPTY_ACK_DELAY c03_constants.default_transport_tuning) (inject_Z 1000000)).
Proof. vm_compute. reflexivity. Qed.
Lemma ack_timeout_is_source : Qeq (inject_Z ACK_TIMEOUT) (Qmult (c03_constants.tt_ACK_TIMEOUT c03_constants.default_transport_tuning) (inject_Z 1000000)).
Proof. vm_compute. reflexivity. Qed.
Lemma max_retransmit_is_source : MAX_RETRANSMIT = c03_constants.tt_MAX_RETRANSMIT c03_constants.default_transport_tuning.
Proof. reflexivity. Qed.

(* robust against equivalent spellings of the successor in the source (Z.land either way round, or mod 65536) *)
Ltac mid16 :=
  cbn [c14_message_id.mmids_message_id fst snd];
  change 65535 with (Z.ones 16); change 65536 with (2 ^ 16);
  repeat rewrite (Z.land_comm (Z.ones 16));
  repeat rewrite Z.land_ones by (vm_compute; discriminate);
  first [reflexivity | repeat (f_equal; try lia)].
Lemma next_message_id_is_source : forall s,
  c14_message_id.next_message_id {| c14_message_id.mmids_message_id := next_mid s |}
  = Ok ({| c14_message_id.mmids_message_id := next_mid (fst (_next_message_id s)) |}, snd (_next_message_id s)).
Proof. intros s. unfold c14_message_id.next_message_id, _next_message_id, set_next_mid. cbn [fst snd]. cbn [next_mid]. mid16. Qed.
