(* C03 — part 3 of the proofs: the history invariant (what was put on the wire, when, and how an exchange ends) *)
From Verif Require Import Lib.Py Lib.Tactics Model.C03 Proofs.C03 Proofs.C03struct.
Open Scope Z_scope.

Fixpoint copies (rid : Z) (tr : list output) : list (Z * message) :=
  match tr with
  | [] => []
  | OSend t m :: r => if m_rid m =? rid then (t, m) :: copies rid r else copies rid r
  | _ :: r => copies rid r
  end.
Lemma copies_app : forall rid a b, copies rid (a ++ b) = copies rid a ++ copies rid b.
Proof.
  induction a as [|x a IH]; intros b; cbn; auto. destruct x; auto. destruct (m_rid m =? rid); cbn; rewrite IH; auto.
Qed.
Lemma copies_in : forall rid tr t m, In (t, m) (copies rid tr) <-> In (OSend t m) tr /\ m_rid m = rid.
Proof.
  induction tr as [|x tr IH]; intros t m; cbn; [tauto|].
  destruct x as [t' m'| | | | |]; try (rewrite IH; split; [intros [H1 H2]; auto | intros [[H|H] H2]; [discriminate|auto]]).
  destruct (m_rid m' =? rid) eqn:E; cbn; rewrite IH.
  - apply Z.eqb_eq in E. split; [intros [H|[H1 H2]]; [inv H; auto | auto] | intros [[H|H] H2]; [inv H; auto | auto]].
  - apply Z.eqb_neq in E. split; [intros [H1 H2]; auto | intros [[H|H] H2]; [inv H; congruence | auto]].
Qed.

(* the k-th copy (k = 0, 1, ...) leaves at T0 + t * (2^k - 1) *)
Definition sched_of (m : message) (T0 t : Z) (n : nat) : list (Z * message) :=
  map (fun k => (T0 + t * (2 ^ Z.of_nat k - 1), m)) (seq 0 n).
Lemma sched_of_S : forall m T0 t n, sched_of m T0 t (S n) = sched_of m T0 t n ++ [(T0 + t * (2 ^ Z.of_nat n - 1), m)].
Proof. intros. unfold sched_of. rewrite seq_S, map_app. reflexivity. Qed.

Definition in_backlog (rid : Z) (st : state) : Prop := In rid (back_rids (backlogs st)).

Definition timers_ok (st : state) (rid : Z) (m : message) (T0 t : Z) (n : nat) : Prop :=
  forall e, In e (active_exchanges st) -> e_rid e = rid ->
    h_message (e_timer e) = m /\ Z.of_nat n = h_counter (e_timer e) + 1 /\
    h_timeout (e_timer e) = t * 2 ^ h_counter (e_timer e) /\
    h_due (e_timer e) = T0 + t * (2 ^ (h_counter (e_timer e) + 1) - 1).

(* [ks]: the (remote, mid) pairs of all ACK / RST / piggy-backed-response datagrams received so far; plus [err_key r] for every
   transport error reported for r, and [gone_key rid] for every request that was cancelled or got a response *)
Definition err_key (r : Z) : Z * Z := (r, -1).
Definition gone_key (rid : Z) : Z * Z := (rid, -2).
Definition Good (ks : list (Z * Z)) (st : state) (tr : list output) (rid : Z) : Prop :=
  exists m T0 t n,
    copies rid tr = sched_of m T0 t n /\
    (n <> O -> m_rid m = rid /\ range (m_tuning m) t /\ Z.of_nat n <= MAX_RETRANSMIT (m_tuning m) + 1) /\
    timers_ok st rid m T0 t n /\
    (in_backlog rid st -> n = O) /\
    (n <> O -> (exists e, In e (active_exchanges st) /\ e_rid e = rid) \/ In (m_remote m, m_mid m) ks \/ In (err_key (m_remote m)) ks \/
               (Z.of_nat n = MAX_RETRANSMIT (m_tuning m) + 1 /\
                (In (OFail (T0 + t * (2 ^ (MAX_RETRANSMIT (m_tuning m) + 1) - 1)) rid ConRetransmitsExceeded) tr \/ In (gone_key rid) ks)) \/
               (* ended by MessageManager.dispatch_error running inside send() of a refusing transport: the request failed with it *)
               ((exists tf, In (OFail tf rid NetworkError) tr) \/ In (gone_key rid) ks)).

Definition Hist (seen : list Z) (ks : list (Z * Z)) (st : state) (tr : list output) : Prop :=
  (forall rid, ~ In rid seen -> copies rid tr = []) /\ forall rid, Good ks st tr rid.

(* only the piggy-backed response (type ACK) acknowledges the message ID; a separate CON / NON response does not *)
Definition ack_keys (r ty mid : Z) (ks : list (Z * Z)) : list (Z * Z) := if ty =? 0 then (r, mid) :: ks else ks.
Definition ks_after (ks : list (Z * Z)) (e : event) : list (Z * Z) :=
  match e with
  | ERecv r _ mid => (r, mid) :: ks
  | EError r => err_key r :: ks
  | ECancel rid => gone_key rid :: ks
  | EResponse r ty mid rid => gone_key rid :: ack_keys r ty mid ks
  | _ => ks
  end.

(* a request whose message is in an exchange or in a backlog is still pending in the token manager, unless it was cancelled
   or answered *)
Definition Pend (ks : list (Z * Z)) (st : state) : Prop :=
  (forall e, In e (active_exchanges st) -> In (e_rid e, e_remote e) (outgoing_requests st) \/ In (gone_key (e_rid e)) ks) /\
  (forall r q p, In (r, q) (backlogs st) -> In p q -> In (m_rid (fst p), r) (outgoing_requests st) \/ In (gone_key (m_rid (fst p))) ks).

Lemma good_frame : forall ks ks' st st' tr o rid, Good ks st tr rid -> copies rid o = [] ->
  (forall e, In e (active_exchanges st') -> e_rid e = rid -> In e (active_exchanges st)) ->
  (forall e, In e (active_exchanges st) -> e_rid e = rid -> In e (active_exchanges st')) ->
  (in_backlog rid st' -> in_backlog rid st) -> incl ks ks' -> Good ks' st' (tr ++ o) rid.
Proof.
  intros ks ks' st st' tr o rid (m & T0 & t & n & Hc & Hn & Ht & Hb & Hcl) Ho H1 H2 H3 Hk.
  exists m, T0, t, n. splits; auto.
  - rewrite copies_app, Ho, app_nil_r. exact Hc.
  - intros e He Hr. apply Ht; auto.
  - intros Hn0. destruct (Hcl Hn0) as [[e [He1 He2]]|[Hin|[Hin|[[Hx [Hin|Hin]]|[[tf Hin]|Hin]]]]].
    + left. exists e. auto.
    + right. left. auto.
    + right. right. left. auto.
    + right. right. right. left. split; auto. left. apply in_app_iff. auto.
    + right. right. right. left. split; auto.
    + right. right. right. right. left. exists tf. apply in_app_iff. auto.
    + right. right. right. right. right. auto.
Qed.

(* a message put on the wire for the first time ([_send_initially]) *)
Lemma good_start : forall ks st' tr o rid m T t L sq,
  copies rid tr = [] -> copies rid o = [(T, m)] -> m_rid m = rid -> range (m_tuning m) t -> wf_tuning (m_tuning m) ->
  active_exchanges st' = xset (m_remote m, m_mid m) (rid, {| h_due := T + t; h_seq := sq; h_message := m; h_timeout := t; h_counter := 0 |}) L ->
  (forall e, In e L -> e_rid e <> rid) -> ~ in_backlog rid st' -> Good ks st' (tr ++ o) rid.
Proof.
  intros ks st' tr o rid m T t L sq Hc Ho Hm Hr Hwf Ex HL Hb.
  exists m, T, t, 1%nat. splits.
  - rewrite copies_app, Hc, Ho. cbn. repeat f_equal. lia.
  - intros _. splits; auto. destruct Hwf as (_ & _ & _ & HR). lia.
  - intros e He Hrid. rewrite Ex in He. apply in_xset in He. destruct He as [->|[He _]]; [|exfalso; eapply HL; eauto].
    unfold e_timer. cbn. splits; auto; lia.
  - intros H. tauto.
  - intros _. left. eexists. split; [rewrite Ex; apply in_xset; left; reflexivity|]. unfold e_rid, e_timer. cbn. exact Hm.
Qed.

Lemma copies_fail_only : forall rid (o : list output), (forall t m, ~ In (OSend t m) o) -> copies rid o = [].
Proof.
  induction o as [|x o IH]; intros H; cbn; auto. destruct x; try (apply IH; intros t' m' Hi; apply (H t' m'); right; exact Hi).
  exfalso. apply (H t m). left. reflexivity.
Qed.

(* ---- MessageManager.dispatch_error for a remote r in a state satisfying the invariants: reported by the transport (EError), or run
   from inside message_interface.send by a transport that refuses a datagram (then the datagram itself is not on the wire) ---- *)
Lemma error_outputs : forall st r rid, In (rid, r) (outgoing_requests st) ->
  In (OFail (now st) rid NetworkError) (map (fun q => OFail (now st) (fst q) NetworkError) (filter (fun q => snd q =? r) (outgoing_requests st))).
Proof. intros. apply in_map_iff. exists (rid, r). split; auto. apply filter_In. split; auto. cbn. apply Z.eqb_refl. Qed.

Lemma good_dispatch : forall seen ks ks' st tr r st' o x, Struct seen st -> Good ks st tr x ->
  (forall e, In e (active_exchanges st) -> e_rid e = x -> e_remote e = r -> In (x, r) (outgoing_requests st) \/ In (gone_key x) ks') ->
  mm_dispatch_error st r = (st', o) -> incl ks ks' -> Good ks' st' (tr ++ o) x.
Proof.
  intros seen ks ks' st tr r st' o x S (m & T0 & t & n & Hcp & Hn & Ht & Hb & Hcl) Hp H Hk.
  destruct (error_struct _ _ _ _ _ S H) as (S' & _ & En & Ex & Eb & Eo & ->).
  assert (Hc : copies x (map (fun q => OFail (now st) (fst q) NetworkError) (filter (fun q => snd q =? r) (outgoing_requests st))) = []).
  { apply copies_fail_only. intros t' m' Hi. apply in_map_iff in Hi. destruct Hi as [p [Hp' _]]. discriminate. }
  assert (Hsub : forall e, In e (active_exchanges st') <-> In e (active_exchanges st) /\ e_remote e <> r).
  { intros e. rewrite Ex, filter_In, negb_true_iff, Z.eqb_neq. reflexivity. }
  exists m, T0, t, n. splits; auto.
  - rewrite copies_app, Hc, app_nil_r. exact Hcp.
  - intros e He Hr. apply Hsub in He. apply Ht; tauto.
  - intros Hi. apply Hb. unfold in_backlog in *. rewrite Eb in Hi. apply (count_occ_In Z.eq_dec) in Hi. apply (count_occ_In Z.eq_dec). pose proof (cnt_qdel_le (backlogs st) r x). lia.
  - intros Hn0. destruct (Hcl Hn0) as [[e [He1 He2]]|[Hin|[Hin|[[Hx [Hin|Hin]]|[[tf Hin]|Hin]]]]].
    + destruct (Z.eq_dec (e_remote e) r) as [Hr|Hr].
      * right. right. right. right. destruct (Hp e He1 He2 Hr) as [Ho|Hg]; [left|right; exact Hg].
        exists (now st). apply in_app_iff. right. apply error_outputs. exact Ho.
      * left. exists e. split; auto. apply Hsub. auto.
    + right. left. auto.
    + right. right. left. auto.
    + right. right. right. left. split; auto. left. apply in_app_iff. auto.
    + right. right. right. left. split; auto.
    + right. right. right. right. left. exists tf. apply in_app_iff. auto.
    + right. right. right. right. right. auto.
Qed.

Lemma good_drop_send : forall ks st tr t m x, Good ks st (tr ++ [OSend t m]) x -> m_rid m <> x -> Good ks st tr x.
Proof.
  intros ks st tr t m x (m0 & T0 & t0 & n & Hcp & Hn & Ht & Hb & Hcl) Hne.
  assert (Hin : forall o, In o (tr ++ [OSend t m]) -> (forall a b, o <> OSend a b) -> In o tr).
  { intros o Hi Hno. apply in_app_iff in Hi. destruct Hi as [Hi|[Hi|[]]]; auto. exfalso. eapply Hno. symmetry. exact Hi. }
  exists m0, T0, t0, n. splits; auto.
  - rewrite copies_app in Hcp. cbn in Hcp. assert (m_rid m =? x = false) as E by (apply Z.eqb_neq; auto). rewrite E, app_nil_r in Hcp. exact Hcp.
  - intros Hn0. destruct (Hcl Hn0) as [H|[H|[H|[[Hx [H|H]]|[[tf H]|H]]]]]; auto.
    + right. right. right. left. split; auto. left. apply Hin; auto. discriminate.
    + right. right. right. left. auto.
    + right. right. right. right. left. exists tf. apply Hin; auto. discriminate.
    + right. right. right. right. right. auto.
Qed.

Lemma sched_of_snoc_inv : forall m0 T0 t0 n l t m, l ++ [(t, m)] = sched_of m0 T0 t0 n ->
  exists n', n = S n' /\ l = sched_of m0 T0 t0 n' /\ m = m0.
Proof.
  intros m0 T0 t0 n l t m H. destruct n as [|n'].
  - unfold sched_of in H. cbn in H. destruct l; discriminate.
  - rewrite sched_of_S in H. apply app_inj_tail in H. destruct H as [H1 H2]. inv H2. exists n'. auto.
Qed.

(* a datagram handed to a refusing transport: [st1] is the state right before message_interface.send, with the invariants that
   would hold had the datagram gone out ([OSend] phantom); what really happens is dispatch_error for the remote, no datagram *)
Lemma hist_refused : forall seen ks st1 tr tm m e1 st' oe,
  Struct seen st1 -> Hist seen ks st1 (tr ++ [OSend tm m]) ->
  In e1 (active_exchanges st1) -> h_message (e_timer e1) = m ->
  (In (m_rid m, m_remote m) (outgoing_requests st1) \/ In (gone_key (m_rid m)) ks) ->
  mm_dispatch_error st1 (m_remote m) = (st', oe) -> Hist seen ks st' (tr ++ oe).
Proof.
  intros seen ks st1 tr tm m e1 st' oe S [Hun Hg] Hin1 Hm1 Hpend H.
  pose proof (s_ex _ _ S) as Hex. rewrite Forall_forall in Hex.
  assert (Hrem : forall e, In e (active_exchanges st1) -> e_remote e = m_remote (h_message (e_timer e))).
  { intros e He. pose proof (Hex e He) as Hok. unfold entry_ok in Hok. destruct Hok as (Hk & _). unfold e_remote. rewrite Hk. reflexivity. }
  destruct (error_struct _ _ _ _ _ S H) as (S' & _ & En & Ex & Eb & Eo & Eoe).
  assert (Hc : forall x, copies x oe = []).
  { intros x. rewrite Eoe. apply copies_fail_only. intros t' m' Hi. apply in_map_iff in Hi. destruct Hi as [p [Hp' _]]. discriminate. }
  split.
  - intros x Hx. rewrite copies_app, Hc, app_nil_r. specialize (Hun x Hx). rewrite copies_app in Hun. apply app_eq_nil in Hun. tauto.
  - intros x. destruct (Z.eq_dec (m_rid m) x) as [<-|Hne].
    + destruct (Hg (m_rid m)) as (m0 & T0 & t0 & n & Hcp & Hn & Ht & Hb & Hcl).
      rewrite copies_app in Hcp. cbn in Hcp. rewrite Z.eqb_refl in Hcp.
      destruct (sched_of_snoc_inv _ _ _ _ _ _ _ Hcp) as (n' & -> & Hcp' & <-).
      destruct (Hn ltac:(discriminate)) as (Hrid & Hrg & Hle).
      exists m, T0, t0, n'. splits; auto.
      * rewrite copies_app, Hc, app_nil_r. exact Hcp'.
      * intros _. splits; auto. lia.
      * intros e He Hr. exfalso. rewrite Ex in He. apply filter_In in He. destruct He as [He Hnr]. apply negb_true_iff in Hnr. apply Z.eqb_neq in Hnr.
        destruct (Ht e He Hr) as (Hme & _). apply Hnr. change (fst (fst e)) with (e_remote e). rewrite (Hrem e He), Hme. reflexivity.
      * intros Hi. exfalso. assert (Datatypes.S n' = O); [|discriminate]. apply Hb. unfold in_backlog in *. rewrite Eb in Hi.
        apply (count_occ_In Z.eq_dec) in Hi. apply (count_occ_In Z.eq_dec). pose proof (cnt_qdel_le (backlogs st1) (m_remote m) (m_rid m)). lia.
      * intros _. right. right. right. right. destruct Hpend as [Ho|Hgn]; [left|right; exact Hgn].
        exists (now st1). apply in_app_iff. right. rewrite Eoe. apply error_outputs. exact Ho.
    + apply (good_dispatch seen ks ks st1 tr (m_remote m) st' oe x S); auto; [eapply good_drop_send; eauto| |apply incl_refl].
      intros e He Hr Hrm. exfalso. apply Hne. rewrite <- Hr.
      assert (e = e1) as -> by (apply (in_unique_map e_remote (active_exchanges st1)); auto; [apply (s_ex_nodup _ _ S)|rewrite Hrm, (Hrem e1 Hin1), Hm1; reflexivity]).
      unfold e_rid. rewrite Hm1. reflexivity.
Qed.

(* dispatch_error for r in a state satisfying all invariants (transport error event, or a refused empty ACK / RST) *)
Lemma hist_dispatch : forall seen ks ks' st tr r st' o, Struct seen st -> Hist seen ks st tr -> Pend ks st ->
  mm_dispatch_error st r = (st', o) -> incl ks ks' -> Hist seen ks' st' (tr ++ o).
Proof.
  intros seen ks ks' st tr r st' o S [Hun Hg] [P1 _] H Hk.
  destruct (error_struct _ _ _ _ _ S H) as (_ & _ & _ & _ & _ & _ & Eo).
  split.
  - intros x Hx. rewrite copies_app, (Hun x Hx). rewrite Eo. apply copies_fail_only. intros t' m' Hi. apply in_map_iff in Hi. destruct Hi as [p [Hp' _]]. discriminate.
  - intros x. apply (good_dispatch seen ks ks' st tr r st' o x S); auto.
    intros e He Hr Hrm. destruct (P1 e He) as [Ho|Hgn]; [left; rewrite <- Hr, <- Hrm; exact Ho|right; apply Hk; rewrite <- Hr; exact Hgn].
Qed.

Lemma request_shape : forall seen st rid r tn st' o, Struct seen st -> ~ In rid seen -> wf_tuning tn ->
  tm_request st rid r tn = (st', o) ->
  let m := {| m_remote := r; m_mid := message_id st; m_rid := rid; m_tuning := tn |} in
  ((exists q, qget r (backlogs st) = Some q /\ o = [] /\ active_exchanges st' = active_exchanges st /\
             backlogs st' = qset r (q ++ [(m, rid)]) (backlogs st) /\ outgoing_requests st' = outgoing_requests st ++ [(rid, r)]) \/
  (qget r (backlogs st) = None /\ (forall e, In e (active_exchanges st) -> e_remote e <> r) /\ exists t sq st1 oe, range tn t /\
     Struct (rid :: seen) st1 /\ now st1 = now st /\ outgoing_requests st1 = outgoing_requests st ++ [(rid, r)] /\
     active_exchanges st1 = xset (r, message_id st) (rid, {| h_due := now st + t; h_seq := sq; h_message := m; h_timeout := t; h_counter := 0 |}) (active_exchanges st) /\
     (forall x, In x (back_rids (backlogs st1)) -> In x (back_rids (backlogs st))) /\
     (forall b, In b (backlogs st1) -> In b (backlogs st) \/ b = (r, [])) /\
     ((is_refusing st r = false /\ st' = st1 /\
       o = [ODraw (now st) (ACK_TIMEOUT tn) (ACK_TIMEOUT tn * ARF_num tn / ARF_den tn) t; OSend (now st) m]) \/
      (is_refusing st r = true /\ mm_dispatch_error st1 r = (st', oe) /\
       o = ODraw (now st) (ACK_TIMEOUT tn) (ACK_TIMEOUT tn * ARF_num tn / ARF_den tn) t :: oe)))).
Proof.
  intros seen st rid r tn st' o S Hfresh Hwf H m.
  unfold tm_request, send_message, _next_message_id in H. proj. fold m in H.
  set (st0 := {| now := now st; next_seq := next_seq st; message_id := Z.land 65535 (1 + message_id st); active_exchanges := active_exchanges st;
                 backlogs := backlogs st; outgoing_requests := outgoing_requests st ++ [(rid, r)]; rng := rng st; refusing := refusing st |}) in *.
  assert (S0 : Struct (rid :: seen) st0).
  { apply (struct_frame (rid :: seen) st); auto; try reflexivity; try (cbn; lia).
    eapply struct_seen_mono; [|exact S]. intros x Hx. right. exact Hx. }
  destruct (qget r (backlogs st)) as [q|] eqn:Q.
  - assert (HX : has_exchange_with st0 r = true).
    { rewrite <- (s_nstart _ _ S0). unfold in_backlogs. cbn. rewrite Q. reflexivity. }
    change (has_exchange_with st r) with (has_exchange_with st0 r) in H. rewrite HX in H. inv H.
    left. exists q. splits; auto.
  - assert (HX : has_exchange_with st0 r = false).
    { rewrite <- (s_nstart _ _ S0). unfold in_backlogs. cbn. rewrite Q. reflexivity. }
    apply (send_initially_struct (rid :: seen)) in H; auto; try (destruct S0; auto; fail).
    + destruct H as (S' & st1 & t & oe & S1 & Hrg & E1 & E2 & E5 & E3 & E4 & Hcase & _).
      right. split; auto. split; [apply (proj1 (has_exchange_false st0 r) HX)|].
      assert (in_backlogs st0 r = false) as IB by (unfold in_backlogs; cbn; rewrite Q; reflexivity).
      cbn [m_remote m] in E4. rewrite IB in E4. unfold qset in E4. rewrite qdel_notin in E4 by (apply qget_none; exact Q).
      exists t, (next_seq st0), st1, oe. splits; auto.
      * intros x Hx. rewrite E4 in Hx. exact Hx.
      * intros b Hb. rewrite E4 in Hb. destruct Hb as [<-|Hb]; auto.
    + constructor; [|apply (s_live _ _ S0)]. intros Hin. apply Hfresh. eapply live_rids_seen; [exact S|]. exact Hin.
    + cbn. auto.
Qed.

Lemma live_exch_seen : forall seen st e, Struct seen st -> In e (active_exchanges st) -> In (e_rid e) seen.
Proof. intros. eapply live_rids_seen; eauto. unfold live_rids. apply in_app_iff. left. apply in_map. auto. Qed.
Lemma live_back_seen : forall seen st x, Struct seen st -> In x (back_rids (backlogs st)) -> In x seen.
Proof. intros. eapply live_rids_seen; eauto. unfold live_rids. apply in_app_iff. right. auto. Qed.

Lemma hist_request : forall seen ks st tr rid r tn st' o, Struct seen st -> Hist seen ks st tr -> ~ In rid seen -> wf_tuning tn ->
  tm_request st rid r tn = (st', o) -> Hist (rid :: seen) ks st' (tr ++ o).
Proof.
  intros seen ks st tr rid r tn st' o S [Hun Hg] Hfresh Hwf H.
  pose proof (request_shape _ _ _ _ _ _ _ S Hfresh Hwf H) as Sh. cbv zeta in Sh.
  set (m := {| m_remote := r; m_mid := message_id st; m_rid := rid; m_tuning := tn |}) in *.
  destruct Sh as [(q & Q & -> & Ex & Eb & Eo)|(Q & Hno & t & sq & st1 & oe & Hrg & S1 & En1 & Eo1 & Ex & Eb & Ebl & Hcase)].
  - (* put into the backlog *)
    split.
    + intros x Hx. rewrite app_nil_r. apply Hun. intros Hi. apply Hx. right. exact Hi.
    + intros x. destruct (Z.eq_dec x rid) as [->|Hne].
      * exists m, 0, 0, O. splits; try tauto.
        -- rewrite app_nil_r. rewrite (Hun rid Hfresh). reflexivity.
        -- intros e He Hr. rewrite Ex in He. exfalso. apply Hfresh. rewrite <- Hr. eapply live_exch_seen; eauto.
      * apply (good_frame ks ks st st' tr [] x (Hg x)); [reflexivity|rewrite Ex; auto|rewrite Ex; auto| |apply incl_refl].
        unfold in_backlog. rewrite Eb. intros Hi.
        assert (Hc : (count_occ Z.eq_dec (back_rids (qset r (q ++ [(m, rid)]) (backlogs st))) x > 0)%nat) by (apply count_occ_In; exact Hi).
        rewrite cnt_qset in Hc. unfold q_rids in Hc. rewrite map_app, count_occ_app in Hc. cbn [map fst m_rid m] in Hc.
        assert (count_occ Z.eq_dec [rid] x = 0)%nat by (cbn; destruct (Z.eq_dec rid x); congruence).
        apply (count_occ_In Z.eq_dec). rewrite (cnt_qdel_split _ _ _ x (s_bl_nodup _ _ S) Q). unfold q_rids. lia.
  - (* handed to the transport right away *)
    assert (H1 : Hist (rid :: seen) ks st1 (tr ++ [ODraw (now st) (ACK_TIMEOUT tn) (ACK_TIMEOUT tn * ARF_num tn / ARF_den tn) t; OSend (now st) m])).
    2:{ destruct Hcase as [(_ & -> & ->)|(_ & D & ->)]; [exact H1|].
        change (tr ++ ODraw (now st) (ACK_TIMEOUT tn) (ACK_TIMEOUT tn * ARF_num tn / ARF_den tn) t :: oe) with (tr ++ [ODraw (now st) (ACK_TIMEOUT tn) (ACK_TIMEOUT tn * ARF_num tn / ARF_den tn) t] ++ oe).
        rewrite app_assoc. change (tr ++ [ODraw (now st) (ACK_TIMEOUT tn) (ACK_TIMEOUT tn * ARF_num tn / ARF_den tn) t; OSend (now st) m])
          with (tr ++ [ODraw (now st) (ACK_TIMEOUT tn) (ACK_TIMEOUT tn * ARF_num tn / ARF_den tn) t] ++ [OSend (now st) m]) in H1. rewrite app_assoc in H1.
        eapply (hist_refused (rid :: seen) ks st1 _ (now st) m); eauto.
        - rewrite Ex. apply in_xset. left. reflexivity.
        - reflexivity.
        - left. rewrite Eo1. apply in_app_iff. right. left. reflexivity. }
    split.
    + intros x Hx. rewrite copies_app, (Hun x); [|intros Hi; apply Hx; right; exact Hi]. cbn.
      assert (rid =? x = false) as -> by (apply Z.eqb_neq; intros ->; apply Hx; left; reflexivity). reflexivity.
    + intros x. destruct (Z.eq_dec x rid) as [->|Hne].
      * eapply (good_start ks st1 tr _ rid m (now st) t); eauto.
        -- cbn. rewrite Z.eqb_refl. reflexivity.
        -- intros e He Hr. apply Hfresh. rewrite <- Hr. eapply live_exch_seen; eauto.
        -- intros Hi. apply Eb in Hi. apply Hfresh. eapply live_back_seen; eauto.
      * apply (good_frame ks ks st st1 tr _ x (Hg x)); [| | |intros Hi; apply Eb; exact Hi|apply incl_refl].
        -- cbn. assert (rid =? x = false) as -> by (apply Z.eqb_neq; congruence). reflexivity.
        -- intros e He Hr. rewrite Ex in He. apply in_xset in He. destruct He as [->|[He _]]; auto. unfold e_rid, e_timer in Hr. cbn in Hr. congruence.
        -- intros e He Hr. rewrite Ex. apply in_xset. right. split; auto. intros Hk. apply (Hno e He). unfold e_remote. rewrite Hk. reflexivity.
Qed.


Lemma hist_recv : forall seen ks st tr r mid b st' o, Struct seen st -> Hist seen ks st tr -> Pend ks st ->
  _remove_exchange st r mid b = (st', o) -> Hist seen ((r, mid) :: ks) st' (tr ++ o).
Proof.
  intros seen ks st tr r mid b st' o S [Hun Hg] [_ Pd2] H.
  assert (Hincl : incl ks ((r, mid) :: ks)) by (intros x Hx; right; exact Hx).
  destruct (recv_shape _ _ _ _ _ _ _ S H) as [(X & -> & ->)|(mon & h & st2 & o1 & o2 & X & -> & Ho1c & _ & En & Er & Es & Ex & Eb & Enr & Hkeep & _ & C)].
  - split; [intros x Hx; rewrite app_nil_r; auto|]. intros x. apply (good_frame ks _ st st tr [] x (Hg x)); auto.
  - destruct (pop_facts seen st _ mon h S X) as (Hin & Hok & Hmon & Hk & _ & Hrest & Hbr & Hnd & Hcnt). cbn [fst] in *.
    change r with (fst (r, mid)) in C. apply (continue_after_pop seen st (r, mid) mon h st2 st' o2 S X En Er Ex Eb Enr) in C.
    destruct C as (S' & _ & q & Q & Hq). cbn [fst] in *.
    assert (Ho1 : forall x, copies x o1 = []) by (intros x; destruct Ho1c as [->|[_ ->]]; reflexivity).
    (* Good for the closed exchange *)
    assert (Gmon : forall stx o2', copies mon o2' = [] -> (forall e, In e (active_exchanges stx) -> e_rid e <> mon) ->
                   (forall x, In x (back_rids (backlogs stx)) -> x <> mon) -> Good ((r, mid) :: ks) stx (tr ++ o1 ++ o2') mon).
    { intros stx o2' Hc2 Hex' Hb'. destruct (Hg mon) as (m & T0 & t & n & Hc & Hn & Ht & Hb & Hcl).
      destruct (Ht _ Hin) as (Hm & Hnc & _); [unfold e_rid, e_timer; cbn; auto|]. unfold e_timer in Hm, Hnc. cbn in Hm, Hnc.
      exists m, T0, t, n. splits; auto.
      - rewrite !copies_app, Ho1, Hc2, !app_nil_r. exact Hc.
      - intros e He Hr. exfalso. eapply Hex'; eauto.
      - intros Hi. exfalso. eapply Hb'; eauto.
      - intros _. right. left. left. rewrite <- Hm. exact Hk. }
    destruct q as [|[m2 mon2] rest].
    + destruct Hq as (-> & Ex' & Eb' & _ & _). split.
      * intros x Hx. rewrite !copies_app, Ho1, !app_nil_r. auto.
      * intros x. destruct (Z.eq_dec x mon) as [->|Hne].
        -- apply Gmon; auto.
           ++ intros e He. rewrite Ex' in He. apply Hrest in He. tauto.
           ++ intros y Hy. apply Hbr. rewrite Eb' in Hy. apply (count_occ_In Z.eq_dec) in Hy. apply (count_occ_In Z.eq_dec). pose proof (cnt_qdel_le (backlogs st) r y). lia.
        -- apply (good_frame ks _ st st' tr _ x (Hg x)); auto.
           ++ rewrite app_nil_r. apply Ho1.
           ++ intros e He Hr. rewrite Ex' in He. apply Hrest in He. tauto.
           ++ intros e He Hr. rewrite Ex'. apply in_xdel. split; auto. intros Hk'. apply Hne. rewrite <- Hr.
              assert (e = ((r, mid), (mon, h))) as -> by (apply (in_unique_map e_remote (active_exchanges st)); auto; [apply (s_ex_nodup _ _ S)|unfold e_remote; rewrite Hk'; reflexivity]).
              unfold e_rid, e_timer. cbn. auto.
           ++ unfold in_backlog. rewrite Eb'. intros Hy. apply (count_occ_In Z.eq_dec) in Hy. apply (count_occ_In Z.eq_dec). pose proof (cnt_qdel_le (backlogs st) r x). lia.
    + destruct Hq as (-> & Hr2 & Hwf2 & Hseen2 & t & st1 & oe & Hrg & S1 & En1 & Eo1 & Ex' & Eb' & Hcase).
      set (dr := ODraw (now st) (ACK_TIMEOUT (m_tuning m2)) (ACK_TIMEOUT (m_tuning m2) * ARF_num (m_tuning m2) / ARF_den (m_tuning m2)) t) in *.
      assert (Hq' : In (r, (m2, m_rid m2) :: rest) (backlogs st)) by (apply qget_in; exact Q).
      assert (Hne2 : m_rid m2 <> mon) by (apply Hbr; apply (in_back_rids _ r _ (m2, m_rid m2) Hq'); left; reflexivity).
      assert (Hb2 : forall y, In y (back_rids (backlogs st1)) -> In y (back_rids (backlogs st)) /\ y <> m_rid m2).
      { intros y Hy. pose proof (s_live _ _ S1) as Hl. unfold live_rids in Hl. split.
        - rewrite Eb' in Hy. apply (count_occ_In Z.eq_dec) in Hy. apply (count_occ_In Z.eq_dec). rewrite cnt_qset in Hy.
          rewrite (cnt_qdel_split _ _ _ y (s_bl_nodup _ _ S) Q). change (q_rids ((m2, m_rid m2) :: rest)) with ([m_rid m2] ++ q_rids rest). rewrite count_occ_app. lia.
        - intros ->. eapply nodup_app_disjoint; [exact Hl| |exact Hy]. rewrite Ex'. apply in_map_iff. eexists. split; [|apply in_xset; left; reflexivity]. reflexivity. }
      assert (H1 : Hist seen ((r, mid) :: ks) st1 (tr ++ o1 ++ [dr; OSend (now st) m2])).
      2:{ destruct Hcase as [(_ & -> & ->)|(_ & D & ->)]; [exact H1|].
          change (dr :: oe) with ([dr] ++ oe). rewrite !app_assoc. change [dr; OSend (now st) m2] with ([dr] ++ [OSend (now st) m2]) in H1. rewrite !app_assoc in H1.
          rewrite <- Hr2 in D. eapply (hist_refused seen _ st1 _ (now st) m2); eauto.
          - rewrite Ex'. apply in_xset. left. reflexivity.
          - reflexivity.
          - rewrite Hr2, Eo1. destruct (Pd2 r _ (m2, m_rid m2) Hq' (or_introl eq_refl)) as [Ho|Hgn]; [left; apply Hkeep; auto|right; right; exact Hgn]. }
      split.
      * intros x Hx. rewrite !copies_app, Ho1, (Hun x Hx). cbn.
        assert (m_rid m2 =? x = false) as -> by (apply Z.eqb_neq; intros <-; tauto). reflexivity.
      * intros x. destruct (Z.eq_dec x mon) as [->|Hne]; [|destruct (Z.eq_dec x (m_rid m2)) as [->|Hne2']].
        -- apply Gmon.
           ++ cbn. assert (m_rid m2 =? mon = false) as -> by (apply Z.eqb_neq; auto). reflexivity.
           ++ intros e He. rewrite Ex' in He. apply in_xset in He. destruct He as [->|[He _]]; [unfold e_rid, e_timer; cbn; auto|]. apply Hrest in He. tauto.
           ++ intros y Hy. apply Hbr. apply Hb2. exact Hy.
        -- (* the next message from the backlog goes out for the first time *)
           destruct (Hg (m_rid m2)) as (m0 & T00 & t0 & n0 & Hc0 & _ & Ht0 & Hb0 & _).
           assert (n0 = O) by (apply Hb0; apply (in_back_rids _ r _ (m2, m_rid m2) Hq'); left; reflexivity). subst n0.
           rewrite app_assoc. eapply (good_start _ st1 (tr ++ o1) _ (m_rid m2) m2 (now st) t); eauto.
           ++ rewrite copies_app, Ho1, Hc0. reflexivity.
           ++ cbn. rewrite Z.eqb_refl. reflexivity.
           ++ rewrite Ex'. unfold mk_timer. rewrite En. reflexivity.
           ++ intros e He Hr. apply Hrest in He. destruct He as (He & _). destruct (Ht0 e He Hr) as (_ & Hz & _).
              pose proof (s_ex _ _ S) as Hex. rewrite Forall_forall in Hex. specialize (Hex e He). unfold entry_ok in Hex. cbn in Hz. lia.
           ++ intros Hi. apply Hb2 in Hi. tauto.
        -- apply (good_frame ks _ st st1 tr _ x (Hg x)); auto.
           ++ rewrite copies_app, Ho1. cbn. assert (m_rid m2 =? x = false) as -> by (apply Z.eqb_neq; auto). reflexivity.
           ++ intros e He Hr. rewrite Ex' in He. apply in_xset in He. destruct He as [->|[He _]]; [exfalso; apply Hne2'; rewrite <- Hr; reflexivity|]. apply Hrest in He. tauto.
           ++ intros e He Hr. rewrite Ex'. apply in_xset. right.
              assert (In e (xdel (r, mid) (active_exchanges st))).
              { apply in_xdel. split; auto. intros Hk'. apply Hne. rewrite <- Hr.
                assert (e = ((r, mid), (mon, h))) as -> by (apply (in_unique_map e_remote (active_exchanges st)); auto; [apply (s_ex_nodup _ _ S)|unfold e_remote; rewrite Hk'; reflexivity]).
                unfold e_rid, e_timer. cbn. auto. }
              split; auto. intros Hk'. apply Hrest in H0. destruct H0 as (_ & H0 & _). apply H0. unfold e_remote. rewrite Hk'. cbn. exact Hr2.
           ++ unfold in_backlog. intros Hy. apply Hb2. exact Hy.
Qed.

Lemma pow2_succ : forall c, 0 <= c -> 2 ^ (c + 1) = 2 * 2 ^ c.
Proof. intros. rewrite Z.pow_add_r by lia. lia. Qed.

Lemma hist_retransmit : forall seen ks st tr e1 h st' o, Struct seen st -> Hist seen ks st tr -> Pend ks st ->
  In e1 (active_exchanges st) -> e_timer e1 = h -> now st = h_due h ->
  _retransmit st h = (st', o) -> Hist seen ks st' (tr ++ o).
Proof.
  intros seen ks st tr e1 h st' o SS [Hun Hg] [Hp1 Hp2] Hin Hh Hnow H.
  pose proof (retransmit_struct _ _ _ _ _ _ SS Hin Hh H) as Sh. cbv zeta in Sh.
  set (m := h_message h) in *. set (k := (m_remote m, m_mid m)) in *.
  destruct Sh as (S' & _ & En & X & Sh).
  destruct (pop_facts seen st k (m_rid m) h SS X) as (Hin1 & Hok & _ & _ & _ & Hrest & Hbr & Hnd & Hcnt).
  unfold entry_ok in Hok. cbn [e_timer fst snd] in Hok. fold m in Hok. destruct Hok as (_ & _ & Hwf & Hc & _ & Hto & Hseen).
  assert (Hother : forall x e, x <> m_rid m -> In e (active_exchanges st) -> e_rid e = x -> In e (xdel k (active_exchanges st))).
  { intros x e Hne He Hr. apply in_xdel. split; auto. intros Hk'. apply Hne. rewrite <- Hr.
    assert (e = (k, (m_rid m, h))) as -> by (apply (in_unique_map e_remote (active_exchanges st)); auto; [apply (s_ex_nodup _ _ SS)|unfold e_remote; rewrite Hk'; reflexivity]).
    reflexivity. }
  destruct (Hg (m_rid m)) as (m' & T0 & t & n & Hcp & Hn & Ht & Hb & Hcl).
  destruct (Ht _ Hin1) as (Hm & Hnc & Hto' & Hdue); [reflexivity|]. unfold e_timer in Hm, Hnc, Hto', Hdue. cbn [snd] in Hm, Hnc, Hto', Hdue. fold m in Hm. subst m'.
  assert (Hn0 : n <> O) by lia. destruct (Hn Hn0) as (_ & Hrg & _).
  destruct Sh as [(Hlt & st1 & oe & S1 & En1 & Ex & Eb & Eo & Hcase)|(Heq & -> & Ex & Eb & Eo)].
  - (* retransmission *)
    assert (H1 : Hist seen ks st1 (tr ++ [OSend (now st) m])).
    2:{ destruct Hcase as [(_ & -> & ->)|(_ & D & ->)]; [exact H1|].
        eapply (hist_refused seen ks st1 tr (now st) m); eauto.
        - rewrite Ex. apply in_xset. left. reflexivity.
        - reflexivity.
        - rewrite Eo. destruct (Hp1 _ Hin1) as [Ho|Hgn]; [left; exact Ho|right; exact Hgn]. }
    split.
    + intros x Hx. rewrite copies_app, (Hun x Hx). cbn. assert (m_rid m =? x = false) as -> by (apply Z.eqb_neq; intros <-; tauto). reflexivity.
    + intros x. destruct (Z.eq_dec x (m_rid m)) as [->|Hne].
      * exists m, T0, t, (S n). splits.
        -- rewrite copies_app, Hcp, sched_of_S. cbn. rewrite Z.eqb_refl. repeat f_equal.
           rewrite Hnow, Hdue. assert (Z.of_nat n = h_counter h + 1) by lia. rewrite H0. reflexivity.
        -- intros _. splits; auto. lia.
        -- intros e He Hr. rewrite Ex in He. apply in_xset in He. destruct He as [->|[He _]].
           ++ unfold e_timer, mk_timer. cbn. splits; auto; try lia.
              ** rewrite Hto'. rewrite pow2_succ by lia. ring.
              ** rewrite Hnow, Hdue, Hto'. rewrite (pow2_succ (h_counter h + 1)) by lia. rewrite pow2_succ by lia. ring.
           ++ apply Hrest in He. tauto.
        -- intros Hi. exfalso. unfold in_backlog in Hi. rewrite Eb in Hi. apply (Hbr _ Hi). reflexivity.
        -- intros _. left. eexists. split; [rewrite Ex; apply in_xset; left; reflexivity|]. reflexivity.
      * apply (good_frame ks ks st st1 tr _ x (Hg x)); auto; [| | |unfold in_backlog; rewrite Eb; auto|apply incl_refl].
        -- cbn. assert (m_rid m =? x = false) as -> by (apply Z.eqb_neq; auto). reflexivity.
        -- intros e He Hr. rewrite Ex in He. apply in_xset in He. destruct He as [->|[He _]]; [exfalso; apply Hne; rewrite <- Hr; reflexivity|]. apply Hrest in He. tauto.
        -- intros e He Hr. rewrite Ex. apply in_xset. right. pose proof (Hother x e Hne He Hr) as Hd. split; auto. apply in_xdel in Hd. tauto.
  - (* giving up *)
    assert (Hco : forall x, copies x (gave_up_outputs st (m_remote m)) = []).
    { intros x. apply copies_fail_only. intros t' m'' Hi. unfold gave_up_outputs in Hi. apply in_map_iff in Hi. destruct Hi as [p [Hp _]]. discriminate. }
    split.
    + intros x Hx. rewrite copies_app, Hco, app_nil_r. auto.
    + intros x. destruct (Z.eq_dec x (m_rid m)) as [->|Hne].
      * exists m, T0, t, n. splits; auto.
        -- rewrite copies_app, Hco, app_nil_r. exact Hcp.
        -- intros e He Hr. rewrite Ex in He. apply Hrest in He. tauto.
        -- intros Hi. exfalso. unfold in_backlog in Hi. rewrite Eb in Hi. apply (Hbr (m_rid m)); auto.
           apply (count_occ_In Z.eq_dec) in Hi. apply (count_occ_In Z.eq_dec). pose proof (cnt_qdel_le (backlogs st) (m_remote m) (m_rid m)). lia.
        -- intros _. right. right. right. left. split; [lia|]. destruct (Hp1 _ Hin1) as [Hout|Hgone]; [left|right; exact Hgone].
           apply in_app_iff. right. unfold gave_up_outputs. apply in_map_iff.
           exists (m_rid m, m_remote m). split.
           ++ cbn [fst]. f_equal. rewrite Hnow, Hdue, Heq. reflexivity.
           ++ apply filter_In. split; [exact Hout|]. cbn. apply Z.eqb_refl.
      * apply (good_frame ks ks st st' tr _ x (Hg x)); auto; [| | |apply incl_refl].
        -- intros e He Hr. rewrite Ex in He. apply Hrest in He. tauto.
        -- intros e He Hr. rewrite Ex. apply Hother with (x := x); auto.
        -- unfold in_backlog. rewrite Eb. intros Hi. apply (count_occ_In Z.eq_dec) in Hi. apply (count_occ_In Z.eq_dec). pose proof (cnt_qdel_le (backlogs st) (m_remote m) x). lia.
Qed.

Lemma hist_same_exch : forall seen ks ks' st st' tr o, Hist seen ks st tr ->
  active_exchanges st' = active_exchanges st -> backlogs st' = backlogs st -> (forall t m, ~ In (OSend t m) o) -> incl ks ks' ->
  Hist seen ks' st' (tr ++ o).
Proof.
  intros seen ks ks' st st' tr o [Hun Hg] Ex Eb Ho Hk. assert (Hc : forall x, copies x o = []) by (intros x; apply copies_fail_only; exact Ho).
  split.
  - intros x Hx. rewrite copies_app, Hc, app_nil_r. auto.
  - intros x. apply (good_frame ks ks' st st' tr o x (Hg x)); auto; try (rewrite Ex; auto; fail). unfold in_backlog. rewrite Eb. auto.
Qed.

Lemma hist_ks_mono : forall seen ks ks' st tr, Hist seen ks st tr -> incl ks ks' -> Hist seen ks' st tr.
Proof.
  intros seen ks ks' st tr Hh Hk. rewrite <- (app_nil_r tr). apply (hist_same_exch seen ks ks' st st tr [] Hh); auto.
Qed.


(* ---- whole runs *)
Fixpoint wf_events (seen : list Z) (evs : list event) : Prop :=
  match evs with [] => True | e :: r => wf_event seen e /\ wf_events (seen_after seen e) r end.
Fixpoint seen_all (seen : list Z) (evs : list event) : list Z :=
  match evs with [] => seen | e :: r => seen_all (seen_after seen e) r end.
Fixpoint ks_all (ks : list (Z * Z)) (evs : list event) : list (Z * Z) :=
  match evs with [] => ks | e :: r => ks_all (ks_after ks e) r end.
(* the (remote, mid) pairs of the ACK / RST / piggy-backed-response datagrams in an event list, [err_key r] for every transport
   error reported for r, [gone_key rid] for every cancellation of / response to request rid *)
Definition recv_keys (evs : list event) : list (Z * Z) := ks_all [] evs.

Lemma ks_after_app : forall ks e, exists l, ks_after ks e = l ++ ks /\ forall ks', ks_after ks' e = l ++ ks'.
Proof.
  intros ks e. destruct e as [rid r tn|r b mid|t| | |r|rid|r ty mid rid|r on]; cbn;
    [exists []|exists [(r, mid)]|exists []|exists []|exists []|exists [err_key r]|exists [gone_key rid]|
     exists (gone_key rid :: (if ty =? 0 then [(r, mid)] else []))|exists []]; unfold ack_keys; try (destruct (ty =? 0)); split; reflexivity.
Qed.
Lemma ks_all_in : forall evs ks k, In k (ks_all ks evs) -> In k ks \/ In k (recv_keys evs).
Proof.
  unfold recv_keys. induction evs as [|e evs IH]; cbn; intros ks k H; auto.
  destruct (ks_after_app ks e) as [l [E1 E2]]. rewrite E1 in H. apply IH in H. destruct H as [H|H].
  - apply in_app_iff in H. destruct H as [H|H]; auto. right.
    assert (forall evs ks1 ks2, incl ks1 ks2 -> incl (ks_all ks1 evs) (ks_all ks2 evs)) as Hm.
    { clear. induction evs as [|e evs IH]; cbn; intros ks1 ks2 Hi; auto. apply IH. destruct (ks_after_app ks1 e) as [l [E1 E2]]. rewrite E1, (E2 ks2).
      intros x Hx. apply in_app_iff in Hx. apply in_app_iff. destruct Hx; auto. }
    assert (forall evs ks, incl ks (ks_all ks evs)) as Hi.
    { clear. induction evs as [|e evs IH]; cbn; intros ks x Hx; auto. apply IH. destruct (ks_after_app ks e) as [l [E1 _]]. rewrite E1. apply in_app_iff. auto. }
    apply Hi. rewrite (E2 []). apply in_app_iff. auto.
  - right. revert H. unfold recv_keys.
    assert (forall evs ks1 ks2, incl ks1 ks2 -> incl (ks_all ks1 evs) (ks_all ks2 evs)) as Hm.
    { clear. induction evs as [|e' evs IH]; cbn; intros ks1 ks2 Hi; auto. apply IH. destruct (ks_after_app ks1 e') as [l' [E1 E2]]. rewrite E1, (E2 ks2).
      intros x Hx. apply in_app_iff in Hx. apply in_app_iff. destruct Hx; auto. }
    apply Hm. intros x [].
Qed.

(* ---- requests stay pending while their message is in the message layer *)
Lemma pend_mono : forall ks ks' st, Pend ks st -> incl ks ks' -> Pend ks' st.
Proof.
  intros ks ks' st [P1 P2] Hk. split.
  - intros e He. destruct (P1 e He); auto.
  - intros r q p Hq Hp. destruct (P2 r q p Hq Hp); auto.
Qed.

Lemma pend_dispatch : forall ks st r st' o, Pend ks st -> mm_dispatch_error st r = (st', o) -> Pend ks st'.
Proof.
  intros ks st r st' o [P1 P2] H. unfold mm_dispatch_error, tm_dispatch_error in H. inv H. split; cbn.
  - intros e He. apply filter_In in He. destruct He as [He Hr]. destruct (P1 e He) as [Ho|Hg]; auto. left. apply filter_In. split; auto.
  - intros r' q p Hq Hp. apply in_qdel in Hq. destruct Hq as [Hq Hne]. destruct (P2 r' q p Hq Hp) as [Ho|Hg]; auto. left.
    apply filter_In. split; auto. cbn. apply negb_true_iff. apply Z.eqb_neq. exact Hne.
Qed.

Lemma pend_recv : forall seen ks st r mid b st' o, Struct seen st -> Pend ks st -> _remove_exchange st r mid b = (st', o) ->
  Pend ((r, mid) :: ks) st'.
Proof.
  intros seen ks st r mid b st' o S [P1 P2] H.
  assert (Hmono : forall (ks' : list (Z * Z)) st', incl ks ks' ->
            (forall e, In e (active_exchanges st') -> In e (active_exchanges st) /\
                       (In (e_rid e, e_remote e) (outgoing_requests st) -> In (e_rid e, e_remote e) (outgoing_requests st') \/ In (gone_key (e_rid e)) ks')) ->
            (forall r q p, In (r, q) (backlogs st') -> In p q -> (exists q0, In (r, q0) (backlogs st) /\ In p q0) /\
                       (In (m_rid (fst p), r) (outgoing_requests st) -> In (m_rid (fst p), r) (outgoing_requests st') \/ In (gone_key (m_rid (fst p))) ks')) ->
            Pend ks' st').
  { intros ks' s' Hk H1 H2. split.
    - intros x Hx. destruct (H1 x Hx) as [Hi Hk']. destruct (P1 x Hi) as [Ho|Hg]; auto.
    - intros r0 q p Hq Hp. destruct (H2 r0 q p Hq Hp) as [[q0 [Hq0 Hp0]] Hk']. destruct (P2 r0 q0 p Hq0 Hp0) as [Ho|Hg]; auto. }
  assert (True) as _ by exact I.
  idtac.
  { assert (Hk : incl ks ((r, mid) :: ks)) by (intros x Hx; right; exact Hx).
    destruct (recv_shape _ _ _ _ _ _ _ S H) as [(X & -> & ->)|(mon & h & st2 & o1 & o2 & X & -> & _ & _ & En & Er & Es & Ex & Eb & Enr & Hkeep & _ & C)].
    + apply Hmono; auto. intros r' q p Hq Hp. split; eauto.
    + destruct (pop_facts seen st _ mon h S X) as (Hin & _ & _ & _ & _ & Hrest & Hbr & _). cbn [fst] in *.
      change r with (fst (r, mid)) in C. apply (continue_after_pop seen st (r, mid) mon h st2 st' o2 S X En Er Ex Eb Enr) in C.
      destruct C as (_ & _ & q & Q & Hq). cbn [fst] in *. pose proof (qget_in _ _ _ Q) as HQ.
      destruct q as [|[m2 mon2] rest].
      * destruct Hq as (_ & Ex' & Eb' & _ & Eo'). apply Hmono; auto.
        -- intros e He. rewrite Ex' in He. destruct (Hrest e He) as (He1 & _ & He3). split; auto. intros Ho. left. rewrite Eo'. apply Hkeep; auto.
        -- intros r' q' p Hq' Hp. rewrite Eb' in Hq'. apply in_qdel in Hq'. destruct Hq' as [Hq' _]. split; [eauto|].
           intros Ho. left. rewrite Eo'. apply Hkeep; auto. cbn. apply Hbr. eapply in_back_rids; eauto.
      * destruct Hq as (-> & Hr2 & _ & _ & t & st1 & oe & _ & _ & _ & Eo' & Ex' & Eb' & Hcase).
        assert (H1 : Pend ((r, mid) :: ks) st1); [|destruct Hcase as [(_ & -> & _)|(_ & D & _)]; [exact H1|eapply pend_dispatch; eauto]].
        split.
        -- intros e He. rewrite Ex' in He. apply in_xset in He. destruct He as [->|[He _]].
           ++ unfold e_rid, e_remote, e_timer. cbn. rewrite Hr2. destruct (P2 r _ (m2, m_rid m2) HQ (or_introl eq_refl)) as [Ho|Hg]; [left|right; right; exact Hg].
              rewrite Eo'. apply Hkeep; auto. cbn. apply Hbr. apply (in_back_rids _ r _ (m2, m_rid m2) HQ). left. reflexivity.
           ++ destruct (Hrest e He) as (He1 & _ & He3). destruct (P1 e He1) as [Ho|Hg]; [left|right; right; exact Hg]. rewrite Eo'. apply Hkeep; auto.
        -- intros r' q' p Hq' Hp. rewrite Eb' in Hq'. apply in_qset in Hq'.
           assert (exists q0, In (r', q0) (backlogs st) /\ In p q0) as [q0 [Hq0 Hp0]].
           { destruct Hq' as [Hq'|[Hq' _]]; [inv Hq'; exists ((m2, m_rid m2) :: rest); split; auto; right; exact Hp | eauto]. }
           destruct (P2 r' q0 p Hq0 Hp0) as [Ho|Hg]; [left|right; right; exact Hg]. rewrite Eo'. apply Hkeep; auto. cbn. apply Hbr. eapply in_back_rids; eauto. }
Qed.

Lemma step_pend : forall seen ks st e st' o, Struct seen st -> Pend ks st -> wf_event seen e -> step st e = (st', o) ->
  Pend (ks_after ks e) st'.
Proof.
  intros seen ks st e st' o S [P1 P2] W H.
  assert (Hmono : forall (ks' : list (Z * Z)) st', incl ks ks' ->
            (forall e, In e (active_exchanges st') -> In e (active_exchanges st) /\
                       (In (e_rid e, e_remote e) (outgoing_requests st) -> In (e_rid e, e_remote e) (outgoing_requests st') \/ In (gone_key (e_rid e)) ks')) ->
            (forall r q p, In (r, q) (backlogs st') -> In p q -> (exists q0, In (r, q0) (backlogs st) /\ In p q0) /\
                       (In (m_rid (fst p), r) (outgoing_requests st) -> In (m_rid (fst p), r) (outgoing_requests st') \/ In (gone_key (m_rid (fst p))) ks')) ->
            Pend ks' st').
  { intros ks' s' Hk H1 H2. split.
    - intros x Hx. destruct (H1 x Hx) as [Hi Hk']. destruct (P1 x Hi) as [Ho|Hg]; auto.
    - intros r0 q p Hq Hp. destruct (H2 r0 q p Hq Hp) as [[q0 [Hq0 Hp0]] Hk']. destruct (P2 r0 q0 p Hq0 Hp0) as [Ho|Hg]; auto. }
  destruct e as [rid r tn|r b mid|t| | |r|rid|r ty mid rid|r on]; cbn [step ks_after] in *.
  - destruct W as [W1 W2]. pose proof (request_shape _ _ _ _ _ _ _ S W1 W2 H) as Sh. cbv zeta in Sh.
    destruct Sh as [(q & Q & -> & Ex & Eb & Eo)|(Q & Hno & t & sq & st1 & oe & Hrg & S1 & En1 & Eo & Ex & Eb & Ebl & Hcase)].
    + split.
      * intros e He. rewrite Ex in He. destruct (P1 e He) as [Ho|Hg]; auto. left. rewrite Eo. apply in_app_iff. auto.
      * intros r' q' p Hq Hp. rewrite Eb in Hq. apply in_qset in Hq. destruct Hq as [Hq|[Hq _]].
        -- inv Hq. apply in_app_iff in Hp. destruct Hp as [Hp|[<-|[]]].
           ++ destruct (P2 r q p (qget_in _ _ _ Q) Hp) as [Ho|Hg]; auto. left. rewrite Eo. apply in_app_iff. auto.
           ++ left. rewrite Eo. apply in_app_iff. right. left. reflexivity.
        -- destruct (P2 r' q' p Hq Hp) as [Ho|Hg]; auto. left. rewrite Eo. apply in_app_iff. auto.
    + assert (H1 : Pend ks st1); [|destruct Hcase as [(_ & -> & _)|(_ & D & _)]; [exact H1|eapply pend_dispatch; eauto]].
      split.
      * intros e He. rewrite Ex in He. apply in_xset in He. destruct He as [->|[He _]].
        -- left. rewrite Eo. apply in_app_iff. right. left. reflexivity.
        -- destruct (P1 e He) as [Ho|Hg]; auto. left. rewrite Eo. apply in_app_iff. auto.
      * intros r' q' p Hq Hp. destruct (Ebl _ Hq) as [Hq'|Hq']; [|inv Hq'; inv Hp].
        destruct (P2 r' q' p Hq' Hp) as [Ho|Hg]; auto. left. rewrite Eo. apply in_app_iff. auto.
  - eapply pend_recv; eauto. split; auto.
  - inv H. apply Hmono; [apply incl_refl| |]; cbn; intros; eauto.
  - destruct (next_timer st) as [h|] eqn:N; [|inv H; split; auto].
    destruct (next_timer_facts _ _ N) as (e & He1 & He2 & Hmin).
    assert (S1 : Struct seen (set_now st (Z.max (now st) (h_due h)))) by (apply struct_set_now; auto).
    pose proof (retransmit_struct _ _ _ _ _ _ S1 He1 He2 H) as Sh. cbv zeta in Sh. destruct Sh as (_ & _ & _ & X & Sh).
    destruct (pop_facts seen _ _ _ h S1 X) as (Hin & _ & _ & _ & _ & Hrest & _). proj.
    destruct Sh as [(_ & st1 & oe & _ & _ & Ex & Eb & Eo & Hcase)|(_ & _ & Ex & Eb & Eo)]; proj.
    + assert (H1 : Pend ks st1); [|destruct Hcase as [(_ & -> & _)|(_ & D & _)]; [exact H1|eapply pend_dispatch; eauto]].
      split.
      * intros e' He'. rewrite Ex in He'. apply in_xset in He'. destruct He' as [->|[He' _]].
        -- rewrite Eo. apply (P1 _ Hin).
        -- rewrite Eo. apply P1. apply Hrest in He'. tauto.
      * intros r' q' p Hq' Hp. rewrite Eb in Hq'. rewrite Eo. eauto.
    + split.
      * intros e' He'. rewrite Ex in He'. destruct (Hrest e' He') as (He1' & He2' & _). destruct (P1 e' He1') as [Ho|Hg]; auto. left. rewrite Eo.
        apply filter_In. split; auto. cbn. apply negb_true_iff. apply Z.eqb_neq. exact He2'.
      * intros r' q' p Hq' Hp. rewrite Eb in Hq'. apply in_qdel in Hq'. destruct Hq' as [Hq' Hne]. destruct (P2 r' q' p Hq' Hp) as [Ho|Hg]; auto. left. rewrite Eo.
        apply filter_In. split; auto. cbn. apply negb_true_iff. apply Z.eqb_neq. exact Hne.
  - destruct (next_timer st) as [h|] eqn:N; [|inv H; split; auto].
    destruct (h_due h <=? now st) eqn:Hd; [|inv H; split; auto].
    destruct (next_timer_facts _ _ N) as (e & He1 & He2 & Hmin).
    pose proof (retransmit_struct _ _ _ _ _ _ S He1 He2 H) as Sh. cbv zeta in Sh. destruct Sh as (_ & _ & _ & X & Sh).
    destruct (pop_facts seen _ _ _ h S X) as (Hin & _ & _ & _ & _ & Hrest & _). proj.
    destruct Sh as [(_ & st1 & oe & _ & _ & Ex & Eb & Eo & Hcase)|(_ & _ & Ex & Eb & Eo)]; proj.
    + assert (H1 : Pend ks st1); [|destruct Hcase as [(_ & -> & _)|(_ & D & _)]; [exact H1|eapply pend_dispatch; eauto]].
      split.
      * intros e' He'. rewrite Ex in He'. apply in_xset in He'. destruct He' as [->|[He' _]].
        -- rewrite Eo. apply (P1 _ Hin).
        -- rewrite Eo. apply P1. apply Hrest in He'. tauto.
      * intros r' q' p Hq' Hp. rewrite Eb in Hq'. rewrite Eo. eauto.
    + split.
      * intros e' He'. rewrite Ex in He'. destruct (Hrest e' He') as (He1' & He2' & _). destruct (P1 e' He1') as [Ho|Hg]; auto. left. rewrite Eo.
        apply filter_In. split; auto. cbn. apply negb_true_iff. apply Z.eqb_neq. exact He2'.
      * intros r' q' p Hq' Hp. rewrite Eb in Hq'. apply in_qdel in Hq'. destruct Hq' as [Hq' Hne]. destruct (P2 r' q' p Hq' Hp) as [Ho|Hg]; auto. left. rewrite Eo.
        apply filter_In. split; auto. cbn. apply negb_true_iff. apply Z.eqb_neq. exact Hne.
  - destruct (error_struct _ _ _ _ _ S H) as (_ & _ & _ & Ex & Eb & Eo & _). apply Hmono; [intros x Hx; right; exact Hx| |].
    + intros e He. rewrite Ex in He. apply filter_In in He. destruct He as [He Hr]. split; auto. intros Ho. left. rewrite Eo. apply filter_In. split; auto.
    + intros r' q' p Hq' Hp. rewrite Eb in Hq'. apply in_qdel in Hq'. destruct Hq' as [Hq' Hne]. split; [eauto|]. intros Ho. left. rewrite Eo.
      apply filter_In. split; auto. cbn. apply negb_true_iff. apply Z.eqb_neq. exact Hne.
  - inv H. apply Hmono; [intros x Hx; right; exact Hx| |]; cbn.
    + intros e He. split; auto. intros Ho. destruct (Z.eq_dec (e_rid e) rid) as [<-|Hne]; [right; left; reflexivity|left].
      apply filter_In. split; auto. cbn. apply negb_true_iff. apply Z.eqb_neq. exact Hne.
    + intros r' q' p Hq' Hp. split; [eauto|]. intros Ho. destruct (Z.eq_dec (m_rid (fst p)) rid) as [<-|Hne]; [right; left; reflexivity|left].
      apply filter_In. split; auto. cbn. apply negb_true_iff. apply Z.eqb_neq. exact Hne.
  - destruct (response_shape _ _ _ _ _ _ _ _ S H) as (st1 & o1 & st2 & o2 & o3 & E1 & -> & S1 & Hn1 & S2 & En & Ex & Eb & Hinc & Hkeep & _ & Hcase).
    assert (H1 : Pend (ack_keys r ty mid ks) st1).
    { unfold ack_keys. revert E1. destruct (ty =? 0); intros E1.
      - apply (pend_recv seen ks st r mid false st1 o1 S (conj P1 P2) E1).
      - inv E1. split; auto. }
    assert (H2 : Pend (gone_key rid :: ack_keys r ty mid ks) st2).
    { destruct H1 as [Q1 Q2]. split.
      + intros e He. rewrite Ex in He. destruct (Q1 e He) as [Ho|Hg]; [|right; right; exact Hg].
        destruct (Z.eq_dec (e_rid e) rid) as [<-|Hne]; [right; left; reflexivity|left; apply Hkeep; auto].
      + intros r' q' p Hq' Hp. rewrite Eb in Hq'. destruct (Q2 r' q' p Hq' Hp) as [Ho|Hg]; [|right; right; exact Hg].
        destruct (Z.eq_dec (m_rid (fst p)) rid) as [<-|Hne]; [right; left; reflexivity|left; apply Hkeep; auto]. }
    destruct Hcase as [(-> & _)|(_ & D)]; [exact H2|eapply pend_dispatch; eauto].
  - inv H. split; auto.
Qed.

Lemma pend_forget : forall ks st1 st2 rid, Pend ks st1 -> active_exchanges st2 = active_exchanges st1 -> backlogs st2 = backlogs st1 ->
  (forall p, In p (outgoing_requests st1) -> fst p <> rid -> In p (outgoing_requests st2)) -> Pend (gone_key rid :: ks) st2.
Proof.
  intros ks st1 st2 rid [Q1 Q2] Ex Eb Hkeep. split.
  - intros e He. rewrite Ex in He. destruct (Q1 e He) as [Ho|Hg]; [|right; right; exact Hg].
    destruct (Z.eq_dec (e_rid e) rid) as [<-|Hne]; [right; left; reflexivity|left; apply Hkeep; auto].
  - intros r' q' p Hq' Hp. rewrite Eb in Hq'. destruct (Q2 r' q' p Hq' Hp) as [Ho|Hg]; [|right; right; exact Hg].
    destruct (Z.eq_dec (m_rid (fst p)) rid) as [<-|Hne]; [right; left; reflexivity|left; apply Hkeep; auto].
Qed.

Lemma step_hist : forall seen ks st tr e st' o, Struct seen st -> Hist seen ks st tr -> Pend ks st -> wf_event seen e -> step st e = (st', o) ->
  Hist (seen_after seen e) (ks_after ks e) st' (tr ++ o).
Proof.
  intros seen ks st tr e st' o S Hh Hp W H. destruct e as [rid r tn|r b mid|t| | |r|rid|r ty mid rid|r on]; cbn [step seen_after ks_after] in *.
  - destruct W as [W1 W2]. eapply hist_request; eauto.
  - eapply hist_recv; eauto.
  - inv H. rewrite app_nil_r. exact Hh.
  - destruct (next_timer st) as [h|] eqn:N; [|inv H; rewrite app_nil_r; exact Hh].
    destruct (next_timer_facts _ _ N) as (e & He1 & He2 & Hmin).
    assert (S1 : Struct seen (set_now st (Z.max (now st) (h_due h)))) by (apply struct_set_now; auto).
    eapply hist_retransmit in H; eauto. cbn.
    pose proof (s_ex _ _ S) as Hex. rewrite Forall_forall in Hex. specialize (Hex e He1). unfold entry_ok in Hex. rewrite He2 in Hex. lia.
  - destruct (next_timer st) as [h|] eqn:N; [|inv H; rewrite app_nil_r; exact Hh].
    destruct (h_due h <=? now st) eqn:Hd; [|inv H; rewrite app_nil_r; exact Hh].
    destruct (next_timer_facts _ _ N) as (e & He1 & He2 & Hmin).
    eapply hist_retransmit in H; eauto.
    pose proof (s_ex _ _ S) as Hex. rewrite Forall_forall in Hex. specialize (Hex e He1). unfold entry_ok in Hex. rewrite He2 in Hex. lia.
  - eapply hist_dispatch; eauto. intros x Hx. right. exact Hx.
  - inv H. apply (hist_same_exch seen ks _ st); auto. intros x Hx. right. exact Hx.
  - destruct (response_shape _ _ _ _ _ _ _ _ S H) as (st1 & o1 & st2 & o2 & o3 & E1 & -> & S1 & Hn1 & S2 & En & Ex & Eb & Hinc & Hkeep & Ho2 & Hcase).
    assert (H1 : Hist seen (ack_keys r ty mid ks) st1 (tr ++ o1) /\ Pend (ack_keys r ty mid ks) st1).
    { unfold ack_keys. revert E1. destruct (ty =? 0); intros E1.
      - split; [apply (hist_recv seen ks st tr r mid false st1 o1 S Hh Hp E1)|apply (pend_recv seen ks st r mid false st1 o1 S Hp E1)].
      - inv E1. rewrite app_nil_r. split; auto. }
    destruct H1 as [H1 P1].
    assert (H2 : Hist seen (gone_key rid :: ack_keys r ty mid ks) st2 ((tr ++ o1) ++ o2)).
    { apply (hist_same_exch seen (ack_keys r ty mid ks) _ st1); auto; [|intros x Hx; right; exact Hx].
      destruct Ho2 as [->| ->]; intros t m Hi; cbn in Hi; intuition discriminate. }
    pose proof (pend_forget _ _ _ rid P1 Ex Eb Hkeep) as P2.
    replace (tr ++ o1 ++ o2 ++ o3) with (((tr ++ o1) ++ o2) ++ o3) by (rewrite !app_assoc; reflexivity).
    destruct Hcase as [(-> & Ho3)|(_ & D)].
    + apply (hist_same_exch seen (gone_key rid :: ack_keys r ty mid ks) (gone_key rid :: ack_keys r ty mid ks) st2); auto; [|apply incl_refl].
      destruct Ho3 as [->|[b ->]]; intros t m Hi; cbn in Hi; intuition discriminate.
    + eapply hist_dispatch; eauto. apply incl_refl.
  - inv H. rewrite app_nil_r. exact Hh.
Qed.

Lemma run_inv : forall evs seen ks st tr st' os, Struct seen st -> Hist seen ks st tr -> Pend ks st -> wf_events seen evs ->
  run st evs = (st', os) ->
  Struct (seen_all seen evs) st' /\ Hist (seen_all seen evs) (ks_all ks evs) st' (tr ++ concat os) /\ no_error (concat os) /\
  Pend (ks_all ks evs) st'.
Proof.
  induction evs as [|e evs IH]; intros seen ks st tr st' os S Hh Hp W H; cbn in H.
  - inv H. cbn. rewrite app_nil_r. splits; auto. apply no_error_nil.
  - destruct (step st e) as [st1 o] eqn:E. destruct (run st1 evs) as [st2 os2] eqn:R. inv H. destruct W as [W1 W2].
    destruct (step_struct _ _ _ _ _ S W1 E) as [S1 Hn1]. pose proof (step_hist _ _ _ _ _ _ _ S Hh Hp W1 E) as Hh1.
    pose proof (step_pend _ _ _ _ _ _ S Hp W1 E) as Hp1.
    destruct (IH _ _ _ _ _ _ S1 Hh1 Hp1 W2 R) as (S2 & Hh2 & Hn2 & Hp2). cbn. rewrite app_assoc. splits; auto. apply no_error_app; auto.
Qed.

Lemma pend_init : forall mid0 draws, Pend [] (init mid0 draws).
Proof. intros. split; cbn; intros; tauto. Qed.

Lemma hist_init : forall mid0 draws, Hist [] [] (init mid0 draws) [].
Proof.
  intros. split; [reflexivity|]. intros rid. exists {| m_remote := 0; m_mid := 0; m_rid := 0; m_tuning := {| ACK_TIMEOUT := 0; ARF_num := 0; ARF_den := 0; MAX_RETRANSMIT := 0 |} |}, 0, 0, O.
  splits; try tauto; try reflexivity. intros e He. inv He.
Qed.
