(* C03 -- round 7: the CLASS of the error delivered for an unanswered CON request. Chains exchange_request_pending (Pend) and the
   at-most-once invariant Inv1 of round 6 into the give-up theorem: while the exchange is still active the request has not failed with
   anything; once it gave up, ConRetransmitsExceeded at the deadline is the one and only failure output of the request. *)
From Verif Require Import Lib.Py Lib.Tactics Model.C03 Proofs.C03 Proofs.C03struct Proofs.C03hist Proofs.C03main Proofs.C03R6 Proofs.C03R6b.
Open Scope Z_scope.

Lemma fails_in : forall rid o t e, In (OFail t rid e) o -> (1 <= fails rid o)%nat.
Proof.
  induction o as [|a o IH]; intros t e Hin; [destruct Hin|]. destruct Hin as [->|Hin].
  - cbn. rewrite Z.eqb_refl. lia.
  - specialize (IH t e Hin). destruct a as [? ?|? ? ? ?|t0 rid0 e0|? ?|? ?|? ? ? ?]; cbn; try exact IH. destruct (rid0 =? rid); lia.
Qed.

(* at most one failure output of rid: two failure outputs of rid in the trace are the same output *)
Lemma fails_unique : forall rid o t1 e1 t2 e2, (fails rid o <= 1)%nat -> In (OFail t1 rid e1) o -> In (OFail t2 rid e2) o -> t1 = t2 /\ e1 = e2.
Proof.
  induction o as [|a o IH]; intros t1 e1 t2 e2 Hle H1 H2; [destruct H1|].
  assert (Hd : (exists t0 e0, a = OFail t0 rid e0) \/ (fails rid (a :: o) = fails rid o /\ forall t e, a <> OFail t rid e)).
  { destruct a as [? ?|? ? ? ?|t0 rid0 e0|? ?|? ?|? ? ? ?]; try (right; split; [reflexivity|intros; discriminate]).
    destruct (Z.eq_dec rid0 rid) as [->|Hne]; [left; eauto|right].
    split; [cbn; apply Z.eqb_neq in Hne; rewrite Hne; reflexivity|intros t' e' Heq; congruence]. }
  destruct Hd as [(t0 & e0 & ->)|[Hf Hne]].
  - cbn in Hle. rewrite Z.eqb_refl in Hle. assert (H0 : fails rid o = O) by lia.
    assert (Hno : forall t e, ~ In (OFail t rid e) o) by (intros t e Hi; apply fails_in in Hi; lia).
    destruct H1 as [H1|H1]; [|exfalso; eapply Hno; eauto]. destruct H2 as [H2|H2]; [|exfalso; eapply Hno; eauto]. inv H1. inv H2. auto.
  - rewrite Hf in Hle. destruct H1 as [H1|H1]; [exfalso; eapply Hne; eauto|]. destruct H2 as [H2|H2]; [exfalso; eapply Hne; eauto|]. eapply IH; eauto.
Qed.

(* the round-6 invariant at the end of a run from the initial state *)
Lemma final_inv1 : forall mid0 draws evs, wf_run draws evs ->
  Inv1 (seen_all [] evs) (final_of mid0 draws evs) (trace_of mid0 draws evs).
Proof.
  intros mid0 draws evs [_ W]. unfold final_of, trace_of. destruct (run (init mid0 draws) evs) as [st' os] eqn:R.
  assert (I0 : Inv1 [] (init mid0 draws) []).
  { unfold Inv1. splits; cbn; [constructor|intros x []|]. intros x. cbn. split; [lia|discriminate]. }
  pose proof (run_inv1 evs [] _ [] st' os I0 W R) as H. cbn in H. cbn. exact H.
Qed.

(* a request that has failed (with whatever exception) is no longer pending in the token manager, towards any remote; every history *)
Lemma failed_not_pending : forall mid0 draws evs tf rid x, wf_run draws evs -> In (OFail tf rid x) (trace_of mid0 draws evs) ->
  forall r, ~ In (rid, r) (outgoing_requests (final_of mid0 draws evs)).
Proof.
  intros mid0 draws evs tf rid x W Hi r Hp. destruct (final_inv1 mid0 draws evs W) as (_ & _ & Hf). destruct (Hf rid) as [A B].
  apply fails_in in Hi. assert (E : fails rid (trace_of mid0 draws evs) = 1%nat) by lia. destruct (B E) as [_ Q]. apply Q.
  unfold pending. apply in_map_iff. exists (rid, r). split; auto.
Qed.

(* the request of an outstanding exchange has not failed with ANY exception class (unless it was cancelled or answered before) *)
Lemma active_exchange_not_failed : forall mid0 draws evs e, wf_run draws evs -> In e (active_exchanges (final_of mid0 draws evs)) ->
  ~ In (gone_key (e_rid e)) (recv_keys evs) -> forall tf x, ~ In (OFail tf (e_rid e) x) (trace_of mid0 draws evs).
Proof.
  intros mid0 draws evs e W He Hg tf x Hi. destruct (exchange_request_pending _ _ _ _ W He) as [Hp|Hp]; [|auto].
  eapply failed_not_pending; eauto.
Qed.

(* the give-up theorem with the class of EVERY failure output of the request, for every history (refusing transports included):
   exchange still waiting => the request has not failed at all; gave up => ConRetransmitsExceeded at the deadline is its only failure;
   refused by the transport => NetworkError is its only failure *)
Lemma gives_up_class : forall mid0 draws evs t m, wf_run draws evs -> In (OSend t m) (trace_of mid0 draws evs) ->
  ~ In (m_remote m, m_mid m) (recv_keys evs) -> ~ In (err_key (m_remote m)) (recv_keys evs) -> ~ In (gone_key (m_rid m)) (recv_keys evs) ->
  exists T0 t0 n, copies (m_rid m) (trace_of mid0 draws evs) = sched_of m T0 t0 n /\ (0 < n)%nat /\ range (m_tuning m) t0 /\
    Z.of_nat n <= MAX_RETRANSMIT (m_tuning m) + 1 /\
    ( ((exists e, In e (active_exchanges (final_of mid0 draws evs)) /\ h_message (e_timer e) = m /\
                  h_due (e_timer e) = T0 + t0 * (2 ^ Z.of_nat n - 1) /\ now (final_of mid0 draws evs) <= h_due (e_timer e)) /\
       (forall tf x, ~ In (OFail tf (m_rid m) x) (trace_of mid0 draws evs))) \/
      (Z.of_nat n = MAX_RETRANSMIT (m_tuning m) + 1 /\
       In (OFail (T0 + t0 * (2 ^ (MAX_RETRANSMIT (m_tuning m) + 1) - 1)) (m_rid m) ConRetransmitsExceeded) (trace_of mid0 draws evs) /\
       (forall tf x, In (OFail tf (m_rid m) x) (trace_of mid0 draws evs) ->
          tf = T0 + t0 * (2 ^ (MAX_RETRANSMIT (m_tuning m) + 1) - 1) /\ x = ConRetransmitsExceeded)) \/
      (exists tf, In (OFail tf (m_rid m) NetworkError) (trace_of mid0 draws evs) /\
         (forall tf' x, In (OFail tf' (m_rid m) x) (trace_of mid0 draws evs) -> tf' = tf /\ x = NetworkError)) ).
Proof.
  intros mid0 draws evs t m W Hin H1 H2 H3.
  destruct (gives_up _ _ _ _ _ W Hin H1 H2 H3) as (T0 & t0 & n & Hc & Hn & Hr & Hle & Hcase).
  pose proof (request_fails_at_most_once mid0 draws evs (m_rid m) W) as Honce.
  exists T0, t0, n. split; [exact Hc|]. split; [exact Hn|]. split; [exact Hr|]. split; [exact Hle|].
  destruct Hcase as [(e & He & Hm & Hd & Hnow)|[(Hn' & Hf)|(tf & Hf)]].
  - left. split; [exists e; auto|]. intros tf x Hi.
    assert (Er : e_rid e = m_rid m) by (unfold e_rid; rewrite Hm; reflexivity).
    rewrite <- Er in Hi. revert Hi. apply active_exchange_not_failed; auto. rewrite Er. exact H3.
  - right; left. split; [exact Hn'|]. split; [exact Hf|]. intros tf x Hi. exact (fails_unique _ _ _ _ _ _ Honce Hi Hf).
  - right; right. exists tf. split; [exact Hf|]. intros tf' x Hi. exact (fails_unique _ _ _ _ _ _ Honce Hi Hf).
Qed.

(* ... on a transport that never refuses and reports no error for the remote this request was addressed to: exactly the two outcomes
   of the property text, each with the complete list of the request's failure outputs *)
Lemma gives_up_class_plain_remote : forall mid0 draws evs t m, wf_run draws evs -> no_refusal evs ->
  (forall r tn, In (ERequest (m_rid m) r tn) evs -> ~ In (EError r) evs) ->
  In (OSend t m) (trace_of mid0 draws evs) ->
  ~ In (m_remote m, m_mid m) (recv_keys evs) -> ~ In (err_key (m_remote m)) (recv_keys evs) -> ~ In (gone_key (m_rid m)) (recv_keys evs) ->
  exists T0 t0 n, copies (m_rid m) (trace_of mid0 draws evs) = sched_of m T0 t0 n /\ (0 < n)%nat /\ range (m_tuning m) t0 /\
    Z.of_nat n <= MAX_RETRANSMIT (m_tuning m) + 1 /\
    ( ((exists e, In e (active_exchanges (final_of mid0 draws evs)) /\ h_message (e_timer e) = m /\
                  h_due (e_timer e) = T0 + t0 * (2 ^ Z.of_nat n - 1) /\ now (final_of mid0 draws evs) <= h_due (e_timer e)) /\
       (forall tf x, ~ In (OFail tf (m_rid m) x) (trace_of mid0 draws evs))) \/
      (Z.of_nat n = MAX_RETRANSMIT (m_tuning m) + 1 /\
       In (OFail (T0 + t0 * (2 ^ (MAX_RETRANSMIT (m_tuning m) + 1) - 1)) (m_rid m) ConRetransmitsExceeded) (trace_of mid0 draws evs) /\
       (forall tf x, In (OFail tf (m_rid m) x) (trace_of mid0 draws evs) ->
          tf = T0 + t0 * (2 ^ (MAX_RETRANSMIT (m_tuning m) + 1) - 1) /\ x = ConRetransmitsExceeded)) ).
Proof.
  intros mid0 draws evs t m W Hn He Hin H1 H2 H3.
  destruct (gives_up_class _ _ _ _ _ W Hin H1 H2 H3) as (T0 & t0 & n & Hc & Hn' & Hr & Hle & Hcase).
  exists T0, t0, n. split; [exact Hc|]. split; [exact Hn'|]. split; [exact Hr|]. split; [exact Hle|].
  destruct Hcase as [Hc1|[Hc2|(tf & Hf & _)]]; [left; exact Hc1|right; exact Hc2|].
  exfalso. destruct (network_error_for_remote _ _ _ _ _ Hn Hf) as (r & tn & Hq & Hre). eapply He; eauto.
Qed.

(* headline: ANY error delivered to a CON request whose transmissions went unanswered is ConRetransmitsExceeded, delivered after all
   1 + MAX_RETRANSMIT copies, exactly one more doubled interval after the last copy *)
Lemma unanswered_error_is_ConRetransmitsExceeded : forall mid0 draws evs t m, wf_run draws evs -> no_refusal evs ->
  (forall r tn, In (ERequest (m_rid m) r tn) evs -> ~ In (EError r) evs) ->
  In (OSend t m) (trace_of mid0 draws evs) ->
  ~ In (m_remote m, m_mid m) (recv_keys evs) -> ~ In (err_key (m_remote m)) (recv_keys evs) -> ~ In (gone_key (m_rid m)) (recv_keys evs) ->
  forall tf x, In (OFail tf (m_rid m) x) (trace_of mid0 draws evs) ->
    x = ConRetransmitsExceeded /\
    exists T0 t0, copies (m_rid m) (trace_of mid0 draws evs) = sched_of m T0 t0 (Z.to_nat (MAX_RETRANSMIT (m_tuning m) + 1)) /\
      range (m_tuning m) t0 /\ tf = T0 + t0 * (2 ^ (MAX_RETRANSMIT (m_tuning m) + 1) - 1).
Proof.
  intros mid0 draws evs t m W Hn He Hin H1 H2 H3 tf x Hi.
  destruct (gives_up_class_plain_remote _ _ _ _ _ W Hn He Hin H1 H2 H3) as (T0 & t0 & n & Hc & Hn' & Hr & Hle & Hcase).
  destruct Hcase as [[_ Hno]|(En & _ & Hall)]; [exfalso; eapply Hno; eauto|].
  destruct (Hall tf x Hi) as [-> ->]. split; [reflexivity|]. exists T0, t0.
  assert (Z.to_nat (MAX_RETRANSMIT (m_tuning m) + 1) = n) as -> by lia. auto.
Qed.

(* ... and with refusing transports / transport errors allowed: ConRetransmitsExceeded at the deadline, or NetworkError -- nothing else *)
Lemma unanswered_error_class : forall mid0 draws evs t m, wf_run draws evs -> In (OSend t m) (trace_of mid0 draws evs) ->
  ~ In (m_remote m, m_mid m) (recv_keys evs) -> ~ In (err_key (m_remote m)) (recv_keys evs) -> ~ In (gone_key (m_rid m)) (recv_keys evs) ->
  forall tf x, In (OFail tf (m_rid m) x) (trace_of mid0 draws evs) ->
    (x = ConRetransmitsExceeded /\
     exists T0 t0, copies (m_rid m) (trace_of mid0 draws evs) = sched_of m T0 t0 (Z.to_nat (MAX_RETRANSMIT (m_tuning m) + 1)) /\
       range (m_tuning m) t0 /\ tf = T0 + t0 * (2 ^ (MAX_RETRANSMIT (m_tuning m) + 1) - 1)) \/
    x = NetworkError.
Proof.
  intros mid0 draws evs t m W Hin H1 H2 H3 tf x Hi.
  destruct (gives_up_class _ _ _ _ _ W Hin H1 H2 H3) as (T0 & t0 & n & Hc & Hn' & Hr & Hle & Hcase).
  destruct Hcase as [[_ Hno]|[(En & _ & Hall)|(tf0 & _ & Hall)]]; [exfalso; eapply Hno; eauto| |right; apply (Hall tf x Hi)].
  left. destruct (Hall tf x Hi) as [-> ->]. split; [reflexivity|]. exists T0, t0.
  assert (Z.to_nat (MAX_RETRANSMIT (m_tuning m) + 1) = n) as -> by lia. auto.
Qed.

(* ---- non-vacuity: concrete runs satisfying the hypotheses, one per theorem *)
Definition r7_tn : tuning := {| ACK_TIMEOUT := 2000000; ARF_num := 3; ARF_den := 2; MAX_RETRANSMIT := 4 |}.
Definition r7_m : message := {| m_remote := 7; m_mid := 65535; m_rid := 1; m_tuning := r7_tn |}.
(* request 1 gives up (request 2, backlogged behind it, fails with it); a foreign ACK in between *)
Definition r7_giveup : list event := [ERequest 1 7 r7_tn; ERequest 2 7 r7_tn; ERecv 7 false 99; EFire; EFire; EFire; EFire; EFire; EFire].
(* the same, stopped after two retransmissions: exchange still waiting *)
Definition r7_waiting : list event := [ERequest 1 7 r7_tn; ERequest 2 7 r7_tn; ERecv 7 false 99; EFire; EFire].
(* the third retransmission is refused by the transport *)
Definition r7_refused : list event := [ERequest 1 7 r7_tn; EFire; EFire; ERefuse 7 true; EFire].

Lemma r7_wf : wf_run [500] r7_giveup /\ wf_run [500] r7_waiting /\ wf_run [500] r7_refused.
Proof.
  unfold wf_run, r7_giveup, r7_waiting, r7_refused, wf_tuning, r7_tn, RNG_DEN. cbn.
  repeat split; try lia; try (repeat constructor; lia); intuition discriminate.
Qed.

(* the hypotheses of the give-up theorems: first copy of r7_m at 0, no ACK / RST / transport error / cancellation / response for it *)
Definition r7_hyps (evs : list event) : Prop :=
  wf_run [500] evs /\ In (OSend 0 r7_m) (trace_of 65535 [500] evs) /\
  ~ In (m_remote r7_m, m_mid r7_m) (recv_keys evs) /\ ~ In (err_key (m_remote r7_m)) (recv_keys evs) /\ ~ In (gone_key (m_rid r7_m)) (recv_keys evs).
Lemma r7_hyps_hold : r7_hyps r7_giveup /\ r7_hyps r7_waiting /\ r7_hyps r7_refused.
Proof.
  destruct r7_wf as (W1 & W2 & W3). unfold r7_hyps.
  split; [|split]; (split; [assumption|]); vm_compute; intuition congruence.
Qed.

(* failed_not_pending: request 1 failed, and is indeed pending nowhere *)
Example failed_not_pending_nonvacuous :
  wf_run [500] r7_giveup /\ In (OFail 77500000 1 ConRetransmitsExceeded) (trace_of 65535 [500] r7_giveup) /\
  outgoing_requests (final_of 65535 [500] r7_giveup) = [].
Proof. split; [exact (proj1 r7_wf)|]. vm_compute. intuition congruence. Qed.

(* active_exchange_not_failed: while waiting there is an exchange of request 1, not cancelled / answered, request 1 (and 2) pending *)
Example active_exchange_not_failed_nonvacuous :
  wf_run [500] r7_waiting /\
  (exists e, In e (active_exchanges (final_of 65535 [500] r7_waiting)) /\ e_rid e = 1 /\ h_counter (e_timer e) = 2 /\
             ~ In (gone_key (e_rid e)) (recv_keys r7_waiting)) /\
  outgoing_requests (final_of 65535 [500] r7_waiting) = [(1, 7); (2, 7)].
Proof.
  split; [exact (proj1 (proj2 r7_wf))|]. split; [|vm_compute; reflexivity].
  eexists. split; [vm_compute; left; reflexivity|]. vm_compute. intuition congruence.
Qed.

(* gives_up_class: each of the three outcomes is realised by a run satisfying the hypotheses *)
Example gives_up_class_nonvacuous :
  (r7_hyps r7_waiting /\ (exists e, In e (active_exchanges (final_of 65535 [500] r7_waiting)) /\ h_message (e_timer e) = r7_m /\ h_due (e_timer e) = 17500000) /\
     fails 1 (trace_of 65535 [500] r7_waiting) = O) /\
  (r7_hyps r7_giveup /\ In (OFail 77500000 1 ConRetransmitsExceeded) (trace_of 65535 [500] r7_giveup) /\
     fails 1 (trace_of 65535 [500] r7_giveup) = 1%nat /\ 77500000 = 0 + 2500000 * (2 ^ (MAX_RETRANSMIT r7_tn + 1) - 1)) /\
  (r7_hyps r7_refused /\ In (OFail 17500000 1 NetworkError) (trace_of 65535 [500] r7_refused) /\
     fails 1 (trace_of 65535 [500] r7_refused) = 1%nat).
Proof.
  destruct r7_hyps_hold as (G & Wt & Rf). split; [|split]; (split; [assumption|]).
  - split; [|vm_compute; reflexivity]. eexists. split; [vm_compute; left; reflexivity|]. vm_compute. split; reflexivity.
  - vm_compute. intuition congruence.
  - vm_compute. intuition congruence.
Qed.

(* gives_up_class_plain_remote / unanswered_error_is_ConRetransmitsExceeded: the extra hypotheses hold for the give-up run, and a
   failure output of request 1 exists *)
Example unanswered_error_is_ConRetransmitsExceeded_nonvacuous :
  r7_hyps r7_giveup /\ no_refusal r7_giveup /\
  (forall r tn, In (ERequest (m_rid r7_m) r tn) r7_giveup -> ~ In (EError r) r7_giveup) /\
  In (OFail 77500000 (m_rid r7_m) ConRetransmitsExceeded) (trace_of 65535 [500] r7_giveup) /\
  copies 1 (trace_of 65535 [500] r7_giveup) = sched_of r7_m 0 2500000 (Z.to_nat (MAX_RETRANSMIT r7_tn + 1)).
Proof.
  split; [exact (proj1 r7_hyps_hold)|]. split; [|split; [|split]].
  - intros r. vm_compute. intuition congruence.
  - intros r tn _. vm_compute. intuition congruence.
  - vm_compute. intuition congruence.
  - vm_compute. reflexivity.
Qed.
Example gives_up_class_plain_remote_nonvacuous :
  r7_hyps r7_waiting /\ no_refusal r7_waiting /\ (forall r tn, In (ERequest (m_rid r7_m) r tn) r7_waiting -> ~ In (EError r) r7_waiting) /\
  copies 1 (trace_of 65535 [500] r7_waiting) = sched_of r7_m 0 2500000 3.
Proof.
  split; [exact (proj1 (proj2 r7_hyps_hold))|]. split; [|split].
  - intros r. vm_compute. intuition congruence.
  - intros r tn _. vm_compute. intuition congruence.
  - vm_compute. reflexivity.
Qed.
(* unanswered_error_class: the NetworkError alternative is realised by a refusing transport *)
Example unanswered_error_class_nonvacuous :
  r7_hyps r7_refused /\ In (OFail 17500000 (m_rid r7_m) NetworkError) (trace_of 65535 [500] r7_refused) /\
  Z.of_nat (length (copies 1 (trace_of 65535 [500] r7_refused))) < MAX_RETRANSMIT r7_tn + 1.
Proof. split; [exact (proj2 (proj2 r7_hyps_hold))|]. vm_compute. intuition congruence. Qed.
