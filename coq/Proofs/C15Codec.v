(* C15 — proofs about _serialize / _decode_message (hand model over the translated field coders). *)
From Verif Require Import Lib.Py Lib.Tactics Lib.PyLemmas Gen.options_ext Gen.tcp_framing Model.C15 Proofs.C15Framing.
Open Scope Z_scope.

(* ---------------------------------------------------------------- extended delta / length fields *)
Lemma write_read_ext : forall v nib ext rest, write_extended_field_value v = Ok (nib, ext) ->
  read_extended_field_value nib (ext ++ rest) = Ok (v, rest) /\ 0 <= nib < 15 /\ bytes_ok ext = true /\ 0 <= v < 65805.
Proof.
  intros v nib ext rest H. unfold write_extended_field_value, to_bytes_big in H.
  change (2 ^ (8 * 1)) with 256 in H. change (2 ^ (8 * 2)) with 65536 in H.
  destruct ((v >=? 0) && (v <? 13)) eqn:H1.
  { inv H. unfold read_extended_field_value. rewrite H1. cbn [app]. repeat split; try lia. }
  destruct ((v >=? 13) && (v <? 269)) eqn:H2.
  { replace ((v - 13 <? 0) || (256 <=? v - 13)) with false in H by lia. cbn [bind] in H.
    change (Z.to_nat 1) with 1%nat in H. rewrite tb1 in H. inv H.
    unfold read_extended_field_value. cbn [app]. change ((13 >=? 0) && (13 <? 13)) with false. cbv iota.
    change (13 =? 13) with true. cbv iota. rewrite blen_cons. pose proof (blen_nonneg rest).
    replace (1 + blen rest <? 1) with false by lia. rewrite bget_cons0. cbn [bind].
    unfold bfrom. change (Z.to_nat 1) with 1%nat. cbn [skipn].
    replace ((v - 13) mod 256 + 13) with v by lia. repeat split; try lia.
    cbn. unfold byte_ok. lia. }
  destruct ((v >=? 269) && (v <? 65805)) eqn:H3; [|discriminate].
  replace ((v - 269 <? 0) || (65536 <=? v - 269)) with false in H by lia. cbn [bind] in H.
  change (Z.to_nat 2) with 2%nat in H. rewrite tb2 in H. inv H.
  unfold read_extended_field_value. cbn [app]. change ((14 >=? 0) && (14 <? 13)) with false. cbv iota.
  change (14 =? 13) with false. change (14 =? 14) with true. cbv iota. rewrite !blen_cons. pose proof (blen_nonneg rest).
  replace (1 + (1 + blen rest) <? 2) with false by lia.
  unfold bfrom, bto. change (Z.to_nat 2) with 2%nat. cbn [skipn firstn].
  unfold from_bytes_big. cbn [from_bytes_big_acc].
  replace ((0 * 256 + (v - 269) / 256 mod 256) * 256 + (v - 269) mod 256 + 269) with v by lia.
  repeat split; try lia. cbn. unfold byte_ok. lia.
Qed.

Lemma option_head_byte : forall d l, 0 <= d < 15 -> 0 <= l < 15 ->
  let b0 := Z.shiftl (Z.land d 15) 4 + Z.land l 15 in
  (b0 =? 255) = false /\ Z.shiftr (Z.land b0 240) 4 = d /\ Z.land b0 15 = l /\ byte_ok b0 = true.
Proof.
  intros d l Hd Hl.
  pose (Q := fun d l => let b0 := Z.shiftl (Z.land d 15) 4 + Z.land l 15 in
     negb (b0 =? 255) && (Z.shiftr (Z.land b0 240) 4 =? d) && (Z.land b0 15 =? l) && byte_ok b0).
  pose (P := fun d => forallb (Q d) (map Z.of_nat (seq 0 15))).
  assert (HP : P d = true) by (apply (forall_range P 15); [vm_compute; reflexivity | lia]).
  unfold P in HP. pose proof (forall_range _ 15 HP l ltac:(lia)) as H. unfold Q in H. cbv zeta in *.
  repeat (apply andb_prop in H as [H ?]). apply negb_true_iff in H.
  split; [exact H|]. split; [lia|]. split; [lia|assumption].
Qed.

(* ---------------------------------------------------------------- Options.encode / Options.decode *)
Lemma options_decode_loop_cons k num b0 rest :
  options_decode_loop (S k) num (b0 :: rest) =
  if b0 =? 255 then Ok ([], rest)
  else
    '(delta, r1) <- read_extended_field_value (Z.shiftr (Z.land b0 240) 4) rest ;;
    '(length, r2) <- read_extended_field_value (Z.land b0 15) r1 ;;
    if blen r2 <? length then Raise UnparsableMessage
    else
      v <- option_value (num + delta) (bto r2 length) ;;
      '(os, p) <- options_decode_loop k (num + delta) (bfrom r2 length) ;;
      Ok ((num + delta, v) :: os, p).
Proof. reflexivity. Qed.

Lemma options_encode_from_cons cur n v r enc : options_encode_from cur ((n, v) :: r) = Ok enc ->
  exists d de l le renc, write_extended_field_value (n - cur) = Ok (d, de) /\
    write_extended_field_value (blen v) = Ok (l, le) /\ options_encode_from n r = Ok renc /\
    enc = (Z.shiftl (Z.land d 15) 4 + Z.land l 15) :: de ++ le ++ v ++ renc.
Proof.
  cbn [options_encode_from]. intros H.
  destruct (write_extended_field_value (n - cur)) as [[d de]|]; [|discriminate]. cbn [bind] in H.
  destruct (write_extended_field_value (blen v)) as [[l le]|]; [|discriminate]. cbn [bind] in H.
  destruct (options_encode_from n r) as [renc|]; [|discriminate]. cbn [bind] in H.
  exists d, de, l, le, renc. repeat split. injection H as H. rewrite <- H. reflexivity.
Qed.

Lemma options_encode_length : forall os cur enc, options_encode_from cur os = Ok enc -> (length os <= length enc)%nat.
Proof.
  induction os as [|[n v] r IH]; intros cur enc H; [cbn; lia|].
  apply options_encode_from_cons in H as (d & de & l & le & renc & _ & _ & Hr & ->).
  apply IH in Hr. cbn [length]. rewrite !app_length. lia.
Qed.

Definition tail_ok (tail p : bytes) : Prop := (tail = [] /\ p = []) \/ tail = 255 :: p.

Lemma options_roundtrip : forall os cur enc tail p f,
  opts_ok cur os = true -> options_encode_from cur os = Ok enc -> tail_ok tail p ->
  (length os < f)%nat ->
  options_decode_loop f cur (enc ++ tail) = Ok (os, p) /\ bytes_ok enc = true /\ (length os <= length enc)%nat.
Proof.
  induction os as [|[n v] r IH]; intros cur enc tail p f Hok Henc Htail Hf.
  - cbn in Henc. inv Henc. destruct f as [|k]; [cbn in Hf; lia|]. cbn [app].
    destruct Htail as [[-> ->]| ->]; cbn; auto.
  - cbn [opts_ok] in Hok. apply andb_prop in Hok as [Ho Hr]. unfold opt_ok in Ho. cbn [fst snd] in Ho, Hr.
    repeat (apply andb_prop in Ho as [Ho ?]).
    apply options_encode_from_cons in Henc as (d & de & l & le & renc & Hd & Hl & Hrenc & ->).
    destruct f as [|k]; [cbn in Hf; lia|].
    destruct (option_value n v) as [v'|] eqn:Hv; [|discriminate].
    match goal with H : beqb v' v = true |- _ => apply list_eqb_Z_eq in H; subst v' end.
    pose proof (write_read_ext _ _ _ (le ++ v ++ renc ++ tail) Hd) as (Hrd & Hdn & Hdeok & _).
    pose proof (write_read_ext _ _ _ (v ++ renc ++ tail) Hl) as (Hrl & Hln & Hleok & _).
    destruct (option_head_byte d l Hdn Hln) as (Hne & Hdd & Hll & Hb0).
    destruct (IH n renc tail p k Hr Hrenc Htail ltac:(cbn in Hf; lia)) as (IH1 & IH2 & IH3).
    split; [|split].
    + cbn [app]. rewrite options_decode_loop_cons. rewrite Hne, Hdd, Hll.
      rewrite <- !app_assoc. rewrite Hrd. cbn [bind]. rewrite Hrl. cbn [bind].
      replace (blen (v ++ renc ++ tail) <? blen v) with false
        by (rewrite blen_app; pose proof (blen_nonneg (renc ++ tail)); lia).
      replace (cur + (n - cur)) with n by lia.
      rewrite bto_app, bfrom_app, Hv. cbn [bind]. rewrite IH1. reflexivity.
    + cbn [app]. rewrite bytes_ok_cons, !bytes_ok_app, Hb0, Hdeok, Hleok, IH2.
      match goal with H : bytes_ok v = true |- _ => rewrite H end. reflexivity.
    + cbn [app length]. rewrite !app_length. lia.
Qed.

(* ---------------------------------------------------------------- _serialize / _decode_message *)
Lemma bget_app_mid p y q : bget (p ++ y :: q) (blen p) = Ok y.
Proof.
  unfold bget. pose proof (blen_nonneg p). rewrite blen_app, blen_cons. pose proof (blen_nonneg q).
  replace ((blen p <? 0) || (blen p + (1 + blen q) <=? blen p)) with false by lia.
  unfold blen. rewrite Nat2Z.id. rewrite app_nth2, Nat.sub_diag by lia. reflexivity.
Qed.
Lemma bslice_mid {A} (p t q : list A) : bslice (p ++ t ++ q) (blen p) (blen p + blen t) = t.
Proof.
  unfold bslice. rewrite app_assoc. replace (blen p + blen t) with (blen (p ++ t)) by (rewrite blen_app; reflexivity).
  change (firstn (Z.to_nat (blen (p ++ t))) ((p ++ t) ++ q)) with (bto ((p ++ t) ++ q) (blen (p ++ t))).
  rewrite bto_app. change (skipn (Z.to_nat (blen p)) (p ++ t)) with (bfrom (p ++ t) (blen p)). apply bfrom_app.
Qed.

(* option_list(): a list already in non-decreasing number order is left alone *)
Lemma insert_opt_last o acc : (forall x, In x acc -> fst x <= fst o) -> insert_opt o acc = acc ++ [o].
Proof.
  induction acc as [|x acc IH]; intros H; [reflexivity|].
  cbn [insert_opt]. replace (fst o <? fst x) with false by (specialize (H x (or_introl eq_refl)); lia).
  cbn [app]. f_equal. apply IH. intros y Hy. apply H. right. exact Hy.
Qed.
Lemma option_list_sorted_aux : forall os cur acc, opts_ok cur os = true -> (forall x, In x acc -> fst x <= cur) ->
  fold_left (fun acc o => insert_opt o acc) os acc = acc ++ os.
Proof.
  induction os as [|o r IH]; intros cur acc Hok Hacc; [cbn; rewrite app_nil_r; reflexivity|].
  cbn [opts_ok] in Hok. apply andb_prop in Hok as [Ho Hr]. unfold opt_ok in Ho.
  repeat (apply andb_prop in Ho as [Ho ?]).
  cbn [fold_left]. rewrite insert_opt_last by (intros x Hx; specialize (Hacc x Hx); lia).
  rewrite (IH (fst o) (acc ++ [o]) Hr).
  - rewrite <- app_assoc. reflexivity.
  - intros x Hx. apply in_app_or in Hx as [Hx|[<-|[]]]; [specialize (Hacc x Hx); lia|lia].
Qed.
Lemma option_list_sorted_id cur os : opts_ok cur os = true -> option_list os = os.
Proof. intros H. unfold option_list. rewrite (option_list_sorted_aux os cur [] H); [reflexivity|intros x []]. Qed.
Lemma canon_ok m : msg_ok m = true -> canon m = m.
Proof.
  intros H. unfold msg_ok in H. repeat (apply andb_prop in H as [H ?]).
  unfold canon. rewrite (option_list_sorted_id 0 (opts m)) by assumption. destruct m; reflexivity.
Qed.

Lemma serialize_inv m b : serialize m = Ok b ->
  exists od, options_encode (option_list (opts m)) = Ok od /\
    let data := od ++ (match payload m with [] => [] | _ => 255 :: payload m end) in
    0 <= blen data < 65805 + 2 ^ 32 /\ blen (token m) <= 8 /\
    b = (Z.lor (Z.shiftl (fst (rfc8323_len (blen data))) 4) (blen (token m)) :: snd (rfc8323_len (blen data)))
        ++ [code m] ++ token m ++ data.
Proof.
  unfold serialize. intros H.
  destruct (options_encode (option_list (opts m))) as [od|] eqn:Hod; [|discriminate]. cbn [bind] in H.
  exists od. split; [reflexivity|]. cbv zeta.
  set (data := od ++ match payload m with [] => [] | _ :: _ => 255 :: payload m end) in *.
  pose proof (blen_nonneg data) as Hd0.
  destruct (Z_lt_ge_dec (blen data) (65805 + 2 ^ 32)) as [Hlt|Hge].
  2:{ rewrite encode_length_overflow in H by lia. discriminate. }
  rewrite encode_length_rfc8323 in H by lia. cbn [bind] in H.
  destruct (rfc8323_len (blen data)) as [len ext] eqn:Hlen. cbn [fst snd].
  destruct (blen (token m) >? 8) eqn:Htk; [discriminate|].
  injection H as H. split; [lia|]. split; [lia|]. rewrite <- H. reflexivity.
Qed.

Lemma decode_serialize_any : forall m b, msg_ok (canon m) = true -> serialize m = Ok b ->
  decode_message b = Ok (canon m) /\ bytes_ok b = true /\
  exists a l, header b = Some (a, blen (token m), l) /\ a + blen (token m) + l = blen b /\ 2 <= a.
Proof.
  intros m b Hok Hser.
  destruct (serialize_inv m b Hser) as (od & Hod & Hn & Htk & Hb). cbv zeta in *.
  set (data := od ++ match payload m with [] => [] | _ :: _ => 255 :: payload m end) in *.
  unfold msg_ok in Hok. cbn [canon code token opts payload] in Hok. repeat (apply andb_prop in Hok as [Hok ?]).
  pose proof (blen_nonneg (token m)) as Ht0.
  destruct (rfc8323_len_bounds (blen data) Hn) as [Hnib Hextok].
  destruct (nibbles_split (fst (rfc8323_len (blen data))) (blen (token m)) Hnib ltac:(lia)) as (_ & _ & Hb0).
  set (b0 := Z.lor (Z.shiftl (fst (rfc8323_len (blen data))) 4) (blen (token m))) in *.
  set (ext := snd (rfc8323_len (blen data))) in *.
  assert (Hhdr : header b = Some (2 + blen ext, blen (token m), blen data)).
  { rewrite Hb. apply length_roundtrip; lia. }
  assert (Htail : tail_ok (match payload m with [] => [] | _ :: _ => 255 :: payload m end) (payload m)).
  { destruct (payload m); [left; auto|right; reflexivity]. }
  destruct (options_roundtrip (option_list (opts m)) 0 od _ (payload m) (S (length data)) ltac:(assumption) Hod Htail) as (Hdec & Hodok & Hlen).
  { unfold data. rewrite app_length. pose proof (options_encode_length _ _ _ Hod). lia. }
  pose proof (blen_nonneg ext) as He0.
  assert (Hpre : b = (b0 :: ext) ++ code m :: token m ++ data) by (rewrite Hb; reflexivity).
  assert (Hblen_pre : blen (b0 :: ext) = 1 + blen ext) by apply blen_cons.
  split; [|split].
  - unfold decode_message. rewrite extract_message_size_spec, Hhdr. cbn [bind].
    replace (blen (token m) >? 8) with false by lia.
    replace (2 + blen ext - 1) with (blen (b0 :: ext)) by lia.
    rewrite Hpre at 1. rewrite bget_app_mid. cbn [bind].
    assert (Hpre2 : b = ((b0 :: ext) ++ [code m]) ++ token m ++ data) by (rewrite Hpre, <- app_assoc; reflexivity).
    assert (Hl2 : blen ((b0 :: ext) ++ [code m]) = 2 + blen ext) by (rewrite blen_app, Hblen_pre, blen_cons, blen_nil; lia).
    rewrite <- Hl2. rewrite Hpre2. rewrite bslice_mid.
    replace (blen ((b0 :: ext) ++ [code m]) + blen (token m)) with (blen (((b0 :: ext) ++ [code m]) ++ token m))
      by (rewrite (blen_app _ (token m)); reflexivity).
    rewrite app_assoc, bfrom_app.
    unfold options_decode. change (od ++ match payload m with [] => [] | _ :: _ => 255 :: payload m end) with data in Hdec. rewrite Hdec. cbn [bind]. reflexivity.
  - rewrite Hpre, bytes_ok_app, !bytes_ok_cons, bytes_ok_app.
    unfold data. rewrite bytes_ok_app, Hodok, Hextok.
    replace (byte_ok b0) with true by (unfold byte_ok; lia).
    replace (byte_ok (code m)) with true by (unfold byte_ok; lia).
    match goal with H : bytes_ok (token m) = true |- _ => rewrite H end.
    destruct (payload m) as [|x pl] eqn:Hp; [reflexivity|].
    rewrite bytes_ok_cons. match goal with H : bytes_ok (x :: pl) = true |- _ => rewrite H end. reflexivity.
  - exists (2 + blen ext), (blen data). split; [exact Hhdr|]. split; [|lia].
    rewrite Hpre, blen_app, Hblen_pre, blen_cons, blen_app. lia.
Qed.

Lemma decode_serialize : forall m b, msg_ok m = true -> serialize m = Ok b ->
  decode_message b = Ok m /\ bytes_ok b = true /\
  exists a l, header b = Some (a, blen (token m), l) /\ a + blen (token m) + l = blen b /\ 2 <= a.
Proof.
  intros m b Hok Hser. pose proof (canon_ok m Hok) as Hc.
  pose proof (decode_serialize_any m b ltac:(rewrite Hc; exact Hok) Hser) as H. rewrite Hc in H. exact H.
Qed.
