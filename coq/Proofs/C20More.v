(* C20 — exact expiry, frame of the write requests, exactness of the lookups *)
From Coq Require Import String.
From Verif Require Import Lib.Py Lib.Tactics Model.C20Str Model.C20 Proofs.C20Dict Proofs.C20Up Proofs.C20.
Open Scope Z_scope.

Lemma obj_dset_other st id0 x id : id <> id0 ->
  dget Z.eqb (dset Z.eqb (objs st) id0 x) id = dget Z.eqb (objs st) id.
Proof. intros N. apply (dget_dset_other Z.eqb Zeqb_spec). exact N. Qed.

Lemma key_of_id st k1 k2 id : Inv st -> In (k1, id) (by_key st) -> In (k2, id) (by_key st) -> k1 = k2.
Proof.
  intros I H1 H2. destruct (inv_bk _ _ _ _ _ I _ _ H1) as (r1 & Ho1 & Hk1 & _). destruct (inv_bk _ _ _ _ _ I _ _ H2) as (r2 & Ho2 & Hk2 & _).
  pose proof (In_fun _ _ _ _ (inv_ids _ _ _ _ _ I) Ho1 Ho2). subst r2. congruence.
Qed.

(* deleting one indexed registration: every other indexed registration stays indexed and untouched *)
Lemma deleted_frame st id0 k0 : Inv st -> In (k0, id0) (by_key st) ->
  (forall k id, In (k, id) (by_key (deleted st id0)) -> In (k, id) (by_key st) /\ id <> id0 /\ obj (deleted st id0) id = obj st id) /\
  (forall k id, In (k, id) (by_key st) -> id <> id0 -> In (k, id) (by_key (deleted st id0)) /\ obj (deleted st id0) id = obj st id) /\
  (forall p id, In (p, id) (by_path (deleted st id0)) <-> In (p, id) (by_path st) /\ id <> id0).
Proof.
  intros I H0. destruct (Inv_indexed_delete st id0 k0 I H0) as [_ Hk0].
  destruct (inv_bk _ _ _ _ _ I _ _ H0) as (r0 & Ho0 & Hkr0 & Hp0 & _).
  pose proof (inv_keys _ _ _ _ _ I) as NK. pose proof (inv_ids _ _ _ _ _ I) as NI. pose proof (inv_paths _ _ _ _ _ I) as NP.
  assert (Same : forall id, id <> id0 -> obj (deleted st id0) id = obj st id).
  { intros id N. unfold obj, deleted. cbn [objs]. rewrite obj_dset_other; auto. }
  split; [|split].
  - intros k id H. unfold deleted in H. cbn [by_key] in H. rewrite Hk0 in H.
    apply (In_ddel key_eqb key_eqb_spec) in H; [|exact NK]. destruct H as [N H].
    assert (Nid : id <> id0). { intros ->. apply N. eapply (key_of_id st); eauto. }
    split; [exact H|split; [exact Nid|apply Same; exact Nid]].
  - intros k id H N. split; [|apply Same; exact N]. unfold deleted. cbn [by_key]. rewrite Hk0.
    apply (In_ddel key_eqb key_eqb_spec); [exact NK|]. split; [|exact H]. intros ->. apply N. exact (In_fun (by_key st) _ _ _ NK H H0).
  - intros p id. unfold deleted. cbn [by_path]. rewrite (obj_In st id0 r0 NI Ho0).
    rewrite (In_ddel Z.eqb Zeqb_spec) by exact NP. split.
    + intros [N H]. split; [exact H|]. intros ->. destruct (inv_bp _ _ _ _ _ I _ _ H) as (r1 & Ho1 & Hp1 & _).
      pose proof (In_fun _ _ _ _ NI Ho0 Ho1). subst r1. congruence.
    + intros [H N]. split; [|exact H]. intros ->. apply N. exact (In_fun (by_path st) _ _ _ NP H Hp0).
Qed.

(* time passing: the registrations that stay are exactly those not yet due, and they are untouched *)
Lemma fire_due_frame fuel : forall st target, Inv st ->
  (forall k id, In (k, id) (by_key (fire_due fuel st target)) -> In (k, id) (by_key st) /\ obj (fire_due fuel st target) id = obj st id) /\
  (forall k id due s, In (k, id) (by_key st) -> r_timer (obj st id) = Some (due, s) -> target < due ->
                      In (k, id) (by_key (fire_due fuel st target))).
Proof.
  induction fuel as [|f IH]; intros st target I; cbn [fire_due]; [split; auto|].
  destruct (next_timer st) as [[[due0 s0] id0]|] eqn:E; [|split; auto].
  destruct (due0 <=? target) eqn:Ed; [|split; auto].
  destruct (fire_one st due0 s0 id0 I E) as [Hd Hi]. rewrite Hd.
  set (st0 := with_now st (Z.max (now st) due0)) in *.
  destruct (next_timer_In _ _ _ _ E) as (r0 & Hin0 & Ht0).
  assert (Hk0 : In (r_key r0, id0) (by_key st0)). { apply (inv_tm _ _ _ _ _ I _ _ Hin0). unfold has_timer. rewrite Ht0. reflexivity. }
  assert (I0 : Inv st0) by exact I.
  destruct (deleted_frame st0 id0 _ I0 Hk0) as (F1 & F2 & _).
  destruct (IH (deleted st0 id0) target Hi) as [A B]. split.
  - intros k id H. destruct (A _ _ H) as [H1 E1]. destruct (F1 _ _ H1) as (H2 & N & E2). split; [exact H2|]. rewrite E1, E2. reflexivity.
  - intros k id due s H Ht Hlt.
    assert (N : id <> id0).
    { intros ->. rewrite (obj_In st id0 r0 (inv_ids _ _ _ _ _ I) Hin0) in Ht. rewrite Ht0 in Ht. inv Ht. lia. }
    destruct (F2 _ _ H N) as [H1 E1]. eapply B; [exact H1| |exact Hlt]. rewrite E1. exact Ht.
Qed.

Lemma advance_step st dt : Inv st -> 0 <= dt -> step st (Advance dt) = (advance st dt, Tick).
Proof.
  intros I Hdt. unfold step. cbn [handle]. rewrite drain_id; [reflexivity|]. apply advance_Settled; assumption.
Qed.

Lemma expiry_exact_lemma st dt : Inv st -> Settled st -> 0 <= dt ->
  let st' := fst (step st (Advance dt)) in
  now st' = now st + dt /\
  forall k id, In (k, id) (by_key st') <->
               (In (k, id) (by_key st) /\ exists due s, r_timer (obj st id) = Some (due, s) /\ now st + dt < due /\ obj st' id = obj st id).
Proof.
  intros I S Hdt. rewrite advance_step by assumption. cbn [fst]. split; [reflexivity|].
  intros k id. unfold advance. cbn [by_key with_now].
  destruct (fire_due_frame (length (objs st)) st (now st + dt) I) as [A B].
  pose proof (advance_Inv st dt I) as I'. pose proof (advance_Settled st dt I Hdt) as S'. split.
  - intros H. destruct (A _ _ H) as [H1 E1]. split; [exact H1|].
    assert (H' : In (k, id) (by_key (advance st dt))) by exact H.
    destruct (inv_bk _ _ _ _ _ I' _ _ H') as (r & Ho & _ & _ & Ht).
    unfold has_timer in Ht. destruct (r_timer r) as [[due s]|] eqn:Er; [|discriminate].
    pose proof (S' _ _ _ _ Ho Er) as Hlt. cbn [now advance with_now] in Hlt.
    assert (Eo : obj (advance st dt) id = r) by (apply obj_In; [apply (inv_ids _ _ _ _ _ I')|exact Ho]).
    assert (Eo' : obj (advance st dt) id = obj st id). { unfold advance. unfold obj in *. cbn [objs with_now] in *. exact E1. }
    exists due, s. split; [rewrite <- Eo', Eo; exact Er|split; [exact Hlt|exact Eo']].
  - intros (H & due & s & Ht & Hlt & _). eapply B; eauto.
Qed.

(* ------------------------------------------------------------------ lookups without criteria *)
Lemma filter_true {A} (l : list A) : filter (fun _ => true) l = l.
Proof. induction l as [|x l IH]; cbn; [reflexivity|]. rewrite IH. reflexivity. Qed.

Lemma ep_lookup_plain st : ep_lookup st [] None = Content (str_links (map get_host_link (get_endpoints st))).
Proof. unfold ep_lookup, ep_lookup_regs. cbn [query_split fold_left criteria_of flat_map forallb]. rewrite filter_true. reflexivity. Qed.
Lemma res_pairs_snd regs : map snd (res_pairs regs) = flat_map get_based_links regs.
Proof.
  unfold res_pairs. induction regs as [|e l IH]; cbn; [reflexivity|].
  rewrite map_app, map_map. cbn. rewrite map_id. rewrite IH. reflexivity.
Qed.
Lemma res_lookup_plain st :
  res_lookup st [] None = Content (str_links (map strip_anchor (flat_map get_based_links (get_endpoints st)))).
Proof.
  unfold res_lookup, res_lookup_regs. cbn [query_split fold_left criteria_of flat_map forallb]. rewrite filter_true, res_pairs_snd. reflexivity.
Qed.

(* the registrations listed by an unfiltered lookup are exactly the objects whose lifetime timer is pending and not due,
   each once, under distinct names and distinct locations *)
Lemma lookup_exact_lemma st : Inv st -> Settled st ->
  ep_lookup st [] None = Content (str_links (map get_host_link (get_endpoints st))) /\
  res_lookup st [] None = Content (str_links (map strip_anchor (flat_map get_based_links (get_endpoints st)))) /\
  (forall r, In r (get_endpoints st) <-> exists id due s, In (id, r) (objs st) /\ r_timer r = Some (due, s) /\ now st < due) /\
  NoDup (map r_key (get_endpoints st)) /\ NoDup (map r_path (get_endpoints st)).
Proof.
  intros I S. pose proof (inv_ids _ _ _ _ _ I) as NI.
  split; [apply ep_lookup_plain|split; [apply res_lookup_plain|split; [|split]]].
  - intros r. unfold get_endpoints. rewrite in_map_iff. split.
    + intros ([k id] & <- & H). cbn [snd]. destruct (inv_bk _ _ _ _ _ I _ _ H) as (r1 & Ho & _ & _ & Ht).
      rewrite (obj_In st id r1 NI Ho). unfold has_timer in Ht. destruct (r_timer r1) as [[due s]|] eqn:E; [|discriminate].
      exists id, due, s. split; [exact Ho|split; [reflexivity|eapply S; eauto]].
    + intros (id & due & s & Ho & Ht & _). exists (r_key r, id). cbn [snd]. split; [apply obj_In; assumption|].
      apply (inv_tm _ _ _ _ _ I _ _ Ho). unfold has_timer. rewrite Ht. reflexivity.
  - unfold get_endpoints. rewrite map_map.
    replace (map (fun kv => r_key (obj st (snd kv))) (by_key st)) with (map fst (by_key st)); [apply I|].
    apply map_ext_in. intros [k id] H. cbn [fst snd]. destruct (inv_bk _ _ _ _ _ I _ _ H) as (r1 & Ho & Hk & _).
    rewrite (obj_In st id r1 NI Ho). auto.
  - unfold get_endpoints. rewrite map_map.
    assert (Inj : forall l, incl l (by_key st) -> NoDup (map fst l) -> NoDup (map (fun kv : key * Z => r_path (obj st (snd kv))) l)).
    { induction l as [|[k id] l IH]; cbn [map]; intros Hin ND; [constructor|]. inv ND. constructor; [|apply IH; [intros x Hx; apply Hin; right; exact Hx|assumption]].
      intros H. apply in_map_iff in H. destruct H as ([k2 id2] & E & Hl). cbn [snd] in E.
      assert (Hk1 : In (k, id) (by_key st)) by (apply Hin; left; reflexivity).
      assert (H2' : In (k2, id2) (by_key st)) by (apply Hin; right; exact Hl).
      destruct (key_eqb k k2) eqn:EK.
      - apply key_eqb_spec in EK. subst k2. match goal with HN : ~ In _ (map fst l) |- _ => apply HN end. apply (in_map fst) in Hl. exact Hl.
      - apply (distinct_locations_lemma st k k2 id id2 I Hk1 H2'); [|auto]. intros ->. rewrite (proj2 (key_eqb_spec k2 k2) eq_refl) in EK. discriminate. }
    apply Inj; [apply incl_refl|apply I].
Qed.

(* ------------------------------------------------------------------ frame of the write requests *)
(* the registration a request is addressed to *)
Definition target (st : rd) (o : op) : option Z :=
  match o with
  | UpdatePost path _ _ _ | UpdatePut path _ _ _ | Delete path => lookup_path st path
  | _ => None
  end.

Lemma registered_frame st k r : Inv st -> r_key r = k -> r_path r = location_for st k -> has_timer r = true ->
  (forall k1 id, In (k1, id) (by_key (registered st k r)) -> id <> next_id st ->
                 In (k1, id) (by_key st) /\ k1 <> k /\ obj (registered st k r) id = obj st id) /\
  (forall k1 id, In (k1, id) (by_key st) -> k1 <> k -> In (k1, id) (by_key (registered st k r)) /\ obj (registered st k r) id = obj st id).
Proof.
  intros I Rk Rp Rt. pose proof (inv_keys _ _ _ _ _ I) as NK. pose proof (inv_ids _ _ _ _ _ I) as NI.
  assert (Old : forall id x, In (id, x) (objs st) -> id <> next_id st).
  { intros id x H ->. pose proof (inv_fresh _ _ _ _ _ I _ _ H). lia. }
  unfold registered. destruct (dget key_eqb (by_key st) k) as [oid|] eqn:Eold.
  - pose proof (dget_In key_eqb key_eqb_spec _ _ _ Eold) as Hold.
    destruct (deleted_frame st oid k I Hold) as (F1 & F2 & _).
    pose proof (Inv_deleted st oid k I Hold) as ID.
    assert (App : forall id, id <> next_id st -> obj {| objs := objs (deleted st oid) ++ [(next_id st, r)]; by_key := dset key_eqb (by_key (deleted st oid)) k (next_id st);
                 by_path := dset Z.eqb (by_path (deleted st oid)) (r_path r) (next_id st); now := now st; next_id := next_id st + 1; next_seq := next_seq st + 1;
                 loop_exceptions := loop_exceptions st |} id = obj (deleted st oid) id).
    { intros id N. unfold obj. cbn [objs]. destruct (dget Z.eqb (objs (deleted st oid)) id) as [x|] eqn:E.
      - rewrite (dget_app_mem Z.eqb _ _ _ _ E). reflexivity.
      - rewrite (notin_dget_None Z.eqb); [reflexivity|apply Zeqb_spec|]. rewrite map_app. cbn. rewrite in_app_iff. cbn.
        apply (dget_None_notin Z.eqb Zeqb_spec) in E. intros [A|[A|[]]]; [contradiction|congruence]. }
    split.
    + intros k1 id H N. cbn [by_key] in H. apply (In_dset key_eqb key_eqb_spec) in H; [|apply (inv_keys _ _ _ _ _ ID)].
      destruct H as [[-> ->]|[Nk H]]; [contradiction|]. destruct (F1 _ _ H) as (H1 & N1 & E1).
      split; [exact H1|split; [exact Nk|]]. rewrite App by exact N. exact E1.
    + intros k1 id H Nk. assert (N1 : id <> oid). { intros ->. apply Nk. exact (key_of_id st k1 k oid I H Hold). }
      destruct (F2 _ _ H N1) as [H1 E1]. cbn [by_key]. split.
      * apply (In_dset key_eqb key_eqb_spec); [apply (inv_keys _ _ _ _ _ ID)|]. right. split; assumption.
      * destruct (inv_bk _ _ _ _ _ I _ _ H) as (x & Hx & _). rewrite App by (eapply Old; eauto). exact E1.
  - assert (App : forall id, id <> next_id st -> obj {| objs := objs st ++ [(next_id st, r)]; by_key := dset key_eqb (by_key st) k (next_id st);
                 by_path := dset Z.eqb (by_path st) (r_path r) (next_id st); now := now st; next_id := next_id st + 1; next_seq := next_seq st + 1;
                 loop_exceptions := loop_exceptions st |} id = obj st id).
    { intros id N. unfold obj. cbn [objs]. destruct (dget Z.eqb (objs st) id) as [x|] eqn:E.
      - rewrite (dget_app_mem Z.eqb _ _ _ _ E). reflexivity.
      - rewrite (notin_dget_None Z.eqb); [reflexivity|apply Zeqb_spec|]. rewrite map_app. cbn. rewrite in_app_iff. cbn.
        apply (dget_None_notin Z.eqb Zeqb_spec) in E. intros [A|[A|[]]]; [contradiction|congruence]. }
    split.
    + intros k1 id H N. cbn [by_key] in H. apply (In_dset key_eqb key_eqb_spec) in H; [|exact NK].
      destruct H as [[-> ->]|[Nk H]]; [contradiction|]. split; [exact H|split; [exact Nk|apply App; exact N]].
    + intros k1 id H Nk. cbn [by_key]. split.
      * apply (In_dset key_eqb key_eqb_spec); [exact NK|]. right. split; assumption.
      * destruct (inv_bk _ _ _ _ _ I _ _ H) as (x & Hx & _). apply App. eapply Old; eauto.
Qed.

Definition is_advance (o : op) : bool := match o with Advance _ => true | _ => false end.

Lemma set_obj_frame st tid x : by_key (set_obj st tid x) = by_key st /\ now (set_obj st tid x) = now st /\
  forall id, id <> tid -> obj (set_obj st tid x) id = obj st id.
Proof. split; [reflexivity|split; [reflexivity|]]. intros id N. unfold obj, set_obj. cbn [objs]. rewrite obj_dset_other; auto. Qed.

Lemma _update_params_frame st tid remote q st1 res : _update_params st tid remote q = (st1, res) ->
  by_key st1 = by_key st /\ now st1 = now st /\ forall id, id <> tid -> obj st1 id = obj st id.
Proof.
  unfold _update_params. destruct (update_params _ _ _ _ _ _) as [r'|r' e]; intros H; inv H.
  - split; [reflexivity|split; [reflexivity|]]. intros id N. unfold obj. cbn [objs]. rewrite obj_dset_other; auto.
  - apply set_obj_frame.
Qed.

Lemma handle_frame st o st1 r : Inv st -> is_advance o = false -> handle st o = (st1, r) ->
  now st1 = now st /\
  (forall k id, In (k, id) (by_key st1) -> id < next_id st -> Some id <> target st o -> In (k, id) (by_key st) /\ obj st1 id = obj st id) /\
  (forall k id, In (k, id) (by_key st) -> Some id <> target st o ->
     (In (k, id) (by_key st1) /\ obj st1 id = obj st id) \/ (exists loc, r = Created loc /\ dget key_eqb (by_key st1) k = Some (next_id st))).
Proof.
  intros I NA. assert (Triv : forall r0, (st, r0) = (st1, r) -> now st1 = now st /\
      (forall k id, In (k, id) (by_key st1) -> id < next_id st -> Some id <> target st o -> In (k, id) (by_key st) /\ obj st1 id = obj st id) /\
      (forall k id, In (k, id) (by_key st) -> Some id <> target st o ->
         (In (k, id) (by_key st1) /\ obj st1 id = obj st id) \/ (exists loc, r = Created loc /\ dget key_eqb (by_key st1) k = Some (next_id st)))).
  { intros r0 H. inv H. split; [reflexivity|split; [auto|auto]]. }
  destruct o as [remote q b|path remote q b|path remote q b|path|path accept|q accept|q accept|dt]; cbn [handle target] in *; try discriminate NA.
  - (* Register *)
    unfold directory_render_post. destruct (link_format_from_message b) as [links|e]; [|apply Triv].
    destruct (initialize_endpoint st remote (query_split q)) as [st2 [id0|e]] eqn:EI; pose proof (initialize_endpoint_spec _ _ _ _ _ I EI) as S; cbn beta iota in S.
    2:{ destruct S as [-> _]. apply Triv. }
    destruct S as (k0 & r0 & -> & Rk & Rp & Rl & Rt & ->). intros H; inv H.
    assert (Tm : has_timer r0 = true) by (unfold has_timer; rewrite Rt; reflexivity).
    destruct (registered_frame st (r_key r0) r0 I eq_refl Rp Tm) as [F1 F2].
    destruct (set_obj_frame (registered st (r_key r0) r0) (next_id st) (set_links (obj (registered st (r_key r0) r0) (next_id st)) links)) as (Bk & Nw & Ob).
    split; [rewrite Nw; reflexivity|split].
    + intros k id H Hlt _. rewrite Bk in H. assert (N : id <> next_id st) by lia. destruct (F1 _ _ H N) as (H1 & _ & E1).
      split; [exact H1|]. rewrite Ob by exact N. exact E1.
    + intros k id H _. destruct (key_eqb k (r_key r0)) eqn:EK.
      * apply key_eqb_spec in EK. subst k. right. eexists. split; [reflexivity|]. rewrite Bk. unfold registered. cbn [by_key].
        apply (dget_dset_same key_eqb key_eqb_spec).
      * left. assert (Nk : k <> r_key r0). { intros ->. rewrite (proj2 (key_eqb_spec _ _) eq_refl) in EK. discriminate. }
        destruct (F2 _ _ H Nk) as [H1 E1]. rewrite Bk. split; [exact H1|].
        destruct (inv_bk _ _ _ _ _ I _ _ H) as (x & Hx & _). pose proof (inv_fresh _ _ _ _ _ I _ _ Hx).
        rewrite Ob by lia. exact E1.
  - (* UpdatePost *)
    destruct (lookup_path st path) as [tid|]; [|apply Triv].
    unfold registration_render_post. destruct (_ || _); [apply Triv|].
    destruct (_update_params st tid remote q) as [st2 res] eqn:EU. destruct (_update_params_frame _ _ _ _ _ _ EU) as (Bk & Nw & Ob).
    assert (G : now st2 = now st /\
      (forall k id, In (k, id) (by_key st2) -> id < next_id st -> Some id <> Some tid -> In (k, id) (by_key st) /\ obj st2 id = obj st id) /\
      (forall k id, In (k, id) (by_key st) -> Some id <> Some tid ->
         (In (k, id) (by_key st2) /\ obj st2 id = obj st id) \/ (exists loc, r = Created loc /\ dget key_eqb (by_key st2) k = Some (next_id st)))).
    { split; [exact Nw|split].
      - intros k id H _ N. rewrite Bk in H. split; [exact H|apply Ob; congruence].
      - intros k id H N. left. rewrite Bk. split; [exact H|apply Ob; congruence]. }
    destruct res; intros H; inv H; exact G.
  - (* UpdatePut *)
    destruct (lookup_path st path) as [tid|]; [|apply Triv].
    unfold registration_render_put. destruct (link_format_from_message b) as [links|e]; [|apply Triv].
    destruct (_update_params st tid remote q) as [st2 res] eqn:EU. destruct (_update_params_frame _ _ _ _ _ _ EU) as (Bk & Nw & Ob).
    destruct res; intros H; inv H.
    + split; [exact Nw|split].
      * intros k id H _ N. rewrite Bk in H. split; [exact H|apply Ob; congruence].
      * intros k id H N. left. rewrite Bk. split; [exact H|apply Ob; congruence].
    + destruct (set_obj_frame st2 tid (set_links (obj st2 tid) links)) as (Bk2 & Nw2 & Ob2).
      split; [rewrite Nw2; exact Nw|split].
      * intros k id H _ N. rewrite Bk2, Bk in H. split; [exact H|]. rewrite Ob2 by congruence. apply Ob; congruence.
      * intros k id H N. left. rewrite Bk2, Bk. split; [exact H|]. rewrite Ob2 by congruence. apply Ob; congruence.
  - (* Delete *)
    destruct (lookup_path st path) as [tid|] eqn:EP; [|apply Triv].
    apply lookup_path_In in EP. destruct EP as (p & Hp & _).
    destruct (inv_bp _ _ _ _ _ I _ _ Hp) as (r0 & Ho & _ & Hk).
    unfold registration_render_delete. destruct (Inv_indexed_delete st tid _ I Hk) as [-> _]. intros H; inv H.
    destruct (deleted_frame st tid _ I Hk) as (F1 & F2 & _). split; [reflexivity|split].
    + intros k id H _ _. destruct (F1 _ _ H) as (H1 & _ & E1). auto.
    + intros k id H N. left. apply F2; [exact H|congruence].
  - destruct (lookup_path st path); apply Triv.
  - apply Triv.
  - apply Triv.
Qed.

(* A request other than the passage of time: every registration that is neither addressed by it nor replaced by a
   re-registration of its own (ep, d) stays listed and keeps every field; and every registration listed afterwards that existed
   before and was not addressed was listed before with the same fields. *)
Lemma step_frame_lemma st o st' r : Inv st -> Settled st -> is_advance o = false -> step st o = (st', r) ->
  (forall k id, In (k, id) (by_key st') -> id < next_id st -> Some id <> target st o -> In (k, id) (by_key st) /\ obj st' id = obj st id) /\
  (forall k id, In (k, id) (by_key st) -> Some id <> target st o ->
     (In (k, id) (by_key st') /\ obj st' id = obj st id) \/ (exists loc, r = Created loc /\ k = r_key (obj (fst (handle st o)) (next_id st)))).
Proof.
  intros I S NA. unfold step. destruct (handle st o) as [st1 r1] eqn:EH. intros H; inv H.
  destruct (handle_frame _ _ _ _ I NA EH) as (Nw & F1 & F2). destruct (handle_Inv _ _ _ _ I EH) as (I1 & _ & _).
  unfold drain. destruct (fire_due_frame (length (objs st1)) st1 (now st1) I1) as [A B]. cbn [fst]. split.
  - intros k id H Hlt N. destruct (A _ _ H) as [H1 E1]. destruct (F1 _ _ H1 Hlt N) as [H2 E2]. split; [exact H2|]. rewrite E1. exact E2.
  - intros k id H N. destruct (F2 _ _ H N) as [[H1 E1]|(loc & -> & Hd)].
    + left. destruct (inv_bk _ _ _ _ _ I _ _ H) as (x & Hx & _ & _ & Ht). rewrite (obj_In st id x (inv_ids _ _ _ _ _ I) Hx) in E1.
      unfold has_timer in Ht. destruct (r_timer x) as [[due s]|] eqn:Ex; [|discriminate].
      pose proof (S _ _ _ _ Hx Ex) as Hlt. rewrite <- Nw in Hlt.
      assert (Hin : In (k, id) (by_key (fire_due (length (objs st1)) st1 (now st1)))).
      { eapply B; [exact H1| |exact Hlt]. rewrite E1. exact Ex. }
      split; [exact Hin|]. destruct (A _ _ Hin) as [_ E2]. rewrite E2, E1. symmetry. apply obj_In; [apply (inv_ids _ _ _ _ _ I)|exact Hx].
    + right. exists loc. split; [reflexivity|].
      apply (dget_In key_eqb key_eqb_spec) in Hd. destruct (inv_bk _ _ _ _ _ I1 _ _ Hd) as (x & Hx & Hk & _).
      rewrite (obj_In st1 _ x (inv_ids _ _ _ _ _ I1) Hx). auto.
Qed.

(* ------------------------------------------------------------------ the statements of Props/C20.v, over reachable states *)
Lemma invariant_all_histories : forall ops, Inv (run_state empty_rd ops) /\ Settled (run_state empty_rd ops).
Proof. intros ops. apply run_state_Inv; [apply empty_Inv|apply empty_Settled]. Qed.
Lemma indexes_bijective_reachable : forall st, reachable st ->
  NoDup (map fst (by_key st)) /\ NoDup (map fst (by_path st)) /\
  (forall id, (exists k, In (k, id) (by_key st)) <-> (exists p, In (p, id) (by_path st))) /\
  (forall k id, In (k, id) (by_key st) -> r_key (obj st id) = k /\ In (r_path (obj st id), id) (by_path st)) /\
  (forall p id, In (p, id) (by_path st) -> r_path (obj st id) = p /\ In (r_key (obj st id), id) (by_key st)).
Proof. intros st R. apply indexes_bijective_lemma. apply (reachable_Inv st R). Qed.
Lemma distinct_locations_reachable : forall st k1 k2 id1 id2, reachable st ->
  In (k1, id1) (by_key st) -> In (k2, id2) (by_key st) -> k1 <> k2 -> r_path (obj st id1) <> r_path (obj st id2).
Proof. intros st k1 k2 id1 id2 R. apply distinct_locations_lemma. apply (reachable_Inv st R). Qed.
Lemma failed_op_unchanged_reachable : forall st o st' r, reachable st -> step st o = (st', r) -> is_4xx r = true -> st' = st.
Proof. intros st o st' r R. destruct (reachable_Inv st R) as [I S]. apply failed_op_unchanged_lemma; assumption. Qed.
Lemma listed_iff_live_reachable : forall st, reachable st -> forall id r, In (id, r) (objs st) ->
  ((exists k, In (k, id) (by_key st)) <-> exists due s, r_timer r = Some (due, s) /\ now st < due).
Proof. intros st R. destruct (reachable_Inv st R) as [I S]. apply listed_iff_live_lemma; assumption. Qed.
Lemma closures_never_raise_all_histories : forall ops,
  loop_exceptions (run_state empty_rd ops) = 0 /\
  Forall2 (fun o ob => is_lookup o = false -> o_resp ob <> Err KeyError) ops (run empty_rd ops).
Proof. intros ops. apply run_no_exception; [apply empty_Inv|apply empty_Settled]. Qed.
Lemma expiry_exact_reachable : forall st dt, reachable st -> 0 <= dt ->
  let st' := fst (step st (Advance dt)) in
  now st' = now st + dt /\
  forall k id, In (k, id) (by_key st') <->
               (In (k, id) (by_key st) /\ exists due s, r_timer (obj st id) = Some (due, s) /\ now st + dt < due /\ obj st' id = obj st id).
Proof. intros st dt R. destruct (reachable_Inv st R) as [I S]. apply expiry_exact_lemma; assumption. Qed.
Lemma other_registrations_untouched_reachable : forall st o st' r, reachable st -> is_advance o = false -> step st o = (st', r) ->
  (forall k id, In (k, id) (by_key st') -> id < next_id st -> Some id <> target st o -> In (k, id) (by_key st) /\ obj st' id = obj st id) /\
  (forall k id, In (k, id) (by_key st) -> Some id <> target st o ->
     (In (k, id) (by_key st') /\ obj st' id = obj st id) \/ (exists loc, r = Created loc /\ k = r_key (obj (fst (handle st o)) (next_id st)))).
Proof. intros st o st' r R. destruct (reachable_Inv st R) as [I S]. apply step_frame_lemma; assumption. Qed.
Lemma lookup_exact_reachable : forall st, reachable st ->
  ep_lookup st [] None = Content (str_links (map get_host_link (get_endpoints st))) /\
  res_lookup st [] None = Content (str_links (map strip_anchor (flat_map get_based_links (get_endpoints st)))) /\
  (forall r, In r (get_endpoints st) <-> exists id due s, In (id, r) (objs st) /\ r_timer r = Some (due, s) /\ now st < due) /\
  NoDup (map r_key (get_endpoints st)) /\ NoDup (map r_path (get_endpoints st)).
Proof. intros st R. destruct (reachable_Inv st R) as [I S]. apply lookup_exact_lemma; assumption. Qed.

(* ------------------------------------------------------------------ write requests are never answered 5.00 *)
Lemma link_format_from_message_err b e : link_format_from_message b = Raise e -> e = BadRequest \/ e = UnsupportedMediaType.
Proof. unfold link_format_from_message. intros H. repeat break_match; inv H; auto. Qed.

Lemma _update_params_err st id remote q st1 e : _update_params st id remote q = (st1, Some e) -> e = BadRequest.
Proof.
  unfold _update_params. destruct (update_params _ _ _ _ _ _) as [r'|r' e'] eqn:EU; intros H; inv H.
  apply update_params_fail_clean in EU. apply EU.
Qed.

Lemma handle_errors_4xx st o st1 e : Inv st -> is_lookup o = false -> handle st o = (st1, Err e) -> is_4xx (Err e) = true.
Proof.
  intros I NL. destruct o as [remote q b|path remote q b|path remote q b|path|path accept|q accept|q accept|dt]; cbn [handle]; try discriminate NL.
  - unfold directory_render_post. destruct (link_format_from_message b) as [links|e0] eqn:EL.
    2:{ intros H; inv H. destruct (link_format_from_message_err _ _ EL) as [->| ->]; reflexivity. }
    destruct (initialize_endpoint st remote (query_split q)) as [st2 [id0|e0]] eqn:EI; [discriminate|].
    pose proof (initialize_endpoint_spec _ _ _ _ _ I EI) as S. cbn beta iota in S. destruct S as [_ ->]. intros H; inv H. reflexivity.
  - destruct (lookup_path st path) as [tid|]; [|intros H; inv H; reflexivity].
    unfold registration_render_post. destruct (_ || _); [intros H; inv H; reflexivity|].
    destruct (_update_params st tid remote q) as [st2 [e0|]] eqn:EU; intros H; inv H. rewrite (_update_params_err _ _ _ _ _ _ EU). reflexivity.
  - destruct (lookup_path st path) as [tid|]; [|intros H; inv H; reflexivity].
    unfold registration_render_put. destruct (link_format_from_message b) as [links|e0] eqn:EL.
    2:{ intros H; inv H. destruct (link_format_from_message_err _ _ EL) as [->| ->]; reflexivity. }
    destruct (_update_params st tid remote q) as [st2 [e0|]] eqn:EU; intros H; inv H. rewrite (_update_params_err _ _ _ _ _ _ EU). reflexivity.
  - destruct (lookup_path st path) as [tid|] eqn:EP; [|intros H; inv H; reflexivity].
    apply lookup_path_In in EP. destruct EP as (p & Hp & _). destruct (inv_bp _ _ _ _ _ I _ _ Hp) as (r0 & Ho & _ & Hk).
    unfold registration_render_delete. destruct (Inv_indexed_delete st tid _ I Hk) as [-> _]. discriminate.
  - destruct (lookup_path st path); [|intros H; inv H; reflexivity]. unfold link_format_to_message. intros H. repeat break_match; discriminate.
  - discriminate.
Qed.

(* any error answer to a request other than a lookup is a 4.xx, and leaves the directory unchanged *)
Lemma error_answers_reachable : forall st o st' e, reachable st -> is_lookup o = false -> step st o = (st', Err e) ->
  is_4xx (Err e) = true /\ st' = st.
Proof.
  intros st o st' e R NL H. destruct (reachable_Inv st R) as [I S].
  assert (H4 : is_4xx (Err e) = true).
  { unfold step in H. destruct (handle st o) as [st1 r1] eqn:EH. inv H. eapply handle_errors_4xx; eauto. }
  split; [exact H4|]. eapply failed_op_unchanged_lemma; eauto.
Qed.

(* lookups are answered 2.05, 4.06 or 4.00 only: the filters are total boolean functions, pagination converts its errors *)
Lemma _paginate_err {A} (l : list A) q e : _paginate l q = Raise e -> e = BadRequest.
Proof.
  unfold _paginate, bind, pop_single_arg, py_int. intros H.
  repeat (break_match; try discriminate; inv_eqs); try (inv H); try reflexivity; try discriminate.
Qed.
Lemma lookups_never_5xx st q accept :
  (forall e, ep_lookup st q accept = Err e -> e = BadRequest) /\ (forall e, res_lookup st q accept = Err e -> e = BadRequest).
Proof.
  split; intros e.
  - unfold ep_lookup, ep_lookup_regs. destruct (_paginate _ (query_split q)) as [l'|e'] eqn:EP.
    + unfold link_format_to_message. intros H. repeat break_match; discriminate.
    + intros H. inv H. eapply _paginate_err; eauto.
  - unfold res_lookup, res_lookup_regs. destruct (_paginate _ (query_split q)) as [l'|e'] eqn:EP.
    + unfold link_format_to_message. intros H. repeat break_match; discriminate.
    + intros H. inv H. eapply _paginate_err; eauto.
Qed.

(* ------------------------------------------------------------------ lookups with any list of criteria (212d645) *)
Definition live_reg (st : rd) (r : reg) : Prop := exists id due s, In (id, r) (objs st) /\ r_timer r = Some (due, s) /\ now st < due.

Lemma lookup_all_criteria_reachable : forall st qs accept, reachable st ->
  let q := query_split qs in
  let eps := filter (fun r => forallb (fun c => ep_keep c r) (criteria_of q)) (get_endpoints st) in
  let links := filter (fun ec => forallb (fun c => res_keep c ec) (criteria_of q)) (res_pairs (get_endpoints st)) in
  (forall r, In r eps <-> live_reg st r /\ forall c, In c (criteria_of q) -> ep_keep c r = true) /\
  (forall e l, In (e, l) links <-> live_reg st e /\ In l (get_based_links e) /\ forall c, In c (criteria_of q) -> res_keep c (e, l) = true) /\
  ep_lookup st qs accept = match _paginate eps q with Raise e => Err e | Ok l => link_format_to_message accept (map get_host_link l) end /\
  res_lookup st qs accept = match _paginate (map snd links) q with Raise e => Err e | Ok l => link_format_to_message accept (map strip_anchor l) end.
Proof.
  intros st qs accept R q eps links. destruct (reachable_Inv st R) as [I S].
  destruct (lookup_exact_lemma st I S) as (_ & _ & Live & _ & _).
  split; [|split; [|split; reflexivity]].
  - intros r. unfold eps. rewrite filter_In, forallb_forall. rewrite Live. unfold live_reg. tauto.
  - intros e l. unfold links. rewrite filter_In, forallb_forall. unfold res_pairs. rewrite in_flat_map.
    split.
    + intros [(e0 & He0 & Hin) Hc]. apply in_map_iff in Hin. destruct Hin as (l0 & E & Hl0). inv E.
      split; [apply Live; exact He0|split; [exact Hl0|exact Hc]].
    + intros (Hl & Hin & Hc). split; [|exact Hc]. exists e. split; [apply Live; exact Hl|]. apply in_map. exact Hin.
Qed.

