(* C15 — the CSM gate over whole event histories. *)
From Verif Require Import Lib.Py Lib.Tactics Lib.PyLemmas Gen.options_ext Gen.tcp_framing Model.C15 Proofs.C15Framing Proofs.C15Codec Proofs.C15Conn.
Open Scope Z_scope.

Definition sset (c : conn) : bool := match remote_settings c with None => false | Some _ => true end.
Definition nodisp (o : list out) : Prop := existsb is_dispatch o = false.
Lemma nodisp_app a b : nodisp a -> nodisp b -> nodisp (a ++ b).
Proof. unfold nodisp. intros Ha Hb. rewrite existsb_app, Ha, Hb. reflexivity. Qed.
Lemma nodisp_app_inv a b : nodisp (a ++ b) -> nodisp a /\ nodisp b.
Proof. unfold nodisp. rewrite existsb_app. intros H. apply orb_false_elim in H. exact H. Qed.

Definition op_quiet {B} (c : conn) (r : conn * list out * B) : Prop :=
  let '(c1, o, _) := r in remote_settings c1 = remote_settings c /\ nodisp o.

Lemma abort_quiet c t b : op_quiet c (abort c t b).
Proof. unfold abort. destruct (serialize _); split; reflexivity. Qed.
Lemma send_message_quiet c m : op_quiet c (send_message c m).
Proof. unfold send_message. destruct (serialize _); split; reflexivity. Qed.
Lemma process_csm_options_quiet : forall os c st,
  let '(c1, st1, o, ok) := process_csm_options c st os in remote_settings c1 = remote_settings c /\ nodisp o.
Proof.
  induction os as [|[n v] r IH]; intros c st; [split; reflexivity|].
  cbn [process_csm_options]. destruct (n =? 2); [apply IH|]. destruct (n =? 4); [apply IH|].
  destruct (is_critical n); [|apply IH].
  pose proof (abort_quiet c txt_option_not_supported (Some n)) as Ha.
  destruct (abort c _ (Some n)) as [[c1 o1] ok]. exact Ha.
Qed.

Lemma process_signaling_gate c m :
  let '(c1, o, _) := process_signaling c m in (sset c = true -> sset c1 = true) /\ nodisp o.
Proof.
  unfold process_signaling. destruct (code m =? CSM).
  { pose proof (process_csm_options_quiet (opts m) c
      match remote_settings c with Some s => s | None => {| max_message_size := None; block_wise_transfer := false |} end) as H.
    destruct (process_csm_options c _ (opts m)) as [[[c1 s1] o] ok]. destruct H as [_ H2]. split; [reflexivity|exact H2]. }
  destruct ((code m =? PING) || (code m =? PONG) || (code m =? RELEASE) || (code m =? ABORT)).
  { destruct (has_critical (opts m)).
    { pose proof (abort_quiet c txt_unknown_critical_option None) as Ha.
      destruct (abort c _ None) as [[c1 o1] ok]. destruct Ha as [A1 A2].
      split; [unfold sset; rewrite A1; auto|exact A2]. }
    destruct (code m =? PING).
    { pose proof (send_message_quiet c {| code := PONG; token := token m; opts := []; payload := [] |}) as Hq.
      destruct (send_message c _) as [[c2 o2] ok2]. destruct Hq as [Q1 Q2].
      split; [unfold sset; rewrite Q1; auto|exact Q2]. }
    destruct (code m =? PONG); [split; [auto|reflexivity]|]. destruct (code m =? RELEASE); split; auto; reflexivity. }
  pose proof (abort_quiet c txt_unknown_signalling_code None) as Ha.
  destruct (abort c _ None) as [[c1 o1] ok]. destruct Ha as [A1 A2].
  split; [unfold sset; rewrite A1; auto|exact A2].
Qed.

Definition gate_post (c c1 : conn) (o1 : list out) : Prop :=
  (sset c = true -> sset c1 = true) /\ (sset c1 = false -> nodisp o1).

Lemma frame_step_gate c f r :
  match frame_step c f r with FStop c1 o1 | FNext c1 o1 => gate_post c c1 o1 end.
Proof.
  unfold frame_step. destruct (decode_message f) as [m|e].
  2:{ assert (H : gate_post c c [Escaped e]) by (split; [auto|reflexivity]).
      destruct e; exact H. }
  destruct (is_signalling (code m)).
  { pose proof (process_signaling_gate (set_spool c r) m) as H.
    destruct (process_signaling (set_spool c r) m) as [[c1 o1] res]. destruct H as [H1 H2].
    change (sset (set_spool c r)) with (sset c) in H1.
    destruct res; try (split; auto; fail).
    - destruct (closed c1); split; auto.
    - split; auto. intros _. apply nodisp_app; [exact H2|reflexivity]. }
  change (remote_settings (set_spool c r)) with (remote_settings c).
  destruct (remote_settings c) eqn:Hs.
  { split; [auto|]. unfold sset. cbn. rewrite Hs. discriminate. }
  pose proof (abort_quiet (set_spool c r) txt_no_csm None) as Ha.
  destruct (abort (set_spool c r) _ None) as [[c1 o1] ok]. destruct Ha as [A1 A2].
  split; [unfold sset; rewrite A1; auto|intros _; exact A2].
Qed.

Lemma loop_gate : forall n c, (length (spool c) < n)%nat -> bytes_ok (spool c) = true ->
  let '(c1, o1, _) := loop' c in gate_post c c1 o1.
Proof.
  induction n as [|n IH]; intros c Hn Hok; [lia|].
  rewrite (loop'_unfold c Hok). unfold view_body.
  destruct (view_of _ (spool c)) as [| |f r] eqn:V.
  - split; [auto|reflexivity].
  - pose proof (abort_quiet c txt_overly_large None) as Ha.
    destruct (abort c _ None) as [[c1 o1] ok]. destruct Ha as [A1 A2]. split; [unfold sset; rewrite A1; auto|intros _; exact A2].
  - destruct (view_frame_facts _ _ _ _ Hok V) as (_ & Hlen & _ & Hrok & _).
    pose proof (frame_step_gate c f r) as FG. pose proof (frame_step_post c f r) as FP.
    destruct (frame_step c f r) as [c1 o1|c1 o1]; [exact FG|].
    destruct FP as (_ & _ & F3 & _). destruct FG as [G1 G2].
    specialize (IH c1 ltac:(rewrite F3; lia) ltac:(rewrite F3; exact Hrok)).
    destruct (loop' c1) as [[c2 o2] k]. destruct IH as [I1 I2].
    split; [auto|]. intros H2. apply nodisp_app; [|auto].
    apply G2. destruct (sset c1) eqn:E; [rewrite (I1 eq_refl) in H2; discriminate|reflexivity].
Qed.

Lemma step_gate c e : bytes_ok (spool c) = true -> (match e with EData d => bytes_ok d = true | _ => True end) ->
  let '(c1, o1) := step c e in gate_post c c1 o1 /\ bytes_ok (spool c1) = true.
Proof.
  intros Hok He. destruct e as [d|m| |m]; cbn [step].
  - destruct (closed c). { split; [split; [auto|reflexivity]|exact Hok]. }
    pose proof (data_received_post c d Hok He) as HP.
    unfold data_received. rewrite data_received_ctl_loop' in *.
    assert (Hok' : bytes_ok (spool (feed c d)) = true) by (cbn; rewrite bytes_ok_app, Hok, He; reflexivity).
    pose proof (loop_gate (S (length (spool (feed c d)))) (feed c d) ltac:(lia) Hok') as HG.
    destruct (loop' (feed c d)) as [[c1 o1] k]. destruct HP as (_ & _ & _ & P4 & _).
    split; [exact HG|exact P4].
  - destruct (closed c). { split; [split; [auto|reflexivity]|exact Hok]. }
    destruct (normalize_opts (opts m)) as [os|e]; [|split; [split; [auto|reflexivity]|exact Hok]].
    pose proof (send_message_quiet c {| code := code m; token := token m; opts := os; payload := payload m |}) as Hq.
    pose proof (send_message_ok c {| code := code m; token := token m; opts := os; payload := payload m |}) as Hk. cbv zeta in Hk.
    destruct (send_message c _) as [[c1 o1] ok]. destruct Hq as [Q1 Q2]. destruct Hk as (_ & _ & _ & K4).
    split; [split; [unfold sset; rewrite Q1; auto|intros _; exact Q2]|rewrite K4; exact Hok].
  - split; [split; [auto|reflexivity]|exact Hok].
  - destruct (closed c). { split; [split; [auto|reflexivity]|exact Hok]. }
    destruct (normalize_opts (opts m)) as [os|e]; [|split; [split; [auto|reflexivity]|exact Hok]].
    unfold pool_send_message. destruct (no_response_masked _). { split; [split; [auto|reflexivity]|exact Hok]. }
    set (m' := strip_no_response _).
    pose proof (send_message_quiet c m') as Hq.
    pose proof (send_message_ok c m') as Hk. cbv zeta in Hk.
    destruct (send_message c m') as [[c1 o1] ok]. destruct Hq as [Q1 Q2]. destruct Hk as (_ & _ & _ & K4).
    split; [split; [unfold sset; rewrite Q1; auto|intros _; exact Q2]|rewrite K4; exact Hok].
Qed.

(* over every history of data chunks, outgoing messages and connection loss: as long as no CSM has
   been received (the settings are still unset at the end), nothing has been handed to the token manager *)
Lemma csm_gate_run : forall es c, bytes_ok (spool c) = true ->
  Forall (fun e => match e with EData d => bytes_ok d = true | _ => True end) es ->
  let '(c1, o1) := run c es in gate_post c c1 o1.
Proof.
  induction es as [|e es IH]; intros c Hok Hes; [split; [auto|reflexivity]|].
  inversion Hes as [|? ? He Hes']; subst. rewrite run_cons.
  pose proof (step_gate c e Hok He) as HS. destruct (step c e) as [c1 o1]. destruct HS as [[G1 G2] Hok1].
  destruct (existsb is_escaped o1); [split; assumption|].
  specialize (IH c1 Hok1 Hes'). destruct (run c1 es) as [c2 o2]. destruct IH as [I1 I2].
  split; [auto|]. intros H2. apply nodisp_app; [|auto].
  apply G2. destruct (sset c1) eqn:E; [rewrite (I1 eq_refl) in H2; discriminate|reflexivity].
Qed.

Lemma csm_gate_run_stated : forall es c, bytes_ok (spool c) = true ->
  Forall (fun e => match e with EData d => bytes_ok d = true | _ => True end) es ->
  let '(c1, o1) := run c es in
  (remote_settings c <> None -> remote_settings c1 <> None) /\
  (remote_settings c1 = None -> existsb is_dispatch o1 = false).
Proof.
  intros es c Hok Hes. pose proof (csm_gate_run es c Hok Hes) as H.
  destruct (run c es) as [c1 o1]. destruct H as [H1 H2]. unfold sset, nodisp in *. split.
  - intros Hc. destruct (remote_settings c); [|congruence]. specialize (H1 eq_refl).
    destruct (remote_settings c1); [discriminate|discriminate].
  - intros Hc. apply H2. rewrite Hc. reflexivity.
Qed.

(* ---------------------------------------------------------------- nothing happens after a close() *)
Lemma abort_close_last c t b : let '(c1, o, _) := abort c t b in upto_close o = o.
Proof. unfold abort. destruct (serialize _); reflexivity. Qed.
Lemma send_close_last c m : let '(c1, o, _) := send_message c m in upto_close o = o /\ has_close o = false.
Proof. unfold send_message. destruct (serialize _); split; reflexivity. Qed.
Lemma csm_close_last : forall os c st, let '(c1, s1, o, _) := process_csm_options c st os in upto_close o = o.
Proof.
  induction os as [|[n v] r IH]; intros c st; [reflexivity|].
  cbn [process_csm_options]. destruct (n =? 2); [apply IH|]. destruct (n =? 4); [apply IH|].
  destruct (is_critical n); [|apply IH].
  pose proof (abort_close_last c txt_option_not_supported (Some n)) as Ha.
  destruct (abort c _ (Some n)) as [[c1 o1] ok]. exact Ha.
Qed.
Lemma signaling_close_last c m :
  let '(c1, o, res) := process_signaling c m in upto_close o = o /\ (forall e, res = SClose e -> has_close o = false).
Proof.
  unfold process_signaling. destruct (code m =? CSM).
  { pose proof (csm_close_last (opts m) c
      match remote_settings c with Some s => s | None => {| max_message_size := None; block_wise_transfer := false |} end) as H.
    destruct (process_csm_options c _ (opts m)) as [[[c1 s1] o] ok]. split; [exact H|]. intros e. destruct ok; discriminate. }
  destruct ((code m =? PING) || (code m =? PONG) || (code m =? RELEASE) || (code m =? ABORT)).
  { destruct (has_critical (opts m)).
    { pose proof (abort_close_last c txt_unknown_critical_option None) as Ha.
      destruct (abort c _ None) as [[c1 o1] ok]. split; [exact Ha|]. intros e. destruct ok; discriminate. }
    destruct (code m =? PING).
    { pose proof (send_close_last c {| code := PONG; token := token m; opts := []; payload := [] |}) as Hs.
      destruct (send_message c _) as [[c2 o2] ok2]. destruct Hs as [S1 S2]. split; [exact S1|]. intros; exact S2. }
    destruct (code m =? PONG); [split; [reflexivity|discriminate]|].
    destruct (code m =? RELEASE); split; reflexivity. }
  pose proof (abort_close_last c txt_unknown_signalling_code None) as Ha.
  destruct (abort c _ None) as [[c1 o1] ok]. split; [exact Ha|]. intros e. destruct ok; discriminate.
Qed.

Lemma frame_stop_close_last c f r c1 o1 : frame_step c f r = FStop c1 o1 -> upto_close o1 = o1.
Proof.
  unfold frame_step. destruct (decode_message f) as [m|e].
  2:{ destruct e; intros H; inv H; reflexivity. }
  destruct (is_signalling (code m)).
  { pose proof (signaling_close_last (set_spool c r) m) as Hs.
    destruct (process_signaling (set_spool c r) m) as [[c2 o2] res]. destruct Hs as [S1 S2].
    destruct res.
    - destruct (closed c2); intros H; inv H. exact S1.
    - intros H; inv H. rewrite upto_close_app_no by (apply (S2 e); reflexivity). reflexivity.
    - intros H; inv H. exact S1. }
  destruct (remote_settings (set_spool c r)); [discriminate|].
  pose proof (abort_close_last (set_spool c r) txt_no_csm None) as Ha.
  destruct (abort (set_spool c r) _ None) as [[c2 o2] ok]. intros H; inv H. exact Ha.
Qed.

Lemma loop_close_last : forall n c, (length (spool c) < n)%nat -> bytes_ok (spool c) = true -> closed c = false ->
  let '(c1, o1, _) := loop' c in upto_close o1 = o1.
Proof.
  induction n as [|n IH]; intros c Hn Hok Hcl; [lia|].
  rewrite (loop'_unfold c Hok). unfold view_body.
  destruct (view_of _ (spool c)) as [| |f r] eqn:V; [reflexivity| |].
  - pose proof (abort_close_last c txt_overly_large None) as Ha. destruct (abort c _ None) as [[c1 o1] ok]. exact Ha.
  - destruct (view_frame_facts _ _ _ _ Hok V) as (_ & Hlen & _ & Hrok & _).
    pose proof (frame_step_post c f r) as FP.
    destruct (frame_step c f r) as [c1 o1|c1 o1] eqn:FS; [exact (frame_stop_close_last _ _ _ _ _ FS)|].
    destruct FP as (F1 & F2 & F3 & F4 & F5).
    specialize (IH c1 ltac:(rewrite F3; lia) ltac:(rewrite F3; exact Hrok) (F5 Hcl)).
    destruct (loop' c1) as [[c2 o2] k].
    rewrite (F5 Hcl), Hcl in F1. cbn [orb] in F1.
    rewrite upto_close_app_no by congruence. rewrite IH. reflexivity.
Qed.

(* within one data_received call on an open connection, a close() of the transport is the last thing that happens *)
Lemma data_received_close_last c d : closed c = false -> bytes_ok (spool c) = true -> bytes_ok d = true ->
  upto_close (snd (data_received c d)) = snd (data_received c d).
Proof.
  intros Hcl Hok Hd. unfold data_received. rewrite data_received_ctl_loop'.
  assert (Hok' : bytes_ok (spool (feed c d)) = true) by (cbn; rewrite bytes_ok_app, Hok, Hd; reflexivity).
  pose proof (loop_close_last (S (length (spool (feed c d)))) (feed c d) ltac:(lia) Hok' Hcl) as H.
  destruct (loop' (feed c d)) as [[c1 o1] k]. exact H.
Qed.

Lemma run_data_close_last : forall l c, closed c = false -> bytes_ok (spool c) = true ->
  Forall (fun x => bytes_ok x = true) l -> upto_close (snd (run c (map EData l))) = snd (run c (map EData l)).
Proof.
  induction l as [|d l IH]; intros c Hcl Hok Hl; [reflexivity|].
  inversion Hl as [|? ? Hd Hl']; subst. cbn [map]. rewrite run_cons. cbn [step]. rewrite Hcl.
  pose proof (data_received_close_last c d Hcl Hok Hd) as HL.
  pose proof (data_received_post c d Hok Hd) as HP.
  unfold data_received in *. destruct (data_received_ctl c d) as [[c1 o1] k]. cbn [snd] in HL.
  destruct HP as (P1 & _ & _ & P4 & _). rewrite Hcl in P1. cbn [orb] in P1.
  destruct (existsb is_escaped o1); [exact HL|].
  destruct (closed c1) eqn:Hc1.
  - rewrite run_closed_data by exact Hc1. cbn [snd]. rewrite app_nil_r. exact HL.
  - specialize (IH c1 Hc1 P4 Hl'). destruct (run c1 (map EData l)) as [c2 o2]. cbn [snd] in *.
    rewrite upto_close_app_no by congruence. rewrite IH. reflexivity.
Qed.

(* hence segmentation independence holds for the complete outputs *)
Lemma chunking_exact : forall rest c d, closed c = false -> bytes_ok (spool c) = true ->
  bytes_ok d = true -> Forall (fun x => bytes_ok x = true) rest ->
  snd (run c (map EData (d :: rest))) = snd (data_received c (concat (d :: rest))).
Proof.
  intros rest c d Hcl Hok Hd Hrest.
  rewrite <- (run_data_close_last (d :: rest) c Hcl Hok (Forall_cons _ Hd Hrest)).
  rewrite chunking_nonempty by assumption.
  apply data_received_close_last; [assumption|assumption|].
  assert (Hall : Forall (fun x => bytes_ok x = true) (d :: rest)) by (constructor; assumption).
  clear -Hall. induction Hall as [|x l Hx Hl IHl]; [reflexivity|]. cbn [concat]. rewrite bytes_ok_app, Hx, IHl. reflexivity.
Qed.
