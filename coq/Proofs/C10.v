(* C10 — proofs about Model/C10.v.  Part 1: the reaction table of dispatch_message, cell by cell. *)
From Verif Require Import Lib.Py Lib.Tactics Model.C10.
Open Scope Z_scope.

(* ------------------------------------------------------------------ vocabulary of the statements *)
Inductive cclass := CEmpty | CRequest | CResponse | CReserved | CSignalling.
(* RFC 7252 section 3 / 12.1: 0.00 | 0.01-0.31 | 2.00-5.31 | 1.xx, 6.xx | 7.xx *)
Definition classify (c : Z) : cclass :=
  if c =? 0 then CEmpty else if is_request c then CRequest else if is_response c then CResponse
  else if 224 <=? c then CSignalling else CReserved.

Definition is_reply (o : output) : bool :=
  match o with Send _ m => match mtype m with ACK | RST => true | _ => false end | _ => false end.
Definition replies (o : list output) : list output := filter is_reply o.
Definition is_upward (o : output) : bool :=
  match o with StartHandler _ | CancelHandler _ | Deliver _ _ _ => true | _ => false end.
Definition upward (o : list output) : list output := filter is_upward o.

(* the response's token belongs to a pending request to this peer, or to a pending multicast request *)
Definition known (s : st) (r : remote) (m : wire) : bool :=
  amem ok_eqb (outgoing s) (token m, Some (rpeer r)) || amem ok_eqb (outgoing s) (token m, None).
(* not a duplicate in the sense of RFC 7252 4.5 (only request-coded messages are deduplicated) *)
Definition fresh (s : st) (r : remote) (m : wire) : Prop :=
  is_request (code m) = true -> aget zz_eqb (recent s) (rpeer r, mid m) = None.

Inductive reaction := Reset | EmptyAcknowledgement | NoReply | ToHandler.
Definition table (t : mtype_t) (c : cclass) (known mcast : bool) : reaction :=
  match c, t with
  | CEmpty, CON => Reset
  | CEmpty, _ => NoReply
  | CRequest, (CON | NON) => ToHandler
  | CRequest, _ => NoReply
  | CResponse, CON => if known then EmptyAcknowledgement else if mcast then NoReply else Reset
  | CResponse, _ => NoReply
  | (CReserved | CSignalling), _ => NoReply
  end.

(* backlogged and retransmitted messages are confirmable and never go to multicast; stored replies are ACK/RST under their key *)
Definition con_uni (r : remote) (m : wire) : Prop := mtype m = CON /\ is_multicast r = false.
Definition BInv (s : st) : Prop :=
  (forall p bl, In (p, bl) (backlogs s) -> forall r m mon, In (r, m, mon) bl -> con_uni r m) /\
  (forall t r m to c, In t (rtimers s) -> kind t = Retransmit r m to c -> con_uni r m) /\
  (forall k r m, In (k, Some (r, m)) (recent s) -> is_reply (Send r m) = true /\ k = (rpeer r, mid m)).

(* ------------------------------------------------------------------ association lists *)
Lemma beqb_eq a b : beqb a b = true -> a = b.
Proof.
  revert b. induction a as [|x a IH]; destruct b as [|y b]; cbn; try discriminate; auto.
  intros H. apply andb_true_iff in H as [H1 H2]. apply Z.eqb_eq in H1. f_equal; auto.
Qed.
Lemma beqb_refl a : beqb a a = true.
Proof. induction a; cbn; auto. rewrite Z.eqb_refl. exact IHa. Qed.
Lemma zz_eqb_eq a b : zz_eqb a b = true -> a = b.
Proof. destruct a, b. unfold zz_eqb. cbn. intros H. apply andb_true_iff in H as [H1 H2]. apply Z.eqb_eq in H1, H2. congruence. Qed.
Lemma pk_eqb_eq a b : pk_eqb a b = true -> a = b.
Proof. destruct a, b. unfold pk_eqb. cbn. intros H. apply andb_true_iff in H as [H1 H2]. apply Z.eqb_eq in H1. apply beqb_eq in H2. congruence. Qed.
Lemma pk_eqb_refl a : pk_eqb a a = true.
Proof. destruct a. unfold pk_eqb. cbn. rewrite Z.eqb_refl, beqb_refl. reflexivity. Qed.

Section AListFacts.
  Context {K V : Type} (eqb : K -> K -> bool).
  Lemma aget_in (l : list (K * V)) k v : aget eqb l k = Some v -> exists k', In (k', v) l /\ eqb k' k = true.
  Proof.
    induction l as [|[k0 v0] l IH]; cbn; [discriminate|]. destruct (eqb k0 k) eqn:E.
    - intros H. inv H. eauto.
    - intros H. destruct (IH H) as (k' & Hin & He). eauto.
  Qed.
  Lemma in_adel (l : list (K * V)) k x : In x (adel eqb l k) -> In x l.
  Proof. induction l as [|[k0 v0] l IH]; cbn; auto. destruct (eqb k0 k); cbn; intuition. Qed.
  Lemma in_areplace (l : list (K * V)) k v k' v' : In (k', v') (areplace eqb l k v) -> In (k', v') l \/ (v' = v /\ eqb k' k = true).
  Proof.
    induction l as [|[k0 v0] l IH]; cbn; auto. destruct (eqb k0 k) eqn:E; cbn.
    - intros [H|H]; [inv H; auto|auto].
    - intros [H|H]; [auto|]. destruct (IH H); auto.
  Qed.
  Lemma in_aset (l : list (K * V)) k v k' v' : In (k', v') (aset eqb l k v) -> In (k', v') l \/ (v' = v /\ (eqb k' k = true \/ k' = k)).
  Proof.
    unfold aset. destruct (amem eqb l k).
    - intros H. destruct (in_areplace _ _ _ _ _ H) as [|[]]; auto.
    - intros H. apply in_app_or in H as [H|[H|[]]]; auto. inv H. auto.
  Qed.
End AListFacts.

(* ------------------------------------------------------------------ pass 1: BInv and "no CON to multicast" through every function *)
Definition ok_out (o : output) : Prop := match o with Send r m => mtype m = CON -> is_multicast r = false | _ => True end.

Lemma BInv_ext s s' : backlogs s' = backlogs s -> rtimers s' = rtimers s -> recent s' = recent s -> BInv s -> BInv s'.
Proof. unfold BInv. intros -> -> ->. auto. Qed.

Lemma store_ok s r m : BInv s -> BInv (_store_response_for_duplicates s r m).
Proof.
  intros HB. unfold _store_response_for_duplicates.
  assert (Hgo : is_reply (Send r m) = true -> BInv (if amem zz_eqb (recent s) (rpeer r, mid m) then set_recent s (aset zz_eqb (recent s) (rpeer r, mid m) (Some (r, m))) else s)).
  { intros Hr. destruct (amem zz_eqb (recent s) (rpeer r, mid m)); [|exact HB].
    destruct HB as (H1 & H2 & H3). split; [exact H1|]. split; [exact H2|]. cbn.
    intros k r' m' Hin. apply in_aset in Hin as [Hin|[Heq Hk]]; [eauto|]. inv Heq. split; [exact Hr|].
    destruct Hk as [Hk|Hk]; [apply zz_eqb_eq in Hk|]; auto. }
  destruct (mtype m) eqn:Em; try exact HB; apply Hgo; cbn; rewrite Em; reflexivity.
Qed.

Lemma add_exchange_ok s r m mon : BInv s -> con_uni r m -> BInv (_add_exchange s r m mon).
Proof.
  intros (H1 & H2 & H3) Hc. unfold _add_exchange, call_later_r.
  destruct (amem Z.eqb (backlogs s) (rpeer r)); cbn; (split; [|split; [|exact H3]]); cbn.
  - exact H1.
  - intros t r' m' to c Hin Hk. apply in_app_or in Hin as [Hin|[Hin|[]]]; [eauto|]. subst t. cbn in Hk. inv Hk. exact Hc.
  - intros p bl Hin. apply in_aset in Hin as [Hin|[-> _]]; [eauto|]. intros ? ? ? [].
  - intros t r' m' to c Hin Hk. apply in_app_or in Hin as [Hin|[Hin|[]]]; [eauto|]. subst t. cbn in Hk. inv Hk. exact Hc.
Qed.

Lemma send_initially_ok s r m mon s' o : _send_initially s r m mon = (s', o) -> BInv s -> (mtype m = CON -> is_multicast r = false) ->
  BInv s' /\ o = [Send r m] /\ piggy s' = piggy s /\ atimers s' = atimers s /\ now s' = now s /\ seq s <= seq s'.
Proof.
  unfold _send_initially. intros H HB Hc. inv H.
  assert (Hf : forall x, piggy (_store_response_for_duplicates x r m) = piggy x /\ atimers (_store_response_for_duplicates x r m) = atimers x
                         /\ now (_store_response_for_duplicates x r m) = now x /\ seq (_store_response_for_duplicates x r m) = seq x).
  { intros x. unfold _store_response_for_duplicates. destruct (mtype m); auto; destruct (amem _ _ _); auto. }
  destruct (mtype m) eqn:Em.
  - destruct (Hf (_add_exchange s r m mon)) as (-> & -> & -> & ->). split; [apply store_ok, add_exchange_ok; auto; split; auto|].
    unfold _add_exchange, call_later_r. destruct (amem Z.eqb (backlogs s) (rpeer r)); cbn; repeat split; lia.
  - destruct (Hf s) as (-> & -> & -> & ->). split; [apply store_ok; auto|]. repeat split; lia.
  - destruct (Hf s) as (-> & -> & -> & ->). split; [apply store_ok; auto|]. repeat split; lia.
  - destruct (Hf s) as (-> & -> & -> & ->). split; [apply store_ok; auto|]. repeat split; lia.
Qed.

Lemma Forall_ok_app a b : Forall ok_out a -> Forall ok_out b -> Forall ok_out (a ++ b).
Proof. intros. apply Forall_app; auto. Qed.

Lemma mtype_eqb_CON t : mtype_eqb t CON = true <-> t = CON.
Proof. destruct t; cbn; split; congruence. Qed.

Lemma tail_ok s1 r1 build mt md mon rq s' o e : send_message_tail s1 r1 build mt md mon rq = (s', o, e) -> BInv s1 ->
  (forall md, mtype (build (select_mtype mt r1 rq) md) = select_mtype mt r1 rq) ->
  BInv s' /\ Forall ok_out o.
Proof.
  unfold send_message_tail. intros H HB Hb.
  destruct (mtype_eqb (select_mtype mt r1 rq) CON && is_multicast r1) eqn:E1. { inv H. auto. }
  set (p := match md with Some v => (s1, v) | None => _next_message_id s1 end) in H.
  assert (Hp : BInv (fst p)). { subst p. destruct md; cbn; auto. }
  destruct p as [s2 md1]. cbn in Hp.
  assert (Hc : mtype (build (select_mtype mt r1 rq) md1) = CON -> is_multicast r1 = false).
  { intros Hm. rewrite Hb in Hm. rewrite Hm in E1. cbn in E1. exact E1. }
  destruct (mtype_eqb (select_mtype mt r1 rq) CON && amem Z.eqb (backlogs s2) (rpeer r1)) eqn:E2.
  - inv H. split; [|constructor]. apply andb_true_iff in E2 as [E2 _]. apply mtype_eqb_CON in E2.
    destruct Hp as (H1 & H2 & H3). split; [|split; [exact H2|exact H3]]. cbn.
    intros p bl Hin. apply in_aset in Hin as [Hin|[-> _]]; [eauto|].
    intros r m mon' Hin. apply in_app_or in Hin as [Hin|[Hin|[]]].
    + destruct (aget Z.eqb (backlogs s2) (rpeer r1)) as [l|] eqn:Eg; [|destruct Hin].
      apply aget_in in Eg as (k' & Hk & _). eauto.
    + inv Hin. split; [rewrite Hb; exact E2|apply Hc; rewrite Hb; exact E2].
  - destruct (_send_initially s2 r1 (build (select_mtype mt r1 rq) md1) mon) as [s3 o3] eqn:E3. inv H.
    apply send_initially_ok in E3; auto. destruct E3 as (HB' & -> & _). split; [exact HB'|]. constructor; [exact Hc|constructor].
Qed.

Lemma send_message_ok s r a mon rq s' o e : send_message s r a mon rq = (s', o, e) -> BInv s -> BInv s' /\ Forall ok_out o.
Proof.
  unfold send_message. intros H HB.
  assert (Hmk : forall mt r1 md, mtype (mk_wire a (select_mtype mt r1 rq) md) = select_mtype mt r1 rq) by reflexivity.
  assert (HB1 : forall h, BInv (cancel_a (set_piggy s (adel pk_eqb (piggy s) (rpeer r, a_token a))) h)).
  { intros h. apply (BInv_ext s); [reflexivity..|exact HB]. }
  destruct (is_response (a_code a)); [|eapply tail_ok; eauto].
  destruct (aget pk_eqb (piggy s) (rpeer r, a_token a)) as [[pmid h]|].
  - destruct (no_response_of a).
    + eapply tail_ok; eauto.
    + eapply tail_ok; eauto.
  - destruct (no_response_of a). { inv H. auto. }
    eapply tail_ok; eauto.
Qed.

Lemma fail_request_ok s q e s' o : fail_request s q e = (s', o) -> BInv s -> BInv s' /\ Forall ok_out o.
Proof.
  unfold fail_request. intros H HB. destruct (find_req (outgoing s) q); inv H.
  - split; [apply (BInv_ext s); [reflexivity..|exact HB]|]. repeat constructor.
  - auto.
Qed.
Lemma run_monitor_ok s mon s' o : run_monitor s mon = (s', o) -> BInv s -> BInv s' /\ Forall ok_out o.
Proof. destruct mon; cbn; [apply fail_request_ok|]. intros H; inv H; auto. Qed.

Lemma send_response_ok s r req c rnr pl s' o : send_response s r req c rnr pl = (s', o) -> BInv s -> BInv s' /\ Forall ok_out o.
Proof.
  unfold send_response. intros H HB.
  match type of H with context [send_message ?s ?r ?a ?m ?q] => destruct (send_message s r a m q) as [[s1 o1] e] eqn:E1 end.
  inv H. eapply send_message_ok; eauto.
Qed.

Tactic Notation "dlet" hyp(H) ident(s) ident(o) ident(E) := match type of H with (match ?X with pair _ _ => _ end) = _ => destruct X as [s o] eqn:E end.
Ltac ext_ok HB := first [exact HB | match goal with |- BInv _ => eapply BInv_ext; [..|exact HB]; reflexivity end].

Lemma tm_process_request_ok s r m s' o : tm_process_request s r m = (s', o) -> BInv s -> BInv s' /\ Forall ok_out o.
Proof.
  unfold tm_process_request. intros H HB.
  set (p := match aget ik_eqb (incoming s) (token m, rpeer r) with Some sv => _ | None => (s, []) end) in H.
  assert (Hp : BInv (fst p) /\ Forall ok_out (snd p)).
  { subst p. destruct (aget ik_eqb (incoming s) (token m, rpeer r)); cbn; split; auto. repeat constructor. }
  destruct p as [s1 o1]. cbn in Hp. destruct Hp as [HB1 Ho1].
  dlet H s2 o2 E. injection H as <- <-.
  assert (BInv s2 /\ Forall ok_out o2) as [HB2 Ho2].
  { destruct (negb _); [eapply send_response_ok; eauto|]. destruct (negb _); [eapply send_response_ok; eauto|].
    destruct (path m =? 0). { inv E. split; [|repeat constructor]. apply (BInv_ext s1); auto. }
    destruct (path m =? 1); eapply send_response_ok; eauto. }
  split; auto. apply Forall_ok_app; auto.
Qed.

Lemma handler_respond_ok s k c rnr pl s' o : handler_respond s k c rnr pl = (s', o) -> BInv s -> BInv s' /\ Forall ok_out o.
Proof.
  unfold handler_respond. intros H HB. destruct (find_srv (incoming s) k) as [[key sv]|]; [|inv H; auto].
  dlet H s2 o2 E. injection H as <- <-.
  apply send_response_ok in E; [|exact HB]. destruct E as [HB2 Ho2]. split; auto.
Qed.

Lemma tm_process_response_ok s r m s' o b : tm_process_response s r m = (s', o, b) -> BInv s -> BInv s' /\ Forall ok_out o.
Proof.
  unfold tm_process_response. intros H HB.
  match type of H with context [aget ok_eqb (outgoing s) ?k] => destruct (aget ok_eqb (outgoing s) k) as [[q ob]|] end; inv H; auto.
  split; [|repeat constructor]. destruct (negb _); auto.
Qed.

Lemma Forall_ok_fail_all l p e : Forall ok_out (fail_all l p e).
Proof. induction l as [|[[? ?] [? ?]] l IH]; cbn; [constructor|]. destruct (oz_eqb _ _); auto. constructor; cbn; auto. Qed.
Lemma Forall_ok_cancel_all l p : Forall ok_out (cancel_all l p).
Proof. induction l as [|[[? ?] ?] l IH]; cbn; [constructor|]. destruct (_ =? _); auto. constructor; cbn; auto. Qed.
Lemma tm_dispatch_error_ok s p e s' o : tm_dispatch_error s p e = (s', o) -> BInv s -> BInv s' /\ Forall ok_out o.
Proof.
  unfold tm_dispatch_error. intros H HB. inv H. split; [apply (BInv_ext s); auto|].
  apply Forall_ok_app; [apply Forall_ok_fail_all|apply Forall_ok_cancel_all].
Qed.

Lemma tm_request_ok s p mt ob s' o : tm_request s p mt ob = (s', o) -> BInv s -> BInv s' /\ Forall ok_out o.
Proof.
  unfold tm_request, next_token_. intros H HB. cbv zeta in H.
  match type of H with context [send_message ?s ?r ?a ?m ?q] => destruct (send_message s r a m q) as [[s3 o3] [e|]] eqn:E end.
  - apply send_message_ok in E; [|exact HB]. destruct E as [HB3 Ho3].
    destruct (fail_request s3 (next_req s) e) as [s4 o4] eqn:E4. inv H. apply fail_request_ok in E4; [|exact HB3]. destruct E4. split; [assumption|]. apply Forall_ok_app; assumption.
  - inv H. apply send_message_ok in E; [exact E|exact HB].
Qed.

Lemma dedup_ok s r m s' o b : _deduplicate_message s r m = (s', o, b) -> BInv s -> BInv s' /\ Forall ok_out o.
Proof.
  unfold _deduplicate_message. intros H HB. destruct (aget zz_eqb (recent s) (rpeer r, mid m)) as [stored|] eqn:Eg.
  - destruct (mtype m); try (inv H; auto; fail). destruct stored as [[r' m']|]; [|inv H; auto].
    destruct (_send_initially s r' m' MonResp) as [s1 o1] eqn:E1. inv H.
    apply aget_in in Eg as (k' & Hin & _). pose proof HB as (_ & _ & H3). apply H3 in Hin as [Hr _]. cbn in Hr.
    apply send_initially_ok in E1; auto.
    + destruct E1 as (HB1 & -> & _). split; auto. constructor; [|constructor]. cbn. intros Hc. rewrite Hc in Hr. discriminate.
    + intros Hc. rewrite Hc in Hr. discriminate.
  - unfold call_later_r in H. inv H. split; [|constructor]. destruct HB as (H1 & H2 & H3). split; [exact H1|]. split; cbn.
    + intros t r' m' to c Hin Hk. apply in_app_or in Hin as [Hin|[Hin|[]]]; [eauto|]. subst t. discriminate.
    + intros k r' m' Hin. apply in_aset in Hin as [Hin|[Heq _]]; [eauto|discriminate].
Qed.

Lemma continue_loop_ok bl : forall s p s' o, _continue_backlog_loop s p bl = (s', o) -> BInv s ->
  (forall r m mon, In (r, m, mon) bl -> con_uni r m) -> BInv s' /\ Forall ok_out o.
Proof.
  induction bl as [|[[r m] mon] bl IH]; intros s p s' o H HB Hbl; cbn [_continue_backlog_loop] in H.
  - destruct (has_exchange s p); inv H; (split; [|constructor]); destruct HB as (H1 & H2 & H3); (split; [|split; [exact H2|exact H3]]); cbn.
    + intros p' bl' Hin. apply in_aset in Hin as [Hin|[-> _]]; [eauto|]. intros ? ? ? [].
    + intros p' bl' Hin. apply in_adel in Hin. eauto.
  - destruct (has_exchange s p).
    + inv H. split; [|constructor]. destruct HB as (H1 & H2 & H3). split; [|split; [exact H2|exact H3]]. cbn.
      intros p' bl' Hin. apply in_aset in Hin as [Hin|[-> _]]; [eapply H1; eauto|]. exact Hbl.
    + destruct (_send_initially s r m mon) as [s1 o1] eqn:E1. destruct (_continue_backlog_loop s1 p bl) as [s2 o2] eqn:E2. inv H.
      pose proof (Hbl r m mon (or_introl eq_refl)) as [Hc Hu].
      apply send_initially_ok in E1; auto. destruct E1 as (HB1 & -> & _).
      assert (Hbl' : forall r m mon, In (r, m, mon) bl -> con_uni r m) by (intros; eapply Hbl; right; eauto).
      apply IH in E2; [|exact HB1|exact Hbl']. destruct E2 as [HB2 Ho2].
      split; [exact HB2|]. constructor; [|exact Ho2]. cbn. auto.
Qed.

Lemma continue_backlog_ok s p s' o : _continue_backlog s p = (s', o) -> BInv s -> BInv s' /\ Forall ok_out o.
Proof.
  unfold _continue_backlog. intros H HB. destruct (aget Z.eqb (backlogs s) p) as [bl|] eqn:Eg.
  - eapply continue_loop_ok; eauto. apply aget_in in Eg as (k' & Hin & _). destruct HB as (H1 & _). eauto.
  - inv H. split; auto. repeat constructor.
Qed.

Lemma cancel_r_BInv s id : BInv s -> BInv (cancel_r s id).
Proof.
  intros (H1 & H2 & H3). split; [exact H1|split; [|exact H3]]. cbn. intros t r m to c Hin. apply filter_In in Hin as [Hin _]. eauto.
Qed.

Lemma remove_exchange_ok s r m s' o : _remove_exchange s r m = (s', o) -> BInv s -> BInv s' /\ Forall ok_out o.
Proof.
  unfold _remove_exchange. intros H HB. destruct (aget zz_eqb (exch s) (rpeer r, mid m)) as [[mon h]|]; [|inv H; auto].
  set (s1 := cancel_r _ h) in H. assert (HB1 : BInv s1). { subst s1. apply cancel_r_BInv. apply (BInv_ext s); auto. }
  set (p := match mtype m with RST => run_monitor s1 mon | _ => (s1, []) end) in H.
  assert (Hp : BInv (fst p) /\ Forall ok_out (snd p)).
  { subst p. destruct (mtype m); cbn; auto. destruct (run_monitor s1 mon) eqn:E. eapply run_monitor_ok; eauto. }
  destruct p as [s2 o1]. cbn in Hp. destruct Hp as [HB2 Ho1].
  destruct (_continue_backlog s2 (rpeer r)) as [s3 o2] eqn:E. inv H. apply continue_backlog_ok in E as []; auto.
  split; auto. apply Forall_ok_app; auto.
Qed.

Lemma process_request_ok s r m s' o : _process_request s r m = (s', o) -> BInv s -> BInv s' /\ Forall ok_out o.
Proof.
  unfold _process_request. intros H HB. eapply tm_process_request_ok; [exact H|].
  destruct (mtype m); auto. unfold call_later_a. cbn.
  destruct (aget pk_eqb _ _) as [[? ?]|]; apply (BInv_ext s); auto.
Qed.

Lemma send_empty_ack_ok s r md s' o : _send_empty_ack s r md = (s', o) -> BInv s -> BInv s' /\ Forall ok_out o.
Proof.
  unfold _send_empty_ack. intros H HB. apply send_initially_ok in H; auto; [|discriminate].
  destruct H as (HB1 & -> & _). split; auto. constructor; [|constructor]. cbn. discriminate.
Qed.

Lemma dispatch_message_ok s r m s' o : dispatch_message s r m = (s', o) -> BInv s -> BInv s' /\ Forall ok_out o.
Proof.
  unfold dispatch_message. intros H HB.
  set (p0 := if is_request (code m) then _deduplicate_message s r m else (s, [], false)) in H.
  assert (H0 : BInv (fst (fst p0)) /\ Forall ok_out (snd (fst p0))).
  { subst p0. destruct (is_request (code m)); cbn; auto. destruct (_deduplicate_message s r m) as [[? ?] ?] eqn:E. eapply dedup_ok; eauto. }
  destruct p0 as [[s0 o0] dup]. cbn in H0. destruct H0 as [HB0 Ho0]. destruct dup. { inv H. auto. }
  set (p1 := match mtype m with ACK | RST => _remove_exchange s0 r m | _ => (s0, []) end) in H.
  assert (H1 : BInv (fst p1) /\ Forall ok_out (snd p1)).
  { subst p1. destruct (mtype m); cbn; auto; destruct (_remove_exchange s0 r m) eqn:E; eapply remove_exchange_ok; eauto. }
  destruct p1 as [s1 o1]. cbn in H1. destruct H1 as [HB1 Ho1].
  dlet H s2 o2 E. injection H as <- <-.
  assert (BInv s2 /\ Forall ok_out o2) as [HB2 Ho2].
  { destruct (code m =? EMPTY).
    { destruct (mtype m); try (inv E; auto; fail). unfold _process_ping in E. apply send_initially_ok in E; auto; [|discriminate].
      destruct E as (? & -> & _). split; auto. constructor; [|constructor]. cbn. discriminate. }
    destruct (is_request (code m)).
    { destruct (mtype m); try (inv E; auto; fail); eapply process_request_ok; eauto. }
    destruct (is_response (code m)); [|inv E; auto].
    assert (Hgo : forall t, (let '(s', o, success) := tm_process_response s1 r m in
        if success then match t with CON => let '(s'', o') := _send_empty_ack s' r (mid m) in (s'', o ++ o') | _ => (s', o) end
        else if mtype_eqb t CON && negb (is_multicast_locally r)
             then let '(s'', o') := _send_initially s' (as_response_address r) (empty_msg RST (mid m)) MonResp in (s'', o ++ o')
             else (s', o)) = (s2, o2) -> BInv s2 /\ Forall ok_out o2).
    { intros t Ht. destruct (tm_process_response s1 r m) as [[s' o'] success] eqn:Et. apply tm_process_response_ok in Et as [HB' Ho']; auto.
      destruct success.
      - destruct t; try (inv Ht; auto; fail). destruct (_send_empty_ack s' r (mid m)) as [s'' o''] eqn:Ea. inv Ht.
        apply send_empty_ack_ok in Ea as []; auto. split; auto. apply Forall_ok_app; auto.
      - destruct (mtype_eqb t CON && negb (is_multicast_locally r)); [|inv Ht; auto].
        destruct (_send_initially s' (as_response_address r) (empty_msg RST (mid m)) MonResp) as [s'' o''] eqn:Ea. inv Ht.
        apply send_initially_ok in Ea; auto; [|discriminate]. destruct Ea as (? & -> & _). split; auto.
        apply Forall_ok_app; auto. constructor; [|constructor]. cbn. discriminate. }
    destruct (mtype m); [apply (Hgo CON); exact E|apply (Hgo NON); exact E|apply (Hgo ACK); exact E|inv E; auto]. }
  split; auto. apply Forall_ok_app; auto. apply Forall_ok_app; auto.
Qed.

Lemma on_timeout_ok s r tok s' o : on_timeout s r tok = (s', o) -> BInv s -> BInv s' /\ Forall ok_out o.
Proof.
  unfold on_timeout. intros H HB. destruct (aget pk_eqb (piggy s) (rpeer r, tok)) as [[pm h]|].
  - eapply send_empty_ack_ok; [exact H|]. exact HB.
  - inv H. split; auto. repeat constructor.
Qed.

Lemma retransmit_ok s r m to c s' o : _retransmit s r m to c = (s', o) -> BInv s -> con_uni r m -> BInv s' /\ Forall ok_out o.
Proof.
  unfold _retransmit. intros H HB Hc. destruct (aget zz_eqb (exch s) (rpeer r, mid m)) as [[mon h]|].
  2:{ inv H. split; auto. repeat constructor. }
  set (s1 := cancel_r _ h) in H. assert (HB1 : BInv s1). { subst s1. apply cancel_r_BInv. exact HB. }
  destruct (c <? MAX_RETRANSMIT).
  - unfold call_later_r in H. inv H. split; [|constructor; [cbn; intros _; apply Hc|constructor]].
    destruct HB1 as (H1 & H2 & H3). split; [exact H1|split; [|exact H3]]. cbn.
    intros t r' m' to' c' Hin Hk. apply in_app_or in Hin as [Hin|[Hin|[]]]; [eapply H2; eauto|]. subst t. cbn in Hk. inv Hk. exact Hc.
  - destruct (amem Z.eqb (backlogs s1) (rpeer r)).
    + eapply tm_dispatch_error_ok; [exact H|]. destruct HB1 as (H1 & H2 & H3). split; [|split; [exact H2|exact H3]]. cbn.
      intros p bl Hin. apply in_adel in Hin. eapply H1; eauto.
    + inv H. split; auto. repeat constructor.
Qed.

Lemma run_timer_ok s t s' o : run_timer s t = (s', o) -> BInv s ->
  (forall r m to c, kind t = Retransmit r m to c -> con_uni r m) -> BInv s' /\ Forall ok_out o.
Proof.
  unfold run_timer. intros H HB Hk. destruct (kind t) as [r tok|r m to c|p md].
  - inv H. auto.
  - eapply retransmit_ok; eauto.
  - inv H. split; [|constructor]. destruct HB as (H1 & H2 & H3). split; [exact H1|split; [exact H2|]]. cbn.
    intros k r m Hin. apply in_adel in Hin. eauto.
Qed.

Lemma min_timer_in l t : min_timer l = Some t -> In t l.
Proof.
  revert t. induction l as [|x l IH]; cbn; [discriminate|]. intros t. destruct (min_timer l) as [u|].
  - destruct (earlier u x); intros H; inv H; auto.
  - intros H; inv H; auto.
Qed.

Lemma step_ok s e s' o : step s e = (s', o) -> BInv s -> BInv s' /\ Forall ok_out o.
Proof.
  destruct e as [r m|k c rnr pl|p mt ob| |d]; cbn [step]; intros H HB.
  - eapply dispatch_message_ok; eauto.
  - eapply handler_respond_ok; eauto.
  - eapply tm_request_ok; eauto.
  - destruct (next_timer s) as [[[|] t]|] eqn:En; [| |inv H; auto].
    + destruct (kind t); [eapply on_timeout_ok; [exact H|exact HB]|inv H; auto|inv H; auto].
    + eapply run_timer_ok; [exact H| |].
      * apply (cancel_r_BInv s (tid t)). exact HB.
      * intros r m to c Hk. unfold next_timer in En. destruct HB as (_ & H2 & _). eapply (H2 t); [|exact Hk].
        apply min_timer_in. destruct (min_timer (atimers s)) as [a|]; destruct (min_timer (rtimers s)) as [b|]; try discriminate.
        -- destruct (earlier b a); inv En. reflexivity.
        -- inv En. reflexivity.
  - inv H. split; auto.
Qed.

Definition outputs_of (l : list (Z * list output)) : list output := concat (map snd l).
Lemma run_ok es : forall s s' os, run s es = (s', os) -> BInv s -> BInv s' /\ Forall ok_out (outputs_of os).
Proof.
  induction es as [|e es IH]; intros s s' os H HB; cbn [run] in H.
  - inv H. split; [exact HB|constructor].
  - destruct (step s e) as [s1 o] eqn:E1. destruct (run s1 es) as [s2 os2] eqn:E2. inv H.
    apply step_ok in E1; [|exact HB]. destruct E1 as [HB1 Ho]. apply IH in E2; [|exact HB1]. destruct E2 as [HB2 Hos].
    split; [exact HB2|]. unfold outputs_of. cbn. apply Forall_ok_app; assumption.
Qed.

Lemma BInv_init m0 t0 : BInv (init m0 t0).
Proof. unfold BInv, init; cbn. repeat split; intros; contradiction. Qed.

(* no confirmable message is ever sent to a multicast destination: every history from the initial state *)
Theorem never_con_to_multicast es m0 t0 r m :
  In (Send r m) (outputs_of (snd (run (init m0 t0) es))) -> mtype m = CON -> is_multicast r = false.
Proof.
  intros Hin. destruct (run (init m0 t0) es) as [s' os] eqn:E. apply run_ok in E; [|apply BInv_init].
  destruct E as [_ Hall]. rewrite Forall_forall in Hall. exact (Hall _ Hin).
Qed.

(* ------------------------------------------------------------------ part 2: the reaction table *)
Definition quiet (o : list output) : Prop := Forall (fun x => is_reply x = false /\ is_upward x = false) o.
Lemma quiet_app a b : quiet a -> quiet b -> quiet (a ++ b).
Proof. intros. apply Forall_app; auto. Qed.
Lemma quiet_replies o : quiet o -> replies o = [] /\ upward o = [].
Proof.
  induction 1 as [|x l [H1 H2] _ [IH1 IH2]]; [split; reflexivity|]. unfold replies, upward in *. cbn. rewrite H1, H2. auto.
Qed.
Lemma replies_app a b : replies (a ++ b) = replies a ++ replies b.
Proof. apply filter_app. Qed.
Lemma upward_app a b : upward (a ++ b) = upward a ++ upward b.
Proof. apply filter_app. Qed.

Lemma send_initially_out s r m mon : snd (_send_initially s r m mon) = [Send r m] /\ outgoing (fst (_send_initially s r m mon)) = outgoing s.
Proof.
  unfold _send_initially, _store_response_for_duplicates, _add_exchange, call_later_r. split; [reflexivity|].
  destruct (mtype m); cbn; repeat (match goal with |- context [if ?b then _ else _] => destruct b end; cbn); reflexivity.
Qed.
Lemma send_initially_ok_piggy s r m mon s' o : _send_initially s r m mon = (s', o) -> piggy s' = piggy s.
Proof.
  unfold _send_initially, _store_response_for_duplicates, _add_exchange, call_later_r. intros H. inv H.
  destruct (mtype m); cbn [fst]; repeat (match goal with |- context [if ?b then _ else _] => destruct b end); reflexivity.
Qed.
Lemma send_initially_next_mid s r m mon : next_mid (fst (_send_initially s r m mon)) = next_mid s.
Proof.
  unfold _send_initially, _store_response_for_duplicates, _add_exchange, call_later_r.
  destruct (mtype m); cbn [fst]; repeat (match goal with |- context [if ?b then _ else _] => destruct b end); reflexivity.
Qed.

Lemma continue_loop_quiet bl : forall s p s' o, _continue_backlog_loop s p bl = (s', o) ->
  (forall r m mon, In (r, m, mon) bl -> con_uni r m) -> quiet o /\ outgoing s' = outgoing s.
Proof.
  induction bl as [|[[r m] mon] bl IH]; intros s p s' o H Hbl; cbn [_continue_backlog_loop] in H.
  - destruct (has_exchange s p); inv H; split; try constructor; reflexivity.
  - destruct (has_exchange s p). { inv H. split; [constructor|reflexivity]. }
    pose proof (send_initially_out s r m mon) as [Ho Hg]. destruct (_send_initially s r m mon) as [s1 o1]. cbn in Ho, Hg. subst o1.
    destruct (_continue_backlog_loop s1 p bl) as [s2 o2] eqn:E2. inv H.
    apply IH in E2; [|intros; eapply Hbl; right; eauto]. destruct E2 as [Hq Hg2]. split; [|congruence].
    constructor; [|exact Hq]. destruct (Hbl r m mon (or_introl eq_refl)) as [Hc _]. cbn. rewrite Hc. auto.
Qed.

Lemma fail_request_quiet s q e : quiet (snd (fail_request s q e)).
Proof. unfold fail_request. destruct (find_req (outgoing s) q); cbn; repeat constructor. Qed.

Lemma remove_exchange_quiet s r m s' o : _remove_exchange s r m = (s', o) -> BInv s ->
  quiet o /\ (mtype m <> RST -> outgoing s' = outgoing s).
Proof.
  unfold _remove_exchange. intros H HB. destruct (aget zz_eqb (exch s) (rpeer r, mid m)) as [[mon h]|]; [|inv H; split; [constructor|reflexivity]].
  set (s1 := cancel_r _ h) in H.
  set (p := match mtype m with RST => run_monitor s1 mon | _ => (s1, []) end) in H.
  assert (Hp : quiet (snd p) /\ (mtype m <> RST -> outgoing (fst p) = outgoing s) /\ backlogs (fst p) = backlogs s).
  { subst p. destruct (mtype m); cbn; try (split; [constructor|split; reflexivity]).
    destruct mon as [q|]; cbn.
    - split; [apply fail_request_quiet|]. split; [congruence|]. unfold fail_request. destruct (find_req _ _); reflexivity.
    - split; [constructor|split; [congruence|reflexivity]]. }
  destruct p as [s2 o1]. cbn in Hp. destruct Hp as (Hq1 & Hg1 & Hb1).
  destruct (_continue_backlog s2 (rpeer r)) as [s3 o2] eqn:E. inv H. unfold _continue_backlog in E. rewrite Hb1 in E.
  destruct (aget Z.eqb (backlogs s) (rpeer r)) as [bl|] eqn:Eg.
  - apply continue_loop_quiet in E.
    + destruct E as [Hq2 Hg2]. split; [apply quiet_app; assumption|]. intros Hn. rewrite Hg2. auto.
    + apply aget_in in Eg as (k' & Hin & _). destruct HB as (H1 & _). eauto.
  - inv E. split; [apply quiet_app; [assumption|repeat constructor]|auto].
Qed.

Lemma tm_process_response_known s r m s' o b : tm_process_response s r m = (s', o, b) ->
  b = known s r m /\ replies o = [] /\ (b = false -> o = [] /\ s' = s) /\ (b = true -> exists q last, o = [Deliver q m last]).
Proof.
  unfold tm_process_response, known, amem. intros H.
  destruct (aget ok_eqb (outgoing s) (token m, Some (rpeer r))) as [[q ob]|] eqn:E1; cbn in H.
  - rewrite E1 in H. inv H. repeat split; try discriminate; eauto.
  - destruct (aget ok_eqb (outgoing s) (token m, None)) as [[q ob]|] eqn:E2; inv H; repeat split; try discriminate; eauto.
Qed.

Lemma dedup_fresh s r m : aget zz_eqb (recent s) (rpeer r, mid m) = None ->
  exists s0, _deduplicate_message s r m = (s0, [], false) /\ piggy s0 = piggy s /\ atimers s0 = atimers s /\ incoming s0 = incoming s /\
             outgoing s0 = outgoing s /\ now s0 = now s /\ backlogs s0 = backlogs s /\ exch s0 = exch s /\
             (BInv s -> BInv s0).
Proof.
  intros Hf. unfold _deduplicate_message. rewrite Hf. unfold call_later_r. eexists. split; [reflexivity|]. cbn. do 7 (split; [reflexivity|]).
  intros HB. assert (E : _deduplicate_message s r m = _deduplicate_message s r m) by reflexivity.
  unfold _deduplicate_message at 2 in E. rewrite Hf in E. unfold call_later_r in E. eapply dedup_ok in E; [|exact HB]. exact (proj1 E).
Qed.

Lemma rpeer_ara r : rpeer (as_response_address r) = rpeer r.
Proof. unfold as_response_address. destruct (negb _); reflexivity. Qed.
Lemma ara_unicast r : is_multicast_locally r = false -> as_response_address r = r.
Proof. unfold as_response_address. intros ->. reflexivity. Qed.

Theorem reaction_table s r m s' o : BInv s -> fresh s r m -> dispatch_message s r m = (s', o) ->
  match table (mtype m) (classify (code m)) (known s r m) (is_multicast_locally r) with
  | Reset => replies o = [Send (as_response_address r) (empty_msg RST (mid m))]
  | EmptyAcknowledgement => replies o = [Send (as_response_address r) (empty_msg ACK (mid m))]
  | NoReply => replies o = []
  | ToHandler => exists s0, piggy s0 = piggy s /\ atimers s0 = atimers s /\ incoming s0 = incoming s /\ now s0 = now s /\
                            _process_request s0 r m = (s', o)
  end.
Proof.
  intros HB Hf H. unfold dispatch_message in H. unfold classify.
  destruct (is_request (code m)) eqn:Erq.
  - (* request codes: registered for deduplication first *)
    destruct (dedup_fresh s r m (Hf Erq)) as (s0 & Hd & Hp & Ha & Hi & Hg & Hn & Hbl & Hex & HB0). rewrite Hd in H.
    assert (Hc0 : (code m =? 0) = false). { unfold is_request in Erq. lia. }
    rewrite Hc0. unfold EMPTY in H. rewrite Hc0 in H.
    destruct (mtype m) eqn:Et; cbn [table].
    + dlet H s2 o2 E. injection H as <- <-. exists s0. cbn. auto.
    + dlet H s2 o2 E. injection H as <- <-. exists s0. cbn. auto.
    + destruct (_remove_exchange s0 r m) as [s1 o1] eqn:E1. inv H. apply remove_exchange_quiet in E1; [|auto].
      rewrite app_nil_r. cbn. apply quiet_replies. exact (proj1 E1).
    + destruct (_remove_exchange s0 r m) as [s1 o1] eqn:E1. inv H. apply remove_exchange_quiet in E1; [|auto].
      rewrite app_nil_r. cbn. apply quiet_replies. exact (proj1 E1).
  - unfold EMPTY in H. destruct (code m =? 0) eqn:Ec0.
    + (* empty messages *)
      destruct (mtype m) eqn:Et; cbn [table].
      * unfold _process_ping in H. pose proof (send_initially_out s (as_response_address r) (empty_msg RST (mid m)) MonResp) as [Ho _].
        destruct (_send_initially s (as_response_address r) (empty_msg RST (mid m)) MonResp) as [s2 o2]. cbn in Ho. inv H. reflexivity.
      * inv H. reflexivity.
      * destruct (_remove_exchange s r m) as [s1 o1] eqn:E1. inv H. apply remove_exchange_quiet in E1; [|auto].
        rewrite app_nil_r. cbn. apply quiet_replies. exact (proj1 E1).
      * destruct (_remove_exchange s r m) as [s1 o1] eqn:E1. inv H. apply remove_exchange_quiet in E1; [|auto].
        rewrite app_nil_r. cbn. apply quiet_replies. exact (proj1 E1).
    + destruct (is_response (code m)) eqn:Ers.
      * (* responses *)
        destruct (mtype m) eqn:Et; cbn [table].
        -- destruct (tm_process_response s r m) as [[s1 o1] b] eqn:Ep. apply tm_process_response_known in Ep as (-> & Hr & Hfalse & _).
           destruct (known s r m).
           ++ pose proof (send_initially_out s1 (as_response_address r) (empty_msg ACK (mid m)) MonResp) as [Ho _].
              unfold _send_empty_ack in H. destruct (_send_initially s1 (as_response_address r) (empty_msg ACK (mid m)) MonResp) as [s2 o2]. cbn in Ho. inv H.
              cbn. rewrite replies_app, Hr. reflexivity.
           ++ destruct (Hfalse eq_refl) as [-> ->]. cbn [mtype_eqb andb] in H. destruct (is_multicast_locally r); cbn [negb] in H.
              ** inv H. reflexivity.
              ** pose proof (send_initially_out s (as_response_address r) (empty_msg RST (mid m)) MonResp) as [Ho _].
                 destruct (_send_initially s (as_response_address r) (empty_msg RST (mid m)) MonResp) as [s2 o2]. cbn in Ho. inv H. reflexivity.
        -- destruct (tm_process_response s r m) as [[s1 o1] b] eqn:Ep. apply tm_process_response_known in Ep as (-> & Hr & Hfalse & _).
           destruct (known s r m); cbn [mtype_eqb andb] in H; inv H; cbn; rewrite Hr; reflexivity.
        -- destruct (_remove_exchange s r m) as [s0 o0] eqn:E0. apply remove_exchange_quiet in E0; [|auto]. destruct E0 as [Hq _].
           destruct (tm_process_response s0 r m) as [[s1 o1] b] eqn:Ep. apply tm_process_response_known in Ep as (_ & Hr & _).
           destruct b; cbn [mtype_eqb andb] in H; inv H; cbn; rewrite !replies_app, Hr, (proj1 (quiet_replies _ Hq)); reflexivity.
        -- destruct (_remove_exchange s r m) as [s0 o0] eqn:E0. apply remove_exchange_quiet in E0; [|auto]. destruct E0 as [Hq _].
           inv H. cbn. rewrite !replies_app, (proj1 (quiet_replies _ Hq)). reflexivity.
      * (* reserved and signalling codes *)
        assert (Hno : table (mtype m) (if 224 <=? code m then CSignalling else CReserved) (known s r m) (is_multicast_locally r) = NoReply)
          by (destruct (224 <=? code m), (mtype m); reflexivity).
        rewrite Hno. destruct (mtype m) eqn:Et; try (inv H; reflexivity);
        destruct (_remove_exchange s r m) as [s0 o0] eqn:E0; apply remove_exchange_quiet in E0; auto; destruct E0 as [Hq _];
        inv H; cbn; rewrite !replies_app, (proj1 (quiet_replies _ Hq)); reflexivity.
Qed.

(* messages whose code and type do not fit are ignored: nothing is sent, nothing changes *)
Lemma dont_fit_ignored s r m :
  (mtype m = NON /\ code m = 0) \/
  ((mtype m = CON \/ mtype m = NON) /\ code m <> 0 /\ is_request (code m) = false /\ is_response (code m) = false) ->
  dispatch_message s r m = (s, []).
Proof.
  intros [[Ht Hc]|([Ht|Ht] & Hc & Hq & Hp)]; unfold dispatch_message, EMPTY.
  - rewrite Hc, Ht. reflexivity.
  - rewrite Hq, Hp, Ht. replace (code m =? 0) with false by lia. reflexivity.
  - rewrite Hq, Hp, Ht. replace (code m =? 0) with false by lia. reflexivity.
Qed.

(* ------------------------------------------------------------------ part 3: send_message, cell by cell *)
Lemma tail_ack s1 r1 build pmid mon rq :
  send_message_tail s1 r1 build (Some ACK) (Some pmid) mon rq =
  (fst (_send_initially s1 r1 (build ACK pmid) mon), [Send r1 (build ACK pmid)], None).
Proof.
  unfold send_message_tail. cbn. pose proof (send_initially_out s1 r1 (build ACK pmid) mon) as [Ho _].
  destruct (_send_initially s1 r1 (build ACK pmid) mon). cbn in *. subst. reflexivity.
Qed.

(* the response is ready while the request is unacknowledged: it travels in the ACK, under the request's message ID *)
Lemma send_message_piggyback s r a mon rq pmid h :
  is_response (a_code a) = true -> aget pk_eqb (piggy s) (rpeer r, a_token a) = Some (pmid, h) -> no_response_of a = false ->
  exists s', send_message s r a mon rq = (s', [Send r (mk_wire a ACK pmid)], None) /\
             piggy s' = adel pk_eqb (piggy s) (rpeer r, a_token a) /\ atimers s' = cancel (atimers s) h.
Proof.
  intros Hr Hg Hn. unfold send_message. rewrite Hr, Hg, Hn, tail_ack. eexists. split; [reflexivity|].
  unfold _send_initially, _store_response_for_duplicates. cbn. destruct (amem _ _ _); cbn; auto.
Qed.

(* suppressed by No-Response while the request is unacknowledged: an empty ACK instead, also for a request received on a multicast address *)
Lemma send_message_suppressed_ack s r a mon rq pmid h :
  is_response (a_code a) = true -> aget pk_eqb (piggy s) (rpeer r, a_token a) = Some (pmid, h) -> no_response_of a = true ->
  exists s', send_message s r a mon rq = (s', [Send (as_response_address r) (empty_msg ACK pmid)], None) /\
             piggy s' = adel pk_eqb (piggy s) (rpeer r, a_token a) /\ atimers s' = cancel (atimers s) h.
Proof.
  intros Hr Hg Hn. unfold send_message. rewrite Hr, Hg, Hn. rewrite tail_ack.
  eexists. split; [reflexivity|]. unfold _send_initially, _store_response_for_duplicates. cbn. destruct (amem _ _ _); cbn; auto.
Qed.
Lemma as_response_address_idempotent r : as_response_address (as_response_address r) = as_response_address r.
Proof. unfold as_response_address, is_multicast_locally. destruct ((rlocal r =? 2) || (100 <=? rlocal r)) eqn:E; cbn; [reflexivity|rewrite E; reflexivity]. Qed.
Lemma as_response_address_not_multicast_locally r : is_multicast_locally (as_response_address r) = false.
Proof. unfold as_response_address, is_multicast_locally. destruct ((rlocal r =? 2) || (100 <=? rlocal r)) eqn:E; cbn; [reflexivity|exact E]. Qed.

(* every response of the rendering path — also 4.04 / 4.05 / 5.00 built from exceptions, which carry no option of their own — is sent
   with the request's No-Response option in force *)
Lemma error_response_inherits_no_response s r req c pl :
  send_response s r req c None pl =
  (let '(s1, o, _) := send_message s (as_response_address r)
      {| a_mtype := None; a_code := c; a_token := token req; a_nr := nr req; a_obs := None; a_payload := pl |} MonResp (Some (mtype req)) in (s1, o)).
Proof. reflexivity. Qed.

(* suppressed by No-Response and no acknowledgement pending: nothing is sent and nothing changes *)
Lemma send_message_suppressed_silent s r a mon rq :
  is_response (a_code a) = true -> aget pk_eqb (piggy s) (rpeer r, a_token a) = None -> no_response_of a = true ->
  send_message s r a mon rq = (s, [], None).
Proof. intros Hr Hg Hn. unfold send_message. rewrite Hr, Hg, Hn. reflexivity. Qed.

(* separate response (or a request): fresh message ID, the message's token; NON for a NON request or a multicast destination, else CON,
   and a CON may wait in the NSTART backlog *)
Lemma send_message_separate s r a mon rq s' o e :
  a_mtype a = None -> (is_response (a_code a) = true -> aget pk_eqb (piggy s) (rpeer r, a_token a) = None /\ no_response_of a = false) ->
  send_message s r a mon rq = (s', o, e) ->
  let t := select_mtype None r rq in
  e = None /\ next_mid s' = Z.land 65535 (1 + next_mid s) /\
  (o = [Send r (mk_wire a t (next_mid s))] \/ (o = [] /\ t = CON /\ amem Z.eqb (backlogs s) (rpeer r) = true)).
Proof.
  intros Hm Hresp H t.
  assert (Ht : send_message_tail s r (mk_wire a) None None mon rq = (s', o, e)).
  { unfold send_message in H. destruct (is_response (a_code a)); [|rewrite Hm in H; exact H].
    destruct (Hresp eq_refl) as [Hg Hn]. rewrite Hg, Hn, Hm in H. exact H. }
  clear H. unfold send_message_tail in Ht. fold t in Ht.
  assert (Hmc : mtype_eqb t CON && is_multicast r = false).
  { subst t. unfold select_mtype. destruct (is_multicast r); [reflexivity|]. apply andb_false_r. }
  rewrite Hmc in Ht. cbn [_next_message_id] in Ht. cbv zeta in Ht.
  set (s2 := set_next_mid s (Z.land 65535 (1 + next_mid s))) in *.
  destruct (mtype_eqb t CON && amem Z.eqb (backlogs s2) (rpeer r)) eqn:Eb.
  - injection Ht as <- <- <-. apply andb_true_iff in Eb as [E1 E2]. apply mtype_eqb_CON in E1. split; [reflexivity|]. split; [reflexivity|]. right. auto.
  - pose proof (send_initially_out s2 r (mk_wire a t (next_mid s)) mon) as [Ho _].
    pose proof (send_initially_next_mid s2 r (mk_wire a t (next_mid s)) mon) as Hnm.
    destruct (_send_initially s2 r (mk_wire a t (next_mid s)) mon) as [s3 o3] eqn:E3. cbn [fst snd] in Ho, Hnm. injection Ht as <- <- <-.
    split; [reflexivity|]. split; [exact Hnm|left; exact Ho].
Qed.

Lemma non_by_default r : select_mtype None r (Some NON) = NON.
Proof. unfold select_mtype. destruct (is_multicast r); reflexivity. Qed.
Lemma non_to_multicast r rq : is_multicast r = true -> select_mtype None r rq = NON.
Proof. unfold select_mtype. intros ->. reflexivity. Qed.
Lemma con_by_default r : is_multicast r = false -> select_mtype None r (Some CON) = CON /\ select_mtype None r None = CON.
Proof. unfold select_mtype. intros ->. auto. Qed.
(* an explicitly confirmable message to a multicast destination is refused before anything changes *)
Lemma con_to_multicast_refused s r a mon rq :
  a_mtype a = Some CON -> is_multicast r = true -> is_response (a_code a) = false -> send_message s r a mon rq = (s, [], Some ConToMulticast).
Proof.
  intros Hm Hr Hc. unfold send_message, send_message_tail. rewrite Hc, Hm. cbv zeta.
  change (mtype_eqb (select_mtype (Some CON) r rq) CON) with true. rewrite Hr. reflexivity.
Qed.

(* ------------------------------------------------------------------ part 4: the piggy-back opportunity of a CON request *)
Lemma aget_aset_same (l : list ((Z * list Z) * (Z * Z))) k v : aget pk_eqb (aset pk_eqb l k v) k = Some v.
Proof.
  unfold aset, amem. destruct (aget pk_eqb l k) eqn:E.
  - induction l as [|[k0 v0] l IH]; cbn in *; [discriminate|]. destruct (pk_eqb k0 k) eqn:Ek; cbn; rewrite Ek; auto.
  - induction l as [|[k0 v0] l IH]; cbn in *; [rewrite pk_eqb_refl; reflexivity|]. destruct (pk_eqb k0 k) eqn:Ek; [discriminate|auto].
Qed.
Lemma aget_adel_same (l : list ((Z * list Z) * (Z * Z))) k : aget pk_eqb (adel pk_eqb l k) k = None.
Proof. induction l as [|[k0 v0] l IH]; cbn; [reflexivity|]. destruct (pk_eqb k0 k) eqn:Ek; cbn; [|rewrite Ek]; auto. Qed.

(* a CON request to the slow resource (side condition O3: no earlier request with this token is still unacknowledged): nothing is
   sent yet; the opportunity (mid, handle) is recorded and its empty-ACK timer armed EMPTY_ACK_DELAY from now *)
Lemma request_arms_timer s r m s' o : mtype m = CON -> path m = 0 -> 1 <= code m <= 7 ->
  aget pk_eqb (piggy s) (rpeer r, token m) = None -> _process_request s r m = (s', o) ->
  aget pk_eqb (piggy s') (rpeer r, token m) = Some (mid m, seq s) /\
  atimers s' = atimers s ++ [{| due := now s + EMPTY_ACK_DELAY; tid := seq s; kind := EmptyAck r (token m) |}] /\
  (forall x, In x o -> exists k, x = StartHandler k \/ x = CancelHandler k).
Proof.
  intros Ht Hp Hc Hn H. unfold _process_request in H. rewrite Ht in H. unfold call_later_a in H. cbv zeta in H.
  cbn [piggy set_atimers] in H. rewrite Hn in H.
  unfold tm_process_request in H. rewrite Hp in H. replace ((1 <=? code m) && (code m <=? 7)) with true in H by lia.
  cbn [negb orb Z.eqb] in H. cbv zeta in H.
  destruct (aget ik_eqb _ (token m, rpeer r)) as [sv|] in H; injection H as <- <-; cbn [piggy atimers set_next_srv set_incoming set_piggy set_atimers];
    (split; [apply aget_aset_same|split; [reflexivity|]]); intros x Hin; cbn in Hin.
  - destruct Hin as [<-|[<-|[]]]; eauto.
  - destruct Hin as [<-|[]]; eauto.
Qed.
Lemma non_request_arms_nothing s r m : mtype m = NON -> _process_request s r m = tm_process_request s r m.
Proof. intros Ht. unfold _process_request. rewrite Ht. reflexivity. Qed.

(* the timer fires first: an empty ACK under the request's message ID, and the opportunity is gone (so it cannot be used twice) *)
Lemma on_timeout_acks s r tok pmid h : aget pk_eqb (piggy s) (rpeer r, tok) = Some (pmid, h) ->
  exists s', on_timeout s r tok = (s', [Send (as_response_address r) (empty_msg ACK pmid)]) /\
             aget pk_eqb (piggy s') (rpeer r, tok) = None.
Proof.
  intros Hg. unfold on_timeout. rewrite Hg. unfold _send_empty_ack.
  pose proof (send_initially_out (set_piggy s (adel pk_eqb (piggy s) (rpeer r, tok))) (as_response_address r) (empty_msg ACK pmid) MonResp) as [Ho _].
  destruct (_send_initially (set_piggy s (adel pk_eqb (piggy s) (rpeer r, tok))) (as_response_address r) (empty_msg ACK pmid) MonResp) as [s2 o2] eqn:E.
  cbn [snd] in Ho. subst o2. eexists. split; [reflexivity|].
  apply send_initially_ok_piggy in E. rewrite E. cbn [piggy set_piggy]. apply aget_adel_same.
Qed.

(* ------------------------------------------------------------------ counting acknowledgements in a trace (for the witnesses in Props) *)
Definition is_ack_for (p M : Z) (o : output) : bool :=
  match o with Send r m => mtype_eqb (mtype m) ACK && (rpeer r =? p) && (mid m =? M) | _ => false end.
Definition acks (p M : Z) (o : list output) : nat := length (filter (is_ack_for p M) o).
Definition sends (o : list output) : list (remote * wire) :=
  flat_map (fun x => match x with Send r m => [(r, m)] | _ => [] end) o.
Definition trace (es : list event) : list output := outputs_of (snd (run (init 0 0) es)).
Definition final_now (es : list event) : Z := now (fst (run (init 0 0) es)).
Definition creq (t : mtype_t) (md : Z) (tok : list Z) (pth : Z) (n : option Z) : wire :=
  {| mtype := t; code := 1; mid := md; token := tok; nr := n; obs := None; path := pth; payload := [] |}.
Definition uni (p : Z) : remote := {| rpeer := p; rlocal := 1 |}.
Definition mc (p : Z) : remote := {| rpeer := p; rlocal := 2 |}.
