(* C18, round 6 — Context.shutdown over a transport that does not finish closing (Model/C18.v, [cstep]/[crun]): everything is failed /
   cancelled at the call exactly as with a prompt transport, the context is silent while Context.shutdown is still waiting, and
   Context.shutdown returns exactly once, no later than SHUTDOWN_TIMEOUT of (virtual) time after the call. *)
From Verif Require Import Lib.Py Lib.Tactics Model.C18 Proofs.C18 Proofs.C18Inv Proofs.C18Req.
Open Scope Z_scope.

Definition count_done (l : list output) : nat := length (filter is_done l).
Definition waiting (c : cst) : nat := match c_wait c with Some _ => 1%nat | None => 0%nat end.
Definition quiet_or_done (o : output) : bool := quiet o || is_done o.

Lemma count_done_app a b : count_done (a ++ b) = (count_done a + count_done b)%nat.
Proof. unfold count_done. rewrite filter_app, app_length. reflexivity. Qed.
Lemma quiet_not_done o : quiet o = true -> is_done o = false.
Proof. destruct o; cbn; try discriminate; auto. Qed.
Lemma count_done_quiet l : forallb quiet l = true -> count_done l = 0%nat.
Proof.
  unfold count_done. induction l as [|o l IH]; cbn; [reflexivity|]. intro H. apply andb_true_iff in H. destruct H as [Q H].
  rewrite (quiet_not_done o Q). apply IH. exact H.
Qed.
Lemma forallb_weaken {A} (p q : A -> bool) l : (forall x, p x = true -> q x = true) -> forallb p l = true -> forallb q l = true.
Proof. intros W. induction l as [|x l IH]; cbn; [auto|]. intro H. apply andb_true_iff in H. destruct H. rewrite (W x), IH; auto. Qed.

(* ---------------------------------------------------------------- the call *)
Lemma shutdown_outcome_not_done o : forallb (fun x => negb (is_done x)) (shutdown_outcome o) = true.
Proof. unfold shutdown_outcome. destruct (o_first o); [reflexivity|]. destruct (o_observe o); reflexivity. Qed.

Lemma hung_shutdown_call s xs : exchanges (mm s) = Some xs -> timers_owned (mm s) ->
  cstep {| c_base := s; c_wait := None |} (CShutdown false) =
    ({| c_base := fst (shutdown s); c_wait := Some (now (mm s) + SHUTDOWN_TIMEOUT) |},
     map (fun i => OHCancel (i_h i)) (ilist (tm s)) ++ flat_map shutdown_outcome (olist (tm s))).
Proof.
  intros E Own. pose proof (shutdown_step s xs E Own) as (_ & O & _). cbn [cstep c_base c_wait].
  destruct (shutdown s) as [s' out]. cbn [fst snd] in *. subst out.
  assert (D : existsb is_done (map (fun i => OHCancel (i_h i)) (ilist (tm s)) ++ flat_map shutdown_outcome (olist (tm s)) ++ [OShutdownDone]) = true).
  { rewrite !existsb_app. cbn. rewrite !orb_true_r. reflexivity. }
  rewrite D. cbn [orb negb]. f_equal.
  rewrite !filter_app. cbn [filter is_done negb]. rewrite app_nil_r. f_equal.
  - apply filter_all. intros x I. apply in_map_iff in I. destruct I as (i & <- & _). reflexivity.
  - apply filter_all. intros x I. apply in_flat_map in I. destruct I as (o & _ & I).
    pose proof (shutdown_outcome_not_done o) as H. rewrite forallb_forall in H. exact (H x I).
Qed.

(* ---------------------------------------------------------------- while Context.shutdown is waiting, and afterwards *)
(* [dl]: the deadline of the time-out *)
Definition CW (c : cst) (dl : Z) : Prop :=
  Down (c_base c) /\ G (mm (c_base c)) /\ (c_wait c = None \/ (c_wait c = Some dl /\ now (mm (c_base c)) < dl)).

Lemma cstep_waiting c dl e : CW c dl -> in_scope e = true ->
  CW (fst (cstep c (CEvent e))) dl /\ forallb quiet_or_done (snd (cstep c (CEvent e))) = true /\
  (count_done (snd (cstep c (CEvent e))) + waiting (fst (cstep c (CEvent e))) = waiting c)%nat.
Proof.
  intros (D & Gs & W) Sc. cbn [cstep].
  pose proof (step_down (c_base c) e D Gs Sc) as (Q & D' & G'). destruct (step (c_base c) e) as [s' out]. cbn [fst snd] in *.
  assert (Qd : forallb quiet_or_done out = true) by (apply (forallb_weaken quiet); [intros x H; unfold quiet_or_done; rewrite H; reflexivity|exact Q]).
  unfold release. cbn [c_wait c_base]. destruct W as [W|[W Lt]]; rewrite W.
  - cbn [fst snd]. rewrite app_nil_r. split; [unfold CW; cbn; auto|]. split; [exact Qd|].
    unfold waiting. cbn. rewrite W. rewrite (count_done_quiet out Q). reflexivity.
  - destruct (dl <=? now (mm s')) eqn:R; cbn [fst snd].
    + split; [unfold CW; cbn; auto|]. split; [rewrite forallb_app, Qd; reflexivity|].
      rewrite count_done_app, (count_done_quiet out Q). unfold waiting. cbn. rewrite W. reflexivity.
    + rewrite app_nil_r. split; [unfold CW; cbn; split; [exact D'|split; [exact G'|right; split; [reflexivity|lia]]]|]. split; [exact Qd|].
      unfold waiting. cbn. rewrite W. rewrite (count_done_quiet out Q). reflexivity.
Qed.

Lemma crun_waiting : forall es c dl, CW c dl -> forallb in_scope es = true ->
  let r := crun c (map CEvent es) in
  CW (fst r) dl /\ forallb (forallb quiet_or_done) (snd r) = true /\ (count_done (concat (snd r)) + waiting (fst r) = waiting c)%nat.
Proof.
  induction es as [|e es IH]; intros c dl H Sc; cbn [map crun]; [cbn; auto|].
  cbn [forallb] in Sc. apply andb_true_iff in Sc. destruct Sc as [S1 S2].
  pose proof (cstep_waiting c dl e H S1) as (H1 & Q1 & C1). destruct (cstep c (CEvent e)) as [c1 o]. cbn [fst snd] in *.
  specialize (IH c1 dl H1 S2). cbv zeta in IH. destruct IH as (H2 & Q2 & C2). destruct (crun c1 (map CEvent es)) as [c2 os]. cbn [fst snd concat forallb] in *.
  split; [exact H2|]. split; [rewrite Q1, Q2; reflexivity|]. rewrite count_done_app. lia.
Qed.

(* ---------------------------------------------------------------- over whole histories, from a fresh context *)
Theorem shutdown_times_out : forall u m t before after,
  forallb not_shutdown before = true -> forallb in_scope after = true ->
  let s := fst (run (init u m t) before) in
  let r1 := cstep {| c_base := s; c_wait := None |} (CShutdown false) in
  let r2 := crun (fst r1) (map CEvent after) in
  (* at the call: handlers cancelled, requests failed — only the return is missing *)
  snd r1 = map (fun i => OHCancel (i_h i)) (ilist (tm s)) ++ flat_map shutdown_outcome (olist (tm s)) /\
  (* afterwards the context is silent, Context.shutdown returns at most once ... *)
  forallb (forallb quiet_or_done) (snd r2) = true /\
  (count_done (concat (snd r2)) + waiting (fst r2) = 1)%nat /\
  (* ... and it is no longer waiting once the clock has reached call time + SHUTDOWN_TIMEOUT *)
  (now (mm s) + SHUTDOWN_TIMEOUT <= now (mm (c_base (fst r2))) -> c_wait (fst r2) = None /\ count_done (concat (snd r2)) = 1%nat).
Proof.
  intros u m t before after NS Sc s r1 r2.
  destruct (reachable_owned before u m t NS) as (Own & xs & E). fold s in Own, E.
  pose proof (hung_shutdown_call s xs E Own) as C. fold r1 in C.
  pose proof (shutdown_step s xs E Own) as (D & _ & F1 & F2 & _).
  assert (Gs' : G (mm (fst (shutdown s)))).
  { pose proof (reachable_G before u m t) as [A B]. fold s in A, B. unfold G. cbn [step] in F1, F2. rewrite F1, F2. split; assumption. }
  assert (H0 : CW (fst r1) (now (mm s) + SHUTDOWN_TIMEOUT)).
  { rewrite C. cbn [fst]. unfold CW. cbn [c_base c_wait]. split; [exact D|split; [exact Gs'|right; split; [reflexivity|]]].
    pose proof (shutdown_step s xs E Own) as (_ & _ & _ & _ & _). unfold shutdown.
    destruct (tm_shutdown_incoming (tm s)) as [tm1 o1]. destruct (tm_shutdown_outgoing (now (mm s)) tm1) as [tm2 o2].
    pose proof (mm_shutdown_spec (mm s) xs E Own) as MS. cbv zeta in MS. destruct (mm_shutdown (mm s)) as [mm1 o3]. cbn [fst snd mm] in *.
    destruct MS as (_ & _ & _ & _ & _ & _ & _ & _ & Nw). rewrite Nw. unfold SHUTDOWN_TIMEOUT. lia. }
  pose proof (crun_waiting after (fst r1) _ H0 Sc) as (H2 & Q2 & C2). fold r2 in H2, Q2, C2.
  assert (W1 : waiting (fst r1) = 1%nat) by (rewrite C; reflexivity). rewrite W1 in C2.
  split; [rewrite C; reflexivity|]. split; [exact Q2|]. split; [exact C2|].
  intro T. destruct H2 as (_ & _ & [W|[W Lt]]).
  - split; [exact W|]. unfold waiting in C2. rewrite W in C2. lia.
  - exfalso. lia.
Qed.

(* non-vacuity: the busy state, a transport that hangs, 2 999 999 us of waiting, then one more *)
Lemma shutdown_times_out_example :
  let c1 := fst (cstep {| c_base := busy_state; c_wait := None |} (CShutdown false)) in
  c_wait c1 = Some (100000 + SHUTDOWN_TIMEOUT) /\
  snd (crun c1 [CEvent (Advance 2999999); CEvent (ClientRequest 7 1 CON false); CEvent (Advance 1); CEvent (Advance 300000000)])
    = [[]; [OFail 7 LibraryShutdown]; [OShutdownDone]; []].
Proof. vm_compute. split; reflexivity. Qed.
(* with a hanging transport, too, every request ever submitted is settled at the call (or is still in its remote lookup) *)
Theorem hung_shutdown_settles_requests : forall u m t before after, wf_history t before after ->
  let s := fst (run (init u m t) before) in
  let outs := concat (snd (run (init u m t) before)) in
  let r1 := cstep {| c_base := s; c_wait := None |} (CShutdown false) in
  forallb lib_outcome (snd r1) = true /\
  forall q ob, In (q, ob) (reqs_of before) ->
     (exists o, In o (outs ++ snd r1) /\ settles ob q o = true) \/
     (exists x, In x (resolving (tm (c_base (fst r1)))) /\ rlabel x = q /\ snd x = ob).
Proof.
  intros u m t before after WF s outs r1.
  pose proof (shutdown_at_any_moment u m t before after WF) as (O & L & S & _). fold s in O, L, S. fold outs in S.
  destruct WF as (NS & _).
  destruct (reachable_owned before u m t NS) as (Own & xs & E). fold s in Own, E.
  pose proof (hung_shutdown_call s xs E Own) as C. fold r1 in C. rewrite C. cbn [fst snd c_base].
  split.
  - rewrite O in L. rewrite !forallb_app in L. apply andb_true_iff in L. destruct L as [L1 L2]. apply andb_true_iff in L2. destruct L2 as [L2 _].
    rewrite forallb_app, L1, L2. reflexivity.
  - intros q ob I. destruct (S q ob I) as [(o & Io & So)|X]; [|right; exact X]. left. exists o. split; [|exact So].

    apply in_app_or in Io. apply in_or_app. destruct Io as [Io|Io]; [left; exact Io|right]. rewrite O in Io. rewrite app_assoc in Io. apply in_app_or in Io. destruct Io as [Io|[<-|[]]]; [exact Io|discriminate So].
Qed.
