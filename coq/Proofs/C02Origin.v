(* C02 — proofs. Part 3: where every output of a step comes from; completions carry library errors only. *)
From Verif Require Import Lib.Py Lib.PyLemmas Lib.Tactics Gen.tokenmanager_next_token Model.C02 Proofs.C02.
Open Scope Z_scope.

(* outputs not produced by a Pipe event *)
Definition non_pipe (o : output) : Prop :=
  match o with Send _ _ _ _ _ _ | Token _ _ | Cancelled _ | Raised _ | LoopExc _ | Crash _ => True | _ => False end.

Section Origin.
  Variable A : pev -> Prop.       (* the Pipe events the step under consideration may inject *)
  Definition orig (o : output) : Prop := non_pipe o \/ exists q ev, A ev /\ out_ok q ev o.

  Lemma orig_ml : forall o, Forall ml_out o -> Forall orig o.
  Proof. intros o H. eapply Forall_impl; [|exact H]. intros [] Hx; cbn in Hx; try contradiction; left; exact I. Qed.
  Lemma orig_add_event : forall s q ev s' o, A ev -> _add_event s q ev = (s', o) -> Forall orig o.
  Proof. intros s q ev s' o Ha H. apply add_event_out_ok in H. eapply Forall_impl; [|exact H]. intros x Hx. right. eauto. Qed.

  Lemma orig_run_stoppers : forall e, A (PException e) -> forall qs s s' o, run_stoppers s qs e = (s', o) -> Forall orig o.
  Proof.
    intros e Ha. induction qs as [|q rest IH]; intros s s' o H; cbn [run_stoppers] in H; [invpairs; constructor|].
    destruct (add_exception s q e) as [s1 o1] eqn:E. apply orig_add_event in E; [|exact Ha].
    destruct (run_stoppers s1 rest e) as [s2 o2] eqn:R. apply IH in R. invpairs. apply Forall_app; split; assumption.
  Qed.
  Lemma orig_tm_dispatch_error : forall s k r s' o, A (PException (wrap_error k)) -> tm_dispatch_error s k r = (s', o) -> Forall orig o.
  Proof.
    intros s k r s' o Ha H. unfold tm_dispatch_error in H. destruct (outgoing s); [|invpairs; constructor].
    eapply orig_run_stoppers; eauto.
  Qed.
  (* a transmission refused by the transport injects PException NetworkError (OSError wrapped) *)
  Hypothesis Aref : A (PException (wrap_error EOs)).
  Lemma orig_send_via_transport : forall s r w s' o, _send_via_transport s r w = (s', o) -> Forall orig o.
  Proof.
    intros s r w s' o H. unfold _send_via_transport in H. destruct (refuses s r); [|invpairs; repeat constructor].
    unfold mm_dispatch_error in H. destruct (exchanges s); [|invpairs; constructor].
    destruct (tm_dispatch_error s EOs r) as [s1 o1] eqn:T. apply orig_tm_dispatch_error in T; [|exact Aref]. invpairs. exact T.
  Qed.
  Lemma orig_send_initially : forall s r w m s' o, _send_initially s r w m = (s', o) -> Forall orig o.
  Proof. intros s r w m s' o H. unfold _send_initially in H. eapply orig_send_via_transport; eauto. Qed.
  Lemma orig_continue_loop : forall r fuel s s' o x, _continue_backlog_loop fuel s r = (s', o, x) -> Forall orig o.
  Proof.
    intros r. induction fuel as [|f IH]; intros s s' o x H; cbn [_continue_backlog_loop] in H; [invpairs; constructor|].
    destruct (exchanges s); [|invpairs; constructor].
    destruct (alookup Z.eqb r (backlogs s)) as [bl|]; [|invpairs; constructor].
    destruct (has_exchange r l); [invpairs; constructor|].
    destruct bl as [|[w m] rest]; [invpairs; constructor|].
    destruct (_send_initially _ r w (Some m)) as [s1 o1] eqn:S. apply orig_send_initially in S.
    destruct (_continue_backlog_loop f s1 r) as [[s2 o2] x2] eqn:L. apply IH in L. invpairs. apply Forall_app; split; assumption.
  Qed.
  Lemma orig_remove_exchange : forall s r w s' o x, A (PException MessageError) -> _remove_exchange s r w = (s', o, x) -> Forall orig o.
  Proof.
    intros s r w s' o x Ha H. unfold _remove_exchange in H.
    destruct (exchanges s); [|invpairs; constructor].
    destruct (alookup rm_eqb (r, w_mid w) l); [|invpairs; constructor].
    destruct (if w_mtype w =? RST then _ else _) as [s2 o2] eqn:E.
    destruct (_continue_backlog s2 r) as [[s3 o3] x3] eqn:C. invpairs.
    apply Forall_app. split.
    - destruct (w_mtype w =? RST); [unfold add_exception in E; eapply orig_add_event; [|exact E]; exact Ha|invpairs; constructor].
    - unfold _continue_backlog in C. destruct (alookup Z.eqb r (backlogs s2)); [eapply orig_continue_loop; eauto|invpairs; repeat constructor].
  Qed.
  Lemma orig_process_response : forall s r w b s' o, (forall f, A (PResponse w r f)) -> process_response s r w = (b, s', o) -> Forall orig o.
  Proof.
    intros s r w b s' o Ha H. unfold process_response in H.
    destruct (outgoing s); [|invpairs; repeat constructor].
    destruct (alookup key_eqb _ l); [|invpairs; constructor].
    destruct (add_response _ z w r _) as [s2 o2] eqn:E. invpairs. unfold add_response in E. eapply orig_add_event; [|exact E]. apply Ha.
  Qed.
  Lemma orig_dispatch_message : forall s r mcl w s' o, A (PException MessageError) -> (forall f, A (PResponse w r f)) ->
    dispatch_message s r mcl w = (s', o) -> Forall orig o.
  Proof.
    intros s r mcl w s' o A1 A2 H. unfold dispatch_message in H.
    destruct (is_request (w_code w)). { invpairs. repeat constructor. }
    destruct (if (w_mtype w =? ACK) || (w_mtype w =? RST) then _ else _) as [[s1 o1] x1] eqn:RE.
    assert (B1 : Forall orig o1).
    { destruct ((w_mtype w =? ACK) || (w_mtype w =? RST)); [eapply orig_remove_exchange; eauto|invpairs; constructor]. }
    destruct x1. { invpairs. exact B1. }
    assert (SI : forall s r w s' o, _send_initially s r w None = (s', o) -> Forall orig o).
    { intros *. apply orig_send_initially. }
    destruct ((w_code w =? EMPTY) && (w_mtype w =? CON)).
    { destruct (_send_initially s1 r _ None) as [s2 o2] eqn:S. apply SI in S. invpairs. apply Forall_app; split; assumption. }
    destruct ((w_code w =? EMPTY) && ((w_mtype w =? ACK) || (w_mtype w =? RST))). { invpairs. exact B1. }
    destruct (is_response (w_code w) && _); [|invpairs; exact B1].
    destruct (process_response s1 r w) as [[b s2] o2] eqn:P. apply orig_process_response in P; [|exact A2].
    destruct b; [destruct (w_mtype w =? CON)|destruct ((w_mtype w =? CON) && negb mcl)];
      try (destruct (_send_initially s2 r _ None) as [s3 o3] eqn:S; apply SI in S); invpairs;
      repeat (apply Forall_app; split); assumption.
  Qed.
  Lemma orig_shutdown_loop : A (PException LibraryShutdown) -> forall fuel s s' o, tm_shutdown_loop fuel s = (s', o) -> Forall orig o.
  Proof.
    intros Ha. induction fuel as [|f IH]; intros s s' o H; cbn [tm_shutdown_loop] in H; [invpairs; constructor|].
    destruct (outgoing s) as [[|[k q] rest]|]; try (invpairs; constructor).
    destruct (add_exception _ q LibraryShutdown) as [s1 o1] eqn:E. apply orig_add_event in E; [|exact Ha].
    destruct (tm_shutdown_loop f s1) as [s2 o2] eqn:L. apply IH in L. invpairs. apply Forall_app; split; assumption.
  Qed.
  Lemma orig_request : forall s q r mt obs s' o, A (PException LibraryShutdown) -> A (PException ConToMulticast) ->
    request s q r mt obs = (s', o) -> Forall orig o.
  Proof.
    intros s q r mt obs s' o A1 A2 H. unfold request in H.
    destruct (outgoing s). 2: { unfold add_exception in H. eapply orig_add_event; [exact A1|exact H]. }
    destruct (next_token (tmst s)) as [[tm' tok]|e]; [|invpairs; repeat constructor].
    destruct (send_message _ r mt tok obs q) as [[s3 o3]|e] eqn:SM.
    - invpairs. constructor; [left; exact I|]. unfold send_message in SM.
      set (mt' := match mt with None => _ | Some _ => _ end) in SM. clearbody mt'.
      destruct ((mt' =? CON) && is_multicast r); [discriminate|]. cbn [_next_message_id] in SM.
      set (s1 := set_next_mid _ _) in SM. clearbody s1. set (w := {| w_mtype := mt' |}) in SM. clearbody w.
      destruct ((mt' =? CON) && amem Z.eqb r _).
      + set (s2 := set_backlogs s1 _) in SM. clearbody s2. injection SM as <- <-. constructor.
      + destruct (_send_initially s1 r w (Some q)) as [s2 o1] eqn:S. apply orig_send_initially in S.
        injection SM as <- <-. exact S.
    - assert (e = ConToMulticast).
      { unfold send_message in SM. set (mt' := match mt with None => _ | Some _ => _ end) in SM. clearbody mt'.
        destruct ((mt' =? CON) && is_multicast r); [congruence|]. cbn [_next_message_id] in SM.
        set (s1 := set_next_mid _ _) in SM. clearbody s1. set (w := {| w_mtype := mt' |}) in SM. clearbody w.
        destruct ((mt' =? CON) && amem Z.eqb r _); [discriminate|]. destruct (_send_initially s1 r w (Some q)); discriminate. }
      subst e. destruct (add_exception _ q ConToMulticast) as [s3 o3] eqn:E. apply orig_add_event in E; [|exact A2].
      invpairs. constructor; [left; exact I|exact E].
  Qed.
  Lemma orig_retransmit : forall s r mid s' o, A (PException ConRetransmitsExceeded) -> _retransmit s r mid = (s', o) -> Forall orig o.
  Proof.
    intros s r mid s' o Ha H. unfold _retransmit in H. destruct (exchanges s); [|invpairs; constructor].
    destruct (alookup rm_eqb (r, mid) l); [|invpairs; repeat constructor].
    destruct (ex_counter e <? 4).
    - eapply orig_send_via_transport; eauto.
    - destruct (amem Z.eqb r _); [|invpairs; repeat constructor].
      eapply orig_tm_dispatch_error in H; [exact H|exact Ha].
  Qed.
End Origin.

(* the Pipe events a step can inject *)
Definition pev_allowed (e : event) (ev : pev) : Prop :=
  match e with
  | Request _ _ _ _ => ev = PException LibraryShutdown \/ ev = PException ConToMulticast \/ ev = PException NetworkError
  | Recv r _ w => ev = PException MessageError \/ ev = PException NetworkError \/ exists f, ev = PResponse w r f
  | Fire => ev = PException ConRetransmitsExceeded \/ ev = PException NetworkError
  | Err _ k => ev = PException (wrap_error k)
  | Shutdown => ev = PException LibraryShutdown
  | Adv _ | Cancel _ | ObsCancel _ | Refuse _ _ => False
  end.

Lemma step_origin : forall s e s' o, step s e = (s', o) -> Forall (orig (pev_allowed e)) o.
Proof.
  intros s e s' o H. destruct e; cbn [step] in H.
  - unfold new_request in H. destruct (get_req s q); [invpairs; constructor|].
    eapply (orig_request (pev_allowed (Request q r mtype obs))); [| | |exact H]; cbn; auto.
  - destruct (outgoing s); [|invpairs; constructor].
    eapply (orig_dispatch_message (pev_allowed (Recv r mcl w))); [| | |exact H]; cbn; eauto.
  - destruct (exchanges s); [|invpairs; constructor].
    destruct (next_timer l None) as [[[r mid] e]|]; [|invpairs; constructor].
    eapply (orig_retransmit (pev_allowed Fire)); [| |exact H]; cbn; auto.
  - repeat dmatch; invpairs; constructor.
  - unfold mm_dispatch_error in H. destruct (exchanges s); [|invpairs; constructor].
    destruct (tm_dispatch_error s k r) as [s1 o1] eqn:T.
    eapply (orig_tm_dispatch_error (pev_allowed (Err r k))) in T; [|exact eq_refl]. invpairs. exact T.
  - unfold cancel in H. repeat dmatch; invpairs; repeat constructor.
  - invpairs. constructor.
  - invpairs. constructor.
  - unfold shutdown in H. destruct (outgoing s); [|invpairs; constructor].
    destruct (tm_shutdown_loop (length l) s) as [s1 o1] eqn:L. eapply (orig_shutdown_loop (pev_allowed Shutdown)) in L; [|exact eq_refl].
    invpairs. exact L.
Qed.

(* classes derived from aiocoap.error.Error that the client request path can fail with *)
Definition lib_error (e : exn) : bool :=
  match e with LibraryShutdown | NetworkError | ConRetransmitsExceeded | MessageError | ConToMulticast => true | _ => false end.
Definition event_wf (e : event) : Prop := match e with Err _ (ENet x) => lib_error x = true | _ => True end.

(* a request fails only with a library error; a result is set only while processing the datagram that carries it *)
Lemma completion_kinds_lemma : forall s e s' o x, step s e = (s', o) -> event_wf e -> In x o ->
  match x with
  | SetException q err => lib_error err = true
  | SetResult q rid tok from => exists mcl w, e = Recv from mcl w /\ rid = w_rid w /\ tok = w_token w
  | Notify q rid tok from => exists mcl w, e = Recv from mcl w /\ rid = w_rid w /\ tok = w_token w
  | _ => True
  end.
Proof.
  intros s e s' o x H Hwf Hin. apply step_origin in H. rewrite Forall_forall in H. specialize (H x Hin).
  destruct H as [H|(q & ev & Ha & Hok)]; destruct x; cbn in *; try contradiction; try exact I.
  - destruct Hok as [_ (w & l & -> & -> & ->)]. destruct e; cbn in Ha; try contradiction;
      repeat (destruct Ha as [Ha|Ha]; try discriminate); try discriminate.
    destruct Ha as [f Ha]. inversion Ha. subst. eauto.
  - destruct Hok as [_ ->]. destruct e; cbn in Ha; try contradiction;
      repeat (destruct Ha as [Ha|Ha]; try (inversion Ha; reflexivity)); try (inversion Ha; reflexivity).
    + destruct Ha as [f Ha]. discriminate.
    + inversion Ha. destruct k; cbn in *; [reflexivity|exact Hwf].
  - destruct Hok as [_ (w & l & -> & -> & ->)]. destruct e; cbn in Ha; try contradiction;
      repeat (destruct Ha as [Ha|Ha]; try discriminate); try discriminate.
    destruct Ha as [f Ha]. inversion Ha. subst. eauto.
Qed.
