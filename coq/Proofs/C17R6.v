(* C17 — round 6: run-level statements.  Over every history of add / remove / alias / request / locate / list / probe operations the
   model never produces an internal error: the only exceptions a history can observe are KeyError (remove of something that is not
   registered), NotFound (4.04) and BadOption (Uri-Path-Abbrev conflict / unknown value through render_to_pipe). *)
From Verif Require Import Lib.Py Lib.Tactics Model.C17Base Gen.resource_site Model.C17 Proofs.C17 Proofs.C17Reg Proofs.C17Wkc Proofs.C17List.
Open Scope Z_scope.
Open Scope list_scope.

Lemma expand_upa_raises : forall m e, expand_upa m = Raise e -> e = BadOption.
Proof.
  intros m e. rewrite expand_upa_spec. destruct (uri_path_abbrev m) as [n|]; [|discriminate].
  destruct (truthy (uri_path m)); [intro H; inversion H; reflexivity|].
  destruct (zmap_get upa_map n); intro H; inversion H; reflexivity.
Qed.

(* one level of dispatch for ANY message (abbreviation pending or not, either entry point) *)
Lemma render_step_any : forall pipe rs ss m,
  render pipe (NSite rs ss) m =
  match (if pipe then expand_upa m else Ok m) with
  | Raise e => LeafExn e
  | Ok m =>
    match dict_get_opt rs (uri_path m) with
    | Some r => LeafRes r (strip m [])
    | None => match scan ss (uri_path m) (List.length (uri_path m) - 1) with
              | Some (c, rest) => render pipe c (strip m rest)
              | None => LeafExn NotFound
              end
    end
  end.
Proof.
  intros pipe rs ss m. rewrite render_site. destruct (if pipe then expand_upa m else Ok m) as [m0|e]; [|reflexivity].
  rewrite find_child_eq. unfold find_child_spec. cbn [resources subsites].
  destruct (dict_get_opt rs (uri_path m0)); [reflexivity|].
  rewrite scan_map. destruct (scan ss (uri_path m0) (List.length (uri_path m0) - 1)) as [[c rest]|]; reflexivity.
Qed.

Lemma render_exn : forall n pipe m e, render pipe n m = LeafExn e -> e = NotFound \/ e = BadOption.
Proof.
  induction n as [id | rs ss IH] using node_ind'; intros pipe m e H; [discriminate|].
  rewrite render_step_any in H. destruct (if pipe then expand_upa m else Ok m) as [m0|e0] eqn:E.
  - destruct (dict_get_opt rs (uri_path m0)); [discriminate|].
    destruct (scan ss (uri_path m0) (List.length (uri_path m0) - 1)) as [[c rest]|] eqn:Hscan.
    + destruct (scan_some _ _ _ _ _ _ Hscan) as [j [_ [Hg _]]].
      pose proof (proj1 (Forall_forall _ _) IH _ (dict_get_opt_In _ _ _ _ Hg)) as IHc. cbn [snd] in IHc. apply (IHc pipe _ e H).
    + inversion H. left. reflexivity.
  - inversion H; subst. destruct pipe; [right; apply (expand_upa_raises m e E) | discriminate].
Qed.
Lemma render_wkc_is_site : forall pipe root m impl m', render pipe root m = LeafRes (RWkc impl) m' -> exists ls, get_resources_as_linkheader root = Some ls.
Proof.
  intros pipe root m impl m' H. destruct root as [rs ss | id]; [|discriminate]. rewrite linkheader_site. eauto.
Qed.

Definition expected_exn (e : exn) : Prop := e = KeyError \/ e = NotFound \/ e = BadOption.

Lemma request_exn : forall pipe root m q e, request pipe root m q = RExn e -> e = NotFound \/ e = BadOption.
Proof.
  intros pipe root m q e H. unfold request in H. destruct (render pipe root m) as [r m' | id m' | e0] eqn:E.
  - destruct r as [id d | impl]; [discriminate|].
    destruct (render_wkc_is_site _ _ _ _ _ E) as [ls Hls]. rewrite Hls in H.
    destruct (wkc_total ls impl q) as [r Hr]. rewrite Hr in H. discriminate.
  - discriminate.
  - inversion H; subst. apply (render_exn _ _ _ _ E).
Qed.
Lemma located_no_exn : forall obs root m e, located obs root m <> RExn e.
Proof.
  intros obs root m e H. unfold located in H. rewrite locate_render in H.
  destruct (render false root m) as [r m' | id m' | e0] eqn:E.
  - destruct r; [discriminate|]. destruct obs; discriminate.
  - discriminate.
  - destruct (render_exn _ _ _ _ E) as [-> | ->]; [discriminate|].
    (* BadOption cannot come out of render false *)
    exfalso. clear H. revert m E. induction root as [id | rs ss IH] using node_ind'; intros m E; [discriminate|].
    rewrite render_step_any in E. destruct (dict_get_opt rs (uri_path m)); [discriminate|].
    destruct (scan ss (uri_path m) (List.length (uri_path m) - 1)) as [[c rest]|] eqn:Hscan; [|discriminate].
    destruct (scan_some _ _ _ _ _ _ Hscan) as [j [_ [Hg _]]].
    pose proof (proj1 (Forall_forall _ _) IH _ (dict_get_opt_In _ _ _ _ Hg)) as IHc. cbn [snd] in IHc. apply (IHc _ E).
Qed.

Lemma update_at_raise : forall addr f n e, update_at addr f n = Some (Raise e) -> exists s, f s = Raise e.
Proof.
  induction addr as [|k addr IH]; intros f n e H; destruct n as [rs ss | id]; try discriminate.
  - cbn [update_at] in H. destruct (f (site_of rs ss)) as [s'|e0] eqn:E; cbn [bind] in H; inversion H; subst. eauto.
  - cbn [update_at] in H. destruct (dict_get_opt ss k) as [c|]; [|discriminate].
    destruct (update_at addr f c) as [[c'|e0]|] eqn:Eu; try discriminate. inversion H; subst. apply (IH f c e Eu).
Qed.
Lemma remove_resource_raises : forall R S (s : site R S) p e, remove_resource s p = Raise e -> e = KeyError.
Proof.
  intros R S s p e H. rewrite remove_resource_spec in H. destruct (dict_get_opt (subsites s) p).
  - destruct (dict_del (subsites s) p) eqn:E; [discriminate|]. inversion H; subst. apply (dict_del_raises _ _ _ _ E).
  - destruct (dict_del (resources s) p) eqn:E; [discriminate|]. inversion H; subst. apply (dict_del_raises _ _ _ _ E).
Qed.

(* per operation: which exception it can answer with *)
Lemma step_exn : forall root o e, snd (step root o) = RExn e ->
  match o with
  | ORemove _ _ => e = KeyError
  | ORequest pipe _ _ => e = NotFound \/ (pipe = true /\ e = BadOption)
  | _ => False
  end.
Proof.
  intros root o e H. destruct o as [addr p t | addr p | pipe m q | addr | obs m | src dst p | ]; cbn [step] in H.
  - destruct (update_at addr (fun s => add_resource s p (thing_child t)) root) as [[n'|e0]|] eqn:E; cbn [apply_update snd] in H; try discriminate.
    inversion H; subst. destruct (update_at_raise _ _ _ _ E) as [s Hs]. destruct (add_resource_ok _ _ s p (thing_child t)) as [s' Hs']. congruence.
  - destruct (update_at addr (fun s => remove_resource s p) root) as [[n'|e0]|] eqn:E; cbn [apply_update snd] in H; try discriminate.
    inversion H; subst. destruct (update_at_raise _ _ _ _ E) as [s Hs]. apply (remove_resource_raises _ _ s p e Hs).
  - cbn [snd] in H. destruct (request_exn _ _ _ _ _ H) as [-> | ->]; [left; reflexivity|]. right. split; [|reflexivity].
    destruct pipe; [reflexivity|]. exfalso. unfold request in H.
    destruct (render false root m) as [r m' | id m' | e0] eqn:E.
    + destruct r as [id d | impl]; [discriminate|]. destruct (render_wkc_is_site _ _ _ _ _ E) as [ls Hls]. rewrite Hls in H.
      destruct (wkc_total ls impl q) as [r Hr]. rewrite Hr in H. discriminate.
    + discriminate.
    + inversion H; subst. apply (located_no_exn false root m BadOption). unfold located. rewrite locate_render, E. reflexivity.
  - cbn [snd] in H. destruct (site_at addr root) as [n|]; [|discriminate]. destruct (get_resources_as_linkheader n); discriminate.
  - cbn [snd] in H. apply (located_no_exn obs root m e H).
  - destruct (site_at src root) as [c|]; [|discriminate].
    destruct (update_at dst (fun s => add_resource s p (ChildSubsite c)) root) as [[n'|e0]|] eqn:E; cbn [apply_update snd] in H; try discriminate.
    inversion H; subst. destruct (update_at_raise _ _ _ _ E) as [s Hs]. rewrite add_resource_sub in Hs. discriminate.
  - cbn [snd] in H. destruct (get_resources_as_linkheader root); discriminate.
Qed.

(* run level: the i-th result of ANY history from ANY tree, if it is an exception, is the expected one for the i-th operation *)
Lemma run_exn : forall ops root, Forall2 (fun o r => forall e, r = RExn e ->
    match o with
    | ORemove _ _ => e = KeyError
    | ORequest pipe _ _ => e = NotFound \/ (pipe = true /\ e = BadOption)
    | _ => False
    end) ops (snd (run root ops)).
Proof.
  induction ops as [|o ops IH]; intro root; [constructor|].
  cbn [run]. pose proof (step_exn root o) as Hs. destruct (step root o) as [root1 x]. cbn [snd] in Hs.
  pose proof (IH root1) as Hr. destruct (run root1 ops) as [root2 xs]. cbn [snd] in *. constructor; [|exact Hr].
  intros e He. apply Hs. exact He.
Qed.
Lemma run_no_internal_error : forall ops root e, In (RExn e) (snd (run root ops)) -> expected_exn e.
Proof.
  intros ops root e Hin. pose proof (run_exn ops root) as HF. revert Hin. generalize dependent (snd (run root ops)).
  induction ops as [|o ops IH]; intros rs HF Hin; inversion HF as [|? ? ? ? Ho Hrest]; subst; [destruct Hin|].
  destruct Hin as [E | Hin]; [|apply (IH _ Hrest Hin)].
  specialize (Ho e E). unfold expected_exn. destruct o; try contradiction.
  - left. exact Ho.
  - destruct Ho as [-> | [_ ->]]; auto.
Qed.
