(* C02 — proofs. Part 4: the table invariant (every entry of outgoing_requests belongs to a live request whose
   pipe will pop exactly that entry when it ends) for all reachable states, and what follows from it. *)
From Verif Require Import Lib.Py Lib.PyLemmas Lib.Tactics Gen.tokenmanager_next_token Model.C02 Proofs.C02 Proofs.C02Once.
Open Scope Z_scope.

(* the request is waiting for its first response, or is an observation that got one *)
Definition live (c : creq) : Prop :=
  (cq_runner c = AwaitFirst /\ cq_fut c = FPending) \/
  ((exists v, cq_runner c = Observing v) /\ cq_observe c = true /\ exists rid, cq_fut c = FResult rid).
Definition entry_ok (s : st) (k : key) (q : Z) : Prop :=
  exists c, get_req s q = Some c /\ cq_cbs c = Some [CbProcess; CbInterestEnd k] /\
            snd k = (if is_multicast (cq_remote c) then None else Some (cq_remote c)) /\ live c.
Definition Inv (s : st) : Prop :=
  match outgoing s with None => True | Some og => forall k q, In (k, q) og -> entry_ok s k q end.

Lemma key_eqb_refl : forall k, key_eqb k k = true. Proof. intros. apply key_eqb_spec. reflexivity. Qed.

(* what one event does to a live request's pipe: it either ends (popping exactly its key) or stays as it was,
   observing, and the latter only for a non-final event *)
Lemma pipe_live_step : forall q c ev k c' o ks,
  cq_cbs c = Some [CbProcess; CbInterestEnd k] -> live c -> pipe_add_event q c ev = (c', o, ks) ->
  cq_remote c' = cq_remote c /\
  ((ks = [k] /\ cq_cbs c' = None) \/
   (ks = [] /\ cq_cbs c' = Some [CbProcess; CbInterestEnd k] /\ live c' /\ pev_is_last ev = false)).
Proof.
  intros q [rm ob cbs fu ru oc] ev k c' o ks Hc Hl H. cbn in Hc. subst cbs.
  unfold live in Hl. cbn in Hl.
  unfold pipe_add_event, _add_event_loop, call_cb, process, _run, _stop_interest, _end in H. cbn in H.
  destruct Hl as [[-> ->]|[[v ->] [-> [rid ->]]]].
  - destruct ob, ev as [w from l|e]; cbn in H; try destruct l; cbn in H; try destruct (w_observe w); cbn in H;
      rewrite ?key_eqb_refl in H; cbn in H; invpairs; cbn; (split; [reflexivity|]).
    all: try (left; split; reflexivity).
    right. repeat split. right. cbn. repeat split; eauto.
  - destruct oc, ev as [w from l|e]; cbn in H; try destruct l; cbn in H; try destruct (w_observe w); cbn in H;
      try destruct (is_recent v _); cbn in H;
      rewrite ?key_eqb_refl in H; cbn in H; invpairs; cbn; (split; [reflexivity|]).
    all: try (left; split; reflexivity).
    all: right; repeat split; right; cbn; repeat split; eauto.
Qed.

Lemma In_aremove : forall {V} k (x : key * V) l, In x (aremove key_eqb k l) -> In x l /\ key_eqb k (fst x) = false.
Proof.
  intros V k x. induction l as [|[k1 v1] r IH]; cbn [aremove]; [contradiction|].
  destruct (key_eqb k k1) eqn:E.
  - intros H. apply IH in H. destruct H. split; [right|]; assumption.
  - intros [<-|H]; [split; [left; reflexivity|exact E]|]. apply IH in H. destruct H. split; [right|]; assumption.
Qed.
Lemma In_fold_aremove : forall {V} ks (x : key * V) l, In x (fold_left (fun l k => aremove key_eqb k l) ks l) ->
  In x l /\ forall k, In k ks -> key_eqb k (fst x) = false.
Proof.
  intros V. induction ks as [|k r IH]; intros x l H; cbn [fold_left] in H; [split; [exact H|intros k []]|].
  apply IH in H. destruct H as [H1 H2]. apply In_aremove in H1. destruct H1 as [H1 H3].
  split; [exact H1|]. intros k' [<-|Hk]; [exact H3|apply H2; exact Hk].
Qed.
Lemma In_aset : forall {V} k (v : V) (x : key * V) l, In x (aset key_eqb k v l) -> x = (k, v) \/ In x l.
Proof.
  intros V k v x. induction l as [|[k1 v1] r IH]; cbn [aset]; [intros [<-|[]]; left; reflexivity|].
  destruct (key_eqb k k1); intros [<-|H]; auto; [right; right; exact H|right; left; reflexivity|].
  apply IH in H. destruct H; [left|right; right]; assumption.
Qed.

Lemma entry_ok_frame : forall s s' k q, get_req s' q = get_req s q -> entry_ok s k q -> entry_ok s' k q.
Proof. intros s s' k q H (c & G & R). exists c. rewrite H. split; assumption. Qed.

Lemma Inv_frame : forall s s', outgoing s' = outgoing s -> reqs s' = reqs s -> Inv s -> Inv s'.
Proof.
  intros s s' H1 H2 H. unfold Inv in *. rewrite H1. destruct (outgoing s); [|exact I].
  intros k q Hin. eapply entry_ok_frame; [|apply H; exact Hin]. unfold get_req. rewrite H2. reflexivity.
Qed.
(* removing entries keeps the invariant *)
Lemma Inv_subset : forall s og og', outgoing s = Some og -> (forall x, In x og' -> In x og) -> Inv s -> Inv (set_outgoing s (Some og')).
Proof.
  intros s og og' Hog Hsub H. unfold Inv in *. rewrite Hog in H. cbn [outgoing set_outgoing].
  intros k q Hin. eapply entry_ok_frame; [|apply H; apply Hsub; exact Hin]. reflexivity.
Qed.

Lemma add_event_inv : forall s q ev s' o, Inv s -> _add_event s q ev = (s', o) -> Inv s'.
Proof.
  intros s q ev s' o HI H. unfold _add_event in H. destruct (get_req s q) as [c|] eqn:G; [|invpairs; exact HI].
  destruct (pipe_add_event q c ev) as [[c' o'] ks] eqn:P. invpairs.
  unfold Inv in *. rewrite pop_keys_outgoing. cbn [outgoing upd_req set_reqs].
  destruct (outgoing s) as [og|]; [|exact I].
  intros k' q' Hin. apply In_fold_aremove in Hin. destruct Hin as [Hin Hks]. cbn [fst] in Hks.
  specialize (HI k' q' Hin). destruct HI as (c0 & G0 & Hcbs & Hrm & Hl).
  unfold entry_ok. rewrite get_req_pop_keys, get_req_upd.
  destruct (q' =? q) eqn:E.
  - apply Z.eqb_eq in E. subst q'. rewrite G in G0. inversion G0. subst c0.
    destruct (pipe_live_step q c ev k' c' o ks Hcbs Hl P) as [Hr [[-> _]|(-> & Hc' & Hl' & _)]].
    + specialize (Hks k' (or_introl eq_refl)). rewrite key_eqb_refl in Hks. discriminate.
    + exists c'. rewrite Hr. repeat split; assumption.
  - exists c0. repeat split; assumption.
Qed.

Lemma run_stoppers_inv : forall e qs s s' o, Inv s -> run_stoppers s qs e = (s', o) -> Inv s'.
Proof.
  intros e. induction qs as [|q rest IH]; intros s s' o HI H; cbn [run_stoppers] in H; [invpairs; exact HI|].
  destruct (add_exception s q e) as [s1 o1] eqn:A. apply add_event_inv in A; [|exact HI].
  destruct (run_stoppers s1 rest e) as [s2 o2] eqn:R. apply IH in R; [|exact A]. invpairs. exact R.
Qed.
Lemma tm_dispatch_error_inv : forall s k r s' o, Inv s -> tm_dispatch_error s k r = (s', o) -> Inv s'.
Proof.
  intros s k r s' o HI H. unfold tm_dispatch_error in H. destruct (outgoing s); [|invpairs; exact HI].
  eapply run_stoppers_inv; eauto.
Qed.
Lemma mm_dispatch_error_inv : forall s k r s' o, Inv s -> mm_dispatch_error s k r = (s', o) -> Inv s'.
Proof.
  intros s k r s' o HI H. unfold mm_dispatch_error in H. destruct (exchanges s); [|invpairs; exact HI].
  destruct (tm_dispatch_error s k r) as [s1 o1] eqn:T.
  apply tm_dispatch_error_inv in T; [|exact HI]. invpairs. eapply Inv_frame; [| |exact T]; reflexivity.
Qed.
Lemma send_via_transport_inv : forall s r w s' o, Inv s -> _send_via_transport s r w = (s', o) -> Inv s'.
Proof.
  intros s r w s' o HI H. unfold _send_via_transport in H. destruct (refuses s r); [eapply mm_dispatch_error_inv; eauto|invpairs; exact HI].
Qed.
Lemma send_initially_inv : forall s r w m s' o, Inv s -> _send_initially s r w m = (s', o) -> Inv s'.
Proof.
  intros s r w m s' o HI H. unfold _send_initially in H. eapply send_via_transport_inv; [|exact H].
  destruct (w_mtype w =? CON); [destruct m|]; try exact HI.
  destruct (add_exchange_frame s r w z) as (F1 & F2 & _). eapply Inv_frame; eauto.
Qed.
Lemma continue_loop_inv : forall r fuel s s' o x, Inv s -> _continue_backlog_loop fuel s r = (s', o, x) -> Inv s'.
Proof.
  intros r. induction fuel as [|f IH]; intros s s' o x HI H; cbn [_continue_backlog_loop] in H; [invpairs; exact HI|].
  destruct (exchanges s); [|invpairs; exact HI].
  destruct (alookup Z.eqb r (backlogs s)) as [bl|]; [|invpairs; exact HI].
  destruct (has_exchange r l); [invpairs; exact HI|].
  destruct bl as [|[w m] rest]; [invpairs; eapply Inv_frame; [| |exact HI]; reflexivity|].
  destruct (_send_initially _ r w (Some m)) as [s1 o1] eqn:S. apply send_initially_inv in S.
  2: { eapply Inv_frame; [| |exact HI]; reflexivity. }
  destruct (_continue_backlog_loop f s1 r) as [[s2 o2] x2] eqn:L. apply IH in L; [|exact S]. invpairs. exact L.
Qed.
Lemma continue_backlog_inv : forall s r s' o x, Inv s -> _continue_backlog s r = (s', o, x) -> Inv s'.
Proof.
  intros s r s' o x HI H. unfold _continue_backlog in H. destruct (alookup Z.eqb r (backlogs s)); [eapply continue_loop_inv; eauto|invpairs; exact HI].
Qed.
Lemma remove_exchange_inv : forall s r w s' o x, Inv s -> _remove_exchange s r w = (s', o, x) -> Inv s'.
Proof.
  intros s r w s' o x HI H. unfold _remove_exchange in H.
  destruct (exchanges s); [|invpairs; exact HI].
  destruct (alookup rm_eqb (r, w_mid w) l); [|invpairs; exact HI].
  destruct (if w_mtype w =? RST then _ else _) as [s2 o2] eqn:A.
  destruct (_continue_backlog s2 r) as [[s3 o3] x3] eqn:C. invpairs.
  eapply continue_backlog_inv; [|exact C].
  assert (HI1 : Inv (set_exchanges s (Some (aremove rm_eqb (r, w_mid w) l)))) by (eapply Inv_frame; [| |exact HI]; reflexivity).
  destruct (w_mtype w =? RST); [eapply add_event_inv; eauto|invpairs; exact HI1].
Qed.
Lemma process_response_inv : forall s r w b s' o, Inv s -> process_response s r w = (b, s', o) -> Inv s'.
Proof.
  intros s r w b s' o HI H. unfold process_response in H.
  destruct (outgoing s) as [og|] eqn:Hog; [|invpairs; exact HI].
  destruct (alookup key_eqb _ og); [|invpairs; exact HI].
  destruct (add_response _ z w r _) as [s2 o2] eqn:A. invpairs.
  eapply add_event_inv; [|exact A].
  destruct (negb _); [|exact HI]. eapply Inv_subset; [exact Hog| |exact HI].
  intros x Hx. apply In_aremove in Hx. apply Hx.
Qed.
Lemma dispatch_message_inv : forall s r mcl w s' o, Inv s -> dispatch_message s r mcl w = (s', o) -> Inv s'.
Proof.
  intros s r mcl w s' o HI H. unfold dispatch_message in H.
  destruct (is_request (w_code w)). { invpairs. exact HI. }
  destruct (if (w_mtype w =? ACK) || (w_mtype w =? RST) then _ else _) as [[s1 o1] x1] eqn:RE.
  assert (I1 : Inv s1).
  { destruct ((w_mtype w =? ACK) || (w_mtype w =? RST)); [eapply remove_exchange_inv; eauto|invpairs; exact HI]. }
  destruct x1. { invpairs. exact I1. }
  destruct ((w_code w =? EMPTY) && (w_mtype w =? CON)).
  { destruct (_send_initially s1 r _ None) as [s2 o2] eqn:S. apply send_initially_inv in S; [|exact I1]. invpairs. exact S. }
  destruct ((w_code w =? EMPTY) && ((w_mtype w =? ACK) || (w_mtype w =? RST))). { invpairs. exact I1. }
  destruct (is_response (w_code w) && _); [|invpairs; exact I1].
  destruct (process_response s1 r w) as [[b s2] o2] eqn:P. apply process_response_inv in P; [|exact I1].
  destruct b; [destruct (w_mtype w =? CON)|destruct ((w_mtype w =? CON) && negb mcl)];
    try (destruct (_send_initially s2 r _ None) as [s3 o3] eqn:S; apply send_initially_inv in S; [|exact P]); invpairs; assumption.
Qed.
Lemma retransmit_inv : forall s r mid s' o, Inv s -> _retransmit s r mid = (s', o) -> Inv s'.
Proof.
  intros s r mid s' o HI H. unfold _retransmit in H. destruct (exchanges s); [|invpairs; exact HI].
  destruct (alookup rm_eqb (r, mid) l); [|invpairs; exact HI].
  destruct (ex_counter e <? 4).
  - eapply send_via_transport_inv; [|exact H]. eapply Inv_frame; [| |exact HI]; reflexivity.
  - destruct (amem Z.eqb r _); [|invpairs; eapply Inv_frame; [| |exact HI]; reflexivity].
    eapply tm_dispatch_error_inv; [|exact H]. eapply Inv_frame; [| |exact HI]; reflexivity.
Qed.
Lemma shutdown_inv : forall s s' o, Inv s -> shutdown s = (s', o) -> Inv s'.
Proof.
  intros s s' o HI H. unfold shutdown in H. destruct (outgoing s); [|invpairs; exact HI].
  destruct (tm_shutdown_loop (length l) s). invpairs. exact I.
Qed.
Lemma send_message_inv : forall s r mt tok obs m s' o, Inv s -> send_message s r mt tok obs m = Ok (s', o) -> Inv s'.
Proof.
  intros s r mt tok obs m s' o HI H. unfold send_message in H.
  set (mt' := match mt with None => _ | Some _ => _ end) in H. clearbody mt'.
  destruct ((mt' =? CON) && is_multicast r); [discriminate|]. cbn [_next_message_id] in H.
  set (s1 := set_next_mid s _) in H.
  assert (I1 : Inv s1) by (eapply Inv_frame; [| |exact HI]; reflexivity). clearbody s1.
  set (w := {| w_mtype := mt' |}) in H. clearbody w.
  destruct ((mt' =? CON) && amem Z.eqb r _).
  - set (s2 := set_backlogs s1 _) in H.
    assert (I2 : Inv s2) by (eapply Inv_frame; [| |exact I1]; reflexivity). clearbody s2.
    injection H as <- <-. exact I2.
  - destruct (_send_initially s1 r w (Some m)) as [s2 o1] eqn:S. apply send_initially_inv in S; [|exact I1].
    injection H as <- <-. exact S.
Qed.

Lemma stop_interest_live : forall c k c' ks, cq_cbs c = Some [CbProcess; CbInterestEnd k] -> _stop_interest c = (c', ks) ->
  ks = [k] /\ cq_cbs c' = None.
Proof.
  intros [rm ob cbs fu ru oc] k c' ks Hc H. cbn in Hc. subst cbs. unfold _stop_interest, _end in H. cbn in H. invpairs. split; reflexivity.
Qed.

(* Context.request + TokenManager.request for a fresh request id *)
Lemma new_request_inv : forall s q r mt obs s' o, Inv s -> new_request s q r mt obs = (s', o) -> Inv s'.
Proof.
  intros s q r mt obs s' o HI H. unfold new_request in H. destruct (get_req s q) eqn:G; [invpairs; exact HI|].
  set (c0 := {| cq_remote := r |}) in H.
  assert (I0 : Inv (upd_req s q c0)).
  { unfold Inv in *. cbn [outgoing upd_req set_reqs]. destruct (outgoing s); [|exact I]. intros k' q' Hin.
    specialize (HI k' q' Hin). destruct HI as (c & Gc & R). exists c. rewrite get_req_upd.
    destruct (q' =? q) eqn:E; [apply Z.eqb_eq in E; subst; congruence|]. split; assumption. }
  assert (Hfresh : forall og k', outgoing s = Some og -> ~ In (k', q) og).
  { intros og k' Hog Hin. unfold Inv in HI. rewrite Hog in HI. destruct (HI k' q Hin) as (c & Gc & _). congruence. }
  unfold request in H. cbn [outgoing upd_req set_reqs] in H.
  destruct (outgoing s) as [og|] eqn:Hog.
  2: { eapply add_event_inv; [exact I0|exact H]. }
  change (tmst (upd_req s q c0)) with (tmst s) in H.
  destruct (next_token (tmst s)) as [[tm' tok]|e]; [|invpairs; exact I0].
  set (k := (tok, if is_multicast r then None else Some r)) in H.
  set (s1 := set_outgoing _ _) in H.
  assert (I2 : Inv (on_interest_end s1 q k)).
  { unfold on_interest_end. assert (G1 : get_req s1 q = Some c0) by (subst s1; unfold get_req; cbn; rewrite alookup_aset by exact Zeqb_spec; rewrite Z.eqb_refl; reflexivity).
    rewrite G1. cbn. unfold Inv. cbn [outgoing upd_req set_reqs]. subst s1. cbn [outgoing set_outgoing set_tmst].
    intros k' q' Hin. apply In_aset in Hin. destruct Hin as [Hin|Hin].
    - inversion Hin. subst k' q'. eexists. unfold get_req. cbn [reqs set_reqs set_outgoing set_tmst upd_req]. rewrite alookup_aset by exact Zeqb_spec. rewrite Z.eqb_refl.
      split; [reflexivity|]. cbn. repeat split. left. split; reflexivity.
    - unfold Inv in HI. rewrite Hog in HI. specialize (HI k' q' Hin). destruct HI as (c & Gc & R). exists c.
      unfold get_req in *. cbn [reqs set_reqs set_outgoing set_tmst upd_req]. rewrite !alookup_aset by exact Zeqb_spec.
      destruct (q' =? q) eqn:E; [apply Z.eqb_eq in E; subst; unfold get_req in G; congruence|]. split; assumption. }
  set (s2 := on_interest_end s1 q k) in *. clearbody s2. clear I0.
  destruct (send_message s2 r mt tok obs q) as [[s3 o3]|e] eqn:SM.
  - apply send_message_inv in SM; [|exact I2]. invpairs. exact SM.
  - destruct (add_exception s2 q e) as [s3 o3] eqn:A. apply add_event_inv in A; [|exact I2]. invpairs. exact A.
Qed.
Lemma cancel_inv : forall s q s' o, Inv s -> cancel s q = (s', o) -> Inv s'.
Proof.
  intros s q s' o HI H. unfold cancel in H. destruct (get_req s q) as [c|] eqn:G; [|invpairs; exact HI].
  destruct (cq_fut c) eqn:F; try (invpairs; exact HI).
  destruct (_stop_interest _) as [c' ks] eqn:S. invpairs.
  unfold Inv in *. rewrite pop_keys_outgoing. cbn [outgoing upd_req set_reqs].
  destruct (outgoing s) as [og|]; [|exact I].
  intros k' q' Hin. apply In_fold_aremove in Hin. destruct Hin as [Hin Hks]. cbn [fst] in Hks.
  specialize (HI k' q' Hin). destruct HI as (c0 & G0 & Hcbs & Hrm & Hl).
  unfold entry_ok. rewrite get_req_pop_keys, get_req_upd.
  destruct (q' =? q) eqn:E.
  - apply Z.eqb_eq in E. subst q'. rewrite G in G0. inversion G0. subst c0.
    apply stop_interest_live with (k := k') in S; [|exact Hcbs]. destruct S as [-> _].
    specialize (Hks k' (or_introl eq_refl)). rewrite key_eqb_refl in Hks. discriminate.
  - exists c0. repeat split; assumption.
Qed.
Lemma obs_cancel_inv : forall s q, Inv s -> Inv (obs_cancel s q).
Proof.
  intros s q HI. unfold obs_cancel. destruct (get_req s q) as [c|] eqn:G; [|exact HI].
  destruct (cq_runner c) eqn:R; try exact HI. destruct (cq_obs_cancelled c); [exact HI|].
  unfold Inv in *. cbn [outgoing upd_req set_reqs]. destruct (outgoing s); [|exact I].
  intros k' q' Hin. specialize (HI k' q' Hin). destruct HI as (c0 & G0 & Hcbs & Hrm & Hl).
  unfold entry_ok. rewrite get_req_upd. destruct (q' =? q) eqn:E; [|exists c0; repeat split; assumption].
  apply Z.eqb_eq in E. subst q'. rewrite G in G0. inversion G0. subst c0.
  eexists. split; [reflexivity|]. cbn. repeat split; assumption.
Qed.

Lemma step_inv : forall s e s' o, Inv s -> step s e = (s', o) -> Inv s'.
Proof.
  intros s e s' o HI H. destruct e; cbn [step] in H.
  - eapply new_request_inv; eauto.
  - destruct (outgoing s) eqn:Hog; [eapply dispatch_message_inv; eauto|invpairs; exact HI].
  - destruct (exchanges s); [|invpairs; exact HI].
    destruct (next_timer l None) as [[[r mid] e]|]; [|invpairs; exact HI].
    eapply retransmit_inv; [|exact H]. eapply Inv_frame; [| |exact HI]; reflexivity.
  - repeat dmatch; invpairs; try exact HI; (eapply Inv_frame; [| |exact HI]; reflexivity).
  - eapply mm_dispatch_error_inv; eauto.
  - eapply cancel_inv; eauto.
  - invpairs. apply obs_cancel_inv. exact HI.
  - invpairs. eapply Inv_frame; [| |exact HI]; reflexivity.
  - eapply shutdown_inv; eauto.
Qed.
Lemma run_inv : forall es s s' os, Inv s -> run s es = (s', os) -> Inv s'.
Proof.
  induction es as [|e r IH]; intros s s' os HI H; cbn [run] in H; [invpairs; exact HI|].
  destruct (step s e) as [s1 o] eqn:S. apply step_inv in S; [|exact HI].
  destruct (run s1 r) as [s2 os'] eqn:R. apply IH in R; [|exact S]. invpairs. exact R.
Qed.
Lemma init_inv : forall t m a, Inv (init t m a). Proof. intros t m a k q []. Qed.
(* every reachable state satisfies the invariant *)
Lemma reachable_inv : forall t m a es, Inv (fst (run (init t m a) es)).
Proof. intros. destruct (run (init t m a) es) eqn:R. eapply run_inv; [apply init_inv|exact R]. Qed.

(* ------------------------------------------------------------------ consequences *)
(* the request a response is matched to is outstanding and was sent to the endpoint the response comes from
   (or to a multicast address) *)
Lemma matched_is_outstanding_lemma : forall s og tok r q, Inv s -> outgoing s = Some og -> matching og tok r = Some q ->
  exists c, get_req s q = Some c /\ live c /\ (cq_remote c = r \/ is_multicast (cq_remote c) = true).
Proof.
  intros s og tok r q HI Hog M. unfold Inv in HI. rewrite Hog in HI. unfold matching in M.
  destruct (alookup key_eqb (tok, Some r) og) as [q1|] eqn:L1.
  - inversion M. subst q1. apply alookup_In in L1; [|exact key_eqb_spec]. destruct (HI _ _ L1) as (c & G & _ & Hr & Hl).
    exists c. split; [exact G|]. split; [exact Hl|]. cbn [snd] in Hr. destruct (is_multicast (cq_remote c)); [discriminate|]. inversion Hr. left. reflexivity.
  - apply alookup_In in M; [|exact key_eqb_spec]. destruct (HI _ _ M) as (c & G & _ & Hr & Hl).
    exists c. split; [exact G|]. split; [exact Hl|]. cbn [snd] in Hr. destruct (is_multicast (cq_remote c)); [right; reflexivity|discriminate].
Qed.
(* a request that failed, was cancelled, or (not being an observation) got its response has no entry any more:
   a later response with its token is unmatched ("unknown") *)
Definition retired (c : creq) : Prop :=
  (exists e, cq_fut c = FException e) \/ cq_fut c = FCancelled \/ (cq_observe c = false /\ cq_fut c <> FPending).
Lemma retired_not_in_table_lemma : forall s og q c k, Inv s -> outgoing s = Some og -> get_req s q = Some c -> retired c -> ~ In (k, q) og.
Proof.
  intros s og q c k HI Hog G R Hin. unfold Inv in HI. rewrite Hog in HI. destruct (HI _ _ Hin) as (c0 & G0 & _ & _ & Hl).
  rewrite G in G0. inversion G0. subst c0. unfold retired in R. unfold live in Hl.
  destruct Hl as [[_ Hp]|(_ & Ho & rid & Hf)], R as [[e R]|[R|[R1 R2]]]; congruence.
Qed.
Lemma retired_unmatched_lemma : forall s og q c tok r, Inv s -> outgoing s = Some og -> get_req s q = Some c -> retired c ->
  matching og tok r <> Some q.
Proof.
  intros s og q c tok r HI Hog G R M. unfold matching in M.
  destruct (alookup key_eqb (tok, Some r) og) as [q1|] eqn:L1.
  - inversion M. subst. apply alookup_In in L1; [|exact key_eqb_spec]. eapply retired_not_in_table_lemma; eauto.
  - apply alookup_In in M; [|exact key_eqb_spec]. eapply retired_not_in_table_lemma; eauto.
Qed.

(* ---- a transport error fails every outstanding request of that remote *)
Lemma add_event_other : forall s q ev s' o q', q' <> q -> _add_event s q ev = (s', o) -> get_req s' q' = get_req s q'.
Proof.
  intros s q ev s' o q' Hne H. unfold _add_event in H. destruct (get_req s q); [|invpairs; reflexivity].
  destruct (pipe_add_event q c ev) as [[c' o'] ks]. invpairs. rewrite get_req_pop_keys, get_req_upd.
  replace (q' =? q) with false by (symmetry; apply Z.eqb_neq; exact Hne). reflexivity.
Qed.
Lemma add_exception_awaiting : forall s q e c rest, get_req s q = Some c -> cq_cbs c = Some (CbProcess :: rest) ->
  cq_runner c = AwaitFirst -> cq_fut c = FPending -> In (SetException q e) (snd (add_exception s q e)).
Proof.
  intros s q e [rm ob cbs fu ru oc] rest G Hc Hr Hf. cbn in Hc, Hr, Hf. subst.
  unfold add_exception, _add_event. rewrite G. unfold pipe_add_event. cbn [cq_cbs].
  cbn [_add_event_loop call_cb]. unfold process, _run. cbn [cq_runner cq_fut cq_observe pev_is_last negb].
  destruct ob; cbn.
  all: match goal with |- context [_add_event_loop ?q0 ?c ?rs ?ev] => destruct (_add_event_loop q0 c rs ev) as [[[c2 o2] k2] e2] end.
  all: destruct e2; cbn; [left; reflexivity|].
  all: destruct (cq_cbs c2); [destruct (_any_interest l)|]; cbn; try (left; reflexivity).
  all: destruct (_end c2); cbn; left; reflexivity.
Qed.
Lemma run_stoppers_delivers : forall e q qs s c rest, In q qs -> get_req s q = Some c -> cq_cbs c = Some (CbProcess :: rest) ->
  cq_runner c = AwaitFirst -> cq_fut c = FPending -> In (SetException q e) (snd (run_stoppers s qs e)).
Proof.
  intros e q. induction qs as [|q0 qs IH]; intros s c rest Hin G Hc Hr Hf; [contradiction|].
  cbn [run_stoppers]. destruct (add_exception s q0 e) as [s1 o1] eqn:A.
  destruct (run_stoppers s1 qs e) as [s2 o2] eqn:R. cbn [snd]. apply in_or_app.
  destruct (Z.eq_dec q0 q) as [->|Hne].
  - left. pose proof (add_exception_awaiting s q e c rest G Hc Hr Hf) as H. rewrite A in H. exact H.
  - right. destruct Hin as [Hin|Hin]; [contradiction|].
    assert (G1 : get_req s1 q = Some c). { rewrite <- G. eapply add_event_other; [|exact A]. congruence. }
    specialize (IH s1 c rest Hin G1 Hc Hr Hf). rewrite R in IH. exact IH.
Qed.
Lemma collect_stoppers_ok : forall r og tok q, In ((tok, Some r), q) og -> In q (collect_stoppers r og).
Proof.
  intros r. induction og as [|[[tok0 [r'|]] q0] rest IH]; intros tok q Hin; [contradiction| |].
  - cbn [collect_stoppers]. destruct Hin as [Hin|Hin].
    + inversion Hin. subst. rewrite Z.eqb_refl. left. reflexivity.
    + destruct (r' =? r); [right|]; eapply IH; eauto.
  - cbn [collect_stoppers]. destruct Hin as [Hin|Hin]; [discriminate|]. eapply IH; eauto.
Qed.
(* unconditional: entries of multicast requests, keyed (token, None), are simply skipped *)
Lemma transport_error_fails_lemma : forall s og r kind tok q c, Inv s -> outgoing s = Some og -> exchanges s <> None ->
  In ((tok, Some r), q) og -> get_req s q = Some c -> cq_fut c = FPending ->
  In (SetException q (wrap_error kind)) (snd (mm_dispatch_error s kind r)).
Proof.
  intros s og r kind tok q c HI Hog Hex Hin G Hf.
  unfold mm_dispatch_error. destruct (exchanges s); [|contradiction]. unfold tm_dispatch_error. rewrite Hog.
  unfold Inv in HI. rewrite Hog in HI. destruct (HI _ _ Hin) as (c0 & G0 & Hc & _ & Hl). rewrite G in G0. inversion G0. subst c0.
  destruct Hl as [[Hr _]|(_ & _ & rid & Hx)]; [|congruence].
  pose proof (run_stoppers_delivers (wrap_error kind) q _ s c _ (collect_stoppers_ok r og _ _ Hin) G Hc Hr Hf) as H.
  destruct (run_stoppers s (collect_stoppers r og) (wrap_error kind)) as [s1 o1]. exact H.
Qed.
(* the give-up of a CON exchange is the same dispatch with ConRetransmitsExceeded *)
Lemma giveup_fails_lemma : forall s og r tok q c, Inv s -> outgoing s = Some og ->
  In ((tok, Some r), q) og -> get_req s q = Some c -> cq_fut c = FPending ->
  In (SetException q ConRetransmitsExceeded) (snd (tm_dispatch_error s (ENet ConRetransmitsExceeded) r)).
Proof.
  intros s og r tok q c HI Hog Hin G Hf. unfold tm_dispatch_error. rewrite Hog.
  unfold Inv in HI. rewrite Hog in HI. destruct (HI _ _ Hin) as (c0 & G0 & Hc & _ & Hl). rewrite G in G0. inversion G0. subst c0.
  destruct Hl as [[Hr _]|(_ & _ & rid & Hx)]; [|congruence].
  exact (run_stoppers_delivers ConRetransmitsExceeded q _ s c _ (collect_stoppers_ok r og _ _ Hin) G Hc Hr Hf).
Qed.

(* ---- shutdown fails every outstanding request that is still waiting for its response *)
Lemma length_aremove : forall {V} k (l : list (key * V)), (length (aremove key_eqb k l) <= length l)%nat.
Proof. intros V k. induction l as [|[k1 v1] r IH]; cbn [aremove length]; [lia|]. destruct (key_eqb k k1); cbn [length]; lia. Qed.
Lemma add_event_last_live : forall s q ev c k og s' o, get_req s q = Some c -> cq_cbs c = Some [CbProcess; CbInterestEnd k] -> live c ->
  pev_is_last ev = true -> outgoing s = Some og -> _add_event s q ev = (s', o) -> outgoing s' = Some (aremove key_eqb k og).
Proof.
  intros s q ev c k og s' o G Hc Hl Hlast Hog H. unfold _add_event in H. rewrite G in H.
  destruct (pipe_add_event q c ev) as [[c' o'] ks] eqn:P. invpairs.
  destruct (pipe_live_step q c ev k c' o ks Hc Hl P) as [_ [[-> _]|(_ & _ & _ & Hx)]]; [|congruence].
  rewrite pop_keys_outgoing. cbn [outgoing upd_req set_reqs]. rewrite Hog. reflexivity.
Qed.
Lemma shutdown_loop_delivers : forall fuel s og k q c,
  Inv s -> outgoing s = Some og -> (length og <= fuel)%nat -> alookup key_eqb k og = Some q ->
  get_req s q = Some c -> cq_fut c = FPending ->
  In (SetException q LibraryShutdown) (snd (tm_shutdown_loop fuel s)).
Proof.
  induction fuel as [|f IH]; intros s og k q c HI Hog Hlen L G Hf.
  - destruct og; [discriminate|cbn in Hlen; lia].
  - cbn [tm_shutdown_loop]. rewrite Hog. destruct og as [|[k0 q0] rest]; [discriminate|].
    set (s0 := set_outgoing s (Some rest)).
    destruct (add_exception s0 q0 LibraryShutdown) as [s1 o1] eqn:A.
    destruct (tm_shutdown_loop f s1) as [s2 o2] eqn:R. cbn [snd]. apply in_or_app.
    assert (E0 : entry_ok s k0 q0). { unfold Inv in HI. rewrite Hog in HI. apply HI. left. reflexivity. }
    destruct E0 as (c0 & G0 & Hc0 & _ & Hl0).
    cbn [alookup] in L. destruct (key_eqb k k0) eqn:E.
    + inversion L. subst q0. left. rewrite G in G0. inversion G0. subst c0.
      destruct Hl0 as [[Hr _]|(_ & _ & rid & Hx)]; [|congruence].
      pose proof (add_exception_awaiting s0 q LibraryShutdown c _ G Hc0 Hr Hf) as H. rewrite A in H. exact H.
    + right.
      assert (I0 : Inv s0). { eapply Inv_subset; [exact Hog| |exact HI]. intros x Hx. right. exact Hx. }
      assert (I1 : Inv s1) by (eapply add_event_inv; [exact I0|exact A]).
      assert (Hog1 : outgoing s1 = Some (aremove key_eqb k0 rest)).
      { eapply (add_event_last_live s0 q0 (PException LibraryShutdown) c0 k0 rest); [exact G0|exact Hc0|exact Hl0|reflexivity|reflexivity|exact A]. }
      assert (Hne : q <> q0).
      { intros ->. apply alookup_In in L; [|exact key_eqb_spec].
        unfold Inv in HI. rewrite Hog in HI. destruct (HI k q0 (or_intror L)) as (c1 & G1 & Hc1 & _).
        rewrite G0 in G1. inversion G1. subst c1. rewrite Hc0 in Hc1. inversion Hc1. subst k0. rewrite key_eqb_refl in E. discriminate. }
      assert (G1 : get_req s1 q = Some c). { replace (Some c) with (get_req s0 q) by exact G. eapply add_event_other; [exact Hne|exact A]. }
      specialize (IH s1 _ k q c I1 Hog1).
      assert (Hl : (length (aremove key_eqb k0 rest) <= f)%nat). { pose proof (length_aremove k0 rest). cbn in Hlen. lia. }
      assert (L1 : alookup key_eqb k (aremove key_eqb k0 rest) = Some q). { rewrite alookup_aremove by exact key_eqb_spec. rewrite E. exact L. }
      specialize (IH Hl L1 G1 Hf). rewrite R in IH. exact IH.
Qed.
Lemma shutdown_fails_lemma : forall s og k q c, Inv s -> outgoing s = Some og -> alookup key_eqb k og = Some q ->
  get_req s q = Some c -> cq_fut c = FPending ->
  In (SetException q LibraryShutdown) (snd (shutdown s)) /\ outgoing (fst (shutdown s)) = None /\ exchanges (fst (shutdown s)) = None.
Proof.
  intros s og k q c HI Hog L G Hf. unfold shutdown. rewrite Hog.
  pose proof (shutdown_loop_delivers (length og) s og k q c HI Hog (le_n _) L G Hf) as H.
  destruct (tm_shutdown_loop (length og) s) as [s1 o1]. cbn. repeat split. exact H.
Qed.
(* a request issued after shutdown fails at once *)
Lemma request_after_shutdown_lemma : forall s q r mt obs, outgoing s = None -> get_req s q = None ->
  In (SetException q LibraryShutdown) (snd (new_request s q r mt obs)).
Proof.
  intros s q r mt obs Hog G. unfold new_request. rewrite G. unfold request. cbn [outgoing upd_req set_reqs]. rewrite Hog.
  unfold add_exception, _add_event. rewrite get_req_upd, Z.eqb_refl. destruct obs; cbn; left; reflexivity.
Qed.

(* ---- tokens of any two calls of next_token fewer than 2^64 apart differ (requests outstanding together are
   necessarily that close unless 2^64 requests were issued in between) *)
Lemma tokens_of_calls_distinct_lemma : forall t i j, 0 <= tm_token t < 2 ^ 64 -> (i < j)%nat -> Z.of_nat j - Z.of_nat i < 2 ^ 64 ->
  tokbytes (tm_token (next_token_n i t)) <> tokbytes (tm_token (next_token_n j t)).
Proof.
  intros t i j Ht Hij Hd E. rewrite !next_token_n_val in E by exact Ht.
  apply token_injective_lemma in E; try (apply Z.mod_pos_bound; reflexivity).
  change (2 ^ 64) with 18446744073709551616 in *. lia.
Qed.

(* ---- a request whose first transmission the transport refuses synchronously: the error is reported from INSIDE
   send_message (send -> dispatch_error -> fan-out); because TokenManager.request registered the request BEFORE handing
   it to send_message, the fan-out finds it and fails it in the very step in which it was issued *)
Definition eff_mtype (mt : option Z) : Z := match mt with None => CON | Some m => m end.
Lemma In_aset_same : forall {V} k (v : V) l, In (k, v) (aset key_eqb k v l).
Proof.
  intros V k v. induction l as [|[k1 v1] r IH]; cbn [aset]; [left; reflexivity|].
  destruct (key_eqb k k1); [left; reflexivity|right; exact IH].
Qed.
Lemma send_message_refused : forall s r mt tok obs m og tok' q c,
  Inv s -> outgoing s = Some og -> exchanges s <> None -> refuses s r = true -> is_multicast r = false ->
  (eff_mtype mt = CON -> amem Z.eqb r (backlogs s) = false) ->
  In ((tok', Some r), q) og -> get_req s q = Some c -> cq_fut c = FPending ->
  exists s' o, send_message s r mt tok obs m = Ok (s', o) /\ In (SetException q NetworkError) o.
Proof.
  intros s r mt tok obs m og tok' q c HI Hog Hex Hr Hmc Hbl Hin G Hf. unfold send_message.
  destruct (exchanges s) as [ex|] eqn:Eex; [|contradiction]. rewrite Hmc.
  assert (Emt : (match mt with None => CON | Some m0 => m0 end) = eff_mtype mt) by (destruct mt; reflexivity).
  rewrite Emt. rewrite andb_false_r. cbn [_next_message_id].
  set (s1 := set_next_mid s _).
  assert (Hbl1 : (eff_mtype mt =? CON) && amem Z.eqb r (backlogs s1) = false).
  { destruct (eff_mtype mt =? CON) eqn:E; [|reflexivity]. apply Z.eqb_eq in E. cbn. apply Hbl. exact E. }
  rewrite Hbl1. set (w := {| w_mtype := eff_mtype mt |}).
  unfold _send_initially, _send_via_transport.
  set (s2 := if w_mtype w =? CON then _ else s1).
  assert (F : outgoing s2 = Some og /\ reqs s2 = reqs s /\ refusing s2 = refusing s /\ exchanges s2 <> None).
  { subst s2. destruct (w_mtype w =? CON).
    - destruct (add_exchange_frame s1 r w m) as (F1 & F2 & _ & F4). rewrite F1, F2, F4. repeat split; try assumption.
      unfold _add_exchange. destruct (amem Z.eqb r (backlogs s1)); cbn; rewrite Eex; discriminate.
    - repeat split; try assumption. cbn. rewrite Eex. discriminate. }
  destruct F as (F1 & F2 & F3 & F4).
  assert (I2 : Inv s2). { unfold Inv in *. rewrite F1. rewrite Hog in HI. intros k0 q0 H0. eapply entry_ok_frame; [|apply HI; exact H0]. unfold get_req. rewrite F2. reflexivity. }
  clearbody s2. replace (refuses s2 r) with true by (unfold refuses in *; rewrite F3; symmetry; exact Hr).
  assert (G2 : get_req s2 q = Some c) by (unfold get_req in *; rewrite F2; exact G).
  pose proof (transport_error_fails_lemma s2 og r EOs tok' q c I2 F1 F4 Hin G2 Hf) as H.
  destruct (mm_dispatch_error s2 EOs r) as [s3 o3]. eexists. eexists. split; [reflexivity|exact H].
Qed.
Lemma refused_request_fails_lemma : forall s q r mt obs og,
  Inv s -> get_req s q = None -> outgoing s = Some og -> exchanges s <> None ->
  refuses s r = true -> is_multicast r = false ->
  (eff_mtype mt = CON -> amem Z.eqb r (backlogs s) = false) ->
  In (SetException q NetworkError) (snd (new_request s q r mt obs)).
Proof.
  intros s q r mt obs og HI G Hog Hex Hr Hmc Hbl.
  pose proof (new_request_inv s q r mt obs) as NI.
  unfold new_request in *. rewrite G in *. set (c0 := {| cq_remote := r |}) in *.
  unfold request in *. cbn [outgoing upd_req set_reqs] in *. rewrite Hog in *.
  change (tmst (upd_req s q c0)) with (tmst s) in *. rewrite next_token_spec in *.
  set (tok := tokbytes _) in *. rewrite Hmc in *. set (k := (tok, Some r)) in *.
  set (s1 := set_outgoing _ _) in *.
  assert (G1 : get_req s1 q = Some c0) by (subst s1; unfold get_req; cbn; rewrite alookup_aset by exact Zeqb_spec; rewrite Z.eqb_refl; reflexivity).
  unfold on_interest_end in *. rewrite G1 in *. cbn [pipe_on_interest_end cq_cbs c0 _any_interest existsb is_interest orb pop_keys] in *.
  set (c1 := set_cbs c0 _) in *. set (s2 := upd_req s1 q c1) in *.
  assert (I2 : Inv s2).
  { unfold Inv. subst s2 s1. cbn [outgoing upd_req set_reqs set_outgoing set_tmst].
    intros k' q' Hin. apply In_aset in Hin. destruct Hin as [Hin|Hin].
    - inversion Hin. subst k' q'. exists c1. unfold get_req. cbn [reqs set_reqs set_outgoing set_tmst upd_req].
      rewrite alookup_aset by exact Zeqb_spec. rewrite Z.eqb_refl. split; [reflexivity|]. cbn. rewrite Hmc. repeat split. left. split; reflexivity.
    - unfold Inv in HI. rewrite Hog in HI. specialize (HI k' q' Hin). destruct HI as (c & Gc & R). exists c.
      unfold get_req in *. cbn [reqs set_reqs set_outgoing set_tmst upd_req]. rewrite !alookup_aset by exact Zeqb_spec.
      destruct (q' =? q) eqn:E; [apply Z.eqb_eq in E; subst; congruence|]. split; assumption. }
  assert (S2 : outgoing s2 = Some (aset key_eqb k q og) /\ exchanges s2 = exchanges s /\ backlogs s2 = backlogs s /\ refusing s2 = refusing s) by (repeat split).
  destruct S2 as (O2 & E2 & B2 & R2).
  assert (G2 : get_req s2 q = Some c1) by (subst s2; rewrite get_req_upd, Z.eqb_refl; reflexivity).
  clearbody s2.
  destruct (send_message_refused s2 r mt tok obs q (aset key_eqb k q og) tok q c1 I2 O2) as (s3 & o3 & SM & Hin).
  - rewrite E2. exact Hex.
  - unfold refuses in *. rewrite R2. exact Hr.
  - exact Hmc.
  - rewrite B2. exact Hbl.
  - apply In_aset_same.
  - exact G2.
  - reflexivity.
  - rewrite SM. cbn [snd]. right. exact Hin.
Qed.
