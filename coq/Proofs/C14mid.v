(* C14 — tie T for the message-ID counter: Model/C14.next_message_id is the code of
   MessageManager._next_message_id (translated from source on every run), and the counter does not repeat
   an ID within 65536 allocations. *)
From Verif Require Import Lib.Py Lib.Tactics Gen.c14_message_id Model.C14.
Import ListNotations.
Open Scope Z_scope.

Theorem next_message_id_is_source : forall s,
  Gen.c14_message_id.next_message_id {| mmids_message_id := message_id s |} =
  Ok ({| mmids_message_id := message_id (snd (Model.C14.next_message_id s)) |}, fst (Model.C14.next_message_id s)).
Proof. reflexivity. Qed.

Lemma land_ffff x : Z.land 65535 x = x mod 65536.
Proof. rewrite Z.land_comm. change 65535 with (Z.ones 16). rewrite Z.land_ones by lia. reflexivity. Qed.

(* the k-th ID after [m] *)
Fixpoint nth_id (k : nat) (m : Z) : Z := match k with O => m | S k => nth_id k (Z.land 65535 (1 + m)) end.

Lemma nth_id_mod k : forall m, 0 <= m < 65536 -> nth_id k m = (m + Z.of_nat k) mod 65536.
Proof. induction k as [|k IH]; intros m Hm.
  - cbn. rewrite Z.add_0_r, Z.mod_small by lia. reflexivity.
  - cbn [nth_id]. rewrite land_ffff. rewrite IH by (apply Z.mod_pos_bound; lia).
    rewrite Zplus_mod_idemp_l. f_equal. lia. Qed.

Theorem ids_distinct_within_65536 : forall m j k, 0 <= m < 65536 -> Z.of_nat j < Z.of_nat k < Z.of_nat j + 65536 ->
  nth_id j m <> nth_id k m.
Proof. intros m j k Hm Hjk. rewrite !nth_id_mod by assumption. intros H.
  assert (Hd : (Z.of_nat k - Z.of_nat j) mod 65536 = 0).
  { replace (Z.of_nat k - Z.of_nat j) with ((m + Z.of_nat k) - (m + Z.of_nat j)) by lia. rewrite Zminus_mod, H, Z.sub_diag. reflexivity. }
  rewrite Z.mod_small in Hd by lia. lia. Qed.

Theorem next_id_in_range : forall m, 0 <= Z.land 65535 (1 + m) < 65536.
Proof. intros m. rewrite land_ffff. apply Z.mod_pos_bound. lia. Qed.
