(* C07 — BlockwiseRequest's observation (Model/C07Blockwise.v): what holds for every history, and the three places
   where the property text fails on the faithful model (witnesses replayed on the implementation by the bw stream). *)
From Verif Require Import Lib.Py Lib.Tactics Gen.protocol_is_recent Model.C07 Model.C07Stack Model.C07Iter Model.C07Blockwise Proofs.C07Serial Proofs.C07 Proofs.C07Iter.
Open Scope Z_scope.

Definition outer_obs (l : list bout) : list bout := filter is_obs l.

(* the outer observation has been told its end, the observation task is over or was never started, and the only work
   that may still be pending is the Block2 completion of a non-observable first response *)
Definition dead (b : bw) : Prop :=
  b_outer_live b = false /\ b_first_done b = true
  /\ (b_cons b = CDone \/ b_cons b = CNotStarted)
  /\ (b_fetch b = FNone \/ exists id n, b_fetch b = FFirst id n false).

Lemma filter_app' {A} (f : A -> bool) a b : filter f (a ++ b) = filter f a ++ filter f b.
Proof. induction a as [|x a IH]; cbn; auto. destruct (f x); cbn; congruence. Qed.

Lemma obs_of_resp l : filter is_obs (filter is_resp l) = [].
Proof. induction l as [|x l IH]; auto; destruct x; cbn; auto. Qed.
Lemma obs_of_req l : filter is_obs (filter is_req l) = [].
Proof. induction l as [|x l IH]; auto; destruct x; cbn; auto. Qed.
Lemma obs_of_wire l : filter is_obs (filter is_wire l) = [].
Proof. induction l as [|x l IH]; auto; destruct x; cbn; auto. Qed.
Lemma obs_of_obs l : filter is_obs (filter is_obs l) = filter is_obs l.
Proof. induction l as [|x l IH]; auto; destruct x; cbn; auto; rewrite IH; reflexivity. Qed.
Lemma outer_obs_canon l : outer_obs (canon l) = outer_obs l.
Proof.
  unfold canon, outer_obs. rewrite !filter_app', obs_of_resp, obs_of_req, obs_of_wire, obs_of_obs, app_nil_r. reflexivity.
Qed.

Lemma lower_wires_obs outs : outer_obs (lower_wires outs) = [].
Proof. induction outs as [|[o|t] outs IH]; cbn; auto. Qed.

Lemma lower_pushes_idle outs c : (c = CDone \/ c = CNotStarted) -> lower_pushes outs c = c.
Proof.
  intros H. induction outs as [|x outs IH]; [reflexivity|]. cbn [lower_pushes].
  destruct H as [-> | ->]; repeat match goal with |- context [match ?t with _ => _ end] => destruct t; try exact IH end.
Qed.

Lemma consumer_run_idle fuel now b : (b_cons b = CDone \/ b_cons b = CNotStarted) -> consumer_run fuel now b = (b, []).
Proof. intros H. destruct fuel; [reflexivity|]. cbn [consumer_run]. destruct H as [-> | ->]; reflexivity. Qed.

Lemma ack_obs (mt : mtype) : outer_obs (match mt with CON => [BWire ACK] | _ => [] end) = [].
Proof. destruct mt; reflexivity. Qed.

(* once dead, always dead, and the outer observation hears nothing more — whatever arrives, in whatever order *)
Lemma bstep_dead b o : dead b -> dead (fst (bstep b o)) /\ outer_obs (snd (bstep b o)) = [].
Proof.
  intros (Hl & Hf & Hc & Hfe). destruct o as [now mt id observe bl|now mt id bl etag|now|now]; cbn [bstep].
  - destruct (sstep _ _) as [k' outs]. cbn [b_cons b_fetch b_outer_live b_k b_info b_first_done set_fc set_k].
    rewrite (lower_pushes_idle outs (b_cons b) Hc), Hf.
    rewrite consumer_run_idle by exact Hc. cbn [fst snd app].
    split; [unfold dead; cbn; auto|]. rewrite outer_obs_canon. apply lower_wires_obs.
  - destruct Hfe as [Hfe | (fid & n & Hfe)]; rewrite Hfe.
    + cbn [fst snd]. split; [unfold dead; auto 10|]. destruct mt; reflexivity.
    + destruct (complete_next fid n _) as [[id' n']|[e|]].
      * cbn [set_fc]. rewrite consumer_run_idle by exact Hc. cbn [fst snd].
        split; [unfold dead; cbn; auto|]. rewrite outer_obs_canon. cbn [app outer_obs filter is_obs]. apply ack_obs.
      * unfold fetch_failed. rewrite Hfe, Hl. cbn [fst snd app].
        split; [unfold dead; cbn; auto|]. rewrite outer_obs_canon. cbn [app outer_obs filter is_obs]. apply ack_obs.
      * cbn [fst snd]. split; [unfold dead; cbn; eauto 10|]. rewrite outer_obs_canon. cbn [app outer_obs filter is_obs]. apply ack_obs.
  - destruct (sstep _ _) as [k' outs]. cbn [b_cons b_fetch b_outer_live b_k b_info b_first_done set_fc set_k].
    rewrite (lower_pushes_idle outs (b_cons b) Hc), Hf. unfold fetch_failed. cbn [b_fetch set_fc set_k b_outer_live].
    destruct Hfe as [Hfe | (fid & n & Hfe)]; rewrite Hfe.
    + rewrite consumer_run_idle by exact Hc. cbn [fst snd app]. split; [unfold dead; cbn; auto|]. reflexivity.
    + rewrite Hl. rewrite consumer_run_idle by (cbn; auto). cbn [fst snd app]. split; [unfold dead; cbn; auto|]. reflexivity.
  - destruct (sstep _ _) as [k' outs]. rewrite consumer_run_idle by exact Hc. cbn [fst snd]. split; [unfold dead; cbn; auto|]. reflexivity.
Qed.

Fixpoint brun_outs (b : bw) (ops : list bop) : list bout :=
  match ops with [] => [] | o :: r => snd (bstep b o) ++ brun_outs (fst (bstep b o)) r end.

Theorem bw_silent_after_end : forall ops b, dead b -> outer_obs (brun_outs b ops) = [].
Proof.
  induction ops as [|o ops IH]; intros b D; [reflexivity|].
  cbn [brun_outs]. destruct (bstep_dead b o D) as [D' E]. unfold outer_obs in *. rewrite filter_app', E. apply IH. exact D'.
Qed.

(* one run of the observation task hands over zero or more notifications and then at most one end signal, after which
   the task is over *)
Ltac trivial_shape := solve [exists nil, nil; cbn; split; [reflexivity|split; [constructor|left; reflexivity]]].
Lemma consumer_run_shape : forall fuel now b,
  exists cbs tail, outer_obs (snd (consumer_run fuel now b)) = cbs ++ tail
    /\ Forall (fun o => match o with BCb _ _ => True | _ => False end) cbs
    /\ (tail = [] \/ exists e, tail = [BEb e] /\ (b_first_done b = true -> dead (fst (consumer_run fuel now b)))).
Proof.
  induction fuel as [|fuel IH]; intros now b; [trivial_shape|].
  cbn [consumer_run]. destruct (b_cons b) as [|g|]; try trivial_shape.
  destruct (b_fetch b); try trivial_shape.
  destruct (match g with GBusy _ => gpull g | _ => gwake g end) as [g' ys].
  destruct ys as [|[id|e] ys]; [trivial_shape| |].
  - destruct (complete_start (lookup (b_info b) id)) as [| |e].
    + specialize (IH now (set_fc b FNone (CRunning g') (b_outer_live b))).
      destruct (consumer_run fuel now _) as [b' o]. cbn [fst snd] in *.
      destruct IH as (cbs & tail & E & F & T). exists (BCb id 1 :: cbs), tail. unfold outer_obs in *. cbn [filter is_obs]. rewrite E.
      split; [reflexivity|]. split; [constructor; auto|exact T].
    + trivial_shape.
    + exists nil, [BEb e]. cbn [fst snd outer_obs filter is_obs app]. split; [reflexivity|]. split; [constructor|]. right. exists e. split; [reflexivity|].
      intros Hf. unfold cancel_lower. destruct (cancelled _); unfold dead; cbn; auto.
  - exists nil, [BEb (end_signal e)]. cbn [fst snd outer_obs filter is_obs app]. split; [reflexivity|]. split; [constructor|]. right. eexists. split; [reflexivity|].
    intros Hf. unfold cancel_lower. destruct (cancelled _); unfold dead; cbn; auto.
Qed.

(* a body is handed over only when its blocks were contiguous, of the announced size and of one representation *)
Theorem assembly_exact : forall id n r id' n', complete_next id n r = inl (id', n') ->
  (r_blk r = BNone /\ id' = r_id r /\ n' = 1)
  \/ (exists more, r_blk r = BBlock n false true /\ more = false /\ r_etag_ok r = true /\ id' = id /\ n' = n + 1).
Proof.
  intros id n r id' n' H. unfold complete_next in H. destruct (r_blk r) as [|num more ok] eqn:Eb.
  - inversion H; subst. auto.
  - destruct ok; cbn [negb] in H; [|discriminate]. destruct (num =? n) eqn:En; cbn [negb] in H; [|discriminate].
    destruct (r_etag_ok r) eqn:Ee; cbn [negb] in H; [|discriminate]. destruct more; [discriminate|]. inversion H; subst.
    right. exists false. apply Z.eqb_eq in En. subst. auto.
Qed.

(* ------------------------------------------------------------------ where the property text fails (open findings) *)
(* A: the final response arrives while the observation task completes a Block2 transfer: it is never handed over *)
Definition final_while_busy : list bop :=
  [ BMain 1 NON 0 (Some 5) BNone; BMain 2 NON 1 (Some 6) (BBlock 0 true true); BMain 3 NON 2 None BNone;
    BSub 4 NON 3 (BBlock 1 false true) true; BDrain 5 ].
Theorem final_response_always_delivered_refuted :
  fst (brun (bw0 128000000 0) final_while_busy) = [[BResp 0 1]; [BReq 1]; []; [BCb 1 2; BEb ObservationCancelled]; []].
Proof. vm_compute. reflexivity. Qed.

(* B: the first response's Block2 completion fails: the token stays registered and notifications are ACKed for good *)
Definition first_fetch_fails : list bop :=
  [ BMain 1 NON 0 (Some 5) (BBlock 0 true true); BSub 2 NON 1 (BBlock 1 false true) false;
    BMain 3 CON 2 (Some 6) BNone; BMain 4 CON 3 (Some 7) BNone ].
Theorem token_released_at_end_refuted :
  brun (bw0 128000000 0) first_fetch_fails
  = ([[BReq 1]; [BRespExn ResourceChanged; BEb ResourceChanged]; [BWire ACK]; [BWire ACK]], 1).
Proof. vm_compute. reflexivity. Qed.

(* C: a notification's Block2 completion fails: the token is released only by the next notification, which is ACKed *)
Definition notif_fetch_fails : list bop :=
  [ BMain 1 NON 0 (Some 5) BNone; BMain 2 NON 1 (Some 6) (BBlock 0 true true); BSub 3 NON 2 (BBlock 1 false true) false;
    BMain 4 CON 3 (Some 7) BNone; BMain 5 CON 4 (Some 8) BNone ].
Theorem later_notifications_rejected_refuted :
  brun (bw0 128000000 0) notif_fetch_fails
  = ([[BResp 0 1]; [BReq 1]; [BEb ResourceChanged]; [BWire ACK]; [BWire RST]], 0).
Proof. vm_compute. reflexivity. Qed.
