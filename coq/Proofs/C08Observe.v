(* C08 — Observe numbering and token of notifications, at the level of the render task's code (partial: see Props/C08.v). *)
From Verif Require Import Lib.Py Lib.Tactics Model.C08 Proofs.C08.
Open Scope Z_scope.

(* whatever on_event hands to the message layer carries the registration's token and endpoint, the given Observe value,
   and is recorded (in order) in the ghost production list *)
Lemma emit_spec s g code o pk pv :
  exists m, s_prod (emit s g code o pk pv) = m :: s_prod s /\
            m_token m = g_token g /\ m_remote m = g_remote g /\ m_observe m = o /\ m_gid m = g_gid g /\ m_code m = code /\ m_pk m = pk /\ m_pv m = pv.
Proof.
  unfold emit, send_message. cbn [m_remote m_token].
  assert (P : forall s0 m x rt, s_prod (send_initially s0 m x rt) = s_prod s0).
  { intros. unfold send_initially, store_response_for_duplicates, add_exchange, add_timer. destruct (m_mtype m); reflexivity. }
  destruct (piggy_find s (g_remote g) (g_token g)) as [mid|].
  - eexists. rewrite P. fsimpl. split; [reflexivity|]. cbn. repeat split; reflexivity.
  - destruct (if s_down s then NON else if g_con g then CON else NON); try (eexists; rewrite P; fsimpl; split; [reflexivity | cbn; repeat split; reflexivity]).
    destruct (has_exchange _ _); [|eexists; rewrite P; fsimpl; split; [reflexivity | cbn; repeat split; reflexivity]].
    eexists. fsimpl. split; [reflexivity | cbn; repeat split; reflexivity].
Qed.

(* the first response of an accepted registration carries Observe 0 and the loop starts with next_observation_number = 0 *)
Lemma first_response_observe_zero s g code pk pv : successful code = true ->
  first_render_done s g (RResp code pk pv) = run_loop 2 (emit s (set_next g 0) code (Some 0) pk pv) (set_next g 0).
Proof. intros H. unfold first_render_done. rewrite H. reflexivity. Qed.
(* every further notification that is not the last one carries the previous number plus one, and the loop continues with it *)
Lemma notification_observe_next cont s g code pk pv : g_late g = false -> successful code = true ->
  after_response cont s g (RResp code pk pv) =
  cont (emit s (set_next g (g_next g + 1)) code (Some (g_next g + 1)) pk pv) (set_next g (g_next g + 1)).
Proof. intros H1 H2. unfold after_response. rewrite H1, H2. reflexivity. Qed.
(* a last notification carries no Observe option *)
Lemma final_notification_no_observe cont s g code pk pv : g_late g || negb (successful code) = true ->
  after_response cont s g (RResp code pk pv) = cancel_cb (remove_reg (emit s g code None pk pv) (g_gid g)) (g_gid g).
Proof. intros H. unfold after_response. rewrite H. reflexivity. Qed.
(* the lossy latest-value future: a burst of triggers before the task runs leaves only the last value (and a sticky is_last) *)
Lemma trigger_overwrites s gid g tv1 l1 tv2 l2 : find_reg s gid = Some g ->
  find_reg (trigger (trigger s gid tv1 l1) gid tv2 l2) gid = Some (set_trig g (Some tv2) (g_late g || l1 || l2)).
Proof.
  intros H. unfold trigger at 2. rewrite H.
  assert (F : forall g1, g_gid g1 = gid -> find_reg (put_reg s g1) gid = Some g1).
  { intros g1 Hg1. unfold find_reg, put_reg in *. fsimpl. revert H. induction (s_regs s) as [|x l IH]; cbn; [discriminate|].
    destruct (g_gid x =? gid) eqn:E.
    - intros _. replace (g_gid x =? g_gid g1) with true by lia. replace (g_gid g1 =? gid) with true by lia. reflexivity.
    - intros Hf. replace (g_gid x =? g_gid g1) with false by lia. rewrite E. apply IH. exact Hf. }
  pose proof (find_reg_In _ _ _ H) as [_ Hg].
  unfold trigger. rewrite (F (set_trig g (Some tv1) (g_late g || l1))) by exact Hg.
  assert (F2 : forall s0 g1 g2, g_gid g1 = gid -> g_gid g2 = gid -> find_reg (put_reg (put_reg s0 g1) g2) gid = find_reg (put_reg s0 g2) gid).
  { intros s0 g1 g2 H1 H2. unfold find_reg, put_reg. fsimpl. induction (s_regs s0) as [|x l IH]; cbn; [reflexivity|].
    destruct (g_gid x =? g_gid g1) eqn:E1.
    - replace (g_gid g1 =? g_gid g2) with true by lia. replace (g_gid x =? g_gid g2) with true by lia. replace (g_gid g2 =? gid) with true by lia. reflexivity.
    - replace (g_gid x =? g_gid g2) with false by lia. destruct (g_gid x =? gid) eqn:E2; [lia|]. exact IH. }
  rewrite F2 by (cbn; exact Hg). rewrite F by (cbn; exact Hg). reflexivity.
Qed.
