(* C07 — proofs about the requester model (Model/C07.v): refinement of what an observer registered from the start is
   handed to a three-phase abstract client (RFC 7641 section 3.4), and the consequences: subsequence, pairwise
   freshness, freshest-delivered under the half-window hypothesis, once-only termination. *)
From Verif Require Import Lib.Py Lib.Tactics Gen.protocol_is_recent Model.C07 Proofs.C07Serial.
From Coq Require Import Permutation.
Open Scope Z_scope.

(* ------------------------------------------------------------------ what observer k is handed *)
Inductive sig := Deliver (id : Z) | EndSignal (e : option exn).

Definition view1 (k : Z) (o : out) : list sig :=
  match o with
  | OCb k' id => if k' =? k then [Deliver id] else []
  | OEb k' e => if k' =? k then [EndSignal e] else []
  | _ => []
  end.
Definition view (k : Z) (outs : list out) : list sig := flat_map (view1 k) outs.

Lemma view_app k a b : view k (a ++ b) = view k a ++ view k b.
Proof. apply flat_map_app. Qed.
Lemma view_cons k o a : view k (o :: a) = view1 k o ++ view k a.
Proof. reflexivity. Qed.

Fixpoint cnt (k : Z) (ls : list listener) : nat :=
  match ls with
  | [] => O
  | LObserver k' :: r => if k' =? k then S (cnt k r) else cnt k r
  | LIterator :: r => cnt k r
  end.
Lemma cnt_app k a b : cnt k (a ++ b) = (cnt k a + cnt k b)%nat.
Proof. induction a as [|[k'|] a IH]; cbn; auto. destruct (k' =? k); cbn; auto. Qed.

Lemma deliver_callbacks_view k ls id : forall it,
  view k (snd (deliver_callbacks ls id it)) = repeat (Deliver id) (cnt k ls).
Proof.
  induction ls as [|[k'|] ls IH]; intros it; cbn [deliver_callbacks cnt]; auto.
  - specialize (IH it). destruct (deliver_callbacks ls id it) as [it' o]. cbn [snd] in *.
    rewrite view_cons. cbn [view1]. destruct (k' =? k); cbn; rewrite IH; reflexivity.
Qed.
Lemma deliver_errbacks_view k ls e : forall it,
  view k (snd (deliver_errbacks ls e it)) = repeat (EndSignal (Some e)) (cnt k ls).
Proof.
  induction ls as [|[k'|] ls IH]; intros it; cbn [deliver_errbacks cnt]; auto.
  - specialize (IH it). destruct (deliver_errbacks ls e it) as [it' o]. cbn [snd] in *.
    rewrite view_cons. cbn [view1]. destruct (k' =? k); cbn; rewrite IH; reflexivity.
Qed.

Lemma callback_facts o it id : exists it' outs,
  callback o it id = ({| callbacks := callbacks o; errbacks := errbacks o; cancelled := cancelled o;
                         latest_response := Some id; cancellation_reason := cancellation_reason o |}, it', outs)
  /\ forall k, view k outs = repeat (Deliver id) (cnt k (callbacks o)).
Proof.
  unfold callback. pose proof (fun k => deliver_callbacks_view k (callbacks o) id it) as H.
  destruct (deliver_callbacks (callbacks o) id it) as [it' outs]. exists it', outs. split; auto.
Qed.
Lemma error_facts o it e : exists it' outs,
  error o it e = ({| callbacks := []; errbacks := []; cancelled := true; latest_response := latest_response o;
                     cancellation_reason := Some e |}, it', outs)
  /\ forall k, view k outs = repeat (EndSignal (Some e)) (cnt k (errbacks o)).
Proof.
  unfold error. pose proof (fun k => deliver_errbacks_view k (errbacks o) e it) as H.
  destruct (deliver_errbacks (errbacks o) e it) as [it' outs]. exists it', outs. split; auto.
Qed.

(* ------------------------------------------------------------------ the view of an action list *)
Fixpoint acts_view (acts : list action) : list sig :=
  match acts with
  | [] => []
  | ACallback id :: r => Deliver id :: acts_view r
  | AError e :: _ => [EndSignal (Some e)]
  | ARaise _ :: _ => []
  | _ :: r => acts_view r
  end.
Fixpoint has_error (acts : list action) : bool :=
  match acts with
  | [] => false
  | AError _ :: _ => true
  | ARaise _ :: _ => false
  | _ :: r => has_error r
  end.
Fixpoint stops (acts : list action) : bool :=
  match acts with
  | [] => false
  | AStopInterest :: _ => true
  | ARaise _ :: _ => false
  | _ :: r => stops r
  end.
Fixpoint sets_response (acts : list action) : bool :=
  match acts with
  | [] => false
  | ASetResult _ :: _ => true | ASetException _ :: _ => true
  | ARaise _ :: _ => false
  | _ :: r => sets_response r
  end.

Fixpoint raises (acts : list action) : bool :=
  match acts with
  | [] => false
  | ARaise _ :: _ => true
  | _ :: r => raises r
  end.

Definition quiet (k : Z) (s : sys) : Prop := cnt k (callbacks (s_obs s)) = O /\ cnt k (errbacks (s_obs s)) = O.
Definition live (k : Z) (s : sys) : Prop :=
  cancelled (s_obs s) = false /\ cnt k (callbacks (s_obs s)) = 1%nat /\ cnt k (errbacks (s_obs s)) = 1%nat.

Definition aa_sys (s : sys) acts := fst (fst (apply_actions s acts)).
Definition aa_outs (s : sys) acts := snd (fst (apply_actions s acts)).
Definition aa_raised (s : sys) acts := snd (apply_actions s acts).

(* frame facts of apply_actions *)
Lemma apply_actions_frame : forall acts s,
  s_has_obs (aa_sys s acts) = s_has_obs s /\ s_reset (aa_sys s acts) = s_reset s /\ s_runner (aa_sys s acts) = s_runner s
  /\ s_ended (aa_sys s acts) = (s_ended s || stops acts)
  /\ s_resp (aa_sys s acts) = (if sets_response acts then RespDone else s_resp s)
  /\ aa_raised s acts = raises acts.
Proof.
  unfold aa_sys, aa_raised. induction acts as [|a acts IH]; intros s.
  - cbn. rewrite orb_false_r. auto 10.
  - destruct a; cbn [apply_actions stops sets_response raises].
    + specialize (IH (set_parts s (s_ended s) RespDone (s_obs s) (s_iter s))).
      destruct (apply_actions _ acts) as [[s2 o2] r2]. cbn [fst snd] in *. cbn in IH.
      destruct IH as (?&?&?&?&?&?). repeat split; auto. destruct (sets_response acts); auto.
    + specialize (IH (set_parts s (s_ended s) RespDone (s_obs s) (s_iter s))).
      destruct (apply_actions _ acts) as [[s2 o2] r2]. cbn [fst snd] in *. cbn in IH.
      destruct IH as (?&?&?&?&?&?). repeat split; auto. destruct (sets_response acts); auto.
    + destruct (callback_facts (s_obs s) (s_iter s) id) as (it' & outs & E & _). rewrite E.
      specialize (IH (set_parts s (s_ended s) (s_resp s) {| callbacks := callbacks (s_obs s); errbacks := errbacks (s_obs s); cancelled := cancelled (s_obs s);
                         latest_response := Some id; cancellation_reason := cancellation_reason (s_obs s) |} it')).
      destruct (apply_actions _ acts) as [[s2 o2] r2]. cbn [fst snd] in *. cbn in IH. exact IH.
    + destruct (error_facts (s_obs s) (s_iter s) e) as (it' & outs & E & _). rewrite E.
      specialize (IH (set_parts s (s_ended s) (s_resp s) {| callbacks := []; errbacks := []; cancelled := true; latest_response := latest_response (s_obs s);
                     cancellation_reason := Some e |} it')).
      destruct (apply_actions _ acts) as [[s2 o2] r2]. cbn [fst snd] in *. cbn in IH. exact IH.
    + destruct (s_ended s) eqn:En.
      * specialize (IH s). destruct (apply_actions s acts) as [[s2 o2] r2]. cbn [fst snd] in *.
        destruct IH as (?&?&?&He&?&?). repeat split; auto. rewrite He, En. reflexivity.
      * specialize (IH (set_parts s true (s_resp s) (s_obs s) (s_iter s))).
        destruct (apply_actions _ acts) as [[s2 o2] r2]. cbn [fst snd] in *. cbn in IH.
        destruct IH as (?&?&?&He&?&?). repeat split; auto.
    + cbn. rewrite orb_false_r. auto 10.
Qed.

(* nobody of identity k is registered: nothing reaches k, and that stays so *)
Lemma apply_actions_quiet k : forall acts s, quiet k s ->
  view k (aa_outs s acts) = [] /\ quiet k (aa_sys s acts).
Proof.
  unfold aa_sys, aa_outs, quiet. induction acts as [|a acts IH]; intros s [Hc He]; [cbn; auto|].
  destruct a; cbn [apply_actions].
  - specialize (IH (set_parts s (s_ended s) RespDone (s_obs s) (s_iter s)) (conj Hc He)).
    destruct (apply_actions _ acts) as [[s2 o2] r2]. cbn [fst snd] in *. exact IH.
  - specialize (IH (set_parts s (s_ended s) RespDone (s_obs s) (s_iter s)) (conj Hc He)).
    destruct (apply_actions _ acts) as [[s2 o2] r2]. cbn [fst snd] in *. exact IH.
  - destruct (callback_facts (s_obs s) (s_iter s) id) as (it' & outs & E & V). rewrite E.
    match goal with |- context [apply_actions ?S acts] => specialize (IH S) end.
    destruct (apply_actions _ acts) as [[s2 o2] r2]. cbn [fst snd] in *.
    rewrite view_app, V, Hc. cbn. apply IH. cbn. auto.
  - destruct (error_facts (s_obs s) (s_iter s) e) as (it' & outs & E & V). rewrite E.
    match goal with |- context [apply_actions ?S acts] => specialize (IH S) end.
    destruct (apply_actions _ acts) as [[s2 o2] r2]. cbn [fst snd] in *.
    rewrite view_app, V, He. cbn. apply IH. cbn. auto.
  - destruct (s_ended s).
    + specialize (IH s (conj Hc He)). destruct (apply_actions s acts) as [[s2 o2] r2]. cbn [fst snd] in *. exact IH.
    + specialize (IH (set_parts s true (s_resp s) (s_obs s) (s_iter s)) (conj Hc He)).
      destruct (apply_actions _ acts) as [[s2 o2] r2]. cbn [fst snd] in *. exact IH.
  - cbn. auto.
Qed.

(* exactly one registration of k, not cancelled: k is handed the action list's view *)
Lemma apply_actions_live k : forall acts s, live k s ->
  view k (aa_outs s acts) = acts_view acts
  /\ (if has_error acts then quiet k (aa_sys s acts) else live k (aa_sys s acts)).
Proof.
  unfold aa_sys, aa_outs. induction acts as [|a acts IH]; intros s L; [cbn; auto|].
  destruct L as (Hn & Hc & He).
  destruct a; cbn [apply_actions acts_view has_error].
  - specialize (IH (set_parts s (s_ended s) RespDone (s_obs s) (s_iter s))).
    destruct (apply_actions _ acts) as [[s2 o2] r2]. cbn [fst snd] in *. apply IH. unfold live. cbn. auto.
  - specialize (IH (set_parts s (s_ended s) RespDone (s_obs s) (s_iter s))).
    destruct (apply_actions _ acts) as [[s2 o2] r2]. cbn [fst snd] in *. apply IH. unfold live. cbn. auto.
  - destruct (callback_facts (s_obs s) (s_iter s) id) as (it' & outs & E & V). rewrite E.
    match goal with |- context [apply_actions ?S acts] => specialize (IH S) end.
    destruct (apply_actions _ acts) as [[s2 o2] r2]. cbn [fst snd] in *.
    rewrite view_app, V, Hc. cbn [repeat app].
    destruct IH as [IH1 IH2]; [unfold live; cbn; auto|]. rewrite IH1. auto.
  - destruct (error_facts (s_obs s) (s_iter s) e) as (it' & outs & E & V). rewrite E.
    match goal with |- context [apply_actions ?S acts] => pose proof (apply_actions_quiet k acts S) as Q end.
    unfold aa_sys, aa_outs in Q.
    destruct (apply_actions _ acts) as [[s2 o2] r2]. cbn [fst snd] in *.
    rewrite view_app, V, He. cbn [repeat app].
    destruct Q as [Q1 Q2]; [unfold quiet; cbn; auto|]. rewrite Q1. auto.
  - destruct (s_ended s).
    + specialize (IH s). destruct (apply_actions s acts) as [[s2 o2] r2]. cbn [fst snd] in *. apply IH. unfold live; auto.
    + specialize (IH (set_parts s true (s_resp s) (s_obs s) (s_iter s))).
      destruct (apply_actions _ acts) as [[s2 o2] r2]. cbn [fst snd] in *. apply IH. unfold live; cbn; auto.
  - cbn. unfold live. auto.
Qed.

(* ------------------------------------------------------------------ the abstract client (RFC 7641 section 3.4) *)
Inductive phase := PFirst | PObs (v1 t1 : Z) | PEnd.

Definition spec_event (reset : Z) (p : phase) (now : Z) (ev : event) : phase * list sig :=
  match p with
  | PEnd => (PEnd, [])
  | PFirst =>
      match ev with
      | EvMsg _ (Some v) false => (PObs v now, [])
      | EvMsg _ None false => (PEnd, [])                      (* inconsistent pipe ("more to come" without Observe) *)
      | _ => (PEnd, [EndSignal (Some NotObservable)])
      end
  | PObs v1 t1 =>
      match ev with
      | EvExn e => (PEnd, [EndSignal (Some e)])
      | EvMsg id None _ => (PEnd, [Deliver id; EndSignal (Some ObservationCancelled)])
      | EvMsg id (Some v2) is_last =>
          let recent := is_recent v1 v2 t1 now reset in
          ((if is_last then PEnd else if recent then PObs v2 now else PObs v1 t1),
           (if recent then [Deliver id] else []) ++ (if is_last then [EndSignal (Some ObservationCancelled)] else []))
      end
  end.

Definition spec_step (reset : Z) (p : phase) (o : op) : phase * list sig :=
  match o with
  | OpEvent now ev => spec_event reset p now ev
  | OpCancelObs => (PEnd, [])                                 (* the application's own end: no signal *)
  | OpCancelResp => (match p with PFirst => PEnd | _ => p end, [])
  | _ => (p, [])
  end.

Fixpoint spec_run (reset : Z) (p : phase) (ops : list op) : list (list sig) :=
  match ops with
  | [] => []
  | o :: rest => let '(p', out) := spec_step reset p o in out :: spec_run reset p' rest
  end.

Definition no_reg (k : Z) (ops : list op) : Prop :=
  forall k', In (OpRegister k') ops -> k' <> k.

(* refinement relation between the requester model and the abstract client, for observer k *)
Definition R (k : Z) (s : sys) (p : phase) : Prop :=
  s_has_obs s = true /\
  match p with
  | PFirst => s_runner s = RFirst /\ s_ended s = false /\ s_resp s = RespPending /\ live k s
  | PObs v1 t1 => s_runner s = RObserving v1 t1 /\ s_ended s = false /\ s_resp s = RespDone /\ live k s
  | PEnd => s_ended s = true \/ quiet k s
  end.

Lemma drain_view k s : view k (snd (drain s)) = [] /\ s_obs (fst (drain s)) = s_obs s /\ s_ended (fst (drain s)) = s_ended s
  /\ s_runner (fst (drain s)) = s_runner s /\ s_resp (fst (drain s)) = s_resp s /\ s_has_obs (fst (drain s)) = s_has_obs s
  /\ s_reset (fst (drain s)) = s_reset s.
Proof.
  unfold drain, anext_drain.
  destruct (negb (it_started (s_iter s)) || it_finished (s_iter s)); [cbn; auto 10|].
  destruct (it_w (s_iter s)) as [x|]; [|cbn; auto 10].
  assert (Y : forall x, view1 k (yield x) = []).
  { intros [id|e]; cbn; auto. destruct e; reflexivity. }
  destruct (is_err x); [cbn; rewrite Y; auto 10|].
  destruct (it_s (s_iter s)) as [y|]; cbn; rewrite ?Y; auto 10.
Qed.

Lemma add_event_ended s now ev : s_ended s = true -> add_event s now ev = (s, []).
Proof. unfold add_event. intros ->. reflexivity. Qed.

(* an event in a state where nobody of identity k is registered *)
Lemma add_event_quiet k s now ev : quiet k s ->
  view k (snd (add_event s now ev)) = [] /\ (s_ended (fst (add_event s now ev)) = true \/ quiet k (fst (add_event s now ev)))
  /\ s_has_obs (fst (add_event s now ev)) = s_has_obs s /\ s_reset (fst (add_event s now ev)) = s_reset s.
Proof.
  intros Q. unfold add_event. destruct (s_ended s) eqn:En; [cbn; auto|].
  destruct (s_runner s) eqn:Er.
  - destruct (Request_run _ _ RFirst _ now ev) as [r' acts].
    pose proof (apply_actions_quiet k acts (set_runner s r')) as [V Q']. { exact Q. }
    pose proof (apply_actions_frame acts (set_runner s r')) as (F1 & F2 & _ & _ & _ & _).
    unfold aa_sys, aa_outs in *. destruct (apply_actions (set_runner s r') acts) as [[s1 outs] raised]. cbn [fst snd] in *.
    destruct raised; [cbn; auto|].
    destruct (ev_is_last ev && negb (s_ended s1)); cbn [fst snd]; [|auto].
    rewrite view_app, V. cbn. auto.
  - destruct (Request_run _ _ (RObserving v1 t1) _ now ev) as [r' acts].
    pose proof (apply_actions_quiet k acts (set_runner s r')) as [V Q']. { exact Q. }
    pose proof (apply_actions_frame acts (set_runner s r')) as (F1 & F2 & _ & _ & _ & _).
    unfold aa_sys, aa_outs in *. destruct (apply_actions (set_runner s r') acts) as [[s1 outs] raised]. cbn [fst snd] in *.
    destruct raised; [cbn; auto|].
    destruct (ev_is_last ev && negb (s_ended s1)); cbn [fst snd]; [|auto].
    rewrite view_app, V. cbn. auto.
  - cbn. auto.
Qed.

(* one event while k is registered once and the runner has not finished: k is handed the view of the runner's actions *)
Lemma add_event_live k s now ev : live k s -> s_ended s = false -> s_runner s <> RFinished ->
  let ra := Request_run (s_has_obs s) (s_reset s) (s_runner s) (cancelled (s_obs s)) now ev in
  raises (snd ra) = false ->
  let s' := fst (add_event s now ev) in
  view k (snd (add_event s now ev)) = acts_view (snd ra)
  /\ s_runner s' = fst ra /\ s_has_obs s' = s_has_obs s /\ s_reset s' = s_reset s
  /\ s_ended s' = (stops (snd ra) || ev_is_last ev)
  /\ s_resp s' = (if sets_response (snd ra) then RespDone else s_resp s)
  /\ (if has_error (snd ra) then quiet k s' else live k s').
Proof.
  intros L En Hr. cbv zeta. unfold add_event. rewrite En.
  destruct (Request_run (s_has_obs s) (s_reset s) (s_runner s) (cancelled (s_obs s)) now ev) as [r' acts] eqn:ERR.
  cbn [fst snd]. intros Hra.
  assert (L' : live k (set_runner s r')) by exact L.
  pose proof (apply_actions_live k acts (set_runner s r') L') as [V Q].
  pose proof (apply_actions_frame acts (set_runner s r')) as (F1 & F2 & F3 & F4 & F5 & F6).
  unfold aa_sys, aa_outs, aa_raised in *.
  destruct (s_runner s) eqn:Er; [| |congruence].
  all: rewrite ERR.
  all: destruct (apply_actions (set_runner s r') acts) as [[s1 outs] raised]; cbn [fst snd] in *.
  all: rewrite F6, Hra; cbn in F1, F2, F3, F4, F5; rewrite En in F4; cbn [orb] in F4.
  all: rewrite F4; destruct (ev_is_last ev) eqn:El, (stops acts) eqn:Es; cbn [andb negb orb fst snd].
  all: rewrite ?view_app; cbn [view flat_map view1 app]; rewrite ?app_nil_r.
  all: repeat split; auto.
  all: destruct (has_error acts); auto.
Qed.

(* one event in a live phase *)
Lemma add_event_refines k s p now ev : R k s p -> (p = PFirst \/ exists v1 t1, p = PObs v1 t1) ->
  view k (snd (add_event s now ev)) = snd (spec_event (s_reset s) p now ev)
  /\ R k (fst (add_event s now ev)) (fst (spec_event (s_reset s) p now ev))
  /\ s_reset (fst (add_event s now ev)) = s_reset s.
Proof.
  intros [Ho Rp] Hp.
  destruct Hp as [-> | (v1 & t1 & ->)]; destruct Rp as (Er & En & Ers & L); pose proof L as (Lc & _ & _).
  - assert (Hnf : s_runner s <> RFinished) by congruence.
    pose proof (add_event_live k s now ev L En Hnf) as A. cbv zeta in A. rewrite Ho, Er, Lc in A.
    destruct ev as [id [v|] [|] | e]; cbn [Request_run negb ev_is_last fst snd raises acts_view stops sets_response has_error orb] in A.
    all: destruct (A eq_refl) as (V & A1 & A2 & A3 & A4 & A5 & A6); clear A.
    all: cbn [spec_event fst snd]; split; [exact V|split; [|exact A3]].
    all: unfold R; split; [exact A2|].
    all: rewrite ?A1, ?A4, ?A5; auto.
  - assert (Hnf : s_runner s <> RFinished) by congruence.
    pose proof (add_event_live k s now ev L En Hnf) as A. cbv zeta in A. rewrite Ho, Er, Lc in A.
    destruct ev as [id [v|] is_last | e]; cbn [Request_run negb ev_is_last fst snd] in A.
    all: try destruct is_last; try destruct (is_recent v1 v t1 now (s_reset s)) eqn:Erec.
    all: cbn [app raises acts_view stops sets_response has_error orb fst snd] in A.
    all: destruct (A eq_refl) as (V & A1 & A2 & A3 & A4 & A5 & A6); clear A.
    all: cbn [spec_event fst snd]; rewrite ?Erec; cbn [app]; split; [exact V|split; [|exact A3]].
    all: unfold R; split; [exact A2|].
    all: rewrite ?A1, ?A4, ?A5, ?Ers; auto.
Qed.

(* ------------------------------------------------------------------ every op *)
Lemma R_frame k s s' p :
  s_has_obs s' = s_has_obs s -> s_runner s' = s_runner s -> s_ended s' = s_ended s -> s_resp s' = s_resp s ->
  cancelled (s_obs s') = cancelled (s_obs s) ->
  cnt k (callbacks (s_obs s')) = cnt k (callbacks (s_obs s)) -> cnt k (errbacks (s_obs s')) = cnt k (errbacks (s_obs s)) ->
  R k s p -> R k s' p.
Proof.
  intros H1 H2 H3 H4 H5 H6 H7 [Ho Rp]. unfold R, live, quiet in *. rewrite H1, H2, H3, H4, H5, H6, H7.
  split; auto.
Qed.

Lemma R_drain k s p : R k s p -> R k (fst (drain s)) p.
Proof.
  intros H. pose proof (drain_view k s) as (_ & E1 & E2 & E3 & E4 & E5 & _).
  apply (R_frame k s); auto; rewrite E1; reflexivity.
Qed.

Lemma register_callback_facts k o it l : cnt k [l] = O -> exists o' it' outs,
  register_callback o it l = (o', it', outs) /\ view k outs = [] /\ cancelled o' = cancelled o
  /\ cnt k (callbacks o') = cnt k (callbacks o) /\ errbacks o' = errbacks o.
Proof.
  intros Hl. unfold register_callback. destruct (cancelled o) eqn:Ec.
  - do 3 eexists. split; [reflexivity|]. cbn. auto.
  - destruct (latest_response o) as [id|]; destruct l as [k'|]; do 3 eexists; (split; [reflexivity|]); cbn [callbacks errbacks cancelled];
      rewrite cnt_app, Hl, Nat.add_0_r; repeat split; auto.
    cbn in Hl. cbn. destruct (k' =? k); [discriminate|reflexivity].
Qed.
Lemma register_errback_facts k o it l : cnt k [l] = O -> exists o' it' outs,
  register_errback o it l = (o', it', outs) /\ view k outs = [] /\ cancelled o' = cancelled o
  /\ cnt k (errbacks o') = cnt k (errbacks o) /\ callbacks o' = callbacks o.
Proof.
  intros Hl. unfold register_errback. destruct (cancelled o) eqn:Ec.
  - destruct l as [k'|]; [|destruct (cancellation_reason o)]; do 3 eexists; (split; [reflexivity|]); repeat split; auto.
    cbn in Hl. cbn. destruct (k' =? k); [discriminate|reflexivity].
  - do 3 eexists. split; [reflexivity|]. cbn [callbacks errbacks cancelled]. rewrite cnt_app, Hl, Nat.add_0_r. auto.
Qed.

Lemma step_refines k s p o : R k s p -> (forall k', o = OpRegister k' -> k' <> k) ->
  view k (snd (step s o)) = snd (spec_step (s_reset s) p o)
  /\ R k (fst (step s o)) (fst (spec_step (s_reset s) p o))
  /\ s_reset (fst (step s o)) = s_reset s.
Proof.
  intros HR Hk. pose proof HR as [Ho Rp].
  destruct o as [now ev| | |k'| |]; cbn [step spec_step].
  - (* event *)
    destruct p as [|v1 t1|].
    + apply add_event_refines; auto.
    + apply add_event_refines; eauto.
    + cbn [spec_event fst snd]. destruct Rp as [En|Q].
      * rewrite add_event_ended by exact En. cbn [fst snd]. split; [reflexivity|split; [exact HR|reflexivity]].
      * destruct (add_event_quiet k s now ev Q) as (V & Q' & Ho' & Hr'). split; [exact V|split; [|exact Hr']].
        split; [congruence|exact Q'].
  - (* observation.cancel() by the application *)
    rewrite Ho. cbn [negb]. destruct (cancelled (s_obs s)) eqn:Ec; cbn [fst snd].
    + split; [reflexivity|split; [|reflexivity]]. destruct p; auto.
      * destruct Rp as (_ & _ & _ & (L & _)). congruence.
      * destruct Rp as (_ & _ & _ & (L & _)). congruence.
    + split; [reflexivity|split; [|reflexivity]]. split; [exact Ho|]. right. unfold quiet. cbn. auto.
  - (* response.cancel() by the application *)
    destruct (s_resp s) eqn:Ers.
    + match goal with |- context [drain ?S] => pose proof (drain_view k S) as (V & E1 & E2 & E3 & E4 & E5 & E6); destruct (drain S) as [s2 o2] end.
      cbn [fst snd] in *. split; [|split].
      * rewrite view_cons, view_app, V. destruct (s_ended s); reflexivity.
      * assert (RE : R k s2 PEnd). { split; [cbn in E5; congruence|]. left. exact E2. }
        destruct p; cbn [fst]; auto. destruct Rp as (_ & _ & Hd & _). congruence.
      * exact E6.
    + pose proof (drain_view k s) as (V & E1 & E2 & E3 & E4 & E5 & E6).
      split; [exact V|]. split; [|exact E6]. destruct p; cbn [fst]; try (apply R_drain; exact HR).
      destruct Rp as (_ & _ & Hd & _). congruence.
    + pose proof (drain_view k s) as (V & E1 & E2 & E3 & E4 & E5 & E6).
      split; [exact V|]. split; [|exact E6]. destruct p; cbn [fst]; try (apply R_drain; exact HR).
      destruct Rp as (_ & _ & Hd & _). congruence.
  - (* another observer registers *)
    rewrite Ho. cbn [negb]. assert (Hl : cnt k [LObserver k'] = O).
    { cbn. specialize (Hk k' eq_refl). destruct (k' =? k) eqn:E; [lia|reflexivity]. }
    destruct (register_callback_facts k (s_obs s) (s_iter s) (LObserver k') Hl) as (o1 & it1 & outs1 & E1 & V1 & C1 & N1 & B1). rewrite E1.
    destruct (register_errback_facts k o1 it1 (LObserver k') Hl) as (o2 & it2 & outs2 & E2 & V2 & C2 & N2 & B2). rewrite E2.
    cbn [fst snd]. rewrite view_app, V1, V2. split; [reflexivity|split; [|reflexivity]].
    apply (R_frame k s); auto; cbn; congruence.
  - (* async iteration starts *)
    rewrite Ho. cbn [negb orb]. destruct (it_started (s_iter s)).
    + pose proof (drain_view k s) as (V & E1 & E2 & E3 & E4 & E5 & E6). split; [exact V|split; [|exact E6]]. apply R_drain; exact HR.
    + match goal with |- context [register_callback _ ?I LIterator] =>
        destruct (register_callback_facts k (s_obs s) I LIterator eq_refl) as (o1 & it1 & outs1 & E1 & V1 & C1 & N1 & B1) end. rewrite E1.
      destruct (register_errback_facts k o1 it1 LIterator eq_refl) as (o2 & it2 & outs2 & E2 & V2 & C2 & N2 & B2). rewrite E2.
      match goal with |- context [drain ?S] => pose proof (drain_view k S) as (V & D1 & D2 & D3 & D4 & D5 & D6); pose proof (R_drain k S p) as RD; destruct (drain S) as [s3 o3] end.
      cbn [fst snd] in *. rewrite !view_app, V1, V2, V. split; [reflexivity|split; [|exact D6]].
      apply RD. apply (R_frame k s); auto; cbn; congruence.
  - pose proof (drain_view k s) as (V & E1 & E2 & E3 & E4 & E5 & E6). split; [exact V|split; [|exact E6]]. apply R_drain; exact HR.
Qed.

Theorem run_refines k : forall ops s p, R k s p -> no_reg k ops ->
  map (view k) (run s ops) = spec_run (s_reset s) p ops.
Proof.
  induction ops as [|o ops IH]; intros s p HR Hn; [reflexivity|].
  cbn [run spec_run].
  destruct (step_refines k s p o HR) as (V & HR' & Hr').
  { intros k' ->. apply Hn. left. reflexivity. }
  destruct (step s o) as [s' outs]. destruct (spec_step (s_reset s) p o) as [p' sout]. cbn [fst snd] in *.
  cbn [map]. rewrite V. f_equal. rewrite <- Hr'. apply IH; auto.
  intros k' Hin. apply Hn. right. exact Hin.
Qed.

(* the initial state with observer k registered is in the first phase *)
Lemma R_initial k reset : R k (fst (step (sys0 true reset) (OpRegister k))) PFirst /\ snd (step (sys0 true reset) (OpRegister k)) = []
  /\ s_reset (fst (step (sys0 true reset) (OpRegister k))) = reset.
Proof.
  cbn. unfold R, live. cbn. rewrite Z.eqb_refl. auto 10.
Qed.

Theorem observer_refines_rfc_client : forall k reset ops, no_reg k ops ->
  map (view k) (run (sys0 true reset) (OpRegister k :: ops)) = [] :: spec_run reset PFirst ops.
Proof.
  intros k reset ops Hn. cbn [run].
  destruct (R_initial k reset) as (HR & Ho & Hr).
  destruct (step (sys0 true reset) (OpRegister k)) as [s outs]. cbn [fst snd] in *. subst outs.
  cbn [map view flat_map]. f_equal. rewrite <- Hr. apply run_refines; auto.
Qed.

(* ================================================================== consequences, proved on the abstract client *)
Inductive Subseq {A} : list A -> list A -> Prop :=
| sub_nil : forall l, Subseq [] l
| sub_skip : forall a l1 l2, Subseq l1 l2 -> Subseq l1 (a :: l2)
| sub_take : forall a l1 l2, Subseq l1 l2 -> Subseq (a :: l1) (a :: l2).

Fixpoint deliveries (l : list sig) : list Z :=
  match l with [] => [] | Deliver id :: r => id :: deliveries r | EndSignal _ :: r => deliveries r end.
Fixpoint end_signals (l : list sig) : list (option exn) :=
  match l with [] => [] | Deliver _ :: r => end_signals r | EndSignal e :: r => e :: end_signals r end.
Lemma deliveries_app a b : deliveries (a ++ b) = deliveries a ++ deliveries b.
Proof. induction a as [|[id|e] a IH]; cbn; congruence. Qed.
Lemma end_signals_app a b : end_signals (a ++ b) = end_signals a ++ end_signals b.
Proof. induction a as [|[id|e] a IH]; cbn; congruence. Qed.

(* ids of the response messages that arrive, in arrival order *)
Fixpoint msg_ids (ops : list op) : list Z :=
  match ops with
  | [] => []
  | OpEvent _ (EvMsg id _ _) :: r => id :: msg_ids r
  | _ :: r => msg_ids r
  end.

Lemma spec_run_end reset ops : concat (spec_run reset PEnd ops) = [].
Proof. induction ops as [|o ops IH]; [reflexivity|]. destruct o as [now ev| | | | |]; cbn; exact IH. Qed.

(* 1. deliveries are a subsequence of the arrivals — every phase, every op list *)
Theorem spec_deliveries_subsequence reset : forall ops p,
  Subseq (deliveries (concat (spec_run reset p ops))) (msg_ids ops).
Proof.
  induction ops as [|o ops IH]; intros p; [constructor|].
  destruct o as [now ev| | |k'| |]; cbn [spec_run spec_step msg_ids concat app]; try apply IH.
  - destruct p as [|v1 t1|]; destruct ev as [id [v|] [|]|e]; cbn [spec_event concat app deliveries]; rewrite ?deliveries_app;
      try (apply sub_skip; apply IH); try apply IH.
    + destruct (is_recent v1 v t1 now reset); cbn [app deliveries]; [apply sub_take|apply sub_skip]; apply IH.
    + destruct (is_recent v1 v t1 now reset); cbn [app deliveries]; [apply sub_take|apply sub_skip]; apply IH.
    + cbn. apply sub_take. apply IH.
    + cbn. apply sub_take. apply IH.
Qed.

(* 3. at most one end signal, and nothing after it — every phase, every op list *)
Theorem spec_terminates_once reset : forall ops p, exists ids tail,
  concat (spec_run reset p ops) = map Deliver ids ++ tail /\ (tail = [] \/ exists e, tail = [EndSignal e]).
Proof.
  induction ops as [|o ops IH]; intros p; [exists [], []; auto|].
  assert (Hsame : forall p', (exists ids tail, concat (spec_run reset p' ops) = map Deliver ids ++ tail /\ (tail = [] \/ exists e, tail = [EndSignal e]))) by (intros; apply IH).
  assert (Hend : forall pre, (exists ids, pre = map Deliver ids) ->
            exists ids tail, pre ++ concat (spec_run reset p ops) = map Deliver ids ++ tail /\ (tail = [] \/ exists e, tail = [EndSignal e])).
  { intros pre [ids0 ->]. destruct (IH p) as (ids & tail & E & T). exists (ids0 ++ ids), tail. rewrite E, map_app, app_assoc. auto. }
  assert (Hfin : forall ids0 e, exists ids tail, (map Deliver ids0 ++ [EndSignal e]) ++ concat (spec_run reset PEnd ops) = map Deliver ids ++ tail /\ (tail = [] \/ exists e, tail = [EndSignal e])).
  { intros ids0 e. rewrite spec_run_end, app_nil_r. exists ids0, [EndSignal e]. eauto. }
  destruct o as [now ev| | |k'| |]; cbn [spec_run spec_step concat]; try (apply (Hend []); exists []; reflexivity).
  - destruct p as [|v1 t1|]; destruct ev as [id [v|] [|]|e]; cbn [spec_event].
    all: try (apply (Hfin [])).
    all: try (cbn [app]; apply IH).
    + destruct (is_recent v1 v t1 now reset); [apply (Hfin [id])|apply (Hfin [])].
    + destruct (is_recent v1 v t1 now reset); cbn [concat app].
      * destruct (IH (PObs v now)) as (ids & tail & E & T). exists (id :: ids), tail. rewrite E. auto.
      * apply IH.
    + apply (Hfin [id]).
    + apply (Hfin [id]).
  - cbn [app]. apply IH.
  - cbn [app]. destruct p; apply IH.
Qed.

(* ------------------------------------------------------------------ 2. the greedy freshness filter *)
Record notif := { n_id : Z; n_v : Z; n_t : Z }.

Fixpoint accept (reset v1 t1 : Z) (l : list notif) : list notif :=
  match l with
  | [] => []
  | n :: r => if is_recent v1 (n_v n) t1 (n_t n) reset then n :: accept reset (n_v n) (n_t n) r else accept reset v1 t1 r
  end.

(* each accepted notification is fresh, by the RFC rule, with respect to the previously accepted one *)
Inductive chain (reset : Z) : Z -> Z -> list notif -> Prop :=
| chain_nil : forall v t, chain reset v t []
| chain_cons : forall v t n r, rfc_fresh v t (n_v n) (n_t n) reset -> chain reset (n_v n) (n_t n) r -> chain reset v t (n :: r).

Theorem accept_chain reset : forall l v1 t1, chain reset v1 t1 (accept reset v1 t1 l).
Proof.
  induction l as [|n l IH]; intros; cbn [accept]; [constructor|].
  destruct (is_recent v1 (n_v n) t1 (n_t n) reset) eqn:E; [|apply IH].
  constructor; [apply is_recent_spec; exact E|apply IH].
Qed.

Theorem accept_subseq reset : forall l v1 t1, Subseq (accept reset v1 t1 l) l.
Proof.
  induction l as [|n l IH]; intros; cbn [accept]; [constructor|].
  destruct (is_recent v1 (n_v n) t1 (n_t n) reset); [apply sub_take|apply sub_skip]; apply IH.
Qed.

(* nothing fresh is dropped: a notification is skipped only if it is not fresh w.r.t. the one accepted last before it *)
Fixpoint last_accepted (reset v1 t1 : Z) (l : list notif) : Z * Z :=
  match l with
  | [] => (v1, t1)
  | n :: r => if is_recent v1 (n_v n) t1 (n_t n) reset then last_accepted reset (n_v n) (n_t n) r else last_accepted reset v1 t1 r
  end.
Theorem accept_complete reset : forall pre n post v1 t1,
  let '(v, t) := last_accepted reset v1 t1 pre in
  (rfc_fresh v t (n_v n) (n_t n) reset -> In n (accept reset v1 t1 (pre ++ n :: post)))
  /\ (~ rfc_fresh v t (n_v n) (n_t n) reset -> accept reset v1 t1 (pre ++ n :: post) = accept reset v1 t1 pre ++ accept reset v t post).
Proof.
  induction pre as [|m pre IH]; intros n post v1 t1; cbn [last_accepted app accept].
  - split; intros H.
    + apply is_recent_spec in H. rewrite H. left. reflexivity.
    + apply is_recent_false_spec in H. rewrite H. reflexivity.
  - destruct (is_recent v1 (n_v m) t1 (n_t m) reset).
    + specialize (IH n post (n_v m) (n_t m)). destruct (last_accepted reset (n_v m) (n_t m) pre) as [v t].
      destruct IH as [I1 I2]. split; intros H; [right; auto|]. cbn [app]. f_equal. auto.
    + apply IH.
Qed.

(* the notifications that arrive while the observation is live: up to the first terminal event or application cancel *)
Fixpoint live_notifs (ops : list op) : list notif :=
  match ops with
  | [] => []
  | OpEvent now (EvMsg id (Some v) false) :: r => {| n_id := id; n_v := v; n_t := now |} :: live_notifs r
  | OpEvent now (EvMsg id (Some v) true) :: _ => [{| n_id := id; n_v := v; n_t := now |}]
  | OpEvent _ _ :: _ => []
  | OpCancelObs :: _ => []
  | _ :: r => live_notifs r
  end.
(* the terminal response (a message without Observe option), if that is what ends the observation *)
Fixpoint final_response (ops : list op) : list Z :=
  match ops with
  | [] => []
  | OpEvent _ (EvMsg _ (Some _) false) :: r => final_response r
  | OpEvent _ (EvMsg id None _) :: _ => [id]
  | OpEvent _ _ :: _ => []
  | OpCancelObs :: _ => []
  | _ :: r => final_response r
  end.

Theorem spec_deliveries_characterised reset : forall ops v1 t1,
  deliveries (concat (spec_run reset (PObs v1 t1) ops))
  = map n_id (accept reset v1 t1 (live_notifs ops)) ++ final_response ops.
Proof.
  induction ops as [|o ops IH]; intros v1 t1; [reflexivity|].
  destruct o as [now ev| | |k'| |]; cbn [spec_run spec_step live_notifs final_response concat app]; try apply IH.
  - destruct ev as [id [v|] [|]|e]; cbn [spec_event live_notifs final_response accept n_v n_t].
    + destruct (is_recent v1 v t1 now reset); cbn; rewrite ?deliveries_app, spec_run_end; reflexivity.
    + destruct (is_recent v1 v t1 now reset); cbn; rewrite IH; reflexivity.
    + cbn. rewrite spec_run_end. reflexivity.
    + cbn. rewrite spec_run_end. reflexivity.
    + cbn. rewrite spec_run_end. reflexivity.
  - cbn. rewrite spec_run_end. reflexivity.
Qed.

(* ------------------------------------------------------------------ freshest delivered, for every arrival order *)
Definition last_v (v0 : Z) (acc : list notif) : Z := last (map n_v acc) v0.
Definition max_off (base v0 : Z) (l : list notif) : Z := fold_right (fun n m => Z.max (off base (n_v n)) m) (off base v0) l.
Fixpoint increasing (base prev : Z) (l : list notif) : Prop :=
  match l with [] => True | n :: r => off base prev < off base (n_v n) /\ increasing base (n_v n) r end.

Lemma last_cons {A} (a : A) l d : last (a :: l) d = last l a.
Proof. revert a d. induction l as [|b l IH]; intros; [reflexivity|]. cbn [last] in *. destruct l; auto. Qed.

Lemma max_off_ge base v0 l : off base v0 <= max_off base v0 l.
Proof. unfold max_off. induction l; cbn [fold_right]; lia. Qed.
Lemma max_off_mono base a b l : off base a <= off base b -> max_off base a l <= max_off base b l.
Proof. intros. unfold max_off. induction l; cbn [fold_right]; lia. Qed.

Lemma fold_max_absorb base x d l :
  Z.max x (fold_right (fun (n : notif) m => Z.max (off base (n_v n)) m) d l) = fold_right (fun n m => Z.max (off base (n_v n)) m) (Z.max x d) l.
Proof. induction l; cbn [fold_right]; lia. Qed.

Definition timely (lo reset t : Z) : Prop := lo <= t <= lo + reset.

Lemma is_recent_in_window base lo reset v1 t1 v2 t2 :
  in_window base v1 -> in_window base v2 -> timely lo reset t1 -> timely lo reset t2 ->
  is_recent v1 v2 t1 t2 reset = (off base v1 <? off base v2).
Proof.
  intros W1 W2 T1 T2. unfold timely in *.
  destruct (off base v1 <? off base v2) eqn:E.
  - apply is_recent_spec. left. apply (serial_lt_window base); auto. lia.
  - apply is_recent_false_spec. intros [H|H]; [|lia]. apply (serial_lt_window base) in H; auto. lia.
Qed.

Theorem freshest_accepted base lo reset : forall l v0 t0,
  in_window base v0 -> timely lo reset t0 ->
  Forall (fun n => in_window base (n_v n) /\ timely lo reset (n_t n)) l ->
  increasing base v0 (accept reset v0 t0 l)
  /\ off base (last_v v0 (accept reset v0 t0 l)) = max_off base v0 l.
Proof.
  induction l as [|n l IH]; intros v0 t0 W0 T0 HF; [cbn; auto|].
  inversion HF as [|? ? [Wn Tn] HF']; subst. cbn [accept max_off fold_right].
  rewrite (is_recent_in_window base lo) by assumption.
  destruct (off base v0 <? off base (n_v n)) eqn:E.
  - destruct (IH (n_v n) (n_t n) Wn Tn HF') as [I1 I2]. split; [cbn; split; [lia|exact I1]|].
    unfold last_v in *. cbn [map]. rewrite last_cons, I2. unfold max_off. rewrite fold_max_absorb.
    replace (Z.max (off base (n_v n)) (off base v0)) with (off base (n_v n)) by lia. reflexivity.
  - destruct (IH v0 t0 W0 T0 HF') as [I1 I2]. split; [exact I1|]. rewrite I2.
    pose proof (max_off_ge base v0 l). unfold max_off in *. lia.
Qed.

Lemma max_off_perm base v0 l l' : Permutation l l' -> max_off base v0 l = max_off base v0 l'.
Proof. unfold max_off. induction 1; cbn [fold_right]; lia. Qed.

Lemma last_v_in_range base reset : forall l v0 t0, in_window base v0 -> Forall (fun n => in_window base (n_v n)) l ->
  in_range (last_v v0 (accept reset v0 t0 l)).
Proof.
  induction l as [|n l IH]; intros v0 t0 W0 HF; [exact (proj1 W0)|].
  inversion HF; subst. cbn [accept]. destruct (is_recent v0 (n_v n) t0 (n_t n) reset).
  - unfold last_v in *. cbn [map]. rewrite last_cons. apply IH; auto.
  - apply IH; auto.
Qed.

(* whatever the order (and duplication) in which the network delivers them, the observer ends up with the same,
   freshest, notification *)
Theorem freshest_for_every_order base lo reset : forall l l' v0 t0,
  in_window base v0 -> timely lo reset t0 ->
  Forall (fun n => in_window base (n_v n) /\ timely lo reset (n_t n)) l ->
  Permutation l l' ->
  last_v v0 (accept reset v0 t0 l) = last_v v0 (accept reset v0 t0 l').
Proof.
  intros l l' v0 t0 W0 T0 HF HP.
  assert (HF' : Forall (fun n => in_window base (n_v n) /\ timely lo reset (n_t n)) l') by (eapply Permutation_Forall; eauto).
  destruct (freshest_accepted base lo reset l v0 t0 W0 T0 HF) as [_ E1].
  destruct (freshest_accepted base lo reset l' v0 t0 W0 T0 HF') as [_ E2].
  apply (off_inj base).
  - apply (last_v_in_range base); auto. eapply Forall_impl; [|exact HF]. cbn. tauto.
  - apply (last_v_in_range base); auto. eapply Forall_impl; [|exact HF']. cbn. tauto.
  - rewrite E1, E2. apply max_off_perm. exact HP.
Qed.

(* ------------------------------------------------------------------ the terminating response at every position *)
Fixpoint plain (ops : list op) : bool :=          (* no terminal event, no application cancel *)
  match ops with
  | [] => true
  | OpEvent _ (EvMsg _ (Some _) false) :: r => plain r
  | OpEvent _ _ :: _ => false
  | OpCancelObs :: _ => false
  | _ :: r => plain r
  end.
Fixpoint spec_phase (reset : Z) (p : phase) (ops : list op) : phase :=
  match ops with [] => p | o :: r => spec_phase reset (fst (spec_step reset p o)) r end.

Lemma spec_run_app reset : forall a b p,
  spec_run reset p (a ++ b) = spec_run reset p a ++ spec_run reset (spec_phase reset p a) b.
Proof.
  induction a as [|o a IH]; intros b p; [reflexivity|].
  cbn [app spec_run spec_phase]. destruct (spec_step reset p o) as [p' out]. cbn [fst]. rewrite IH. reflexivity.
Qed.

Lemma spec_run_silent reset ops : spec_run reset PEnd ops = map (fun _ => []) ops.
Proof. induction ops as [|o ops IH]; [reflexivity|]. destruct o as [now ev| | | | |]; cbn; rewrite IH; reflexivity. Qed.

Lemma plain_stays_observing reset : forall pre v1 t1, plain pre = true ->
  (exists v t, spec_phase reset (PObs v1 t1) pre = PObs v t)
  /\ end_signals (concat (spec_run reset (PObs v1 t1) pre)) = [].
Proof.
  induction pre as [|o pre IH]; intros v1 t1 Hp; [cbn; eauto|].
  destruct o as [now ev| | |k'| |]; cbn [plain] in Hp; try discriminate; cbn [spec_phase spec_run spec_step fst concat app]; try (apply IH; exact Hp).
  destruct ev as [id [v|] [|]|e]; try discriminate. cbn [spec_event fst].
  destruct (is_recent v1 v t1 now reset); cbn [fst app concat]; rewrite ?end_signals_app; cbn [end_signals app]; apply IH; exact Hp.
Qed.

Definition is_terminal (ev : event) : bool := match ev with EvExn _ => true | EvMsg _ None _ => true | _ => false end.
Definition terminal_outcome (ev : event) : list sig :=
  match ev with
  | EvExn e => [EndSignal (Some e)]                                           (* transport failure: the network error *)
  | EvMsg id None _ => [Deliver id; EndSignal (Some ObservationCancelled)]    (* final response, then the cancellation signal *)
  | _ => []
  end.

Theorem spec_termination_at_every_position reset : forall pre now ev post v1 t1,
  plain pre = true -> is_terminal ev = true ->
  spec_run reset (PObs v1 t1) (pre ++ OpEvent now ev :: post)
  = spec_run reset (PObs v1 t1) pre ++ terminal_outcome ev :: map (fun _ => []) post.
Proof.
  intros pre now ev post v1 t1 Hp Ht. rewrite spec_run_app.
  destruct (plain_stays_observing reset pre v1 t1 Hp) as [(v & t & ->) _].
  f_equal. destruct ev as [id [v'|] l|e]; try discriminate; cbn; rewrite spec_run_silent; reflexivity.
Qed.

Theorem spec_not_observable reset : forall now ev post, ev_is_last ev = true ->
  spec_run reset PFirst (OpEvent now ev :: post) = [EndSignal (Some NotObservable)] :: map (fun _ => []) post.
Proof.
  intros now ev post Hl. destruct ev as [id [v|] [|]|e]; try discriminate; cbn; rewrite spec_run_silent; reflexivity.
Qed.

(* whenever the runner signals the end, the pipe's interest ends within the same event (this is what frees the token) *)
Lemma error_stops_or_last has_obs reset r c now ev :
  has_error (snd (Request_run has_obs reset r c now ev)) = true ->
  stops (snd (Request_run has_obs reset r c now ev)) || ev_is_last ev = true.
Proof.
  destruct r as [|v1 t1|]; cbn [Request_run]; [| |discriminate].
  - destruct has_obs; cbn [negb].
    + destruct (ev_is_last ev) eqn:El; [intros _; apply orb_true_r|].
      destruct ev as [id [v|] l|e]; cbn; discriminate.
    + destruct ev as [id o l|e]; destruct (ev_is_last _); cbn; discriminate.
  - destruct c; [cbn; discriminate|].
    destruct ev as [id [v|] [|]|e]; cbn [snd ev_is_last]; try (intros _; apply orb_true_r); try reflexivity.
    destruct (is_recent v1 v t1 now reset); cbn; discriminate.
Qed.

Theorem end_signal_ends_pipe k s now ev : live k s -> s_ended s = false -> s_runner s <> RFinished ->
  end_signals (view k (snd (add_event s now ev))) <> [] -> s_ended (fst (add_event s now ev)) = true.
Proof.
  intros L En Hr Hsig.
  destruct (raises (snd (Request_run (s_has_obs s) (s_reset s) (s_runner s) (cancelled (s_obs s)) now ev))) eqn:Era.
  - (* an exception leaving the generator happens only on a cancelled observation *)
    destruct L as (Lc & _). rewrite Lc in Era.
    destruct (s_runner s) as [|v1 t1|]; [| |congruence]; cbn [Request_run] in Era.
    + destruct (s_has_obs s), ev as [id [v|] [|]|e]; cbn [Request_run negb ev_is_last snd raises app] in Era; discriminate.
    + destruct ev as [id [v|] [|]|e]; cbn [Request_run negb ev_is_last snd raises app] in Era; try discriminate;
        destruct (is_recent v1 v t1 now (s_reset s)); cbn [raises app] in Era; discriminate.
  - pose proof (add_event_live k s now ev L En Hr) as A. cbv zeta in A. destruct (A Era) as (V & _ & _ & _ & A4 & _ & _).
    rewrite A4. apply error_stops_or_last. rewrite V in Hsig.
    revert Hsig. generalize (snd (Request_run (s_has_obs s) (s_reset s) (s_runner s) (cancelled (s_obs s)) now ev)).
    induction l as [|a l IH]; cbn; [congruence|]. destruct a; cbn; auto.
Qed.

(* ------------------------------------------------------------------ 4. the lossy async iterator *)
Definition latest (it : iter) : option item := match it_s it with Some y => Some y | None => it_w it end.
Definition good (it : iter) : Prop :=
  it_started it = true /\ it_finished it = false
  /\ (forall a, it_w it = Some a -> is_err a = false)          (* an end signal is the last thing ever pushed *)
  /\ (it_s it <> None -> it_w it <> None).
Definition idle : iter := {| it_started := true; it_finished := false; it_w := None; it_s := None |}.

Lemma good_idle : good idle.
Proof. unfold good, idle. cbn. repeat split; congruence. Qed.

Lemma push_latest it x : good it -> latest (push it x) = Some x.
Proof.
  intros (Hs & Hf & Hw & Hsw). unfold push, latest. rewrite Hf.
  destruct (it_w it) eqn:Ew; cbn; [reflexivity|].
  destruct (it_s it) eqn:Es; [exfalso; apply Hsw; congruence|reflexivity].
Qed.
Lemma push_good it id : good it -> good (push it (IMsg id)).
Proof.
  intros (Hs & Hf & Hw & Hsw). unfold push, good. rewrite Hf.
  destruct (it_w it) eqn:Ew; cbn; repeat split; auto; try congruence.
  intros a Ha. inversion Ha; subst. reflexivity.
Qed.

Fixpoint pushes (it : iter) (xs : list item) : iter := match xs with [] => it | x :: r => pushes (push it x) r end.

(* one wake-up of the consumer yields, in order, a subsequence of what was pushed since it last blocked ... *)
Theorem iterator_yields_subsequence : forall xs,
  Subseq (snd (anext_drain (pushes idle xs))) (map yield xs).
Proof.
  assert (G : forall xs a b, it_started a = true -> it_finished a = false -> it_w a = Some b ->
            exists y, (it_s (pushes a xs) = y /\ it_w (pushes a xs) = Some b /\ it_started (pushes a xs) = true /\ it_finished (pushes a xs) = false)
                      /\ (match y with Some z => it_s a = Some z \/ In z xs | None => True end)).
  { induction xs as [|x xs IH]; intros a b Hs Hf Hw; cbn [pushes].
    - exists (it_s a). repeat split; auto. destruct (it_s a); auto.
    - assert (E : push a x = {| it_started := it_started a; it_finished := false; it_w := Some b; it_s := Some x |}).
      { unfold push. rewrite Hf, Hw. reflexivity. }
      destruct (IH (push a x) b) as (y & (Y1 & Y2 & Y3 & Y4) & Y5).
      { rewrite E. exact Hs. } { rewrite E. reflexivity. } { rewrite E. reflexivity. }
      exists y. split; [repeat split; assumption|]. destruct y as [z|]; [|exact I]. right. destruct Y5 as [Y5|Y5].
      + rewrite E in Y5. cbn in Y5. inversion Y5. left. reflexivity.
      + right. exact Y5. }
  assert (InSub : forall (z : item) xs, In z xs -> Subseq [yield z] (map yield xs)).
  { induction xs as [|x xs IH]; intros Hin; [contradiction|]. destruct Hin as [->|Hin]; cbn; [apply sub_take; constructor|apply sub_skip; auto]. }
  intros [|x xs]; [cbn; constructor|].
  cbn [pushes]. assert (E : push idle x = {| it_started := true; it_finished := false; it_w := Some x; it_s := None |}) by reflexivity.
  destruct (G xs (push idle x) x) as (y & (Y1 & Y2 & Y3 & Y4) & Y5); try (rewrite E; reflexivity).
  unfold anext_drain. rewrite Y3, Y4, Y2, Y1. cbn [negb orb map].
  destruct (is_err x); cbn [snd]; [apply sub_take; constructor|].
  destruct y as [z|]; cbn [snd]; [|apply sub_take; constructor].
  apply sub_take. destruct Y5 as [Y5|Y5]; [rewrite E in Y5; discriminate|]. apply InSub. exact Y5.
Qed.

(* ... and always ends with the most recent one: the queue is lossy but never loses the latest *)
Theorem iterator_ends_with_latest : forall it x d, good it -> latest it = Some x ->
  last (snd (anext_drain it)) d = yield x /\ it_w (fst (anext_drain it)) = None /\ it_s (fst (anext_drain it)) = None.
Proof.
  intros it x d (Hs & Hf & Hw & Hsw) Hl. unfold anext_drain, latest in *. rewrite Hs, Hf. cbn [negb orb].
  destruct (it_w it) as [a|] eqn:Ew.
  - rewrite (Hw a eq_refl). destruct (it_s it) as [y|] eqn:Es; inversion Hl; subst; cbn; auto.
  - destruct (it_s it) eqn:Es; [exfalso; apply Hsw; congruence|discriminate].
Qed.

Lemma pushes_msgs_good : forall ids it, good it -> good (pushes it (map IMsg ids)).
Proof. induction ids as [|i ids IH]; intros it G; cbn [map pushes]; auto using push_good. Qed.

Theorem iterator_lossy_but_latest : forall ids x d,
  last (snd (anext_drain (pushes idle (map IMsg ids ++ [x])))) d = yield x.
Proof.
  intros ids x d.
  assert (E : forall xs ys it, pushes it (xs ++ ys) = pushes (pushes it xs) ys).
  { induction xs as [|a xs IH]; intros; cbn [app pushes]; auto. }
  rewrite E. cbn [pushes].
  pose proof (pushes_msgs_good ids idle good_idle) as G.
  (* after pushing x: the drain ends with x, whether x is a message or the end signal *)
  destruct G as (Hs & Hf & Hw & Hsw). set (it := pushes idle (map IMsg ids)) in *.
  unfold push. rewrite Hf. unfold anext_drain.
  destruct (it_w it) as [a|] eqn:Ew; cbn [it_started it_finished it_w it_s]; rewrite Hs; cbn [negb orb].
  - rewrite (Hw a eq_refl). reflexivity.
  - destruct (it_s it) eqn:Es; [exfalso; apply Hsw; congruence|]. destruct (is_err x); reflexivity.
Qed.

(* ================================================================== the same, stated on the requester model's runs *)
(* everything observer k (registered before anything happens) is handed during the run of ops *)
Definition observed (k reset : Z) (ops : list op) : list sig :=
  concat (map (view k) (run (sys0 true reset) (OpRegister k :: ops))).

Lemma observed_spec k reset ops : no_reg k ops -> observed k reset ops = concat (spec_run reset PFirst ops).
Proof. intros H. unfold observed. rewrite observer_refines_rfc_client by exact H. reflexivity. Qed.

Lemma no_reg_cons k o ops : (forall k', o <> OpRegister k') -> no_reg k ops -> no_reg k (o :: ops).
Proof. intros Ho H k' [E|Hin]; [exfalso; eapply Ho; eauto|apply H; exact Hin]. Qed.
Lemma no_reg_app k a b : no_reg k a -> no_reg k b -> no_reg k (a ++ b).
Proof. intros Ha Hb k' Hin. apply in_app_or in Hin as [H|H]; auto. Qed.

Theorem run_delivered_is_subsequence k reset ops : no_reg k ops ->
  Subseq (deliveries (observed k reset ops)) (msg_ids ops).
Proof. intros H. rewrite observed_spec by exact H. apply spec_deliveries_subsequence. Qed.

Theorem run_terminates_once k reset ops : no_reg k ops -> exists ids tail,
  observed k reset ops = map Deliver ids ++ tail /\ (tail = [] \/ exists e, tail = [EndSignal e]).
Proof. intros H. rewrite observed_spec by exact H. apply spec_terminates_once. Qed.

Theorem run_delivered_characterised k reset t0 id0 v0 ops : no_reg k ops ->
  deliveries (observed k reset (OpEvent t0 (EvMsg id0 (Some v0) false) :: ops))
  = map n_id (accept reset v0 t0 (live_notifs ops)) ++ final_response ops.
Proof.
  intros H. rewrite observed_spec by (apply no_reg_cons; [intros; discriminate|exact H]).
  cbn [spec_run spec_step spec_event concat app]. apply spec_deliveries_characterised.
Qed.

Theorem run_termination_at_every_position k reset t0 id0 v0 pre now ev post :
  no_reg k pre -> no_reg k post -> plain pre = true -> is_terminal ev = true ->
  map (view k) (run (sys0 true reset) (OpRegister k :: OpEvent t0 (EvMsg id0 (Some v0) false) :: pre ++ OpEvent now ev :: post))
  = [] :: [] :: spec_run reset (PObs v0 t0) pre ++ terminal_outcome ev :: map (fun _ => []) post.
Proof.
  intros H1 H2 Hp Ht. rewrite observer_refines_rfc_client.
  - cbn [spec_run spec_step spec_event]. rewrite spec_termination_at_every_position by assumption. reflexivity.
  - apply no_reg_cons; [intros; discriminate|]. apply no_reg_app; [exact H1|]. apply no_reg_cons; [intros; discriminate|exact H2].
Qed.

Theorem run_not_observable k reset now ev post : no_reg k post -> ev_is_last ev = true ->
  map (view k) (run (sys0 true reset) (OpRegister k :: OpEvent now ev :: post))
  = [] :: [EndSignal (Some NotObservable)] :: map (fun _ => []) post.
Proof.
  intros H Hl. rewrite observer_refines_rfc_client by (apply no_reg_cons; [intros; discriminate|exact H]).
  rewrite spec_not_observable by exact Hl. reflexivity.
Qed.
