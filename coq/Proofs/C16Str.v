(* C16 — lemmas about the str/bytes primitives of Model/C16Str.v: UTF-8 and decimal round-trips, partition/split/join. *)
From Verif Require Import Lib.Py Lib.Tactics Lib.PyLemmas Model.C16Str.
Open Scope Z_scope.

Ltac solve_ifs :=
  repeat match goal with
  | |- context [if ?b then _ else _] => first [ replace b with true by lia | replace b with false by lia ]
  end.

(* [Ok x = Ok y] -> x = y without any reduction of x, y (injection/inversion unfold Z.add on literals) *)
Lemma Ok_inj {A} (x y : A) : Ok x = Ok y -> x = y.
Proof. intros H. exact (f_equal (fun m => match m with Ok a => a | Raise _ => x end) H). Qed.
Ltac ok_inj H := apply Ok_inj in H; try subst.

(* ---------------------------------------------------------------- UTF-8 *)
Lemma utf8_dec1 b0 rest : 0 <= b0 < 128 ->
  utf8_decode (b0 :: rest) = (r <- utf8_decode rest ;; Ok (b0 :: r)).
Proof. intros H. cbn [utf8_decode]. solve_ifs. reflexivity. Qed.
Lemma utf8_dec2 b0 b1 rest : 194 <= b0 < 224 -> 128 <= b1 < 192 ->
  utf8_decode (b0 :: b1 :: rest) = (r <- utf8_decode rest ;; Ok (((b0 - 192) * 64 + (b1 - 128)) :: r)).
Proof. intros H0 H1. cbn [utf8_decode]. unfold is_cont. solve_ifs. reflexivity. Qed.
Lemma utf8_dec3 b0 b1 b2 rest : 224 <= b0 < 240 -> 128 <= b1 < 192 -> 128 <= b2 < 192 ->
  (b0 = 224 -> 160 <= b1) -> (b0 = 237 -> b1 < 160) ->
  utf8_decode (b0 :: b1 :: b2 :: rest) = (r <- utf8_decode rest ;; Ok (((b0 - 224) * 4096 + (b1 - 128) * 64 + (b2 - 128)) :: r)).
Proof. intros H0 H1 H2 H3 H4. cbn [utf8_decode]. unfold is_cont. solve_ifs. reflexivity. Qed.
Lemma utf8_dec4 b0 b1 b2 b3 rest : 240 <= b0 < 245 -> 128 <= b1 < 192 -> 128 <= b2 < 192 -> 128 <= b3 < 192 ->
  (b0 = 240 -> 144 <= b1) -> (b0 = 244 -> b1 < 144) ->
  utf8_decode (b0 :: b1 :: b2 :: b3 :: rest) =
  (r <- utf8_decode rest ;; Ok (((b0 - 240) * 262144 + (b1 - 128) * 4096 + (b2 - 128) * 64 + (b3 - 128)) :: r)).
Proof. intros H0 H1 H2 H3 H4 H5. cbn [utf8_decode]. unfold is_cont. solve_ifs. reflexivity. Qed.

Lemma utf8_char_roundtrip c b rest r :
  utf8_encode_char c = Ok b -> utf8_decode rest = Ok r -> utf8_decode (b ++ rest) = Ok (c :: r).
Proof.
  unfold utf8_encode_char, is_surrogate. intros He Hr.
  destruct (c <? 0) eqn:E0; [discriminate|].
  destruct (c <? 128) eqn:E1.
  { ok_inj He. cbn [app]. rewrite utf8_dec1 by lia. rewrite Hr. reflexivity. }
  destruct (c <? 2048) eqn:E2.
  { ok_inj He. cbn [app]. rewrite utf8_dec2 by lia. rewrite Hr. cbn [bind]. f_equal. f_equal. lia. }
  destruct (c <? 65536) eqn:E3.
  { destruct ((55296 <=? c) && (c <=? 57343)) eqn:E4; [discriminate|]. ok_inj He.
    cbn [app]. rewrite utf8_dec3 by lia. rewrite Hr. cbn [bind]. f_equal. f_equal. lia. }
  destruct (c <? 1114112) eqn:E5; [|discriminate].
  ok_inj He. cbn [app]. rewrite utf8_dec4 by lia. rewrite Hr. cbn [bind]. f_equal. f_equal. lia.
Qed.

Theorem utf8_decode_encode s : forall b, utf8_encode s = Ok b -> utf8_decode b = Ok s.
Proof.
  induction s as [|c s IH]; intros b H; cbn [utf8_encode] in H.
  - inv H. reflexivity.
  - destruct (utf8_encode_char c) as [bc|] eqn:Ec; [|discriminate]. cbn [bind] in H.
    destruct (utf8_encode s) as [bs|] eqn:Es; [|discriminate]. cbn [bind] in H. inv H.
    eapply utf8_char_roundtrip; eauto.
Qed.

Lemma utf8_encode_char_ok c : scalar c = true -> exists b, utf8_encode_char c = Ok b /\ bytes_ok b = true /\ b <> [].
Proof.
  unfold scalar, utf8_encode_char, is_surrogate. intros H.
  replace (c <? 0) with false by lia.
  destruct (c <? 128) eqn:E1. { eexists; split; [reflexivity|]. split; [|discriminate]. unfold bytes_ok, byte_ok; cbn [forallb]; lia. }
  destruct (c <? 2048) eqn:E2. { eexists; split; [reflexivity|]. split; [|discriminate]. unfold bytes_ok, byte_ok; cbn [forallb]; lia. }
  destruct (c <? 65536) eqn:E3.
  { replace ((55296 <=? c) && (c <=? 57343)) with false by lia. eexists; split; [reflexivity|]. split; [|discriminate]. unfold bytes_ok, byte_ok; cbn [forallb]; lia. }
  replace (c <? 1114112) with true by lia. eexists; split; [reflexivity|]. split; [|discriminate]. unfold bytes_ok, byte_ok; cbn [forallb]; lia.
Qed.

Lemma utf8_encode_ok s : valid_str s = true -> exists b, utf8_encode s = Ok b /\ bytes_ok b = true.
Proof.
  induction s as [|c s IH]; intros H.
  - exists []. split; reflexivity.
  - cbn in H. apply andb_prop in H as [Hc Hs]. destruct (IH Hs) as (bs & Hbs & Hok).
    destruct (utf8_encode_char_ok c Hc) as (bc & Hbc & Hokc & _).
    exists (bc ++ bs). cbn [utf8_encode]. rewrite Hbc, Hbs. cbn. split; [reflexivity|].
    rewrite bytes_ok_app, Hokc, Hok. reflexivity.
Qed.

(* encoding fails exactly on strings with a lone surrogate / out-of-range code point *)
Lemma utf8_encode_invalid s : valid_str s = false -> utf8_encode s = Raise UnicodeEncodeError.
Proof.
  induction s as [|c s IH]; intros H; [discriminate|].
  cbn in H. cbn [utf8_encode]. destruct (scalar c) eqn:Ec.
  - destruct (utf8_encode_char_ok c Ec) as (bc & Hbc & _). rewrite Hbc. cbn [bind]. rewrite IH by exact H. reflexivity.
  - unfold scalar, is_surrogate in Ec. unfold utf8_encode_char, is_surrogate.
    destruct (c <? 0) eqn:E0; [reflexivity|].
    replace (c <? 128) with false by lia. replace (c <? 2048) with false by lia.
    destruct (c <? 65536) eqn:E3.
    + replace ((55296 <=? c) && (c <=? 57343)) with true by lia. reflexivity.
    + replace (c <? 1114112) with false by lia. reflexivity.
Qed.

Lemma utf8_encode_ascii s : forallb (fun c => (0 <=? c) && (c <? 128)) s = true -> utf8_encode s = Ok s.
Proof.
  induction s as [|c s IH]; intros H; [reflexivity|]. cbn in H. apply andb_prop in H as [Hc Hs].
  cbn [utf8_encode]. unfold utf8_encode_char. replace (c <? 0) with false by lia. replace (c <? 128) with true by lia.
  cbn [bind]. rewrite IH by exact Hs. reflexivity.
Qed.

Lemma utf8_encode_bytes_ok s b : utf8_encode s = Ok b -> valid_str s = true /\ bytes_ok b = true.
Proof.
  intros H. destruct (valid_str s) eqn:V.
  - destruct (utf8_encode_ok s V) as (b' & Hb & Hok). rewrite Hb in H. ok_inj H. auto.
  - rewrite utf8_encode_invalid in H by exact V. discriminate.
Qed.

(* ---------------------------------------------------------------- mem / partition / split / join *)
Lemma mem_app c a b : mem c (a ++ b) = mem c a || mem c b.
Proof. unfold mem. apply existsb_app. Qed.
Lemma mem_cons c x a : mem c (x :: a) = (c =? x) || mem c a.
Proof. reflexivity. Qed.
Lemma mem_rev c a : mem c (rev a) = mem c a.
Proof. induction a as [|x a IH]; [reflexivity|]. cbn [rev]. rewrite mem_app, IH, mem_cons. cbn. rewrite orb_false_r. apply orb_comm. Qed.
Lemma mem_false_forall c a : mem c a = false <-> Forall (fun x => x <> c) a.
Proof.
  induction a as [|x a IH]; split; intros H; auto.
  - rewrite mem_cons in H. apply orb_false_elim in H as [H1 H2]. constructor; [lia| apply IH; exact H2].
  - inv H. rewrite mem_cons. apply IH in H3. rewrite H3. lia.
Qed.
Lemma mem_true_in c a : mem c a = true <-> In c a.
Proof.
  unfold mem. rewrite existsb_exists. split.
  - intros (x & Hin & E). apply Z.eqb_eq in E. subst. exact Hin.
  - intros H. exists c. split; [exact H | apply Z.eqb_refl].
Qed.

Lemma partition_found c a b : mem c a = false -> partition c (a ++ c :: b) = (a, true, b).
Proof.
  induction a as [|x a IH]; intros H; cbn [app partition].
  - rewrite Z.eqb_refl. reflexivity.
  - rewrite mem_cons in H. apply orb_false_elim in H as [H1 H2].
    replace (x =? c) with false by lia. rewrite IH by exact H2. reflexivity.
Qed.
Lemma partition_notfound c a : mem c a = false -> partition c a = (a, false, []).
Proof.
  induction a as [|x a IH]; intros H; cbn [partition]; [reflexivity|].
  rewrite mem_cons in H. apply orb_false_elim in H as [H1 H2].
  replace (x =? c) with false by lia. rewrite IH by exact H2. reflexivity.
Qed.
Lemma rpartition_notfound c s : mem c s = false -> rpartition c s = ([], false, s).
Proof. intros H. unfold rpartition. rewrite partition_notfound by (rewrite mem_rev; exact H). reflexivity. Qed.
Lemma rpartition_found c a b : mem c b = false -> rpartition c (a ++ c :: b) = (a, true, b).
Proof.
  intros H. unfold rpartition. rewrite rev_app_distr. cbn [rev]. rewrite <- app_assoc. cbn [app].
  rewrite partition_found by (rewrite mem_rev; exact H). rewrite !rev_involutive. reflexivity.
Qed.

Lemma split_on_none c a : mem c a = false -> split_on c a = [a].
Proof.
  induction a as [|x a IH]; intros H; cbn [split_on]; [reflexivity|].
  rewrite mem_cons in H. apply orb_false_elim in H as [H1 H2].
  replace (x =? c) with false by lia. rewrite IH by exact H2. reflexivity.
Qed.
Lemma split_on_app c a rest : mem c a = false -> split_on c (a ++ c :: rest) = a :: split_on c rest.
Proof.
  induction a as [|x a IH]; intros H; cbn [app split_on].
  - rewrite Z.eqb_refl. reflexivity.
  - rewrite mem_cons in H. apply orb_false_elim in H as [H1 H2].
    replace (x =? c) with false by lia. rewrite IH by exact H2. reflexivity.
Qed.
(* c.join(l) splits back into l, unless l is empty (then [""] comes back) *)
Lemma split_on_join c l : l <> [] -> Forall (fun s => mem c s = false) l -> split_on c (join [c] l) = l.
Proof.
  induction l as [|a l IH]; intros Hne H; [congruence|]. inv H.
  destruct l as [|a' l'].
  - cbn [join]. apply split_on_none. assumption.
  - change (join [c] (a :: a' :: l')) with (a ++ [c] ++ join [c] (a' :: l')). cbn [app].
    rewrite split_on_app by assumption. rewrite IH; [reflexivity | discriminate | assumption].
Qed.
(* "".join("/" + p for p in l) splits back into "" :: l *)
Lemma split_on_slashes c l : l <> [] -> Forall (fun s => mem c s = false) l ->
  split_on c (flat_map (fun x => c :: x) l) = [] :: l.
Proof.
  induction l as [|a l IH]; intros Hne H; [congruence|]. inv H.
  cbn [flat_map]. change ((c :: a) ++ flat_map (fun x => c :: x) l) with (c :: a ++ flat_map (fun x => c :: x) l).
  cbn [split_on]. rewrite Z.eqb_refl. f_equal.
  destruct l as [|a' l'].
  - cbn [flat_map]. rewrite app_nil_r. apply split_on_none. assumption.
  - assert (IH' := IH ltac:(discriminate) H3). cbn [flat_map] in IH' |- *.
    change ((c :: a') ++ flat_map (fun x => c :: x) l') with (c :: a' ++ flat_map (fun x => c :: x) l') in IH' |- *.
    rewrite split_on_app by assumption. f_equal.
    cbn [split_on] in IH'. rewrite Z.eqb_refl in IH'. congruence.
Qed.

(* ---------------------------------------------------------------- decimal numbers *)
Definition decf (a c : Z) : Z := a * 10 + (c - 48).
Lemma parse_dec_unfold s : parse_dec s = fold_left decf s 0. Proof. reflexivity. Qed.
Lemma dec_digits_value fuel : forall n acc, (1 <= fuel)%nat -> 0 <= n < 2 ^ Z.of_nat fuel ->
  fold_left decf (dec_digits fuel n acc) 0 = fold_left decf acc n.
Proof.
  induction fuel as [|f IH]; intros n acc Hf Hn; [lia|].
  cbn [dec_digits]. destruct (n <? 10) eqn:E.
  - cbn [fold_left]. unfold decf at 2. f_equal. lia.
  - rewrite Nat2Z.inj_succ, Z.pow_succ_r in Hn by lia.
    assert (Hq : 1 <= n / 10 < 2 ^ Z.of_nat f) by lia.
    destruct f as [|f']. { cbn in Hq. lia. }
    rewrite IH by lia. cbn [fold_left]. unfold decf at 2. f_equal. lia.
Qed.
Lemma dec_digits_digits fuel : forall n acc, 0 <= n -> forallb is_digit acc = true -> forallb is_digit (dec_digits fuel n acc) = true.
Proof.
  induction fuel as [|f IH]; intros n acc Hn Ha; [exact Ha|].
  cbn [dec_digits].
  assert (Hd : forallb is_digit ((48 + n mod 10) :: acc) = true).
  { cbn [forallb]. rewrite Ha. unfold is_digit. lia. }
  destruct (n <? 10); [exact Hd|]. apply IH; [lia | exact Hd].
Qed.
Lemma dec_digits_length fuel : forall n acc, (length (dec_digits fuel n acc) <= fuel + length acc)%nat.
Proof.
  induction fuel as [|f IH]; intros n acc; [cbn; lia|].
  cbn [dec_digits]. destruct (n <? 10). { cbn [length]. lia. }
  specialize (IH (n / 10) ((48 + n mod 10) :: acc)). cbn [length] in IH. lia.
Qed.
Lemma dec_digits_nonempty fuel n acc : (1 <= fuel)%nat -> dec_digits fuel n acc <> [].
Proof.
  revert n acc. induction fuel as [|f IH]; intros n acc Hf; [lia|].
  cbn [dec_digits]. destruct (n <? 10); [discriminate|].
  destruct f as [|f']; [cbn; discriminate|]. apply IH. lia.
Qed.

Lemma log2_fuel n : 0 <= n -> n < 2 ^ Z.of_nat (S (Z.to_nat (Z.log2 n))).
Proof.
  intros H. rewrite Nat2Z.inj_succ, Z2Nat.id by apply Z.log2_nonneg.
  destruct (Z.eq_dec n 0) as [->|Hz]; [cbn; lia|].
  apply Z.log2_spec. lia.
Qed.
Theorem parse_print_nat_dec n : 0 <= n -> parse_dec (print_nat_dec n) = n.
Proof.
  intros H. unfold print_nat_dec. rewrite parse_dec_unfold, dec_digits_value; [reflexivity | lia |].
  split; [exact H | apply log2_fuel; exact H].
Qed.
Lemma print_nat_dec_digits n : 0 <= n -> forallb is_digit (print_nat_dec n) = true /\ print_nat_dec n <> [].
Proof. intros H. split; [apply dec_digits_digits; auto | apply dec_digits_nonempty; lia]. Qed.
Lemma print_nat_dec_short n : 0 <= n <= 65535 -> blen (print_nat_dec n) <= 17.
Proof.
  intros H. unfold print_nat_dec, blen.
  pose proof (dec_digits_length (S (Z.to_nat (Z.log2 n))) n []) as L. cbn [length] in L.
  assert (Z.log2 n <= 15).
  { destruct (Z.eq_dec n 0) as [->|Hz]; [cbn; lia|]. assert (H' : Z.log2 n <= Z.log2 65535) by (apply Z.log2_le_mono; lia). change (Z.log2 65535) with 15 in H'. lia. }
  lia.
Qed.
Lemma digits_no c s : forallb is_digit s = true -> is_digit c = false -> mem c s = false.
Proof.
  intros Hs Hc. apply mem_false_forall. rewrite forallb_forall in Hs. apply Forall_forall. intros x Hin E. subst.
  rewrite (Hs _ Hin) in Hc. discriminate.
Qed.
