(* C12 — persisting and reloading the replay window neither initialises an uninitialised window nor forgets a struck-out number *)
From Coq Require Import ZArith List Lia.
From Verif Require Import Lib.Py Gen.oscore_replay Model.C12 Model.C12Persist Proofs.C12.
Import ListNotations.
Open Scope Z_scope.

Definition sized (c : ctx) : Prop := forall w, window c = Some w -> rw_size w = size c.

Lemma persist_uninitialised : forall sz, initialize_from_persisted sz (persist None) = None.
Proof. reflexivity. Qed.

Lemma reload_window : forall c, sized c -> window (reload c) = window c.
Proof.
  intros c Hs. unfold reload. cbn [window]. destruct (window c) as [w|] eqn:E; cbn; [|reflexivity].
  rewrite <- (Hs w E). destruct w; reflexivity.
Qed.

Lemma reload_id : forall c, sized c -> reload c = c.
Proof.
  intros c Hs. pose proof (reload_window c Hs) as H. unfold reload in *. cbn [window] in H. rewrite H. destruct c; reflexivity.
Qed.

Lemma run_app : forall a b c, run c (a ++ b) = let '(c1, o1) := run c a in let '(c2, o2) := run c1 b in (c2, o1 ++ o2).
Proof.
  induction a as [|r a IH]; intros b c; cbn [run app].
  - destruct (run c b); reflexivity.
  - destruct (unprotect_request c r) as [c1 o]. rewrite IH. destruct (run c1 a) as [c2 os]. destruct (run c2 b). reflexivity.
Qed.

Lemma CtxInv_sized : forall c, CtxInv c -> sized c.
Proof. intros c [_ H] w E. rewrite E in H. apply H. Qed.

(* reloading at any point of any history changes nothing: same outcomes, same final window *)
Lemma run_reload_is_run : forall rs k c, Forall (fun r => 0 <= seqno r) rs -> CtxInv c -> run_reload c k rs = run c rs.
Proof.
  intros rs k c Hrs Hc. unfold run_reload.
  replace (run c rs) with (run c (firstn k rs ++ skipn k rs)) by (rewrite firstn_skipn; reflexivity). rewrite run_app.
  destruct (run c (firstn k rs)) as [c1 o1] eqn:E1.
  assert (Hc1 : CtxInv c1).
  { assert (Hf : Forall (fun r => 0 <= seqno r) (firstn k rs)).
    { clear - Hrs. revert k. induction Hrs as [|x l Hx Hl IH]; intros [|k]; cbn [firstn]; constructor; auto. }
    clear Hrs. revert c c1 o1 Hc E1 Hf. generalize (firstn k rs) as l. induction l as [|r l IH]; intros c c1 o1 Hc E1 Hf; cbn [run] in E1.
    - inversion E1; subst; exact Hc.
    - destruct (unprotect_request c r) as [c' o] eqn:Eu. destruct (run c' l) as [c2 os] eqn:Er. inversion E1; subst.
      inversion Hf as [|? ? Hr Hl]; subst.
      pose proof (unprotect_step c r Hc Hr) as Hs. rewrite Eu in Hs. eapply IH; [apply Hs | exact Er | exact Hl]. }
  rewrite (reload_id c1 (CtxInv_sized c1 Hc1)). reflexivity.
Qed.

(* in particular: a context that is uninitialised when it is stopped is uninitialised after the reload, so no request is accepted
   before a fresh Echo (with C12_uninitialised_never_accepts_without_echo) *)
Lemma reload_stays_uninitialised : forall c, window c = None -> window (reload c) = None.
Proof. intros c H. unfold reload. cbn [window]. rewrite H. reflexivity. Qed.

Example run_reload_nonvacuous :
  let c := {| size := 32; window := None; echo_recovery := Some 7 |} in
  let rs := [ {| seqno := 3; authentic := true; echo := None |}; {| seqno := 3; authentic := true; echo := Some 7 |}; {| seqno := 3; authentic := true; echo := Some 7 |} ] in
  snd (run_reload c 1 rs) = [RejectEcho; Accept; RejectReplay] /\ snd (run_reload c 2 rs) = [RejectEcho; Accept; RejectReplay].
Proof. vm_compute. split; reflexivity. Qed.
