(* C19 — proofs about the path algebra (posixpath.join / PurePosixPath model) and about the translated
   FileServer.request_to_localpath (Gen/fileserver.v): whatever the Uri-Path components are, an accepted request is
   mapped to root's parts followed by the non-empty components, none of which is "..". *)
From Verif Require Import Lib.Py Lib.PyLemmas Lib.Tactics Model.C19Path Gen.fileserver.
Open Scope Z_scope.

(* ------------------------------------------------------------------ strings *)
Lemma str_eqb_eq a b : str_eqb a b = true <-> a = b.
Proof. apply list_eqb_Z_eq. Qed.
Lemma str_eqb_refl a : str_eqb a a = true.
Proof. apply str_eqb_eq. reflexivity. Qed.
Lemma str_eqb_neq a b : str_eqb a b = false <-> a <> b.
Proof. split.
  - intros H E. apply str_eqb_eq in E. congruence.
  - intros H. destruct (str_eqb a b) eqn:E; [|reflexivity]. apply str_eqb_eq in E. contradiction. Qed.

Definition noslash (s : list Z) : Prop := Forall (fun c => c <> SEP) s.

Lemma str_contains_sep s : str_contains [SEP] s = existsb (Z.eqb SEP) s.
Proof. induction s as [|c r IH]; [reflexivity|]. cbn [str_contains str_prefix existsb]. rewrite IH.
  destruct (SEP =? c); reflexivity. Qed.
Lemma str_contains_sep_false s : str_contains [47] s = false -> noslash s.
Proof. change [47] with [SEP]. rewrite str_contains_sep. intros H. apply Forall_forall. intros c Hc E. subst c.
  assert (existsb (Z.eqb SEP) s = true) as X by (apply existsb_exists; exists SEP; split; [assumption|apply Z.eqb_refl]).
  congruence. Qed.
Lemma str_contains_sep_true s : str_contains [47] s = true -> ~ noslash s.
Proof. change [47] with [SEP]. rewrite str_contains_sep. intros H N. apply existsb_exists in H as [c [Hc E]].
  apply Z.eqb_eq in E. subst c. unfold noslash in N. rewrite Forall_forall in N. exact (N _ Hc eq_refl). Qed.

Lemma noslash_startswith b : noslash b -> startswith_sep b = false.
Proof. intros H. destruct b as [|c r]; [reflexivity|]. cbn. inversion H; subst. lia. Qed.

(* ------------------------------------------------------------------ split("/") *)
Lemma split_sep_acc_app cur x y :
  split_sep_acc cur (x ++ SEP :: y) = split_sep_acc cur x ++ split_sep_acc [] y.
Proof. revert cur; induction x as [|c x IH]; intros cur; cbn [app split_sep_acc].
  - rewrite Z.eqb_refl. reflexivity.
  - destruct (c =? SEP); [rewrite IH; reflexivity | apply IH]. Qed.
Lemma split_sep_acc_noslash cur s : noslash s -> split_sep_acc cur s = [cur ++ s].
Proof. revert cur; induction s as [|c r IH]; intros cur H; cbn [split_sep_acc].
  - rewrite app_nil_r. reflexivity.
  - inversion H; subst. replace (c =? SEP) with false by lia. rewrite IH by assumption. rewrite <- app_assoc. reflexivity. Qed.

(* the tail of a parsed path: non-empty, non-"." pieces between slashes *)
Definition tail (s : list Z) : list (list Z) := filter keep_part (split_sep s).
Lemma tail_nil : tail [] = []. Proof. reflexivity. Qed.
Lemma tail_cons_sep s : tail (SEP :: s) = tail s.
Proof. unfold tail, split_sep. cbn [split_sep_acc]. rewrite Z.eqb_refl. reflexivity. Qed.
Lemma tail_app_sep x y : tail (x ++ SEP :: y) = tail x ++ tail y.
Proof. unfold tail, split_sep. rewrite split_sep_acc_app, filter_app. reflexivity. Qed.
Lemma tail_noslash b : noslash b -> tail b = filter keep_part [b].
Proof. intros H. unfold tail, split_sep. rewrite split_sep_acc_noslash by assumption. reflexivity. Qed.

Lemma parse_path_parts s : parts (parse_path s) = tail s.
Proof.
  unfold parse_path. destruct s as [|c1 r1]; [reflexivity|]. cbn [str_empty splitroot].
  destruct (c1 =? SEP) eqn:E1; [|reflexivity]. apply Z.eqb_eq in E1. subst c1. rewrite tail_cons_sep.
  destruct r1 as [|c2 r2]; [reflexivity|].
  destruct (c2 =? SEP) eqn:E2; [|reflexivity]. apply Z.eqb_eq in E2. subst c2.
  destruct r2 as [|c3 r3]; [reflexivity|].
  destruct (c3 =? SEP) eqn:E3; cbn [parts]; [reflexivity|]. rewrite tail_cons_sep. reflexivity. Qed.

(* ------------------------------------------------------------------ posixpath.join *)
Lemma endswith_sep_inv path : endswith_sep path = true -> exists x, path = x ++ [SEP].
Proof. unfold endswith_sep. destruct path as [|c r] eqn:E; [discriminate|]. rewrite <- E. intros H.
  assert (path <> []) as Hn by (rewrite E; discriminate).
  exists (removelast path). rewrite (app_removelast_last 0 Hn) at 1. apply Z.eqb_eq in H. rewrite H. reflexivity. Qed.

Lemma posix_join_app path a b : posix_join path (a ++ b) = posix_join (posix_join path a) b.
Proof. revert path; induction a as [|x a IH]; intros path; [reflexivity|]. cbn [app posix_join].
  destruct (startswith_sep x); [apply IH|]. destruct (str_empty path || endswith_sep path); apply IH. Qed.

(* joining slash-free segments appends them: the tail grows by the kept segments ... *)
Lemma tail_posix_join comps : Forall noslash comps -> forall path,
  tail (posix_join path comps) = tail path ++ filter keep_part comps.
Proof.
  induction 1 as [|b r Hb Hr IH]; intros path; cbn [posix_join filter].
  - rewrite app_nil_r. reflexivity.
  - rewrite (noslash_startswith b Hb).
    assert (filter keep_part (b :: r) = filter keep_part [b] ++ filter keep_part r) as Hf by (cbn; destruct (keep_part b); reflexivity).
    change (if keep_part b then b :: filter keep_part r else filter keep_part r) with (filter keep_part (b :: r)). rewrite Hf.
    destruct (str_empty path) eqn:Ee; cbn [orb].
    + destruct path; [|discriminate]. cbn [app]. rewrite IH, (tail_noslash b Hb), tail_nil. reflexivity.
    + destruct (endswith_sep path) eqn:Es.
      * apply endswith_sep_inv in Es as [x ->]. rewrite <- app_assoc. cbn [app]. rewrite IH.
        rewrite !tail_app_sep, tail_nil, app_nil_r, (tail_noslash b Hb), app_assoc. reflexivity.
      * rewrite IH, tail_app_sep, (tail_noslash b Hb), app_assoc. reflexivity.
Qed.
(* ... and the string keeps its beginning, hence its root *)
Lemma posix_join_prefix comps : Forall noslash comps -> forall path, exists suf, posix_join path comps = path ++ suf.
Proof.
  induction 1 as [|b r Hb Hr IH]; intros path; cbn [posix_join].
  - exists []. rewrite app_nil_r. reflexivity.
  - rewrite (noslash_startswith b Hb). destruct (str_empty path || endswith_sep path).
    + destruct (IH (path ++ b)) as [s ->]. exists (b ++ s). rewrite app_assoc. reflexivity.
    + destruct (IH (path ++ SEP :: b)) as [s ->]. exists (SEP :: b ++ s). rewrite <- app_assoc. reflexivity.
Qed.

(* ------------------------------------------------------------------ the server root *)
Definition root_str (root : list (list Z)) : list Z := match root with [] => [] | a :: r => posix_join a r end.
(* the root directory is given either as an absolute path ("/" followed by something that is not a slash) or as a relative
   path (anything that does not start with a slash: ".", "sub", "./sub/" — the CLI default is ".") *)
Definition root_abs (root : list (list Z)) : Prop := exists c rest, root_str root = SEP :: c :: rest /\ c <> SEP.
Definition root_rel (root : list (list Z)) : Prop := startswith_sep (root_str root) = false.
Definition root_ok (root : list (list Z)) : Prop := root <> [] /\ (root_abs root \/ root_rel root).

Lemma load_parts_joinpath root comps : root <> [] ->
  load_parts (joinpath root comps) = parse_path (posix_join (root_str root) comps).
Proof. intros H. destruct root as [|a r]; [contradiction|]. unfold joinpath, load_parts, root_str. cbn [app].
  rewrite posix_join_app. reflexivity. Qed.
Lemma load_parts_root root : root <> [] -> load_parts root = parse_path (root_str root).
Proof. intros H. destruct root; [contradiction|reflexivity]. Qed.

Lemma anchor_abs c rest suf : c <> SEP -> anchor (parse_path ((SEP :: c :: rest) ++ suf)) = 1.
Proof. intros H. unfold parse_path. cbn [app str_empty splitroot]. rewrite Z.eqb_refl. replace (c =? SEP) with false by lia. reflexivity. Qed.

(* joining slash-free segments onto a relative path keeps it relative *)
Lemma posix_join_relative comps : Forall noslash comps -> forall path,
  startswith_sep path = false -> startswith_sep (posix_join path comps) = false.
Proof.
  induction 1 as [|b r Hb Hr IH]; intros path Hp; cbn [posix_join]; [exact Hp|].
  rewrite (noslash_startswith b Hb). destruct (str_empty path) eqn:Ee; cbn [orb].
  - destruct path; [|discriminate]. apply IH. cbn [app]. apply noslash_startswith. exact Hb.
  - destruct path as [|c p]; [discriminate|]. destruct (endswith_sep (c :: p)); apply IH; exact Hp.
Qed.
Lemma anchor_rel s : startswith_sep s = false -> anchor (parse_path s) = 0.
Proof. intros H. unfold parse_path. destruct s as [|c r]; [reflexivity|]. cbn [str_empty splitroot]. cbn in H. rewrite H. reflexivity. Qed.

(* ------------------------------------------------------------------ confinement *)
Lemma strip_prefix_app pre rest : strip_prefix pre (pre ++ rest) = Some rest.
Proof. induction pre as [|a pre IH]; [reflexivity|]. cbn. rewrite str_eqb_refl. exact IH. Qed.
Lemma strip_prefix_inv pre l rest : strip_prefix pre l = Some rest -> l = pre ++ rest.
Proof. revert l; induction pre as [|a pre IH]; intros l H; cbn in H.
  - injection H as ->. reflexivity.
  - destruct l as [|b l]; [discriminate|]. destruct (str_eqb a b) eqn:E; [|discriminate].
    apply str_eqb_eq in E. subst b. rewrite (IH _ H). reflexivity. Qed.

Definition nonempty (x : list Z) : bool := negb (str_empty x).
(* components the check lets through *)
Definition comp_ok (p : list Z) : Prop := noslash p /\ p <> DOT /\ p <> DOTDOT.

Lemma filter_keep_ok comps : Forall comp_ok comps -> filter keep_part comps = filter nonempty comps.
Proof. induction 1 as [|b r [_ [Hd _]] _ IH]; [reflexivity|]. cbn [filter]. rewrite IH. unfold keep_part, nonempty.
  apply str_eqb_neq in Hd. rewrite Hd, andb_true_r. reflexivity. Qed.
Lemma no_dotdot_ok comps : Forall comp_ok comps -> existsb (str_eqb DOTDOT) (filter nonempty comps) = false.
Proof. induction 1 as [|b r [_ [_ Hd]] _ IH]; [reflexivity|]. cbn [filter]. destruct (nonempty b); [|exact IH].
  cbn [existsb]. rewrite IH, orb_false_r. apply str_eqb_neq. congruence. Qed.

(* The check inside request_to_localpath is whatever boolean combination the source has; the lemmas below only use what it
   decides (by cases on the three atomic tests), so that reordering / rephrasing the condition does not break them *)
Lemma existsb_false_Forall {A} (F : A -> bool) (P : A -> Prop) l : (forall a, F a = false -> P a) -> existsb F l = false -> Forall P l.
Proof. intros H. induction l as [|x l IH]; cbn; [constructor|]. intros E. apply orb_false_elim in E as [E1 E2]. constructor; auto. Qed.
Lemma existsb_false_In {A} (F : A -> bool) l a : existsb F l = false -> In a l -> F a = false.
Proof. intros E Hin. destruct (F a) eqn:Ea; [|reflexivity].
  assert (existsb F l = true) as X by (apply existsb_exists; exists a; split; assumption). congruence. Qed.
Ltac atom_cases p :=
  destruct (str_contains [47] p) eqn:?E1; destruct (str_eqb p [46]) eqn:?E2; destruct (str_eqb p [46; 46]) eqn:?E3.
Lemma atoms_ok p : str_contains [47] p = false -> str_eqb p [46] = false -> str_eqb p [46; 46] = false -> comp_ok p.
Proof. intros H1 H2 H3. repeat split; [apply str_contains_sep_false; exact H1|apply str_eqb_neq in H2; exact H2|apply str_eqb_neq in H3; exact H3]. Qed.

(* the joined path of checked components *)
Lemma joined_ok root comps : root_ok root -> Forall comp_ok comps ->
  load_parts (joinpath root comps) =
    {| anchor := anchor (load_parts root); parts := parts (load_parts root) ++ filter nonempty comps |}.
Proof.
  intros [Hne Hkind] Hok.
  assert (Forall noslash comps) as Hns by (eapply Forall_impl; [|exact Hok]; intros a [Ha _]; exact Ha).
  rewrite load_parts_joinpath, load_parts_root by assumption.
  assert (parts (parse_path (posix_join (root_str root) comps)) = parts (parse_path (root_str root)) ++ filter nonempty comps) as Hp
    by (rewrite !parse_path_parts, tail_posix_join, filter_keep_ok by assumption; reflexivity).
  assert (anchor (parse_path (posix_join (root_str root) comps)) = anchor (parse_path (root_str root))) as Ha.
  { destruct Hkind as [[c [rest [Hr Hc]]]|Hrel].
    - destruct (posix_join_prefix comps Hns (root_str root)) as [suf Hs]. rewrite Hs, Hr.
      rewrite (anchor_abs c rest suf Hc). rewrite <- (app_nil_r (SEP :: c :: rest)). symmetry. apply anchor_abs. exact Hc.
    - rewrite (anchor_rel _ Hrel). apply anchor_rel. apply posix_join_relative; assumption. }
  destruct (parse_path (posix_join (root_str root) comps)) as [a p]. cbn in Ha, Hp. subst. reflexivity.
Qed.

Lemma request_to_localpath_ok self req p : root_ok (fs_root self) ->
  request_to_localpath self req = Ok p ->
  Forall comp_ok (opt_uri_path req) /\ p = joinpath (fs_root self) (opt_uri_path req).
Proof.
  intros Hroot H. unfold request_to_localpath in H. cbv zeta in H.
  match type of H with (if existsb ?F ?l then _ else _) = _ => destruct (existsb F l) eqn:E end; [discriminate|]. injection H as <-.
  split; [|reflexivity]. eapply existsb_false_Forall; [|exact E]. intros q Hq. cbv beta in Hq. unfold str_in in Hq. cbn [existsb] in Hq.
  atom_cases q; cbn in Hq; try discriminate. apply atoms_ok; assumption.
Qed.

(* THE kernel theorem: an accepted request designates root's parts followed by the non-empty Uri-Path components *)
Theorem request_to_localpath_confined self req p : root_ok (fs_root self) ->
  request_to_localpath self req = Ok p ->
  load_parts p = {| anchor := anchor (load_parts (fs_root self));
                    parts := parts (load_parts (fs_root self)) ++ filter nonempty (opt_uri_path req) |}
  /\ under (load_parts (fs_root self)) (load_parts p) = true.
Proof.
  intros Hroot H. destruct (request_to_localpath_ok _ _ _ Hroot H) as [Hok ->].
  pose proof (joined_ok _ _ Hroot Hok) as Hj. split; [exact Hj|].
  rewrite Hj. unfold under. cbn [anchor parts]. rewrite Z.eqb_refl, strip_prefix_app, (no_dotdot_ok _ Hok). reflexivity.
Qed.
(* the anchor of the root: 1 for an absolute root, 0 (relative: never an absolute path, whatever the components) otherwise *)
Lemma root_anchor root : root <> [] -> (root_abs root -> anchor (load_parts root) = 1) /\ (root_rel root -> anchor (load_parts root) = 0).
Proof. intros Hne. rewrite load_parts_root by exact Hne. split.
  - intros [c [rest [Hr Hc]]]. rewrite Hr, <- (app_nil_r (SEP :: c :: rest)). apply anchor_abs. exact Hc.
  - intros H. apply anchor_rel. exact H. Qed.

(* it never fails in any other way, and rejects exactly the hostile components *)
Theorem request_to_localpath_total self req :
  (exists p, request_to_localpath self req = Ok p) \/ request_to_localpath self req = Raise InvalidPathError.
Proof. unfold request_to_localpath. cbv zeta. match goal with |- context [existsb ?F ?l] => destruct (existsb F l) end; [right|left; eexists]; reflexivity. Qed.
Theorem request_to_localpath_rejects self req p : In p (opt_uri_path req) ->
  (~ noslash p \/ p = DOT \/ p = DOTDOT) -> request_to_localpath self req = Raise InvalidPathError.
Proof.
  intros Hin H. unfold request_to_localpath. cbv zeta.
  match goal with |- context [existsb ?F ?l] => destruct (existsb F l) eqn:E end; [reflexivity|]. exfalso.
  pose proof (existsb_false_In _ _ _ E Hin) as Hq. cbv beta in Hq. unfold str_in in Hq. cbn [existsb] in Hq.
  atom_cases p; cbn in Hq; try discriminate.
  destruct H as [H|[H|H]].
  - apply H. apply str_contains_sep_false. assumption.
  - subst p. cbn in E2. discriminate.
  - subst p. cbn in E3. discriminate.
Qed.
Theorem request_to_localpath_accepts self req : Forall comp_ok (opt_uri_path req) ->
  request_to_localpath self req = Ok (joinpath (fs_root self) (opt_uri_path req)).
Proof.
  intros H. unfold request_to_localpath. cbv zeta.
  match goal with |- context [existsb ?F ?l] => destruct (existsb F l) eqn:E end; [|reflexivity]. exfalso.
  apply existsb_exists in E as [p [Hp E]]. rewrite Forall_forall in H. destruct (H _ Hp) as [H1 [H2 H3]].
  cbv beta in E. unfold str_in in E. cbn [existsb] in E.
  atom_cases p; cbn in E; try discriminate;
    first [ exact (str_contains_sep_true _ E1 H1) | apply str_eqb_eq in E2; subst p; apply H2; reflexivity | apply str_eqb_eq in E3; subst p; apply H3; reflexivity ].
Qed.

(* under is really a prefix statement *)
Lemma under_inv root p : under root p = true ->
  anchor p = anchor root /\ exists rest, parts p = parts root ++ rest /\ ~ In DOTDOT rest.
Proof.
  unfold under. intros H. apply andb_prop in H as [Ha H]. split; [lia|].
  destruct (strip_prefix (parts root) (parts p)) as [rest|] eqn:E; [|discriminate].
  exists rest. split; [apply strip_prefix_inv; exact E|].
  intros Hin. assert (existsb (str_eqb DOTDOT) rest = true) as X
    by (apply existsb_exists; exists DOTDOT; split; [assumption|apply str_eqb_refl]).
  rewrite X in H. discriminate.
Qed.

(* ------------------------------------------------------------------ the code before commit 2f695ec (finding F8) *)
Definition request_to_localpath_F8 (self : fileserver) (request : request) : M (list (list Z)) :=
  let path := (opt_uri_path request) in
  if (existsb (fun p => ((str_contains [47] p) || (str_in p [[46]; [46; 46]]))) path) then
    Raise InvalidPathError
  else
    Ok (truediv (fs_root self) (str_join [47] path)).
