(* C03 — part 4 of the proofs: the statements about whole runs from the initial state *)
From Verif Require Import Lib.Py Lib.Tactics Model.C03 Proofs.C03 Proofs.C03struct Proofs.C03hist.
Open Scope Z_scope.

Definition final_of (mid0 : Z) (draws : list Z) (evs : list event) : state := fst (run (init mid0 draws) evs).
Definition trace_of (mid0 : Z) (draws : list Z) (evs : list event) : list output := concat (snd (run (init mid0 draws) evs)).
(* scripted random stream within [0,1]; request ids pairwise different; tunings admissible *)
Definition wf_run (draws : list Z) (evs : list event) : Prop :=
  Forall (fun n => 0 <= n <= RNG_DEN) draws /\ wf_events [] evs.

Lemma reach : forall mid0 draws evs, wf_run draws evs ->
  Struct (seen_all [] evs) (final_of mid0 draws evs) /\
  Hist (seen_all [] evs) (ks_all [] evs) (final_of mid0 draws evs) (trace_of mid0 draws evs) /\
  no_error (trace_of mid0 draws evs) /\ Pend (recv_keys evs) (final_of mid0 draws evs).
Proof.
  intros mid0 draws evs [Hd Hw]. unfold final_of, trace_of. destruct (run (init mid0 draws) evs) as [st' os] eqn:R.
  pose proof (run_inv evs [] [] (init mid0 draws) [] st' os (struct_init mid0 draws Hd) (hist_init mid0 draws) (pend_init mid0 draws) Hw R) as H. cbn in H. exact H.
Qed.

Lemma in_sched : forall m0 T0 t0 n t m, In (t, m) (sched_of m0 T0 t0 n) -> m = m0 /\ exists k, (k < n)%nat /\ t = T0 + t0 * (2 ^ Z.of_nat k - 1).
Proof.
  intros. unfold sched_of in H. apply in_map_iff in H. destruct H as [k [Hk Hin]]. inv Hk. split; auto. exists k. split; auto. apply in_seq in Hin. lia.
Qed.
Lemma sched_length : forall m T0 t n, length (sched_of m T0 t n) = n.
Proof. intros. unfold sched_of. rewrite map_length, seq_length. reflexivity. Qed.

Lemma sent_good : forall mid0 draws evs t m, wf_run draws evs -> In (OSend t m) (trace_of mid0 draws evs) ->
  exists T0 t0 n, copies (m_rid m) (trace_of mid0 draws evs) = sched_of m T0 t0 n /\ (0 < n)%nat /\
    range (m_tuning m) t0 /\ Z.of_nat n <= MAX_RETRANSMIT (m_tuning m) + 1 /\
    timers_ok (final_of mid0 draws evs) (m_rid m) m T0 t0 n /\
    ((exists e, In e (active_exchanges (final_of mid0 draws evs)) /\ e_rid e = m_rid m) \/
     In (m_remote m, m_mid m) (recv_keys evs) \/ In (err_key (m_remote m)) (recv_keys evs) \/
     (Z.of_nat n = MAX_RETRANSMIT (m_tuning m) + 1 /\
      (In (OFail (T0 + t0 * (2 ^ (MAX_RETRANSMIT (m_tuning m) + 1) - 1)) (m_rid m) ConRetransmitsExceeded) (trace_of mid0 draws evs) \/
       In (gone_key (m_rid m)) (recv_keys evs))) \/
     ((exists tf, In (OFail tf (m_rid m) NetworkError) (trace_of mid0 draws evs)) \/ In (gone_key (m_rid m)) (recv_keys evs))).
Proof.
  intros mid0 draws evs t m W Hin. destruct (reach mid0 draws evs W) as (S & [_ Hg] & _).
  destruct (Hg (m_rid m)) as (m0 & T0 & t0 & n & Hc & Hn & Ht & Hb & Hcl).
  assert (Hi : In (t, m) (copies (m_rid m) (trace_of mid0 draws evs))) by (apply copies_in; auto).
  rewrite Hc in Hi. apply in_sched in Hi. destruct Hi as [-> [k [Hk _]]].
  assert (Hn0 : n <> O) by lia. destruct (Hn Hn0) as (_ & Hr & Hle).
  exists T0, t0, n. splits; auto; try lia.
Qed.

Lemma transmissions_bounded : forall mid0 draws evs t m, wf_run draws evs -> In (OSend t m) (trace_of mid0 draws evs) ->
  (forall t' m', In (OSend t' m') (trace_of mid0 draws evs) -> m_rid m' = m_rid m -> m' = m) /\
  Z.of_nat (length (copies (m_rid m) (trace_of mid0 draws evs))) <= 1 + MAX_RETRANSMIT (m_tuning m).
Proof.
  intros mid0 draws evs t m W Hin. destruct (sent_good _ _ _ _ _ W Hin) as (T0 & t0 & n & Hc & Hn & Hr & Hle & _).
  split.
  - intros t' m' Hin' Hrid. assert (Hi : In (t', m') (copies (m_rid m) (trace_of mid0 draws evs))) by (apply copies_in; auto).
    rewrite Hc in Hi. apply in_sched in Hi. tauto.
  - rewrite Hc, sched_length. lia.
Qed.

(* the gaps between consecutive copies: the first is t, each later one twice the previous *)
Lemma sched_gaps : forall T0 t k, 0 <= k ->
  (T0 + t * (2 ^ (k + 1) - 1)) - (T0 + t * (2 ^ k - 1)) = t * 2 ^ k /\
  (T0 + t * (2 ^ (k + 2) - 1)) - (T0 + t * (2 ^ (k + 1) - 1)) = 2 * ((T0 + t * (2 ^ (k + 1) - 1)) - (T0 + t * (2 ^ k - 1))).
Proof.
  intros. replace (k + 2) with ((k + 1) + 1) by lia. rewrite (pow2_succ (k + 1)) by lia. rewrite pow2_succ by lia. split; ring.
Qed.

Lemma gaps_double : forall mid0 draws evs t m, wf_run draws evs -> In (OSend t m) (trace_of mid0 draws evs) ->
  exists T0 t0 n, copies (m_rid m) (trace_of mid0 draws evs) = sched_of m T0 t0 n /\ (0 < n)%nat /\ range (m_tuning m) t0.
Proof.
  intros mid0 draws evs t m W Hin. destruct (sent_good _ _ _ _ _ W Hin) as (T0 & t0 & n & Hc & Hn & Hr & _). exists T0, t0, n. auto.
Qed.

(* no ACK / RST with this message's (remote, mid): the exchange is still waiting for a timer that is not overdue,
   or the request failed exactly one more doubled interval after the last copy *)
Lemma gives_up : forall mid0 draws evs t m, wf_run draws evs -> In (OSend t m) (trace_of mid0 draws evs) ->
  ~ In (m_remote m, m_mid m) (recv_keys evs) -> ~ In (err_key (m_remote m)) (recv_keys evs) -> ~ In (gone_key (m_rid m)) (recv_keys evs) ->
  exists T0 t0 n, copies (m_rid m) (trace_of mid0 draws evs) = sched_of m T0 t0 n /\ (0 < n)%nat /\ range (m_tuning m) t0 /\
    Z.of_nat n <= MAX_RETRANSMIT (m_tuning m) + 1 /\
    ( (exists e, In e (active_exchanges (final_of mid0 draws evs)) /\ h_message (e_timer e) = m /\
                 h_due (e_timer e) = T0 + t0 * (2 ^ Z.of_nat n - 1) /\ now (final_of mid0 draws evs) <= h_due (e_timer e)) \/
      (Z.of_nat n = MAX_RETRANSMIT (m_tuning m) + 1 /\
       In (OFail (T0 + t0 * (2 ^ (MAX_RETRANSMIT (m_tuning m) + 1) - 1)) (m_rid m) ConRetransmitsExceeded) (trace_of mid0 draws evs)) \/
      (exists tf, In (OFail tf (m_rid m) NetworkError) (trace_of mid0 draws evs)) ).
Proof.
  intros mid0 draws evs t m W Hin Hno Hne Hng. destruct (sent_good _ _ _ _ _ W Hin) as (T0 & t0 & n & Hc & Hn & Hr & Hle & Ht & Hcl).
  exists T0, t0, n. splits; auto. destruct Hcl as [[e [He1 He2]]|[H|[H|[[H1 [H|H]]|[H|H]]]]]; [left|tauto|tauto|right; left; auto|tauto|right; right; exact H|tauto].
  destruct (Ht e He1 He2) as (Hm & Hnc & _ & Hdue). exists e. splits; auto.
  - rewrite Hdue, Hnc. reflexivity.
  - destruct (reach mid0 draws evs W) as (S & _). pose proof (s_ex _ _ S) as Hex. rewrite Forall_forall in Hex. specialize (Hex e He1). unfold entry_ok in Hex. tauto.
Qed.

(* t <= ACK_TIMEOUT * ACK_RANDOM_FACTOR implies the give-up instant is within MAX_TRANSMIT_WAIT of the first copy, and the
   last copy within MAX_TRANSMIT_SPAN (both as cross-multiplied inequalities over Z) *)
Lemma within_max_transmit_wait : forall tn t, wf_tuning tn -> range tn t ->
  t * (2 ^ (MAX_RETRANSMIT tn + 1) - 1) * ARF_den tn <= ACK_TIMEOUT tn * (2 ^ (MAX_RETRANSMIT tn + 1) - 1) * ARF_num tn /\
  t * (2 ^ MAX_RETRANSMIT tn - 1) * ARF_den tn <= ACK_TIMEOUT tn * (2 ^ MAX_RETRANSMIT tn - 1) * ARF_num tn.
Proof.
  intros tn t (HA & Hd & Hn & HR) (H1 & H2).
  assert (0 < 2 ^ (MAX_RETRANSMIT tn + 1)) by (apply Z.pow_pos_nonneg; lia).
  assert (0 < 2 ^ MAX_RETRANSMIT tn) by (apply Z.pow_pos_nonneg; lia).
  split; nia.
Qed.

Lemma no_internal_error : forall mid0 draws evs, wf_run draws evs -> forall t e, ~ In (OError t e) (trace_of mid0 draws evs).
Proof. intros mid0 draws evs W. destruct (reach mid0 draws evs W) as (_ & _ & H & _). exact H. Qed.

Lemma nstart_invariant : forall mid0 draws evs, wf_run draws evs ->
  NoDup (map e_remote (active_exchanges (final_of mid0 draws evs))) /\
  forall r, in_backlogs (final_of mid0 draws evs) r = has_exchange_with (final_of mid0 draws evs) r.
Proof. intros mid0 draws evs W. destruct (reach mid0 draws evs W) as (S & _). split; [apply (s_ex_nodup _ _ S)|apply (s_nstart _ _ S)]. Qed.

Lemma in_back_qset_sub : forall (B : list bent) r q rest x, NoDup (map fst B) -> qget r B = Some q -> incl (q_rids rest) (q_rids q) ->
  In x (back_rids (qset r rest B)) -> In x (back_rids B).
Proof.
  intros B r q rest x N Q Hi H. unfold qset, back_rids in H. cbn [flat_map snd] in H. apply in_app_iff in H. destruct H as [H|H].
  - apply Hi in H. unfold back_rids. apply in_flat_map. exists (r, q). split; [apply qget_in; auto|exact H].
  - fold (back_rids (qdel r B)) in H. apply (count_occ_In Z.eq_dec) in H. apply (count_occ_In Z.eq_dec). pose proof (cnt_qdel_le B r x). lia.
Qed.
Lemma in_back_qdel_sub : forall (B : list bent) r x, In x (back_rids (qdel r B)) -> In x (back_rids B).
Proof. intros. apply (count_occ_In Z.eq_dec) in H. apply (count_occ_In Z.eq_dec). pose proof (cnt_qdel_le B r x). lia. Qed.

Definition live (x : Z) (st : state) : Prop := In x (live_rids st).
Lemma live_iff : forall x st, live x st <-> (exists e, In e (active_exchanges st) /\ e_rid e = x) \/ In x (back_rids (backlogs st)).
Proof.
  intros. unfold live, live_rids. rewrite in_app_iff, in_map_iff. split; intros [H|H]; auto; left; destruct H as [e H]; exists e; tauto.
Qed.

Lemma live_dispatch : forall st1 r st' oe, mm_dispatch_error st1 r = (st', oe) ->
  (forall x, live x st' -> live x st1) /\ (forall t m, ~ In (OSend t m) oe).
Proof.
  intros st1 r st' oe H. unfold mm_dispatch_error, tm_dispatch_error in H. inv H. split.
  - intros x Hx. apply live_iff in Hx. apply live_iff. cbn in Hx. destruct Hx as [[e [He Hr]]|Hx].
    + left. exists e. apply filter_In in He. tauto.
    + right. eapply in_back_qdel_sub; eauto.
  - intros t m Hi. apply in_map_iff in Hi. destruct Hi as [p [Hp _]]. discriminate.
Qed.

Lemma recv_live : forall seen st r mid b st' o, Struct seen st -> _remove_exchange st r mid b = (st', o) ->
  (forall x, live x st' -> live x st \/ ~ In x seen) /\
  (forall t m, In (OSend t m) o -> live (m_rid m) st \/ ~ In (m_rid m) seen).
Proof.
  intros seen st r mid b st' o S H.
  destruct (recv_shape _ _ _ _ _ _ _ S H) as [(X & -> & ->)|(mon & h & st2 & o1 & o2 & X & -> & Ho1c & _ & En & Er & Es & Ex & Eb & Enr & _ & _ & C)].
  + split; [auto|intros t m []].
  + destruct (pop_facts seen st _ mon h S X) as (Hin & _ & _ & _ & _ & Hrest & _). cbn [fst] in *.
    change r with (fst (r, mid)) in C. apply (continue_after_pop seen st (r, mid) mon h st2 st' o2 S X En Er Ex Eb Enr) in C.
    destruct C as (_ & _ & q & Q & Hq). cbn [fst] in *.
    assert (Ho1 : forall t m, ~ In (OSend t m) o1) by (apply (o1_no_error _ _ _ _ Ho1c)).
    destruct q as [|[m2 mon2] rest].
    * destruct Hq as (-> & Ex' & Eb' & _ & _). split.
      -- intros x Hx. left. apply live_iff in Hx. apply live_iff. rewrite Ex', Eb' in Hx. destruct Hx as [[e [He Hr]]|Hx].
         ++ left. exists e. apply Hrest in He. tauto.
         ++ right. eapply in_back_qdel_sub; eauto.
      -- intros t m Hi. rewrite app_nil_r in Hi. exfalso. eapply Ho1; eauto.
    * destruct Hq as (-> & Hr2 & Hwf2 & Hseen2 & t & st1 & oe & Hrg & S1 & _ & _ & Ex' & Eb' & Hcase).
      assert (Hl2 : live (m_rid m2) st).
      { apply live_iff. right. apply (in_back_rids _ r _ (m2, m_rid m2) (qget_in _ _ _ Q)). left. reflexivity. }
      assert (L1 : forall x, live x st1 -> live x st \/ ~ In x seen).
      { intros x Hx. left. apply live_iff in Hx. rewrite Ex', Eb' in Hx. destruct Hx as [[e [He Hr]]|Hx].
        - apply in_xset in He. destruct He as [->|[He _]]; [unfold e_rid, e_timer in Hr; cbn in Hr; subst x; exact Hl2|].
          apply live_iff. left. exists e. apply Hrest in He. tauto.
        - apply live_iff. right. eapply (in_back_qset_sub _ r _ rest); eauto; [apply (s_bl_nodup _ _ S)|].
          intros y Hy. right. exact Hy. }
      destruct Hcase as [(_ & -> & ->)|(_ & D & ->)]; (split; [|intros t' m Hi; apply in_app_iff in Hi; destruct Hi as [Hi|Hi]; [exfalso; eapply Ho1; eauto|]]).
      -- exact L1.
      -- cbn in Hi. destruct Hi as [Hi|[Hi|[]]]; [discriminate|]. inv Hi. left. exact Hl2.
      -- intros x Hx. apply L1. apply (proj1 (live_dispatch _ _ _ _ D)). exact Hx.
      -- destruct Hi as [Hi|Hi]; [discriminate|]. exfalso. eapply (proj2 (live_dispatch _ _ _ _ D)); eauto.
Qed.

(* only live or brand-new messages are put on the wire, and nothing dead comes back to life *)
Lemma finish_live : forall seen (st st1 st' : state) (o_sent o : list output) r oe dr,
  (forall x, live x st1 -> live x st \/ ~ In x seen) ->
  (forall t m, In (OSend t m) o_sent -> live (m_rid m) st \/ ~ In (m_rid m) seen) ->
  ((st' = st1 /\ o = dr ++ o_sent) \/ (mm_dispatch_error st1 r = (st', oe) /\ o = dr ++ oe)) ->
  (forall t m, ~ In (OSend t m) dr) ->
  (forall x, live x st' -> live x st \/ ~ In x seen) /\
  (forall t m, In (OSend t m) o -> live (m_rid m) st \/ ~ In (m_rid m) seen).
Proof.
  intros seen st st1 st' o_sent o r oe dr L1 L2 [(-> & ->)|(D & ->)] Hdr; split; auto.
  - intros t m Hi. apply in_app_iff in Hi. destruct Hi as [Hi|Hi]; [exfalso; eapply Hdr; eauto|eauto].
  - intros x Hx. apply L1. apply (proj1 (live_dispatch _ _ _ _ D)). exact Hx.
  - intros t m Hi. apply in_app_iff in Hi. destruct Hi as [Hi|Hi]; exfalso; [eapply Hdr; eauto|eapply (proj2 (live_dispatch _ _ _ _ D)); eauto].
Qed.

Lemma retransmit_live : forall seen st e h st' o, Struct seen st -> In e (active_exchanges st) -> e_timer e = h ->
  _retransmit st h = (st', o) ->
  (forall x, live x st' -> live x st \/ ~ In x seen) /\
  (forall t m, In (OSend t m) o -> live (m_rid m) st \/ ~ In (m_rid m) seen).
Proof.
  intros seen st e h st' o S He1 He2 H.
  pose proof (retransmit_struct _ _ _ _ _ _ S He1 He2 H) as Sh. cbv zeta in Sh. destruct Sh as (_ & _ & _ & X & Sh).
  destruct (pop_facts seen _ _ _ h S X) as (_ & _ & _ & _ & _ & Hrest & _).
  assert (Hl : live (m_rid (h_message h)) st) by (apply live_iff; left; exists e; split; auto; unfold e_rid; rewrite He2; reflexivity).
  destruct Sh as [(_ & st1 & oe & _ & _ & Ex & Eb & _ & Hcase)|(_ & -> & Ex & Eb & _)].
  - apply (finish_live seen st st1 st' [OSend (now st) (h_message h)] o (m_remote (h_message h)) oe []).
    + intros x Hx. left. apply live_iff in Hx. rewrite Ex, Eb in Hx. destruct Hx as [[e' [He' Hr']]|Hx].
      * apply in_xset in He'. destruct He' as [->|[He' _]]; [unfold e_rid, e_timer in Hr'; cbn in Hr'; subst x; exact Hl|]. apply live_iff. left. exists e'. apply Hrest in He'. tauto.
      * apply live_iff. right. exact Hx.
    + intros t' m Hi. cbn in Hi. destruct Hi as [Hi|[]]. inv Hi. left. exact Hl.
    + destruct Hcase as [(_ & -> & ->)|(_ & D & ->)]; [left|right]; auto.
    + intros t m [].
  - split.
    + intros x Hx. left. apply live_iff in Hx. rewrite Ex, Eb in Hx. destruct Hx as [[e' [He' Hr']]|Hx].
      * apply live_iff. left. exists e'. apply Hrest in He'. tauto.
      * apply live_iff. right. eapply in_back_qdel_sub; eauto.
    + intros t' m Hi. unfold gave_up_outputs in Hi. apply in_map_iff in Hi. destruct Hi as [p [Hp _]]. discriminate.
Qed.

Lemma step_live : forall seen st e st' o, Struct seen st -> wf_event seen e -> step st e = (st', o) ->
  (forall x, live x st' -> live x st \/ ~ In x seen) /\
  (forall t m, In (OSend t m) o -> live (m_rid m) st \/ ~ In (m_rid m) seen).
Proof.
  intros seen st e st' o S W H. destruct e as [rid r tn|r b mid|t| | |r|rid|r ty mid rid|r on]; cbn [step] in *.
  - destruct W as [W1 W2]. pose proof (request_shape _ _ _ _ _ _ _ S W1 W2 H) as Sh. cbv zeta in Sh.
    destruct Sh as [(q & Q & -> & Ex & Eb & _)|(Q & Hno & t & sq & st1 & oe & Hrg & _ & _ & _ & Ex & Eb & _ & Hcase)].
    + split; [|intros t m []]. intros x Hx. apply live_iff in Hx. rewrite Ex, Eb in Hx. destruct Hx as [Hx|Hx]; [left; apply live_iff; auto|].
      unfold qset, back_rids in Hx. cbn [flat_map snd] in Hx. apply in_app_iff in Hx. destruct Hx as [Hx|Hx].
      * unfold q_rids in Hx. rewrite map_app in Hx. apply in_app_iff in Hx. destruct Hx as [Hx|Hx].
        -- left. apply live_iff. right. unfold back_rids. apply in_flat_map. exists (r, q). split; [apply qget_in; auto|exact Hx].
        -- cbn in Hx. destruct Hx as [<-|[]]. right. exact W1.
      * left. apply live_iff. right. eapply in_back_qdel_sub; eauto.
    + match type of Hcase with (_ /\ _ /\ _ = [?d; ?sd]) \/ _ => apply (finish_live seen st st1 st' [sd] o r oe [d]) end.
      * intros x Hx. apply live_iff in Hx. rewrite Ex in Hx. destruct Hx as [[e [He Hr]]|Hx].
        -- apply in_xset in He. destruct He as [->|[He _]]; [right; unfold e_rid, e_timer in Hr; cbn in Hr; subst x; exact W1|left; apply live_iff; left; eauto].
        -- left. apply live_iff. right. apply Eb. exact Hx.
      * intros t' m Hi. cbn in Hi. destruct Hi as [Hi|[]]. inv Hi. right. exact W1.
      * destruct Hcase as [(_ & -> & ->)|(_ & D & ->)]; [left|right]; auto.
      * intros t' m Hi. cbn in Hi. destruct Hi as [Hi|[]]. discriminate.
  - eapply recv_live; eauto.
  - inv H. split; [auto|intros t' m []].
  - destruct (next_timer st) as [h|] eqn:N; [|inv H; split; [auto|intros t' m []]].
    destruct (next_timer_facts _ _ N) as (e & He1 & He2 & Hmin).
    assert (S1 : Struct seen (set_now st (Z.max (now st) (h_due h)))) by (apply struct_set_now; auto).
    apply (retransmit_live seen _ e h st' o S1 He1 He2 H).
  - destruct (next_timer st) as [h|] eqn:N; [|inv H; split; [auto|intros t' m []]].
    destruct (h_due h <=? now st) eqn:Hd; [|inv H; split; [auto|intros t' m []]].
    destruct (next_timer_facts _ _ N) as (e & He1 & He2 & Hmin).
    apply (retransmit_live seen _ e h st' o S He1 He2 H).
  - destruct (live_dispatch _ _ _ _ H) as [L1 L2]. split; [intros x Hx; left; auto|intros t m Hi; exfalso; eapply L2; eauto].
  - inv H. split; [intros x Hx; left; exact Hx|intros t m []].
  - destruct (response_shape _ _ _ _ _ _ _ _ S H) as (st1 & o1 & st2 & o2 & o3 & E1 & -> & S1 & Hn1 & S2 & En & Ex & Eb & _ & _ & Ho2 & Hcase).
    assert (L : (forall x, live x st1 -> live x st \/ ~ In x seen) /\ (forall t m, In (OSend t m) o1 -> live (m_rid m) st \/ ~ In (m_rid m) seen)).
    { revert E1. destruct (ty =? 0); intros E1; [eapply recv_live; eauto|]. inv E1. split; [auto|intros t m []]. }
    destruct L as [L1 L2].
    assert (L12 : forall x, live x st2 -> live x st \/ ~ In x seen).
    { intros x Hx. apply L1. apply live_iff in Hx. apply live_iff. rewrite Ex, Eb in Hx. exact Hx. }
    assert (Hs2 : forall t m, ~ In (OSend t m) o2) by (destruct Ho2 as [->| ->]; intros t m Hi; cbn in Hi; intuition discriminate).
    assert (Hs3 : forall t m, ~ In (OSend t m) o3 /\ forall x, live x st' -> live x st2).
    { intros t m. destruct Hcase as [(-> & Ho3)|(_ & D)].
      - split; auto. destruct Ho3 as [->|[b ->]]; intros Hi; cbn in Hi; intuition discriminate.
      - split; [apply (proj2 (live_dispatch _ _ _ _ D))|apply (proj1 (live_dispatch _ _ _ _ D))]. }
    split.
    + intros x Hx. apply L12. apply (proj2 (Hs3 0 {| m_remote := 0; m_mid := 0; m_rid := 0; m_tuning := {| ACK_TIMEOUT := 0; ARF_num := 0; ARF_den := 0; MAX_RETRANSMIT := 0 |} |})). exact Hx.
    + intros t m Hi. apply in_app_iff in Hi. destruct Hi as [Hi|Hi]; [eauto|]. apply in_app_iff in Hi. destruct Hi as [Hi|Hi]; exfalso; [eapply Hs2|eapply (proj1 (Hs3 t m))]; eauto.
  - inv H. split; [intros x Hx; left; exact Hx|intros t m []].
Qed.

Lemma copies_none : forall x (o : list output), (forall t m, In (OSend t m) o -> m_rid m <> x) -> copies x o = [].
Proof.
  induction o as [|y o IH]; intros H; cbn; auto. destruct y as [t m| | | | |]; try (apply IH; intros t' m' Hi; apply (H t' m'); right; exact Hi).
  assert (m_rid m =? x = false) as -> by (apply Z.eqb_neq; apply (H t m); left; reflexivity).
  apply IH. intros t' m' Hi. apply (H t' m'). right. exact Hi.
Qed.

Lemma seen_after_incl : forall seen e x, In x seen -> In x (seen_after seen e).
Proof. intros. destruct e; cbn; auto. Qed.

(* a message that is neither in _active_exchanges nor in a backlog is never transmitted again *)
Lemma dead_run : forall evs seen st st' os x, Struct seen st -> wf_events seen evs -> In x seen -> ~ live x st ->
  run st evs = (st', os) -> copies x (concat os) = [].
Proof.
  induction evs as [|e evs IH]; intros seen st st' os x S W Hs Hd H; cbn in H.
  - inv H. reflexivity.
  - destruct (step st e) as [st1 o] eqn:E. destruct (run st1 evs) as [st2 os2] eqn:R. inv H. destruct W as [W1 W2].
    destruct (step_struct _ _ _ _ _ S W1 E) as [S1 _]. destruct (step_live _ _ _ _ _ S W1 E) as [L1 L2].
    cbn. rewrite copies_app. rewrite (IH _ st1 st' os2 x S1 W2 (seen_after_incl _ _ _ Hs)); auto.
    + rewrite app_nil_r. apply copies_none. intros t m Hi <-. destruct (L2 t m Hi); tauto.
    + intros Hl. destruct (L1 x Hl); tauto.
Qed.

Lemma run_app : forall a b st, run st (a ++ b) = let '(st1, os1) := run st a in let '(st2, os2) := run st1 b in (st2, os1 ++ os2).
Proof.
  induction a as [|e a IH]; intros b st; cbn.
  - destruct (run st b); reflexivity.
  - destruct (step st e) as [st1 o]. rewrite IH. destruct (run st1 a) as [st2 os1]. destruct (run st2 b) as [st3 os2]. reflexivity.
Qed.
Lemma wf_events_app : forall a b seen, wf_events seen (a ++ b) <-> wf_events seen a /\ wf_events (seen_all seen a) b.
Proof. induction a as [|e a IH]; intros b seen; cbn; [tauto|]. rewrite IH. tauto. Qed.

(* ACK / RST matching an outstanding exchange: no further copy, ever; RST fails the request at that instant, ACK does not *)
(* what _remove_exchange leaves behind for the exchange it ends (state level, any invariant state) *)
Lemma remove_exchange_dead : forall seen st1 r mid b mon h st2 o, Struct seen st1 ->
  xget (r, mid) (active_exchanges st1) = Some (mon, h) -> _remove_exchange st1 r mid b = (st2, o) ->
  mon = m_rid (h_message h) /\ In mon seen /\ ~ live mon st2 /\ copies mon o = [] /\
  (b = false -> forall t e, In (OFail t mon e) o -> e = NetworkError /\ is_refusing st1 r = true).
Proof.
  intros seen st1 r mid b mon h st2 o S X E.
  destruct (recv_shape _ _ _ _ _ _ _ S E) as [(X' & _)|(mon' & h' & st2' & o1 & o2 & X' & -> & Ho1c & Ho1r & En & Er & Es & Ex & Eb & Enr & _ & _ & C)]; [congruence|].
  rewrite X in X'. inv X'.
  destruct (pop_facts _ st1 _ mon' h' S X) as (Hin & _ & Hmon & _ & _ & Hrest & Hbr & _). cbn [fst] in *.
  change r with (fst (r, mid)) in C.
  apply (continue_after_pop seen st1 (r, mid) mon' h' st2' st2 o2 S X En Er Ex Eb Enr) in C.
  destruct C as (_ & _ & q & Q & Hq). cbn [fst] in *.
  assert (Hseen : In mon' seen).
  { eapply live_rids_seen; [exact S|]. unfold live_rids. apply in_app_iff. left. apply in_map_iff. exists ((r, mid), (mon', h')). split; auto. }
  assert (Hdead : ~ live mon' st2 /\ copies mon' o2 = [] /\ forall t e, In (OFail t mon' e) o2 -> e = NetworkError /\ is_refusing st1 r = true).
  { destruct q as [|[m2 mon2] rest].
    - destruct Hq as (-> & Ex' & Eb' & _ & _). splits; auto; [|intros t e []]. intros Hl. apply live_iff in Hl. rewrite Ex', Eb' in Hl. destruct Hl as [[e [He Hr]]|Hl].
      + apply Hrest in He. tauto.
      + apply in_back_qdel_sub in Hl. eapply Hbr; eauto.
    - destruct Hq as (-> & Hr2 & Hwf2 & Hseen2 & t & st1' & oe & Hrg & S1' & _ & _ & Ex' & Eb' & Hcase).
      assert (Hne2 : m_rid m2 <> mon') by (apply Hbr; apply (in_back_rids _ r _ (m2, m_rid m2) (qget_in _ _ _ Q)); left; reflexivity).
      assert (Hd1' : ~ live mon' st1').
      { intros Hl. apply live_iff in Hl. rewrite Ex', Eb' in Hl. destruct Hl as [[e [He Hr]]|Hl].
        * apply in_xset in He. destruct He as [->|[He _]]; [unfold e_rid, e_timer in Hr; cbn in Hr; congruence|]. apply Hrest in He. tauto.
        * eapply (in_back_qset_sub _ r _ rest) in Hl; eauto; [eapply Hbr; eauto|apply (s_bl_nodup _ _ S)|intros y Hy; right; exact Hy]. }
      destruct Hcase as [(_ & -> & ->)|(Hrf & D & ->)]; splits; auto.
      + cbn. assert (m_rid m2 =? mon' = false) as -> by (apply Z.eqb_neq; auto). reflexivity.
      + intros t' e Hi. cbn in Hi. destruct Hi as [Hi|[Hi|[]]]; discriminate.
      + intros Hl. apply Hd1'. apply (proj1 (live_dispatch _ _ _ _ D)). exact Hl.
      + cbn. apply copies_fail_only. apply (proj2 (live_dispatch _ _ _ _ D)).
      + intros t' e Hi. cbn in Hi. destruct Hi as [Hi|Hi]; [discriminate|]. split; auto.
        unfold mm_dispatch_error, tm_dispatch_error in D. inv D. apply in_map_iff in Hi. destruct Hi as [p [Hp _]]. inv Hp. reflexivity. }
  destruct Hdead as (Hd1 & Hd2 & Hd3). splits; auto.
  - rewrite copies_app, Hd2, app_nil_r. destruct Ho1c as [->|[_ ->]]; reflexivity.
  - intros Hb t e Hi. apply in_app_iff in Hi. destruct Hi as [Hi|Hi]; [|eapply Hd3; eauto].
    destruct Ho1c as [->|[Hb' _]]; [inv Hi|congruence].
Qed.

(* a piggy-backed response is an ACK with the message ID of the exchange: no further copy, in this step or in any continuation *)
Lemma piggyback_stops : forall mid0 draws evs1 r mid rid evs2 mon h,
  wf_run draws (evs1 ++ EResponse r 0 mid rid :: evs2) ->
  xget (r, mid) (active_exchanges (final_of mid0 draws evs1)) = Some (mon, h) ->
  let st1 := final_of mid0 draws evs1 in
  let '(st2, o) := step st1 (EResponse r 0 mid rid) in
  let '(st3, os) := run st2 evs2 in
  mon = m_rid (h_message h) /\ copies mon (o ++ concat os) = [] /\
  forall t e, In (OFail t mon e) o -> e = NetworkError /\ is_refusing st1 r = true.
Proof.
  intros mid0 draws evs1 r mid rid evs2 mon h [Hd W] X st1.
  apply wf_events_app in W. destruct W as [W1 [_ W2]]. cbn [seen_after] in W2.
  destruct (reach mid0 draws evs1 (conj Hd W1)) as (S & _). fold st1 in S, X.
  destruct (step st1 (EResponse r 0 mid rid)) as [st2 o] eqn:E. destruct (run st2 evs2) as [st3 os] eqn:R.
  destruct (step_struct _ _ (EResponse r 0 mid rid) _ _ S I E) as [S2 _]. cbn [seen_after] in S2.
  cbn [step] in E. unfold dispatch_response in E. cbn [Z.eqb] in E.
  destruct (_remove_exchange st1 r mid false) as [sta o1] eqn:E1.
  destruct (remove_exchange_dead _ _ _ _ _ _ _ _ _ S X E1) as (Hmon & Hseen & Hdead & Hc1 & Hf1).
  unfold tm_process_response in E.
  destruct (existsb (fun q => (fst q =? rid) && (snd q =? r)) (outgoing_requests sta)); injection E as Es Eo; subst st2 o.
  - splits; auto.
    + rewrite !copies_app, Hc1. cbn. apply (dead_run evs2 _ _ st3 os mon S2 W2 Hseen); auto.
    + intros t e Hi. apply in_app_iff in Hi. destruct Hi as [Hi|Hi]; [apply (Hf1 eq_refl t e Hi)|]. cbn in Hi. destruct Hi as [Hi|[]]. discriminate.
  - splits; auto.
    + rewrite !copies_app, Hc1. cbn. apply (dead_run evs2 _ _ st3 os mon S2 W2 Hseen); auto.
    + intros t e Hi. apply in_app_iff in Hi. destruct Hi as [Hi|Hi]; [apply (Hf1 eq_refl t e Hi)|]. destruct Hi.
Qed.

Lemma ack_stops : forall mid0 draws evs1 r b mid evs2 mon h,
  wf_run draws (evs1 ++ ERecv r b mid :: evs2) ->
  xget (r, mid) (active_exchanges (final_of mid0 draws evs1)) = Some (mon, h) ->
  let st1 := final_of mid0 draws evs1 in
  let '(st2, o) := step st1 (ERecv r b mid) in
  let '(st3, os) := run st2 evs2 in
  mon = m_rid (h_message h) /\ copies mon (o ++ concat os) = [] /\
  (if b then In (gone_key mon) (recv_keys evs1) \/ In (OFail (now st1) mon MessageError) o
   else forall t e, In (OFail t mon e) o -> e = NetworkError /\ is_refusing st1 r = true).
Proof.
  intros mid0 draws evs1 r b mid evs2 mon h [Hd W] X st1.
  apply wf_events_app in W. destruct W as [W1 [_ W2]]. cbn [seen_after] in W2.
  destruct (reach mid0 draws evs1 (conj Hd W1)) as (S & _ & _ & [Pd1 _]). fold st1 in S, X, Pd1.
  destruct (step st1 (ERecv r b mid)) as [st2 o] eqn:E. destruct (run st2 evs2) as [st3 os] eqn:R.
  destruct (step_struct _ _ (ERecv r b mid) _ _ S I E) as [S2 _]. cbn [seen_after] in S2.
  cbn [step] in E. destruct (recv_shape _ _ _ _ _ _ _ S E) as [(X' & _)|(mon' & h' & st2' & o1 & o2 & X' & -> & Ho1c & Ho1r & En & Er & Es & Ex & Eb & Enr & _ & _ & C)]; [congruence|].
  rewrite X in X'. inv X'.
  destruct (pop_facts _ st1 _ mon' h' S X) as (Hin & _ & Hmon & _ & _ & Hrest & Hbr & _). cbn [fst] in *.
  change r with (fst (r, mid)) in C.
  apply (continue_after_pop (seen_all [] evs1) st1 (r, mid) mon' h' st2' st2 o2 S X En Er Ex Eb Enr) in C.
  destruct C as (_ & _ & q & Q & Hq). cbn [fst] in *.
  assert (Hseen : In mon' (seen_all [] evs1)).
  { eapply live_rids_seen; [exact S|]. unfold live_rids. apply in_app_iff. left. apply in_map_iff. exists ((r, mid), (mon', h')). split; auto. }
  assert (Hdead : ~ live mon' st2 /\ copies mon' o2 = [] /\ forall t e, In (OFail t mon' e) o2 -> e = NetworkError /\ is_refusing st1 r = true).
  { destruct q as [|[m2 mon2] rest].
    - destruct Hq as (-> & Ex' & Eb' & _ & _). splits; auto; [|intros t e []]. intros Hl. apply live_iff in Hl. rewrite Ex', Eb' in Hl. destruct Hl as [[e [He Hr]]|Hl].
      + apply Hrest in He. tauto.
      + apply in_back_qdel_sub in Hl. eapply Hbr; eauto.
    - destruct Hq as (-> & Hr2 & Hwf2 & Hseen2 & t & st1' & oe & Hrg & S1' & _ & _ & Ex' & Eb' & Hcase).
      assert (Hne2 : m_rid m2 <> mon') by (apply Hbr; apply (in_back_rids _ r _ (m2, m_rid m2) (qget_in _ _ _ Q)); left; reflexivity).
      assert (Hd1' : ~ live mon' st1').
      { intros Hl. apply live_iff in Hl. rewrite Ex', Eb' in Hl. destruct Hl as [[e [He Hr]]|Hl].
        * apply in_xset in He. destruct He as [->|[He _]]; [unfold e_rid, e_timer in Hr; cbn in Hr; congruence|]. apply Hrest in He. tauto.
        * eapply (in_back_qset_sub _ r _ rest) in Hl; eauto; [eapply Hbr; eauto|apply (s_bl_nodup _ _ S)|intros y Hy; right; exact Hy]. }
      destruct Hcase as [(_ & -> & ->)|(Hrf & D & ->)]; splits; auto.
      + cbn. assert (m_rid m2 =? mon' = false) as -> by (apply Z.eqb_neq; auto). reflexivity.
      + intros t' e Hi. cbn in Hi. destruct Hi as [Hi|[Hi|[]]]; discriminate.
      + intros Hl. apply Hd1'. apply (proj1 (live_dispatch _ _ _ _ D)). exact Hl.
      + cbn. apply copies_fail_only. apply (proj2 (live_dispatch _ _ _ _ D)).
      + intros t' e Hi. cbn in Hi. destruct Hi as [Hi|Hi]; [discriminate|]. split; auto.
        unfold mm_dispatch_error, tm_dispatch_error in D. inv D. apply in_map_iff in Hi. destruct Hi as [p [Hp _]]. inv Hp. reflexivity. }
  destruct Hdead as (Hd1 & Hd2 & Hd3). splits; auto.
  - rewrite !copies_app, Hd2. rewrite (dead_run evs2 _ st2 st3 os mon' S2 W2 Hseen Hd1 R).
    destruct Ho1c as [->|[_ ->]]; reflexivity.
  - destruct b.
    + destruct (Pd1 _ Hin) as [Ho|Hg]; [right|left; unfold e_rid, e_timer in Hg; cbn in Hg; rewrite <- Hmon in Hg; exact Hg]. unfold e_rid, e_remote, e_timer in Ho. cbn in Ho. rewrite <- Hmon in Ho.
      rewrite Ho1r; auto; [apply in_app_iff; left; left; reflexivity|]. apply in_map_iff. eexists. split; [|exact Ho]. reflexivity.
    + intros t e Hi. apply in_app_iff in Hi. destruct Hi as [Hi|Hi]; [|eapply Hd3; eauto].
      destruct Ho1c as [->|[Hb _]]; [inv Hi|discriminate].
Qed.

(* an empty ACK / RST with a (remote, mid) of no outstanding exchange changes nothing and produces nothing *)
Lemma foreign_ack_inert : forall st r mid b, xget (r, mid) (active_exchanges st) = None ->
  step st (ERecv r b mid) = (st, []).
Proof. intros st r mid b H. cbn. unfold _remove_exchange. rewrite H. reflexivity. Qed.
(* [xget] finds an entry exactly when a message with that remote and that mid is outstanding *)
Lemma xget_none_iff : forall seen st r mid, Struct seen st ->
  (xget (r, mid) (active_exchanges st) = None <->
   forall e, In e (active_exchanges st) -> ~ (m_remote (h_message (e_timer e)) = r /\ m_mid (h_message (e_timer e)) = mid)).
Proof.
  intros seen st r mid S. pose proof (s_ex _ _ S) as Hex. rewrite Forall_forall in Hex. split.
  - intros X e He [H1 H2]. pose proof (Hex e He) as Hok. unfold entry_ok in Hok. destruct Hok as (Hk & _).
    destruct e as [k v]. cbn in *. rewrite H1, H2 in Hk. subst k. rewrite (xget_of_in _ _ _ (s_ex_nodup _ _ S) He) in X. discriminate.
  - intros H. destruct (xget (r, mid) (active_exchanges st)) as [v|] eqn:X; auto. exfalso. apply xget_in in X.
    pose proof (Hex _ X) as Hok. unfold entry_ok in Hok. destruct Hok as (Hk & _). cbn [fst] in Hk. injection Hk as H1 H2. apply (H _ X). split; symmetry; assumption.
Qed.

(* a transport error reported for r: every exchange with r and every message backlogged for r is dropped -- no further copy in
   this step or in any continuation -- and every request pending towards r fails with NetworkError at that instant *)
Lemma error_stops : forall mid0 draws evs1 r evs2, wf_run draws (evs1 ++ EError r :: evs2) ->
  let st1 := final_of mid0 draws evs1 in
  let '(st2, o) := step st1 (EError r) in
  let '(st3, os) := run st2 evs2 in
  (forall e, In e (active_exchanges st1) -> e_remote e = r -> copies (e_rid e) (o ++ concat os) = []) /\
  (forall q p, In (r, q) (backlogs st1) -> In p q -> copies (m_rid (fst p)) (o ++ concat os) = []) /\
  (forall rid, In (rid, r) (outgoing_requests st1) -> In (OFail (now st1) rid NetworkError) o).
Proof.
  intros mid0 draws evs1 r evs2 [Hd W] st1.
  apply wf_events_app in W. destruct W as [W1 [_ W2]]. cbn [seen_after] in W2.
  destruct (reach mid0 draws evs1 (conj Hd W1)) as (S & _). fold st1 in S.
  destruct (step st1 (EError r)) as [st2 o] eqn:E. destruct (run st2 evs2) as [st3 os] eqn:R.
  destruct (step_struct _ _ (EError r) _ _ S I E) as [S2 _]. cbn [seen_after] in S2.
  cbn [step] in E. destruct (error_struct _ _ _ _ _ S E) as (_ & _ & _ & Ex & Eb & _ & ->).
  assert (Hco : forall x, copies x (map (fun q => OFail (now st1) (fst q) NetworkError) (filter (fun q => snd q =? r) (outgoing_requests st1))) = []).
  { intros x. apply copies_fail_only. intros t m Hi. apply in_map_iff in Hi. destruct Hi as [p [Hp _]]. discriminate. }
  pose proof (s_live _ _ S) as Hl. unfold live_rids in Hl.
  assert (Hdead : forall x, In x (live_rids st1) -> ~ live x st2 -> copies x (map (fun q => OFail (now st1) (fst q) NetworkError) (filter (fun q => snd q =? r) (outgoing_requests st1)) ++ concat os) = []).
  { intros x Hx Hnl. rewrite copies_app, Hco. cbn. apply (dead_run evs2 _ st2 st3 os x S2 W2); auto. apply (live_rids_seen _ st1 x S Hx). }
  splits.
  - intros e He Hr. apply Hdead; [unfold live_rids; apply in_app_iff; left; apply in_map; exact He|].
    intros Hlv. apply live_iff in Hlv. rewrite Ex, Eb in Hlv. destruct Hlv as [[e' [He' Hr']]|Hb].
    + apply filter_In in He'. destruct He' as [He' Hne]. apply negb_true_iff in Hne. apply Z.eqb_neq in Hne.
      assert (e' = e) as -> by (apply (in_unique_map e_rid (active_exchanges st1)); auto; eapply nodup_app_l; exact Hl). apply Hne. exact Hr.
    + apply in_back_qdel_sub in Hb. eapply nodup_app_disjoint; [exact Hl| |exact Hb]. apply in_map. exact He.
  - intros q p Hq Hp. pose proof (in_back_rids _ _ _ _ Hq Hp) as Hbx. apply Hdead; [unfold live_rids; apply in_app_iff; right; exact Hbx|].
    intros Hlv. apply live_iff in Hlv. rewrite Ex, Eb in Hlv. destruct Hlv as [[e' [He' Hr']]|Hb].
    + apply filter_In in He'. destruct He' as [He' _]. eapply nodup_app_disjoint; [exact Hl| |exact Hbx]. rewrite <- Hr'. apply in_map. exact He'.
    + pose proof (qget_of_in _ _ _ (s_bl_nodup _ _ S) Hq) as Q. rewrite (NoDup_count_occ Z.eq_dec) in Hl. specialize (Hl (m_rid (fst p))).
      rewrite count_occ_app, (cnt_qdel_split _ _ _ _ (s_bl_nodup _ _ S) Q) in Hl.
      assert (count_occ Z.eq_dec (q_rids q) (m_rid (fst p)) > 0)%nat by (apply count_occ_In; unfold q_rids; apply in_map_iff; eauto).
      apply (count_occ_In Z.eq_dec) in Hb. lia.
  - intros rid Hi. apply in_map_iff. exists (rid, r). split; auto. apply filter_In. split; auto. cbn. apply Z.eqb_refl.
Qed.

(* cancelling Request.response tells the message layer nothing: exchanges, timers and backlogs are exactly as before
   (send_message returns no canceller) -- the message keeps being retransmitted, see the Example in Props/C03.v *)
Lemma cancel_inert : forall st rid, let '(st', o) := step st (ECancel rid) in
  active_exchanges st' = active_exchanges st /\ backlogs st' = backlogs st /\ now st' = now st /\ o = [].
Proof. intros. cbn. auto. Qed.

(* ---- transports that refuse a datagram synchronously (dispatch_error runs inside message_interface.send) ---- *)
Lemma dispatch_error_facts : forall st r st' o, mm_dispatch_error st r = (st', o) ->
  (forall t m, ~ In (OSend t m) o) /\ has_exchange_with st' r = false /\ in_backlogs st' r = false /\
  (forall rid, In (rid, r) (outgoing_requests st) -> In (OFail (now st) rid NetworkError) o) /\
  (forall q, In q (outgoing_requests st') -> snd q <> r).
Proof.
  intros st r st' o H. unfold mm_dispatch_error, tm_dispatch_error in H. inv H. splits.
  - intros t m Hi. apply in_map_iff in Hi. destruct Hi as [p [Hp _]]. discriminate.
  - apply has_exchange_false_l. cbn. intros e He. apply filter_In in He. destruct He as [_ He]. apply negb_true_iff in He. apply Z.eqb_neq in He. exact He.
  - unfold in_backlogs. cbn. rewrite qget_qdel_same. reflexivity.
  - intros rid Hi. apply in_map_iff. exists (rid, r). split; auto. apply filter_In. split; auto. cbn. apply Z.eqb_refl.
  - cbn. intros q Hq. apply filter_In in Hq. destruct Hq as [_ Hq]. apply negb_true_iff in Hq. apply Z.eqb_neq in Hq. exact Hq.
Qed.

Lemma add_exchange_facts : forall st m mon st1 o1, _add_exchange st m mon = (st1, o1) ->
  refusing st1 = refusing st /\ now st1 = now st /\ outgoing_requests st1 = outgoing_requests st /\ forall t m', ~ In (OSend t m') o1.
Proof.
  intros st m mon st1 o1 H. unfold _add_exchange, uniform, _schedule_retransmit in H.
  destruct (in_backlogs st (m_remote m)); cbn in H; inv H; cbn; splits; auto; intros t m' [Hi|[]]; discriminate.
Qed.

(* a refused FIRST transmission: nothing on the wire, no exchange and no backlog left for the remote, every request pending
   towards it (the new one included) fails with NetworkError at that instant *)
Lemma refused_send_initially : forall st m mon st' o, is_refusing st (m_remote m) = true ->
  _send_initially st m mon = (st', o) ->
  (forall t m', ~ In (OSend t m') o) /\ has_exchange_with st' (m_remote m) = false /\ in_backlogs st' (m_remote m) = false /\
  (forall rid, In (rid, m_remote m) (outgoing_requests st) -> In (OFail (now st) rid NetworkError) o) /\
  (forall q, In q (outgoing_requests st') -> snd q <> m_remote m).
Proof.
  intros st m mon st' o Hr H. unfold _send_initially in H. destruct (_add_exchange st m mon) as [st1 o1] eqn:A.
  destruct (add_exchange_facts _ _ _ _ _ A) as (E1 & E2 & E3 & E4).
  unfold _send_via_transport in H. assert (is_refusing st1 (m_remote m) = true) as Hr1 by (unfold is_refusing in *; rewrite E1; exact Hr).
  rewrite Hr1 in H. destruct (mm_dispatch_error st1 (m_remote m)) as [st2 o2] eqn:D. inv H.
  destruct (dispatch_error_facts _ _ _ _ D) as (F1 & F2 & F3 & F4 & F5). splits; auto.
  - intros t m' Hi. apply in_app_iff in Hi. destruct Hi as [Hi|Hi]; [eapply E4|eapply F1]; eauto.
  - intros rid Hi. apply in_app_iff. right. rewrite <- E2. apply F4. rewrite E3. exact Hi.
Qed.

(* a refused RETRANSMISSION (code after 11456f9): nothing on the wire, the exchange is gone together with the remote's backlog,
   every request pending towards the remote fails with NetworkError at that instant *)
Lemma refused_retransmit : forall st h mon h0 st' o,
  let m := h_message h in
  xget (m_remote m, m_mid m) (active_exchanges st) = Some (mon, h0) -> h_counter h < MAX_RETRANSMIT (m_tuning m) ->
  is_refusing st (m_remote m) = true -> _retransmit st h = (st', o) ->
  (forall t m', ~ In (OSend t m') o) /\ has_exchange_with st' (m_remote m) = false /\ in_backlogs st' (m_remote m) = false /\
  (forall rid, In (rid, m_remote m) (outgoing_requests st) -> In (OFail (now st) rid NetworkError) o) /\
  (forall q, In q (outgoing_requests st') -> snd q <> m_remote m).
Proof.
  intros st h mon h0 st' o m X Hc Hr H. unfold _retransmit in H. fold m in H. rewrite X in H.
  assert (h_counter h <? MAX_RETRANSMIT (m_tuning m) = true) as Hlt by lia. rewrite Hlt in H.
  unfold _schedule_retransmit, _send_via_transport in H. cbn [now next_seq message_id active_exchanges backlogs outgoing_requests rng refusing set_exchanges] in H.
  match type of H with (if is_refusing ?s _ then _ else _) = _ => assert (is_refusing s (m_remote m) = true) as Hr' by exact Hr; rewrite Hr' in H;
    destruct (dispatch_error_facts _ _ _ _ H) as (F1 & F2 & F3 & F4 & F5) end.
  splits; auto.
Qed.

(* ---- run level, refusing transports included ---- *)
(* a RETRANSMISSION handed to a refusing transport: the message is never put on the wire again, in this step or in any continuation;
   every request pending towards the remote fails with NetworkError at that instant *)
Lemma refused_retransmission_stops : forall mid0 draws evs1 ev evs2 h,
  wf_run draws (evs1 ++ ev :: evs2) -> (ev = EFire \/ (ev = EFireDue /\ h_due h <= now (final_of mid0 draws evs1))) ->
  next_timer (final_of mid0 draws evs1) = Some h ->
  h_counter h < MAX_RETRANSMIT (m_tuning (h_message h)) ->
  is_refusing (final_of mid0 draws evs1) (m_remote (h_message h)) = true ->
  let st1 := final_of mid0 draws evs1 in
  let '(st2, o) := step st1 ev in
  let '(st3, os) := run st2 evs2 in
  copies (m_rid (h_message h)) (o ++ concat os) = [] /\
  (forall rid, In (rid, m_remote (h_message h)) (outgoing_requests st1) -> In (OFail (Z.max (now st1) (h_due h)) rid NetworkError) o).
Proof.
  intros mid0 draws evs1 ev evs2 h [Hd W] Hev N Hc Hr st1.
  apply wf_events_app in W. destruct W as [W1 [Wev W2]].
  destruct (reach mid0 draws evs1 (conj Hd W1)) as (S & _). fold st1 in S, N, Hr, Hev.
  assert (Hsa : seen_after (seen_all [] evs1) ev = seen_all [] evs1) by (destruct Hev as [->|[-> _]]; reflexivity). rewrite Hsa in W2.
  destruct (step st1 ev) as [st2 o] eqn:E. destruct (run st2 evs2) as [st3 os] eqn:R.
  destruct (step_struct _ _ ev _ _ S Wev E) as [S2 _]. rewrite Hsa in S2.
  destruct (next_timer_facts _ _ N) as (e & He1 & He2 & Hmin).
  set (sta := set_now st1 (Z.max (now st1) (h_due h))).
  assert (Sa : Struct (seen_all [] evs1) sta) by (apply struct_set_now; auto).
  assert (Ea : _retransmit sta h = (st2, o)).
  { destruct Hev as [->|[-> Hdue]]; cbn [step] in E; rewrite N in E; [exact E|].
    assert (h_due h <=? now st1 = true) as Hb by lia. rewrite Hb in E.
    assert (sta = st1) as ->; [|exact E]. unfold sta, set_now. replace (Z.max (now st1) (h_due h)) with (now st1) by lia. destruct st1; reflexivity. }
  pose proof (retransmit_struct _ _ _ _ _ _ Sa He1 He2 Ea) as Sh. cbv zeta in Sh. destruct Sh as (_ & _ & _ & X & Sh).
  destruct (pop_facts _ sta _ _ h Sa X) as (Hin & _ & _ & _ & _ & Hrest & Hbr & _).
  destruct Sh as [(_ & st1' & oe & S1' & En1 & Ex & Eb & Eo & Hcase)|(Heq & _)]; [|lia].
  destruct Hcase as [(Hf & _)|(_ & D & ->)]; [unfold is_refusing in *; cbn in Hf; congruence|].
  destruct (error_struct _ _ _ _ _ S1' D) as (_ & _ & _ & Ex2 & Eb2 & _ & Eoe).
  assert (Hdead : ~ live (m_rid (h_message h)) st2).
  { intros Hl. apply live_iff in Hl. rewrite Ex2, Eb2, Ex, Eb in Hl. destruct Hl as [[e' [He' Hr']]|Hl].
    - apply filter_In in He'. destruct He' as [He' Hnr]. apply negb_true_iff in Hnr. apply Z.eqb_neq in Hnr.
      apply in_xset in He'. destruct He' as [->|[He' _]]; [apply Hnr; reflexivity|]. apply Hrest in He'. tauto.
    - apply in_back_qdel_sub in Hl. eapply Hbr; eauto. }
  assert (Hseen : In (m_rid (h_message h)) (seen_all [] evs1)).
  { eapply live_rids_seen; [exact S|]. unfold live_rids. apply in_app_iff. left. apply in_map_iff. exists e. split; auto. unfold e_rid. rewrite He2. reflexivity. }
  split.
  - rewrite copies_app. rewrite (dead_run evs2 _ st2 st3 os _ S2 W2 Hseen Hdead R), app_nil_r.
    apply copies_fail_only. apply (proj2 (live_dispatch _ _ _ _ D)).
  - intros rid Hi. rewrite Eoe. assert (now st1' = Z.max (now st1) (h_due h)) as -> by (rewrite En1; reflexivity).
    apply in_map_iff. exists (rid, m_remote (h_message h)). split; auto. apply filter_In. split; [rewrite Eo; exact Hi|cbn; apply Z.eqb_refl].
Qed.

(* a request whose FIRST transmission is refused: its message never reaches the wire -- not in this step, not later --
   and the request fails with NetworkError at that instant *)
Lemma refused_request_stops : forall mid0 draws evs1 rid r tn evs2,
  wf_run draws (evs1 ++ ERequest rid r tn :: evs2) ->
  is_refusing (final_of mid0 draws evs1) r = true -> in_backlogs (final_of mid0 draws evs1) r = false ->
  let st1 := final_of mid0 draws evs1 in
  let '(st2, o) := step st1 (ERequest rid r tn) in
  let '(st3, os) := run st2 evs2 in
  copies rid (o ++ concat os) = [] /\ In (OFail (now st1) rid NetworkError) o.
Proof.
  intros mid0 draws evs1 rid r tn evs2 [Hd W] Hr Hnb st1.
  apply wf_events_app in W. destruct W as [W1 [[Wf Wt] W2]]. cbn [seen_after] in W2.
  destruct (reach mid0 draws evs1 (conj Hd W1)) as (S & _). fold st1 in S, Hr, Hnb.
  destruct (step st1 (ERequest rid r tn)) as [st2 o] eqn:E. destruct (run st2 evs2) as [st3 os] eqn:R.
  destruct (step_struct _ _ (ERequest rid r tn) _ _ S (conj Wf Wt) E) as [S2 _]. cbn [seen_after] in S2.
  cbn [step] in E. pose proof (request_shape _ _ _ _ _ _ _ S Wf Wt E) as Sh. cbv zeta in Sh.
  destruct Sh as [(q & Q & _)|(Q & Hno & t & sq & st1' & oe & Hrg & S1' & En1 & Eo1 & Ex & Eb & Ebl & Hcase)].
  { unfold in_backlogs in Hnb. rewrite Q in Hnb. discriminate. }
  destruct Hcase as [(Hf & _)|(_ & D & ->)]; [congruence|].
  destruct (error_struct _ _ _ _ _ S1' D) as (_ & _ & _ & Ex2 & Eb2 & _ & Eoe).
  assert (Hdead : ~ live rid st2).
  { intros Hl. apply live_iff in Hl. rewrite Ex2, Eb2, Ex in Hl. destruct Hl as [[e' [He' Hr']]|Hl].
    - apply filter_In in He'. destruct He' as [He' Hnr]. apply negb_true_iff in Hnr. apply Z.eqb_neq in Hnr.
      apply in_xset in He'. destruct He' as [->|[He' _]]; [apply Hnr; reflexivity|]. apply Wf. rewrite <- Hr'. eapply live_exch_seen; eauto.
    - apply in_back_qdel_sub in Hl. apply Eb in Hl. apply Wf. eapply live_back_seen; eauto. }
  split.
  - rewrite copies_app. rewrite (dead_run evs2 _ st2 st3 os rid S2 W2 (or_introl eq_refl) Hdead R), app_nil_r.
    apply copies_fail_only. intros t' m' Hi. destruct Hi as [Hi|Hi]; [discriminate|]. eapply (proj2 (live_dispatch _ _ _ _ D)); eauto.
  - right. rewrite Eoe, En1. apply in_map_iff. exists (rid, r). split; auto. apply filter_In. split; [rewrite Eo1; apply in_app_iff; right; left; reflexivity|cbn; apply Z.eqb_refl].
Qed.

(* ---- round 5 ---- *)
(* a Reset for an outstanding exchange whose request is still pending fails it with MessageError, at that instant; any state *)
Lemma rst_fails_pending : forall st r mid mon h, xget (r, mid) (active_exchanges st) = Some (mon, h) ->
  existsb (fun q => fst q =? mon) (outgoing_requests st) = true ->
  In (OFail (now st) mon MessageError) (snd (step st (ERecv r true mid))).
Proof.
  intros st r mid mon h Hx Hp. cbn. unfold _remove_exchange. rewrite Hx. unfold tm_fail. cbn [outgoing_requests set_exchanges now]. rewrite Hp.
  destruct (_continue_backlog _ r). cbn. left. reflexivity.
Qed.
(* ... and in a reachable state the request of an outstanding exchange IS pending unless it was cancelled or answered *)
Lemma exchange_request_pending : forall mid0 draws evs e, wf_run draws evs -> In e (active_exchanges (final_of mid0 draws evs)) ->
  In (e_rid e, e_remote e) (outgoing_requests (final_of mid0 draws evs)) \/ In (gone_key (e_rid e)) (recv_keys evs).
Proof. intros mid0 draws evs e W He. destruct (reach mid0 draws evs W) as (_ & _ & _ & [P1 _]). apply P1. exact He. Qed.

(* "instead of hanging": once nothing is left in the message layer the request has failed *)
Lemma quiescent_means_failed : forall mid0 draws evs t m, wf_run draws evs -> In (OSend t m) (trace_of mid0 draws evs) ->
  ~ In (m_remote m, m_mid m) (recv_keys evs) -> ~ In (err_key (m_remote m)) (recv_keys evs) -> ~ In (gone_key (m_rid m)) (recv_keys evs) ->
  active_exchanges (final_of mid0 draws evs) = [] ->
  (exists T0 t0, copies (m_rid m) (trace_of mid0 draws evs) = sched_of m T0 t0 (Z.to_nat (MAX_RETRANSMIT (m_tuning m) + 1)) /\
    In (OFail (T0 + t0 * (2 ^ (MAX_RETRANSMIT (m_tuning m) + 1) - 1)) (m_rid m) ConRetransmitsExceeded) (trace_of mid0 draws evs)) \/
  (exists tf, In (OFail tf (m_rid m) NetworkError) (trace_of mid0 draws evs)).
Proof.
  intros mid0 draws evs t m W Hin H1 H2 H3 Hq. destruct (gives_up _ _ _ _ _ W Hin H1 H2 H3) as (T0 & t0 & n & Hc & Hn & Hr & Hle & Hcase).
  destruct Hcase as [(e & He & _)|[(Hn' & Hf)|Hf]]; [rewrite Hq in He; inv He| |right; exact Hf].
  left. exists T0, t0. assert (Z.to_nat (MAX_RETRANSMIT (m_tuning m) + 1) = n) as -> by lia. auto.
Qed.

(* progress: firing the pending timer of an exchange that has retransmissions left re-arms exactly that exchange with the counter
   increased and the timeout doubled (on a transport that takes the datagram); so R+1 firings reach the give-up *)
Lemma fire_progress : forall seen st h st' o, Struct seen st -> next_timer st = Some h ->
  h_counter h < MAX_RETRANSMIT (m_tuning (h_message h)) -> is_refusing st (m_remote (h_message h)) = false ->
  step st EFire = (st', o) ->
  let m := h_message h in
  o = [OSend (Z.max (now st) (h_due h)) m] /\
  exists mon, xget (m_remote m, m_mid m) (active_exchanges st') =
    Some (mon, {| h_due := Z.max (now st) (h_due h) + h_timeout h * 2; h_seq := next_seq st; h_message := m;
                  h_timeout := h_timeout h * 2; h_counter := h_counter h + 1 |}).
Proof.
  intros seen st h st' o S N Hc Hr H m. cbn [step] in H. rewrite N in H.
  destruct (next_timer_facts _ _ N) as (e & He1 & He2 & Hmin).
  set (sta := set_now st (Z.max (now st) (h_due h))) in *.
  assert (Sa : Struct seen sta) by (apply struct_set_now; auto).
  pose proof (retransmit_struct _ _ _ _ _ _ Sa He1 He2 H) as Sh. cbv zeta in Sh. destruct Sh as (_ & _ & _ & X & Sh).
  destruct Sh as [(_ & st1 & oe & S1 & En1 & Ex & Eb & Eo & Hcase)|(Heq & _)]; [|unfold m in *; lia].
  destruct Hcase as [(_ & -> & ->)|(Hf & _)]; [|unfold is_refusing in *; cbn in Hf; congruence].
  split; [reflexivity|]. exists (m_rid m). fold m in Ex. rewrite Ex. unfold xget, xset. cbn [find fst]. rewrite key_eqb_refl. reflexivity.
Qed.

(* ---- where a NetworkError failure can come from (round 5, audit gap 1) ---- *)
Definition no_refusal (evs : list event) : Prop := forall r, ~ In (ERefuse r true) evs.
Definition no_neterr (o : list output) : Prop := forall t rid, ~ In (OFail t rid NetworkError) o.
(* [clean st res]: run from a state whose transport refuses nothing, the function leaves it that way and fails nobody with NetworkError *)
Definition clean (st : state) (res : state * list output) : Prop :=
  refusing st = [] -> refusing (fst res) = [] /\ no_neterr (snd res).

Lemma no_neterr_nil : no_neterr []. Proof. intros t rid []. Qed.
Lemma no_neterr_app : forall a b, no_neterr a -> no_neterr b -> no_neterr (a ++ b).
Proof. intros a b Ha Hb t rid Hi. apply in_app_iff in Hi. destruct Hi; [eapply Ha|eapply Hb]; eauto. Qed.

Lemma clean_tm_fail : forall st rid e, e <> NetworkError -> clean st (tm_fail st rid e).
Proof.
  intros st rid e He Hr. unfold tm_fail. destruct (existsb _ _); cbn; split; auto; try apply no_neterr_nil.
  intros t x [Hi|[]]. inv Hi. congruence.
Qed.
Lemma clean_tm_dispatch : forall st e r, e <> NetworkError -> clean st (tm_dispatch_error st e r).
Proof.
  intros st e r He Hr. unfold tm_dispatch_error. cbn. split; auto. intros t x Hi. apply in_map_iff in Hi. destruct Hi as [p [Hp _]]. inv Hp. congruence.
Qed.
Lemma clean_send_via : forall st m, clean st (_send_via_transport st m).
Proof.
  intros st m Hr. unfold _send_via_transport, is_refusing. rewrite Hr. cbn. split; auto. intros t x [Hi|[]]. discriminate.
Qed.
Lemma clean_send_initially : forall st m mon, clean st (_send_initially st m mon).
Proof.
  intros st m mon Hr. unfold _send_initially. destruct (_add_exchange st m mon) as [st1 o1] eqn:A.
  destruct (add_exchange_facts _ _ _ _ _ A) as (E1 & _ & _ & _).
  assert (Ho1 : no_neterr o1).
  { unfold _add_exchange, uniform, _schedule_retransmit in A. destruct (in_backlogs st (m_remote m)); cbn in A; inv A; intros t x [Hi|[]]; discriminate. }
  destruct (clean_send_via st1 m) as [C1 C2]; [rewrite E1; exact Hr|].
  destruct (_send_via_transport st1 m) as [st2 o2]. cbn in *. split; auto. apply no_neterr_app; auto.
Qed.
Lemma clean_loop : forall fuel st r, clean st (_continue_backlog_loop fuel st r).
Proof.
  induction fuel as [|fuel IH]; intros st r Hr; cbn [_continue_backlog_loop].
  - cbn. split; auto. intros t x [Hi|[]]. discriminate.
  - destruct (qget r (backlogs st)) as [q|]; [|cbn; split; auto; apply no_neterr_nil].
    destruct (has_exchange_with st r); [cbn; split; auto; apply no_neterr_nil|].
    destruct q as [|[m mon] rest]; [cbn; split; auto; apply no_neterr_nil|].
    destruct (clean_send_initially (set_backlogs st (qset r rest (backlogs st))) m mon Hr) as [C1 C2].
    destruct (_send_initially _ m mon) as [st1 o1]. cbn in C1, C2.
    destruct (IH st1 r C1) as [D1 D2]. destruct (_continue_backlog_loop fuel st1 r) as [st2 o2]. cbn in *. split; auto. apply no_neterr_app; auto.
Qed.
Lemma clean_continue : forall st r, clean st (_continue_backlog st r).
Proof.
  intros st r Hr. unfold _continue_backlog. destruct (qget r (backlogs st)); [apply clean_loop; auto|].
  cbn. split; auto. intros t x [Hi|[]]. discriminate.
Qed.
Lemma clean_remove : forall st r mid b, clean st (_remove_exchange st r mid b).
Proof.
  intros st r mid b Hr. unfold _remove_exchange. destruct (xget (r, mid) (active_exchanges st)) as [[mon h]|]; [|cbn; split; auto; apply no_neterr_nil].
  set (st1 := set_exchanges st (xdel (r, mid) (active_exchanges st))).
  assert (C : clean st1 (if b then tm_fail st1 mon MessageError else (st1, []))).
  { destruct b; [apply clean_tm_fail; discriminate|]. intros _. cbn. split; auto. apply no_neterr_nil. }
  destruct (if b then tm_fail st1 mon MessageError else (st1, [])) as [st2 o1]. destruct (C Hr) as [C1 C2]. cbn in C1, C2.
  destruct (clean_continue st2 r C1) as [D1 D2]. destruct (_continue_backlog st2 r) as [st3 o2]. cbn in *. split; auto. apply no_neterr_app; auto.
Qed.
Lemma clean_retransmit : forall st h, clean st (_retransmit st h).
Proof.
  intros st h Hr. unfold _retransmit. destruct (xget _ (active_exchanges st)) as [[mon h0]|]; [|cbn; split; auto; intros t x [Hi|[]]; discriminate].
  destruct (h_counter h <? MAX_RETRANSMIT (m_tuning (h_message h))).
  - unfold _schedule_retransmit. cbn [fst snd]. apply clean_send_via. exact Hr.
  - cbn [backlogs set_exchanges]. destruct (qget _ (backlogs st)); [|cbn; split; auto; intros t x [Hi|[]]; discriminate].
    apply clean_tm_dispatch; [discriminate|exact Hr].
Qed.
Lemma clean_request : forall st rid r tn, clean st (tm_request st rid r tn).
Proof.
  intros st rid r tn Hr. unfold tm_request, send_message, _next_message_id. cbn [backlogs set_outgoing fst snd].
  destruct (qget r (backlogs st)) as [q|].
  - match goal with |- context [if ?c then _ else _] => destruct c end; [cbn; split; auto; apply no_neterr_nil|].
    apply clean_tm_fail; [discriminate|exact Hr].
  - apply clean_send_initially. exact Hr.
Qed.
Lemma clean_response : forall st r ty mid rid, clean st (dispatch_response st r ty mid rid).
Proof.
  intros st r ty mid rid Hr. unfold dispatch_response.
  assert (C : clean st (if ty =? 0 then _remove_exchange st r mid false else (st, []))).
  { destruct (ty =? 0); [apply clean_remove|]. intros _. cbn. split; auto. apply no_neterr_nil. }
  destruct (if ty =? 0 then _remove_exchange st r mid false else (st, [])) as [st1 o1]. destruct (C Hr) as [C1 C2]. cbn in C1, C2.
  unfold tm_process_response, send_empty, is_refusing.
  destruct (existsb _ (outgoing_requests st1)); cbn [refusing set_outgoing]; rewrite C1; cbn [existsb]; destruct (ty =? 1); cbn; (split; [auto|]);
    apply no_neterr_app; auto; intros t x Hi; cbn in Hi; intuition discriminate.
Qed.

Lemma step_clean : forall st e st' o, refusing st = [] -> step st e = (st', o) ->
  (forall r, e <> ERefuse r true) -> (forall r, e <> EError r) -> refusing st' = [] /\ no_neterr o.
Proof.
  intros st e st' o Hr H Hnr Hne.
  assert (G : forall res, clean st res -> res = (st', o) -> refusing st' = [] /\ no_neterr o) by (intros res C ->; apply (C Hr)).
  destruct e as [rid r tn|r b mid|t| | |r|rid|r ty mid rid|r on]; cbn [step] in H.
  - eapply G; [apply clean_request|exact H].
  - eapply G; [apply clean_remove|exact H].
  - inv H. split; auto. apply no_neterr_nil.
  - destruct (next_timer st) as [h|]; [|inv H; split; auto; apply no_neterr_nil].
    destruct (clean_retransmit (set_now st (Z.max (now st) (h_due h))) h Hr) as [C1 C2]. rewrite H in C1, C2. auto.
  - destruct (next_timer st) as [h|]; [|inv H; split; auto; apply no_neterr_nil].
    destruct (h_due h <=? now st); [|inv H; split; auto; apply no_neterr_nil]. eapply G; [apply clean_retransmit|exact H].
  - exfalso. eapply Hne; eauto.
  - inv H. split; auto. apply no_neterr_nil.
  - eapply G; [apply clean_response|exact H].
  - inv H. destruct on; [exfalso; eapply Hnr; eauto|]. cbn. rewrite Hr. split; auto. apply no_neterr_nil.
Qed.

Lemma run_clean : forall evs st st' os, refusing st = [] -> no_refusal evs -> run st evs = (st', os) ->
  forall t rid, In (OFail t rid NetworkError) (concat os) -> exists r, In (EError r) evs.
Proof.
  induction evs as [|e evs IH]; intros st st' os Hr Hn H t rid Hi; cbn in H.
  - inv H. destruct Hi.
  - destruct (step st e) as [st1 o] eqn:E. destruct (run st1 evs) as [st2 os2] eqn:R. inv H. cbn in Hi. apply in_app_iff in Hi.
    assert (Hd : (exists r, e = EError r) \/ forall r, e <> EError r) by (destruct e; try (right; intros; discriminate); left; eauto).
    destruct Hd as [[r ->]|Hne]; [exists r; left; reflexivity|].
    assert (Hnr : forall r, e <> ERefuse r true) by (intros r ->; apply (Hn r); left; reflexivity).
    destruct (step_clean _ _ _ _ Hr E Hnr Hne) as [Hr1 Hc].
    destruct Hi as [Hi|Hi]; [exfalso; eapply Hc; eauto|].
    destruct (IH st1 _ os2 Hr1 (fun r Hin => Hn r (or_intror Hin)) R t rid Hi) as [r Hin]. exists r. right. exact Hin.
Qed.

(* on a transport that never refuses, a request fails with NetworkError only if the transport reported an error (EError) *)
Lemma network_error_has_cause : forall mid0 draws evs tf rid, no_refusal evs ->
  In (OFail tf rid NetworkError) (trace_of mid0 draws evs) -> exists r, In (EError r) evs.
Proof.
  intros mid0 draws evs tf rid Hn Hi. unfold trace_of in Hi. destruct (run (init mid0 draws) evs) as [st' os] eqn:R.
  eapply (run_clean evs (init mid0 draws)); eauto.
Qed.

(* the give-up clause on a plain transport: no refusal, no transport error at all, no ACK / RST for the message, request not
   cancelled / answered: exactly two outcomes -- still waiting for a timer that is not overdue, or failed with ConRetransmitsExceeded
   at T0 + t(2^(R+1) - 1) after all 1 + R copies *)
Lemma gives_up_plain : forall mid0 draws evs t m, wf_run draws evs -> no_refusal evs -> (forall r, ~ In (EError r) evs) ->
  In (OSend t m) (trace_of mid0 draws evs) ->
  ~ In (m_remote m, m_mid m) (recv_keys evs) -> ~ In (err_key (m_remote m)) (recv_keys evs) -> ~ In (gone_key (m_rid m)) (recv_keys evs) ->
  exists T0 t0 n, copies (m_rid m) (trace_of mid0 draws evs) = sched_of m T0 t0 n /\ (0 < n)%nat /\ range (m_tuning m) t0 /\
    Z.of_nat n <= MAX_RETRANSMIT (m_tuning m) + 1 /\
    ( (exists e, In e (active_exchanges (final_of mid0 draws evs)) /\ h_message (e_timer e) = m /\
                 h_due (e_timer e) = T0 + t0 * (2 ^ Z.of_nat n - 1) /\ now (final_of mid0 draws evs) <= h_due (e_timer e)) \/
      (Z.of_nat n = MAX_RETRANSMIT (m_tuning m) + 1 /\
       In (OFail (T0 + t0 * (2 ^ (MAX_RETRANSMIT (m_tuning m) + 1) - 1)) (m_rid m) ConRetransmitsExceeded) (trace_of mid0 draws evs)) ) /\
    forall tf rid, ~ In (OFail tf rid NetworkError) (trace_of mid0 draws evs).
Proof.
  intros mid0 draws evs t m W Hn He Hin H1 H2 H3.
  assert (Hnn : forall tf rid, ~ In (OFail tf rid NetworkError) (trace_of mid0 draws evs)).
  { intros tf rid Hi. destruct (network_error_has_cause _ _ _ _ _ Hn Hi) as [r Hr]. eapply He; eauto. }
  destruct (gives_up _ _ _ _ _ W Hin H1 H2 H3) as (T0 & t0 & n & Hc & Hn' & Hr & Hle & Hcase).
  exists T0, t0, n. splits; auto. destruct Hcase as [Hc1|[Hc2|[tf Hf]]]; auto. exfalso. eapply Hnn; eauto.
Qed.
