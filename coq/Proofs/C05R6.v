(* C05 — round 6: dead exchanges at run level.  A general "simulation until failure" for the client machine, instantiated with the retrying
   message layer under an ARBITRARY schedule (duplications and dead exchanges in any mix). *)
From Verif Require Import Lib.Py Lib.PyLemmas Lib.Tactics Gen.block_kernels Model.C05 Model.C05Server Model.C05Retry Proofs.C05 Proofs.C05Retry.
Open Scope Z_scope.

Section SimUntilFailure.
  Context {S1 S2 : Type}.
  Variable serve1 : S1 -> request -> S1 * sresult.
  Variable serve2 : S2 -> request -> S2 * sresult.
  Variable R : S1 -> S2 -> Prop.
  (* serve2 answers like serve1 — or the exchange fails in the transport *)
  Hypothesis Hstep : forall s1 s2 rq s1' r, R s1 s2 -> serve1 s1 rq = (s1', r) ->
    (exists s2', serve2 s2 rq = (s2', r) /\ R s1' s2') \/ (exists s2', serve2 s2 rq = (s2', SFail)).

  (* the second run is the first one, or it is cut off by a transport failure: NetworkError, and its transcript is a non-empty prefix *)
  Definition same_or_cut (s1' : S1) (tr : list request) (o : outcome) (s2' : S2) (tr2 : list request) (o2 : outcome) : Prop :=
    (tr2 = tr /\ o2 = o /\ R s1' s2') \/ (o2 = Err NetworkError /\ tr2 <> [] /\ exists tl, tr = tr2 ++ tl).

  Lemma cut_cons s1' tr o s2' tr2 o2 rq : same_or_cut s1' tr o s2' tr2 o2 -> same_or_cut s1' (rq :: tr) o s2' (rq :: tr2) o2.
  Proof.
    intros [(-> & -> & HR)|(-> & Hne & tl & ->)]; [left; auto|right]. split; [reflexivity|]. split; [discriminate|]. exists tl. reflexivity.
  Qed.

  Lemma block2_loop_cut fuel : forall s1 s2 t a mbse s1' tr o, R s1 s2 ->
    block2_loop serve1 fuel s1 t a mbse = (s1', tr, o) ->
    exists s2' tr2 o2, block2_loop serve2 fuel s2 t a mbse = (s2', tr2, o2) /\ same_or_cut s1' tr o s2' tr2 o2.
  Proof.
    induction fuel as [|f IH]; intros s1 s2 t a mbse s1' tr o HR; cbn [block2_loop].
    - intros H; inv H. eexists _, _, _. split; [reflexivity|left; auto].
    - destruct (generate_next_block2_request t a mbse) as [rq|e]; [|intros H; inv H; eexists _, _, _; split; [reflexivity|left; auto]].
      destruct (serve1 s1 rq) as [s1a r] eqn:H1.
      destruct (Hstep _ _ _ _ _ HR H1) as [(s2a & H2 & HRa)|(s2a & H2)]; rewrite H2.
      2:{ (* the exchange dies under serve2 *)
          intros H. eexists _, _, _. split; [reflexivity|]. right. split; [reflexivity|]. split; [discriminate|].
          destruct r as [last|]; [|inv H; exists []; reflexivity].
          destruct (rs_block2 last) as [b2|]; [|inv H; exists []; reflexivity].
          destruct (append_response_block a last) as [a'|e]; [|inv H; exists []; reflexivity].
          destruct (negb (bt_more b2)); [inv H; exists []; reflexivity|].
          destruct (block2_loop serve1 f s1a t a' mbse) as [[s1b tr1] o1]. inv H. exists tr1. reflexivity. }
      destruct r as [last|]; [|intros H; inv H; eexists _, _, _; split; [reflexivity|left; auto]].
      destruct (rs_block2 last) as [b2|]; [|intros H; inv H; eexists _, _, _; split; [reflexivity|left; auto]].
      destruct (append_response_block a last) as [a'|e]; [|intros H; inv H; eexists _, _, _; split; [reflexivity|left; auto]].
      destruct (negb (bt_more b2)); [intros H; inv H; eexists _, _, _; split; [reflexivity|left; auto]|].
      destruct (block2_loop serve1 f s1a t a' mbse) as [[s1b tr1] o1] eqn:R1. intros H; inv H.
      destruct (IH _ _ _ _ _ _ _ _ HRa R1) as (s2b & tr2 & o2 & -> & Hc).
      eexists _, _, _. split; [reflexivity|]. apply cut_cons. exact Hc.
  Qed.

  Lemma complete_cut fuel s1 s2 t a mbse s1' tr o : R s1 s2 ->
    complete_by_requesting_block2 serve1 fuel s1 t a mbse = (s1', tr, o) ->
    exists s2' tr2 o2, complete_by_requesting_block2 serve2 fuel s2 t a mbse = (s2', tr2, o2) /\ same_or_cut s1' tr o s2' tr2 o2.
  Proof.
    intros HR. unfold complete_by_requesting_block2.
    destruct (unexpected_first_block t a); [intros H; inv H; eexists _, _, _; split; [reflexivity|left; auto]|].
    destruct (rs_block2 a) as [b2|]; [|intros H; inv H; eexists _, _, _; split; [reflexivity|left; auto]].
    destruct (negb (bt_more b2)); [intros H; inv H; eexists _, _, _; split; [reflexivity|left; auto]|].
    destruct (negb (bt_num b2 =? 0)); [intros H; inv H; eexists _, _, _; split; [reflexivity|left; auto]|]. apply block2_loop_cut. exact HR.
  Qed.

  Lemma block1_loop_cut cfg fuel : forall s1 s2 cursor size_exp mbse s1' tr o, R s1 s2 ->
    block1_loop serve1 fuel s1 cfg cursor size_exp mbse = (s1', tr, o) ->
    exists s2' tr2 o2, block1_loop serve2 fuel s2 cfg cursor size_exp mbse = (s2', tr2, o2) /\ same_or_cut s1' tr o s2' tr2 o2.
  Proof.
    induction fuel as [|f IH]; intros s1 s2 cursor size_exp mbse s1' tr o HR; cbn [block1_loop].
    - intros H; inv H. eexists _, _, _. split; [reflexivity|left; auto].
    - destruct (block1_request cfg cursor size_exp) as [rq|e]; [|intros H; inv H; eexists _, _, _; split; [reflexivity|left; auto]].
      destruct (serve1 s1 rq) as [s1a r] eqn:H1.
      destruct (Hstep _ _ _ _ _ HR H1) as [(s2a & H2 & HRa)|(s2a & H2)]; rewrite H2.
      2:{ intros H. eexists _, _, _. split; [reflexivity|]. right. split; [reflexivity|]. split; [discriminate|].
          destruct r as [resp|]; [|inv H; exists []; reflexivity].
          destruct (block1_react rq resp cursor size_exp) as [e|c2 e2|].
          - inv H. exists []. reflexivity.
          - destruct (block1_loop serve1 f s1a cfg c2 e2 _) as [[s1b tr1] o1]. inv H. exists tr1. reflexivity.
          - destruct (complete_by_requesting_block2 serve1 f s1a rq _ _) as [[s1b tr1] o1]. inv H. exists tr1. reflexivity. }
      destruct r as [resp|]; [|intros H; inv H; eexists _, _, _; split; [reflexivity|left; auto]].
      destruct (block1_react rq resp cursor size_exp) as [e|c2 e2|].
      + intros H; inv H. eexists _, _, _. split; [reflexivity|left; auto].
      + destruct (block1_loop serve1 f s1a cfg c2 e2 _) as [[s1b tr1] o1] eqn:R1. intros H; inv H.
        destruct (IH _ _ _ _ _ _ _ _ HRa R1) as (s2b & tr2 & o2 & -> & Hc).
        eexists _, _, _. split; [reflexivity|]. apply cut_cons. exact Hc.
      + destruct (complete_by_requesting_block2 serve1 f s1a rq _ _) as [[s1b tr1] o1] eqn:R1. intros H; inv H.
        destruct (complete_cut _ _ _ _ _ _ _ _ _ HRa R1) as (s2b & tr2 & o2 & -> & Hc).
        eexists _, _, _. split; [reflexivity|]. apply cut_cons. exact Hc.
  Qed.

  Lemma run_cut cfg fuel s1 s2 s1' tr o : R s1 s2 -> run serve1 fuel s1 cfg = (s1', tr, o) ->
    exists s2' tr2 o2, run serve2 fuel s2 cfg = (s2', tr2, o2) /\ same_or_cut s1' tr o s2' tr2 o2.
  Proof. apply block1_loop_cut. Qed.
End SimUntilFailure.

(* ---- the retrying message layer under ANY schedule *)
Section RetryAny.
  Context {S : Type}.
  Variable serve : S -> request -> S * sresult.

  Definition retry_rel_any (s : S) (st : rstate) : Prop :=
    r_inner st = s /\ (forall m, (r_mid st <= m)%nat -> lookup m (r_cache st) = None).

  Lemma retry_step_any s st rq s' r : retry_rel_any s st -> serve s rq = (s', r) ->
    (exists st', serve_retried serve st rq = (st', r) /\ retry_rel_any s' st') \/ (exists st', serve_retried serve st rq = (st', SFail)).
  Proof.
    intros (Hin & Hfresh) Hs. unfold serve_retried.
    destruct (hd (Delivered 0 0) (r_sched st)) as [dq dr|arrived].
    - left.
      set (st0 := {| r_inner := r_inner st; r_cache := r_cache st; r_mid := Datatypes.S (r_mid st); r_sched := tl (r_sched st) |}).
      rewrite (deliver_n_spec serve dq st0 (r_mid st) rq s' r); [|cbn [st0 r_cache]; apply Hfresh; lia|cbn [st0 r_inner]; rewrite Hin; exact Hs].
      eexists. split; [f_equal; apply arriving_identical|].
      split; [reflexivity|]. cbn [st0 r_mid r_cache lookup]. intros m Hm.
      replace (Nat.eqb (r_mid st) m) with false by (symmetry; apply Nat.eqb_neq; lia). apply Hfresh. lia.
    - right. destruct arrived.
      + destruct (deliver_n _ _ _ _ _) as [st1 rs]. eexists. reflexivity.
      + eexists. reflexivity.
  Qed.

  (* For every application-level server, every request and EVERY schedule — any mix of duplicated requests, duplicated responses and exchanges
     that die in either direction — the run over the retrying network is the loss-free run (same transcript, same outcome, same server
     state), or it ends in NetworkError and its transcript is a non-empty prefix of the loss-free transcript: nothing is ever sent that the
     loss-free run would not have sent, and no outcome other than the loss-free one or the transport error is ever produced. *)
  Lemma retried_any_schedule cfg fuel s sched s' tr o :
    run serve fuel s cfg = (s', tr, o) ->
    exists st' tr2 o2, run (serve_retried serve) fuel (rinit s sched) cfg = (st', tr2, o2) /\
      ((tr2 = tr /\ o2 = o /\ r_inner st' = s') \/ (o2 = Err NetworkError /\ tr2 <> [] /\ exists tl, tr = tr2 ++ tl)).
  Proof.
    intros Hrun.
    destruct (run_cut serve (serve_retried serve) retry_rel_any retry_step_any cfg fuel s (rinit s sched) s' tr o) as (st' & tr2 & o2 & H & Hc).
    - split; reflexivity.
    - exact Hrun.
    - exists st', tr2, o2. split; [exact H|]. destruct Hc as [(H1 & H2 & H3 & _)|Hc]; [left; auto|right; exact Hc].
  Qed.
End RetryAny.

(* ---- which errors a run can end in: the out-of-bounds block (BadRequest out of _extract_block, DESIGN section 10 `no_out_of_bounds`) and every
   other exception of the translated kernels are unreachable; what is left are the named protocol errors and the two loud-but-unspecific exits *)
Definition client_errors : list exn :=
  [NetworkError; UnexpectedBlock1Option; UnexpectedBlock2; NotImplementedError; ResourceChanged; AssertionError; AttributeError].
Definition classified (o : outcome) : Prop := match o with Err e => In e client_errors | _ => True end.

Ltac in_errors := unfold classified, client_errors; cbn [In]; tauto.

Section ErrorClasses.
  Context {S : Type}.
  Variable serve : S -> request -> S * sresult.

  Lemma generate_next_errors t a mbse e : generate_next_block2_request t a mbse = Raise e -> e = AttributeError \/ e = AssertionError.
  Proof.
    unfold generate_next_block2_request. destruct (rs_block2 a) as [[[n m] s]|]; [|intros H; inv H; auto].
    unfold bind. rewrite bt_size_spec, bt_start_spec. unfold massert. destruct (_ =? _); [|intros H; inv H; auto].
    unfold bt_reduced_to. repeat match goal with |- context [if ?b then _ else _] => destruct b end; discriminate.
  Qed.

  Lemma append_errors a x e : append_response_block a x = Raise e ->
    e = AttributeError \/ e = UnexpectedBlock2 \/ e = NotImplementedError \/ e = ResourceChanged.
  Proof.
    rewrite append_response_block_eq. unfold append_inline. destruct (rs_block2 x) as [[[n m] s]|]; [|intros H; inv H; auto].
    unfold bt_is_valid_for_payload_size, bt_is_bert, bt_size, bind. rewrite bt_start_spec.
    repeat match goal with |- context [if ?b then _ else _] => destruct b end; intros H; inv H; auto.
  Qed.

  Lemma block2_loop_classified fuel : forall s t a mbse s' tr o, block2_loop serve fuel s t a mbse = (s', tr, o) -> classified o.
  Proof.
    induction fuel as [|f IH]; intros s t a mbse s' tr o; cbn [block2_loop]; [intros H; inv H; exact I|].
    destruct (generate_next_block2_request t a mbse) as [rq|e] eqn:G.
    2:{ intros H; inv H. destruct (generate_next_errors _ _ _ _ G) as [->| ->]; in_errors. }
    destruct (serve s rq) as [s1 [last|]]; [|intros H; inv H; in_errors].
    destruct (rs_block2 last) as [b2|]; [|intros H; inv H; exact I].
    destruct (append_response_block a last) as [a'|e] eqn:Ha.
    2:{ intros H; inv H. destruct (append_errors _ _ _ Ha) as [->|[->|[->| ->]]]; in_errors. }
    destruct (negb (bt_more b2)); [intros H; inv H; exact I|].
    destruct (block2_loop serve f s1 t a' mbse) as [[s2 tr2] o2] eqn:R. intros H; inv H. eapply IH; eassumption.
  Qed.

  Lemma complete_classified fuel s t a mbse s' tr o : complete_by_requesting_block2 serve fuel s t a mbse = (s', tr, o) -> classified o.
  Proof.
    unfold complete_by_requesting_block2. destruct (unexpected_first_block t a); [intros H; inv H; in_errors|].
    destruct (rs_block2 a) as [b2|]; [|intros H; inv H; exact I].
    destruct (negb (bt_more b2)); [intros H; inv H; exact I|].
    destruct (negb (bt_num b2 =? 0)); [intros H; inv H; in_errors|]. apply block2_loop_classified.
  Qed.

  Variable serve_wf : forall s rq s' r, req_wf rq = true -> serve s rq = (s', SResp r) -> resp_wf r = true.

  Lemma block1_react_errors rq resp c e x : block1_react rq resp c e = B1Err x -> x = AttributeError \/ x = UnexpectedBlock1Option.
  Proof.
    unfold block1_react. destruct (rs_block1 resp) as [b1|]; [|discriminate]. destruct (rq_block1 rq) as [cb|]; [|intros H; inv H; auto].
    destruct (negb _); [intros H; inv H; auto|]. destruct (reduce_size _ _ _ _).
    repeat match goal with |- context [if ?b then _ else _] => destruct b end; intros H; inv H; auto.
  Qed.

  Lemma block1_loop_classified cfg fuel : forall s cursor size_exp mbse s' tr o,
    bt_wf6 (c_block2 cfg) = true -> 0 <= size_exp <= 6 -> 0 <= cursor -> cursor * bsize size_exp < blen (c_body cfg) ->
    blen (c_body cfg) > fragmentation_threshold (c_mps cfg) size_exp ->
    block1_loop serve fuel s cfg cursor size_exp mbse = (s', tr, o) -> classified o.
  Proof.
    induction fuel as [|f IH]; intros s cursor size_exp mbse s' tr o Hb2 Hs Hc Hoff Hfrag; cbn [block1_loop]; [intros H; inv H; exact I|].
    unfold block1_request. replace (blen (c_body cfg) >? fragmentation_threshold (c_mps cfg) size_exp) with true by lia.
    pose proof (bsize_pos size_exp ltac:(lia)) as Hsz.
    destruct (extract_blocks_partition_lemma (c_body cfg) size_exp (c_mps cfg) cursor Hs Hc) as [_ Hok].
    destruct (Hok Hoff) as (pl & more & Hex & Hcat & Hmore & Hfin). rewrite Hex. cbn [bind].
    set (rq := {| rq_block1 := Some (cursor, more, size_exp); rq_block2 := c_block2 cfg;
                  rq_size1 := if cursor =? 0 then Some (blen (c_body cfg)) else None; rq_payload := pl |}).
    destruct (serve s rq) as [s1 [resp|]] eqn:Hserve; [|intros H; inv H; in_errors].
    assert (Hwf : resp_wf resp = true).
    { apply (serve_wf s rq s1 resp); [|exact Hserve]. unfold req_wf. cbn [rq rq_block1 rq_block2 bt_wf6]. rewrite Hb2. lia. }
    destruct (block1_react rq resp cursor size_exp) as [x|c2 e2|] eqn:Hreact.
    - intros H; inv H. destruct (block1_react_errors _ _ _ _ _ Hreact) as [->| ->]; in_errors.
    - destruct (block1_react_continue rq resp cursor size_exp cursor more size_exp c2 e2 Hs eq_refl Hwf Hreact) as (Hm & He2 & Hc2).
      subst more. destruct (Hmore eq_refl) as [Hpl Hlt].
      destruct (block1_loop serve f s1 cfg c2 e2 _) as [[s2 tr2] o2] eqn:R. intros H; inv H.
      pose proof (bsize_pos e2 ltac:(lia)) as Hsz2. assert (1 <= c2) by nia.
      eapply IH; try exact R; try assumption; try lia.
      unfold fragmentation_threshold in *. destruct (e2 >=? 6) eqn:E6.
      + replace (size_exp >=? 6) with true in Hfrag by lia. exact Hfrag.
      + fold (bsize e2). assert (bsize e2 <= c2 * bsize e2) by nia. lia.
    - destruct (complete_by_requesting_block2 serve f s1 rq _ _) as [[s2 tr2] o2] eqn:R. intros H; inv H.
      eapply complete_classified; eassumption.
  Qed.

  (* every run (any server, any fuel) ends in a response, in running out of fuel, or in one of the seven classified errors — never in BadRequest
     (a block beyond the end of the body) or any other exception of the arithmetic *)
  Lemma run_classified cfg fuel s s' tr o : 0 <= c_mbse cfg <= 6 -> 0 <= c_mps cfg -> bt_wf6 (c_block2 cfg) = true ->
    run serve fuel s cfg = (s', tr, o) -> classified o.
  Proof.
    intros Hm Hp Hb2. unfold run. intros Hrun.
    destruct (blen (c_body cfg) >? fragmentation_threshold (c_mps cfg) (c_mbse cfg)) eqn:Hfrag.
    - pose proof (bsize_pos (c_mbse cfg) ltac:(lia)) as Hsz.
      eapply (block1_loop_classified cfg fuel s 0 (c_mbse cfg)); try eassumption; try lia.
      unfold fragmentation_threshold in Hfrag. destruct (c_mbse cfg >=? 6); [lia|]. fold (bsize (c_mbse cfg)) in Hfrag. lia.
    - destruct fuel as [|f]; cbn [block1_loop] in Hrun; [inv Hrun; exact I|].
      unfold block1_request in Hrun. rewrite Hfrag in Hrun.
      set (rq0 := {| rq_block1 := None; rq_block2 := c_block2 cfg; rq_size1 := None; rq_payload := c_body cfg |}) in *.
      destruct (serve s rq0) as [s1 [resp|]]; [|inv Hrun; in_errors].
      unfold block1_react in Hrun. cbn [rq_block1 rq0] in Hrun.
      destruct (rs_block1 resp); [inv Hrun; in_errors|].
      destruct (complete_by_requesting_block2 serve f s1 rq0 _ _) as [[s2 tr2] o2] eqn:R. inv Hrun.
      eapply complete_classified; eassumption.
  Qed.
End ErrorClasses.

(* theorem 3 over ANY network schedule: the transfer either completes exactly as in the loss-free run — one reassembled body, the right one; the
   right representation — or the request ends in NetworkError *)
Lemma transfer_any_schedule_lemma scf e rep : honest_cfg scf e rep ->
  forall cfg, 0 <= c_mbse cfg <= 6 -> 0 <= c_mps cfg ->
  (c_block2 cfg = None \/ exists m2 s2, c_block2 cfg = Some (0, m2, s2) /\ 0 <= s2 <= 6) ->
  forall sched fuel, (Z.to_nat (blen (c_body cfg)) + Z.to_nat (blen rep) + 1 < fuel)%nat ->
  exists st tr o, run (serve_retried (serve_ref scf)) fuel (rinit sstate0 sched) cfg = (st, tr, o) /\
    ((exists r, o = Done r /\ sv_bodies (r_inner st) = [c_body cfg] /\ rs_payload r = rep /\ rs_etag r = e /\
                is_successful (rs_code r) = true /\ wire_ok cfg tr) \/
     o = Err NetworkError).
Proof.
  intros Hh cfg Hm Hp Hb sched fuel Hf.
  destruct (transfer_correct_lemma scf e rep Hh cfg Hm Hp Hb fuel Hf) as (st & tr & r & Hrun & H1 & H2 & H3 & H4 & H5 & H6).
  destruct (retried_any_schedule (serve_ref scf) cfg fuel sstate0 sched st tr (Done r) Hrun) as (st' & tr2 & o2 & Hrun' & [(-> & -> & Hin)|(-> & _)]).
  - exists st', tr, (Done r). split; [exact Hrun'|]. left. exists r. rewrite Hin. repeat split; assumption.
  - exists st', tr2, (Err NetworkError). split; [exact Hrun'|]. right. reflexivity.
Qed.
