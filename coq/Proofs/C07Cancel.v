(* C07 — the side condition "the application does not cancel the observation itself" made explicit (observation O-C07-2):
   without observation.cancel() no exception ever leaves the pipe and every confirmable response is answered; with it,
   ClientObservation.error raises RuntimeError into TokenManager.process_response / dispatch_error (witnesses below). *)
From Verif Require Import Lib.Py Lib.Tactics Gen.protocol_is_recent Model.C07 Model.C07Stack Proofs.C07Serial Proofs.C07 Proofs.C07Stack.
Open Scope Z_scope.

Definition is_escape (o : out) : bool := match o with OEscaped _ => true | _ => false end.
Definition escapes (outs : list out) : bool := existsb is_escape outs.
Lemma escapes_app a b : escapes (a ++ b) = escapes a || escapes b. Proof. apply existsb_app. Qed.

(* the observation is cancelled only by its own end signal, after which the generator has returned *)
Definition Inv (s : sys) : Prop := cancelled (s_obs s) = true -> s_runner s = RFinished.

Lemma deliver_callbacks_no_escape ls id : forall it, escapes (snd (deliver_callbacks ls id it)) = false.
Proof. induction ls as [|[k|] ls IH]; intros it; cbn [deliver_callbacks]; auto. specialize (IH it). destruct (deliver_callbacks ls id it). cbn in *. exact IH. Qed.
Lemma deliver_errbacks_no_escape ls e : forall it, escapes (snd (deliver_errbacks ls e it)) = false.
Proof. induction ls as [|[k|] ls IH]; intros it; cbn [deliver_errbacks]; auto. specialize (IH it). destruct (deliver_errbacks ls e it). cbn in *. exact IH. Qed.

Lemma apply_actions_cancel : forall acts s,
  cancelled (s_obs (aa_sys s acts)) = cancelled (s_obs s) || has_error acts
  /\ escapes (aa_outs s acts) = raises acts.
Proof.
  unfold aa_sys, aa_outs. induction acts as [|a acts IH]; intros s; [cbn; rewrite orb_false_r; auto|].
  destruct a; cbn [apply_actions has_error raises].
  - specialize (IH (set_parts s (s_ended s) RespDone (s_obs s) (s_iter s))). destruct (apply_actions _ acts) as [[s2 o2] r2]. cbn [fst snd] in *. exact IH.
  - specialize (IH (set_parts s (s_ended s) RespDone (s_obs s) (s_iter s))). destruct (apply_actions _ acts) as [[s2 o2] r2]. cbn [fst snd] in *. exact IH.
  - unfold callback. pose proof (deliver_callbacks_no_escape (callbacks (s_obs s)) id (s_iter s)) as N.
    destruct (deliver_callbacks _ id _) as [it' outs]. cbn [snd] in N.
    match goal with |- context [apply_actions ?S acts] => specialize (IH S) end.
    destruct (apply_actions _ acts) as [[s2 o2] r2]. cbn [fst snd] in *. rewrite escapes_app, N. exact IH.
  - unfold error. pose proof (deliver_errbacks_no_escape (errbacks (s_obs s)) e (s_iter s)) as N.
    destruct (deliver_errbacks _ e _) as [it' outs]. cbn [snd] in N.
    match goal with |- context [apply_actions ?S acts] => specialize (IH S) end.
    destruct (apply_actions _ acts) as [[s2 o2] r2]. cbn [fst snd] in *. rewrite escapes_app, N. destruct IH as [I1 I2]. cbn in I1.
    rewrite I1, I2, orb_true_r. auto.
  - destruct (s_ended s).
    + specialize (IH s). destruct (apply_actions s acts) as [[s2 o2] r2]. cbn [fst snd] in *. exact IH.
    + specialize (IH (set_parts s true (s_resp s) (s_obs s) (s_iter s))). destruct (apply_actions _ acts) as [[s2 o2] r2]. cbn [fst snd] in *. exact IH.
  - cbn. rewrite orb_false_r. auto.
Qed.

(* on an observation that is not cancelled the generator never raises, and it returns whenever it signals the end *)
Lemma Request_run_not_cancelled h reset r now ev :
  raises (snd (Request_run h reset r false now ev)) = false
  /\ (has_error (snd (Request_run h reset r false now ev)) = true -> fst (Request_run h reset r false now ev) = RFinished).
Proof.
  destruct r as [|v1 t1|]; cbn [Request_run].
  - destruct h, ev as [id [v|] [|]|e]; cbn [negb ev_is_last fst snd raises has_error];
      (split; [reflexivity|intros H; try reflexivity; try discriminate H]).
  - destruct ev as [id [v|] [|]|e]; cbn [fst snd app raises has_error]; try destruct (is_recent v1 v t1 now reset); cbn [fst snd app raises has_error];
      (split; [reflexivity|intros H; try reflexivity; try discriminate H]).
  - cbn. split; auto.
Qed.

Lemma drain_no_escape s : escapes (snd (drain s)) = false /\ s_obs (fst (drain s)) = s_obs s /\ s_runner (fst (drain s)) = s_runner s.
Proof.
  pose proof (drain_view 0 s) as (_ & E1 & _ & E3 & _). split; [|auto].
  unfold drain, anext_drain. destruct (negb (it_started (s_iter s)) || it_finished (s_iter s)); [reflexivity|].
  assert (Y : forall x, is_escape (yield x) = false) by (intros [id|e]; [reflexivity|destruct e; reflexivity]).
  destruct (it_w (s_iter s)) as [x|]; [|reflexivity]. destruct (is_err x); [cbn; rewrite Y; reflexivity|].
  destruct (it_s (s_iter s)) as [y|]; cbn; rewrite ?Y; reflexivity.
Qed.

Lemma add_event_no_escape s now ev : Inv s -> escapes (snd (add_event s now ev)) = false /\ Inv (fst (add_event s now ev)).
Proof.
  intros I. unfold add_event. destruct (s_ended s); [cbn; auto|].
  destruct (s_runner s) as [|v1 t1|] eqn:Er.
  3: { cbn [fst snd]. split; [reflexivity|]. unfold Inv. cbn. intros _. exact Er. }
  all: assert (Hc : cancelled (s_obs s) = false) by (destruct (cancelled (s_obs s)) eqn:E; auto; specialize (I E); congruence).
  all: rewrite Hc.
  all: match goal with |- context [Request_run ?h ?re ?r false ?n ?e] =>
         destruct (Request_run_not_cancelled h re r n e) as [NR FE]; destruct (Request_run h re r false n e) as [r' acts] end.
  all: cbn [fst snd] in *.
  all: pose proof (apply_actions_cancel acts (set_runner s r')) as [C E];
       pose proof (apply_actions_frame acts (set_runner s r')) as (_ & _ & F3 & _ & _ & F6);
       unfold aa_sys, aa_outs, aa_raised in *; destruct (apply_actions (set_runner s r') acts) as [[s1 outs] raised]; cbn [fst snd] in *.
  all: rewrite F6, NR; rewrite NR in E.
  all: assert (I1 : Inv s1) by (unfold Inv; rewrite C, F3; cbn; rewrite Hc; cbn; exact FE).
  all: destruct (ev_is_last ev && negb (s_ended s1)); cbn [fst snd]; [rewrite escapes_app, E; split; [reflexivity|exact I1]|split; [exact E|exact I1]].
Qed.

Lemma step_no_escape s o : Inv s -> o <> OpCancelObs -> escapes (snd (step s o)) = false /\ Inv (fst (step s o)).
Proof.
  intros I Ho. destruct o as [now ev| | |k| |]; cbn [step]; try congruence.
  - apply add_event_no_escape. exact I.
  - destruct (s_resp s).
    + match goal with |- context [drain ?S] => destruct (drain_no_escape S) as (E & O & R); destruct (drain S) as [s2 o2] end.
      cbn [fst snd] in *. split; [|unfold Inv; rewrite R; cbn; auto].
      change (escapes (ORespCancelled :: (if s_ended s then [] else [OEnd]) ++ o2)) with (escapes ((if s_ended s then [] else [OEnd]) ++ o2)).
      rewrite escapes_app, E. destruct (s_ended s); reflexivity.
    + destruct (drain_no_escape s) as (E & O & R). split; [exact E|unfold Inv; rewrite O, R; exact I].
    + destruct (drain_no_escape s) as (E & O & R). split; [exact E|unfold Inv; rewrite O, R; exact I].
  - destruct (negb (s_has_obs s)); [cbn; auto|].
    unfold register_callback, register_errback.
    destruct (cancelled (s_obs s)) eqn:Ec.
    + rewrite Ec. cbn. split; [reflexivity|]. unfold Inv. cbn. exact I.
    + destruct (latest_response (s_obs s)); cbn; (split; [reflexivity|unfold Inv; cbn; discriminate]).
  - destruct (negb (s_has_obs s) || it_started (s_iter s)).
    + destruct (drain_no_escape s) as (E & O & R). split; [exact E|unfold Inv; rewrite O, R; exact I].
    + unfold register_callback, register_errback.
      destruct (cancelled (s_obs s)) eqn:Ec.
      * rewrite Ec. destruct (cancellation_reason (s_obs s)); cbn [fst snd app];
          match goal with |- context [drain ?S] => destruct (drain_no_escape S) as (E & O & R); destruct (drain S) as [s2 o2] end;
          cbn [fst snd] in *; unfold escapes in *; cbn [existsb is_escape orb app]; rewrite ?existsb_app, ?E; (split; [reflexivity|unfold Inv; rewrite O, R; cbn; exact I]).
      * destruct (latest_response (s_obs s)); cbn [fst snd app cancelled];
          match goal with |- context [drain ?S] => destruct (drain_no_escape S) as (E & O & R); destruct (drain S) as [s2 o2] end;
          cbn [fst snd] in *; unfold escapes in *; cbn [existsb is_escape orb app]; rewrite ?existsb_app, ?E; (split; [reflexivity|unfold Inv; rewrite O, R; cbn; discriminate]).
  - destruct (drain_no_escape s) as (E & O & R). split; [exact E|unfold Inv; rewrite O, R; exact I].
Qed.

(* as long as the application does not cancel the observation itself, no exception leaves Pipe._add_event *)
Theorem no_exception_escapes : forall ops has_obs reset, ~ In OpCancelObs ops ->
  escapes (concat (run (sys0 has_obs reset) ops)) = false.
Proof.
  intros ops has_obs reset.
  assert (G : forall ops s, Inv s -> ~ In OpCancelObs ops -> escapes (concat (run s ops)) = false).
  { induction ops0 as [|o r IH]; intros s I Hn; [reflexivity|]. cbn [run].
    destruct (step_no_escape s o I) as [E I']. { intros ->. apply Hn. left. reflexivity. }
    destruct (step s o) as [s' outs]. cbn [fst snd concat] in *. rewrite escapes_app, E. apply IH; auto. intros H. apply Hn. right. exact H. }
  apply G. unfold Inv. cbn. discriminate.
Qed.

(* ... and the hypothesis is needed: observation.cancel() followed by a final first response *)
Theorem no_exception_escapes_without_hypothesis_refuted :
  run (sys0 true 128000000) [OpCancelObs; OpEvent 0 (EvMsg 1 None true)] = [[]; [OResp 1; OEscaped RuntimeError]].
Proof. vm_compute. reflexivity. Qed.

Theorem con_response_unanswered_refuted :
  fst (srun (stack0 true 128000000 false 0) [SApp 0 OpCancelObs; SResponse 1 CON 1 None true false])
  = [[]; [App (OResp 1); App (OEscaped RuntimeError)]].
Proof. vm_compute. reflexivity. Qed.

(* MessageManager.dispatch_error does not get to clean up the remote's exchanges *)
Theorem exchanges_cleaned_refuted :
  k_exchange (srun_state (stack0 true 128000000 true 0) [SApp 0 OpCancelObs; SNetError 1]) = Some 62000000.
Proof. vm_compute. reflexivity. Qed.
