(* C16 — proofs about the translated quoting kernels (Gen/uri_kernels.v) and the URI model (Model/C16.v). *)
From Verif Require Import Lib.Py Lib.Tactics Lib.PyLemmas Model.C16Str Gen.uri_kernels Model.C16 Proofs.C16Str.
Open Scope Z_scope.

(* ================================================================ percent-coding *)
Definition qbyte (safe : list Z) (x : Z) : list Z := if mem x safe then [x] else [37] ++ hex02X x.
Lemma quote_unfold safe s : quote safe s = (b <- utf8_encode s ;; Ok (flat_map (qbyte safe) b)).
Proof. reflexivity. Qed.
Lemma quote_nonascii_unfold s :
  quote_nonascii s = (b <- utf8_encode s ;; Ok (flat_map (fun c => if c <=? 127 then [c] else [37] ++ hex02X c) b)).
Proof. reflexivity. Qed.

Lemma hexval_hexdigit_upper n : 0 <= n < 16 -> hexval (hexdigit_upper n) = Some n.
Proof.
  intros H. unfold hexval, hexdigit_upper, is_digit.
  destruct (n <? 10) eqn:E.
  - replace ((48 <=? 48 + n) && (48 + n <=? 57)) with true by lia. f_equal. lia.
  - replace ((48 <=? 55 + n) && (55 + n <=? 57)) with false by lia.
    replace ((65 <=? 55 + n) && (55 + n <=? 70)) with true by lia. f_equal. lia.
Qed.
Definition upper_hex_char (c : Z) : Prop := 48 <= c <= 57 \/ 65 <= c <= 70.
Lemma hexdigit_upper_range n : 0 <= n < 16 -> upper_hex_char (hexdigit_upper n).
Proof. intros H. unfold upper_hex_char, hexdigit_upper. destruct (n <? 10) eqn:E; lia. Qed.

Lemma unquote_impl_plain c r : c <> 37 -> unquote_impl (c :: r) = c :: unquote_impl r.
Proof. intros H. cbn [unquote_impl]. replace (c =? 37) with false by lia. reflexivity. Qed.
Lemma unquote_impl_esc h1 h2 a b r : hexval h1 = Some a -> hexval h2 = Some b ->
  unquote_impl (37 :: h1 :: h2 :: r) = (a * 16 + b) :: unquote_impl r.
Proof. intros E1 E2. cbn [unquote_impl]. change (37 =? 37) with true. cbv iota. rewrite E1, E2. reflexivity. Qed.

Lemma unquote_impl_qbytes safe b : mem 37 safe = false -> bytes_ok b = true ->
  unquote_impl (flat_map (qbyte safe) b) = b.
Proof.
  intros Hs. induction b as [|x b IH]; intros Hb; [reflexivity|].
  rewrite bytes_ok_cons in Hb. apply andb_prop in Hb as [Hx Hb]. unfold byte_ok in Hx.
  cbn [flat_map]. unfold qbyte at 1. destruct (mem x safe) eqn:Em.
  - cbn [app]. assert (x <> 37) by (intros ->; congruence).
    rewrite unquote_impl_plain by assumption. rewrite IH by exact Hb. reflexivity.
  - unfold hex02X. cbn [app].
    rewrite (unquote_impl_esc _ _ (x / 16) (x mod 16)) by (apply hexval_hexdigit_upper; lia).
    rewrite IH by exact Hb. f_equal. lia.
Qed.

Lemma qbytes_ascii safe b : all_ascii safe = true -> bytes_ok b = true -> all_ascii (flat_map (qbyte safe) b) = true.
Proof.
  intros Hs. induction b as [|x b IH]; intros Hb; [reflexivity|].
  rewrite bytes_ok_cons in Hb. apply andb_prop in Hb as [Hx Hb]. unfold byte_ok in Hx.
  cbn [flat_map]. unfold all_ascii in *. rewrite forallb_app, IH by exact Hb. rewrite andb_true_r.
  unfold qbyte. destruct (mem x safe) eqn:Em.
  - cbn [forallb]. rewrite andb_true_r. apply mem_true_in in Em. rewrite forallb_forall in Hs. apply Hs. exact Em.
  - unfold hex02X. cbn [app forallb]. unfold is_ascii.
    pose proof (hexdigit_upper_range (x / 16) ltac:(lia)) as H1. pose proof (hexdigit_upper_range (x mod 16) ltac:(lia)) as H2.
    unfold upper_hex_char in *. lia.
Qed.
(* a character that is neither safe, nor "%", nor an upper-case hex digit never occurs in quoted text *)
Lemma qbytes_no_char safe b d : mem d safe = false -> d <> 37 -> ~ upper_hex_char d -> bytes_ok b = true ->
  mem d (flat_map (qbyte safe) b) = false.
Proof.
  intros Hs H37 Hh. induction b as [|x b IH]; intros Hb; [reflexivity|].
  rewrite bytes_ok_cons in Hb. apply andb_prop in Hb as [Hx Hb]. unfold byte_ok in Hx.
  cbn [flat_map]. rewrite mem_app, IH by exact Hb. rewrite orb_false_r.
  unfold qbyte. destruct (mem x safe) eqn:Em.
  - rewrite mem_cons. cbn [mem existsb]. rewrite orb_false_r. destruct (d =? x) eqn:E; [|reflexivity].
    apply Z.eqb_eq in E. subst. congruence.
  - unfold hex02X. cbn [app]. rewrite !mem_cons. cbn [mem existsb].
    pose proof (hexdigit_upper_range (x / 16) ltac:(lia)) as H1. pose proof (hexdigit_upper_range (x mod 16) ltac:(lia)) as H2.
    unfold upper_hex_char in *. lia.
Qed.

Lemma unquote_parts_ascii s : forall run, all_ascii s = true -> unquote_parts s run = decode_run (rev run ++ s).
Proof.
  induction s as [|c s IH]; intros run H.
  - cbn [unquote_parts]. rewrite app_nil_r. reflexivity.
  - unfold all_ascii in H. cbn [forallb] in H. apply andb_prop in H as [Hc Hs].
    cbn [unquote_parts]. rewrite Hc. rewrite IH by exact Hs. cbn [rev]. rewrite <- app_assoc. reflexivity.
Qed.

(* unquote(quote(s)) = s for every string that can be encoded, and every safe set of ASCII characters without "%" *)
Theorem unquote_quote safe s q : mem 37 safe = false -> all_ascii safe = true ->
  quote safe s = Ok q -> unquote q = Ok s.
Proof.
  intros H37 Has Hq. rewrite quote_unfold in Hq.
  destruct (utf8_encode s) as [b|] eqn:Eb; [|discriminate]. cbn [bind] in Hq. ok_inj Hq.
  destruct (utf8_encode_bytes_ok _ _ Eb) as [_ Hb].
  unfold unquote. rewrite unquote_parts_ascii by (apply qbytes_ascii; assumption).
  cbn [rev app]. unfold decode_run. rewrite unquote_impl_qbytes by assumption.
  apply utf8_decode_encode. exact Eb.
Qed.
Lemma quote_total safe s : valid_str s = true -> exists q, quote safe s = Ok q.
Proof. intros H. destruct (utf8_encode_ok s H) as (b & Hb & _). rewrite quote_unfold, Hb. eexists. reflexivity. Qed.
Lemma quote_no_char safe s q d : mem d safe = false -> d <> 37 -> ~ upper_hex_char d ->
  quote safe s = Ok q -> mem d q = false.
Proof.
  intros Hs H37 Hh Hq. rewrite quote_unfold in Hq.
  destruct (utf8_encode s) as [b|] eqn:Eb; [|discriminate]. cbn [bind] in Hq. ok_inj Hq.
  destruct (utf8_encode_bytes_ok _ _ Eb) as [_ Hb]. apply qbytes_no_char; assumption.
Qed.

Lemma path_chars_ok : mem 37 quote_for_path_chars = false /\ all_ascii quote_for_path_chars = true /\
  mem 47 quote_for_path_chars = false /\ mem 63 quote_for_path_chars = false /\ mem 35 quote_for_path_chars = false.
Proof. vm_compute. repeat split. Qed.
Lemma query_chars_ok : mem 37 quote_for_query_chars = false /\ all_ascii quote_for_query_chars = true /\
  mem 38 quote_for_query_chars = false /\ mem 35 quote_for_query_chars = false.
Proof. vm_compute. repeat split. Qed.

(* ================================================================ segment lists *)
Lemma mapM_quote_unquote safe l : mem 37 safe = false -> all_ascii safe = true ->
  forall ql, mapM (quote safe) l = Ok ql -> mapM unquote ql = Ok l.
Proof.
  intros H37 Has. induction l as [|s l IH]; intros ql H; cbn [mapM] in H.
  - ok_inj H. reflexivity.
  - destruct (quote safe s) as [q|] eqn:Eq; [|discriminate]. cbn [bind] in H.
    destruct (mapM (quote safe) l) as [ql'|] eqn:El; [|discriminate]. cbn [bind] in H. ok_inj H.
    cbn [mapM]. rewrite (unquote_quote safe s q) by assumption. cbn [bind]. rewrite IH by reflexivity. reflexivity.
Qed.
Lemma mapM_quote_total safe l : forallb valid_str l = true -> exists ql, mapM (quote safe) l = Ok ql /\ length ql = length l.
Proof.
  induction l as [|s l IH]; intros H. { exists []. split; reflexivity. }
  cbn [forallb] in H. apply andb_prop in H as [Hs Hl]. destruct (IH Hl) as (ql & Hql & Hlen).
  destruct (quote_total safe s Hs) as (q & Hq). exists (q :: ql). cbn [mapM]. rewrite Hq, Hql. cbn. split; [reflexivity | congruence].
Qed.
Lemma mapM_quote_no_char safe l ql d : mem d safe = false -> d <> 37 -> ~ upper_hex_char d ->
  mapM (quote safe) l = Ok ql -> Forall (fun s => mem d s = false) ql.
Proof.
  intros Hs H37 Hh. revert ql. induction l as [|s l IH]; intros ql H; cbn [mapM] in H.
  - ok_inj H. constructor.
  - destruct (quote safe s) as [q|] eqn:Eq; [|discriminate]. cbn [bind] in H.
    destruct (mapM (quote safe) l) as [ql'|] eqn:El; [|discriminate]. cbn [bind] in H. ok_inj H.
    constructor; [eapply quote_no_char; eauto | apply IH; reflexivity].
Qed.
Lemma mapM_length {A B} (f : A -> M B) l : forall r, mapM f l = Ok r -> length r = length l.
Proof.
  induction l as [|a l IH]; intros r H; cbn [mapM] in H. { ok_inj H. reflexivity. }
  destruct (f a); [|discriminate]. cbn [bind] in H. destruct (mapM f l) eqn:E; [|discriminate]. cbn [bind] in H. ok_inj H.
  cbn. f_equal. apply IH. reflexivity.
Qed.

Lemma startswith_nil s : startswith s [] = true. Proof. destruct s; reflexivity. Qed.
Lemma startswith_cons c s : startswith (c :: s) [c] = true.
Proof. cbn [startswith]. rewrite Z.eqb_refl, startswith_nil. reflexivity. Qed.
Lemma startswith_cons2 a b s : startswith (a :: b :: s) [a; b] = true.
Proof. cbn [startswith]. rewrite !Z.eqb_refl, startswith_nil. reflexivity. Qed.
Ltac not_hex := unfold upper_hex_char; lia.

(* Uri-Path -> path component -> Uri-Path: everything but the single empty segment *)
Theorem path_roundtrip p : p <> [[]] -> forall text, compose_path p = Ok text ->
  unquote_path text = Ok p /\ mem 63 text = false /\ mem 35 text = false /\ startswith text [47] = true.
Proof.
  intros Hdeg text H. unfold compose_path in H.
  destruct (mapM (quote quote_for_path_chars) p) as [l|] eqn:El; [|discriminate]. cbn [bind] in H. ok_inj H.
  destruct path_chars_ok as (H37 & Has & H47 & H63 & H35).
  pose proof (mapM_quote_unquote _ _ H37 Has _ El) as Hback.
  pose proof (mapM_quote_no_char _ _ _ 47 H47 ltac:(lia) ltac:(not_hex) El) as N47.
  pose proof (mapM_quote_no_char _ _ _ 63 H63 ltac:(lia) ltac:(not_hex) El) as N63.
  pose proof (mapM_quote_no_char _ _ _ 35 H35 ltac:(lia) ltac:(not_hex) El) as N35.
  destruct l as [|a l].
  - (* p = [] : "/" *)
    cbn [flat_map is_nil]. assert (p = []) by (apply mapM_length in El; destruct p; [reflexivity | discriminate]). subst.
    repeat split; reflexivity.
  - assert (Hnn : is_nil (flat_map (fun x => 47 :: x) (a :: l)) = false) by reflexivity. rewrite Hnn.
    assert (Hno : forall d, d <> 47 -> Forall (fun s => mem d s = false) (a :: l) -> mem d (flat_map (fun x => 47 :: x) (a :: l)) = false).
    { intros d Hd. generalize (a :: l). induction l0 as [|x l0 IH0]; intros F; [reflexivity|]. inv F.
      cbn [flat_map]. rewrite mem_app, mem_cons, IH0 by assumption. replace (d =? 47) with false by lia. rewrite H1. reflexivity. }
    split; [|split; [apply Hno; [lia|assumption] | split; [apply Hno; [lia|assumption] | cbn [flat_map app]; apply startswith_cons]]].
    unfold unquote_path.
    assert (Hb : beqb (flat_map (fun x => 47 :: x) (a :: l)) [47] = false).
    { destruct (beqb _ _) eqn:E; [|reflexivity]. apply list_eqb_Z_eq in E. cbn [flat_map] in E.
      injection E as E. apply app_eq_nil in E as [-> E]. destruct l; [|discriminate].
      (* a = [] and l = []: p = [""] *)
      apply mapM_length in El as Hl. destruct p as [|s [|? ?]]; try discriminate.
      cbn [mapM] in El. destruct (quote quote_for_path_chars s) as [q|] eqn:Eq; [|discriminate]. cbn [bind] in El. ok_inj El. assert (q = []) by congruence. subst q.
      pose proof (unquote_quote _ s [] H37 Has Eq) as U. cbv in U. apply Ok_inj in U. subst s. congruence. }
    rewrite Hnn, Hb. cbn [orb]. rewrite split_on_slashes by (try discriminate; assumption).
    cbn [skipn]. exact Hback.
Qed.

(* Uri-Query -> query component -> Uri-Query: everything but the single empty segment *)
Theorem query_roundtrip q : q <> [[]] -> forall text, compose_query q = Ok text ->
  unquote_query text = Ok q /\ mem 35 text = false.
Proof.
  intros Hdeg text H. unfold compose_query in H.
  destruct (mapM (quote quote_for_query_chars) q) as [l|] eqn:El; [|discriminate]. cbn [bind] in H. ok_inj H.
  destruct query_chars_ok as (H37 & Has & H38 & H35).
  pose proof (mapM_quote_unquote _ _ H37 Has _ El) as Hback.
  pose proof (mapM_quote_no_char _ _ _ 38 H38 ltac:(lia) ltac:(not_hex) El) as N38.
  pose proof (mapM_quote_no_char _ _ _ 35 H35 ltac:(lia) ltac:(not_hex) El) as N35.
  assert (Hno : forall l0, Forall (fun s => mem 35 s = false) l0 -> mem 35 (join [38] l0) = false).
  { induction l0 as [|x l0 IH0]; intros F; [reflexivity|]. inv F. destruct l0 as [|y l0]; [exact H1|].
    change (join [38] (x :: y :: l0)) with (x ++ [38] ++ join [38] (y :: l0)). rewrite !mem_app, H1, IH0 by assumption. reflexivity. }
  split; [|apply Hno; exact N35].
  unfold unquote_query. destruct l as [|a l].
  - assert (q = []) by (apply mapM_length in El; destruct q; [reflexivity | discriminate]). subst. reflexivity.
  - destruct (is_nil (join [38] (a :: l))) eqn:En.
    + (* the joined text is empty: l = [""] hence q = [""] *)
      destruct l as [|b l]; cbn [join] in En.
      * destruct a; [|discriminate]. apply mapM_length in El as Hl. destruct q as [|s [|? ?]]; try discriminate.
        cbn [mapM] in El. destruct (quote quote_for_query_chars s) as [qq|] eqn:Eq; [|discriminate]. cbn [bind] in El. ok_inj El. assert (qq = []) by congruence. subst qq.
        pose proof (unquote_quote _ s [] H37 Has Eq) as U. cbv in U. apply Ok_inj in U. subst s. congruence.
      * destruct a; discriminate.
    + rewrite split_on_join by (try discriminate; assumption). exact Hback.
Qed.

(* ================================================================ host:port strings *)
Definition lower_before_pct (h : list Z) : list Z :=
  let '(a, pc, z) := partition 37 h in lower_ascii a ++ (if pc then [37] else []) ++ z.
Definition port_ok (p : option Z) : Prop := match p with None => True | Some n => 0 <= n <= 65535 end.
Definition port_text (p : option Z) : list Z := match p with None => [] | Some n => 58 :: print_dec n end.
(* hosts that hostportsplit can read back: no "@", and the part that is lower-cased is ASCII *)
Definition host_ascii_part (h : list Z) : bool := all_ascii (fst (fst (partition 37 h))).

Lemma port_text_no p c : port_ok p -> is_digit c = false -> c <> 58 -> mem c (port_text p) = false.
Proof.
  intros Hp Hc H58. destruct p as [n|]; [|reflexivity]. cbn in Hp. unfold port_text, print_dec.
  replace (n <? 0) with false by lia. rewrite mem_cons. replace (c =? 58) with false by lia.
  apply digits_no; [apply print_nat_dec_digits; lia | exact Hc].
Qed.
Lemma port_value p : port_ok p ->
  match (match p with None => None | Some n => Some (print_dec n) end) with
  | None => Ok None
  | Some port => if forallb is_digit port then pv <- py_int_digits port ;; (if pv <=? 65535 then Ok (Some pv) else Raise ValueError) else Raise ValueError
  end = Ok p.
Proof.
  destruct p as [n|]; [|reflexivity]. cbn. intros Hn. unfold print_dec. replace (n <? 0) with false by lia.
  destruct (print_nat_dec_digits n ltac:(lia)) as [Hd Hne]. rewrite Hd.
  unfold py_int_digits. pose proof (print_nat_dec_short n Hn) as Hs.
  assert (0 < blen (print_nat_dec n)). { destruct (print_nat_dec n); [congruence|]. rewrite blen_cons. pose proof (blen_nonneg l). lia. }
  replace ((4300 <? blen (print_nat_dec n)) || (blen (print_nat_dec n) =? 0)) with false by lia.
  cbn [bind]. rewrite parse_print_nat_dec by lia. replace (n <=? 65535) with true by lia. reflexivity.
Qed.

(* _hostinfo of  host[:port]  without brackets *)
Lemma hostinfo_of_plain h p : port_ok p -> mem 58 h = false -> mem 64 h = false -> mem 91 h = false ->
  hostinfo_of (h ++ port_text p) = (h, match p with None => None | Some n => Some (print_dec n) end).
Proof.
  intros Hp H58 H64 H91. unfold hostinfo_of.
  assert (N64 : mem 64 (h ++ port_text p) = false) by (rewrite mem_app, H64, port_text_no by (auto; lia); reflexivity).
  assert (N91 : mem 91 (h ++ port_text p) = false) by (rewrite mem_app, H91, port_text_no by (auto; lia); reflexivity).
  rewrite rpartition_notfound by exact N64. rewrite (partition_notfound 91) by exact N91.
  destruct p as [n|]; cbn [port_text].
  - rewrite partition_found by exact H58. cbn [is_nil].
    cbn in Hp. unfold print_dec. replace (n <? 0) with false by lia.
    destruct (print_nat_dec_digits n ltac:(lia)) as [_ Hne]. destruct (print_nat_dec n); [congruence|]. reflexivity.
  - rewrite app_nil_r, partition_notfound by exact H58. reflexivity.
Qed.
(* _hostinfo of  [host][:port] *)
Lemma hostinfo_of_bracketed h p : port_ok p -> mem 93 h = false -> mem 64 h = false ->
  hostinfo_of (91 :: h ++ 93 :: port_text p) = (h, match p with None => None | Some n => Some (print_dec n) end).
Proof.
  intros Hp H93 H64. unfold hostinfo_of.
  assert (N64 : mem 64 (91 :: h ++ 93 :: port_text p) = false).
  { rewrite mem_cons, mem_app, mem_cons, H64, port_text_no by (auto; lia). reflexivity. }
  rewrite rpartition_notfound by exact N64.
  change (91 :: h ++ 93 :: port_text p) with ([] ++ 91 :: (h ++ 93 :: port_text p)).
  rewrite (partition_found 91) by reflexivity. rewrite (partition_found 93) by exact H93.
  destruct p as [n|]; cbn [port_text].
  - change (58 :: print_dec n) with ([] ++ 58 :: print_dec n). rewrite partition_found by reflexivity. cbn [is_nil].
    cbn in Hp. unfold print_dec. replace (n <? 0) with false by lia.
    destruct (print_nat_dec_digits n ltac:(lia)) as [_ Hne]. destruct (print_nat_dec n); [congruence|]. reflexivity.
  - reflexivity.
Qed.

Lemma hostportsplit_of_hostinfo s h p : port_ok p -> h <> [] -> host_ascii_part h = true ->
  hostinfo_of s = (h, match p with None => None | Some n => Some (print_dec n) end) ->
  hostportsplit s = Ok (Some (lower_before_pct h), p).
Proof.
  intros Hp Hne Ha Hi. unfold hostportsplit, hostname_of, port_of. rewrite Hi. cbn [fst snd].
  destruct h as [|c h]; [congruence|]. cbn [is_nil].
  unfold host_ascii_part in Ha. unfold lower_before_pct.
  destruct (partition 37 (c :: h)) as [[a pc] z]. cbn [fst] in Ha. rewrite Ha. cbn [bind].
  rewrite (port_value p Hp). reflexivity.
Qed.

Lemma endswith_snoc s c : endswith (s ++ [c]) [c] = true.
Proof. unfold endswith. rewrite rev_app_distr. cbn [rev app]. apply startswith_cons. Qed.
Lemma startswith_no s c : mem c s = false -> startswith s [c] = false.
Proof. destruct s as [|x s]; [reflexivity|]. rewrite mem_cons. intros H. cbn [startswith]. replace (x =? c) with false by lia. reflexivity. Qed.

Lemma hostportjoin_plain h p : mem 58 h = false -> hostportjoin h p = Ok (h ++ port_text p).
Proof. intros H. unfold hostportjoin. rewrite H. cbn [andb]. destruct p; cbn [port_text]; [reflexivity | rewrite app_nil_r; reflexivity]. Qed.
Lemma hostportjoin_bare6 h p : mem 58 h = true -> mem 91 h = false -> hostportjoin h p = Ok (91 :: h ++ 93 :: port_text p).
Proof.
  intros H58 H91. unfold hostportjoin. rewrite H58, startswith_no by exact H91. cbn [andb negb].
  destruct p; cbn [port_text app]; rewrite <- ?app_assoc; reflexivity.
Qed.
Lemma hostportjoin_bracketed h p : hostportjoin (91 :: h ++ [93]) p = Ok (91 :: h ++ 93 :: port_text p).
Proof.
  unfold hostportjoin. rewrite startswith_cons. change (91 :: h ++ [93]) with ((91 :: h) ++ [93]). rewrite endswith_snoc.
  cbn [andb negb]. rewrite andb_false_r.
  destruct p; cbn [port_text app]; rewrite <- ?app_assoc; reflexivity.
Qed.

(* names and IPv4 literals: anything without ":", "@", "[" *)
Theorem hostport_join_split_name h p : port_ok p -> h <> [] -> host_ascii_part h = true ->
  mem 58 h = false -> mem 64 h = false -> mem 91 h = false ->
  exists j, hostportjoin h p = Ok j /\ hostportsplit j = Ok (Some (lower_before_pct h), p).
Proof.
  intros Hp Hne Ha H58 H64 H91. exists (h ++ port_text p). split; [apply hostportjoin_plain; exact H58|].
  apply hostportsplit_of_hostinfo; auto. apply hostinfo_of_plain; auto.
Qed.
(* IPv6 literals with optional zone, given bare or in brackets: contain ":", no "]", "[", "@" *)
Theorem hostport_join_split_ip6 h p : port_ok p -> host_ascii_part h = true ->
  mem 58 h = true -> mem 93 h = false -> mem 91 h = false -> mem 64 h = false ->
  exists j, hostportjoin h p = Ok j /\ hostportjoin (91 :: h ++ [93]) p = Ok j /\
            hostportsplit j = Ok (Some (lower_before_pct h), p).
Proof.
  intros Hp Ha H58 H93 H91 H64. exists (91 :: h ++ 93 :: port_text p).
  split; [apply hostportjoin_bare6; auto|]. split; [apply hostportjoin_bracketed|].
  apply hostportsplit_of_hostinfo; auto.
  - intros ->. discriminate.
  - apply hostinfo_of_bracketed; auto.
Qed.

(* ================================================================ which exceptions can leave set_request_uri *)
Lemma bind_raise {A B} (m : M A) (f : A -> M B) e : bind m f = Raise e ->
  m = Raise e \/ exists a, m = Ok a /\ f a = Raise e.
Proof. destruct m as [a|e']; cbn [bind]; intros H; [right; eauto | left; congruence]. Qed.

Lemma utf8_decode_raises n : forall b e, (length b <= n)%nat -> utf8_decode b = Raise e -> e = UnicodeDecodeError.
Proof.
  induction n as [|n IH]; intros b e Hl H.
  - destruct b; [discriminate | cbn in Hl; lia].
  - destruct b as [|b0 r]; [discriminate|]. cbn [length] in Hl.
    assert (Hrec : forall r' (f : list Z -> list Z), (length r' <= n)%nat -> (r0 <- utf8_decode r' ;; Ok (f r0)) = Raise e -> e = UnicodeDecodeError).
    { intros r' f Hr' Hb. apply bind_raise in Hb as [Hb | (a & _ & Hb)]; [eapply IH; eauto | discriminate]. }
    cbn [utf8_decode] in H.
    destruct ((0 <=? b0) && (b0 <? 128)). { eapply (Hrec r (fun x => b0 :: x)); [lia | exact H]. }
    destruct ((194 <=? b0) && (b0 <? 224)).
    { destruct r as [|b1 r']; [congruence|]. cbn [length] in Hl. destruct (is_cont b1); [|congruence].
      eapply (Hrec r' (fun x => _ :: x)); [lia | exact H]. }
    destruct ((224 <=? b0) && (b0 <? 240)).
    { destruct r as [|b1 [|b2 r']]; try congruence. cbn [length] in Hl.
      destruct (is_cont b1 && is_cont b2 && implb (b0 =? 224) (160 <=? b1) && implb (b0 =? 237) (b1 <? 160)); [|congruence].
      eapply (Hrec r' (fun x => _ :: x)); [lia | exact H]. }
    destruct ((240 <=? b0) && (b0 <? 245)); [|congruence].
    destruct r as [|b1 [|b2 [|b3 r']]]; try congruence. cbn [length] in Hl.
    destruct (is_cont b1 && is_cont b2 && is_cont b3 && implb (b0 =? 240) (144 <=? b1) && implb (b0 =? 244) (b1 <? 144)); [|congruence].
    eapply (Hrec r' (fun x => _ :: x)); [lia | exact H].
Qed.
Lemma unquote_parts_raises s : forall run e, unquote_parts s run = Raise e -> e = UnicodeDecodeError.
Proof.
  induction s as [|c s IH]; intros run e H; cbn [unquote_parts] in H.
  - unfold decode_run in H. eapply utf8_decode_raises; [apply le_n | exact H].
  - destruct (is_ascii c); [eapply IH; exact H|].
    apply bind_raise in H as [H | (d & _ & H)].
    + unfold decode_run in H. eapply utf8_decode_raises; [apply le_n | exact H].
    + apply bind_raise in H as [H | (x & _ & H)]; [eapply IH; exact H | discriminate].
Qed.
Lemma unquote_raises s e : unquote s = Raise e -> e = UnicodeDecodeError.
Proof. apply unquote_parts_raises. Qed.
Lemma mapM_raises {A B} (f : A -> M B) (P : exn -> Prop) : (forall a e, f a = Raise e -> P e) ->
  forall l e, mapM f l = Raise e -> P e.
Proof.
  intros Hf. induction l as [|a l IH]; intros e H; cbn [mapM] in H; [discriminate|].
  apply bind_raise in H as [H | (b & _ & H)]; [eapply Hf; exact H|].
  apply bind_raise in H as [H | (x & _ & H)]; [apply IH; exact H | discriminate].
Qed.
Lemma catch_unicode_unquote_list (m : M (list (list Z))) e :
  (forall e', m = Raise e' -> e' = UnicodeDecodeError) -> catch_unicode m = Raise e -> e = MalformedUrlError.
Proof. intros Hm H. destruct m as [x|e']; [discriminate|]. rewrite (Hm e' eq_refl) in H. cbn in H. congruence. Qed.
Lemma unquote_path_raises path e : unquote_path path = Raise e -> e = UnicodeDecodeError.
Proof. unfold unquote_path. destruct (_ || _); [discriminate|]. apply (mapM_raises unquote (fun e => e = UnicodeDecodeError)). apply unquote_raises. Qed.
Lemma unquote_query_raises q e : unquote_query q = Raise e -> e = UnicodeDecodeError.
Proof. unfold unquote_query. destruct (is_nil q); [discriminate|]. apply (mapM_raises unquote (fun e => e = UnicodeDecodeError)). apply unquote_raises. Qed.
Lemma py_int_digits_raises s e : py_int_digits s = Raise e -> e = ValueError.
Proof. unfold py_int_digits. destruct (_ || _); congruence. Qed.
Lemma port_of_raises netloc e : port_of netloc = Raise e -> e = ValueError.
Proof.
  unfold port_of. destruct (snd (hostinfo_of netloc)) as [port|]; [|discriminate].
  destruct (forallb is_digit port); [|congruence]. intros H.
  apply bind_raise in H as [H | (p & _ & H)]; [eapply py_int_digits_raises; exact H|]. destruct (p <=? 65535); congruence.
Qed.
Lemma hostname_of_raises netloc e : hostname_of netloc = Raise e -> e = Unmodelled.
Proof.
  unfold hostname_of. destruct (is_nil _); [discriminate|]. destruct (partition 37 _) as [[h pc] z].
  destruct (all_ascii h); congruence.
Qed.
Lemma py_int_digits_short x : is_nil x = false -> blen x <= 3 -> exists v, py_int_digits x = Ok v.
Proof.
  intros Hn Hl. unfold py_int_digits. destruct x as [|c x]; [discriminate|]. rewrite blen_cons in *. pose proof (blen_nonneg x).
  replace ((4300 <? 1 + blen x) || (1 + blen x =? 0)) with false by lia. eexists. reflexivity.
Qed.
(* since the repair of the int() digit-limit finding the IPv4-literal test cannot raise *)
Lemma all_octets_total parts : exists b, all_octets parts = Ok b.
Proof.
  induction parts as [|x r IH]; cbn [all_octets]; [eexists; reflexivity|].
  destruct (is_nil x) eqn:En; [eexists; reflexivity|]. destruct (blen x <=? 3) eqn:El; cbn [negb]; [|eexists; reflexivity].
  destruct (py_int_digits_short x En ltac:(lia)) as (v & Hv). rewrite Hv. cbn [bind]. destruct (v <=? 255); [exact IH | eexists; reflexivity].
Qed.
Lemma is_ipv4_literal_total h : exists b, is_ipv4_literal h = Ok b.
Proof. unfold is_ipv4_literal. destruct (_ && _); [apply all_octets_total | eexists; reflexivity]. Qed.

Section Rejects.
Variable ip_address : list Z -> ipres.

Lemma check_bracketed_host_raises h e : check_bracketed_host ip_address h = Raise e -> e = ValueError.
Proof.
  unfold check_bracketed_host. destruct (startswith h [118]).
  - destruct (partition 46 (skipn 1 h)) as [[a d] t]. destruct (_ && _); congruence.
  - destruct (ip_address h); congruence.
Qed.
Lemma urlsplit_raises u e : urlsplit ip_address u = Raise e -> e = ValueError \/ e = Unmodelled.
Proof.
  unfold urlsplit. destruct (split_scheme _) as [scheme url]. intros H.
  apply bind_raise in H as [H | ([netloc url'] & _ & H)].
  - left. destruct (startswith url [47; 47]); [|discriminate]. destruct (splitnetloc _) as [netloc rest].
    destruct (_ || _); [congruence|].
    apply bind_raise in H as [H | (x & _ & H)]; [|discriminate].
    destruct (_ && _); [eapply check_bracketed_host_raises; exact H | discriminate].
  - right. destruct (partition 35 url') as [[a b] c]. destruct (partition 63 a) as [[a' b'] c'].
    destruct (all_ascii netloc); congruence.
Qed.

Lemma undecided_remote_raises s n e : undecided_remote ip_address s n = Raise e -> e = ValueError \/ e = Unmodelled.
Proof.
  unfold undecided_remote. destruct (mem 91 n); [|discriminate]. unfold hostportsplit. intros H.
  apply bind_raise in H as [H | ([host port] & Hs & H)].
  - apply bind_raise in H as [H | (h & _ & H)]; [right; eapply hostname_of_raises; exact H|].
    apply bind_raise in H as [H | (p & _ & H)]; [left; eapply port_of_raises; exact H | discriminate].
  - destruct host as [host|]; [|left; congruence].
    destruct (ip_address host); [left; congruence | |]; unfold hostportjoin in H; destruct (_ && _) in H; discriminate.
Qed.

(* For EVERY string: set_request_uri fails only with the two documented errors; [Unmodelled] marks the inputs outside the
   model (non-ASCII network location). (Before the repairs 1c4d498 / 9bbf9d1 a bare ValueError was possible in two situations.) *)
Theorem rejects_documented uri flag e : set_request_uri ip_address uri flag = Raise e ->
  e = MalformedUrlError \/ e = IncompleteUrlError \/ e = Unmodelled.
Proof.
  unfold set_request_uri. intros H.
  destruct (urlsplit ip_address uri) as [[[[[scheme netloc] path] query] fragment]|e0] eqn:Eu.
  2:{ destruct (urlsplit_raises _ _ Eu) as [-> | ->]; cbn in H; inv H; auto. }
  cbn [catch_value bind] in H.
  destruct fragment as [|f0 fr]; cbn [is_nil negb] in H; [|inv H; auto].
  destruct scheme as [|s0 sr]; cbn [is_nil] in H; [inv H; auto|].
  destruct (existsb (beqb (s0 :: sr)) coap_schemes); cbn [negb] in H; [|discriminate].
  destruct (hostname_of netloc) as [[hostname|]|e1] eqn:Eh; cbn [bind] in H.
  3:{ rewrite (hostname_of_raises _ _ Eh) in H. inv H. auto. }
  2:{ inv H. auto. }
  destruct (userinfo_of netloc) as [username password].
  destruct (truthy username || truthy password); [inv H; auto|].
  apply bind_raise in H as [H | (uri_path & _ & H)].
  { left. eapply catch_unicode_unquote_list; [|exact H]. apply unquote_path_raises. }
  apply bind_raise in H as [H | (uri_query & _ & H)].
  { left. eapply catch_unicode_unquote_list; [|exact H]. apply unquote_query_raises. }
  destruct (port_of netloc) as [port|e2] eqn:Ep.
  2:{ rewrite (port_of_raises _ _ Ep) in H. cbn in H. inv H. auto. }
  cbn [catch_value bind] in H.
  apply bind_raise in H as [H | (remote & Hrem & H)].
  { destruct (undecided_remote ip_address (s0 :: sr) netloc) as [r|e3] eqn:Er; [discriminate|].
    destruct (undecided_remote_raises _ _ _ Er) as [-> | ->]; cbn in H; inv H; auto. }
  apply bind_raise in H as [H | (lit & _ & H)].
  { destruct (mem 91 netloc); [discriminate|]. destruct (is_ipv4_literal_total hostname) as (b & Hb). congruence. }
  destruct (flag && negb lit); [|discriminate].
  apply bind_raise in H as [H | (h & _ & H)]; [|discriminate].
  left. destruct (unquote hostname) as [x|e3] eqn:Eq; [discriminate|]. rewrite (unquote_raises _ _ Eq) in H. cbn in H. congruence.
Qed.
End Rejects.

(* ================================================================ urlsplit (urlunsplit ...) *)
Lemma remove_unsafe_id s : mem 9 s = false -> mem 10 s = false -> mem 13 s = false -> remove_unsafe s = s.
Proof.
  induction s as [|c s IH]; intros H9 H10 H13; [reflexivity|].
  rewrite mem_cons in H9, H10, H13. apply orb_false_elim in H9 as [A9 B9]. apply orb_false_elim in H10 as [A10 B10]. apply orb_false_elim in H13 as [A13 B13].
  unfold remove_unsafe in *. cbn [filter]. unfold unsafe_byte at 1.
  replace (negb ((c =? 9) || (c =? 13) || (c =? 10))) with true by lia. rewrite IH by assumption. reflexivity.
Qed.
Lemma splitnetloc_app netloc r : mem 47 netloc = false -> mem 63 netloc = false -> mem 35 netloc = false ->
  splitnetloc (netloc ++ 47 :: r) = (netloc, 47 :: r).
Proof.
  induction netloc as [|c n IH]; intros H47 H63 H35; [reflexivity|].
  rewrite mem_cons in H47, H63, H35. apply orb_false_elim in H47 as [A47 B47]. apply orb_false_elim in H63 as [A63 B63]. apply orb_false_elim in H35 as [A35 B35].
  cbn [app splitnetloc]. unfold is_delim. replace ((c =? 47) || (c =? 63) || (c =? 35)) with false by lia.
  rewrite IH by assumption. reflexivity.
Qed.

(* what the proof needs to know about a scheme; every element of coap_schemes has these properties *)
Definition scheme_ok (s : list Z) : bool :=
  match s with
  | c :: _ => (32 <? c) && is_ascii c && is_alpha c
  | [] => false
  end && forallb scheme_char s && beqb (lower_ascii s) s && negb (mem 58 s) && negb (mem 9 s) && negb (mem 10 s) && negb (mem 13 s).
Lemma coap_schemes_ok s : existsb (beqb s) coap_schemes = true -> scheme_ok s = true.
Proof.
  intros H. apply existsb_exists in H as (x & Hin & E). apply list_eqb_Z_eq in E. subst x.
  cbv [coap_schemes] in Hin. cbn [In] in Hin.
  repeat (destruct Hin as [<- | Hin]; [vm_compute; reflexivity|]). contradiction.
Qed.

Section Split.
Variable ip_address : list Z -> ipres.

Definition brackets_ok (netloc : list Z) : Prop :=
  (if (mem 91 netloc && negb (mem 93 netloc)) || (mem 93 netloc && negb (mem 91 netloc)) then Raise ValueError
   else _ <- (if mem 91 netloc && mem 93 netloc
              then check_bracketed_host ip_address (fst (fst (partition 93 (snd (partition 91 netloc)))))
              else Ok tt) ;; Ok (netloc, @nil Z)) = Ok (netloc, @nil Z).

Lemma urlsplit_urlunsplit scheme netloc ptext qtext :
  scheme_ok scheme = true ->
  netloc <> [] -> all_ascii netloc = true -> brackets_ok netloc ->
  mem 47 netloc = false -> mem 63 netloc = false -> mem 35 netloc = false ->
  mem 9 netloc = false -> mem 10 netloc = false -> mem 13 netloc = false ->
  startswith ptext [47] = true -> mem 63 ptext = false -> mem 35 ptext = false ->
  mem 9 ptext = false -> mem 10 ptext = false -> mem 13 ptext = false ->
  mem 35 qtext = false -> mem 9 qtext = false -> mem 10 qtext = false -> mem 13 qtext = false ->
  urlsplit ip_address (urlunsplit scheme netloc ptext qtext) = Ok (scheme, netloc, ptext, qtext, []).
Proof.
  intros Hs Hne Hasc Hbr N47 N63 N35 N9 N10 N13 Pst P63 P35 P9 P10 P13 Q35 Q9 Q10 Q13.
  unfold scheme_ok in Hs. destruct scheme as [|s0 sr]; [discriminate|].
  apply andb_prop in Hs as [Hs S13]. apply andb_prop in Hs as [Hs S10]. apply andb_prop in Hs as [Hs S9].
  apply andb_prop in Hs as [Hs S58]. apply andb_prop in Hs as [Hs Hlow]. apply andb_prop in Hs as [Hs Schars].
  apply andb_prop in Hs as [Hs Salpha]. apply andb_prop in Hs as [S32 Sascii].
  apply negb_true_iff in S13, S10, S9, S58. apply list_eqb_Z_eq in Hlow.
  destruct ptext as [|p0 pr]; [discriminate|]. cbn [startswith] in Pst. apply andb_prop in Pst as [Pst _]. apply Z.eqb_eq in Pst. subst p0.
  set (tail := if negb (is_nil qtext) then (47 :: pr) ++ 63 :: qtext else 47 :: pr).
  assert (Hu : urlunsplit (s0 :: sr) netloc (47 :: pr) qtext = (s0 :: sr) ++ 58 :: [47; 47] ++ netloc ++ tail).
  { unfold urlunsplit, tail. destruct netloc as [|n0 nr]; [congruence|]. rewrite startswith_cons. cbn [is_nil negb orb andb].
    destruct qtext; cbn [is_nil negb]; rewrite <- ?app_assoc; cbn [app]; rewrite <- ?app_assoc; reflexivity. }
  rewrite Hu. clear Hu.
  assert (Ht : forall d, d <> 63 -> mem d (47 :: pr) = false -> mem d qtext = false -> mem d tail = false).
  { intros d Hd A B. unfold tail. destruct (negb (is_nil qtext)); [|exact A]. rewrite mem_app, A. rewrite mem_cons, B.
    replace (d =? 63) with false by lia. reflexivity. }
  assert (T9 : mem 9 tail = false /\ mem 10 tail = false /\ mem 13 tail = false) by (repeat split; apply Ht; auto; lia).
  destruct T9 as (T9 & T10 & T13).
  unfold urlsplit.
  (* lstrip, removal of tab/cr/lf *)
  assert (Hw : forall d, d <> 58 -> d <> 47 -> mem d (s0 :: sr) = false -> mem d netloc = false -> mem d tail = false ->
               mem d ((s0 :: sr) ++ 58 :: [47; 47] ++ netloc ++ tail) = false).
  { intros d D1 D2 A B C. rewrite mem_app, A. rewrite mem_cons. cbn [app]. rewrite !mem_cons, mem_app, B, C.
    replace (d =? 58) with false by lia. replace (d =? 47) with false by lia. reflexivity. }
  cbn [app lstrip_c0]. replace ((0 <=? s0) && (s0 <=? 32)) with false by lia.
  rewrite remove_unsafe_id by (apply Hw; auto; lia).
  (* scheme *)
  unfold split_scheme.
  change (s0 :: sr ++ 58 :: 47 :: 47 :: netloc ++ tail) with ((s0 :: sr) ++ 58 :: [47; 47] ++ netloc ++ tail).
  rewrite partition_found by exact S58.
  cbn [app]. rewrite Schars, Sascii, Salpha. cbn [andb]. rewrite Hlow.
  (* netloc *)
  rewrite startswith_cons2. cbn [skipn].
  assert (Htail : tail = 47 :: (if negb (is_nil qtext) then pr ++ 63 :: qtext else pr)) by (unfold tail; destruct (negb (is_nil qtext)); reflexivity).
  rewrite Htail, splitnetloc_app by assumption.
  unfold brackets_ok in Hbr.
  destruct ((mem 91 netloc && negb (mem 93 netloc)) || (mem 93 netloc && negb (mem 91 netloc))); [discriminate|].
  destruct (if mem 91 netloc && mem 93 netloc then _ else Ok tt) as [[]|]; [|discriminate]. cbn [bind].
  (* fragment, query *)
  destruct qtext as [|q0 qr]; cbn [is_nil negb].
  - rewrite (partition_notfound 35) by exact P35.
    rewrite (partition_notfound 63) by exact P63. rewrite Hasc. reflexivity.
  - change (47 :: pr ++ 63 :: q0 :: qr) with ((47 :: pr) ++ 63 :: q0 :: qr).
    rewrite (partition_notfound 35) by (rewrite mem_app, P35, mem_cons, Q35; reflexivity).
    rewrite (partition_found 63) by exact P63. rewrite Hasc. reflexivity.
Qed.
End Split.

(* ================================================================ options -> URI -> options *)
Lemma flat_slash_no d l : d <> 47 -> Forall (fun s => mem d s = false) l -> mem d (flat_map (fun x => 47 :: x) l) = false.
Proof.
  intros Hd. induction l as [|x l IH]; intros F; [reflexivity|]. inv F.
  cbn [flat_map]. rewrite mem_app, mem_cons, IH by assumption. replace (d =? 47) with false by lia. rewrite H1. reflexivity.
Qed.
Lemma join_amp_no d l : d <> 38 -> Forall (fun s => mem d s = false) l -> mem d (join [38] l) = false.
Proof.
  intros Hd. induction l as [|x l IH]; intros F; [reflexivity|]. inv F. destruct l as [|y l]; [exact H1|].
  change (join [38] (x :: y :: l)) with (x ++ [38] ++ join [38] (y :: l)). rewrite !mem_app, H1, IH by assumption.
  cbn [mem existsb]. replace (d =? 38) with false by lia. reflexivity.
Qed.
Lemma compose_path_no d p t : d <> 47 -> mem d quote_for_path_chars = false -> d <> 37 -> ~ upper_hex_char d ->
  compose_path p = Ok t -> mem d t = false.
Proof.
  intros D47 Hs D37 Hh H. unfold compose_path in H.
  destruct (mapM (quote quote_for_path_chars) p) as [l|] eqn:El; [|discriminate]. cbn [bind] in H. ok_inj H.
  pose proof (mapM_quote_no_char _ _ _ d Hs D37 Hh El) as N.
  destruct (is_nil _) eqn:E; [|apply flat_slash_no; assumption].
  cbn [mem existsb]. replace (d =? 47) with false by lia. reflexivity.
Qed.
Lemma compose_query_no d q t : d <> 38 -> mem d quote_for_query_chars = false -> d <> 37 -> ~ upper_hex_char d ->
  compose_query q = Ok t -> mem d t = false.
Proof.
  intros D38 Hs D37 Hh H. unfold compose_query in H.
  destruct (mapM (quote quote_for_query_chars) q) as [l|] eqn:El; [|discriminate]. cbn [bind] in H. ok_inj H.
  apply join_amp_no; [assumption|]. eapply mapM_quote_no_char; eauto.
Qed.
Lemma compose_path_total p : forallb valid_str p = true -> exists t, compose_path p = Ok t.
Proof. intros H. destruct (mapM_quote_total quote_for_path_chars p H) as (l & Hl & _). unfold compose_path. rewrite Hl. eexists. reflexivity. Qed.
Lemma compose_query_total q : forallb valid_str q = true -> exists t, compose_query q = Ok t.
Proof. intros H. destruct (mapM_quote_total quote_for_query_chars q H) as (l & Hl & _). unfold compose_query. rewrite Hl. eexists. reflexivity. Qed.

(* a Uri-Host value that is a lower-case ASCII reg-name (RFC 3986 unreserved / sub-delims, no pct-encoded) *)
Definition regname_char (c : Z) : bool := is_lower c || is_digit c || mem c [45; 46; 95; 126] || mem c sub_delims.
Definition regular_host (h : list Z) : bool := negb (is_nil h) && forallb regname_char h.

Lemma regname_char_props c : regname_char c = true ->
  32 < c < 128 /\ is_upper c = false /\ c <> 58 /\ c <> 64 /\ c <> 91 /\ c <> 93 /\ c <> 47 /\ c <> 63 /\ c <> 35 /\ c <> 37.
Proof. unfold regname_char, is_lower, is_digit, is_upper, mem, sub_delims. cbn [existsb]. lia. Qed.
Lemma forallb_mem_false (P : Z -> bool) h d : forallb P h = true -> P d = false -> mem d h = false.
Proof.
  intros Hh Hd. apply mem_false_forall. rewrite forallb_forall in Hh. apply Forall_forall. intros x Hin E. subst.
  rewrite (Hh _ Hin) in Hd. discriminate.
Qed.
Lemma regular_no h d : forallb regname_char h = true -> regname_char d = false -> mem d h = false.
Proof. apply forallb_mem_false. Qed.

Lemma lookup_lower_id c : is_upper c = false -> lookup_tbl ascii_lowercase c = c.
Proof.
  unfold is_upper. intros H. unfold ascii_lowercase. cbn [lookup_tbl].
  repeat match goal with |- context [if ?a =? c then _ else _] => replace (a =? c) with false by lia end. reflexivity.
Qed.
Lemma regular_host_facts h : forallb regname_char h = true ->
  lower_ascii h = h /\ translate ascii_lowercase h = h /\ all_ascii h = true /\ unquote_impl h = h /\ utf8_decode h = Ok h /\
  utf8_encode h = Ok h /\ flat_map (fun c => if c <=? 127 then [c] else [37] ++ hex02X c) h = h.
Proof.
  induction h as [|c h IH]; intros H. { repeat split; reflexivity. }
  cbn [forallb] in H. apply andb_prop in H as [Hc Hh]. destruct (IH Hh) as (I1 & I2 & I3 & I4 & I5 & I6 & I7).
  destruct (regname_char_props c Hc) as (R1 & R2 & R).
  repeat split.
  - cbn [lower_ascii map]. unfold lower_c. rewrite R2. f_equal. exact I1.
  - cbn [translate map]. rewrite lookup_lower_id by exact R2. f_equal. exact I2.
  - unfold all_ascii in *. cbn [forallb]. rewrite I3. unfold is_ascii. lia.
  - rewrite unquote_impl_plain by lia. f_equal. exact I4.
  - rewrite utf8_dec1 by lia. rewrite I5. reflexivity.
  - cbn [utf8_encode]. unfold utf8_encode_char. replace (c <? 0) with false by lia. replace (c <? 128) with true by lia.
    cbn [bind]. rewrite I6. reflexivity.
  - cbn [flat_map]. replace (c <=? 127) with true by lia. rewrite I7. reflexivity.
Qed.

Lemma hostname_of_hostinfo s h x : h <> [] -> host_ascii_part h = true -> hostinfo_of s = (h, x) ->
  hostname_of s = Ok (Some (lower_before_pct h)).
Proof.
  intros Hne Ha Hi. unfold hostname_of. rewrite Hi. cbn [fst]. destruct h as [|c h]; [congruence|]. cbn [is_nil].
  unfold host_ascii_part in Ha. unfold lower_before_pct.
  destruct (partition 37 (c :: h)) as [[a pc] z]. cbn [fst] in Ha. rewrite Ha. reflexivity.
Qed.
Lemma port_of_hostinfo s h p : port_ok p -> hostinfo_of s = (h, match p with None => None | Some n => Some (print_dec n) end) ->
  port_of s = Ok p.
Proof. intros Hp Hi. unfold port_of. rewrite Hi. cbn [snd]. apply port_value. exact Hp. Qed.
Lemma port_text_ascii p : port_ok p -> all_ascii (port_text p) = true.
Proof.
  destruct p as [n|]; [|reflexivity]. cbn. intros Hn. unfold print_dec. replace (n <? 0) with false by lia.
  destruct (print_nat_dec_digits n ltac:(lia)) as [Hd _]. rewrite forallb_forall in Hd. apply forallb_forall. intros x Hin.
  specialize (Hd x Hin). unfold is_digit in Hd. unfold is_ascii. lia.
Qed.

(* ---- facts about quoted host names (safe set of _quote_for_host: unreserved + sub-delims) *)
Definition not_upper (c : Z) : Prop := is_upper c = false.
Definition dd (c : Z) : bool := is_digit c || (c =? 46).

Lemma quote_ascii safe s q : all_ascii safe = true -> quote safe s = Ok q -> all_ascii q = true.
Proof.
  intros Hs Hq. rewrite quote_unfold in Hq. destruct (utf8_encode s) as [b|] eqn:Eb; [|discriminate]. cbn [bind] in Hq. ok_inj Hq.
  destruct (utf8_encode_bytes_ok _ _ Eb) as [_ Hb]. apply qbytes_ascii; assumption.
Qed.
Lemma utf8_encode_cons_nonempty c s b : utf8_encode (c :: s) = Ok b -> b <> [].
Proof.
  cbn [utf8_encode]. destruct (utf8_encode_char c) as [bc|] eqn:Ec; [|discriminate]. cbn [bind].
  destruct (utf8_encode s) as [bs|]; [|discriminate]. cbn [bind]. intros H. ok_inj H.
  unfold utf8_encode_char in Ec.
  repeat match type of Ec with (if ?c then _ else _) = _ => destruct c end; try discriminate; ok_inj Ec; discriminate.
Qed.
Lemma quote_nonempty safe s q : s <> [] -> quote safe s = Ok q -> q <> [].
Proof.
  intros Hne Hq. rewrite quote_unfold in Hq. destruct (utf8_encode s) as [b|] eqn:Eb; [|discriminate]. cbn [bind] in Hq. ok_inj Hq.
  destruct s as [|c s]; [congruence|]. apply utf8_encode_cons_nonempty in Eb. destruct b as [|x b]; [congruence|].
  cbn [flat_map]. unfold qbyte at 1. destruct (mem x safe); discriminate.
Qed.
Lemma utf8_no_upper h : Forall not_upper h -> forall b, utf8_encode h = Ok b -> Forall not_upper b.
Proof.
  induction h as [|c h IH]; intros F b H; cbn [utf8_encode] in H. { ok_inj H. constructor. }
  inv F. destruct (utf8_encode_char c) as [bc|] eqn:Ec; [|discriminate]. cbn [bind] in H.
  destruct (utf8_encode h) as [bs|] eqn:Es; [|discriminate]. cbn [bind] in H. ok_inj H.
  apply Forall_app. split; [|apply IH; auto].
  unfold not_upper in *. unfold utf8_encode_char, is_surrogate in Ec. unfold is_upper in *.
  destruct (c <? 0); [discriminate|].
  destruct (c <? 128) eqn:E1. { ok_inj Ec. repeat constructor. assumption. }
  destruct (c <? 2048) eqn:E2. { ok_inj Ec. repeat constructor; lia. }
  destruct (c <? 65536) eqn:E3. { destruct ((55296 <=? c) && (c <=? 57343)); [discriminate|]. ok_inj Ec. repeat constructor; lia. }
  destruct (c <? 1114112) eqn:E4; [|discriminate]. ok_inj Ec. repeat constructor; lia.
Qed.
Lemma lower_before_pct_cons x s : x <> 37 -> lower_before_pct (x :: s) = lower_c x :: lower_before_pct s.
Proof.
  intros H. unfold lower_before_pct. cbn [partition]. replace (x =? 37) with false by lia.
  destruct (partition 37 s) as [[a pc] z]. reflexivity.
Qed.
Lemma lower_before_pct_qbytes safe b : mem 37 safe = false -> Forall not_upper b ->
  lower_before_pct (flat_map (qbyte safe) b) = flat_map (qbyte safe) b.
Proof.
  intros H37. induction b as [|x b IH]; intros F; [reflexivity|]. inv F. cbn [flat_map]. unfold qbyte at 1 3.
  destruct (mem x safe) eqn:Em.
  - cbn [app]. rewrite lower_before_pct_cons by (intros ->; congruence). rewrite IH by assumption.
    unfold lower_c. unfold not_upper in *. rewrite H1. reflexivity.
  - cbn [app]. unfold lower_before_pct. cbn [partition]. rewrite Z.eqb_refl. reflexivity.
Qed.
Lemma partition_fst_forallb (P : Z -> bool) c s : forallb P s = true -> forallb P (fst (fst (partition c s))) = true.
Proof.
  induction s as [|x s IH]; intros H; [reflexivity|]. cbn [forallb] in H. apply andb_prop in H as [Hx Hs].
  cbn [partition]. destruct (x =? c); [reflexivity|]. specialize (IH Hs). destruct (partition c s) as [[a h] b].
  cbn [fst] in *. cbn [forallb]. rewrite Hx, IH. reflexivity.
Qed.
Lemma translate_id h : Forall not_upper h -> translate ascii_lowercase h = h.
Proof. induction 1 as [|c h Hc F IH]; [reflexivity|]. cbn [translate map]. rewrite lookup_lower_id by exact Hc. f_equal. exact IH. Qed.
Lemma utf8_decode_ascii b : forallb (fun c => (0 <=? c) && (c <? 128)) b = true -> utf8_decode b = Ok b.
Proof.
  induction b as [|c b IH]; intros H; [reflexivity|]. cbn [forallb] in H. apply andb_prop in H as [Hc Hb].
  rewrite utf8_dec1 by lia. rewrite IH by exact Hb. reflexivity.
Qed.
Lemma dd_chars_safe : forall c, dd c = true -> mem c quote_for_host_chars = true /\ 0 <= c < 128.
Proof.
  intros c H. unfold dd, is_digit in H.
  assert (E : c = 46 \/ c = 48 \/ c = 49 \/ c = 50 \/ c = 51 \/ c = 52 \/ c = 53 \/ c = 54 \/ c = 55 \/ c = 56 \/ c = 57) by lia.
  repeat (destruct E as [-> | E]; [split; [reflexivity | lia]|]). subst. split; [reflexivity | lia].
Qed.
(* a host of digits and dots is left alone by the host quoting; any other host is quoted into something that is not digits and dots *)
Lemma quote_host_dd h : forallb dd h = true -> quote quote_for_host_chars h = Ok h.
Proof.
  intros H. rewrite quote_unfold.
  assert (Ha : forallb (fun c => (0 <=? c) && (c <? 128)) h = true).
  { apply forallb_forall. intros x Hin. rewrite forallb_forall in H. destruct (dd_chars_safe x (H x Hin)). lia. }
  rewrite utf8_encode_ascii by exact Ha. cbn [bind]. f_equal.
  induction h as [|c h IH]; [reflexivity|]. cbn [forallb] in H, Ha. apply andb_prop in H as [Hc Hh]. apply andb_prop in Ha as [_ Ha].
  cbn [flat_map]. unfold qbyte at 1. destruct (dd_chars_safe c Hc) as [-> _]. cbn [app]. f_equal. apply IH; assumption.
Qed.
Lemma qbytes_dd_back safe b : forallb dd (flat_map (qbyte safe) b) = true -> flat_map (qbyte safe) b = b /\ forallb dd b = true.
Proof.
  induction b as [|x b IH]; intros H; [split; reflexivity|]. cbn [flat_map] in *. rewrite forallb_app in H. apply andb_prop in H as [Hx Hb].
  destruct (IH Hb) as [I1 I2]. unfold qbyte at 1 in Hx. unfold qbyte at 1. destruct (mem x safe).
  - cbn [forallb] in Hx. rewrite andb_true_r in Hx. cbn [app forallb]. rewrite I1, Hx, I2. split; reflexivity.
  - cbn [app forallb] in Hx. apply andb_prop in Hx as [Hx _]. discriminate.
Qed.
Lemma quote_dd_back safe h e : quote safe h = Ok e -> forallb dd e = true -> e = h.
Proof.
  intros Hq Hd. rewrite quote_unfold in Hq. destruct (utf8_encode h) as [b|] eqn:Eb; [|discriminate]. cbn [bind] in Hq. ok_inj Hq.
  destruct (qbytes_dd_back _ _ Hd) as [E1 E2]. rewrite E1.
  pose proof (utf8_decode_encode _ _ Eb) as D. rewrite utf8_decode_ascii in D.
  - ok_inj D. reflexivity.
  - apply forallb_forall. intros x Hin. rewrite forallb_forall in E2. destruct (dd_chars_safe x (E2 x Hin)). lia.
Qed.
Lemma is_ipv4_literal_quoted h e : quote quote_for_host_chars h = Ok e -> is_ipv4_literal h = Ok false -> is_ipv4_literal e = Ok false.
Proof.
  intros Hq Hl. unfold is_ipv4_literal. fold dd. destruct (forallb dd e) eqn:Ed.
  - pose proof (quote_dd_back _ _ _ Hq Ed) as E. subst e. unfold is_ipv4_literal in Hl. fold dd in Hl. rewrite Ed in Hl. exact Hl.
  - rewrite andb_false_r. reflexivity.
Qed.
Lemma strip_brackets_id t : mem 91 t = false -> mem 93 t = false -> strip_brackets t = t.
Proof.
  intros H91 H93. unfold strip_brackets. destruct t as [|c r]; [reflexivity|].
  rewrite mem_cons in H91. apply orb_false_elim in H91 as [A _]. replace (c =? 91) with false by lia.
  rewrite <- mem_rev in H93. destruct (rev (c :: r)) as [|y ry]; [reflexivity|].
  rewrite mem_cons in H93. apply orb_false_elim in H93 as [B _]. replace (y =? 93) with false by lia. reflexivity.
Qed.

Section Roundtrip.
Variable ip_address : list Z -> ipres.

(* Decomposition of a composed URI, for an abstract network location: everything set_request_uri looks at in the netloc
   is a hypothesis. Instantiated below for quoted host names, reg-names / IPv4 literals and bracketed IPv6 literals. *)
Lemma decompose_composed scheme netloc hn p remote_hi lit path query ptext qtext uh :
  existsb (beqb scheme) coap_schemes = true ->
  netloc <> [] -> all_ascii netloc = true -> brackets_ok ip_address netloc ->
  mem 47 netloc = false -> mem 63 netloc = false -> mem 35 netloc = false ->
  mem 9 netloc = false -> mem 10 netloc = false -> mem 13 netloc = false ->
  hostname_of netloc = Ok (Some hn) -> (let '(u, pw) := userinfo_of netloc in truthy u || truthy pw) = false -> port_of netloc = Ok p ->
  undecided_remote ip_address scheme netloc = Ok (scheme, remote_hi) ->
  (if mem 91 netloc then Ok true else is_ipv4_literal hn) = Ok lit ->
  (if lit then uh = None else exists h', unquote hn = Ok h' /\ uh = Some (translate ascii_lowercase h')) ->
  path <> [[]] -> query <> [[]] -> compose_path path = Ok ptext -> compose_query query = Ok qtext ->
  set_request_uri ip_address (urlunsplit scheme netloc ptext qtext) true = Ok (DRequest scheme remote_hi uh path query).
Proof.
  intros Hsch Hne Hasc Hbr N47 N63 N35 N9 N10 N13 Hhn Hui Hport Hrem Hlit Huh Hpd Hqd Ept Eqt.
  destruct (path_roundtrip _ Hpd _ Ept) as (Pback & P63 & P35 & Pst).
  destruct (query_roundtrip _ Hqd _ Eqt) as (Qback & Q35).
  unfold set_request_uri.
  rewrite urlsplit_urlunsplit; try assumption.
  - cbn [catch_value bind is_nil negb].
    pose proof (coap_schemes_ok _ Hsch) as Hok. destruct scheme as [|s0 sr] eqn:Es; [discriminate|]. cbn [is_nil].
    rewrite Hsch. cbn [negb]. rewrite Hhn. cbn [bind]. destruct (userinfo_of netloc) as [u0 pw0]. rewrite Hui.
    rewrite Pback, Qback. cbn [catch_unicode bind]. rewrite Hport. cbn [catch_value bind]. rewrite Hrem. cbn [catch_value bind fst snd].
    rewrite Hlit. cbn [bind andb]. destruct lit; cbn [negb].
    + subst uh. reflexivity.
    + destruct Huh as (h' & Hu & ->). rewrite Hu. reflexivity.
  - apply coap_schemes_ok. exact Hsch.
  - eapply compose_path_no; try exact Ept; [lia | reflexivity | lia | not_hex].
  - eapply compose_path_no; try exact Ept; [lia | reflexivity | lia | not_hex].
  - eapply compose_path_no; try exact Ept; [lia | reflexivity | lia | not_hex].
  - eapply compose_query_no; try exact Eqt; [lia | reflexivity | lia | not_hex].
  - eapply compose_query_no; try exact Eqt; [lia | reflexivity | lia | not_hex].
  - eapply compose_query_no; try exact Eqt; [lia | reflexivity | lia | not_hex].
Qed.

(* network locations  host[:port]  whose host part is free of every delimiter (quoted names, reg-names, IPv4 literals) *)
Definition plain_host (e : list Z) : Prop :=
  e <> [] /\ all_ascii e = true /\ lower_before_pct e = e /\
  Forall (fun d => mem d e = false) [58; 64; 91; 93; 47; 63; 35; 9; 10; 13].
Lemma plain_host_no e d : plain_host e -> In d [58; 64; 91; 93; 47; 63; 35; 9; 10; 13] -> mem d e = false.
Proof. intros (_ & _ & _ & F) Hin. rewrite Forall_forall in F. apply F. exact Hin. Qed.

Lemma decompose_composed_plain scheme e p path query ptext qtext lit uh :
  existsb (beqb scheme) coap_schemes = true -> plain_host e -> port_ok p ->
  is_ipv4_literal e = Ok lit ->
  (if lit then uh = None else exists h', unquote e = Ok h' /\ uh = Some (translate ascii_lowercase h')) ->
  path <> [[]] -> query <> [[]] -> compose_path path = Ok ptext -> compose_query query = Ok qtext ->
  set_request_uri ip_address (urlunsplit scheme (e ++ port_text p) ptext qtext) true = Ok (DRequest scheme (e ++ port_text p) uh path query).
Proof.
  intros Hsch He Hp Hlit Huh Hpd Hqd Ept Eqt.
  assert (Hno : forall d, In d [58; 64; 91; 93; 47; 63; 35; 9; 10; 13] -> mem d e = false) by (intros d; apply plain_host_no; exact He).
  destruct He as (Hne & Hasc & Hlow & _).
  set (netloc := e ++ port_text p).
  assert (Nn : forall d, In d [58; 64; 91; 93; 47; 63; 35; 9; 10; 13] -> d <> 58 -> mem d netloc = false).
  { intros d Hin Hd. unfold netloc. rewrite mem_app, (Hno d Hin). rewrite port_text_no; auto.
    cbn [In] in Hin. unfold is_digit. repeat (destruct Hin as [<- | Hin]; [reflexivity|]). contradiction. }
  assert (Hi : hostinfo_of netloc = (e, match p with None => None | Some n => Some (print_dec n) end)).
  { apply hostinfo_of_plain; auto; apply Hno; cbn; auto 12. }
  assert (Hap : host_ascii_part e = true) by (unfold host_ascii_part; apply partition_fst_forallb; exact Hasc).
  eapply (decompose_composed scheme netloc e p netloc lit); try eassumption.
  - unfold netloc. destruct e; [congruence | discriminate].
  - unfold netloc, all_ascii. rewrite forallb_app. fold (all_ascii e). fold (all_ascii (port_text p)). rewrite Hasc, port_text_ascii by exact Hp. reflexivity.
  - unfold brackets_ok. rewrite (Nn 91), (Nn 93) by (cbn; auto 12; lia). reflexivity.
  - apply Nn; cbn; auto 12; lia.
  - apply Nn; cbn; auto 12; lia.
  - apply Nn; cbn; auto 12; lia.
  - apply Nn; cbn; auto 12; lia.
  - apply Nn; cbn; auto 12; lia.
  - apply Nn; cbn; auto 12; lia.
  - rewrite (hostname_of_hostinfo netloc e _ Hne Hap Hi). rewrite Hlow. reflexivity.
  - unfold userinfo_of. rewrite rpartition_notfound by (apply Nn; cbn; auto 12; lia). reflexivity.
  - apply (port_of_hostinfo netloc e p Hp Hi).
  - unfold undecided_remote. rewrite (Nn 91) by (cbn; auto 12; lia). reflexivity.
  - rewrite (Nn 91) by (cbn; auto 12; lia). exact Hlit.
Qed.

(* a quoted Uri-Host is such a plain host *)
Lemma quoted_host_plain h e : h <> [] -> Forall not_upper h -> quote quote_for_host_chars h = Ok e -> plain_host e.
Proof.
  intros Hne Hup Hq. split; [eapply quote_nonempty; eauto|]. split; [eapply quote_ascii; eauto; reflexivity|]. split.
  - rewrite quote_unfold in Hq. destruct (utf8_encode h) as [b|] eqn:Eb; [|discriminate]. cbn [bind] in Hq. ok_inj Hq.
    apply lower_before_pct_qbytes; [reflexivity | eapply utf8_no_upper; eauto].
  - repeat (apply Forall_cons; [apply (quote_no_char quote_for_host_chars h e); [reflexivity | lia | not_hex | exact Hq]|]). apply Forall_nil.
Qed.
(* a lower-case ASCII reg-name / IPv4 literal is a plain host *)
Lemma regular_host_plain h : regular_host h = true -> plain_host h.
Proof.
  intros Hreg. unfold regular_host in Hreg. apply andb_prop in Hreg as [Hne Hr].
  destruct (regular_host_facts h Hr) as (Flow & _ & Fasc & _).
  assert (Hno : forall d, regname_char d = false -> mem d h = false) by (intros d; apply regular_no; exact Hr).
  split; [destruct h; discriminate|]. split; [exact Fasc|]. split.
  - unfold lower_before_pct. rewrite partition_notfound by (apply Hno; reflexivity). rewrite Flow, app_nil_r. reflexivity.
  - repeat (apply Forall_cons; [apply Hno; reflexivity|]). apply Forall_nil.
Qed.

(* ---- options -> URI -> options, Uri-Host present.
   Non-degenerate: Uri-Path <> [""], Uri-Query <> [""], all strings encodable; Uri-Host non-empty, without upper-case ASCII
   letters (6.4 always produces such values), not itself the text of an IP address (else 6.5 keeps it as a literal), and not
   passing the IPv4-literal test; effective port in 0..65535. Uri-Host may contain ANY other character, reserved, "%" and
   non-ASCII included: it is percent-encoded (76b5301). *)
Theorem options_uri_options_name (m : request_opts) h h0 p0 :
  existsb (beqb (r_scheme m)) coap_schemes = true ->
  o_proxy_uri m = None -> o_proxy_scheme m = None ->
  o_uri_host m = Some h -> h <> [] -> valid_str h = true -> Forall not_upper h ->
  ip_address (strip_brackets h) = IpBad -> is_ipv4_literal h = Ok false ->
  hostportsplit (r_hostinfo m) = Ok (h0, p0) ->
  let p := match o_uri_port m with Some n => if n =? 0 then p0 else Some n | None => p0 end in
  port_ok p ->
  o_uri_path m <> [[]] -> o_uri_query m <> [[]] ->
  forallb valid_str (o_uri_path m) = true -> forallb valid_str (o_uri_query m) = true ->
  exists u e, get_request_uri ip_address m = Ok u /\ quote quote_for_host_chars h = Ok e /\
            set_request_uri ip_address u true = Ok (DRequest (r_scheme m) (e ++ port_text p) (Some h) (o_uri_path m) (o_uri_query m)).
Proof.
  intros Hsch Hpu Hps Hh Hne Hval Hup Hip Hlit Hsplit p Hp Hpd Hqd Hpv Hqv.
  destruct (compose_path_total _ Hpv) as (ptext & Ept). destruct (compose_query_total _ Hqv) as (qtext & Eqt).
  destruct (quote_total quote_for_host_chars h Hval) as (e & He).
  pose proof (quoted_host_plain h e Hne Hup He) as Hplain.
  assert (Enet : compose_netloc ip_address m = Ok (e ++ port_text p)).
  { unfold compose_netloc. rewrite Hh, Hsplit. cbn [bind]. fold p. destruct h as [|c0 hr]; [congruence|].
    unfold escape_host. rewrite Hip, He. cbn [bind]. apply hostportjoin_plain. apply (plain_host_no e 58 Hplain). cbn; auto. }
  exists (urlunsplit (r_scheme m) (e ++ port_text p) ptext qtext), e. split; [|split; [exact He|]].
  { unfold get_request_uri. rewrite Hpu, Hps, Enet, Eqt, Ept. reflexivity. }
  eapply decompose_composed_plain; try eassumption.
  - eapply is_ipv4_literal_quoted; eauto.
  - cbn iota. exists h. split; [apply (unquote_quote quote_for_host_chars h e); [reflexivity | reflexivity | exact He] | rewrite translate_id by exact Hup; reflexivity].
Qed.

(* ---- the authority taken from the remote (no Uri-Host / Uri-Port): host[:port] with a lower-case ASCII reg-name or an
   IPv4 literal: an IPv4 literal is NOT sent as Uri-Host, a name is. *)
Theorem options_uri_options_hostinfo (m : request_opts) h p lit :
  existsb (beqb (r_scheme m)) coap_schemes = true ->
  o_proxy_uri m = None -> o_proxy_scheme m = None -> o_uri_host m = None -> o_uri_port m = None ->
  r_hostinfo m = h ++ port_text p -> regular_host h = true -> is_ipv4_literal h = Ok lit -> port_ok p ->
  o_uri_path m <> [[]] -> o_uri_query m <> [[]] ->
  forallb valid_str (o_uri_path m) = true -> forallb valid_str (o_uri_query m) = true ->
  exists u, get_request_uri ip_address m = Ok u /\
            set_request_uri ip_address u true =
              Ok (DRequest (r_scheme m) (r_hostinfo m) (if lit then None else Some h) (o_uri_path m) (o_uri_query m)).
Proof.
  intros Hsch Hpu Hps Hh Hport Hhi Hreg Hlit Hp Hpd Hqd Hpv Hqv.
  destruct (compose_path_total _ Hpv) as (ptext & Ept). destruct (compose_query_total _ Hqv) as (qtext & Eqt).
  exists (urlunsplit (r_scheme m) (h ++ port_text p) ptext qtext). split.
  { unfold get_request_uri, compose_netloc. rewrite Hpu, Hps, Hh, Hport, Eqt, Ept, Hhi. reflexivity. }
  rewrite Hhi. eapply decompose_composed_plain; try eassumption; [apply regular_host_plain; exact Hreg|].
  destruct lit; [reflexivity|]. unfold regular_host in Hreg. apply andb_prop in Hreg as [_ Hr].
  destruct (regular_host_facts h Hr) as (_ & Ftr & Fasc & Fimpl & Fdec & _).
  exists h. split; [|rewrite Ftr; reflexivity].
  unfold unquote. rewrite unquote_parts_ascii by exact Fasc. cbn [rev app]. unfold decode_run. rewrite Fimpl. exact Fdec.
Qed.

(* ---- bracketed IPv6 literals with zone identifiers. [t] is the text str(ipaddress.ip_address(..)) produces. What the proof
   needs to know about it: it is a fixed point of ip_address, contains ":" and none of the characters that delimit it inside
   a URI, is ASCII and lower-case up to the zone, and does not start with "v". *)
Definition ip6_text_ok (t : list Z) : Prop :=
  ip_address t = Ip6 t /\ mem 58 t = true /\ all_ascii t = true /\ lower_before_pct t = t /\ startswith t [118] = false /\
  Forall (fun d => mem d t = false) [64; 91; 93; 47; 63; 35; 9; 10; 13].
Theorem options_uri_options_ip6 (m : request_opts) t p0 :
  existsb (beqb (r_scheme m)) coap_schemes = true ->
  o_proxy_uri m = None -> o_proxy_scheme m = None -> o_uri_host m = None ->
  r_hostinfo m = 91 :: t ++ 93 :: port_text p0 -> ip6_text_ok t -> port_ok p0 ->
  let p := match o_uri_port m with Some n => if n =? 0 then p0 else Some n | None => p0 end in
  port_ok p ->
  o_uri_path m <> [[]] -> o_uri_query m <> [[]] ->
  forallb valid_str (o_uri_path m) = true -> forallb valid_str (o_uri_query m) = true ->
  exists u, get_request_uri ip_address m = Ok u /\
            set_request_uri ip_address u true = Ok (DRequest (r_scheme m) (91 :: t ++ 93 :: port_text p) None (o_uri_path m) (o_uri_query m)).
Proof.
  intros Hsch Hpu Hps Hh Hhi (Hfix & H58 & Hasc & Hlow & Hv & Hno) Hp0 p Hp Hpd Hqd Hpv Hqv.
  rewrite Forall_forall in Hno.
  assert (N : forall d, In d [64; 91; 93; 47; 63; 35; 9; 10; 13] -> mem d t = false) by exact Hno.
  assert (Hap : host_ascii_part t = true) by (unfold host_ascii_part; apply partition_fst_forallb; exact Hasc).
  assert (Htne : t <> []) by (intros ->; discriminate).
  assert (Hsplit : forall q, port_ok q -> hostportsplit (91 :: t ++ 93 :: port_text q) = Ok (Some t, q)).
  { intros q Hq. rewrite <- Hlow at 2. apply hostportsplit_of_hostinfo; auto. apply hostinfo_of_bracketed; auto; apply N; cbn; auto 12. }
  destruct (compose_path_total _ Hpv) as (ptext & Ept). destruct (compose_query_total _ Hqv) as (qtext & Eqt).
  set (netloc := 91 :: t ++ 93 :: port_text p).
  assert (Enet : compose_netloc ip_address m = Ok netloc).
  { unfold compose_netloc. rewrite Hh. destruct (o_uri_port m) as [n|] eqn:Eport.
    - rewrite Hhi, (Hsplit p0 Hp0). cbn [bind]. fold p.
      unfold escape_host. rewrite strip_brackets_id by (apply N; cbn; auto 12). rewrite Hfix. cbn [bind].
      apply hostportjoin_bare6; [exact H58 | apply N; cbn; auto 12].
    - unfold netloc, p. rewrite Hhi. reflexivity. }
  exists (urlunsplit (r_scheme m) netloc ptext qtext). split.
  { unfold get_request_uri. rewrite Hpu, Hps, Enet, Eqt, Ept. reflexivity. }
  assert (Nn : forall d, In d [64; 47; 63; 35; 9; 10; 13] -> mem d netloc = false).
  { intros d Hin. unfold netloc. rewrite mem_cons, mem_app, mem_cons, N, port_text_no; auto.
    - cbn [In] in Hin. repeat (destruct Hin as [<- | Hin]; [reflexivity|]). contradiction.
    - cbn [In] in Hin. unfold is_digit. repeat (destruct Hin as [<- | Hin]; [reflexivity|]). contradiction.
    - cbn [In] in Hin. repeat (destruct Hin as [<- | Hin]; [lia|]). contradiction.
    - cbn [In] in Hin |- *. repeat (destruct Hin as [<- | Hin]; [auto 12|]). contradiction. }
  assert (M91 : mem 91 netloc = true) by (unfold netloc; rewrite mem_cons; reflexivity).
  assert (M93 : mem 93 netloc = true) by (unfold netloc; rewrite mem_cons, mem_app, (mem_cons 93 93); cbn; rewrite orb_true_r; reflexivity).
  assert (Hi : hostinfo_of netloc = (t, match p with None => None | Some n => Some (print_dec n) end))
    by (apply hostinfo_of_bracketed; auto; apply N; cbn; auto 12).
  eapply (decompose_composed (r_scheme m) netloc t p netloc true); try eassumption.
  - unfold netloc. discriminate.
  - unfold netloc, all_ascii. cbn [forallb]. rewrite forallb_app. cbn [forallb]. fold (all_ascii t). fold (all_ascii (port_text p)).
    rewrite Hasc, port_text_ascii by exact Hp. reflexivity.
  - unfold brackets_ok. rewrite M91, M93. cbn [andb negb orb].
    unfold netloc. change (91 :: t ++ 93 :: port_text p) with ([] ++ 91 :: (t ++ 93 :: port_text p)).
    rewrite (partition_found 91) by reflexivity. cbn [snd]. rewrite (partition_found 93) by (apply N; cbn; auto 12). cbn [fst].
    unfold check_bracketed_host. rewrite Hv, Hfix. reflexivity.
  - apply Nn; cbn; auto 12.
  - apply Nn; cbn; auto 12.
  - apply Nn; cbn; auto 12.
  - apply Nn; cbn; auto 12.
  - apply Nn; cbn; auto 12.
  - apply Nn; cbn; auto 12.
  - rewrite (hostname_of_hostinfo netloc t _ Htne Hap Hi). rewrite Hlow. reflexivity.
  - unfold userinfo_of. rewrite rpartition_notfound by (apply Nn; cbn; auto 12). reflexivity.
  - apply (port_of_hostinfo netloc t p Hp Hi).
  - unfold undecided_remote. rewrite M91. unfold netloc at 1. rewrite (Hsplit p Hp). cbn [bind]. rewrite Hfix.
    rewrite hostportjoin_bare6 by (auto; apply N; cbn; auto 12). reflexivity.
  - rewrite M91. reflexivity.
  - reflexivity.
Qed.

(* ---- distinct resources never collapse: two non-degenerate option sets (Uri-Host present) that compose to the same URI
   have the same scheme, Uri-Host, effective port, Uri-Path and Uri-Query *)
Lemma port_text_inj p q : port_ok p -> port_ok q -> port_text p = port_text q -> p = q.
Proof.
  destruct p as [n|], q as [k|]; cbn; intros Hp Hq H; try discriminate; [|reflexivity].
  injection H as H. unfold print_dec in H. replace (n <? 0) with false in H by lia. replace (k <? 0) with false in H by lia.
  f_equal. rewrite <- (parse_print_nat_dec n), <- (parse_print_nat_dec k) by lia. rewrite H. reflexivity.
Qed.
Theorem compose_injective (m1 m2 : request_opts) h1 h2 a1 b1 a2 b2 u :
  (forall (m : request_opts) h h0 p0, m = m1 /\ h = h1 /\ h0 = a1 /\ p0 = b1 \/ m = m2 /\ h = h2 /\ h0 = a2 /\ p0 = b2 ->
     existsb (beqb (r_scheme m)) coap_schemes = true /\ o_proxy_uri m = None /\ o_proxy_scheme m = None /\
     o_uri_host m = Some h /\ h <> [] /\ valid_str h = true /\ Forall not_upper h /\
     ip_address (strip_brackets h) = IpBad /\ is_ipv4_literal h = Ok false /\ hostportsplit (r_hostinfo m) = Ok (h0, p0) /\
     port_ok (match o_uri_port m with Some n => if n =? 0 then p0 else Some n | None => p0 end) /\
     o_uri_path m <> [[]] /\ o_uri_query m <> [[]] /\
     forallb valid_str (o_uri_path m) = true /\ forallb valid_str (o_uri_query m) = true) ->
  get_request_uri ip_address m1 = Ok u -> get_request_uri ip_address m2 = Ok u ->
  r_scheme m1 = r_scheme m2 /\ h1 = h2 /\ o_uri_path m1 = o_uri_path m2 /\ o_uri_query m1 = o_uri_query m2 /\
  match o_uri_port m1 with Some n => if n =? 0 then b1 else Some n | None => b1 end =
  match o_uri_port m2 with Some n => if n =? 0 then b2 else Some n | None => b2 end.
Proof.
  intros Hnd U1 U2.
  destruct (Hnd m1 h1 a1 b1 (or_introl (conj eq_refl (conj eq_refl (conj eq_refl eq_refl))))) as (A1 & A2 & A3 & A4 & A5 & A6 & A7 & A8 & A9 & A10 & A11 & A12 & A13 & A14 & A15).
  destruct (Hnd m2 h2 a2 b2 (or_intror (conj eq_refl (conj eq_refl (conj eq_refl eq_refl))))) as (B1 & B2 & B3 & B4 & B5 & B6 & B7 & B8 & B9 & B10 & B11 & B12 & B13 & B14 & B15).
  destruct (options_uri_options_name m1 h1 a1 b1 A1 A2 A3 A4 A5 A6 A7 A8 A9 A10 A11 A12 A13 A14 A15) as (u1 & e1 & G1 & Q1 & D1).
  destruct (options_uri_options_name m2 h2 a2 b2 B1 B2 B3 B4 B5 B6 B7 B8 B9 B10 B11 B12 B13 B14 B15) as (u2 & e2 & G2 & Q2 & D2).
  rewrite U1 in G1. rewrite U2 in G2. apply Ok_inj in G1. apply Ok_inj in G2. subst u1 u2.
  rewrite D1 in D2. apply Ok_inj in D2. injection D2 as Es Ehi Eh Ep Eq. subst h2.
  rewrite Q1 in Q2. apply Ok_inj in Q2. subst e2. apply app_inv_head in Ehi. apply port_text_inj in Ehi; auto.
Qed.
End Roundtrip.

(* ================================================================ RFC 7252 6.4 host rules, Proxy-Uri, witnesses *)
Lemma lookup_lower c : lookup_tbl ascii_lowercase c = lower_c c.
Proof.
  unfold ascii_lowercase, lower_c, is_upper. cbn [lookup_tbl].
  repeat match goal with
  | |- context [if ?a =? c then _ else _] =>
      destruct (a =? c) eqn:?; [ replace ((65 <=? c) && (c <=? 90)) with true by lia; lia |]
  end.
  replace ((65 <=? c) && (c <=? 90)) with false by lia. reflexivity.
Qed.
Lemma translate_no_upper s : Forall (fun c => is_upper c = false) (translate ascii_lowercase s).
Proof.
  induction s as [|c s IH]; [constructor|]. cbn [translate map]. constructor; [|exact IH].
  rewrite lookup_lower. unfold lower_c, is_upper. destruct ((65 <=? c) && (c <=? 90)) eqn:E; lia.
Qed.

Section HostRules.
Variable ip_address : list Z -> ipres.
Lemma undecided_remote_scheme s n r : undecided_remote ip_address s n = Ok r -> fst r = s.
Proof.
  unfold undecided_remote. destruct (mem 91 n); [|intros H; ok_inj H; reflexivity].
  destruct (hostportsplit n) as [[[host|] port]|]; cbn [bind]; try discriminate.
  destruct (ip_address host); try discriminate; destruct (hostportjoin _ _); cbn [bind]; try discriminate; intros H; ok_inj H; reflexivity.
Qed.

(* 6.4 steps 3-5: the scheme is one of the CoAP schemes (lower-cased by urlsplit); Uri-Host is present exactly when asked for
   and the host is neither a bracketed literal nor an IPv4 literal, and then it is the percent-decoded host name without
   any upper-case ASCII letter *)
Theorem host_rules uri flag s hi uh p q : set_request_uri ip_address uri flag = Ok (DRequest s hi uh p q) ->
  existsb (beqb s) coap_schemes = true /\
  exists netloc path query hostname,
    urlsplit ip_address uri = Ok (s, netloc, path, query, []) /\ hostname_of netloc = Ok (Some hostname) /\
    match uh with
    | Some h => flag = true /\ mem 91 netloc = false /\ is_ipv4_literal hostname = Ok false /\
                (exists h', unquote hostname = Ok h' /\ h = translate ascii_lowercase h') /\ Forall (fun c => is_upper c = false) h
    | None => flag = false \/ mem 91 netloc = true \/ is_ipv4_literal hostname = Ok true
    end.
Proof.
  unfold set_request_uri. intros H.
  destruct (urlsplit ip_address uri) as [[[[[scheme netloc] path] query] fragment]|e0] eqn:Eu; [|destruct e0; discriminate].
  cbn [catch_value bind] in H.
  destruct fragment as [|f0 fr]; cbn [is_nil negb] in H; [|discriminate].
  destruct scheme as [|s0 sr]; cbn [is_nil] in H; [discriminate|].
  destruct (existsb (beqb (s0 :: sr)) coap_schemes) eqn:Es; cbn [negb] in H; [|discriminate].
  destruct (hostname_of netloc) as [[hostname|]|e1] eqn:Eh; cbn [bind] in H; try discriminate.
  destruct (userinfo_of netloc) as [username password].
  destruct (truthy username || truthy password); [discriminate|].
  destruct (catch_unicode (unquote_path path)) as [uri_path|]; cbn [bind] in H; [|discriminate].
  destruct (catch_unicode (unquote_query query)) as [uri_query|]; cbn [bind] in H; [|discriminate].
  destruct (catch_value (port_of netloc)) as [port|]; cbn [bind] in H; [|discriminate].
  destruct (undecided_remote ip_address (s0 :: sr) netloc) as [remote|e4] eqn:Er; cbn [catch_value bind] in H; [|destruct e4; discriminate].
  apply undecided_remote_scheme in Er.
  destruct (mem 91 netloc) eqn:Eb.
  - cbn [bind] in H. rewrite andb_false_r in H. apply Ok_inj in H. injection H as <- <- <- <- <-. rewrite Er.
    split; [exact Es|]. exists netloc, path, query, hostname. repeat split; auto.
  - destruct (is_ipv4_literal hostname) as [lit|] eqn:El; cbn [bind] in H; [|discriminate].
    destruct flag, lit; cbn [andb negb] in H.
    + apply Ok_inj in H. injection H as <- <- <- <- <-. rewrite Er. split; [exact Es|]. exists netloc, path, query, hostname. repeat split; auto.
    + destruct (unquote hostname) as [h'|e3] eqn:Eq; [|destruct e3; discriminate]. cbn [catch_unicode bind] in H.
      apply Ok_inj in H. injection H as <- <- <- <- <-. rewrite Er. split; [exact Es|]. exists netloc, path, query, hostname.
      split; [first [reflexivity | exact Eu]|]. split; [first [reflexivity | exact Eh]|]. split; [reflexivity|].
      split; [first [reflexivity | exact Eb]|]. split; [first [reflexivity | exact El]|].
      split; [exists h'; split; first [reflexivity | exact Eq] | apply translate_no_upper].
    + apply Ok_inj in H. injection H as <- <- <- <- <-. rewrite Er. split; [exact Es|]. exists netloc, path, query, hostname. repeat split; auto.
    + apply Ok_inj in H. injection H as <- <- <- <- <-. rewrite Er. split; [exact Es|]. exists netloc, path, query, hostname. repeat split; auto.
Qed.

(* a URI of any other scheme is kept verbatim as Proxy-Uri and composed back verbatim *)
Theorem proxy_roundtrip uri flag u : set_request_uri ip_address uri flag = Ok (DProxy u) ->
  u = uri /\ get_request_uri ip_address (opts_of (DProxy u)) = Ok uri.
Proof.
  unfold set_request_uri. intros H.
  destruct (urlsplit ip_address uri) as [[[[[scheme netloc] path] query] fragment]|e0]; [|destruct e0; discriminate].
  cbn [catch_value bind] in H.
  destruct (negb (is_nil fragment)); [discriminate|]. destruct (is_nil scheme); [discriminate|].
  destruct (negb (existsb (beqb scheme) coap_schemes)).
  - apply Ok_inj in H. injection H as <-. split; reflexivity.
  - destruct (hostname_of netloc) as [[hostname|]|]; cbn [bind] in H; try discriminate.
    destruct (userinfo_of netloc) as [username password]. destruct (truthy username || truthy password); [discriminate|].
    destruct (catch_unicode (unquote_path path)); cbn [bind] in H; [|discriminate].
    destruct (catch_unicode (unquote_query query)); cbn [bind] in H; [|discriminate].
    destruct (catch_value (port_of netloc)); cbn [bind] in H; [|discriminate].
    destruct (undecided_remote ip_address scheme netloc) as [r|e4]; cbn [catch_value bind] in H; [|destruct e4; discriminate].
    destruct (if mem 91 netloc then Ok true else is_ipv4_literal hostname) as [lit|]; cbn [bind] in H; [|discriminate].
    destruct (flag && negb lit); [|discriminate].
    destruct (catch_unicode (unquote hostname)); cbn [bind] in H; discriminate.
Qed.
End HostRules.

(* ---- witnesses: the degenerate option sets really collapse, and the open findings really are behaviours of the model *)
Definition no_ip (_ : list Z) : ipres := IpBad.
Definition only_loopback (s : list Z) : ipres := if beqb s [58; 58; 49] then Ip6 [58; 58; 49] else IpBad.
Definition mk_opts scheme hostinfo host path query : request_opts :=
  {| r_scheme := scheme; r_hostinfo := hostinfo; o_uri_host := host; o_uri_port := None; o_uri_path := path; o_uri_query := query;
     o_proxy_uri := None; o_proxy_scheme := None |}.
Definition coap := [99; 111; 97; 112].
(* Uri-Path [""] and [] compose to the same URI coap://h/ ; so do Uri-Query [""] and [] *)
Lemma degenerate_path_collapses :
  get_request_uri no_ip (mk_opts coap [104] None [[]] []) = get_request_uri no_ip (mk_opts coap [104] None [] []) /\
  get_request_uri no_ip (mk_opts coap [104] None [] [[]]) = get_request_uri no_ip (mk_opts coap [104] None [] []).
Proof. split; vm_compute; reflexivity. Qed.
(* repaired (76b5301): coap://a%2Fb/ -> Uri-Host "a/b" -> coap://a%2Fb/ -> the same options *)
Lemma host_escaped_now :
  let u := coap ++ [58; 47; 47; 97; 37; 50; 70; 98; 47] in
  let d := DRequest coap [97; 37; 50; 70; 98] (Some [97; 47; 98]) [] [] in
  set_request_uri no_ip u true = Ok d /\ get_request_uri no_ip (opts_of d) = Ok u.
Proof. cbv zeta. split; vm_compute; reflexivity. Qed.
(* repaired (1c4d498, 9bbf9d1, 0da23bc): the former bare-ValueError inputs are MalformedUrlError / accepted as a name now,
   and an IPv6 literal after an empty user info is no longer sent as Uri-Host *)
Lemma ipvfuture_now_malformed :
  set_request_uri no_ip (coap ++ [58; 47; 47; 91; 118; 49; 46; 120; 93; 47]) true = Raise MalformedUrlError.
Proof. vm_compute. reflexivity. Qed.
Lemma digit_limit_now_a_name :
  exists hi h, set_request_uri no_ip (coap ++ [58; 47; 47; 49; 46; 50; 46; 51; 46] ++ repeat 57 4301 ++ [47]) true = Ok (DRequest coap hi (Some h) [] []).
Proof. eexists. eexists. vm_compute. reflexivity. Qed.
Lemma literal_after_userinfo_not_uri_host :
  set_request_uri only_loopback (coap ++ [58; 47; 47; 64; 91; 58; 58; 49; 93; 47]) true = Ok (DRequest coap [91; 58; 58; 49; 93] None [] []).
Proof. vm_compute. reflexivity. Qed.
