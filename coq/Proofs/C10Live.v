(* C10 — part 6: the second invariant (opportunities <-> pending empty-ACK handles, handle uniqueness, now <= due) and
   "acknowledged exactly once" over whole histories. *)
From Verif Require Import Lib.Py Lib.Tactics Model.C10 Proofs.C10 Proofs.C10Acks.
Open Scope Z_scope.

(* ------------------------------------------------------------------ frame: functions that leave opportunities, their handles, the clock
   and the set of running handlers alone *)
Definition frame (s s' : st) : Prop :=
  piggy s' = piggy s /\ atimers s' = atimers s /\ now s' = now s /\ seq s <= seq s' /\ next_srv s <= next_srv s' /\
  incl (incoming s') (incoming s).
Lemma frame_refl s : frame s s.
Proof. unfold frame. repeat split; try lia. apply incl_refl. Qed.
Lemma frame_trans a b c : frame a b -> frame b c -> frame a c.
Proof.
  unfold frame. intros (A1 & A2 & A3 & A4 & A5 & A6) (B1 & B2 & B3 & B4 & B5 & B6).
  repeat split; try congruence; try lia. eapply incl_tran; eauto.
Qed.
Ltac fr := unfold frame; cbn; repeat split; try reflexivity; try lia; try apply incl_refl.

Lemma frame_store s r m : frame s (_store_response_for_duplicates s r m).
Proof. unfold _store_response_for_duplicates. destruct (mtype m); try apply frame_refl; destruct (amem _ _ _); try apply frame_refl; fr. Qed.
Lemma frame_add_exchange s r m mon : frame s (_add_exchange s r m mon).
Proof. unfold _add_exchange, call_later_r. destruct (amem _ _ _); fr. Qed.
Lemma frame_send_initially s r m mon : frame s (fst (_send_initially s r m mon)).
Proof.
  unfold _send_initially. cbn [fst]. destruct (mtype m); try apply frame_store.
  eapply frame_trans; [apply frame_add_exchange|apply frame_store].
Qed.
Lemma frame_fail_request s q e : frame s (fst (fail_request s q e)).
Proof. unfold fail_request. destruct (find_req _ _); cbn [fst]; [fr|apply frame_refl]. Qed.
Lemma frame_run_monitor s mon : frame s (fst (run_monitor s mon)).
Proof. destruct mon; cbn [run_monitor]; [apply frame_fail_request|apply frame_refl]. Qed.
Lemma frame_tail s1 r1 build mt md mon rq : frame s1 (fst (fst (send_message_tail s1 r1 build mt md mon rq))).
Proof.
  unfold send_message_tail. destruct (mtype_eqb _ CON && is_multicast r1); [apply frame_refl|].
  set (q := match md with Some v => (s1, v) | None => _next_message_id s1 end).
  assert (Hq : frame s1 (fst q)) by (subst q; destruct md; cbn [fst _next_message_id]; [apply frame_refl|fr]).
  destruct q as [s2 md1]. cbn [fst] in Hq.
  destruct (mtype_eqb _ CON && amem Z.eqb (backlogs s2) (rpeer r1)).
  - cbn [fst]. eapply frame_trans; [exact Hq|fr].
  - pose proof (frame_send_initially s2 r1 (build (select_mtype mt r1 rq) md1) mon) as Hf.
    destruct (_send_initially s2 r1 (build (select_mtype mt r1 rq) md1) mon). cbn [fst] in *. eapply frame_trans; eauto.
Qed.
Lemma frame_tm_process_response s r m : frame s (fst (fst (tm_process_response s r m))).
Proof.
  unfold tm_process_response.
  match goal with |- context [aget ok_eqb (outgoing s) ?k] => destruct (aget ok_eqb (outgoing s) k) as [[q ob]|] end; cbn [fst]; [|apply frame_refl].
  destruct (negb _); [fr|apply frame_refl].
Qed.
Lemma frame_tm_dispatch_error s p e : frame s (fst (tm_dispatch_error s p e)).
Proof. unfold tm_dispatch_error. cbn [fst]. unfold frame. cbn. repeat split; try lia. intros x Hin. apply filter_In in Hin. tauto. Qed.
Lemma frame_dedup s r m : frame s (fst (fst (_deduplicate_message s r m))).
Proof.
  unfold _deduplicate_message. destruct (aget zz_eqb (recent s) (rpeer r, mid m)) as [stored|].
  - destruct (mtype m); cbn [fst]; try apply frame_refl. destruct stored as [[r' m']|]; [|apply frame_refl].
    pose proof (frame_send_initially s r' m' MonResp). destruct (_send_initially s r' m' MonResp). exact H.
  - unfold call_later_r. fr.
Qed.
Lemma frame_continue_loop bl : forall s p, frame s (fst (_continue_backlog_loop s p bl)).
Proof.
  induction bl as [|[[r m] mon] bl IH]; intros s p; cbn [_continue_backlog_loop].
  - destruct (has_exchange s p); fr.
  - destruct (has_exchange s p); [fr|].
    pose proof (frame_send_initially s r m mon) as H1. destruct (_send_initially s r m mon) as [s1 o1]. cbn [fst] in H1.
    specialize (IH s1 p). destruct (_continue_backlog_loop s1 p bl) as [s2 o2]. cbn [fst] in *. eapply frame_trans; eauto.
Qed.
Lemma frame_continue_backlog s p : frame s (fst (_continue_backlog s p)).
Proof. unfold _continue_backlog. destruct (aget Z.eqb (backlogs s) p); [apply frame_continue_loop|apply frame_refl]. Qed.
Lemma frame_remove_exchange s r m : frame s (fst (_remove_exchange s r m)).
Proof.
  unfold _remove_exchange. destruct (aget zz_eqb (exch s) (rpeer r, mid m)) as [[mon h]|]; [|apply frame_refl].
  set (s1 := cancel_r _ h). assert (H1 : frame s s1) by (subst s1; fr).
  set (q := match mtype m with RST => run_monitor s1 mon | _ => (s1, []) end).
  assert (Hq : frame s1 (fst q)) by (subst q; destruct (mtype m); try apply frame_refl; apply frame_run_monitor).
  destruct q as [s2 o1]. cbn [fst] in Hq.
  pose proof (frame_continue_backlog s2 (rpeer r)) as H3. destruct (_continue_backlog s2 (rpeer r)) as [s3 o2]. cbn [fst] in *.
  eapply frame_trans; [exact H1|eapply frame_trans; eauto].
Qed.
Lemma frame_retransmit s r m to c : frame s (fst (_retransmit s r m to c)).
Proof.
  unfold _retransmit. destruct (aget zz_eqb (exch s) (rpeer r, mid m)) as [[mon h]|]; [|apply frame_refl].
  set (s1 := cancel_r _ h). assert (H1 : frame s s1) by (subst s1; fr).
  destruct (c <? MAX_RETRANSMIT); [unfold call_later_r; cbn [fst]; eapply frame_trans; [exact H1|fr]|].
  destruct (amem Z.eqb (backlogs s1) (rpeer r)); [|exact H1].
  eapply frame_trans; [exact H1|]. eapply frame_trans; [|apply frame_tm_dispatch_error]. fr.
Qed.
Lemma frame_run_timer s t : frame s (fst (run_timer s t)).
Proof. unfold run_timer. destruct (kind t); [apply frame_refl|apply frame_retransmit|fr]. Qed.

(* ------------------------------------------------------------------ the second invariant *)
Notation pgl := (list ((Z * list Z) * (Z * Z))).
Lemma pk_eqb_false a b : a <> b -> pk_eqb a b = false.
Proof. intros H. destruct (pk_eqb a b) eqn:E; [apply pk_eqb_eq in E; contradiction|reflexivity]. Qed.
Lemma aget_adel_other (l : pgl) k k' : k <> k' -> aget pk_eqb (adel pk_eqb l k) k' = aget pk_eqb l k'.
Proof.
  intros Hn. induction l as [|[k0 v0] l IH]; cbn; [reflexivity|]. destruct (pk_eqb k0 k) eqn:E.
  - apply pk_eqb_eq in E. subst k0. rewrite (pk_eqb_false _ _ Hn). exact IH.
  - cbn. destruct (pk_eqb k0 k'); auto.
Qed.
Lemma aget_areplace_other (l : pgl) k v k' : k <> k' -> aget pk_eqb (areplace pk_eqb l k v) k' = aget pk_eqb l k'.
Proof.
  intros Hn. induction l as [|[k0 v0] l IH]; cbn; [reflexivity|]. destruct (pk_eqb k0 k) eqn:E; cbn.
  - apply pk_eqb_eq in E. subst k0. rewrite (pk_eqb_false _ _ Hn). reflexivity.
  - destruct (pk_eqb k0 k'); auto.
Qed.
Lemma aget_app_none (l : pgl) k k' v : aget pk_eqb (l ++ [(k, v)]) k' = match aget pk_eqb l k' with Some x => Some x | None => if pk_eqb k k' then Some v else None end.
Proof. induction l as [|[k0 v0] l IH]; cbn; [reflexivity|]. destruct (pk_eqb k0 k'); auto. Qed.
Lemma aget_aset_other (l : pgl) k v k' : k <> k' -> aget pk_eqb (aset pk_eqb l k v) k' = aget pk_eqb l k'.
Proof.
  intros Hn. unfold aset. destruct (amem pk_eqb l k); [apply aget_areplace_other; exact Hn|].
  rewrite aget_app_none, (pk_eqb_false _ _ Hn). destruct (aget pk_eqb l k'); reflexivity.
Qed.
Lemma adel_absent (l : pgl) k : aget pk_eqb l k = None -> adel pk_eqb l k = l.
Proof. induction l as [|[k0 v0] l IH]; cbn; [reflexivity|]. destruct (pk_eqb k0 k); [discriminate|]. intros H. rewrite IH; auto. Qed.

Definition AI (nw sq : Z) (P : pgl) (T : list timer) : Prop :=
  (forall t, In t T -> nw <= due t /\ tid t < sq /\
      exists r tok pm, kind t = EmptyAck r tok /\ aget pk_eqb P (rpeer r, tok) = Some (pm, tid t)) /\
  (forall k pm h, aget pk_eqb P k = Some (pm, h) -> exists t, In t T /\ tid t = h) /\
  (forall k k' pm pm' h, aget pk_eqb P k = Some (pm, h) -> aget pk_eqb P k' = Some (pm', h) -> k = k') /\
  NoDup (map tid T).
(* every pending empty-ACK handle is not overdue, has a handle number below the counter and belongs to exactly the opportunity that stores
   it; every opportunity has its pending handle; handle numbers are unique *)
Definition AInv (s : st) : Prop := AI (now s) (seq s) (piggy s) (atimers s).

Lemma AI_mono nw sq sq' P T : AI nw sq P T -> sq <= sq' -> AI nw sq' P T.
Proof.
  intros (A1 & A2 & A3 & A4) Hs. split; [|auto]. intros t Hin. destruct (A1 t Hin) as (Hd & Ht & He). repeat split; auto. lia.
Qed.
Lemma AInv_frame s s' : frame s s' -> AInv s -> AInv s'.
Proof. unfold AInv. intros (-> & -> & -> & Hs & _) H. eapply AI_mono; eauto. Qed.

Lemma cancel_in T h t : In t (cancel T h) <-> In t T /\ tid t <> h.
Proof. unfold cancel. rewrite filter_In. split; intros [H1 H2]; split; auto; lia. Qed.
Lemma NoDup_cancel T h : NoDup (map tid T) -> NoDup (map tid (cancel T h)).
Proof.
  unfold cancel. induction T as [|t T IH]; cbn; [auto|]. intros H. inv H. destruct (negb (tid t =? h)); cbn; auto.
  constructor; auto. intros Hin. apply H2. apply in_map_iff in Hin as (x & Hx & Hin). apply filter_In in Hin as [Hin _]. apply in_map_iff. eauto.
Qed.

Lemma AI_remove nw sq P T k pm h : AI nw sq P T -> aget pk_eqb P k = Some (pm, h) -> AI nw sq (adel pk_eqb P k) (cancel T h).
Proof.
  intros (A1 & A2 & A3 & A4) Hg. split; [|split; [|split]].
  - intros t Hin. apply cancel_in in Hin as [Hin Hne]. destruct (A1 t Hin) as (Hd & Ht & r & tok & pm' & Hk & He). repeat split; auto.
    exists r, tok, pm'. split; auto. rewrite aget_adel_other; auto. intros ->. rewrite Hg in He. inv He. contradiction.
  - intros k' pm' h' Hg'. assert (Hne : k <> k') by (intros ->; rewrite aget_adel_same in Hg'; discriminate).
    rewrite aget_adel_other in Hg' by exact Hne. destruct (A2 _ _ _ Hg') as (t & Hin & Ht). exists t. split; auto.
    apply cancel_in. split; auto. rewrite Ht. intros ->. apply Hne. eapply A3; eauto.
  - intros k1 k2 p1 p2 h' H1 H2.
    assert (k <> k1) by (intros ->; rewrite aget_adel_same in H1; discriminate).
    assert (k <> k2) by (intros ->; rewrite aget_adel_same in H2; discriminate).
    rewrite aget_adel_other in H1, H2 by assumption. eapply A3; eauto.
  - apply NoDup_cancel. exact A4.
Qed.

Lemma NoDup_snoc {A} (l : list A) x : NoDup l -> ~ In x l -> NoDup (l ++ [x]).
Proof.
  induction l as [|y l IH]; cbn; intros H Hn; [constructor; [tauto|constructor]|]. inv H. constructor.
  - intros Hin. apply in_app_or in Hin as [Hin|[Hin|[]]]; [contradiction|subst; tauto].
  - apply IH; auto.
Qed.
Lemma AI_add nw sq P T r tok md delay : AI nw sq P T -> aget pk_eqb P (rpeer r, tok) = None -> 0 <= delay ->
  AI nw (sq + 1) (aset pk_eqb P (rpeer r, tok) (md, sq)) (T ++ [{| due := nw + delay; tid := sq; kind := EmptyAck r tok |}]).
Proof.
  intros (A1 & A2 & A3 & A4) Hn Hd.
  assert (Hlt : forall k pm h, aget pk_eqb P k = Some (pm, h) -> h < sq).
  { intros k pm h Hg. destruct (A2 _ _ _ Hg) as (t & Hin & <-). apply A1. exact Hin. }
  split; [|split; [|split]].
  - intros t Hin. apply in_app_or in Hin as [Hin|[<-|[]]].
    + destruct (A1 t Hin) as (H1 & H2 & r' & tok' & pm' & Hk & He). repeat split; auto; try lia. exists r', tok', pm'. split; auto.
      rewrite aget_aset_other; [exact He|]. intros Heq. congruence.
    + cbn. repeat split; try lia. exists r, tok, md. split; auto. apply aget_aset_same.
  - intros k pm h Hg. destruct (pk_eqb (rpeer r, tok) k) eqn:E.
    + apply pk_eqb_eq in E. subst k. rewrite aget_aset_same in Hg. inv Hg. eexists. split; [apply in_or_app; right; left; reflexivity|reflexivity].
    + rewrite aget_aset_other in Hg by (intros Hq; rewrite <- Hq in E; rewrite pk_eqb_refl in E; discriminate).
      destruct (A2 _ _ _ Hg) as (t & Hin & Ht). exists t. split; auto. apply in_or_app. auto.
  - intros k1 k2 p1 p2 h H1 H2.
    destruct (pk_eqb (rpeer r, tok) k1) eqn:E1; destruct (pk_eqb (rpeer r, tok) k2) eqn:E2.
    + apply pk_eqb_eq in E1, E2. congruence.
    + apply pk_eqb_eq in E1. subst k1. rewrite aget_aset_same in H1. inv H1.
      rewrite aget_aset_other in H2 by (intros Hq; rewrite <- Hq in E2; rewrite pk_eqb_refl in E2; discriminate). apply Hlt in H2. lia.
    + apply pk_eqb_eq in E2. subst k2. rewrite aget_aset_same in H2. inv H2.
      rewrite aget_aset_other in H1 by (intros Hq; rewrite <- Hq in E1; rewrite pk_eqb_refl in E1; discriminate). apply Hlt in H1. lia.
    + rewrite aget_aset_other in H1 by (intros Hq; rewrite <- Hq in E1; rewrite pk_eqb_refl in E1; discriminate).
      rewrite aget_aset_other in H2 by (intros Hq; rewrite <- Hq in E2; rewrite pk_eqb_refl in E2; discriminate). eapply A3; eauto.
  - rewrite map_app. cbn. apply NoDup_snoc; [exact A4|]. intros Hin. apply in_map_iff in Hin as (t & Ht & Hin).
    destruct (A1 t Hin) as (_ & Hlt' & _). lia.
Qed.

(* ------------------------------------------------------------------ a recorded opportunity stays pending until an ACK under its mid is sent *)
Section Pending.
Variables (p : Z) (tok : list Z) (M h d : Z) (r0 : remote).
Definition Pend (s : st) : Prop :=
  aget pk_eqb (piggy s) (p, tok) = Some (M, h) /\ In {| due := d; tid := h; kind := EmptyAck r0 tok |} (atimers s).
Definition live (s s' : st) (o : list output) : Prop :=
  AInv s -> AInv s' /\ (Pend s -> Pend s' \/ (1 <= acks p M o)%nat).

Lemma Pend_frame s s' : frame s s' -> Pend s -> Pend s'.
Proof. intros (Hp & Ha & _). unfold Pend. rewrite Hp, Ha. auto. Qed.
Lemma live_frame s s' o : frame s s' -> live s s' o.
Proof.
  intros Hf HA. split; [eapply AInv_frame; eauto|]. destruct Hf as (Hp & Ha & _). unfold Pend. rewrite Hp, Ha. auto.
Qed.
Lemma live_trans s s1 s2 o1 o2 : live s s1 o1 -> live s1 s2 o2 -> live s s2 (o1 ++ o2).
Proof.
  intros H1 H2 HA. destruct (H1 HA) as [HA1 P1]. destruct (H2 HA1) as [HA2 P2]. split; [exact HA2|].
  intros HP. rewrite acks_app. destruct (P1 HP) as [HP1|]; [|right; lia]. destruct (P2 HP1); [auto|right; lia].
Qed.
Lemma live_ext s0 s s' o : piggy s0 = piggy s -> atimers s0 = atimers s -> now s0 = now s -> seq s0 = seq s -> live s0 s' o -> live s s' o.
Proof. unfold live, AInv, Pend. intros -> -> -> ->. auto. Qed.
Lemma live_ext_r s s1 s' o : piggy s' = piggy s1 -> atimers s' = atimers s1 -> now s' = now s1 -> seq s' = seq s1 -> live s s1 o -> live s s' o.
Proof. unfold live, AInv, Pend. intros -> -> -> ->. auto. Qed.

(* consuming an opportunity: either it is ours and the ACK under our mid goes out, or ours is untouched *)
Lemma consume_live s k pm hh (s1 : st) :
  aget pk_eqb (piggy s) k = Some (pm, hh) -> piggy s1 = adel pk_eqb (piggy s) k -> atimers s1 = cancel (atimers s) hh ->
  now s1 = now s -> seq s1 = seq s -> AInv s ->
  AInv s1 /\ (Pend s -> k <> (p, tok) -> Pend s1) /\ (Pend s -> k = (p, tok) -> pm = M).
Proof.
  intros Hg Hp Ha Hn Hs HA. split; [|split].
  - unfold AInv. rewrite Hp, Ha, Hn, Hs. eapply AI_remove; eauto.
  - intros [P1 P2] Hne. unfold Pend. rewrite Hp, Ha. split; [rewrite aget_adel_other; auto|].
    apply cancel_in. split; [exact P2|]. cbn. intros ->. apply Hne. destruct HA as (_ & _ & A3 & _). eapply A3; eauto.
  - intros [P1 _] ->. rewrite P1 in Hg. congruence.
Qed.

Lemma live_send_message s r a mon rq s' o e : send_message s r a mon rq = (s', o, e) -> live s s' o.
Proof.
  unfold send_message. intros H.
  assert (Hplain : forall bld mt md q, send_message_tail s r bld mt md mon q = (s', o, e) -> live s s' o).
  { intros bld mt md q Ht. apply live_frame. pose proof (frame_tail s r bld mt md mon q) as Hf. rewrite Ht in Hf. exact Hf. }
  destruct (is_response (a_code a)); [|eapply Hplain; eauto].
  destruct (aget pk_eqb (piggy s) (rpeer r, a_token a)) as [[pmid hh]|] eqn:Eg.
  2:{ destruct (no_response_of a); [inv H; apply live_frame, frame_refl|eapply Hplain; eauto]. }
  set (s1 := cancel_a (set_piggy s (adel pk_eqb (piggy s) (rpeer r, a_token a))) hh) in H.
  assert (Hgo : forall r1 w, rpeer r1 = rpeer r -> mtype w = ACK -> mid w = pmid ->
            (s', o, e) = (fst (_send_initially s1 r1 w mon), [Send r1 w], None) -> live s s' o).
  { intros r1 w Hr1 Hw1 Hw2 Heq. injection Heq as Hs' Ho' He'. subst s' o e. intros HA.
    destruct (consume_live s (rpeer r, a_token a) pmid hh s1 Eg eq_refl eq_refl eq_refl eq_refl HA) as (HA1 & Hother & Hours).
    pose proof (frame_send_initially s1 r1 w mon) as Hf. split; [eapply AInv_frame; eauto|].
    intros HP. destruct (pk_eqb (rpeer r, a_token a) (p, tok)) eqn:Ek.
    - apply pk_eqb_eq in Ek. right. specialize (Hours HP Ek). injection Ek as Ek1 Ek2. unfold acks. cbn. rewrite Hw1, Hr1, Hw2, Ek1, Hours, !Z.eqb_refl. cbn. lia.
    - left. assert (Hne : (rpeer r, a_token a) <> (p, tok)) by (intros Hq; rewrite Hq, pk_eqb_refl in Ek; discriminate).
      specialize (Hother HP Hne). eapply Pend_frame; eauto. }
  destruct (no_response_of a).
  - rewrite tail_ack in H. apply (Hgo (as_response_address r) (empty_msg ACK pmid)); [apply rpeer_ara|reflexivity|reflexivity|symmetry; exact H].
  - rewrite tail_ack in H. apply (Hgo r (mk_wire a ACK pmid)); [reflexivity|reflexivity|reflexivity|symmetry; exact H].
Qed.

Lemma live_send_response s r req c rnr pl s' o : send_response s r req c rnr pl = (s', o) -> live s s' o.
Proof.
  unfold send_response. intros H.
  match type of H with context [send_message ?s ?r ?a ?m ?q] => destruct (send_message s r a m q) as [[s1 o1] e] eqn:E1 end.
  inv H. eapply live_send_message; eauto.
Qed.

Lemma live_tm_process_request s r m s' o : tm_process_request s r m = (s', o) -> live s s' o.
Proof.
  unfold tm_process_request. intros H.
  set (q := match aget ik_eqb (incoming s) (token m, rpeer r) with Some sv => _ | None => (s, []) end) in H.
  assert (Hq : live s (fst q) (snd q)).
  { subst q. destruct (aget ik_eqb _ _); cbn [fst snd]; [|apply live_frame, frame_refl].
    apply live_frame. unfold frame. cbn. repeat split; try lia. intros x Hin. eapply in_adel; eauto. }
  destruct q as [s1 o1]. cbn [fst snd] in Hq.
  dlet H s2 o2 E. injection H as <- <-. eapply live_trans; [exact Hq|].
  destruct (negb _); [eapply live_send_response; eauto|]. destruct (negb _); [eapply live_send_response; eauto|].
  destruct (path m =? 0).
  { inv E. intros HA. split; [exact HA|]. intros HP. left. exact HP. }
  destruct (path m =? 1); eapply live_send_response; eauto.
Qed.

Lemma live_handler_respond s k c rnr pl s' o : handler_respond s k c rnr pl = (s', o) -> live s s' o.
Proof.
  unfold handler_respond. intros H. destruct (find_srv (incoming s) k) as [[key sv]|]; [|inv H; apply live_frame, frame_refl].
  dlet H s2 o2 E. injection H as <- <-. apply live_send_response in E. eapply live_ext_r; [..|exact E]; reflexivity.
Qed.

Lemma live_tm_request s pe mt ob s' o : tm_request s pe mt ob = (s', o) -> live s s' o.
Proof.
  unfold tm_request, next_token_. intros H. cbv zeta in H.
  match type of H with context [send_message ?s ?r ?a ?m ?q] => destruct (send_message s r a m q) as [[s3 o3] [e|]] eqn:E end.
  - apply live_send_message in E. pose proof (frame_fail_request s3 (next_req s) e) as Hf.
    destruct (fail_request s3 (next_req s) e) as [s4 o4]. inv H.
    eapply live_trans; [eapply live_ext; [..|exact E]; reflexivity|apply live_frame; exact Hf].
  - inv H. apply live_send_message in E. eapply live_ext; [..|exact E]; reflexivity.
Qed.

Lemma cancel_snoc T x hh : tid x <> hh -> cancel (T ++ [x]) hh = cancel T hh ++ [x].
Proof. intros Hne. unfold cancel. rewrite filter_app. cbn. replace (tid x =? hh) with false by lia. reflexivity. Qed.

(* arming: AInv is kept; every other opportunity is untouched unless the request reuses its (peer, token) (side condition O3) *)
Lemma live_process_request s r m s' o : _process_request s r m = (s', o) ->
  ~ (mtype m = CON /\ (rpeer r, token m) = (p, tok)) -> live s s' o.
Proof.
  unfold _process_request. intros H Hex. destruct (mtype m) eqn:Et; try (eapply live_tm_process_request; eauto; fail).
  match type of H with tm_process_request ?x r m = _ => set (s1 := x) in H end.
  apply live_tm_process_request in H. intros HA.
  assert (Hne : (rpeer r, token m) <> (p, tok)) by (intros Hq; apply Hex; auto).
  assert (H1 : AInv s1 /\ (Pend s -> Pend s1)); [|destruct H1 as [HA1 HP1]; destruct (H HA1) as [HA' HP']; split; auto].
  subst s1. unfold call_later_a. cbn [piggy set_atimers].
  destruct (aget pk_eqb (piggy s) (rpeer r, token m)) as [[pm old]|] eqn:Eg; cbn [piggy set_piggy cancel_a set_atimers atimers seq].
  - assert (Hold : old < seq s). { destruct HA as (A1 & A2 & _). destruct (A2 _ _ _ Eg) as (t & Hin & <-). apply A1. exact Hin. }
    split.
    + unfold AInv. cbn [piggy atimers now seq set_piggy cancel_a set_atimers]. rewrite cancel_snoc by (cbn; lia).
      apply AI_add; [eapply AI_remove; eauto|apply aget_adel_same|unfold EMPTY_ACK_DELAY; lia].
    + intros [P1 P2]. unfold Pend. cbn [piggy atimers now seq set_piggy cancel_a set_atimers]. rewrite cancel_snoc by (cbn; lia). split.
      * rewrite aget_aset_other by exact Hne. rewrite aget_adel_other by exact Hne. exact P1.
      * apply in_or_app. left. apply cancel_in. split; [exact P2|]. cbn. intros ->. apply Hne. destruct HA as (_ & _ & A3 & _). eapply A3; eauto.
  - split.
    + unfold AInv. cbn [piggy atimers now seq set_piggy cancel_a set_atimers]. apply AI_add; [exact HA|exact Eg|unfold EMPTY_ACK_DELAY; lia].
    + intros [P1 P2]. unfold Pend. cbn [piggy atimers now seq set_piggy cancel_a set_atimers].
      split; [rewrite aget_aset_other by exact Hne; exact P1|apply in_or_app; auto].
Qed.

Lemma live_dispatch_message s r m s' o : dispatch_message s r m = (s', o) ->
  ~ (mtype m = CON /\ (rpeer r, token m) = (p, tok)) -> live s s' o.
Proof.
  unfold dispatch_message. intros H Hex.
  set (p0 := if is_request (code m) then _deduplicate_message s r m else (s, [], false)) in H.
  assert (H0 : frame s (fst (fst p0))) by (subst p0; destruct (is_request (code m)); [apply frame_dedup|apply frame_refl]).
  destruct p0 as [[s0 o0] dup]. cbn [fst] in H0. destruct dup. { inv H. apply live_frame. exact H0. }
  set (p1 := match mtype m with ACK | RST => _remove_exchange s0 r m | _ => (s0, []) end) in H.
  assert (H1 : frame s0 (fst p1)) by (subst p1; destruct (mtype m); try apply frame_refl; apply frame_remove_exchange).
  destruct p1 as [s1 o1]. cbn [fst] in H1.
  dlet H s2 o2 E. injection H as <- <-.
  eapply live_trans; [apply live_frame; exact H0|]. eapply live_trans; [apply live_frame; exact H1|].
  assert (Hsi : forall sx rx w, live sx (fst (_send_initially sx rx w MonResp)) (snd (_send_initially sx rx w MonResp)))
    by (intros; apply live_frame, frame_send_initially).
  destruct (code m =? EMPTY).
  { destruct (mtype m); try (inv E; apply live_frame, frame_refl; fail). unfold _process_ping in E. specialize (Hsi s1 (as_response_address r) (empty_msg RST (mid m))). rewrite E in Hsi. exact Hsi. }
  destruct (is_request (code m)).
  { destruct (mtype m) eqn:Et; try (inv E; apply live_frame, frame_refl; fail).
    - eapply live_process_request; [exact E|]. intros [_ Hk]. apply Hex. auto.
    - eapply live_process_request; [exact E|]. rewrite Et. intros [Hc _]. discriminate. }
  destruct (is_response (code m)); [|inv E; apply live_frame, frame_refl].
  assert (Hgo : forall t, (let '(s', o, success) := tm_process_response s1 r m in
      if success then match t with CON => let '(s'', o') := _send_empty_ack s' r (mid m) in (s'', o ++ o') | _ => (s', o) end
      else if mtype_eqb t CON && negb (is_multicast_locally r)
           then let '(s'', o') := _send_initially s' (as_response_address r) (empty_msg RST (mid m)) MonResp in (s'', o ++ o')
           else (s', o)) = (s2, o2) -> live s1 s2 o2).
  { intros t Ht. pose proof (frame_tm_process_response s1 r m) as Hf. destruct (tm_process_response s1 r m) as [[sx ox] success]. cbn [fst] in Hf.
    destruct success.
    - destruct t; try (inv Ht; apply live_frame; exact Hf; fail). unfold _send_empty_ack in Ht.
      specialize (Hsi sx (as_response_address r) (empty_msg ACK (mid m))). destruct (_send_initially sx (as_response_address r) (empty_msg ACK (mid m)) MonResp) as [s'' o''].
      inv Ht. eapply live_trans; [apply live_frame; exact Hf|exact Hsi].
    - destruct (mtype_eqb t CON && negb (is_multicast_locally r)); [|inv Ht; apply live_frame; exact Hf].
      specialize (Hsi sx (as_response_address r) (empty_msg RST (mid m))). destruct (_send_initially sx (as_response_address r) (empty_msg RST (mid m)) MonResp) as [s'' o''].
      inv Ht. eapply live_trans; [apply live_frame; exact Hf|exact Hsi]. }
  destruct (mtype m); [apply (Hgo CON); exact E|apply (Hgo NON); exact E|apply (Hgo ACK); exact E|inv E; apply live_frame, frame_refl].
Qed.

Lemma AI_now nw nw' sq P T : AI nw sq P T -> (forall t, In t T -> nw' <= due t) -> AI nw' sq P T.
Proof.
  intros (A1 & A2 & A3 & A4) Hd. split; [|auto]. intros t Hin. destruct (A1 t Hin) as (_ & Ht & He). repeat split; auto.
Qed.

Lemma min_timer_le l u : min_timer l = Some u -> forall x, In x l -> due u <= due x.
Proof.
  revert u. induction l as [|t l IH]; cbn; [discriminate|]. intros u H x Hin. destruct (min_timer l) as [u'|] eqn:E.
  - unfold earlier in H. destruct ((due u' <? due t) || (due u' =? due t) && (tid u' <? tid t)) eqn:Ee; inv H.
    + destruct Hin as [<-|Hin]; [lia|eapply IH; eauto].
    + destruct Hin as [<-|Hin]; [lia|]. specialize (IH u' eq_refl x Hin). lia.
  - inv H. destruct Hin as [<-|Hin]; [lia|]. destruct l; [destruct Hin|]. cbn in E. destruct (min_timer l); [destruct (earlier _ _)|]; discriminate.
Qed.
Lemma min_timer_none l : min_timer l = None -> l = [].
Proof. destruct l as [|t l]; [reflexivity|]. cbn. destruct (min_timer l); [destruct (earlier _ _)|]; discriminate. Qed.
Lemma next_timer_le s b t : next_timer s = Some (b, t) -> forall x, In x (atimers s) -> due t <= due x.
Proof.
  unfold next_timer. intros H x Hin. destruct (min_timer (atimers s)) as [a|] eqn:Ea.
  - pose proof (min_timer_le _ _ Ea x Hin) as Hle. destruct (min_timer (rtimers s)) as [c|]; [|inv H; exact Hle].
    unfold earlier in H. destruct ((due c <? due a) || (due c =? due a) && (tid c <? tid a)) eqn:Ee; inv H; lia.
  - apply min_timer_none in Ea. rewrite Ea in Hin. destruct Hin.
Qed.
Lemma next_timer_a_in s t : next_timer s = Some (true, t) -> In t (atimers s).
Proof.
  unfold next_timer. intros H. apply min_timer_in.
  destruct (min_timer (atimers s)) as [a|]; destruct (min_timer (rtimers s)) as [c|]; try discriminate.
  - destruct (earlier c a); inv H. reflexivity.
  - inv H. reflexivity.
Qed.
Lemma next_timer_none s : next_timer s = None -> atimers s = [].
Proof.
  unfold next_timer. intros H. destruct (min_timer (atimers s)) as [a|] eqn:Ea; [|apply min_timer_none; exact Ea].
  destruct (min_timer (rtimers s)); [destruct (earlier _ _)|]; discriminate.
Qed.

(* events that do not reuse the opportunity's (peer, token) in a new CON request *)
Definition ev_live (e : event) : Prop :=
  match e with Recv r m => ~ (mtype m = CON /\ (rpeer r, token m) = (p, tok)) | _ => True end.

Lemma live_step s e s' o : step s e = (s', o) -> ev_live e -> live s s' o.
Proof.
  destruct e as [r m|k c rnr pl|pe mt ob| |dd]; cbn [step ev_live]; intros H He.
  - eapply live_dispatch_message; eauto.
  - eapply live_handler_respond; eauto.
  - eapply live_tm_request; eauto.
  - destruct (next_timer s) as [[[|] t]|] eqn:En; [| |inv H; apply live_frame, frame_refl].
    + (* an empty-ACK handle fires *)
      intros HA. pose proof (next_timer_a_in _ _ En) as Hin. pose proof (next_timer_le _ _ _ En) as Hle.
      destruct HA as (A1 & A2 & A3 & A4). destruct (A1 t Hin) as (Hd & Hts & r & tk & pm & Hk & Hg).
      rewrite Hk in H. unfold on_timeout in H. cbn [piggy set_now cancel_a set_atimers] in H. rewrite Hg in H.
      unfold _send_empty_ack in H.
      match type of H with _send_initially ?x ?rr ?w ?mm = _ => set (sa := x) in H; pose proof (frame_send_initially sa rr w mm) as Hf;
        pose proof (send_initially_out sa rr w mm) as [Ho _]; rewrite H in Hf, Ho; cbn [fst snd] in Hf, Ho end.
      assert (HAa : AI (now s) (seq s) (piggy sa) (atimers sa)).
      { subst sa. cbn. eapply AI_remove; [|exact Hg]. exact (conj A1 (conj A2 (conj A3 A4))). }
      assert (HAa' : AInv sa).
      { unfold AInv. replace (now sa) with (Z.max (now s) (due t)) by (subst sa; reflexivity). replace (seq sa) with (seq s) by (subst sa; reflexivity).
        eapply AI_now; [exact HAa|]. intros t' Hin'. subst sa. cbn in Hin'. apply cancel_in in Hin' as [Hin' _].
        specialize (Hle t' Hin'). destruct (A1 t' Hin') as (Hd' & _). lia. }
      split; [eapply AInv_frame; eauto|]. intros [P1 P2].
      destruct (pk_eqb (rpeer r, tk) (p, tok)) eqn:Ek.
      * apply pk_eqb_eq in Ek. right. rewrite Ek, P1 in Hg. injection Hg as -> _. injection Ek as Ek1 _. subst o.
        unfold acks. cbn. rewrite rpeer_ara, Ek1, !Z.eqb_refl. cbn. lia.
      * left. assert (Hne : (rpeer r, tk) <> (p, tok)) by (intros Hq; rewrite Hq, pk_eqb_refl in Ek; discriminate).
        eapply Pend_frame; [exact Hf|]. subst sa. unfold Pend. cbn. split; [rewrite aget_adel_other by exact Hne; exact P1|].
        apply cancel_in. split; [exact P2|]. cbn. intros Hq. apply Hne. eapply A3; [exact Hg|]. rewrite <- Hq. exact P1.
    + (* a retransmission / forget handle fires *)
      pose proof (frame_run_timer (set_now (cancel_r s (tid t)) (Z.max (now s) (due t))) t) as Hf. rewrite H in Hf. cbn [fst] in Hf.
      pose proof (next_timer_le _ _ _ En) as Hle. intros HA.
      assert (HA1 : AInv (set_now (cancel_r s (tid t)) (Z.max (now s) (due t)))).
      { unfold AInv. cbn. eapply AI_now; [exact HA|]. intros t' Hin'. specialize (Hle t' Hin'). destruct HA as (A1 & _). destruct (A1 t' Hin') as (Hd' & _). lia. }
      split; [eapply AInv_frame; eauto|]. intros HP. left. eapply Pend_frame; [exact Hf|]. exact HP.
  - (* waiting never passes a due handle *)
    inv H. intros HA. split; [|intros HP; left; exact HP]. unfold AInv. cbn. eapply AI_now; [exact HA|].
    intros t' Hin'. destruct HA as (A1 & _). destruct (A1 t' Hin') as (Hd' & _).
    destruct (next_timer s) as [[b t]|] eqn:En.
    + pose proof (next_timer_le _ _ _ En t' Hin'). destruct (due t <? now s + Z.max 0 dd) eqn:E; lia.
    + apply next_timer_none in En. rewrite En in Hin'. destruct Hin'.
Qed.

Lemma live_run es : forall s s' os, run s es = (s', os) -> Forall ev_live es -> live s s' (outputs_of os).
Proof.
  induction es as [|e es IH]; intros s s' os H Hev; cbn [run] in H.
  - inv H. apply live_frame, frame_refl.
  - destruct (step s e) as [s1 o] eqn:E1. destruct (run s1 es) as [s2 os2] eqn:E2. inv H. inv Hev.
    unfold outputs_of. cbn [map concat snd]. eapply live_trans; [eapply live_step; eauto|]. apply IH; auto.
Qed.
End Pending.

(* ------------------------------------------------------------------ AInv along every history *)
Lemma AInv_step s e s' o : step s e = (s', o) -> AInv s -> AInv s'.
Proof.
  intros H HA.
  pose (p := match e with Recv r _ => rpeer r + 1 | _ => 0 end).
  assert (He : ev_live p [] e). { destruct e; cbn; auto. intros [_ Hk]. subst p. injection Hk as Hk _. lia. }
  exact (proj1 (live_step p [] 0 0 0 {| rpeer := 0; rlocal := 0 |} s e s' o H He HA)).
Qed.
Lemma AInv_run es : forall s s' os, run s es = (s', os) -> AInv s -> AInv s'.
Proof.
  induction es as [|e es IH]; intros s s' os H HA; cbn [run] in H; [inv H; exact HA|].
  destruct (step s e) as [s1 o] eqn:E1. destruct (run s1 es) as [s2 os2] eqn:E2. inv H. eapply IH; eauto. eapply AInv_step; eauto.
Qed.
Lemma AInv_init m0 t0 : AInv (init m0 t0).
Proof. unfold AInv, AI, init; cbn. repeat split; try (intros; contradiction); try discriminate. constructor. Qed.

(* ------------------------------------------------------------------ exactly once *)
(* the step in which a fresh CON request arrives: either its ACK goes out in this very step (the library or a fast resource answered
   at once) or its opportunity is pending with the handle due EMPTY_ACK_DELAY after arrival; and at most one ACK is accounted for *)
Lemma arrival s0 r m s1 o1 : AInv s0 -> aget pk_eqb (piggy s0) (rpeer r, token m) = None -> mtype m = CON ->
  _process_request s0 r m = (s1, o1) ->
  AInv s1 /\
  (Pend (rpeer r) (token m) (mid m) (seq s0) (now s0 + EMPTY_ACK_DELAY) r s1 \/ (1 <= acks (rpeer r) (mid m) o1)%nat) /\
  (acks (rpeer r) (mid m) o1 + cnt (rpeer r) (mid m) (piggy s1) <= cnt (rpeer r) (mid m) (piggy s0) + 1)%nat.
Proof.
  intros HA Hn Ht H. unfold _process_request in H. rewrite Ht in H. unfold call_later_a in H. cbv zeta in H.
  cbn [piggy set_atimers] in H. rewrite Hn in H.
  match type of H with tm_process_request ?x r m = _ => set (sa := x) in H end.
  assert (HAa : AInv sa). { subst sa. unfold AInv. cbn. apply AI_add; [exact HA|exact Hn|unfold EMPTY_ACK_DELAY; lia]. }
  assert (HPa : Pend (rpeer r) (token m) (mid m) (seq s0) (now s0 + EMPTY_ACK_DELAY) r sa).
  { subst sa. unfold Pend. cbn. split; [apply aget_aset_same|apply in_or_app; right; left; reflexivity]. }
  pose proof (live_tm_process_request (rpeer r) (token m) (mid m) (seq s0) (now s0 + EMPTY_ACK_DELAY) r sa r m s1 o1 H HAa) as [HA1 HP1].
  split; [exact HA1|]. split; [exact (HP1 HPa)|].
  pose proof (tm_process_request_acks (rpeer r) (mid m) sa r m s1 o1 H) as Hk. unfold okp in Hk.
  assert (Hc : cnt (rpeer r) (mid m) (piggy sa) = (cnt (rpeer r) (mid m) (piggy s0) + 1)%nat).
  { subst sa. cbn [piggy set_piggy set_atimers]. rewrite cnt_aset_fresh by exact Hn. unfold counts. cbn. rewrite !Z.eqb_refl. reflexivity. }
  lia.
Qed.

(* Time in the model: [Fire] runs the pending handle with the least (due, creation number) and sets the clock to max(now, due);
   [Wait d] advances the clock by d but never past the due time of a pending handle (AInv: now <= due for every pending empty-ACK
   handle).  So "the clock has passed arrival + EMPTY_ACK_DELAY" ([d < now]) implies the request's handle is no longer pending. *)
Theorem con_request_acked_exactly_once pre m0 t0 s os0 r m s1 o1 post s' os :
  run (init m0 t0) pre = (s, os0) ->                                       (* any history from the initial state *)
  mtype m = CON -> is_request (code m) = true ->
  aget zz_eqb (recent s) (rpeer r, mid m) = None ->                        (* not a duplicate *)
  aget pk_eqb (piggy s) (rpeer r, token m) = None ->                       (* O3: token not in use by an unacknowledged request *)
  cnt (rpeer r) (mid m) (piggy s) = 0%nat ->                               (* no opportunity recorded under this (peer, mid) *)
  dispatch_message s r m = (s1, o1) -> run s1 post = (s', os) ->
  Forall (ev_ok (rpeer r) (mid m)) post ->                                 (* no other message with this (peer, mid); no ACK-typed app requests *)
  Forall (ev_live (rpeer r) (token m)) post ->                             (* O3: no CON request reusing (peer, token) *)
  let n := acks (rpeer r) (mid m) (o1 ++ outputs_of os) in
  (n <= 1)%nat /\ (now s + EMPTY_ACK_DELAY < now s' -> n = 1%nat).
Proof.
  intros Hpre Ht Hrq Hfresh Ho3 Hcnt Hd Hrun Hok Hlv n.
  assert (HB : BInv s) by (eapply run_ok; [exact Hpre|apply BInv_init]).
  assert (HA : AInv s) by (eapply AInv_run; [exact Hpre|apply AInv_init]).
  destruct (dedup_fresh s r m Hfresh) as (s0 & Hdd & Hp0 & Ha0 & Hi0 & Hg0 & Hn0 & Hb0 & He0 & HB0).
  pose proof (frame_dedup s r m) as Hf0. rewrite Hdd in Hf0. cbn [fst] in Hf0.
  assert (Hc0 : (code m =? 0) = false) by (unfold is_request in Hrq; lia).
  assert (Hpr : _process_request s0 r m = (s1, o1)).
  { unfold dispatch_message in Hd. rewrite Hrq, Hdd, Ht in Hd. unfold EMPTY in Hd. rewrite Hc0 in Hd. cbn [app] in Hd.
    destruct (_process_request s0 r m) as [sx ox]. injection Hd as <- <-. reflexivity. }
  assert (HA0 : AInv s0) by (eapply AInv_frame; eauto).
  rewrite <- Hp0 in Ho3, Hcnt.
  destruct (arrival s0 r m s1 o1 HA0 Ho3 Ht Hpr) as (HA1 & Hprog & Hbound).
  assert (HB1 : BInv s1) by (eapply dispatch_message_ok; eauto).
  pose proof (acks_bounded post s1 s' os (rpeer r) (mid m) Hrun HB1 Hok) as Hb.
  pose proof (live_run (rpeer r) (token m) (mid m) (seq s0) (now s0 + EMPTY_ACK_DELAY) r post s1 s' os Hrun Hlv HA1) as [HA' Hl].
  subst n. rewrite acks_app. split; [lia|].
  intros Hlate. destruct Hprog as [HP|Hack]; [|lia].
  destruct (Hl HP) as [[_ HP']|Hack]; [|lia].
  destruct HA' as (A1 & _). destruct (A1 _ HP') as (Hdue & _). cbn in Hdue. lia.
Qed.

(* ------------------------------------------------------------------ the clock never runs backwards *)
Lemma nw_send_message s r a mon rq : now (fst (fst (send_message s r a mon rq))) = now s /\ next_srv s <= next_srv (fst (fst (send_message s r a mon rq))) /\
  incl (incoming (fst (fst (send_message s r a mon rq)))) (incoming s).
Proof.
  unfold send_message.
  assert (Ht : forall s1 r1 bld mt md q, now s1 = now s -> next_srv s1 = next_srv s -> incoming s1 = incoming s ->
     now (fst (fst (send_message_tail s1 r1 bld mt md mon q))) = now s /\ next_srv s <= next_srv (fst (fst (send_message_tail s1 r1 bld mt md mon q))) /\
     incl (incoming (fst (fst (send_message_tail s1 r1 bld mt md mon q)))) (incoming s)).
  { intros s1 r1 bld mt md q H1 H2 H3. destruct (frame_tail s1 r1 bld mt md mon q) as (_ & _ & F3 & _ & F5 & F6). rewrite <- H1, <- H2, <- H3. auto. }
  destruct (is_response (a_code a)); [|apply Ht; reflexivity].
  destruct (aget pk_eqb (piggy s) (rpeer r, a_token a)) as [[pmid hh]|].
  - destruct (no_response_of a); apply Ht; reflexivity.
  - destruct (no_response_of a); [cbn; repeat split; try lia; apply incl_refl|apply Ht; reflexivity].
Qed.
Lemma nw_send_response s r req c rnr pl : now (fst (send_response s r req c rnr pl)) = now s /\ next_srv s <= next_srv (fst (send_response s r req c rnr pl)) /\
  incl (incoming (fst (send_response s r req c rnr pl))) (incoming s).
Proof.
  unfold send_response.
  match goal with |- context [send_message ?s ?r ?a ?m ?q] => pose proof (nw_send_message s r a m q) as H; destruct (send_message s r a m q) as [[s1 o1] e] end.
  exact H.
Qed.
Lemma nw_tm_process_request s r m : now (fst (tm_process_request s r m)) = now s /\ next_srv s <= next_srv (fst (tm_process_request s r m)).
Proof.
  unfold tm_process_request.
  set (q := match aget ik_eqb (incoming s) (token m, rpeer r) with Some sv => _ | None => (s, []) end).
  assert (Hq : now (fst q) = now s /\ next_srv (fst q) = next_srv s) by (subst q; destruct (aget ik_eqb _ _); auto).
  destruct q as [s1 o1]. cbn [fst] in Hq. destruct Hq as [Hq1 Hq2].
  assert (Hsr : forall c rnr pl, now (fst (send_response s1 r m c rnr pl)) = now s /\ next_srv s <= next_srv (fst (send_response s1 r m c rnr pl))).
  { intros. destruct (nw_send_response s1 r m c rnr pl) as (A & B & _). split; [congruence|lia]. }
  destruct (negb _). { specialize (Hsr NOT_FOUND None []). destruct (send_response s1 r m NOT_FOUND None []); exact Hsr. }
  destruct (negb _). { specialize (Hsr METHOD_NOT_ALLOWED None unallowed_payload). destruct (send_response s1 r m METHOD_NOT_ALLOWED None unallowed_payload); exact Hsr. }
  destruct (path m =? 0). { cbn. split; [exact Hq1|lia]. }
  destruct (path m =? 1).
  - specialize (Hsr (default_code (code m)) (nr m) [102]). destruct (send_response s1 r m (default_code (code m)) (nr m) [102]); exact Hsr.
  - specialize (Hsr INTERNAL_SERVER_ERROR None []). destruct (send_response s1 r m INTERNAL_SERVER_ERROR None []); exact Hsr.
Qed.
Lemma nw_step s e : now s <= now (fst (step s e)).
Proof.
  destruct e as [r m|k c rnr pl|pe mt ob| |dd]; cbn [step].
  - (* dispatch_message *)
    unfold dispatch_message.
    set (p0 := if is_request (code m) then _deduplicate_message s r m else (s, [], false)).
    assert (H0 : now (fst (fst p0)) = now s) by (subst p0; destruct (is_request (code m)); [apply frame_dedup|reflexivity]).
    destruct p0 as [[s0 o0] dup]. cbn [fst] in H0. destruct dup; [cbn; lia|].
    set (p1 := match mtype m with ACK | RST => _remove_exchange s0 r m | _ => (s0, []) end).
    assert (H1 : now (fst p1) = now s0) by (subst p1; destruct (mtype m); try reflexivity; apply frame_remove_exchange).
    destruct p1 as [s1 o1]. cbn [fst] in H1.
    assert (Hsi : forall sx rx w, now (fst (_send_initially sx rx w MonResp)) = now sx) by (intros; apply frame_send_initially).
    assert (Hgoal : forall x : st * list output, now (fst x) = now s1 -> now s <= now (fst (let '(s2, o2) := x in (s2, o0 ++ o1 ++ o2)))).
    { intros [sx ox] Hx. cbn in *. lia. }
    apply Hgoal.
    destruct (code m =? EMPTY). { destruct (mtype m); try reflexivity. apply Hsi. }
    destruct (is_request (code m)).
    { assert (Hpr : now (fst (_process_request s1 r m)) = now s1).
      { unfold _process_request. destruct (mtype m); try (apply nw_tm_process_request).
        unfold call_later_a. cbn [piggy set_atimers]. destruct (aget pk_eqb (piggy s1) (rpeer r, token m)) as [[? ?]|];
        match goal with |- now (fst (tm_process_request ?x r m)) = _ => rewrite (proj1 (nw_tm_process_request x r m)) end; reflexivity. }
      destruct (mtype m); try reflexivity; exact Hpr. }
    destruct (is_response (code m)); [|reflexivity].
    assert (Hgo : forall t, now (fst (let '(s', o, success) := tm_process_response s1 r m in
        if success then match t with CON => let '(s'', o') := _send_empty_ack s' r (mid m) in (s'', o ++ o') | _ => (s', o) end
        else if mtype_eqb t CON && negb (is_multicast_locally r)
             then let '(s'', o') := _send_initially s' (as_response_address r) (empty_msg RST (mid m)) MonResp in (s'', o ++ o')
             else (s', o))) = now s1).
    { intros t. pose proof (frame_tm_process_response s1 r m) as Hf. destruct (tm_process_response s1 r m) as [[sx ox] success]. cbn [fst] in Hf.
      destruct Hf as (_ & _ & Hn & _). destruct success.
      - destruct t; try exact Hn. unfold _send_empty_ack. specialize (Hsi sx (as_response_address r) (empty_msg ACK (mid m))).
        destruct (_send_initially sx (as_response_address r) (empty_msg ACK (mid m)) MonResp). cbn in *. congruence.
      - destruct (mtype_eqb t CON && negb (is_multicast_locally r)); [|exact Hn].
        specialize (Hsi sx (as_response_address r) (empty_msg RST (mid m))).
        destruct (_send_initially sx (as_response_address r) (empty_msg RST (mid m)) MonResp). cbn in *. congruence. }
    destruct (mtype m); [apply (Hgo CON)|apply (Hgo NON)|apply (Hgo ACK)|reflexivity].
  - unfold handler_respond. destruct (find_srv (incoming s) k) as [[key sv]|]; [|cbn; lia].
    match goal with |- context [send_response ?s ?r ?q ?c ?n ?pl] => pose proof (nw_send_response s r q c n pl) as (H & _); destruct (send_response s r q c n pl) end.
    cbn in *. lia.
  - unfold tm_request, next_token_. cbv zeta.
    match goal with |- context [send_message ?s ?r ?a ?m ?q] => pose proof (nw_send_message s r a m q) as (H & _); destruct (send_message s r a m q) as [[s3 o3] [e|]] end.
    + pose proof (frame_fail_request s3 (next_req s) e) as (_ & _ & Hn & _). destruct (fail_request s3 (next_req s) e). cbn in *. lia.
    + cbn in *. lia.
  - destruct (next_timer s) as [[[|] t]|]; [| |cbn; lia].
    + destruct (kind t); try (cbn; lia). unfold on_timeout. cbn [piggy set_now cancel_a set_atimers].
      destruct (aget pk_eqb (piggy s) (rpeer r, tok)) as [[pm hh]|]; [|cbn; lia].
      unfold _send_empty_ack. match goal with |- context [_send_initially ?x ?rr ?w ?mm] => pose proof (frame_send_initially x rr w mm) as (_ & _ & Hn & _); destruct (_send_initially x rr w mm) end.
      cbn in *. lia.
    + pose proof (frame_run_timer (set_now (cancel_r s (tid t)) (Z.max (now s) (due t))) t) as (_ & _ & Hn & _).
      destruct (run_timer _ t). cbn in *. lia.
  - cbn. destruct (next_timer s) as [[b t]|]; [destruct (due t <? now s + Z.max 0 dd) eqn:E|]; lia.
Qed.
Lemma nw_run es : forall s, now s <= now (fst (run s es)).
Proof.
  induction es as [|e es IH]; intros s; cbn [run]; [cbn; lia|].
  pose proof (nw_step s e) as H1. destruct (step s e) as [s1 o]. specialize (IH s1). destruct (run s1 es) as [s2 os]. cbn in *. lia.
Qed.

(* ------------------------------------------------------------------ who can consume our opportunity before its handle fires: only our handler *)
Section Ours.
Variables (r : remote) (m : wire) (k0 h d : Z).
Notation p := (rpeer r). Notation tok := (token m). Notation M := (mid m).
Notation PendO := (Pend p tok M h d r).
(* a running handler: registered under its request's (token, peer); if its request has our (peer, token) it is ours; number k0 is ours *)
Definition Px (x : (list Z * Z) * srv) : Prop :=
  fst x = (token (sv_req (snd x)), rpeer (sv_remote (snd x))) /\
  ((rpeer (sv_remote (snd x)), token (sv_req (snd x))) = (p, tok) -> sv_id (snd x) = k0) /\
  (sv_id (snd x) = k0 -> sv_remote (snd x) = r /\ sv_req (snd x) = m).
Definition Good (s : st) : Prop := AInv s /\ PendO s /\ (forall x, In x (incoming s) -> Px x) /\ k0 < next_srv s.

Lemma keep_send_message s r' a mon rq s' o e : send_message s r' a mon rq = (s', o, e) -> Good s ->
  (rpeer r', a_token a) <> (p, tok) -> Good s'.
Proof.
  intros H (HA & HP & HI & HN) Hne.
  pose proof (nw_send_message s r' a mon rq) as (_ & Hns & Hinc). rewrite H in Hns, Hinc. cbn [fst] in Hns, Hinc.
  split; [exact (proj1 (live_send_message p tok M h d r s r' a mon rq s' o e H HA))|].
  split; [|split; [intros x Hx; apply HI, Hinc, Hx|lia]].
  unfold send_message in H.
  assert (Hplain : forall bld mt md q, send_message_tail s r' bld mt md mon q = (s', o, e) -> PendO s').
  { intros bld mt md q Ht. eapply Pend_frame; [|exact HP]. pose proof (frame_tail s r' bld mt md mon q) as Hf. rewrite Ht in Hf. exact Hf. }
  destruct (is_response (a_code a)); [|eapply Hplain; eauto].
  destruct (aget pk_eqb (piggy s) (rpeer r', a_token a)) as [[pmid hh]|] eqn:Eg.
  2:{ destruct (no_response_of a); [inv H; exact HP|eapply Hplain; eauto]. }
  set (s1 := cancel_a (set_piggy s (adel pk_eqb (piggy s) (rpeer r', a_token a))) hh) in H.
  destruct (consume_live p tok M h d r s (rpeer r', a_token a) pmid hh s1 Eg eq_refl eq_refl eq_refl eq_refl HA) as (_ & Hother & _).
  specialize (Hother HP Hne).
  destruct (no_response_of a).
  - pose proof (frame_tail s1 (as_response_address r') (fun _ md => empty_msg ACK md) (Some ACK) (Some pmid) mon None) as Hf. rewrite H in Hf.
    eapply Pend_frame; eauto.
  - pose proof (frame_tail s1 r' (mk_wire a) (Some ACK) (Some pmid) mon rq) as Hf. rewrite H in Hf. eapply Pend_frame; eauto.
Qed.

Lemma keep_send_response s r' req c rnr pl s' o : send_response s r' req c rnr pl = (s', o) -> Good s ->
  (rpeer r', token req) <> (p, tok) -> Good s'.
Proof.
  unfold send_response. intros H HG Hne.
  match type of H with context [send_message ?s ?r ?a ?m ?q] => destruct (send_message s r a m q) as [[s1 o1] e] eqn:E1 end.
  inv H. eapply keep_send_message; [exact E1|exact HG|]. cbn. rewrite rpeer_ara. exact Hne.
Qed.

Lemma Good_ext s s' : piggy s' = piggy s -> atimers s' = atimers s -> now s' = now s -> seq s' = seq s ->
  (forall x, In x (incoming s') -> Px x) -> k0 < next_srv s' -> Good s -> Good s'.
Proof. unfold Good, AInv, Pend. intros -> -> -> -> HI HN (HA & HP & _ & _). auto. Qed.

Lemma keep_tm_process_request s r' m' s' o : tm_process_request s r' m' = (s', o) -> Good s ->
  (rpeer r', token m') <> (p, tok) -> Good s'.
Proof.
  unfold tm_process_request. intros H HG Hne.
  set (q := match aget ik_eqb (incoming s) (token m', rpeer r') with Some sv => _ | None => (s, []) end) in H.
  assert (Hq : Good (fst q)).
  { subst q. destruct (aget ik_eqb _ _); cbn [fst]; [|exact HG]. destruct HG as (HA & HP & HI & HN).
    apply (Good_ext s); [reflexivity..| |exact HN|exact (conj HA (conj HP (conj HI HN)))]. cbn. intros x Hx. apply HI. eapply in_adel; eauto. }
  destruct q as [s1 o1]. cbn [fst] in Hq.
  dlet H s2 o2 E. injection H as <- <-.
  destruct (negb _); [eapply keep_send_response; eauto|]. destruct (negb _); [eapply keep_send_response; eauto|].
  destruct (path m' =? 0).
  { inv E. destruct Hq as (HA & HP & HI & HN). apply (Good_ext s1); [reflexivity..| |cbn; lia|exact (conj HA (conj HP (conj HI HN)))].
    cbn. intros [kx vx] Hx. apply in_aset in Hx as [Hx|[Hv Hk]]; [apply HI; exact Hx|]. subst vx.
    unfold Px. cbn. split; [|split].
    - destruct Hk as [Hk|Hk]; [|exact Hk]. unfold ik_eqb in Hk. cbn in Hk. apply andb_true_iff in Hk as [K1 K2]. apply beqb_eq in K1. apply Z.eqb_eq in K2. destruct kx; cbn in *; congruence.
    - intros Hq'. contradiction.
    - intros Hq'. lia. }
  destruct (path m' =? 1); eapply keep_send_response; eauto.
Qed.

Lemma find_srv_in l k x : find_srv l k = Some x -> In x l /\ sv_id (snd x) = k.
Proof.
  induction l as [|[key sv] l IH]; cbn; [discriminate|]. destruct (sv_id sv =? k) eqn:E.
  - intros H. inv H. split; [auto|cbn; lia].
  - intros H. destruct (IH H). auto.
Qed.

Lemma keep_handler_respond s k c rnr pl s' o : handler_respond s k c rnr pl = (s', o) -> Good s -> k <> k0 -> Good s'.
Proof.
  unfold handler_respond. intros H HG Hk. destruct (find_srv (incoming s) k) as [[key sv]|] eqn:Ef; [|inv H; exact HG].
  dlet H s2 o2 E. injection H as <- <-. apply find_srv_in in Ef as [Hin Hid]. cbn in Hid.
  assert (Hne : (rpeer (sv_remote sv), token (sv_req sv)) <> (p, tok)).
  { intros Hq. destruct HG as (_ & _ & HI & _). destruct (HI _ Hin) as (_ & Hm & _). cbn in Hm. specialize (Hm Hq). lia. }
  apply keep_send_response in E; [|exact HG|exact Hne]. destruct E as (HA & HP & HI & HN).
  apply (Good_ext s2); [reflexivity..| |exact HN|exact (conj HA (conj HP (conj HI HN)))]. cbn. intros x Hx. apply HI. eapply in_adel; eauto.
Qed.

Lemma Good_frame s s' : frame s s' -> Good s -> Good s'.
Proof.
  intros Hf (HA & HP & HI & HN). split; [eapply AInv_frame; eauto|]. split; [eapply Pend_frame; eauto|].
  destruct Hf as (_ & _ & _ & _ & F5 & F6). split; [intros x Hx; apply HI, F6, Hx|lia].
Qed.

Lemma send_message_nonresp s r' a mon rq : is_response (a_code a) = false ->
  send_message s r' a mon rq = send_message_tail s r' (mk_wire a) (a_mtype a) None mon rq.
Proof. intros H. unfold send_message. rewrite H. reflexivity. Qed.
Lemma keep_tm_request s pe mt ob s' o : tm_request s pe mt ob = (s', o) -> Good s -> Good s'.
Proof.
  unfold tm_request, next_token_. intros H HG. cbv zeta in H.
  match type of H with context [send_message ?s ?r ?a ?m ?q] => destruct (send_message s r a m q) as [[s3 o3] e] eqn:E end.
  assert (HG3 : Good s3).
  { (* a request is not a response: the tail only *)
    rewrite send_message_nonresp in E by reflexivity.
    match type of E with send_message_tail ?x ?rr ?b ?mt' ?md ?mn ?q = _ => pose proof (frame_tail x rr b mt' md mn q) as Hf; rewrite E in Hf; cbn [fst] in Hf end.
    eapply Good_frame; [exact Hf|]. destruct HG as (HA & HP & HI & HN). apply (Good_ext s); [reflexivity..|exact HI|exact HN|exact (conj HA (conj HP (conj HI HN)))]. }
  destruct e as [e|].
  - pose proof (frame_fail_request s3 (next_req s) e) as Hf. destruct (fail_request s3 (next_req s) e) as [s4 o4]. inv H. eapply Good_frame; eauto.
  - inv H. exact HG3.
Qed.

Lemma keep_process_request s r' m' s' o : _process_request s r' m' = (s', o) -> Good s -> (rpeer r', token m') <> (p, tok) -> Good s'.
Proof.
  unfold _process_request. intros H HG Hne. destruct (mtype m') eqn:Et; try (eapply keep_tm_process_request; eauto; fail).
  match type of H with tm_process_request ?x r' m' = _ => set (s1 := x) in H end.
  eapply keep_tm_process_request; [exact H| |exact Hne]. destruct HG as (HA & HP & HI & HN).
  assert (Hex : ~ (mtype m' = CON /\ (rpeer r', token m') = (p, tok))) by (intros [_ Hq]; contradiction).
  (* the armed state: as in live_process_request *)
  assert (H1 : AInv s1 /\ PendO s1).
  { subst s1. unfold call_later_a. cbn [piggy set_atimers].
    destruct (aget pk_eqb (piggy s) (rpeer r', token m')) as [[pm old]|] eqn:Eg.
    - assert (Hold : old < seq s). { destruct HA as (A1 & A2 & _). destruct (A2 _ _ _ Eg) as (t & Hin & <-). apply A1. exact Hin. }
      split.
      + unfold AInv. cbn [piggy atimers now seq set_piggy cancel_a set_atimers]. rewrite cancel_snoc by (cbn; lia).
        apply AI_add; [eapply AI_remove; eauto|apply aget_adel_same|unfold EMPTY_ACK_DELAY; lia].
      + destruct HP as [P1 P2]. unfold Pend. cbn [piggy atimers now seq set_piggy cancel_a set_atimers]. rewrite cancel_snoc by (cbn; lia). split.
        * rewrite aget_aset_other by exact Hne. rewrite aget_adel_other by exact Hne. exact P1.
        * apply in_or_app. left. apply cancel_in. split; [exact P2|]. cbn. intros ->. apply Hne. destruct HA as (_ & _ & A3 & _). eapply A3; eauto.
    - split.
      + unfold AInv. cbn [piggy atimers now seq set_piggy cancel_a set_atimers]. apply AI_add; [exact HA|exact Eg|unfold EMPTY_ACK_DELAY; lia].
      + destruct HP as [P1 P2]. unfold Pend. cbn [piggy atimers now seq set_piggy cancel_a set_atimers].
        split; [rewrite aget_aset_other by exact Hne; exact P1|apply in_or_app; auto]. }
  destruct H1 as [HA1 HP1]. split; [exact HA1|split; [exact HP1|]].
  subst s1. unfold call_later_a. cbn [piggy set_atimers]. destruct (aget pk_eqb (piggy s) (rpeer r', token m')) as [[pm old]|]; cbn; auto.
Qed.

Lemma keep_dispatch_message s r' m' s' o : dispatch_message s r' m' = (s', o) -> Good s ->
  ~ (is_request (code m') = true /\ (rpeer r', token m') = (p, tok)) -> Good s'.
Proof.
  unfold dispatch_message. intros H HG Hex.
  set (p0 := if is_request (code m') then _deduplicate_message s r' m' else (s, [], false)) in H.
  assert (H0 : frame s (fst (fst p0))) by (subst p0; destruct (is_request (code m')); [apply frame_dedup|apply frame_refl]).
  destruct p0 as [[s0 o0] dup]. cbn [fst] in H0. destruct dup. { inv H. eapply Good_frame; eauto. }
  set (p1 := match mtype m' with ACK | RST => _remove_exchange s0 r' m' | _ => (s0, []) end) in H.
  assert (H1 : frame s0 (fst p1)) by (subst p1; destruct (mtype m'); try apply frame_refl; apply frame_remove_exchange).
  destruct p1 as [s1 o1]. cbn [fst] in H1.
  assert (HG1 : Good s1) by (eapply Good_frame; [exact H1|eapply Good_frame; eauto]).
  dlet H s2 o2 E. injection H as <- <-.
  assert (Hsi : forall sx rx w, Good sx -> Good (fst (_send_initially sx rx w MonResp)))
    by (intros; eapply Good_frame; [apply frame_send_initially|assumption]).
  destruct (code m' =? EMPTY).
  { destruct (mtype m'); try (inv E; exact HG1; fail). unfold _process_ping in E. specialize (Hsi s1 (as_response_address r') (empty_msg RST (mid m')) HG1). rewrite E in Hsi. exact Hsi. }
  destruct (is_request (code m')) eqn:Erq.
  { assert (Hne : (rpeer r', token m') <> (p, tok)) by (intros Hq; apply Hex; auto).
    destruct (mtype m'); try (inv E; exact HG1; fail); eapply keep_process_request; eauto. }
  destruct (is_response (code m')); [|inv E; exact HG1].
  assert (Hgo : forall t, (let '(s', o, success) := tm_process_response s1 r' m' in
      if success then match t with CON => let '(s'', o') := _send_empty_ack s' r' (mid m') in (s'', o ++ o') | _ => (s', o) end
      else if mtype_eqb t CON && negb (is_multicast_locally r')
           then let '(s'', o') := _send_initially s' (as_response_address r') (empty_msg RST (mid m')) MonResp in (s'', o ++ o')
           else (s', o)) = (s2, o2) -> Good s2).
  { intros t Ht. pose proof (frame_tm_process_response s1 r' m') as Hf. destruct (tm_process_response s1 r' m') as [[sx ox] success]. cbn [fst] in Hf.
    assert (HGx : Good sx) by (eapply Good_frame; eauto).
    destruct success.
    - destruct t; try (inv Ht; exact HGx; fail). unfold _send_empty_ack in Ht.
      specialize (Hsi sx (as_response_address r') (empty_msg ACK (mid m')) HGx). destruct (_send_initially sx (as_response_address r') (empty_msg ACK (mid m')) MonResp) as [s'' o''].
      inv Ht. exact Hsi.
    - destruct (mtype_eqb t CON && negb (is_multicast_locally r')); [|inv Ht; exact HGx].
      specialize (Hsi sx (as_response_address r') (empty_msg RST (mid m')) HGx). destruct (_send_initially sx (as_response_address r') (empty_msg RST (mid m')) MonResp) as [s'' o''].
      inv Ht. exact Hsi. }
  destruct (mtype m'); [apply (Hgo CON); exact E|apply (Hgo NON); exact E|apply (Hgo ACK); exact E|inv E; exact HG1].
Qed.

(* events before our handler answers: no request reusing our (peer, token), and the answer itself comes later *)
Definition strict (e : event) : Prop :=
  match e with
  | Recv r' m' => ~ (is_request (code m') = true /\ (rpeer r', token m') = (p, tok))
  | Respond k _ _ _ => k <> k0
  | _ => True
  end.

Lemma NoDup_tid_eq T a b : NoDup (map tid T) -> In a T -> In b T -> tid a = tid b -> a = b.
Proof.
  induction T as [|t T IH]; cbn; [tauto|]. intros Hnd [Ha|Ha] [Hb|Hb] He; inv Hnd; try congruence.
  - exfalso. apply H1. rewrite He. apply in_map. exact Hb.
  - exfalso. apply H1. rewrite <- He. apply in_map. exact Ha.
  - auto.
Qed.

Lemma keep_step s e s' o : step s e = (s', o) -> Good s -> strict e ->
  Good s' \/ ((1 <= acks p M o)%nat /\ d <= now s').
Proof.
  destruct e as [r' m'|k c rnr pl|pe mt ob| |dd]; cbn [step strict]; intros H HG He.
  - left. eapply keep_dispatch_message; eauto.
  - left. eapply keep_handler_respond; eauto.
  - left. eapply keep_tm_request; eauto.
  - destruct (next_timer s) as [[[|] t]|] eqn:En; [| |inv H; left; exact HG].
    + pose proof (next_timer_a_in _ _ En) as Hin. pose proof (next_timer_le _ _ _ En) as Hle.
      destruct HG as (HA & [P1 P2] & HI & HN). pose proof HA as (A1 & A2 & A3 & A4).
      destruct (A1 t Hin) as (Hd & Hts & rr & tk & pm & Hk & Hg).
      rewrite Hk in H. unfold on_timeout in H. cbn [piggy set_now cancel_a set_atimers] in H. rewrite Hg in H.
      unfold _send_empty_ack in H.
      match type of H with _send_initially ?x ?rx ?w ?mm = _ => set (sa := x) in H; pose proof (frame_send_initially sa rx w mm) as Hf;
        pose proof (send_initially_out sa rx w mm) as [Ho _]; rewrite H in Hf, Ho; cbn [fst snd] in Hf, Ho end.
      destruct (pk_eqb (rpeer rr, tk) (p, tok)) eqn:Ek.
      * (* it is ours: the ACK goes out, and the clock is at least d *)
        apply pk_eqb_eq in Ek. right. rewrite Ek, P1 in Hg. injection Hg as Hpm Hh. injection Ek as Ek1 _. subst o.
        split; [unfold acks; cbn; rewrite rpeer_ara, Ek1, Hpm, !Z.eqb_refl; cbn; lia|].
        assert (Heq : t = {| due := d; tid := h; kind := EmptyAck r tok |}) by (eapply NoDup_tid_eq; eauto).
        destruct Hf as (_ & _ & Hn & _). rewrite Hn. subst sa. cbn. rewrite Heq. cbn. lia.
      * left. assert (Hne : (rpeer rr, tk) <> (p, tok)) by (intros Hq; rewrite Hq, pk_eqb_refl in Ek; discriminate).
        eapply Good_frame; [exact Hf|]. subst sa. split; [|split; [|split; [exact HI|exact HN]]].
        -- unfold AInv. cbn. eapply AI_now; [eapply AI_remove; [exact HA|exact Hg]|].
           intros t' Hin'. apply cancel_in in Hin' as [Hin' _]. specialize (Hle t' Hin'). destruct (A1 t' Hin') as (Hd' & _). lia.
        -- unfold Pend. cbn. split; [rewrite aget_adel_other by exact Hne; exact P1|].
           apply cancel_in. split; [exact P2|]. cbn. intros Hq. apply Hne. eapply A3; [exact Hg|]. rewrite <- Hq. exact P1.
    + left. pose proof (frame_run_timer (set_now (cancel_r s (tid t)) (Z.max (now s) (due t))) t) as Hf. rewrite H in Hf. cbn [fst] in Hf.
      pose proof (next_timer_le _ _ _ En) as Hle. eapply Good_frame; [exact Hf|]. destruct HG as (HA & HP & HI & HN).
      split; [|split; [exact HP|split; [exact HI|exact HN]]].
      unfold AInv. cbn. eapply AI_now; [exact HA|]. intros t' Hin'. specialize (Hle t' Hin'). destruct HA as (A1 & _). destruct (A1 t' Hin') as (Hd' & _). lia.
  - left. inv H. destruct HG as (HA & HP & HI & HN). split; [|split; [exact HP|split; [exact HI|exact HN]]].
    unfold AInv. cbn. eapply AI_now; [exact HA|]. intros t' Hin'. destruct HA as (A1 & _). destruct (A1 t' Hin') as (Hd' & _).
    destruct (next_timer s) as [[b t]|] eqn:En.
    + pose proof (next_timer_le _ _ _ En t' Hin'). destruct (due t <? now s + Z.max 0 dd) eqn:E; lia.
    + apply next_timer_none in En. rewrite En in Hin'. destruct Hin'.
Qed.

Lemma keep_run es : forall s s' os, run s es = (s', os) -> Good s -> Forall strict es ->
  Good s' \/ ((1 <= acks p M (outputs_of os))%nat /\ d <= now s').
Proof.
  induction es as [|e es IH]; intros s s' os H HG Hev; cbn [run] in H; [inv H; left; exact HG|].
  destruct (step s e) as [s1 o] eqn:E1. destruct (run s1 es) as [s2 os2] eqn:E2. inv H. inv Hev.
  unfold outputs_of. cbn [map concat snd]. rewrite acks_app.
  destruct (keep_step _ _ _ _ E1 HG H1) as [HG1|[Ha Hd]].
  - destruct (IH _ _ _ E2 HG1 H2) as [HG2|[Ha Hd]]; [left; exact HG2|right; split; [unfold outputs_of in Ha; lia|exact Hd]].
  - right. split; [lia|]. pose proof (nw_run es s1) as Hm. rewrite E2 in Hm. cbn in Hm. lia.
Qed.

(* our handler answers while the opportunity is pending: the answer travels in the ACK (or, suppressed, the empty ACK does) *)
Lemma respond_while_pending s c rnr pl s' o : Good s -> is_response c = true -> handler_respond s k0 c rnr pl = (s', o) ->
  let eff := match rnr with Some v => Some v | None => nr m end in
  let a := {| a_mtype := None; a_code := c; a_token := tok; a_nr := eff; a_obs := None; a_payload := pl |} in
  (find_srv (incoming s) k0 = None /\ o = []) \/                                     (* the handler was cancelled meanwhile *)
  (no_response_of a = false /\ o = [Send (as_response_address r) (mk_wire a ACK M)]) \/
  (no_response_of a = true /\ o = [Send (as_response_address r) (empty_msg ACK M)]).
Proof.
  intros (HA & [P1 P2] & HI & HN) Hc H eff a. unfold handler_respond in H.
  destruct (find_srv (incoming s) k0) as [[key sv]|] eqn:Ef; [|inv H; left; auto]. right.
  apply find_srv_in in Ef as [Hin Hid]. cbn in Hid. destruct (HI _ Hin) as (_ & _ & Hours). cbn in Hours. destruct (Hours Hid) as [Hr Hm].
  rewrite Hr, Hm in H. dlet H s2 o2 E. injection H as <- <-.
  unfold send_response in E.
  assert (Heff : match match rnr with Some v => Some v | None => nr m end with Some v => Some v | None => nr m end = eff) by (subst eff; destruct rnr; [reflexivity|destruct (nr m); reflexivity]).
  rewrite Heff in E. fold a in E.
  assert (Hg : aget pk_eqb (piggy s) (rpeer (as_response_address r), a_token a) = Some (M, h)) by (rewrite rpeer_ara; exact P1).
  destruct (no_response_of a) eqn:En.
  - right. split; [reflexivity|]. destruct (send_message_suppressed_ack s (as_response_address r) a MonResp (Some (mtype m)) M h Hc Hg En) as (sx & Hx & _).
    rewrite Hx in E. rewrite as_response_address_idempotent in E. inv E. reflexivity.
  - left. split; [reflexivity|]. destruct (send_message_piggyback s (as_response_address r) a MonResp (Some (mtype m)) M h Hc Hg En) as (sx & Hx & _).
    rewrite Hx in E. inv E. reflexivity.
Qed.
End Ours.

(* ------------------------------------------------------------------ running handlers along every history: registered under their
   request's (token, peer), numbered below the counter *)
Definition GIx (n : Z) (x : (list Z * Z) * srv) : Prop :=
  fst x = (token (sv_req (snd x)), rpeer (sv_remote (snd x))) /\ sv_id (snd x) < n.
Definition GI (s : st) : Prop := forall x, In x (incoming s) -> GIx (next_srv s) x.
Definition inc (s s' : st) : Prop :=
  next_srv s <= next_srv s' /\ forall x, In x (incoming s') -> In x (incoming s) \/ (GIx (next_srv s') x /\ next_srv s <= sv_id (snd x)).
Lemma inc_incl s s' : next_srv s <= next_srv s' -> incl (incoming s') (incoming s) -> inc s s'.
Proof. intros H1 H2. split; auto. Qed.
Lemma inc_frame s s' : frame s s' -> inc s s'.
Proof. intros (_ & _ & _ & _ & F5 & F6). apply inc_incl; auto. Qed.
Lemma inc_trans a b c : inc a b -> inc b c -> inc a c.
Proof.
  intros [A1 A2] [B1 B2]. split; [lia|]. intros x Hx. destruct (B2 x Hx) as [Hb|[[G1 G2] G3]].
  - destruct (A2 x Hb) as [Ha|[[G1 G2] G3]]; [auto|]. right. split; [split; [exact G1|lia]|exact G3].
  - right. split; [split; [exact G1|exact G2]|lia].
Qed.
Lemma GI_inc s s' : inc s s' -> GI s -> GI s'.
Proof.
  intros [H1 H2] HG x Hx. destruct (H2 x Hx) as [Hin|[Hg _]]; [|exact Hg]. destruct (HG x Hin) as [G1 G2]. split; [exact G1|lia].
Qed.

Lemma inc_tm_process_request s r m : inc s (fst (tm_process_request s r m)).
Proof.
  unfold tm_process_request.
  set (q := match aget ik_eqb (incoming s) (token m, rpeer r) with Some sv => _ | None => (s, []) end).
  assert (Hq : inc s (fst q)).
  { subst q. destruct (aget ik_eqb _ _); cbn [fst]; apply inc_incl; cbn; try lia; try apply incl_refl. intros x Hx. eapply in_adel; eauto. }
  destruct q as [s1 o1]. cbn [fst] in Hq.
  assert (Hsr : forall c rnr pl, inc s (fst (send_response s1 r m c rnr pl))).
  { intros. destruct (nw_send_response s1 r m c rnr pl) as (_ & B & C). eapply inc_trans; [exact Hq|apply inc_incl; auto]. }
  destruct (negb _). { specialize (Hsr NOT_FOUND None []). destruct (send_response s1 r m NOT_FOUND None []); exact Hsr. }
  destruct (negb _). { specialize (Hsr METHOD_NOT_ALLOWED None unallowed_payload). destruct (send_response s1 r m METHOD_NOT_ALLOWED None unallowed_payload); exact Hsr. }
  destruct (path m =? 0).
  { cbn [fst]. eapply inc_trans; [exact Hq|]. split; [cbn; lia|]. cbn. intros [kx vx] Hx. apply in_aset in Hx as [Hx|[Hv Hk]]; [auto|]. subst vx. right.
    unfold GIx. cbn. split; [split; [|lia]|lia].
    destruct Hk as [Hk|Hk]; [|exact Hk]. unfold ik_eqb in Hk. cbn in Hk. apply andb_true_iff in Hk as [K1 K2]. apply beqb_eq in K1. apply Z.eqb_eq in K2. destruct kx; cbn in *; congruence. }
  destruct (path m =? 1).
  - specialize (Hsr (default_code (code m)) (nr m) [102]). destruct (send_response s1 r m (default_code (code m)) (nr m) [102]); exact Hsr.
  - specialize (Hsr INTERNAL_SERVER_ERROR None []). destruct (send_response s1 r m INTERNAL_SERVER_ERROR None []); exact Hsr.
Qed.
Lemma inc_process_request s r m : inc s (fst (_process_request s r m)).
Proof.
  unfold _process_request. destruct (mtype m); try apply inc_tm_process_request.
  unfold call_later_a. cbn [piggy set_atimers]. destruct (aget pk_eqb (piggy s) (rpeer r, token m)) as [[? ?]|];
  match goal with |- inc s (fst (tm_process_request ?x r m)) => pose proof (inc_tm_process_request x r m) as H end; exact H.
Qed.
Lemma inc_step s e : inc s (fst (step s e)).
Proof.
  destruct e as [r m|k c rnr pl|pe mt ob| |dd]; cbn [step].
  - unfold dispatch_message.
    set (p0 := if is_request (code m) then _deduplicate_message s r m else (s, [], false)).
    assert (H0 : inc s (fst (fst p0))) by (subst p0; destruct (is_request (code m)); apply inc_frame; [apply frame_dedup|apply frame_refl]).
    destruct p0 as [[s0 o0] dup]. cbn [fst] in H0. destruct dup; [exact H0|].
    set (p1 := match mtype m with ACK | RST => _remove_exchange s0 r m | _ => (s0, []) end).
    assert (H1 : inc s0 (fst p1)) by (subst p1; apply inc_frame; destruct (mtype m); try apply frame_refl; apply frame_remove_exchange).
    destruct p1 as [s1 o1]. cbn [fst] in H1.
    assert (Hgoal : forall x : st * list output, inc s1 (fst x) -> inc s (fst (let '(s2, o2) := x in (s2, o0 ++ o1 ++ o2)))).
    { intros [sx ox] Hx. cbn in *. eapply inc_trans; [exact H0|eapply inc_trans; eauto]. }
    apply Hgoal.
    assert (Hsi : forall sx rx w, inc sx (fst (_send_initially sx rx w MonResp))) by (intros; apply inc_frame, frame_send_initially).
    assert (Hrefl : inc s1 s1) by apply inc_frame, frame_refl.
    destruct (code m =? EMPTY). { destruct (mtype m); try exact Hrefl. apply Hsi. }
    destruct (is_request (code m)). { destruct (mtype m); try exact Hrefl; apply inc_process_request. }
    destruct (is_response (code m)); [|exact Hrefl].
    assert (Hgo : forall t, inc s1 (fst (let '(s', o, success) := tm_process_response s1 r m in
        if success then match t with CON => let '(s'', o') := _send_empty_ack s' r (mid m) in (s'', o ++ o') | _ => (s', o) end
        else if mtype_eqb t CON && negb (is_multicast_locally r)
             then let '(s'', o') := _send_initially s' (as_response_address r) (empty_msg RST (mid m)) MonResp in (s'', o ++ o')
             else (s', o)))).
    { intros t. pose proof (frame_tm_process_response s1 r m) as Hf. destruct (tm_process_response s1 r m) as [[sx ox] success]. cbn [fst] in Hf.
      apply inc_frame in Hf. destruct success.
      - destruct t; try exact Hf. unfold _send_empty_ack. specialize (Hsi sx (as_response_address r) (empty_msg ACK (mid m))).
        destruct (_send_initially sx (as_response_address r) (empty_msg ACK (mid m)) MonResp). cbn [fst] in *. eapply inc_trans; eauto.
      - destruct (mtype_eqb t CON && negb (is_multicast_locally r)); [|exact Hf].
        specialize (Hsi sx (as_response_address r) (empty_msg RST (mid m))).
        destruct (_send_initially sx (as_response_address r) (empty_msg RST (mid m)) MonResp). cbn [fst] in *. eapply inc_trans; eauto. }
    destruct (mtype m); [apply (Hgo CON)|apply (Hgo NON)|apply (Hgo ACK)|exact Hrefl].
  - unfold handler_respond. destruct (find_srv (incoming s) k) as [[key sv]|]; [|apply inc_frame, frame_refl].
    match goal with |- context [send_response ?s ?r ?q ?c ?n ?pl] => pose proof (nw_send_response s r q c n pl) as (_ & B & C); destruct (send_response s r q c n pl) as [s2 o2] end.
    cbn [fst] in *. apply inc_incl; [cbn; lia|]. cbn. intros x Hx. apply C. eapply in_adel; eauto.
  - unfold tm_request, next_token_. cbv zeta.
    match goal with |- context [send_message ?s ?r ?a ?m ?q] => pose proof (nw_send_message s r a m q) as (_ & B & C); destruct (send_message s r a m q) as [[s3 o3] [e|]] end.
    + pose proof (frame_fail_request s3 (next_req s) e) as Hf. destruct (fail_request s3 (next_req s) e). cbn [fst] in *.
      eapply inc_trans; [|apply inc_frame; exact Hf]. apply inc_incl; [exact B|exact C].
    + cbn [fst] in *. apply inc_incl; [exact B|exact C].
  - destruct (next_timer s) as [[[|] t]|]; [| |apply inc_frame, frame_refl].
    + destruct (kind t); try (apply inc_incl; cbn; [lia|apply incl_refl]). unfold on_timeout. cbn [piggy set_now cancel_a set_atimers].
      destruct (aget pk_eqb (piggy s) (rpeer r, tok)) as [[pm hh]|]; [|apply inc_incl; cbn; [lia|apply incl_refl]].
      unfold _send_empty_ack. match goal with |- context [_send_initially ?x ?rr ?w ?mm] => pose proof (frame_send_initially x rr w mm) as Hf; destruct (_send_initially x rr w mm) end.
      cbn [fst] in *. apply inc_frame in Hf. eapply inc_trans; [|exact Hf]. apply inc_incl; cbn; [lia|apply incl_refl].
    + pose proof (frame_run_timer (set_now (cancel_r s (tid t)) (Z.max (now s) (due t))) t) as Hf.
      destruct (run_timer _ t). cbn [fst] in *. apply inc_frame in Hf. eapply inc_trans; [|exact Hf]. apply inc_incl; cbn; [lia|apply incl_refl].
  - cbn. apply inc_incl; cbn; [lia|apply incl_refl].
Qed.
Lemma GI_run es : forall s, GI s -> GI (fst (run s es)).
Proof.
  induction es as [|e es IH]; intros s HG; cbn [run]; [exact HG|].
  pose proof (inc_step s e) as H1. destruct (step s e) as [s1 o]. cbn [fst] in H1. specialize (IH s1 (GI_inc _ _ H1 HG)).
  destruct (run s1 es) as [s2 os]. exact IH.
Qed.
Lemma GI_init m0 t0 : GI (init m0 t0).
Proof. intros x []. Qed.

Lemma ik_eqb_refl k : ik_eqb k k = true.
Proof. destruct k. unfold ik_eqb. cbn. rewrite beqb_refl, Z.eqb_refl. reflexivity. Qed.
Lemma in_adel_ne (l : list ((list Z * Z) * srv)) key k v : In (k, v) (adel ik_eqb l key) -> k <> key.
Proof.
  induction l as [|[k0 v0] l IH]; cbn; [tauto|]. destruct (ik_eqb k0 key) eqn:E; [exact IH|].
  intros [H|H]; [|exact (IH H)]. inv H. intros ->. rewrite ik_eqb_refl in E. discriminate.
Qed.

Lemma aget_none_in (l : list ((list Z * Z) * srv)) key v : aget ik_eqb l key = None -> In (key, v) l -> False.
Proof.
  induction l as [|[k0 v0] l IH]; cbn; [tauto|]. destruct (ik_eqb k0 key) eqn:E; [discriminate|].
  intros Hn [H|H]; [inv H; rewrite ik_eqb_refl in E; discriminate|exact (IH Hn H)].
Qed.
(* the arrival of a fresh CON request for the slow resource puts the system into a Good state for it: handler number next_srv,
   handle number seq, due EMPTY_ACK_DELAY after arrival *)
Lemma arrival_good s0 r m s1 o1 : GI s0 -> AInv s0 -> aget pk_eqb (piggy s0) (rpeer r, token m) = None ->
  mtype m = CON -> path m = 0 -> 1 <= code m <= 7 -> _process_request s0 r m = (s1, o1) ->
  Good r m (next_srv s0) (seq s0) (now s0 + EMPTY_ACK_DELAY) s1 /\ In (StartHandler (next_srv s0)) o1.
Proof.
  intros HG HA Hn Ht Hp Hc H.
  assert (Hstart : In (StartHandler (next_srv s0)) o1).
  { pose proof H as H'. unfold _process_request in H'. rewrite Ht in H'. unfold call_later_a in H'. cbv zeta in H'. cbn [piggy set_atimers] in H'. rewrite Hn in H'.
    unfold tm_process_request in H'. rewrite Hp in H'. replace ((1 <=? code m) && (code m <=? 7)) with true in H' by lia.
    cbn [negb orb Z.eqb] in H'. cbv zeta in H'. cbn [incoming set_piggy set_atimers] in H'.
    destruct (aget ik_eqb (incoming s0) (token m, rpeer r)); injection H' as _ <-; cbn; auto. }
  split; [|exact Hstart]. clear Hstart.
  destruct (arrival s0 r m s1 o1 HA Hn Ht H) as (HA1 & Hprog & _).
  destruct (request_arms_timer s0 r m s1 o1 Ht Hp Hc Hn H) as (Hg1 & Hat & Hout).
  split; [exact HA1|]. split.
  { unfold Pend. rewrite Hat. split; [exact Hg1|apply in_or_app; right; left; reflexivity]. }
  unfold _process_request in H. rewrite Ht in H. unfold call_later_a in H. cbv zeta in H. cbn [piggy set_atimers] in H. rewrite Hn in H.
  unfold tm_process_request in H. rewrite Hp in H. replace ((1 <=? code m) && (code m <=? 7)) with true in H by lia.
  cbn [negb orb Z.eqb] in H. cbv zeta in H.
  assert (Hnew : forall l, (forall x, In x l -> (In x (incoming s0) /\ fst x <> (token m, rpeer r)) \/ x = ((token m, rpeer r), {| sv_id := next_srv s0; sv_remote := r; sv_req := m |})) ->
            forall x, In x l -> Px r m (next_srv s0) x).
  { intros l Hl [kx vx] Hx. destruct (Hl _ Hx) as [[Hin Hne]|Heq].
    - destruct (HG _ Hin) as [G1 G2]. cbn in G1, G2, Hne.
      unfold Px. cbn. split; [exact G1|]. split.
      + intros Hq. exfalso. apply Hne. rewrite G1. injection Hq as -> ->. reflexivity.
      + intros Hq. lia.
    - inv Heq. unfold Px. cbn. auto. }
  assert (Hkey : forall kx, ik_eqb kx (token m, rpeer r) = true \/ kx = (token m, rpeer r) -> kx = (token m, rpeer r)).
  { intros kx [Hk|Hk]; [|exact Hk]. unfold ik_eqb in Hk. cbn in Hk. apply andb_true_iff in Hk as [K1 K2]. apply beqb_eq in K1. apply Z.eqb_eq in K2. destruct kx; cbn in *; congruence. }
  cbn [incoming set_piggy set_atimers] in H.
  destruct (aget ik_eqb (incoming s0) (token m, rpeer r)) as [sv|] eqn:Eg; injection H as <- _; cbn [incoming next_srv set_next_srv set_incoming set_piggy set_atimers]; (split; [|lia]);
    apply Hnew; intros [kx vx] Hx; apply in_aset in Hx as [Hx|[Hv Hk]].
  - left. split; [eapply in_adel; eauto|]. cbn. eapply in_adel_ne; eauto.
  - right. subst vx. f_equal. apply Hkey. exact Hk.
  - left. split; [exact Hx|]. cbn. intros ->. exact (aget_none_in _ _ _ Eg Hx).
  - right. subst vx. f_equal. apply Hkey. exact Hk.
Qed.

Lemma cnt_pos p M (l : pgl) k h : aget pk_eqb l k = Some (M, h) -> fst k = p -> (1 <= cnt p M l)%nat.
Proof. intros Hg Hk. pose proof (cnt_adel_hit p M l k h Hg Hk). lia. Qed.
Lemma dedup_fresh_srv s r m : aget zz_eqb (recent s) (rpeer r, mid m) = None ->
  next_srv (fst (fst (_deduplicate_message s r m))) = next_srv s /\ now (fst (fst (_deduplicate_message s r m))) = now s.
Proof. intros H. unfold _deduplicate_message. rewrite H. unfold call_later_r. cbn. auto. Qed.

(* Piggy-backed iff the response is ready strictly before arrival + EMPTY_ACK_DELAY:
   a fresh CON request for the slow resource arrives at clock [now s] and its handler gets number [k0 = next_srv s]; [es1] is any
   continuation in which the peer does not reuse the (peer, token) pair in another request, nothing else carries the request's message ID,
   and handler k0 has not answered yet.  Then
   (a) while the clock is strictly before d = arrival + EMPTY_ACK_DELAY no ACK has been sent, and whatever response code / No-Response
       value / payload the handler produces at that moment travels in the ACK under the request's message ID (or, suppressed, the empty
       ACK is sent; or the handler was cancelled by a give-up and nothing is sent);
   (b) if an ACK under the request's message ID has already been sent by then, the clock is at least d (only the timer can have sent it). *)
Theorem con_response_timing pre m0 t0 s os0 r m s1 o1 es1 s2 os1 :
  run (init m0 t0) pre = (s, os0) ->
  mtype m = CON -> path m = 0 -> 1 <= code m <= 7 ->
  aget zz_eqb (recent s) (rpeer r, mid m) = None -> aget pk_eqb (piggy s) (rpeer r, token m) = None ->
  cnt (rpeer r) (mid m) (piggy s) = 0%nat ->
  dispatch_message s r m = (s1, o1) -> run s1 es1 = (s2, os1) ->
  let k0 := next_srv s in let d := now s + EMPTY_ACK_DELAY in
  Forall (strict r m k0) es1 -> Forall (ev_ok (rpeer r) (mid m)) es1 ->
  In (StartHandler k0) o1 /\
  (now s2 < d ->
     acks (rpeer r) (mid m) (o1 ++ outputs_of os1) = 0%nat /\
     forall c rnr pl s3 o3, is_response c = true -> handler_respond s2 k0 c rnr pl = (s3, o3) ->
       let eff := match rnr with Some v => Some v | None => nr m end in
       let a := {| a_mtype := None; a_code := c; a_token := token m; a_nr := eff; a_obs := None; a_payload := pl |} in
       (find_srv (incoming s2) k0 = None /\ o3 = []) \/
       (no_response_of a = false /\ o3 = [Send (as_response_address r) (mk_wire a ACK (mid m))]) \/
       (no_response_of a = true /\ o3 = [Send (as_response_address r) (empty_msg ACK (mid m))])) /\
  ((1 <= acks (rpeer r) (mid m) (o1 ++ outputs_of os1))%nat -> d <= now s2).
Proof.
  intros Hpre Ht Hp Hc Hfresh Ho3 Hcnt Hd Hrun k0 d Hst Hok.
  assert (HB : BInv s) by (eapply run_ok; [exact Hpre|apply BInv_init]).
  assert (HA : AInv s) by (eapply AInv_run; [exact Hpre|apply AInv_init]).
  assert (HGI : GI s). { pose proof (GI_run pre (init m0 t0) (GI_init m0 t0)) as H. rewrite Hpre in H. exact H. }
  assert (Hrq : is_request (code m) = true) by (unfold is_request; lia).
  destruct (dedup_fresh s r m Hfresh) as (s0 & Hdd & Hp0 & Ha0 & Hi0 & Hg0 & Hn0 & Hb0 & He0 & HB0).
  pose proof (frame_dedup s r m) as Hf0. pose proof (dedup_fresh_srv s r m Hfresh) as [Hsrv _]. rewrite Hdd in Hf0, Hsrv. cbn [fst] in Hf0, Hsrv.
  assert (Hc0 : (code m =? 0) = false) by lia.
  assert (Hpr : _process_request s0 r m = (s1, o1)).
  { unfold dispatch_message in Hd. rewrite Hrq, Hdd, Ht in Hd. unfold EMPTY in Hd. rewrite Hc0 in Hd. cbn [app] in Hd.
    destruct (_process_request s0 r m) as [sx ox]. injection Hd as <- <-. reflexivity. }
  assert (HA0 : AInv s0) by (eapply AInv_frame; eauto).
  assert (HG0 : GI s0) by (eapply GI_inc; [apply inc_frame; exact Hf0|exact HGI]).
  rewrite <- Hp0 in Ho3, Hcnt.
  destruct (arrival_good s0 r m s1 o1 HG0 HA0 Ho3 Ht Hp Hc Hpr) as [HGood Hstart].
  destruct (arrival s0 r m s1 o1 HA0 Ho3 Ht Hpr) as (_ & _ & Hbound).
  destruct (request_arms_timer s0 r m s1 o1 Ht Hp Hc Ho3 Hpr) as (_ & _ & Hout).
  assert (Ho1 : acks (rpeer r) (mid m) o1 = 0%nat).
  { unfold acks. assert (Hz : filter (is_ack_for (rpeer r) (mid m)) o1 = []); [|rewrite Hz; reflexivity].
    clear - Hout. induction o1 as [|x l IH]; [reflexivity|]. cbn. destruct (Hout x (or_introl eq_refl)) as (k & [->| ->]); cbn; apply IH; intros; apply Hout; right; assumption. }
  assert (HB1 : BInv s1) by (eapply dispatch_message_ok; eauto).
  pose proof (acks_bounded es1 s1 s2 os1 (rpeer r) (mid m) Hrun HB1 Hok) as Hb.
  rewrite Hsrv in HGood, Hstart. rewrite Hn0 in HGood. fold k0 in HGood, Hstart. fold d in HGood.
  pose proof (keep_run r m k0 (seq s0) d es1 s1 s2 os1 Hrun HGood Hst) as Hkeep.
  split; [exact Hstart|]. rewrite acks_app, Ho1. cbn [Nat.add]. split.
  - intros Hearly. destruct Hkeep as [HG2|[_ Hd2]]; [|lia].
    split.
    + destruct HG2 as (_ & [P1 _] & _). pose proof (cnt_pos (rpeer r) (mid m) _ _ _ P1 eq_refl). lia.
    + intros c rnr pl s3 o3 Hcr Hr. exact (respond_while_pending r m k0 (seq s0) d s2 c rnr pl s3 o3 HG2 Hcr Hr).
  - intros Hack. destruct Hkeep as [HG2|[_ Hd2]]; [|exact Hd2].
    exfalso. destruct HG2 as (_ & [P1 _] & _). pose proof (cnt_pos (rpeer r) (mid m) _ _ _ P1 eq_refl). lia.
Qed.

(* after the empty ACK: the handler's answer is a separate message — fresh message ID from our counter, the request's token, CON for a CON
   request to a unicast peer (NON otherwise), possibly waiting in the NSTART backlog (C14) *)
Theorem respond_after_ack s r m k0 key sv c rnr pl s' o :
  find_srv (incoming s) k0 = Some (key, sv) -> sv_remote sv = r -> sv_req sv = m ->
  aget pk_eqb (piggy s) (rpeer r, token m) = None -> is_response c = true ->
  handler_respond s k0 c rnr pl = (s', o) ->
  let eff := match rnr with Some v => Some v | None => nr m end in
  let a := {| a_mtype := None; a_code := c; a_token := token m; a_nr := eff; a_obs := None; a_payload := pl |} in
  let t := select_mtype None (as_response_address r) (Some (mtype m)) in
  (no_response_of a = true /\ o = []) \/
  (no_response_of a = false /\
   (o = [Send (as_response_address r) (mk_wire a t (next_mid s))] \/ (o = [] /\ t = CON /\ amem Z.eqb (backlogs s) (rpeer r) = true))).
Proof.
  intros Hf Hr Hm Hg Hc H eff a t. unfold handler_respond in H. rewrite Hf, Hr, Hm in H. clear Hf Hr Hm.
  dlet H s2 o2 E. injection H as <- <-. unfold send_response in E.
  assert (Heff : match match rnr with Some v => Some v | None => nr m end with Some v => Some v | None => nr m end = eff) by (subst eff; destruct rnr; [reflexivity|destruct (nr m); reflexivity]).
  rewrite Heff in E. fold a in E.
  assert (Hg' : aget pk_eqb (piggy s) (rpeer (as_response_address r), a_token a) = None) by (rewrite rpeer_ara; exact Hg).
  destruct (no_response_of a) eqn:En.
  - left. split; [reflexivity|]. rewrite (send_message_suppressed_silent s (as_response_address r) a MonResp (Some (mtype m)) Hc Hg' En) in E. inv E. reflexivity.
  - right. split; [reflexivity|].
    match type of E with context [send_message ?x ?rr ?aa ?mm ?q] => destruct (send_message x rr aa mm q) as [[sx ox] e] eqn:Es end. inv E.
    destruct (send_message_separate s (as_response_address r) a MonResp (Some (mtype m)) s2 o2 e eq_refl (fun _ => conj Hg' En) Es) as (_ & _ & Hout).
    rewrite rpeer_ara in Hout. exact Hout.
Qed.

(* ------------------------------------------------------------------ round 5: clause-audit remedies *)
(* a NON request is never acknowledged: over every continuation, no ACK-typed message under its (peer, message ID) *)
Theorem non_request_never_acked s r m s1 o1 es s' os :
  BInv s -> mtype m = NON -> is_request (code m) = true ->
  aget zz_eqb (recent s) (rpeer r, mid m) = None -> cnt (rpeer r) (mid m) (piggy s) = 0%nat ->
  dispatch_message s r m = (s1, o1) -> run s1 es = (s', os) -> Forall (ev_ok (rpeer r) (mid m)) es ->
  acks (rpeer r) (mid m) (o1 ++ outputs_of os) = 0%nat.
Proof.
  intros HB Ht Hrq Hfresh Hcnt Hd Hrun Hok.
  destruct (dedup_fresh s r m Hfresh) as (s0 & Hdd & Hp0 & _).
  assert (Hc0 : (code m =? 0) = false) by (unfold is_request in Hrq; lia).
  assert (Hpr : tm_process_request s0 r m = (s1, o1)).
  { unfold dispatch_message in Hd. rewrite Hrq, Hdd, Ht in Hd. unfold EMPTY in Hd. rewrite Hc0 in Hd. cbn [app] in Hd.
    unfold _process_request in Hd. rewrite Ht in Hd. destruct (tm_process_request s0 r m) as [sx ox]. injection Hd as <- <-. reflexivity. }
  pose proof (tm_process_request_acks (rpeer r) (mid m) s0 r m s1 o1 Hpr) as Hk. unfold okp in Hk. rewrite Hp0, Hcnt in Hk.
  assert (HB1 : BInv s1) by (eapply dispatch_message_ok; eauto).
  pose proof (acks_bounded es s1 s' os (rpeer r) (mid m) Hrun HB1 Hok) as Hb.
  rewrite acks_app. lia.
Qed.

(* the cells of the table without a reply are also silent towards the layers above: no handler is started or cancelled, nothing is
   delivered (for response codes a matched response is of course delivered, hence the exception) *)
Theorem misfit_no_upward s r m s' o : BInv s -> fresh s r m -> dispatch_message s r m = (s', o) ->
  table (mtype m) (classify (code m)) (known s r m) (is_multicast_locally r) = NoReply ->
  classify (code m) <> CResponse -> upward o = [].
Proof.
  intros HB Hf H Htab Hnr. unfold dispatch_message in H. unfold classify in Htab, Hnr.
  destruct (is_request (code m)) eqn:Erq.
  - destruct (dedup_fresh s r m (Hf Erq)) as (s0 & Hd & _ & _ & _ & _ & _ & _ & _ & HB0). rewrite Hd in H.
    assert (Hc0 : (code m =? 0) = false) by (unfold is_request in Erq; lia).
    rewrite Hc0 in Htab. unfold EMPTY in H. rewrite Hc0 in H.
    destruct (mtype m) eqn:Et; cbn [table] in Htab; try discriminate;
      destruct (_remove_exchange s0 r m) as [s1 o1] eqn:E1; inv H; apply remove_exchange_quiet in E1; auto;
      rewrite app_nil_r; cbn; apply quiet_replies; exact (proj1 E1).
  - unfold EMPTY in H. destruct (code m =? 0) eqn:Ec0.
    + destruct (mtype m) eqn:Et; cbn [table] in Htab; try discriminate.
      * inv H. reflexivity.
      * destruct (_remove_exchange s r m) as [s1 o1] eqn:E1. inv H. apply remove_exchange_quiet in E1; auto. rewrite app_nil_r. cbn. apply quiet_replies. exact (proj1 E1).
      * destruct (_remove_exchange s r m) as [s1 o1] eqn:E1. inv H. apply remove_exchange_quiet in E1; auto. rewrite app_nil_r. cbn. apply quiet_replies. exact (proj1 E1).
    + destruct (is_response (code m)) eqn:Ers; [contradiction Hnr; reflexivity|].
      destruct (mtype m) eqn:Et; try (inv H; reflexivity);
        destruct (_remove_exchange s r m) as [s1 o1] eqn:E1; inv H; apply remove_exchange_quiet in E1; auto;
        rewrite app_nil_r; cbn; apply quiet_replies; exact (proj1 E1).
Qed.

(* a CON request that is answered at once (absent resource: 4.04, unknown method: 4.05, fast resource, raising resource: 5.00) is
   acknowledged in the very step of its arrival, by exactly one ACK-typed message under its message ID, and leaves no opportunity behind *)
Lemma send_response_hit s r req c rnr pl s' o M h : aget pk_eqb (piggy s) (rpeer r, token req) = Some (M, h) -> is_response c = true ->
  send_response s r req c rnr pl = (s', o) ->
  acks (rpeer r) M o = 1%nat /\ aget pk_eqb (piggy s') (rpeer r, token req) = None.
Proof.
  intros Hg Hc H. unfold send_response in H.
  match type of H with context [send_message ?x ?rr ?aa ?mm ?q] => destruct (send_message x rr aa mm q) as [[sx ox] e] eqn:Es; set (a := aa) in Es end.
  injection H as <- <-.
  assert (Hg' : aget pk_eqb (piggy s) (rpeer (as_response_address r), a_token a) = Some (M, h)) by (rewrite rpeer_ara; exact Hg).
  destruct (no_response_of a) eqn:En.
  - destruct (send_message_suppressed_ack s (as_response_address r) a MonResp (Some (mtype req)) M h Hc Hg' En) as (sy & Hy & Hp & _).
    rewrite Hy in Es. injection Es as <- <- _. split.
    + unfold acks. cbn. rewrite !rpeer_ara, !Z.eqb_refl. reflexivity.
    + rewrite Hp. cbn [a_token a]. rewrite rpeer_ara. apply aget_adel_same.
  - destruct (send_message_piggyback s (as_response_address r) a MonResp (Some (mtype req)) M h Hc Hg' En) as (sy & Hy & Hp & _).
    rewrite Hy in Es. injection Es as <- <- _. split.
    + unfold acks. cbn. rewrite !rpeer_ara, !Z.eqb_refl. reflexivity.
    + rewrite Hp. cbn [a_token a]. rewrite rpeer_ara. apply aget_adel_same.
Qed.

Theorem immediate_answer_piggybacked s r m s1 o1 : mtype m = CON -> is_request (code m) = true ->
  path m <> 0 \/ ~ (1 <= code m <= 7) -> fresh s r m -> aget pk_eqb (piggy s) (rpeer r, token m) = None ->
  dispatch_message s r m = (s1, o1) ->
  acks (rpeer r) (mid m) o1 = 1%nat /\ aget pk_eqb (piggy s1) (rpeer r, token m) = None.
Proof.
  intros Ht Hrq Himm Hf Ho3 Hd.
  destruct (dedup_fresh s r m (Hf Hrq)) as (s0 & Hdd & Hp0 & _).
  assert (Hc0 : (code m =? 0) = false) by (unfold is_request in Hrq; lia).
  assert (Hpr : _process_request s0 r m = (s1, o1)).
  { unfold dispatch_message in Hd. rewrite Hrq, Hdd, Ht in Hd. unfold EMPTY in Hd. rewrite Hc0 in Hd. cbn [app] in Hd.
    destruct (_process_request s0 r m) as [sx ox]. injection Hd as <- <-. reflexivity. }
  rewrite <- Hp0 in Ho3. clear Hd Hdd.
  unfold _process_request in Hpr. rewrite Ht in Hpr. unfold call_later_a in Hpr. cbv zeta in Hpr. cbn [piggy set_atimers] in Hpr. rewrite Ho3 in Hpr.
  match type of Hpr with tm_process_request ?x r m = _ => set (sa := x) in Hpr end.
  assert (Hga : aget pk_eqb (piggy sa) (rpeer r, token m) = Some (mid m, seq s0)) by (subst sa; cbn [piggy set_piggy]; apply aget_aset_same).
  unfold tm_process_request in Hpr.
  set (q := match aget ik_eqb (incoming sa) (token m, rpeer r) with Some sv => _ | None => (sa, []) end) in Hpr.
  assert (Hq : piggy (fst q) = piggy sa /\ acks (rpeer r) (mid m) (snd q) = 0%nat) by (subst q; destruct (aget ik_eqb _ _); cbn; auto).
  destruct q as [sb ob]. cbn [fst snd] in Hq. destruct Hq as [Hpb Hab]. rewrite <- Hpb in Hga.
  dlet Hpr s2 o2 E. injection Hpr as <- <-. rewrite acks_app, Hab. cbn [Nat.add].
  assert (Hresp : forall c rnr pl, is_response c = true -> send_response sb r m c rnr pl = (s2, o2) ->
            acks (rpeer r) (mid m) o2 = 1%nat /\ aget pk_eqb (piggy s2) (rpeer r, token m) = None)
    by (intros; eapply send_response_hit; eauto).
  destruct (negb _) eqn:E1; [eapply Hresp; [|exact E]; reflexivity|].
  destruct (negb ((1 <=? code m) && (code m <=? 7))) eqn:E2; [eapply Hresp; [|exact E]; reflexivity|].
  destruct (path m =? 0) eqn:E3. { exfalso. destruct Himm as [Hp|Hc]; [lia|apply Hc; lia]. }
  destruct (path m =? 1).
  - eapply Hresp; [|exact E]. unfold default_code. destruct ((code m =? 1) || (code m =? 5)); [reflexivity|]. destruct (code m =? 4); reflexivity.
  - eapply Hresp; [|exact E]; reflexivity.
Qed.
