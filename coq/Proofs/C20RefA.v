(* C20 — preliminaries for the refinement (C20Refine.v): str(i) injective, update_params ignores the timer.
   refinement of the resource-directory model (heap + two indexes + timers) to the abstract directory of
   Model/C20Spec.v: every request and every passage of time commutes with [abs] and is answered as the specification answers. *)
From Coq Require Import String DecimalString DecimalZ DecimalFacts DecimalPos.
From Verif Require Import Lib.Py Lib.Tactics Model.C20Str Model.C20 Model.C20Spec Proofs.C20Dict Proofs.C20Up Proofs.C20 Proofs.C20More.
Open Scope Z_scope.

(* ------------------------------------------------------------------ str(i) is injective *)
Lemma to_int_nonnil z : Z.to_int z <> Decimal.Pos Decimal.Nil /\ Z.to_int z <> Decimal.Neg Decimal.Nil.
Proof.
  destruct z; cbn; split; try discriminate.
  - intros H. injection H as H. apply (f_equal Pos.of_uint) in H. rewrite DecimalPos.Unsigned.of_to in H. discriminate.
  - intros H. injection H as H. apply (f_equal Pos.of_uint) in H. rewrite DecimalPos.Unsigned.of_to in H. discriminate.
Qed.
Lemma str_of_Z_inj a b : str_of_Z a = str_of_Z b -> a = b.
Proof.
  unfold str_of_Z. intros H. apply (f_equal NilZero.int_of_string) in H.
  rewrite !NilZero.isi in H by apply to_int_nonnil.
  injection H as H. apply (f_equal Z.of_int) in H. rewrite !DecimalZ.of_to in H. exact H.
Qed.

(* ------------------------------------------------------------------ update_params does not read the timer *)
Ltac break_atomic :=
  match goal with
  | |- context [if existsb ?f ?l then _ else _] => destruct (existsb f l) eqn:?
  | |- context [match ?x with _ => _ end] =>
      lazymatch x with
      | context [match _ with _ => _ end] => fail
      | _ => destruct x eqn:?
      end
  end.

Lemma update_params_timer_indep r x remote p init t s s' :
  update_params (set_timer r x) remote p init t s' =
  match update_params r remote p init t s with
  | UpOk r' => UpOk (set_timer r' (Some (t + (r_lt r' + GRACE_PERIOD) * 1000000, s')))
  | UpFail r' e => UpFail (set_timer r' x) e
  end.
Proof.
  destruct r as [rk rp rl rb re rpar rli rt].
  unfold update_params, bind, pop_single_arg, _set_timeout, set_timer, set_lt, set_base, set_params.
  cbn [r_key r_path r_lt r_base r_base_explicit r_params r_links r_timer].
  repeat (break_atomic; cbn [r_key r_path r_lt r_base r_base_explicit r_params r_links r_timer fst snd] in *; try discriminate); try reflexivity.
  all: cbn [r_key r_path r_lt r_base r_base_explicit r_params r_links r_timer fst snd] in *; congruence.
Qed.

