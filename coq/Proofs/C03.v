(* C03 — proofs about the retransmission model (Model/C03.v).
   Part 1: dict lemmas.  Part 2: structural invariant [Struct] (NSTART relation between _active_exchanges and _backlogs,
   well-formed closures, no internal exception).  Part 3: history invariant [Good] (copies of a message follow the
   doubling schedule, at most 1+MAX_RETRANSMIT, and an exchange ends only by ACK/RST or by the give-up at the deadline). *)
From Coq Require Import Permutation.
From Verif Require Import Lib.Py Lib.Tactics Model.C03.
Open Scope Z_scope.

(* ------------------------------------------------------------------ Part 1: dicts *)
Lemma key_eqb_true : forall a b, key_eqb a b = true <-> a = b.
Proof. intros [a1 a2] [b1 b2]. unfold key_eqb; cbn. rewrite andb_true_iff, !Z.eqb_eq. split; [intros [-> ->]; auto | intros H; inv H; auto]. Qed.
Lemma key_eqb_false : forall a b, key_eqb a b = false <-> a <> b.
Proof. intros a b. rewrite <- key_eqb_true. destruct (key_eqb a b); split; congruence. Qed.
Lemma key_eqb_refl : forall a, key_eqb a a = true.
Proof. intros a. apply key_eqb_true. reflexivity. Qed.

Definition exch := ((Z * Z) * (Z * timer))%type.
Definition e_timer (e : exch) : timer := snd (snd e).
Definition e_remote (e : exch) : Z := fst (fst e).
Definition e_rid (e : exch) : Z := m_rid (h_message (e_timer e)).

Lemma xget_in : forall k v (l : list exch), xget k l = Some v -> In (k, v) l.
Proof.
  intros k v l. unfold xget. match goal with |- context [find ?f l] => destruct (find f l) as [e|] eqn:F end; [|discriminate].
  intros H; inv H. apply find_some in F. destruct F as [Hin Hk]. apply key_eqb_true in Hk. destruct e as [k' v']; cbn in *; subst. exact Hin.
Qed.
Lemma in_xdel : forall k (l : list exch) e, In e (xdel k l) <-> In e l /\ fst e <> k.
Proof. intros. unfold xdel. rewrite filter_In, negb_true_iff, key_eqb_false. tauto. Qed.
Lemma in_xset : forall k v (l : list exch) e, In e (xset k v l) <-> e = (k, v) \/ (In e l /\ fst e <> k).
Proof. intros. unfold xset. cbn. rewrite in_xdel. intuition. Qed.

Lemma nodup_map_filter : forall {A B} (f : A -> B) (g : A -> bool) l, NoDup (map f l) -> NoDup (map f (filter g l)).
Proof.
  induction l as [|a l IH]; cbn; intros H; [constructor|]. apply NoDup_cons_iff in H. destruct H as [Hn Hd].
  destruct (g a); cbn; auto. constructor; auto. intros Hin. apply Hn. apply in_map_iff in Hin. destruct Hin as [x [Hx Hin]].
  apply filter_In in Hin. apply in_map_iff. exists x. tauto.
Qed.
Lemma in_unique_remote : forall (l : list exch) e1 e2, NoDup (map e_remote l) -> In e1 l -> In e2 l -> e_remote e1 = e_remote e2 -> e1 = e2.
Proof.
  induction l as [|a l IH]; cbn; intros e1 e2 H H1 H2 Hr; [tauto|]. apply NoDup_cons_iff in H. destruct H as [Hn Hd].
  destruct H1 as [->|H1], H2 as [->|H2]; auto.
  - exfalso. apply Hn. rewrite Hr. apply in_map. exact H2.
  - exfalso. apply Hn. rewrite <- Hr. apply in_map. exact H1.
Qed.
Lemma xget_of_in : forall (l : list exch) k v, NoDup (map e_remote l) -> In (k, v) l -> xget k l = Some v.
Proof.
  intros l k v N Hin. unfold xget. match goal with |- context [find ?f l] => destruct (find f l) as [e|] eqn:F end.
  - apply find_some in F. destruct F as [Hin' Hk]. apply key_eqb_true in Hk.
    assert (e = (k, v)) as -> by (apply (in_unique_remote l); auto; unfold e_remote; rewrite Hk; reflexivity). reflexivity.
  - exfalso. apply (find_none _ _ F) in Hin. cbn in Hin. rewrite key_eqb_refl in Hin. discriminate.
Qed.

Lemma has_exchange_iff : forall st r, has_exchange_with st r = true <-> exists e, In e (active_exchanges st) /\ e_remote e = r.
Proof.
  intros. unfold has_exchange_with. rewrite existsb_exists. split; intros [e [H1 H2]]; exists e; split; auto.
  - apply Z.eqb_eq in H2. exact H2.
  - apply Z.eqb_eq. exact H2.
Qed.
Lemma has_exchange_false : forall st r, has_exchange_with st r = false <-> forall e, In e (active_exchanges st) -> e_remote e <> r.
Proof.
  intros. split.
  - intros H e Hin Hr. assert (has_exchange_with st r = true) by (apply has_exchange_iff; eauto). congruence.
  - intros H. destruct (has_exchange_with st r) eqn:E; auto. apply has_exchange_iff in E. destruct E as [e [H1 H2]]. exfalso. eapply H; eauto.
Qed.

Definition bent := (Z * list (message * Z))%type.
Lemma qget_in : forall r q (l : list bent), qget r l = Some q -> In (r, q) l.
Proof.
  intros r q l. unfold qget. match goal with |- context [find ?f l] => destruct (find f l) as [e|] eqn:F end; [|discriminate].
  intros H; inv H. apply find_some in F. destruct F as [Hin Hk]. apply Z.eqb_eq in Hk. destruct e; cbn in *; subst. exact Hin.
Qed.
Lemma qget_none : forall r (l : list bent), qget r l = None <-> ~ In r (map fst l).
Proof.
  intros r l. unfold qget. match goal with |- context [find ?f l] => destruct (find f l) as [e|] eqn:F end.
  - apply find_some in F. destruct F as [Hin Hk]. apply Z.eqb_eq in Hk. split; [discriminate|]. intros H. exfalso. apply H. rewrite <- Hk. apply in_map. exact Hin.
  - split; auto. intros _ Hin. apply in_map_iff in Hin. destruct Hin as [x [Hx Hin]]. apply (find_none _ _ F) in Hin. cbn in Hin. apply Z.eqb_neq in Hin. auto.
Qed.
Lemma in_qdel : forall r (l : list bent) e, In e (qdel r l) <-> In e l /\ fst e <> r.
Proof. intros. unfold qdel. rewrite filter_In, negb_true_iff, Z.eqb_neq. tauto. Qed.
Lemma in_qset : forall r v (l : list bent) e, In e (qset r v l) <-> e = (r, v) \/ (In e l /\ fst e <> r).
Proof. intros. unfold qset. cbn. rewrite in_qdel. intuition. Qed.
Lemma qget_qset_same : forall r v (l : list bent), qget r (qset r v l) = Some v.
Proof. intros. unfold qget, qset. cbn. rewrite Z.eqb_refl. reflexivity. Qed.
Lemma qget_qdel_other : forall r r' (l : list bent), r <> r' -> qget r' (qdel r l) = qget r' l.
Proof.
  intros r r' l Hne. unfold qget, qdel. induction l as [|a l IH]; cbn; auto.
  destruct (fst a =? r) eqn:E; cbn.
  - apply Z.eqb_eq in E. assert (fst a =? r' = false) as -> by (apply Z.eqb_neq; congruence). exact IH.
  - destruct (fst a =? r'); auto.
Qed.
Lemma qget_qdel_same : forall r (l : list bent), qget r (qdel r l) = None.
Proof. intros. apply qget_none. intros Hin. apply in_map_iff in Hin. destruct Hin as [x [Hx Hin]]. apply in_qdel in Hin. tauto. Qed.
Lemma qget_qset_other : forall r r' v (l : list bent), r <> r' -> qget r' (qset r v l) = qget r' l.
Proof. intros. unfold qset. unfold qget at 1. cbn. assert (r =? r' = false) as -> by (apply Z.eqb_neq; congruence). fold (qget r' (qdel r l)). apply qget_qdel_other; auto. Qed.
Lemma nodup_qdel : forall r (l : list bent), NoDup (map fst l) -> NoDup (map fst (qdel r l)).
Proof. intros. apply nodup_map_filter. auto. Qed.
Lemma nodup_qset : forall r v (l : list bent), NoDup (map fst l) -> NoDup (map fst (qset r v l)).
Proof.
  intros. unfold qset. cbn. constructor; [|apply nodup_qdel; auto].
  intros Hin. apply in_map_iff in Hin. destruct Hin as [x [Hx Hin]]. apply in_qdel in Hin. tauto.
Qed.
Lemma qget_of_in : forall (l : list bent) r q, NoDup (map fst l) -> In (r, q) l -> qget r l = Some q.
Proof.
  induction l as [|a l IH]; cbn; intros r q N Hin; [tauto|]. apply NoDup_cons_iff in N. destruct N as [Hn Hd]. unfold qget. cbn.
  destruct Hin as [->|Hin]; cbn.
  - rewrite Z.eqb_refl. reflexivity.
  - destruct (fst a =? r) eqn:E.
    + apply Z.eqb_eq in E. exfalso. apply Hn. rewrite E. change r with (fst (r, q)). apply in_map. exact Hin.
    + apply IH; auto.
Qed.

(* ------------------------------------------------------------------ the timer order *)
Lemma min_timer_in : forall (l : list exch) h, min_timer l = Some h -> exists e, In e l /\ e_timer e = h.
Proof.
  induction l as [|a l IH]; cbn; intros h H; [discriminate|].
  destruct (min_timer l) as [h'|] eqn:M.
  - destruct (timer_before h' (snd (snd a))); inv H.
    + destruct (IH _ eq_refl) as [e [H1 H2]]. eauto.
    + exists a. auto.
  - inv H. exists a. auto.
Qed.
Lemma min_timer_le : forall (l : list exch) h, min_timer l = Some h -> forall e, In e l -> h_due h <= h_due (e_timer e).
Proof.
  induction l as [|a l IH]; cbn; intros h H e Hin; [tauto|].
  destruct (min_timer l) as [h'|] eqn:M.
  - specialize (IH _ eq_refl). unfold timer_before in H.
    destruct ((h_due h' <? h_due (snd (snd a))) || ((h_due h' =? h_due (snd (snd a))) && (h_seq h' <? h_seq (snd (snd a))))) eqn:B; inv H.
    + destruct Hin as [<-|Hin]; [unfold e_timer; lia | auto].
    + destruct Hin as [<-|Hin]; [unfold e_timer; lia |]. specialize (IH _ Hin). unfold e_timer in *. lia.
  - inv H. destruct Hin as [<-|Hin]; [unfold e_timer; lia|]. destruct l; [inv Hin | cbn in M; destruct (min_timer l); [destruct (timer_before _ _)|]; discriminate].
Qed.
Lemma min_timer_none : forall (l : list exch), min_timer l = None -> l = [].
Proof. destruct l; cbn; auto. destruct (min_timer l); [destruct (timer_before _ _)|]; discriminate. Qed.
