(* C09 — tie of the hand-written model's constants and message-ID successor to the translated source
   (Gen/c03_constants.v from numbers/constants.py class TransportTuning; Gen/c14_message_id.v from
   messagemanager.py MessageManager._next_message_id).  A change of the source constants or of the successor
   formula regenerates the Gen files and breaks these lemmas; the correspondence streams then look for the failing history. *)
From Coq Require Import ZArith QArith List Lia.
From Verif Require Import Lib.Py.
From Verif Require Gen.c03_constants Gen.c14_message_id.
From Verif Require Import Model.C09Stack.
Open Scope Z_scope.
Lemma empty_ack_delay_is_source : Qeq (inject_Z EMPTY_ACK_DELAY) (Qmult (c03_constants.tt_EMPTY_ACK_DELAY c03_constants.default_transport_tuning) (inject_Z 1000000)).
Proof. vm_compute. reflexivity. Qed.
(* robust against equivalent spellings of the successor in the source (Z.land either way round, or mod 65536) *)
Ltac mid16 :=
  cbn [c14_message_id.mmids_message_id fst snd];
  change 65535 with (Z.ones 16); change 65536 with (2 ^ 16);
  repeat rewrite (Z.land_comm (Z.ones 16));
  repeat rewrite Z.land_ones by (vm_compute; discriminate);
  first [reflexivity | repeat (f_equal; try lia)].

(* the successor the model inlines in send_message, [Z.land 65535 (1 + mid)], is the translated method's *)
Lemma next_message_id_is_source : forall mid,
  c14_message_id.next_message_id {| c14_message_id.mmids_message_id := mid |}
  = Ok ({| c14_message_id.mmids_message_id := Z.land 65535 (1 + mid) |}, mid).
Proof. intros mid. unfold c14_message_id.next_message_id. mid16. Qed.
