(* C15 — proofs about TcpConnection.data_received: fuel, segmentation independence, invariants. *)
From Verif Require Import Lib.Py Lib.Tactics Lib.PyLemmas Gen.options_ext Gen.tcp_framing Model.C15 Proofs.C15Framing Proofs.C15Codec.
Open Scope Z_scope.

(* ---------------------------------------------------------------- the spool is only touched by the loop itself *)
Definition on_conn3 {B} (f : conn -> conn) (r : conn * list out * B) : conn * list out * B :=
  let '(c, o, b) := r in (f c, o, b).

Lemma set_spool_same c : set_spool c (spool c) = c.
Proof. destruct c; reflexivity. Qed.

Lemma send_message_spool c s m : send_message (set_spool c s) m = on_conn3 (fun c => set_spool c s) (send_message c m).
Proof. unfold send_message. destruct (serialize m); reflexivity. Qed.
Lemma abort_spool c s t b : abort (set_spool c s) t b = on_conn3 (fun c => set_spool c s) (abort c t b).
Proof. unfold abort. destruct (serialize _); reflexivity. Qed.

Lemma process_csm_options_spool : forall os c st s,
  process_csm_options (set_spool c s) st os =
  (let '(c1, st1, o, ok) := process_csm_options c st os in (set_spool c1 s, st1, o, ok)).
Proof.
  induction os as [|[n v] r IH]; intros c st s; [reflexivity|].
  cbn [process_csm_options].
  destruct (n =? 2); [apply IH|]. destruct (n =? 4); [apply IH|].
  destruct (is_critical n); [|apply IH].
  rewrite abort_spool. destruct (abort c _ _) as [[c1 o1] ok]. reflexivity.
Qed.
Lemma process_signaling_spool c s m :
  process_signaling (set_spool c s) m = on_conn3 (fun c => set_spool c s) (process_signaling c m).
Proof.
  unfold process_signaling.
  destruct (code m =? CSM).
  { change (remote_settings (set_spool c s)) with (remote_settings c).
    rewrite process_csm_options_spool.
    destruct (process_csm_options c _ (opts m)) as [[[c1 s1] o] ok]. reflexivity. }
  destruct ((code m =? PING) || (code m =? PONG) || (code m =? RELEASE) || (code m =? ABORT)).
  { destruct (has_critical (opts m)).
    { rewrite abort_spool. destruct (abort c _ None) as [[c1 o1] ok]. reflexivity. }
    destruct (code m =? PING).
    { rewrite send_message_spool. destruct (send_message c _) as [[c2 o2] ok2]. reflexivity. }
    destruct (code m =? PONG); [reflexivity|]. destruct (code m =? RELEASE); reflexivity. }
  rewrite abort_spool. destruct (abort c _ _) as [[c1 o1] ok]. reflexivity.
Qed.
Lemma process_signaling_keeps_spool c m : spool (fst (fst (process_signaling c m))) = spool c.
Proof.
  rewrite <- (set_spool_same c) at 1. rewrite process_signaling_spool.
  destruct (process_signaling c m) as [[c1 o] r]. reflexivity.
Qed.

(* ---------------------------------------------------------------- one iteration, as "which frame" + "what it does" *)
Inductive view := VNeed | VBig | VFrame (frame rest : bytes).
Definition view_of (maxsize : Z) (sp : bytes) : view :=
  match header sp with
  | None => VNeed
  | Some (a, t, l) =>
    if a + t + l >? maxsize then VBig
    else if a + t + l >? blen sp then VNeed
    else VFrame (bto sp (a + t + l)) (bfrom sp (a + t + l))
  end.
(* FStop: the method returns; FNext: go round the loop again *)
Inductive fres := FStop (c : conn) (o : list out) | FNext (c : conn) (o : list out).
Definition frame_step (c : conn) (f r : bytes) : fres :=
  match decode_message f with
  | Raise UnparsableMessage =>
    let '(c1, o1, _) := abort c txt_failed_to_parse None in FStop c1 o1
  | Raise e => FStop c [Escaped e]
  | Ok m =>
    let c' := set_spool c r in
    if is_signalling (code m) then
      let '(c1, o1, res) := process_signaling c' m in
      match res with
      | SExc => FStop c1 o1
      | SOk => if closed c1 then FStop c1 o1 else FNext c1 o1
      | SClose e => FStop (set_closed c1) (o1 ++ [DispatchError e; Close])
      end
    else
      match remote_settings c' with
      | None => let '(c1, o1, _) := abort c' txt_no_csm None in FStop c1 o1
      | Some _ => FNext c' (dispatch_incoming m)
      end
  end.
Definition view_body (rec : conn -> conn * list out * ctl) (c : conn) : conn * list out * ctl :=
  match view_of (my_max_message_size c) (spool c) with
  | VNeed => (c, [], Continue)
  | VBig => let '(c1, o1, _) := abort c txt_overly_large None in (c1, o1, Return)
  | VFrame f r =>
    match frame_step c f r with
    | FStop c1 o1 => (c1, o1, Return)
    | FNext c1 o1 => let '(c2, o2, k) := rec c1 in (c2, o1 ++ o2, k)
    end
  end.

Lemma loop_body_view rec c : loop_body rec c = view_body rec c.
Proof.
  unfold loop_body, view_body, view_of. rewrite extract_message_size_spec.
  destruct (header (spool c)) as [[[a t] l]|]; [|reflexivity].
  destruct (a + t + l >? my_max_message_size c); [reflexivity|].
  destruct (a + t + l >? blen (spool c)); [reflexivity|].
  unfold frame_step.
  destruct (decode_message _) as [m|e].
  2:{ destruct e; reflexivity. }
  destruct (is_signalling (code m)).
  { destruct (process_signaling _ m) as [[c1 o1] res]. destruct res; try reflexivity.
    destruct (closed c1); reflexivity. }
  destruct (remote_settings _); [reflexivity|].
  destruct (abort _ _ None) as [[c1 o1] ok]; reflexivity.
Qed.

(* facts about the frame view *)
Lemma view_frame_facts maxsize sp f r : bytes_ok sp = true -> view_of maxsize sp = VFrame f r ->
  sp = f ++ r /\ (length r < length sp)%nat /\ bytes_ok f = true /\ bytes_ok r = true /\
  exists a t l, header f = Some (a, t, l) /\ a + t + l = blen f /\ a + t + l <= maxsize.
Proof.
  intros Hok H. unfold view_of in H.
  destruct (header sp) as [[[a t] l]|] eqn:Hh; [|discriminate].
  destruct (a + t + l >? maxsize) eqn:H1; [discriminate|].
  destruct (a + t + l >? blen sp) eqn:H2; [discriminate|].
  injection H as <- <-.
  destruct (header_bounds sp a t l Hok Hh) as (Ha & Ht & Hl & _).
  split; [symmetry; apply bto_bfrom|].
  split. { unfold bfrom. rewrite skipn_length. unfold blen in H2. lia. }
  split; [apply bytes_ok_firstn; exact Hok|]. split; [apply bytes_ok_skipn; exact Hok|].
  exists a, t, l. rewrite blen_bto by lia. split; [|lia].
  (* the header only depends on the first (at most five) bytes, all inside the frame *)
  rewrite <- (bto_bfrom sp (a + t + l)) in Hh.
  remember (bto sp (a + t + l)) as f eqn:Ef. remember (bfrom sp (a + t + l)) as r eqn:Er.
  assert (Hlen : blen f = a + t + l) by (subst f; apply blen_bto; lia).
  clear Ef Er H2 Hok.
  destruct f as [|b0 f]; [rewrite blen_nil in Hlen; lia|].
  cbn [app] in Hh. unfold header in *.
  destruct (Z.shiftr b0 4 <? 13); [exact Hh|].
  destruct (Z.shiftr b0 4 =? 13).
  { destruct f as [|e0 f]; [|exact Hh]. cbn [app] in Hh. destruct r as [|e0 r]; [discriminate|].
    injection Hh as <- <- <-. rewrite blen_cons, blen_nil in Hlen. lia. }
  destruct (Z.shiftr b0 4 =? 14).
  { destruct f as [|e0 [|e1 f]]; [| |exact Hh]; cbn [app] in Hh.
    - destruct r as [|e0 [|e1 r]]; try discriminate. injection Hh as <- <- <-. rewrite blen_cons, blen_nil in Hlen. lia.
    - destruct r as [|e1 r]; try discriminate. injection Hh as <- <- <-. rewrite !blen_cons, blen_nil in Hlen. lia. }
  destruct f as [|e0 [|e1 [|e2 [|e3 f]]]]; [| | | |exact Hh]; cbn [app] in Hh.
  - destruct r as [|e0 [|e1 [|e2 [|e3 r]]]]; try discriminate. injection Hh as <- <- <-. rewrite blen_cons, blen_nil in Hlen. lia.
  - destruct r as [|e1 [|e2 [|e3 r]]]; try discriminate. injection Hh as <- <- <-. rewrite !blen_cons, blen_nil in Hlen. lia.
  - destruct r as [|e2 [|e3 r]]; try discriminate. injection Hh as <- <- <-. rewrite !blen_cons, blen_nil in Hlen. lia.
  - destruct r as [|e3 r]; try discriminate. injection Hh as <- <- <-. rewrite !blen_cons, blen_nil in Hlen. lia.
Qed.

Lemma view_app maxsize sp t : bytes_ok sp = true ->
  match view_of maxsize sp with
  | VNeed => True
  | VBig => view_of maxsize (sp ++ t) = VBig
  | VFrame f r => view_of maxsize (sp ++ t) = VFrame f (r ++ t)
  end.
Proof.
  intros Hok. unfold view_of.
  destruct (header sp) as [[[a tk] l]|] eqn:Hh; [|exact I].
  rewrite (header_app sp t _ Hh).
  destruct (a + tk + l >? maxsize) eqn:H1; [reflexivity|].
  destruct (a + tk + l >? blen sp) eqn:H2; [exact I|].
  destruct (header_bounds sp a tk l Hok Hh) as (Ha & Ht & Hl & _).
  rewrite blen_app. pose proof (blen_nonneg t).
  replace (a + tk + l >? blen sp + blen t) with false by lia.
  f_equal.
  - unfold bto. rewrite firstn_app. unfold blen in H2.
    replace (Z.to_nat (a + tk + l) - length sp)%nat with 0%nat by lia. cbn [firstn]. apply app_nil_r.
  - unfold bfrom. rewrite skipn_app. unfold blen in H2.
    replace (Z.to_nat (a + tk + l) - length sp)%nat with 0%nat by lia. reflexivity.
Qed.

(* ---------------------------------------------------------------- frame_step and the spool *)
Lemma abort_keeps_spool c t b : spool (fst (fst (abort c t b))) = spool c.
Proof. unfold abort. destruct (serialize _); reflexivity. Qed.

Definition map_fres (g : conn -> conn) (r : fres) : fres :=
  match r with FStop c o => FStop (g c) o | FNext c o => FNext (g c) o end.

Lemma frame_step_next_spool c f r c1 o1 : frame_step c f r = FNext c1 o1 -> spool c1 = r.
Proof.
  unfold frame_step. destruct (decode_message f) as [m|e].
  2:{ destruct e; try discriminate. }
  destruct (is_signalling (code m)).
  { pose proof (process_signaling_keeps_spool (set_spool c r) m) as Hs.
    destruct (process_signaling (set_spool c r) m) as [[c2 o2] res]. cbn [fst] in Hs.
    destruct res; try discriminate. destruct (closed c2); intros H; inv H; auto. }
  destruct (remote_settings _).
  - intros H; inv H. reflexivity.
  - destruct (abort _ _ None) as [[c2 o2] ok]. discriminate.
Qed.

Lemma frame_step_feed c f r t :
  frame_step (feed c t) f (r ++ t) = map_fres (fun c' => feed c' t) (frame_step c f r).
Proof.
  unfold frame_step, feed. destruct (decode_message f) as [m|e].
  2:{ destruct e; reflexivity. }
  change (set_spool (set_spool c (spool c ++ t)) (r ++ t)) with (set_spool c (r ++ t)).
  destruct (is_signalling (code m)).
  { rewrite (process_signaling_spool c (r ++ t)), (process_signaling_spool c r).
    pose proof (process_signaling_keeps_spool c m) as Hs.
    destruct (process_signaling c m) as [[c1 o1] res]. cbn [fst] in Hs. cbn [on_conn3].
    destruct res; try reflexivity.
    change (closed (set_spool c1 (r ++ t))) with (closed c1). change (closed (set_spool c1 r)) with (closed c1).
    destruct (closed c1); reflexivity. }
  change (remote_settings (set_spool c (r ++ t))) with (remote_settings c).
  change (remote_settings (set_spool c r)) with (remote_settings c).
  destruct (remote_settings c); [reflexivity|].
  rewrite (abort_spool c (r ++ t)), (abort_spool c r).
  destruct (abort c _ None) as [[c1 o1] ok]. reflexivity.
Qed.

(* ---------------------------------------------------------------- the fuel is irrelevant once it exceeds the spool length *)
Lemma loop_fuel : forall n n' c, bytes_ok (spool c) = true ->
  (length (spool c) < n)%nat -> (length (spool c) < n')%nat ->
  data_received_loop n c = data_received_loop n' c.
Proof.
  induction n as [|n IH]; intros n' c Hok Hn Hn'; [lia|]. destruct n' as [|n']; [lia|].
  cbn [data_received_loop]. rewrite !loop_body_view. unfold view_body.
  destruct (view_of _ (spool c)) as [| |f r] eqn:V; try reflexivity.
  destruct (view_frame_facts _ _ _ _ Hok V) as (_ & Hlen & _ & Hrok & _).
  destruct (frame_step c f r) as [c1 o1|c1 o1] eqn:FS; [reflexivity|].
  apply frame_step_next_spool in FS. rewrite (IH n' c1); rewrite ?FS; auto; lia.
Qed.

Definition loop' (c : conn) : conn * list out * ctl := data_received_loop (S (length (spool c))) c.

Lemma loop'_unfold c : bytes_ok (spool c) = true -> loop' c = view_body loop' c.
Proof.
  intros Hok. unfold loop'. cbn [data_received_loop]. rewrite loop_body_view. unfold view_body.
  destruct (view_of _ (spool c)) as [| |f r] eqn:V; try reflexivity.
  destruct (view_frame_facts _ _ _ _ Hok V) as (_ & Hlen & _ & Hrok & _).
  destruct (frame_step c f r) as [c1 o1|c1 o1] eqn:FS; [reflexivity|].
  apply frame_step_next_spool in FS.
  rewrite (loop_fuel (length (spool c)) (S (length (spool c1))) c1); rewrite ?FS; auto; lia.
Qed.

Lemma data_received_ctl_loop' c d : data_received_ctl c d = loop' (feed c d).
Proof. reflexivity. Qed.

(* ---------------------------------------------------------------- the core of segmentation independence *)
Lemma loop_feed : forall n c t, (length (spool c) < n)%nat -> bytes_ok (spool c) = true -> bytes_ok t = true ->
  loop' (feed c t) =
  match loop' c with
  | (c1, o1, Return) => (feed c1 t, o1, Return)
  | (c1, o1, Continue) => let '(c2, o2, k) := loop' (feed c1 t) in (c2, o1 ++ o2, k)
  end.
Proof.
  induction n as [|n IH]; intros c t Hn Hok Htok; [lia|].
  assert (Hok' : bytes_ok (spool (feed c t)) = true) by (cbn; rewrite bytes_ok_app, Hok, Htok; reflexivity).
  rewrite (loop'_unfold c Hok). unfold view_body at 1.
  pose proof (view_app (my_max_message_size c) (spool c) t Hok) as VA.
  destruct (view_of (my_max_message_size c) (spool c)) as [| |f r] eqn:V.
  - destruct (loop' (feed c t)) as [[c2 o2] k]. reflexivity.
  - rewrite (loop'_unfold _ Hok'). unfold view_body.
    change (spool (feed c t)) with (spool c ++ t). change (my_max_message_size (feed c t)) with (my_max_message_size c).
    rewrite VA. unfold feed at 1. rewrite abort_spool.
    pose proof (abort_keeps_spool c txt_overly_large None) as Hs.
    destruct (abort c _ None) as [[c1 o1] ok]. cbn [fst] in Hs. cbn [on_conn3]. unfold feed. rewrite Hs. reflexivity.
  - rewrite (loop'_unfold _ Hok'). unfold view_body.
    change (spool (feed c t)) with (spool c ++ t). change (my_max_message_size (feed c t)) with (my_max_message_size c).
    rewrite VA, frame_step_feed.
    destruct (view_frame_facts _ _ _ _ Hok V) as (_ & Hlen & _ & Hrok & _).
    destruct (frame_step c f r) as [c1 o1|c1 o1] eqn:FS; cbn [map_fres]; [reflexivity|].
    apply frame_step_next_spool in FS.
    rewrite (IH c1 t) by (rewrite ?FS; auto; lia).
    destruct (loop' c1) as [[c2 o2] k]. destruct k.
    + destruct (loop' (feed c2 t)) as [[c3 o3] k3]. rewrite app_assoc. reflexivity.
    + reflexivity.
Qed.

(* ---------------------------------------------------------------- close / escape bookkeeping *)
Definition esc (o : list out) : bool := existsb is_escaped o.
Definition has_close (o : list out) : bool := existsb is_close o.

Lemma esc_app a b : esc (a ++ b) = esc a || esc b. Proof. apply existsb_app. Qed.
Lemma has_close_app a b : has_close (a ++ b) = has_close a || has_close b. Proof. apply existsb_app. Qed.

Lemma upto_close_app_has : forall o x, has_close o = true -> upto_close (o ++ x) = upto_close o.
Proof.
  induction o as [|a o IH]; intros x H; [discriminate|].
  cbn [app]. destruct a; cbn [upto_close]; try reflexivity; f_equal; apply IH; exact H.
Qed.
Lemma upto_close_app_no : forall o x, has_close o = false -> upto_close (o ++ x) = o ++ upto_close x.
Proof.
  induction o as [|a o IH]; intros x H; [reflexivity|].
  cbn [app]. destruct a; cbn [upto_close]; try discriminate; cbn [app]; f_equal; apply IH; exact H.
Qed.

(* an operation on the connection that reports success: escapes iff not ok, closes only by writing Close *)
Definition op_ok {B} (c : conn) (r : conn * list out * B) (ok : bool) : Prop :=
  let '(c1, o, _) := r in
  esc o = negb ok /\ closed c1 = closed c || has_close o /\
  my_max_message_size c1 = my_max_message_size c /\ spool c1 = spool c.

Lemma abort_ok c t b : let r := abort c t b in op_ok c r (snd r).
Proof. unfold abort. destruct (serialize _); cbn; repeat split; try reflexivity; destruct (closed c); reflexivity. Qed.
Lemma send_message_ok c m : let r := send_message c m in op_ok c r (snd r).
Proof. unfold send_message. destruct (serialize _); cbn; repeat split; try reflexivity; destruct (closed c); reflexivity. Qed.

Lemma process_csm_options_ok : forall os c st,
  let '(c1, st1, o, ok) := process_csm_options c st os in op_ok c (c1, o, ok) ok.
Proof.
  induction os as [|[n v] r IH]; intros c st.
  { cbn. repeat split; try reflexivity; destruct (closed c); reflexivity. }
  cbn [process_csm_options]. destruct (n =? 2); [apply IH|]. destruct (n =? 4); [apply IH|].
  destruct (is_critical n); [|apply IH].
  pose proof (abort_ok c txt_option_not_supported (Some n)) as Ha. cbv zeta in Ha.
  destruct (abort c _ (Some n)) as [[c1 o1] ok]. cbn [snd] in Ha. exact Ha.
Qed.

Definition is_sexc (r : sigres) : bool := match r with SExc => true | _ => false end.
Lemma process_signaling_ok c m : let r := process_signaling c m in op_ok c r (negb (is_sexc (snd r))).
Proof.
  unfold process_signaling.
  destruct (code m =? CSM).
  { pose proof (process_csm_options_ok (opts m) c
      match remote_settings c with Some s => s | None => {| max_message_size := None; block_wise_transfer := false |} end) as H.
    destruct (process_csm_options c _ (opts m)) as [[[c1 s1] o] ok]. destruct H as (H1 & H2 & H3 & H4).
    cbn. destruct ok; repeat split; auto. }
  destruct ((code m =? PING) || (code m =? PONG) || (code m =? RELEASE) || (code m =? ABORT)).
  { destruct (has_critical (opts m)).
    { pose proof (abort_ok c txt_unknown_critical_option None) as Ha. cbv zeta in Ha.
      destruct (abort c _ None) as [[c1 o1] ok]. cbn [snd] in Ha. destruct Ha as (Ha1 & Ha2 & Ha3 & Ha4).
      cbn. destruct ok; repeat split; auto. }
    destruct (code m =? PING).
    { pose proof (send_message_ok c {| code := PONG; token := token m; opts := []; payload := [] |}) as Hs. cbv zeta in Hs.
      destruct (send_message c _) as [[c2 o2] ok2]. cbn [snd] in Hs. destruct Hs as (S1 & S2 & S3 & S4).
      cbn. destruct ok2; repeat split; auto. }
    assert (Hq : forall r, r <> SExc -> op_ok c (c, @nil out, r) (negb (is_sexc r))).
    { intros r Hr. destruct r; try congruence; cbn; repeat split; auto; destruct (closed c); reflexivity. }
    destruct (code m =? PONG); [apply Hq; discriminate|]. destruct (code m =? RELEASE); apply Hq; discriminate. }
  pose proof (abort_ok c txt_unknown_signalling_code None) as Ha. cbv zeta in Ha.
  destruct (abort c _ None) as [[c1 o1] ok]. cbn [snd] in Ha. destruct Ha as (Ha1 & Ha2 & Ha3 & Ha4).
  cbn. destruct ok; repeat split; auto.
Qed.

Lemma abort_stops c t b : let '(c1, o, _) := abort c t b in esc o || has_close o = true.
Proof. unfold abort. destruct (serialize _); reflexivity. Qed.

Definition frame_post (c : conn) (r : bytes) (x : fres) : Prop :=
  match x with
  | FStop c1 o1 => closed c1 = closed c || has_close o1 /\ (closed c = false -> esc o1 || has_close o1 = true) /\
                   (spool c1 = spool c \/ spool c1 = r) /\ my_max_message_size c1 = my_max_message_size c
  | FNext c1 o1 => closed c1 = closed c || has_close o1 /\ esc o1 = false /\ spool c1 = r /\
                   my_max_message_size c1 = my_max_message_size c /\ (closed c = false -> closed c1 = false)
  end.
Lemma frame_step_post c f r : frame_post c r (frame_step c f r).
Proof.
  unfold frame_step. destruct (decode_message f) as [m|e].
  2:{ assert (Hesc : frame_post c r (FStop c [Escaped e])).
      { cbn. repeat split; auto. destruct (closed c); reflexivity. }
      destruct e; try exact Hesc.
      pose proof (abort_ok c txt_failed_to_parse None) as Ha. pose proof (abort_stops c txt_failed_to_parse None) as Hb.
      cbv zeta in Ha. destruct (abort c _ None) as [[c1 o1] ok]. destruct Ha as (A1 & A2 & A3 & A4).
      cbn. repeat split; auto. }
  destruct (is_signalling (code m)).
  { pose proof (process_signaling_ok (set_spool c r) m) as H. cbv zeta in H.
    destruct (process_signaling (set_spool c r) m) as [[c1 o1] res]. cbn [snd] in H. destruct H as (H1 & H2 & H3 & H4).
    cbn [closed set_spool my_max_message_size spool] in *.
    destruct res; cbn in H1; cbn [frame_post].
    - destruct (closed c1) eqn:Hc1; cbn [frame_post].
      + split; [rewrite Hc1; exact H2|]. split; [|split; auto].
        intros Hc. rewrite Hc in H2. cbn [orb] in H2. rewrite <- H2. apply orb_true_r.
      + rewrite Hc1. repeat split; auto.
    - split; [cbn; rewrite has_close_app; cbn; rewrite !orb_true_r; reflexivity|].
      split; [intros _; rewrite has_close_app; cbn; rewrite !orb_true_r; reflexivity|]. split; cbn; auto.
    - rewrite H1. repeat split; auto. }
  change (remote_settings (set_spool c r)) with (remote_settings c).
  destruct (remote_settings c).
  { cbn. repeat split; auto.
    - unfold dispatch_incoming. destruct (code m =? 0); [destruct (closed c); reflexivity|].
      destruct (is_response (code m)); cbn; destruct (closed c); reflexivity.
    - unfold dispatch_incoming. destruct (code m =? 0); [reflexivity|]. destruct (is_response (code m)); reflexivity. }
  pose proof (abort_ok (set_spool c r) txt_no_csm None) as Ha. pose proof (abort_stops (set_spool c r) txt_no_csm None) as Hb.
  cbv zeta in Ha. destruct (abort (set_spool c r) _ None) as [[c1 o1] ok]. destruct Ha as (A1 & A2 & A3 & A4).
  cbn. repeat split; auto.
Qed.

Definition loop_post (c : conn) (r : conn * list out * ctl) : Prop :=
  let '(c1, o1, k) := r in
  closed c1 = closed c || has_close o1 /\ (esc o1 = true -> k = Return) /\
  (closed c = false -> k = Return -> esc o1 = true \/ has_close o1 = true) /\ bytes_ok (spool c1) = true /\
  my_max_message_size c1 = my_max_message_size c.

Lemma loop_inv : forall n c, (length (spool c) < n)%nat -> bytes_ok (spool c) = true -> loop_post c (loop' c).
Proof.
  induction n as [|n IH]; intros c Hn Hok; [lia|].
  rewrite (loop'_unfold c Hok). unfold view_body.
  destruct (view_of _ (spool c)) as [| |f r] eqn:V.
  - cbn. repeat split; auto; try discriminate. destruct (closed c); reflexivity.
  - pose proof (abort_ok c txt_overly_large None) as Ha. pose proof (abort_stops c txt_overly_large None) as Hb.
    cbv zeta in Ha. destruct (abort c _ None) as [[c1 o1] ok]. destruct Ha as (A1 & A2 & A3 & A4).
    cbn. repeat split; auto.
    + intros _ _. apply orb_prop in Hb. exact Hb.
    + rewrite A4. exact Hok.
  - destruct (view_frame_facts _ _ _ _ Hok V) as (Hsp & Hlen & _ & Hrok & _).
    pose proof (frame_step_post c f r) as FP.
    destruct (frame_step c f r) as [c1 o1|c1 o1]; cbn [frame_post] in FP.
    + destruct FP as (F1 & F2 & F3 & F4). cbn. repeat split; auto.
      * intros Hc _. apply orb_prop. exact (F2 Hc).
      * destruct F3 as [-> | ->]; assumption.
    + destruct FP as (F1 & F2 & F3 & F4 & F5).
      specialize (IH c1 ltac:(rewrite F3; lia) ltac:(rewrite F3; exact Hrok)).
      destruct (loop' c1) as [[c2 o2] k]. destruct IH as (I1 & I2 & I3 & I4 & I5).
      cbn [loop_post]. rewrite esc_app, has_close_app, F2, I1, F1, orb_assoc. cbn [orb].
      repeat split; auto.
      * intros Hc Hk. destruct (I3 (F5 Hc) Hk) as [E|E]; [left; exact E|right; rewrite E; apply orb_true_r].
      * congruence.
Qed.

(* ---------------------------------------------------------------- any segmentation gives the same behaviour *)
Lemma run_closed_data : forall l c, closed c = true -> run c (map EData l) = (c, []).
Proof.
  induction l as [|d l IH]; intros c Hc; [reflexivity|].
  cbn [map run step]. rewrite Hc. cbn [existsb]. rewrite IH by exact Hc. reflexivity.
Qed.

Lemma run_cons c e r : run c (e :: r) =
  let '(c1, o1) := step c e in
  if existsb is_escaped o1 then (c1, o1) else let '(c2, o2) := run c1 r in (c2, o1 ++ o2).
Proof. reflexivity. Qed.

Lemma feed_feed c a b : feed (feed c a) b = feed c (a ++ b).
Proof. unfold feed. cbn. rewrite app_assoc. reflexivity. Qed.

Lemma data_received_post c d : bytes_ok (spool c) = true -> bytes_ok d = true ->
  loop_post c (data_received_ctl c d).
Proof.
  intros Hc Hd. rewrite data_received_ctl_loop'.
  assert (Hok : bytes_ok (spool (feed c d)) = true) by (cbn; rewrite bytes_ok_app, Hc, Hd; reflexivity).
  pose proof (loop_inv (S (length (spool (feed c d)))) (feed c d) ltac:(lia) Hok) as H.
  destruct (loop' (feed c d)) as [[c1 o1] k]. exact H.
Qed.

Lemma chunking_nonempty : forall rest c d, closed c = false -> bytes_ok (spool c) = true ->
  bytes_ok d = true -> Forall (fun x => bytes_ok x = true) rest ->
  upto_close (snd (run c (map EData (d :: rest)))) = upto_close (snd (data_received c (concat (d :: rest)))).
Proof.
  induction rest as [|d2 rest IH]; intros c d Hcl Hok Hd Hrest.
  - cbn [map run step concat]. rewrite Hcl, app_nil_r.
    destruct (data_received c d) as [c1 o1]. destruct (existsb is_escaped o1); cbn [snd]; rewrite ?app_nil_r; reflexivity.
  - inversion Hrest as [|? ? Hd2 Hrest']; subst.
    change (map EData (d :: d2 :: rest)) with (EData d :: map EData (d2 :: rest)).
    rewrite run_cons. cbn [step]. rewrite Hcl.
    change (concat (d :: d2 :: rest)) with (d ++ concat (d2 :: rest)).
    assert (Htok : bytes_ok (concat (d2 :: rest)) = true).
    { clear -Hrest. induction Hrest as [|x l Hx Hl IHl]; [reflexivity|]. cbn [concat]. rewrite bytes_ok_app, Hx, IHl. reflexivity. }
    set (t := concat (d2 :: rest)) in *.
    unfold data_received at 2. rewrite data_received_ctl_loop', <- feed_feed.
    assert (Hokd : bytes_ok (spool (feed c d)) = true) by (cbn; rewrite bytes_ok_app, Hok, Hd; reflexivity).
    rewrite (loop_feed (S (length (spool (feed c d)))) (feed c d) t ltac:(lia) Hokd Htok).
    pose proof (data_received_post c d Hok Hd) as Hpost.
    unfold data_received at 1. rewrite data_received_ctl_loop' in *.
    destruct (loop' (feed c d)) as [[c1 o1] k1]. destruct Hpost as (P1 & P2 & P3 & P4 & P5).
    rewrite Hcl in P1. cbn [orb] in P1. fold (esc o1).
    destruct k1.
    + (* the loop ended by break *)
      assert (Hesc : esc o1 = false) by (destruct (esc o1); [specialize (P2 eq_refl); discriminate|reflexivity]).
      rewrite Hesc.
      specialize (IH c1 d2).
      destruct (closed c1) eqn:Hc1.
      * rewrite run_closed_data by exact Hc1.
        cbn [snd]. rewrite app_nil_r.
        rewrite <- data_received_ctl_loop'. fold t.
        destruct (data_received_ctl c1 t) as [[c2 o2] k2]. cbn [snd].
        symmetry. apply upto_close_app_has. congruence.
      * specialize (IH eq_refl P4 Hd2 Hrest'). fold t in IH.
        unfold data_received in IH. rewrite data_received_ctl_loop' in IH.
        destruct (run c1 (map EData (d2 :: rest))) as [c2 o2]. cbn [snd] in *.
        destruct (loop' (feed c1 t)) as [[c3 o3] k3]. cbn [snd] in *.
        rewrite !upto_close_app_no by congruence. rewrite IH. reflexivity.
    + (* the method returned: Abort sent and transport closed, or an exception *)
      cbn [snd].
      destruct (esc o1) eqn:Hesc; [reflexivity|].
      destruct (P3 Hcl eq_refl) as [E|E]; [congruence|].
      rewrite run_closed_data by congruence. cbn [snd]. rewrite app_nil_r. reflexivity.
Qed.

(* ---------------------------------------------------------------- a stream of serialised messages is processed message by message *)
Lemma frame_view maxsize m f rest : msg_ok m = true -> serialize m = Ok f -> blen f <= maxsize ->
  view_of maxsize (f ++ rest) = VFrame f rest /\ decode_message f = Ok m /\ bytes_ok f = true.
Proof.
  intros Hok Hser Hmax. destruct (decode_serialize m f Hok Hser) as (Hdec & Hfok & a & l & Hh & Hlen & Ha).
  split; [|split; assumption].
  unfold view_of. rewrite (header_app f rest _ Hh). rewrite Hlen.
  replace (blen f >? maxsize) with false by lia.
  rewrite blen_app. pose proof (blen_nonneg rest).
  replace (blen f >? blen f + blen rest) with false by lia.
  rewrite bto_app, bfrom_app. reflexivity.
Qed.

Lemma handle_message_spool c s m :
  handle_message (set_spool c s) m = on_conn3 (fun c => set_spool c s) (handle_message c m).
Proof.
  unfold handle_message. destruct (is_signalling (code m)).
  { rewrite process_signaling_spool. destruct (process_signaling c m) as [[c1 o1] res]. destruct res; reflexivity. }
  change (remote_settings (set_spool c s)) with (remote_settings c).
  destruct (remote_settings c); [reflexivity|].
  rewrite abort_spool. destruct (abort c _ None) as [[c1 o1] ok]. reflexivity.
Qed.
Lemma handle_message_max c m : my_max_message_size (fst (fst (handle_message c m))) = my_max_message_size c.
Proof.
  unfold handle_message. destruct (is_signalling (code m)).
  { pose proof (process_signaling_ok c m) as H. cbv zeta in H.
    destruct (process_signaling c m) as [[c1 o1] res]. destruct H as (_ & _ & H & _). destruct res; exact H. }
  destruct (remote_settings c); [reflexivity|].
  pose proof (abort_ok c txt_no_csm None) as H. cbv zeta in H.
  destruct (abort c _ None) as [[c1 o1] ok]. destruct H as (_ & _ & H & _). exact H.
Qed.
Lemma process_messages_spool : forall ms c s,
  process_messages (set_spool c s) ms = (let '(c1, o) := process_messages c ms in (set_spool c1 s, o)).
Proof.
  induction ms as [|m r IH]; intros c s; [reflexivity|].
  cbn [process_messages]. rewrite handle_message_spool.
  destruct (handle_message c m) as [[c1 o1] k]. cbn [on_conn3]. destruct k; [|reflexivity].
  rewrite IH. destruct (process_messages c1 r) as [c2 o2]. reflexivity.
Qed.

Lemma frame_step_handle c f r m : decode_message f = Ok m ->
  frame_step c f r =
  match handle_message (set_spool c r) m with
  | (c1, o1, Continue) => FNext c1 o1
  | (c1, o1, Return) => FStop c1 o1
  end.
Proof.
  intros Hdec. unfold frame_step, handle_message. rewrite Hdec.
  destruct (is_signalling (code m)).
  { destruct (process_signaling (set_spool c r) m) as [[c1 o1] res]. destruct res; try reflexivity.
    destruct (closed c1); reflexivity. }
  destruct (remote_settings (set_spool c r)); [reflexivity|].
  destruct (abort (set_spool c r) _ None) as [[c1 o1] ok]. reflexivity.
Qed.

Lemma frames_ok : forall ms bs, Forall (fun m => msg_ok m = true) ms -> frames ms = Ok bs -> bytes_ok bs = true.
Proof.
  induction ms as [|m r IH]; intros bs Hok H; [cbn in H; inv H; reflexivity|].
  inversion Hok as [|? ? Hm Hr]; subst. cbn [frames] in H.
  destruct (serialize m) as [f|] eqn:Hf; [|discriminate]. cbn [bind] in H.
  destruct (frames r) as [fs|] eqn:Hfs; [|discriminate]. cbn [bind] in H. injection H as <-.
  destruct (decode_serialize m f Hm Hf) as (_ & Hfok & _). rewrite bytes_ok_app, Hfok, (IH fs Hr eq_refl). reflexivity.
Qed.

Lemma stream_refines : forall ms c bs,
  Forall (fun m => msg_ok m = true) ms -> Forall (fun m => fits (my_max_message_size c) m = true) ms ->
  frames ms = Ok bs -> spool c = bs ->
  let '(c1, o1, k) := loop' c in let '(c2, o2) := process_messages c ms in
  o1 = o2 /\ set_spool c1 [] = set_spool c2 [] /\ (k = Continue -> spool c1 = []).
Proof.
  induction ms as [|m r IH]; intros c bs Hok Hfit Hfr Hsp.
  - cbn in Hfr. injection Hfr as <-. unfold loop'. cbn [data_received_loop]. rewrite loop_body_view.
    unfold view_body, view_of. rewrite Hsp. cbn. repeat split; auto.
  - inversion Hok as [|? ? Hm Hr]; subst. inversion Hfit as [|? ? Hfm Hfr']; subst.
    cbn [frames] in Hfr.
    destruct (serialize m) as [f|] eqn:Hf; [|discriminate]. cbn [bind] in Hfr.
    destruct (frames r) as [fs|] eqn:Hfs; [|discriminate]. cbn [bind] in Hfr. injection Hfr as Hbs.
    unfold fits in Hfm. rewrite Hf in Hfm.
    destruct (frame_view (my_max_message_size c) m f fs Hm Hf ltac:(lia)) as (V & Hdec & Hfok).
    pose proof (frames_ok r fs Hr Hfs) as Hfsok.
    assert (Hcok : bytes_ok (spool c) = true) by (rewrite <- Hbs, bytes_ok_app, Hfok, Hfsok; reflexivity).
    rewrite (loop'_unfold c Hcok). unfold view_body. rewrite <- Hbs, V.
    rewrite (frame_step_handle c f fs m Hdec), handle_message_spool.
    cbn [process_messages].
    pose proof (handle_message_max c m) as Hmax.
    destruct (handle_message c m) as [[c' o'] k']. cbn [fst] in Hmax. cbn [on_conn3].
    destruct k'.
    + specialize (IH (set_spool c' fs) fs Hr). cbn [my_max_message_size set_spool] in IH. rewrite Hmax in IH.
      specialize (IH Hfr' eq_refl eq_refl).
      rewrite process_messages_spool in IH.
      destruct (loop' (set_spool c' fs)) as [[c1 o1] k1].
      destruct (process_messages c' r) as [c2 o2]. destruct IH as (-> & IH2 & IH3).
      split; [reflexivity|]. split; [exact IH2|exact IH3].
    + repeat split; auto. discriminate.
Qed.
