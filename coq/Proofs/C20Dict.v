(* C20 — lemmas about the insertion-ordered dictionaries of Model/C20.v *)
From Coq Require Import String.
From Verif Require Import Lib.Py Lib.Tactics Model.C20Str Model.C20.
Open Scope Z_scope.

Section DictLemmas.
  Context {K V : Type} (eqb : K -> K -> bool).
  Hypothesis eqb_spec : forall a b, eqb a b = true <-> a = b.

  Lemma eqb_refl' k : eqb k k = true. Proof. apply eqb_spec. reflexivity. Qed.
  Lemma eqb_neq a b : a <> b -> eqb a b = false.
  Proof. intros H. destruct (eqb a b) eqn:E; [|reflexivity]. apply eqb_spec in E. contradiction. Qed.

  Lemma dget_In (d : list (K * V)) k v : dget eqb d k = Some v -> In (k, v) d.
  Proof.
    induction d as [|[k' v'] d IH]; cbn; [discriminate|].
    destruct (eqb k' k) eqn:E; intros H.
    - apply eqb_spec in E. inv H. left. reflexivity.
    - right. apply IH. exact H.
  Qed.
  Lemma In_dget (d : list (K * V)) k v : NoDup (map fst d) -> In (k, v) d -> dget eqb d k = Some v.
  Proof.
    induction d as [|[k' v'] d IH]; cbn; intros ND H; [contradiction|].
    inv ND. destruct H as [H|H].
    - inv H. rewrite eqb_refl'. reflexivity.
    - destruct (eqb k' k) eqn:E.
      + apply eqb_spec in E. subst. exfalso. apply H2. apply (in_map fst) in H. exact H.
      + apply IH; assumption.
  Qed.
  Lemma dget_None_notin (d : list (K * V)) k : dget eqb d k = None -> ~ In k (map fst d).
  Proof.
    induction d as [|[k' v'] d IH]; cbn; intros H; [tauto|].
    destruct (eqb k' k) eqn:E; [discriminate|]. intros [A|A].
    - subst. rewrite eqb_refl' in E. discriminate.
    - apply IH; assumption.
  Qed.
  Lemma notin_dget_None (d : list (K * V)) k : ~ In k (map fst d) -> dget eqb d k = None.
  Proof.
    intros H. destruct (dget eqb d k) eqn:E; [|reflexivity]. exfalso. apply H.
    apply dget_In in E. apply (in_map fst) in E. exact E.
  Qed.
  Lemma dmem_true (d : list (K * V)) k : dmem eqb d k = true <-> exists v, dget eqb d k = Some v.
  Proof. unfold dmem. destruct (dget eqb d k); split; intros H; try discriminate; eauto. destruct H; discriminate. Qed.
  Lemma dmem_false (d : list (K * V)) k : dmem eqb d k = false <-> dget eqb d k = None.
  Proof. unfold dmem. destruct (dget eqb d k); split; intros H; try discriminate; eauto. Qed.

  (* ---- dset *)
  Lemma dset_keys_in (d : list (K * V)) k v k0 : In k0 (map fst (dset eqb d k v)) <-> k0 = k \/ In k0 (map fst d).
  Proof.
    induction d as [|[k' v'] d IH]; cbn.
    - split; intros [H|H]; auto; try contradiction.
    - destruct (eqb k' k) eqn:E; cbn.
      + apply eqb_spec in E. subst. intuition (subst; auto).
      + rewrite IH. intuition (subst; auto).
  Qed.
  Lemma NoDup_dset (d : list (K * V)) k v : NoDup (map fst d) -> NoDup (map fst (dset eqb d k v)).
  Proof.
    induction d as [|[k' v'] d IH]; cbn; intros ND.
    - constructor; [tauto|constructor].
    - inv ND. destruct (eqb k' k) eqn:E; cbn.
      + constructor; assumption.
      + constructor; [|apply IH; assumption]. rewrite dset_keys_in. intros [A|A]; [|contradiction].
        subst. rewrite eqb_refl' in E. discriminate.
  Qed.
  Lemma In_dset (d : list (K * V)) k v k0 v0 : NoDup (map fst d) ->
    (In (k0, v0) (dset eqb d k v) <-> (k0 = k /\ v0 = v) \/ (k0 <> k /\ In (k0, v0) d)).
  Proof.
    induction d as [|[k' v'] d IH]; cbn; intros ND.
    - split; [intros [H|[]]; inv H; auto | intros [[-> ->]|[_ []]]; auto].
    - inv ND. destruct (eqb k' k) eqn:E; cbn.
      + apply eqb_spec in E. subst. split.
        * intros [H|H]; [inv H; auto|]. right. split; [|auto]. intros ->. apply H1. apply (in_map fst) in H. exact H.
        * intros [[-> ->]|[N [H|H]]]; auto. inv H. contradiction.
      + rewrite (IH H2). split.
        * intros [H|[H|H]]; [inv H|auto|tauto]. right. split; [|auto]. intros ->. rewrite eqb_refl' in E. discriminate.
        * intros [H|[N [H|H]]]; auto.
  Qed.
  Lemma dget_dset_same (d : list (K * V)) k v : dget eqb (dset eqb d k v) k = Some v.
  Proof.
    induction d as [|[k' v'] d IH]; cbn; [rewrite eqb_refl'; reflexivity|].
    destruct (eqb k' k) eqn:E; cbn; rewrite E; auto.
  Qed.
  Lemma dget_dset_other (d : list (K * V)) k v k0 : k0 <> k -> dget eqb (dset eqb d k v) k0 = dget eqb d k0.
  Proof.
    intros N. induction d as [|[k' v'] d IH]; cbn.
    - rewrite eqb_neq; auto.
    - destruct (eqb k' k) eqn:E; cbn.
      + apply eqb_spec in E. subst. rewrite eqb_neq; auto.
      + rewrite IH. reflexivity.
  Qed.
  Lemma dset_same (d : list (K * V)) k v : dget eqb d k = Some v -> dset eqb d k v = d.
  Proof.
    induction d as [|[k' v'] d IH]; cbn; [discriminate|].
    destruct (eqb k' k) eqn:E; intros H.
    - inv H. reflexivity.
    - rewrite IH; auto.
  Qed.
  Lemma dset_length_mem (d : list (K * V)) k v : dmem eqb d k = true -> length (dset eqb d k v) = length d.
  Proof.
    unfold dmem. induction d as [|[k' v'] d IH]; cbn; [discriminate|].
    destruct (eqb k' k) eqn:E; cbn; intros H; auto.
  Qed.
  Lemma map_fst_dset_mem (d : list (K * V)) k v : dmem eqb d k = true -> map fst (dset eqb d k v) = map fst d.
  Proof.
    unfold dmem. induction d as [|[k' v'] d IH]; cbn; [discriminate|].
    destruct (eqb k' k) eqn:E; cbn; intros H; auto. rewrite IH; auto.
  Qed.

  (* ---- ddel *)
  Lemma ddel_keys_in (d : list (K * V)) k k0 : NoDup (map fst d) -> (In k0 (map fst (ddel eqb d k)) <-> k0 <> k /\ In k0 (map fst d)).
  Proof.
    induction d as [|[k' v'] d IH]; cbn; intros ND; [tauto|].
    inv ND. destruct (eqb k' k) eqn:E; cbn.
    - apply eqb_spec in E. subst. split.
      + intros H. split; auto. intros ->. contradiction.
      + intros [N [H|H]]; [congruence|auto].
    - rewrite (IH H2). split.
      + intros [H|H]; [|tauto]. subst. split; auto. intros ->. rewrite eqb_refl' in E. discriminate.
      + tauto.
  Qed.
  Lemma NoDup_ddel (d : list (K * V)) k : NoDup (map fst d) -> NoDup (map fst (ddel eqb d k)).
  Proof.
    induction d as [|[k' v'] d IH]; cbn; intros ND; [constructor|].
    inv ND. destruct (eqb k' k) eqn:E; cbn; [assumption|].
    constructor; [|apply IH; assumption]. rewrite ddel_keys_in by assumption. tauto.
  Qed.
  Lemma In_ddel (d : list (K * V)) k k0 v0 : NoDup (map fst d) -> (In (k0, v0) (ddel eqb d k) <-> k0 <> k /\ In (k0, v0) d).
  Proof.
    induction d as [|[k' v'] d IH]; cbn; intros ND; [tauto|].
    inv ND. destruct (eqb k' k) eqn:E; cbn.
    - apply eqb_spec in E. subst. split.
      + intros H. split; auto. intros ->. apply H1. apply (in_map fst) in H. exact H.
      + intros [N [H|H]]; [inv H; congruence|auto].
    - rewrite (IH H2). split.
      + intros [H|H]; [|tauto]. inv H. split; auto. intros ->. rewrite eqb_refl' in E. discriminate.
      + tauto.
  Qed.
  Lemma dget_ddel_other (d : list (K * V)) k k0 : k0 <> k -> dget eqb (ddel eqb d k) k0 = dget eqb d k0.
  Proof.
    intros N. induction d as [|[k' v'] d IH]; cbn; [reflexivity|].
    destruct (eqb k' k) eqn:E; cbn.
    - apply eqb_spec in E. subst. rewrite eqb_neq; auto.
    - rewrite IH. reflexivity.
  Qed.
  Lemma dget_ddel_same (d : list (K * V)) k : NoDup (map fst d) -> dget eqb (ddel eqb d k) k = None.
  Proof.
    intros ND. apply notin_dget_None. rewrite ddel_keys_in by assumption. tauto.
  Qed.
  Lemma ddel_notin (d : list (K * V)) k : ~ In k (map fst d) -> ddel eqb d k = d.
  Proof.
    induction d as [|[k' v'] d IH]; cbn; intros H; [reflexivity|].
    destruct (eqb k' k) eqn:E.
    - apply eqb_spec in E. subst. tauto.
    - rewrite IH; tauto.
  Qed.
  (* order-preserving views *)
  Lemma ddel_filter (d : list (K * V)) k : NoDup (map fst d) -> ddel eqb d k = filter (fun kv => negb (eqb (fst kv) k)) d.
  Proof.
    induction d as [|[k' v'] d IH]; cbn; intros ND; [reflexivity|].
    inv ND. destruct (eqb k' k) eqn:E; cbn.
    - apply eqb_spec in E. subst. rewrite <- (IH H2). symmetry. apply ddel_notin. assumption.
    - rewrite IH by assumption. reflexivity.
  Qed.
End DictLemmas.

Lemma ostr_eqb_spec a b : ostr_eqb a b = true <-> a = b.
Proof.
  destruct a, b; cbn; split; intros H; try discriminate; try reflexivity.
  - apply String.eqb_eq in H. congruence.
  - inv H. apply String.eqb_refl.
Qed.
Lemma key_eqb_spec (a b : key) : key_eqb a b = true <-> a = b.
Proof.
  destruct a as [a1 a2], b as [b1 b2]. unfold key_eqb. cbn. rewrite andb_true_iff, String.eqb_eq, ostr_eqb_spec.
  split; [intros [-> ->]; reflexivity | intros H; inv H; auto].
Qed.
Lemma Zeqb_spec (a b : Z) : Z.eqb a b = true <-> a = b. Proof. apply Z.eqb_eq. Qed.
