(* C03 -- round 6: which remote a NetworkError failure belongs to (pending requests are tied to the remote they were addressed to),
   and "a request fails at most once". Syntactic invariants over every function of Model/C03.v; no well-formedness needed. *)
From Verif Require Import Lib.Py Lib.Tactics Model.C03 Proofs.C03 Proofs.C03struct Proofs.C03hist Proofs.C03main.
Open Scope Z_scope.

(* the (request id, remote) pairs of the requests in an event list *)
Definition reqs_of (evs : list event) : list (Z * Z) :=
  flat_map (fun e => match e with ERequest rid r _ => [(rid, r)] | _ => [] end) evs.

(* [shrinks st res]: the function only removes pending requests *)
Definition shrinks (st : state) (res : state * list output) : Prop := incl (outgoing_requests (fst res)) (outgoing_requests st).

Lemma incl_filter : forall {A} (f : A -> bool) l, incl (filter f l) l.
Proof. intros A f l x Hx. apply filter_In in Hx. tauto. Qed.

Lemma shrinks_tm_fail : forall st rid e, shrinks st (tm_fail st rid e).
Proof. intros. unfold shrinks, tm_fail. destruct (existsb _ _); cbn; [apply incl_filter|apply incl_refl]. Qed.
Lemma shrinks_tm_dispatch : forall st e r, shrinks st (tm_dispatch_error st e r).
Proof. intros. unfold shrinks, tm_dispatch_error. cbn. apply incl_filter. Qed.
Lemma shrinks_mm_dispatch : forall st r, shrinks st (mm_dispatch_error st r).
Proof. intros. unfold shrinks, mm_dispatch_error, tm_dispatch_error. cbn. apply incl_filter. Qed.
Lemma shrinks_send_via : forall st m, shrinks st (_send_via_transport st m).
Proof. intros. unfold _send_via_transport. destruct (is_refusing st (m_remote m)); [apply shrinks_mm_dispatch|apply incl_refl]. Qed.
Lemma shrinks_send_initially : forall st m mon, shrinks st (_send_initially st m mon).
Proof.
  intros. unfold shrinks, _send_initially. destruct (_add_exchange st m mon) as [st1 o1] eqn:A.
  destruct (add_exchange_facts _ _ _ _ _ A) as (_ & _ & E3 & _).
  pose proof (shrinks_send_via st1 m) as H. unfold shrinks in H. destruct (_send_via_transport st1 m) as [st2 o2]. cbn in *. rewrite <- E3. exact H.
Qed.
Lemma shrinks_loop : forall fuel st r, shrinks st (_continue_backlog_loop fuel st r).
Proof.
  induction fuel as [|fuel IH]; intros st r; cbn [_continue_backlog_loop]; [apply incl_refl|].
  destruct (qget r (backlogs st)) as [q|]; [|apply incl_refl].
  destruct (has_exchange_with st r); [apply incl_refl|]. destruct q as [|[m mon] rest]; [apply incl_refl|].
  pose proof (shrinks_send_initially (set_backlogs st (qset r rest (backlogs st))) m mon) as H1. unfold shrinks in *.
  destruct (_send_initially _ m mon) as [st1 o1]. specialize (IH st1 r). destruct (_continue_backlog_loop fuel st1 r) as [st2 o2]. cbn in *.
  eapply incl_tran; eauto.
Qed.
Lemma shrinks_continue : forall st r, shrinks st (_continue_backlog st r).
Proof. intros. unfold _continue_backlog. destruct (qget r (backlogs st)); [apply shrinks_loop|apply incl_refl]. Qed.
Lemma shrinks_remove : forall st r mid b, shrinks st (_remove_exchange st r mid b).
Proof.
  intros. unfold _remove_exchange. destruct (xget (r, mid) (active_exchanges st)) as [[mon h]|]; [|apply incl_refl].
  set (st1 := set_exchanges st (xdel (r, mid) (active_exchanges st))).
  assert (H1 : shrinks st1 (if b then tm_fail st1 mon MessageError else (st1, []))) by (destruct b; [apply shrinks_tm_fail|apply incl_refl]).
  unfold shrinks in *. destruct (if b then tm_fail st1 mon MessageError else (st1, [])) as [st2 o1].
  pose proof (shrinks_continue st2 r) as H2. unfold shrinks in H2. destruct (_continue_backlog st2 r) as [st3 o2]. cbn in *. eapply incl_tran; eauto.
Qed.
Lemma shrinks_retransmit : forall st h, shrinks st (_retransmit st h).
Proof.
  intros. unfold _retransmit. destruct (xget _ (active_exchanges st)) as [[mon h0]|]; [|apply incl_refl].
  destruct (h_counter h <? MAX_RETRANSMIT (m_tuning (h_message h))).
  - unfold _schedule_retransmit. cbn [fst snd]. unfold shrinks. eapply incl_tran; [apply (shrinks_send_via _ _)|]. cbn. apply incl_refl.
  - cbn [backlogs set_exchanges]. destruct (qget _ (backlogs st)); [|apply incl_refl]. unfold shrinks. eapply incl_tran; [apply (shrinks_tm_dispatch _ _ _)|]. cbn. apply incl_refl.
Qed.
Lemma shrinks_send_empty : forall st b r mid, shrinks st (send_empty st b r mid).
Proof. intros. unfold send_empty. destruct (is_refusing st r); [apply shrinks_mm_dispatch|apply incl_refl]. Qed.
Lemma shrinks_response : forall st r ty mid rid, shrinks st (dispatch_response st r ty mid rid).
Proof.
  intros. unfold dispatch_response.
  assert (H1 : shrinks st (if ty =? 0 then _remove_exchange st r mid false else (st, []))) by (destruct (ty =? 0); [apply shrinks_remove|apply incl_refl]).
  unfold shrinks in *. destruct (if ty =? 0 then _remove_exchange st r mid false else (st, [])) as [st1 o1]. cbn [fst] in H1.
  destruct (tm_process_response st1 rid r) as [[succ st2] o2] eqn:P.
  assert (H2 : incl (outgoing_requests st2) (outgoing_requests st1)).
  { unfold tm_process_response in P. destruct (existsb _ (outgoing_requests st1)); inv P; cbn; [apply incl_filter|apply incl_refl]. }
  destruct (if ty =? 1 then if succ then send_empty st2 false r mid else send_empty st2 true r mid else (st2, [])) as [st3 o3] eqn:E3.
  assert (H3 : incl (outgoing_requests st3) (outgoing_requests st2)).
  { destruct (ty =? 1); [|inv E3; apply incl_refl]. destruct succ.
    - pose proof (shrinks_send_empty st2 false r mid) as H. unfold shrinks in H. rewrite E3 in H. exact H.
    - pose proof (shrinks_send_empty st2 true r mid) as H. unfold shrinks in H. rewrite E3 in H. exact H. }
  cbn [fst]. eapply incl_tran; [exact H3|]. eapply incl_tran; eauto.
Qed.
Lemma request_outgoing : forall st rid r tn, incl (outgoing_requests (fst (tm_request st rid r tn))) (outgoing_requests st ++ [(rid, r)]).
Proof.
  intros. unfold tm_request, send_message, _next_message_id. cbn [backlogs set_outgoing fst snd].
  set (st0 := {| now := now st; next_seq := next_seq st; message_id := Z.land 65535 (1 + message_id st); active_exchanges := active_exchanges st;
                 backlogs := backlogs st; outgoing_requests := outgoing_requests st ++ [(rid, r)]; rng := rng st; refusing := refusing st |}).
  destruct (qget r (backlogs st)) as [q|].
  - match goal with |- context [if ?c then _ else _] => destruct c end; [apply incl_refl|]. apply (shrinks_tm_fail st0).
  - apply (shrinks_send_initially st0).
Qed.

Lemma step_outgoing : forall st e, incl (outgoing_requests (fst (step st e))) (outgoing_requests st ++ reqs_of [e]).
Proof.
  intros st e. assert (G : forall res, shrinks st res -> incl (outgoing_requests (fst res)) (outgoing_requests st ++ reqs_of [e])).
  { intros res H x Hx. apply in_app_iff. left. apply H. exact Hx. }
  destruct e as [rid r tn|r b mid|t| | |r|rid|r ty mid rid|r on]; cbn [step].
  - cbn. apply request_outgoing.
  - apply G, shrinks_remove.
  - apply G. apply incl_refl.
  - destruct (next_timer st) as [h|]; [|apply G, incl_refl]. apply G. apply (shrinks_retransmit (set_now st _) h).
  - destruct (next_timer st) as [h|]; [|apply G, incl_refl]. destruct (h_due h <=? now st); [apply G, shrinks_retransmit|apply G, incl_refl].
  - apply G, shrinks_mm_dispatch.
  - apply G. unfold shrinks, tm_cancel. cbn. apply incl_filter.
  - apply G, shrinks_response.
  - apply G, incl_refl.
Qed.

Lemma run_neterr_remote : forall evs st st' os R, refusing st = [] -> incl (outgoing_requests st) R -> no_refusal evs ->
  run st evs = (st', os) ->
  forall t rid, In (OFail t rid NetworkError) (concat os) -> exists r, In (rid, r) (R ++ reqs_of evs) /\ In (EError r) evs.
Proof.
  induction evs as [|e evs IH]; intros st st' os R Hr HR Hn H t rid Hi; cbn in H.
  - inv H. destruct Hi.
  - destruct (step st e) as [st1 o] eqn:E. destruct (run st1 evs) as [st2 os2] eqn:Rn. inv H. cbn in Hi. apply in_app_iff in Hi.
    assert (Hout1 : incl (outgoing_requests st1) ((R ++ reqs_of [e]))).
    { pose proof (step_outgoing st e) as Ho. rewrite E in Ho. cbn [fst] in Ho. intros x Hx. apply Ho in Hx. apply in_app_iff in Hx. apply in_app_iff. destruct Hx; auto. }
    assert (Happ : reqs_of (e :: evs) = reqs_of [e] ++ reqs_of evs) by (unfold reqs_of; cbn; rewrite app_nil_r; reflexivity).
    assert (Hd : (exists r, e = EError r) \/ forall r, e <> EError r) by (destruct e; try (right; intros; discriminate); left; eauto).
    destruct Hd as [[r ->]|Hne].
    + destruct Hi as [Hi|Hi].
      * cbn [step] in E. unfold mm_dispatch_error, tm_dispatch_error in E. inv E. apply in_map_iff in Hi. destruct Hi as [p [Hp Hin]]. inv Hp.
        apply filter_In in Hin. destruct Hin as [Hin Hs]. cbn in Hs. apply Z.eqb_eq in Hs. exists r. split; [|left; reflexivity].
        apply in_app_iff. left. apply HR. destruct p; cbn in *; subst; exact Hin.
      * assert (Hr1 : refusing st1 = []) by (cbn [step] in E; unfold mm_dispatch_error, tm_dispatch_error in E; inv E; exact Hr).
        destruct (IH st1 _ os2 (R ++ reqs_of [EError r]) Hr1 Hout1 (fun r0 Hin => Hn r0 (or_intror Hin)) Rn t rid Hi) as [r0 [H1 H2]].
        exists r0. split; [|right; exact H2]. rewrite Happ, app_assoc. exact H1.
    + assert (Hnr : forall r, e <> ERefuse r true) by (intros r ->; apply (Hn r); left; reflexivity).
      destruct (step_clean _ _ _ _ Hr E Hnr Hne) as [Hr1 Hc].
      destruct Hi as [Hi|Hi]; [exfalso; eapply Hc; eauto|].
      destruct (IH st1 _ os2 (R ++ reqs_of [e]) Hr1 Hout1 (fun r0 Hin => Hn r0 (or_intror Hin)) Rn t rid Hi) as [r0 [H1 H2]].
      exists r0. split; [|right; exact H2]. rewrite Happ, app_assoc. exact H1.
Qed.

(* on a transport that never refuses, a request fails with NetworkError only if the transport reported an error for the very remote
   the request was addressed to; every event list *)
Lemma network_error_for_remote : forall mid0 draws evs tf rid, no_refusal evs ->
  In (OFail tf rid NetworkError) (trace_of mid0 draws evs) ->
  exists r tn, In (ERequest rid r tn) evs /\ In (EError r) evs.
Proof.
  intros mid0 draws evs tf rid Hn Hi. unfold trace_of in Hi. destruct (run (init mid0 draws) evs) as [st' os] eqn:R.
  destruct (run_neterr_remote evs (init mid0 draws) st' os [] eq_refl (incl_refl _) Hn R tf rid Hi) as [r [H1 H2]]. cbn in H1.
  unfold reqs_of in H1. apply in_flat_map in H1. destruct H1 as [e [He Hp]]. destruct e as [rid' r' tn'| | | | | | | |]; try (destruct Hp; fail). destruct Hp as [Hp|[]]. inv Hp. exists r, tn'. auto.
Qed.

(* the give-up clause with the per-remote hypothesis: no transport error for the remote THIS request was addressed to *)
Lemma gives_up_plain_remote : forall mid0 draws evs t m, wf_run draws evs -> no_refusal evs ->
  (forall r tn, In (ERequest (m_rid m) r tn) evs -> ~ In (EError r) evs) ->
  In (OSend t m) (trace_of mid0 draws evs) ->
  ~ In (m_remote m, m_mid m) (recv_keys evs) -> ~ In (err_key (m_remote m)) (recv_keys evs) -> ~ In (gone_key (m_rid m)) (recv_keys evs) ->
  exists T0 t0 n, copies (m_rid m) (trace_of mid0 draws evs) = sched_of m T0 t0 n /\ (0 < n)%nat /\ range (m_tuning m) t0 /\
    Z.of_nat n <= MAX_RETRANSMIT (m_tuning m) + 1 /\
    ( (exists e, In e (active_exchanges (final_of mid0 draws evs)) /\ h_message (e_timer e) = m /\
                 h_due (e_timer e) = T0 + t0 * (2 ^ Z.of_nat n - 1) /\ now (final_of mid0 draws evs) <= h_due (e_timer e)) \/
      (Z.of_nat n = MAX_RETRANSMIT (m_tuning m) + 1 /\
       In (OFail (T0 + t0 * (2 ^ (MAX_RETRANSMIT (m_tuning m) + 1) - 1)) (m_rid m) ConRetransmitsExceeded) (trace_of mid0 draws evs)) ) /\
    forall tf, ~ In (OFail tf (m_rid m) NetworkError) (trace_of mid0 draws evs).
Proof.
  intros mid0 draws evs t m W Hn He Hin H1 H2 H3.
  assert (Hnn : forall tf, ~ In (OFail tf (m_rid m) NetworkError) (trace_of mid0 draws evs)).
  { intros tf Hi. destruct (network_error_for_remote _ _ _ _ _ Hn Hi) as (r & tn & Hq & Hr). eapply He; eauto. }
  destruct (gives_up _ _ _ _ _ W Hin H1 H2 H3) as (T0 & t0 & n & Hc & Hn' & Hr & Hle & Hcase).
  exists T0, t0, n. splits; auto. destruct Hcase as [Hc1|[Hc2|[tf Hf]]]; auto. exfalso. eapply Hnn; eauto.
Qed.
