(* C15 — segmentation independence for histories that interleave data with outgoing messages / loss. *)
From Verif Require Import Lib.Py Lib.Tactics Lib.PyLemmas Gen.options_ext Gen.tcp_framing Model.C15 Proofs.C15Framing Proofs.C15Codec Proofs.C15Conn Proofs.C15Gate.
Open Scope Z_scope.

Definition data_ok (e : event) : Prop := match e with EData d => bytes_ok d = true | _ => True end.

Lemma loop_continue_open : forall n c, (length (spool c) < n)%nat -> bytes_ok (spool c) = true -> closed c = false ->
  let '(c1, o1, k) := loop' c in k = Continue -> closed c1 = false.
Proof.
  induction n as [|n IH]; intros c Hn Hok Hcl; [lia|].
  rewrite (loop'_unfold c Hok). unfold view_body.
  destruct (view_of _ (spool c)) as [| |f r] eqn:V; [intros _; exact Hcl| |].
  - destruct (abort c _ None) as [[c1 o1] ok]. discriminate.
  - destruct (view_frame_facts _ _ _ _ Hok V) as (_ & Hlen & _ & Hrok & _).
    pose proof (frame_step_post c f r) as FP.
    destruct (frame_step c f r) as [c1 o1|c1 o1]; [discriminate|].
    destruct FP as (_ & _ & F3 & _ & F5).
    specialize (IH c1 ltac:(rewrite F3; lia) ltac:(rewrite F3; exact Hrok) (F5 Hcl)).
    destruct (loop' c1) as [[c2 o2] k]. exact IH.
Qed.

(* a closed connection only reports connection loss, whatever its state *)
Definition closed_outs (es : list event) : list out :=
  flat_map (fun e => match e with ELost => [DispatchError ConnectionLost] | _ => [] end) es.
Lemma run_closed : forall es c, closed c = true -> run c es = (c, closed_outs es).
Proof.
  induction es as [|e es IH]; intros c Hc; [reflexivity|].
  rewrite run_cons. destruct e as [d|m| |m]; cbn [step]; rewrite ?Hc; cbn [existsb is_escaped orb]; rewrite (IH c Hc); reflexivity.
Qed.

Lemma run_app : forall pre es c, run c (pre ++ es) =
  let '(c1, o1) := run c pre in
  if esc o1 then (c1, o1) else let '(c2, o2) := run c1 es in (c2, o1 ++ o2).
Proof.
  induction pre as [|e pre IH]; intros es c.
  - cbn [app run]. cbn. destruct (run c es) as [c2 o2]. reflexivity.
  - cbn [app]. rewrite !run_cons. destruct (step c e) as [c1 o1]. fold (esc o1).
    destruct (esc o1) eqn:E1; [rewrite E1; reflexivity|].
    rewrite IH. destruct (run c1 pre) as [c2 o2]. rewrite esc_app, E1. cbn [orb].
    destruct (esc o2); [reflexivity|]. destruct (run c2 es) as [c3 o3]. rewrite app_assoc. reflexivity.
Qed.

Lemma run_bytes_ok : forall es c, bytes_ok (spool c) = true -> Forall data_ok es -> bytes_ok (spool (fst (run c es))) = true.
Proof.
  induction es as [|e es IH]; intros c Hok Hes; [exact Hok|].
  inversion Hes as [|? ? He Hes']; subst. rewrite run_cons.
  pose proof (step_gate c e Hok He) as HS. destruct (step c e) as [c1 o1]. destruct HS as [_ Hok1].
  destruct (existsb is_escaped o1); [exact Hok1|].
  specialize (IH c1 Hok1 Hes'). destruct (run c1 es) as [c2 o2]. exact IH.
Qed.

(* splitting one data chunk in two (or merging two adjacent ones) anywhere in a history changes nothing *)
Lemma split_chunk_head c a b post : bytes_ok (spool c) = true -> bytes_ok a = true -> bytes_ok b = true ->
  snd (run c (EData (a ++ b) :: post)) = snd (run c (EData a :: EData b :: post)).
Proof.
  intros Hok Ha Hb. rewrite !run_cons. cbn [step].
  destruct (closed c) eqn:Hcl.
  { cbn [existsb]. rewrite run_cons. cbn [step]. rewrite Hcl. cbn [existsb].
    destruct (run c post) as [c2 o2]. reflexivity. }
  assert (Hoka : bytes_ok (spool (feed c a)) = true) by (cbn; rewrite bytes_ok_app, Hok, Ha; reflexivity).
  unfold data_received at 1. rewrite data_received_ctl_loop', <- feed_feed.
  rewrite (loop_feed (S (length (spool (feed c a)))) (feed c a) b ltac:(lia) Hoka Hb).
  pose proof (data_received_post c a Hok Ha) as HP.
  pose proof (loop_continue_open (S (length (spool (feed c a)))) (feed c a) ltac:(lia) Hoka Hcl) as HC.
  unfold data_received at 1. rewrite data_received_ctl_loop' in *.
  destruct (loop' (feed c a)) as [[c1 o1] k1]. destruct HP as (P1 & P2 & P3 & P4 & P5).
  unfold esc in *. destruct k1.
  - (* break: the second half continues from the same state *)
    assert (Hesc : existsb is_escaped o1 = false) by (destruct (existsb is_escaped o1); [specialize (P2 eq_refl); discriminate|reflexivity]).
    rewrite Hesc. rewrite run_cons. cbn [step]. rewrite (HC eq_refl).
    unfold data_received. rewrite data_received_ctl_loop'.
    destruct (loop' (feed c1 b)) as [[c2 o2] k2]. rewrite existsb_app, Hesc. cbn [orb].
    destruct (existsb is_escaped o2); [reflexivity|].
    destruct (run c2 post) as [c3 o3]. cbn [snd]. rewrite app_assoc. reflexivity.
  - (* returned: closed (or escaped) — what is left of the chunk is never looked at *)
    destruct (existsb is_escaped o1) eqn:Hesc; [reflexivity|].
    destruct (P3 Hcl eq_refl) as [E|E]; [congruence|].
    assert (Hc1 : closed c1 = true) by (rewrite P1, E; apply orb_true_r).
    rewrite (run_closed post (feed c1 b)) by exact Hc1.
    rewrite run_cons. cbn [step]. rewrite Hc1. cbn [existsb]. rewrite (run_closed post c1 Hc1). reflexivity.
Qed.

Lemma split_chunk_anywhere : forall pre post c a b, bytes_ok (spool c) = true -> Forall data_ok pre ->
  bytes_ok a = true -> bytes_ok b = true ->
  snd (run c (pre ++ EData (a ++ b) :: post)) = snd (run c (pre ++ EData a :: EData b :: post)).
Proof.
  intros pre post c a b Hok Hpre Ha Hb. rewrite !run_app.
  pose proof (run_bytes_ok pre c Hok Hpre) as Hok1.
  destruct (run c pre) as [c1 o1]. cbn [fst] in Hok1. destruct (esc o1); [reflexivity|].
  pose proof (split_chunk_head c1 a b post Hok1 Ha Hb) as H.
  destruct (run c1 (EData (a ++ b) :: post)) as [c2 o2]. destruct (run c1 (EData a :: EData b :: post)) as [c3 o3].
  cbn [snd] in *. rewrite H. reflexivity.
Qed.
